(* C02 -- Every solver returns an honest, self-consistent result within bounded budget.
   Only statements + `exact` + Print Assumptions live here.  Model: C02_Defs (integer/boolean kernels translated from
   src/solver.cpp, src/solver/state.cpp, src/function.cpp and the 18 budget loops of src/solver/*.cpp on every run);
   proofs: C02_Proofs.

   The theorems quantify over ALL client op sequences [ops] (a solver body is a client of solver_state_t: any
   interleaving of function evaluations, update, update_if_better, update_calls and solver_t::done) and over ALL
   done()-event traces accepted by [accept].  Floating point is binary64 (Coq's PrimFloat = the bits the C++ computes;
   checked by the differential correspondence on every run); the order facts come from Flocq.

   NOT proved here (searched on the implementation on every run, see evidence `unproved_clauses_searched`):
   termination of minimize(); that every solver body only stores evaluated triples; the per-iteration evaluation
   bound B <= 1100 + 8 n of the solver bodies; f <= f0 for the line-search / RQB solvers. *)
(* Floats / Flocq are deliberately not imported: Print Assumptions then prints the primitive operations with their
   module names (PrimFloat.sub, FloatAxioms.sub_spec, ...), which is what the axiom gate whitelists *)
From Coq Require Import List ZArith Bool.
From LNGen Require Import Src_c02.
From LN Require Import C02_Defs C02_Proofs.
Import ListNotations.
Local Open Scope Z_scope.

(* ---- best-state tracking (update_if_better) ----------------------------------------------------------------- *)

(* along ANY sequence of evaluations / update_if_better / update_calls / done the best value never increases and
   stays finite *)
Theorem C02_monotone_best : forall ops w,
  forallb best_op ops = true -> ffin (sfx (wst w)) = true ->
  ffin (sfx (wst (run w ops))) = true /\ PrimFloat.leb (sfx (wst (run w ops))) (sfx (wst w)) = true.
Proof. exact run_monotone. Qed.
Print Assumptions C02_monotone_best.

(* one call: true = strict decrease and the triple is stored; false = point, value and gradient untouched *)
Theorem C02_better_strict : forall s fc gc x g f,
  ffin (sfx s) = true ->
  let '(s', r) := update_if_better s fc gc x g f in
  ffin (sfx s') = true /\ PrimFloat.leb (sfx s') (sfx s) = true /\
  (r = true -> PrimFloat.ltb (sfx s') (sfx s) = true /\ sfx s' = f /\ sx s' = x /\ sgx s' = g) /\
  (r = false -> sfx s' = sfx s /\ sx s' = sx s /\ sgx s' = sgx s).
Proof. exact better_spec. Qed.
Print Assumptions C02_better_strict.

(* whatever the current value is (even NaN / infinite), a non-finite value is never stored *)
Theorem C02_never_nonfinite : forall s fc gc x g f,
  let s' := fst (update_if_better s fc gc x g f) in sfx s' = sfx s \/ (sfx s' = f /\ ffin f = true).
Proof. exact better_never_stores_nonfinite. Qed.
Print Assumptions C02_never_nonfinite.

(* ---- honesty --------------------------------------------------------------------------------------------- *)

(* if every (x, fx) handed to update / update_if_better satisfies P (e.g. "was returned by the function at x"), so
   does the (x, fx) of the final state; with triples likewise for clients that never use the 2-argument overload *)
Theorem C02_triple_honest :
  (forall (P : list PrimFloat.float -> PrimFloat.float -> Prop) ops w,
     Forall (op_pair_ok P) ops -> P (sx (wst w)) (sfx (wst w)) ->
     P (sx (wst (run w ops))) (sfx (wst (run w ops)))) /\
  (forall (P3 : list PrimFloat.float -> list PrimFloat.float -> PrimFloat.float -> Prop) ops w,
     Forall (op_triple_ok P3) ops -> P3 (sx (wst w)) (sgx (wst w)) (sfx (wst w)) ->
     P3 (sx (wst (run w ops))) (sgx (wst (run w ops))) (sfx (wst (run w ops)))).
Proof. split; [exact run_pair|exact run_triple]. Qed.
Print Assumptions C02_triple_honest.

(* ---- evaluation counts ------------------------------------------------------------------------------------- *)

(* the reported counts never exceed the evaluations performed (counters of function_t::vgrad translated) *)
Theorem C02_counts : forall ops w,
  reported_le w ->
  sfcalls (wst (run w ops)) <= wfc w + n_eval ops /\ sgcalls (wst (run w ops)) <= wgc w + n_geval ops /\
  wfc (run w ops) = wfc w + n_eval ops /\ wgc (run w ops) = wgc w + n_geval ops.
Proof.
  intros ops w H. destruct (counts_bound ops w H) as [A B]. destruct (run_counters ops w) as [C D]. auto.
Qed.
Print Assumptions C02_counts.

(* ---- status -------------------------------------------------------------------------------------------------- *)

Theorem C02_status : forall ops w,
  status_ok (sstatus (wst w)) ->
  status_ok (sstatus (wst (run w ops))) /\
  (sstatus (wst w) <> ST_CONVERGED -> sstatus (wst (run w ops)) = ST_CONVERGED -> In (ODone true true) ops) /\
  (sstatus (wst w) <> ST_FAILED -> sstatus (wst (run w ops)) = ST_FAILED -> exists i c, In (ODone i c) ops).
Proof.
  intros ops w H. split; [apply run_status; exact H|]. split; [apply run_converged_ok|apply run_failed].
Qed.
Print Assumptions C02_status.

(* solver_t::done: stops iff converged or the step is not ok; go-on implies a valid state and leaves the status;
   `converged` is only reported for a valid state (repo commit 3c2475d) after a successful iteration (iter_ok; repo commit
   85997bc) *)
Theorem C02_done_decision : forall s fc gc i c,
  snd (done_step s fc gc i c) = c || negb (i && valid s) /\
  (snd (done_step s fc gc i c) = false ->
     sstatus (fst (done_step s fc gc i c)) = sstatus s /\ valid s = true /\ i = true /\ c = false) /\
  (snd (done_step s fc gc i c) = true ->
     sstatus (fst (done_step s fc gc i c)) = if c && (i && valid s) then ST_CONVERGED else ST_FAILED) /\
  sfcalls (fst (done_step s fc gc i c)) = fc /\ sgcalls (fst (done_step s fc gc i c)) = gc /\
  sx (fst (done_step s fc gc i c)) = sx s /\ sfx (fst (done_step s fc gc i c)) = sfx s /\
  sgx (fst (done_step s fc gc i c)) = sgx s.
Proof. exact done_decision. Qed.
Print Assumptions C02_done_decision.

(* the kernel-free reference decision applied by the driver to every observed done() call is the model's *)
Theorem C02_done_ref : forall s fc gc i c,
  done_ref s i c = (snd (done_step s fc gc i c), sstatus (fst (done_step s fc gc i c))).
Proof. exact done_ref_spec. Qed.
Print Assumptions C02_done_ref.

(* what repo commit 85997bc excludes: the decision as it was before (done_ref_prefix: status = converged && valid) reported
   `converged` for a done(state, iter_ok = false, converged = true) call on a valid state; the current one reports `failed` *)
Theorem C02_done_prefix_converged_after_failed_iteration :
  exists s, valid s = true /\ done_ref_prefix s false true = (true, ST_CONVERGED) /\ done_ref s false true = (true, ST_FAILED).
Proof. exact done_prefix_converged_after_failed_iteration. Qed.
Print Assumptions C02_done_prefix_converged_after_failed_iteration.

(* ---- history and value_test ----------------------------------------------------------------------------------- *)

(* one history entry per update_if_better call (finite or not), recording an improvement iff the call returned true *)
Theorem C02_history :
  (forall ops w, length (shist (wst (run w ops))) = (length (shist (wst w)) + n_better ops)%nat) /\
  (forall s fc gc x g f,
     let '(s', r) := update_if_better s fc gc x g f in
     exists df dx, shist s' = (df, dx) :: shist s /\ PrimFloat.ltb PrimFloat.zero df = r).
Proof. split; [exact run_hist|exact better_pushes]. Qed.
Print Assumptions C02_history.

(* value_test(patience): with k = number of calls since the most recent improvement (df, dx),
   the result is max(df, dx) if k < patience and 0 otherwise; with no improvement ever, 0 once `patience` calls were
   made and DBL_MAX before *)
Theorem C02_value_test_spec : forall s p,
  value_test s p = value_test_ref s p /\
  value_test_ref s p =
  match first_impr (shist s) with
  | None => if Z.of_nat (length (shist s)) >=? p then PrimFloat.zero else f_dmax
  | Some (k, (df, dx)) => if Z.of_nat k <? p then fmax df dx else PrimFloat.zero
  end.
Proof. intros s p. split; [apply value_test_spec|reflexivity]. Qed.
Print Assumptions C02_value_test_spec.

(* ---- budget loop ------------------------------------------------------------------------------------------- *)

(* for the loop condition of EVERY do_minimize (translated from the 18 loops): if each iteration performs at most B
   evaluations the loop exits with at most max_evals - 1 + B evaluations (or the initial count) *)
Theorem C02_budget_loop : forall cond, In cond loop_conds ->
  forall B max_evals costs n, 0 <= B -> Forall (fun c => 0 <= c <= B) costs ->
  n <= budget_loop cond max_evals n costs <= Z.max n (max_evals - 1 + B).
Proof.
  intros cond H. apply budget_loop_bound. pose proof k_loops as K. rewrite Forall_forall in K. apply K. exact H.
Qed.
Print Assumptions C02_budget_loop.

(* ---- accepted done() traces ----------------------------------------------------------------------------- *)

(* the returned state is the exit snapshot of one of the done() events (or carries the default status) *)
Theorem C02_accept_returned : forall k eps evs r, accept k eps evs r = true ->
  (exists e, In e evs /\ same_state r (ev_after e) = true) \/ sstatus r = ST_MAX_ITERS.
Proof. exact accept_returned. Qed.
Print Assumptions C02_accept_returned.

(* status in {max_iters, converged, failed}; converged only from a done() call whose flag was true on a VALID state with
   iter_ok = true (repo commit 85997bc);
   failed only from a call with iter_ok = false or an invalid state *)
Theorem C02_accept_status : forall k eps evs r, accept k eps evs r = true ->
  status_ok (sstatus r) /\
  (sstatus r = ST_CONVERGED ->
     exists e, In e evs /\ same_state r (ev_after e) = true /\ ev_conv e = true /\ ev_ret e = true /\
               valid (ev_s e) = true /\ ev_iter_ok e = true) /\
  (sstatus r = ST_FAILED ->
     exists e, In e evs /\ same_state r (ev_after e) = true /\
               (ev_iter_ok e = false \/ valid (ev_s e) = false)).
Proof. exact accept_status. Qed.
Print Assumptions C02_accept_status.

(* the precise exception: cgd / lbfgs / quasi return the previous state when the current one is invalid, hence a
   VALID snapshot whatever the status, provided the starting state is valid *)
Theorem C02_accept_ls_valid : forall eps evs r, accept KLs eps evs r = true ->
  (forall e rest, evs = e :: rest -> valid (ev_s e) = true) ->
  exists e, In e evs /\ same_state r (ev_after e) = true /\ valid (ev_s e) = true.
Proof. exact accept_ls_valid. Qed.
Print Assumptions C02_accept_ls_valid.

(* status max_iters after at least one done() call: the returned state is a valid snapshot *)
Theorem C02_accept_go_on_valid : forall k eps evs r, accept k eps evs r = true -> k <> KLoose -> evs <> [] ->
  sstatus r = ST_MAX_ITERS ->
  exists e, In e evs /\ same_state r (ev_after e) = true /\ valid (ev_s e) = true.
Proof. exact accept_go_on_valid. Qed.
Print Assumptions C02_accept_go_on_valid.

(* the clause "unless the status is failed, the returned point and value are finite": for every accepted trace of a
   solver that touches the state only before done() (all but the loose kind) the returned state is the exit snapshot of
   an event whose state was valid, hence fx, x, gx finite.  (Before repo commit 3c2475d this was false of the faithful
   model -- gd returned `converged` with fx = +inf; that trace is now rejected, see C02_nonvacuous_accept.) *)
Theorem C02_accept_not_failed_valid : forall k eps evs r, accept k eps evs r = true -> k <> KLoose -> evs <> [] ->
  sstatus r <> ST_FAILED ->
  exists e, In e evs /\ same_state r (ev_after e) = true /\ valid (ev_s e) = true /\
            ffin (sfx (ev_s e)) = true /\ all_fin (sx (ev_s e)) = true /\ all_fin (sgx (ev_s e)) = true.
Proof.
  intros k eps evs r H NK NE NF.
  destruct (accept_not_failed_valid k eps evs r H NK NE NF) as (e & I & S & V).
  destruct (valid_parts _ V) as (A & B & C & _). exists e. repeat split; auto.
Qed.
Print Assumptions C02_accept_not_failed_valid.

(* ---- the translated kernels are what the proofs assume (fails loudly when the source changes) ------------------ *)
Theorem C02_kernels :
  (forall i v, src_done_step_ok i v = i && v) /\ (forall c s, src_done_stop c s = c || negb s) /\
  (forall c k v, src_done_status c k v = if c && k then ST_CONVERGED else ST_FAILED) /\
  src_done_ret_stop = true /\ src_done_ret_go = false /\
  (forall it, src_vt_loop it = (it >? 0)) /\ (forall it, src_vt_pos it = it - 1) /\ (forall it, src_vt_index it = it - 1) /\
  (forall ii n, src_vt_none ii n = (ii =? n)) /\ (forall n p, src_vt_enough n p = (n >=? p)) /\
  (forall ii n p, src_vt_recent ii n p = (ii + p >=? n)) /\
  (forall c, src_fn_fcalls c = c + 1) /\ (forall c g f, src_fn_gcalls c g f = c + (if g =? f then 1 else 0)) /\
  Forall is_budget_cond loop_conds.
Proof. repeat split; try reflexivity. exact k_loops. Qed.
Print Assumptions C02_kernels.

(* ---- non-vacuity ------------------------------------------------------------------------------------------- *)
(* a best-state client: the hypotheses of C02_monotone_best / C02_counts / C02_status hold and the run really moves
   (10 -> 5 -> 4, the worse 7 and the NaN are rejected), converges at the second done() *)
Example C02_nonvacuous_client :
  forallb best_op ex_ops = true /\ ffin (sfx (wst ex_w0)) = true /\ reported_le ex_w0 /\
  status_ok (sstatus (wst ex_w0)) /\
  feq (sfx (wst (run ex_w0 ex_ops))) ex_four = true /\ sstatus (wst (run ex_w0 ex_ops)) = ST_CONVERGED /\
  sfcalls (wst (run ex_w0 ex_ops)) = 3 /\ sgcalls (wst (run ex_w0 ex_ops)) = 2 /\
  length (shist (wst (run ex_w0 ex_ops))) = 4%nat.
Proof. vm_compute. repeat split; auto; discriminate. Qed.

(* a line-search client storing only evaluated triples *)
Example C02_nonvacuous_honest :
  Forall (op_triple_ok ex_evaluated) ex_ops_ls /\
  ex_evaluated (sx (wst ex_w0)) (sgx (wst ex_w0)) (sfx (wst ex_w0)) /\
  sstatus (wst (run ex_w0 ex_ops_ls)) = ST_CONVERGED.
Proof.
  split; [|split; [|reflexivity]].
  - unfold ex_ops_ls. repeat (apply Forall_cons; [simpl; unfold ex_evaluated; simpl; auto 10|]). apply Forall_nil.
  - unfold ex_evaluated. simpl. auto.
Qed.

(* value_test on a history whose most recent improvement is 2 calls old: max(2, 3) = 3 for patience 3, 0 for 2 *)
Example C02_nonvacuous_value_test :
  let s := mkS [] PrimFloat.zero [] true 0 1 1 ex_hist in
  feq (value_test s 3) ex_three = true /\ feq (value_test s 2) PrimFloat.zero = true /\
  first_impr ex_hist <> None.
Proof. vm_compute. repeat split; auto; discriminate. Qed.

(* the budget loop really overshoots by B - 1 when the last admitted iteration is the expensive one *)
Example C02_nonvacuous_budget :
  In src_loop_lbfgs loop_conds /\ budget_loop src_loop_lbfgs 10 2 [3; 4; 7; 5] = 16 /\ 16 = 10 - 1 + 7.
Proof. vm_compute. repeat split; auto 20. Qed.

(* an accepted line-search trace (two events, converged at the second) and a one-event trace leaving by the budget *)
Example C02_nonvacuous_accept :
  accept KLs ex_eps [ex_e1; ex_e2] ex_r = true /\ sstatus ex_r = ST_CONVERGED /\
  accept KLs ex_eps [ex_e1] ex_r1 = true /\ sstatus ex_r1 = ST_MAX_ITERS /\
  (* invalid last state: cgd/lbfgs/quasi return the previous one (status max_iters), gd the failed one *)
  accept KLs ex_eps [ex_e1; ex_e2bad] ex_r1 = true /\ accept KGd ex_eps [ex_e1; ex_e2bad] ex_r1 = false /\
  (* `converged` with fx = +inf (the pre-fix behaviour of gd) is not an accepted trace *)
  accept KGd ex_eps [ex_e1; ex_einf] ex_rinf = false /\ valid ex_rinf = false.
Proof. vm_compute. repeat split; reflexivity. Qed.

(* ==================================================================================================================== *)
(* Extension: one complete solver body inside the model -- the loop of the line-search solvers (gd.cpp; the common       *)
(* skeleton of cgd.cpp / lbfgs.cpp / quasi.cpp), model C02_LsLoop_Defs.ls_solver_run = C02_Defs (state, done) composed  *)
(* with C07_Defs.ls_get (lsearchk_t::get + the five searches). Every theorem quantifies over EVERY oracle record `orc`   *)
(* (objective as a first-order oracle over points, dot product, direction rule, lsearch0), every configuration with      *)
(* lsearchk::max_iterations >= 1, every starting point and every amount of fuel.                                        *)
(* ==================================================================================================================== *)
From LNGen Require Import Src_c02ls.
From LN Require Import C02_LsLoop_Defs C02_LsLoop C02_LsLoop_Statements.
From LN Require C07_Defs C07_Budget.

(* (1) termination within the budget: with fuel > max_evals - 2 the run never ends for lack of fuel (C02_lsloop_fuel: the
   fuel of ls_minimize is enough); the evaluations performed, in solver_t's unit fcalls + gcalls, are at most
   max_evals - 1 + (2 * ls_bound + 1): one outer iteration = at most ls_bound probes (C07_evaluations_bounded, 1 fcall +
   1 gcall each) + one value-only evaluation of lsearch0; as many line searches as half the evaluations; every requested
   evaluation is counted; the reported counts never exceed the counters of the function *)
Theorem C02_lsloop_budget : forall orc cfg,
  0 < C07_Defs.maxit (lc_prm cfg) -> forall fuel x0,
  let r := ls_solver_run orc cfg fuel x0 in
  (Z.max 0 (lc_maxev cfg - 2) < Z.of_nat fuel -> lr_exit r <> EX_FUEL) /\
  2 <= lr_fc r + lr_gc r <=
    Z.max 2 (lc_maxev cfg - 1 + (2 * C07_Budget.ls_bound (lc_alg cfg) (C07_Defs.maxit (lc_prm cfg)) + 1)) /\
  0 <= lr_iters r /\ 2 * lr_iters r <= lr_fc r + lr_gc r /\ lr_ne r = lr_fc r /\
  sfcalls (ls_result cfg r) <= lr_fc r /\ sgcalls (ls_result cfg r) <= lr_gc r.
Proof. exact lsloop_budget. Qed.
Print Assumptions C02_lsloop_budget.

Theorem C02_lsloop_fuel : forall cfg, Z.max 0 (lc_maxev cfg - 2) < Z.of_nat (ls_fuel cfg).
Proof. exact ls_fuel_enough. Qed.
Print Assumptions C02_lsloop_fuel.

(* (2) C02_triple_honest discharged for this client: the returned (x, fx, gx) is the answer of the oracle to one of the
   evaluations the run requested, at the returned point *)
Theorem C02_lsloop_honest : forall orc cfg,
  0 < C07_Defs.maxit (lc_prm cfg) -> forall fuel x0,
  let r := ls_solver_run orc cfg fuel x0 in
  let s := ls_result cfg r in
  exists k, 0 <= k < lr_ne r /\ o_eval orc k (sx s) = (sfx s, sgx s).
Proof. exact lsloop_honest. Qed.
Print Assumptions C02_lsloop_honest.

(* (3) monotone decrease in binary64 with an Armijo-type search (backtrack, lemarechal, fletcher), for every pass through the
   loop body from ANY run state st: an accepted iterate (iter_ok) whose step is regular -- not negative, and the right-hand
   side f_k + t*c1*dg_k of state.cpp's Armijo test a finite number (lr_irreg collects the negation over the run) -- has
   f_{k+1} <= f_k, provided f_k is finite and c1 > 0 *)
Theorem C02_lsloop_step_decrease : forall orc cfg,
  0 < C07_Defs.maxit (lc_prm cfg) -> forall st,
  armijo_type (lc_alg cfg) = true -> PrimFloat.ltb PrimFloat.zero (C07_Defs.c1 (lc_prm cfg)) = true ->
  let st' := fst (ls_iter orc cfg st) in
  lr_ok st' = true -> lr_irreg st' = false -> PrimFloat.is_finite (sfx (lr_c st)) = true ->
  PrimFloat.leb (sfx (lr_c st')) (sfx (lr_c st)) = true.
Proof. exact iter_decrease. Qed.
Print Assumptions C02_lsloop_step_decrease.

(* ... hence the clause "the value is not larger than the starting value unless the status is failed": whenever no irregular
   step was accepted, a run that does not end `failed` returns a value <= f(x0). (Before repo commit 85997bc this was FALSE of
   the faithful model and stated as C02_lsloop_not_worse_unless_failed_refuted: a failed line search whose last trial point
   passes the gradient test was reported `converged`; see C02_lsloop_prefix_trap.) *)
Theorem C02_lsloop_not_worse_unless_failed : C02_lsloop_not_worse_unless_failed_full_statement.
Proof. intros orc cfg fuel x0 M A C. exact (lsloop_not_worse orc cfg M A C x0 fuel). Qed.
Print Assumptions C02_lsloop_not_worse_unless_failed.

(* the old witness: the run now ends `failed`; the pre-fix decision on the same last done() call says `converged`, value above
   the start *)
Theorem C02_lsloop_prefix_trap :
  let c := ex_cfg BGd C07_Defs.Backtrack 1 100 in
  let r := ex_run ex_trap c ex_zero in
  sstatus (ls_result c r) = ST_FAILED /\ lr_ok r = false /\ lr_irreg r = false /\ valid (lr_c r) = true /\
  PrimFloat.ltb (gradient_test (lr_c r)) (lc_eps c) = true /\ PrimFloat.ltb ex_zero (sfx (ls_result c r)) = true /\
  done_ref_prefix (lr_c r) (lr_ok r) (PrimFloat.ltb (gradient_test (lr_c r)) (lc_eps c)) = (true, ST_CONVERGED) /\
  done_ref (lr_c r) (lr_ok r) (PrimFloat.ltb (gradient_test (lr_c r)) (lc_eps c)) = (true, ST_FAILED).
Proof. exact s_prefix_trap. Qed.
Print Assumptions C02_lsloop_prefix_trap.

(* CG_DESCENT (the default lsearchk) and the slack the property allows: an accepted iterate satisfies Armijo, or the
   approximate Armijo bound f_k + epsilon*|f_k|, or comes from "bracketing failed" (no acceptance condition evaluated);
   More-Thuente: see C07_morethuente_success_cases (its own sufficient-decrease bound, or one of four early exits) *)
Theorem C02_lsloop_cgdescent_slack : forall orc cfg,
  0 < C07_Defs.maxit (lc_prm cfg) -> forall st, lc_alg cfg = C07_Defs.CGDescent ->
  let st' := fst (ls_iter orc cfg st) in
  lr_ok st' = true ->
  let f0 := sfx (lr_c st) in
  let f := sfx (lr_c st') in
  let t := lr_last st' in
  PrimFloat.leb f (PrimFloat.add f0 (PrimFloat.mul (PrimFloat.mul t (C07_Defs.c1 (lc_prm cfg))) (C07_Defs.pg (it_p0 orc cfg st)))) = true \/
  PrimFloat.leb f (PrimFloat.add f0 (PrimFloat.mul (C07_Defs.cg_epsilon (lc_prm cfg)) (PrimFloat.abs f0))) = true \/
  exists iv, C07_Defs.rx (it_r orc cfg st) = C07_Defs.XCG iv true.
Proof. exact iter_cg_slack. Qed.
Print Assumptions C02_lsloop_cgdescent_slack.

(* (4) status facts of the returned state: the status is one of the three; `converged` only with a valid state on which the
   gradient criterion holds AND the last line search succeeded (repo commit 85997bc); `failed` only for the current state after a failed line search or with an invalid state;
   `max_iters` only with a valid state, through the budget test (or lack of fuel) or because cgd/lbfgs/quasi hand back
   pstate for an invalid cstate; cgd/lbfgs/quasi return a valid state whenever the loop was entered *)
Theorem C02_lsloop_status : forall orc cfg,
  0 < C07_Defs.maxit (lc_prm cfg) -> forall fuel x0,
  let r := ls_solver_run orc cfg fuel x0 in
  let s := ls_result cfg r in
  status_ok (sstatus s) /\
  (sstatus s = ST_CONVERGED -> valid s = true /\ PrimFloat.ltb (gradient_test s) (lc_eps cfg) = true /\ lr_ok r = true) /\
  (sstatus s = ST_FAILED -> s = lr_c r /\ (lr_ok r = false \/ valid s = false)) /\
  (sstatus s = ST_MAX_ITERS ->
     valid s = true /\
     (lr_exit r = EX_BUDGET \/ lr_exit r = EX_FUEL \/ (lc_body cfg <> BGd /\ valid (lr_c r) = false /\ s = lr_p r))) /\
  (lc_body cfg <> BGd -> lr_exit r <> EX_INIT -> valid s = true).
Proof. exact lsloop_status. Qed.
Print Assumptions C02_lsloop_status.

(* the translated kernels of the four solver bodies are what the proofs assume: the loop condition and which state the final
   `return` hands back (fails when gd.cpp / cgd.cpp / lbfgs.cpp / quasi.cpp change) *)
Theorem C02_lsloop_kernels :
  (forall b fc gc m, loop_cond b fc gc m = (fc + gc <? m)) /\
  (forall b v, ret_current b v = match b with BGd => true | _ => v end) /\
  src_ret_gd = 1 /\ (forall v, src_ret_cgd v = if v then 1 else 0) /\
  (forall v, src_ret_lbfgs v = if v then 1 else 0) /\ (forall v, src_ret_quasi v = if v then 1 else 0).
Proof. split; [exact loop_cond_spec|]. split; [exact ret_current_spec|]. repeat split; intros []; reflexivity. Qed.
Print Assumptions C02_lsloop_kernels.

(* non-vacuity: runs that converge in the loop / before the loop, leave through the budget test after several accepted
   iterates with a regular step and a smaller value, return a valid state on a bounded domain; and the trap behind the
   refuted statement *)
Example C02_nonvacuous_lsloop :
  ex_show (ex_cfg BGd C07_Defs.Backtrack 128 100) (ex_run ex_parab (ex_cfg BGd C07_Defs.Backtrack 128 100) ex_zero)
  = ([ex_one], ex_zero, ST_CONVERGED, (4, 4), 1, (true, false), EX_DONE) /\
  (let r := ex_run ex_quartic (ex_cfg BGd C07_Defs.Lemarechal 128 12) ex_one in
   lr_exit r = EX_BUDGET /\ sstatus (ls_result (ex_cfg BGd C07_Defs.Lemarechal 128 12) r) = ST_MAX_ITERS /\
   2 <= lr_iters r /\ 12 <= lr_fc r + lr_gc r /\ lr_irreg r = false /\
   PrimFloat.ltb (sfx (ls_result (ex_cfg BGd C07_Defs.Lemarechal 128 12) r)) ex_one = true) /\
  (let c := ex_cfg BLbfgs C07_Defs.Backtrack 2 40 in let r := ex_run ex_box c ex_zero in
   valid (ls_result c r) = true) /\
  ex_show (ex_cfg BCgd C07_Defs.Fletcher 128 100) (ex_run ex_parab (ex_cfg BCgd C07_Defs.Fletcher 128 100) ex_one)
  = ([ex_one], ex_zero, ST_CONVERGED, (1, 1), 0, (true, false), EX_INIT) /\
  (let c := ex_cfg BGd C07_Defs.Backtrack 1 100 in let r := ex_run ex_trap c ex_zero in
   sstatus (ls_result c r) = ST_FAILED /\ lr_ok r = false /\ PrimFloat.ltb ex_zero (sfx (ls_result c r)) = true) /\
  0 < C07_Defs.maxit (lc_prm (ex_cfg BGd C07_Defs.Lemarechal 128 12)) /\
  armijo_type (lc_alg (ex_cfg BGd C07_Defs.Lemarechal 128 12)) = true /\
  PrimFloat.ltb PrimFloat.zero (C07_Defs.c1 (lc_prm (ex_cfg BGd C07_Defs.Lemarechal 128 12))) = true.
Proof. split; [|split; [|split; [|split; [|split]]]]; try exact (proj1 s_examples); vm_compute; repeat split; try reflexivity; try discriminate. Qed.

(* ==================================================================================================================== *)
(* Extension 2: the bodies of the simplest best-state solvers inside the model, as whole runs -- src/solver/sgm.cpp,       *)
(* cocob.cpp, pdsgm.cpp (sda, wda): model C02_Bodies_Defs.body_run = the common skeleton b_run over a `rule` (how the next   *)
(* point is computed) composed with C02_Defs (state, update_if_better, value_test, done). Every theorem quantifies over      *)
(* EVERY oracle record (objective as a first-order oracle over points: any function, also non-convex / non-smooth /          *)
(* returning non-finite values; lpNorm<2>; libm pow and tanh), every configuration (epsilon, max_evals, patience, the        *)
(* body's parameter: any binary64 / integer value), every starting point and every amount of fuel.                          *)
(* ==================================================================================================================== *)
From LNGen Require Import Src_c02b.
From LN Require Import C02_Bodies_Defs C02_Bodies C02_Bodies_Statements.

(* (1) termination within the budget: with fuel > max_evals - 2 the run never ends for lack of fuel (the fuel of body_minimize
   is enough); every pass performs EXACTLY ONE evaluation (value + sub-gradient: fcalls = gcalls = evaluations requested =
   passes + 1) and at most one done() call more than passes (the zero-sub-gradient exit); the evaluations, in solver_t's unit
   fcalls + gcalls, are at most max(2, max_evals + 1) -- the property's max_evals + 1100 + 8 dim with room; the reported counts
   never exceed the function's counters *)
Theorem C02_bodies_budget : forall b orc cfg fuel x0,
  let r := body_run b orc cfg fuel x0 in
  (Z.max 0 (bc_maxev cfg - 2) < Z.of_nat fuel -> br_exit r <> BX_FUEL) /\
  br_fc r = br_ne r /\ br_gc r = br_ne r /\ br_ne r = br_iters r + 1 /\ 0 <= br_iters r /\
  br_iters r <= br_dones r <= br_iters r + 1 /\
  2 <= br_fc r + br_gc r <= Z.max 2 (bc_maxev cfg + 1) /\
  sfcalls (br_s r) <= br_fc r /\ sgcalls (br_s r) <= br_gc r.
Proof. intros b orc cfg fuel x0. exact (generic_budget orc _ cfg (rule_loop b orc cfg x0) fuel x0). Qed.
Print Assumptions C02_bodies_budget.

Theorem C02_bodies_fuel : forall cfg, Z.max 0 (bc_maxev cfg - 2) < Z.of_nat (b_fuel cfg).
Proof. exact b_fuel_enough. Qed.
Print Assumptions C02_bodies_fuel.

(* the same for ANY rule computing the next point, provided its loop condition is the budget test: termination and the
   evaluation count do not depend on how the iterate is computed *)
Theorem C02_bodies_budget_any_rule : forall orc R cfg,
  (forall fc gc m, r_loop R fc gc m = (fc + gc <? m)) -> forall fuel x0,
  let r := b_run orc R cfg fuel x0 in
  (Z.max 0 (bc_maxev cfg - 2) < Z.of_nat fuel -> br_exit r <> BX_FUEL) /\
  br_fc r = br_ne r /\ br_gc r = br_ne r /\ br_ne r = br_iters r + 1 /\ 0 <= br_iters r /\
  br_iters r <= br_dones r <= br_iters r + 1 /\
  2 <= br_fc r + br_gc r <= Z.max 2 (bc_maxev cfg + 1) /\
  sfcalls (br_s r) <= br_fc r /\ sgcalls (br_s r) <= br_gc r.
Proof. exact generic_budget. Qed.
Print Assumptions C02_bodies_budget_any_rule.

(* (2a) C02_triple_honest discharged for these clients: the returned (x, fx, gx) is the answer of the oracle to one of the
   evaluations the run requested, at the returned point *)
Theorem C02_bodies_honest : forall b orc cfg fuel x0,
  let r := body_run b orc cfg fuel x0 in
  exists k, 0 <= k < br_ne r /\ bo_eval orc k (sx (br_s r)) = (sfx (br_s r), sgx (br_s r)).
Proof. intros b orc cfg fuel x0. exact (generic_honest orc _ cfg (rule_loop b orc cfg x0) fuel x0). Qed.
Print Assumptions C02_bodies_honest.

(* (2b) the returned state is the best state: whenever the starting value is finite the returned value is finite and
   fx <= f(x0) in binary64 (these bodies only ever call update_if_better: C02_better_strict at every pass) *)
Theorem C02_bodies_best : forall b orc cfg fuel x0,
  let r := body_run b orc cfg fuel x0 in
  ffin (fst (bo_eval orc 0 x0)) = true ->
  ffin (sfx (br_s r)) = true /\ PrimFloat.leb (sfx (br_s r)) (fst (bo_eval orc 0 x0)) = true.
Proof. intros b orc cfg fuel x0. exact (generic_best orc _ cfg (rule_loop b orc cfg x0) fuel x0). Qed.
Print Assumptions C02_bodies_best.

(* (3a) status facts through solver_t::done: the status is one of the three; `converged` only for a valid state from a done()
   call with both flags true; `failed` only from a done() call with iter_ok = false (the last value was not finite) or an
   invalid state; `max_iters` only through the budget test (or lack of fuel); unless `failed`, the state is valid (x, fx, gx
   finite) as soon as one done() call was made -- before that it is the starting state *)
Theorem C02_bodies_status : forall b orc cfg fuel x0,
  let r := body_run b orc cfg fuel x0 in
  let s := br_s r in
  status_ok (sstatus s) /\
  (sstatus s = ST_CONVERGED ->
     valid s = true /\ br_ok r = true /\ br_conv r = true /\ (br_exit r = BX_DONE \/ br_exit r = BX_ZERO)) /\
  (sstatus s = ST_FAILED ->
     1 <= br_dones r /\ (br_exit r = BX_DONE \/ br_exit r = BX_ZERO) /\ (br_ok r = false \/ valid s = false)) /\
  (sstatus s = ST_MAX_ITERS ->
     (br_exit r = BX_BUDGET /\ bc_maxev cfg <= br_fc r + br_gc r \/ br_exit r = BX_FUEL \/
      br_exit r = BX_ZERO /\ br_conv r = false /\ br_ok r = true) /\
     (1 <= br_dones r -> valid s = true)) /\
  (sstatus s <> ST_FAILED -> 1 <= br_dones r -> valid s = true).
Proof. intros b orc cfg fuel x0. exact (generic_status orc _ cfg (rule_loop b orc cfg x0) fuel x0). Qed.
Print Assumptions C02_bodies_status.

(* (3b) what `converged` means for sgm / cocob / sda / wda, exactly: value_test(patience) < epsilon on the returned state right
   after an evaluation with a finite value -- or the exact zero-sub-gradient exit (max |g_i| < DBL_EPSILON at the current
   iterate; sgm, sda, wda only) *)
Theorem C02_bodies_converged : forall b orc cfg fuel x0,
  let r := body_run b orc cfg fuel x0 in
  let s := br_s r in
  sstatus s = ST_CONVERGED ->
  valid s = true /\
  ((br_exit r = BX_DONE /\ PrimFloat.ltb (value_test s (bc_patience cfg)) (bc_eps cfg) = true /\
    ffin (fst (bo_eval orc (br_ne r - 1) (a_x (br_a r)))) = true) \/
   (br_exit r = BX_ZERO /\ b <> BCocob /\ zero_grad (a_g (br_a r)) = true)).
Proof. exact bodies_converged. Qed.
Print Assumptions C02_bodies_converged.

(* ... and NOT more: the stronger reading "converged => the returned value is near the smallest value" is false of the faithful
   model (witness: sgm on a steep kink next to the start; reproduced on the real solver, see notes/C02.md). C02 does not promise
   optimality: this is recorded, not a violation *)
Theorem C02_bodies_converged_near_optimal_refuted : C02_bodies_converged_near_optimal_refuted_statement.
Proof. exact bodies_converged_near_optimal_refuted. Qed.
Print Assumptions C02_bodies_converged_near_optimal_refuted.

(* (4) what makes the iterations well defined.
   cocob: after `L = max(L, |gx|)` no L_i is below |gx_i| (for ALL values, NaN included); no component of the reward is
   negative; positive finite L_i stay positive and finite on finite sub-gradients (the divisors L_i and G_i + L_i);
   sgm / sda / wda: on the executed path (zero-sub-gradient exit not taken) max|g_i| >= DBL_EPSILON, hence the divisor
   g.lpNorm<2>() is positive whenever it is a finite number not below max|g_i| (a property of the real reduction, checked on
   every recorded norm); sgm's lambda = 1 / pow(iteration + 1, power) is positive only as far as libm's pow is: for an
   arbitrary oracle it is not (refuted; checked on every recorded value) *)
Theorem C02_cocob_invariants :
  (forall L g, zipP (fun l gi => PrimFloat.ltb l (PrimFloat.abs gi) = false) (cocob_L L g) g) /\
  (forall rw x x0 g, Forall (fun r => PrimFloat.ltb r PrimFloat.zero = false) (cocob_reward rw x x0 g)) /\
  (forall L g,
     Forall (fun l => PrimFloat.is_finite l = true /\ PrimFloat.ltb PrimFloat.zero l = true) L ->
     Forall (fun gi => PrimFloat.is_finite gi = true) g ->
     Forall (fun l => PrimFloat.is_finite l = true /\ PrimFloat.ltb PrimFloat.zero l = true) (cocob_L L g)).
Proof. split; [exact cocob_L_ge|]. split; [exact cocob_reward_nonneg|exact cocob_L_pos]. Qed.
Print Assumptions C02_cocob_invariants.

Theorem C02_bodies_division_guard :
  (forall b orc cfg x0 s a, b <> BCocob -> r_exit (rule_of b orc cfg x0) s a = None -> zero_grad (a_g a) = false) /\
  (forall g nrm, zero_grad g = false -> PrimFloat.is_finite (maxabs g) = true -> PrimFloat.is_finite nrm = true ->
                 PrimFloat.leb (maxabs g) nrm = true -> PrimFloat.ltb PrimFloat.zero nrm = true).
Proof. split; [exact rule_no_exit|exact guard_norm_pos]. Qed.
Print Assumptions C02_bodies_division_guard.

Theorem C02_sgm_lambda_positive_refuted :
  exists orc p k, PrimFloat.ltb PrimFloat.zero (sgm_lambda orc p k) = false.
Proof. exact sgm_lambda_positive_refuted. Qed.
Print Assumptions C02_sgm_lambda_positive_refuted.

(* the translated decisions of the three source files are what the proofs assume (fails when sgm.cpp / cocob.cpp / pdsgm.cpp
   change): loop condition, flags of the zero-sub-gradient exit and after an evaluation, base of pow and the iteration counter,
   which L0 cocob reads, the reset test of pdsgm's model *)
Theorem C02_bodies_kernels :
  (forall b orc cfg x0 fc gc m, r_loop (rule_of b orc cfg x0) fc gc m = (fc + gc <? m)) /\
  (forall v, src_sgm_zero_exit v = v) /\ src_sgm_zero_ok = true /\ src_sgm_zero_conv = true /\
  (forall i, src_sgm_pow_base i = i + 1) /\ (forall i, src_sgm_next_iter i = i + 1) /\ src_sgm_iter0 = 0 /\
  (forall v, src_sgm_iter_ok v = v) /\ (forall v, src_sgm_conv v = v) /\
  (forall v, src_cocob_L0 v = if v then 1 else 0) /\ (forall v, src_cocob_iter_ok v = v) /\ (forall v, src_cocob_conv v = v) /\
  (forall v, src_pdsgm_zero_exit v = v) /\ (forall v, src_pdsgm_zero_ok v = v) /\ src_pdsgm_zero_conv = true /\
  (forall v, src_pdsgm_iter_ok v = v) /\ (forall v, src_pdsgm_conv v = v) /\ (forall v, src_pdsgm_reset v = v).
Proof. split; [intros b orc cfg x0; exact (rule_loop b orc cfg x0)|]. repeat split; reflexivity. Qed.
Print Assumptions C02_bodies_kernels.

(* non-vacuity: runs of the model that move and improve, leave through the budget test, take the zero-sub-gradient exit,
   end `failed` on a non-finite value keeping a valid best state, converge through the value test *)
Example C02_nonvacuous_bodies :
  (let r := body_run BSgm ex_parab (ex_bcfg 10 10 ex_one_b) (b_fuel (ex_bcfg 10 10 ex_one_b)) [PrimFloat.zero] in
   br_exit r = BX_BUDGET /\ br_iters r = 4 /\ br_fc r + br_gc r = 10 /\ sstatus (br_s r) = ST_MAX_ITERS) /\
  (let r := body_run BSgm ex_kink (ex_bcfg 1000 10 ex_one_b) (b_fuel (ex_bcfg 1000 10 ex_one_b)) [PrimFloat.zero] in
   sstatus (br_s r) = ST_CONVERGED /\ br_exit r = BX_DONE /\ br_iters r = 10) /\
  (let r := body_run BSda ex_wall (ex_bcfg 100 10 ex_one_b) (b_fuel (ex_bcfg 100 10 ex_one_b)) [PrimFloat.zero] in
   sstatus (br_s r) = ST_FAILED /\ br_ok r = false /\ valid (br_s r) = true) /\
  ffin (fst (bo_eval ex_parab 0 [PrimFloat.zero])) = true.
Proof. vm_compute. repeat split; try reflexivity; try discriminate. Qed.

(* ==================================================================================================================== *)
(* Extension 3: the remaining non-line-search bodies inside the model, as whole runs -- src/solver/ellipsoid.cpp, osga.cpp,  *)
(* universal.cpp (pgm, dgm, fgm), asga.cpp (asga2, asga4): model C02_Bodies2_Defs.body2_run = the skeleton b2_run over a      *)
(* `rule2` whose pass is a PROGRAM of evaluation requests (with the inner backtracking loop and its own cap), composed with   *)
(* C02_Defs (state, update_if_better (both overloads), value_test, done). Every theorem quantifies over EVERY oracle record    *)
(* (objective; Eigen reductions dot / lpNorm<2>; libm exp; gHg and the updated (x, H) of the n-D ellipsoid step), every        *)
(* configuration (any binary64 parameter, any integer max_evals / patience / lsearch_max_iters -- for asga2 / asga4:           *)
(* lsearch_max_iters >= 1, its registered domain is [10, 1000]), every starting point and every amount of fuel.               *)
(* ==================================================================================================================== *)
From LNGen Require Import Src_c02c.
From LN Require Import C02_Bodies2_Defs C02_Bodies2 C02_Bodies2_Statements.

(* (1) termination within the budget, with the PROVED per-pass bound B = pass_bound b cfg (fcalls + gcalls of one pass of the
   outer loop): 2 for ellipsoid (one evaluation), 3 for osga (one with, one without sub-gradient), 2 / 3 / 4 x lsearch_max_iters
   for pgm / dgm / fgm, 4 x lsearch_max_iters for asga2 / asga4 (the inner loop is capped by that parameter -- translated from
   the source: C02_bodies2_kernels). With fuel > max_evals - 2 the run never ends for lack of fuel; fcalls = evaluations
   requested, gcalls <= fcalls; fcalls + gcalls <= max(2, max_evals - 1 + B); reported counts <= the function's counters *)
Theorem C02_bodies2_budget : forall b orc cfg fuel x0, asga_cap_ok b cfg ->
  let r := body2_run b orc cfg fuel x0 in
  (Z.max 0 (c2_maxev cfg - 2) < Z.of_nat fuel -> rs_exit r <> BX_FUEL) /\
  c_fc (rs_c r) = c_ne (rs_c r) /\ 0 <= c_gc (rs_c r) <= c_ne (rs_c r) /\ 1 <= c_ne (rs_c r) /\
  0 <= rs_iters r <= rs_dones r /\
  calls (rs_c r) <= Z.max 2 (c2_maxev cfg - 1 + pass_bound b cfg) /\
  sfcalls (rs_s r) <= c_fc (rs_c r) /\ sgcalls (rs_s r) <= c_gc (rs_c r).
Proof. exact bodies2_budget. Qed.
Print Assumptions C02_bodies2_budget.

Theorem C02_bodies2_fuel : forall cfg, Z.max 0 (c2_maxev cfg - 2) < Z.of_nat (b2_fuel cfg).
Proof. exact b2_fuel_enough. Qed.
Print Assumptions C02_bodies2_fuel.

(* the same for ANY rule whose loop condition is the budget test, whose passes cost at most B and make at least one evaluation
   whenever their iter_ok can be true (done() stops otherwise), and that hand only evaluated points to update_if_better *)
Theorem C02_bodies2_budget_any_rule : forall A orc (R : rule2 A) cfg B three J, rule_ok orc R B three J -> forall fuel x0,
  let r := b2_run orc R cfg fuel x0 in
  (Z.max 0 (c2_maxev cfg - 2) < Z.of_nat fuel -> b2_exit r <> BX_FUEL) /\
  c_fc (b2_c r) = c_ne (b2_c r) /\ 0 <= c_gc (b2_c r) <= c_ne (b2_c r) /\ 1 <= c_ne (b2_c r) /\
  0 <= b2_iters r <= b2_dones r /\
  calls (b2_c r) <= Z.max 2 (c2_maxev cfg - 1 + B) /\
  sfcalls (b2_s r) <= c_fc (b2_c r) /\ sgcalls (b2_s r) <= c_gc (b2_c r).
Proof. intros A orc R cfg B three J (HL & HJ0 & HP). exact (generic2_budget A orc R cfg B three J HL HJ0 HP). Qed.
Print Assumptions C02_bodies2_budget_any_rule.

(* the proved bound against the property's `max_evals + 1100 + 8 dim`: IMPLIED for every body when lsearch_max_iters <= 100 (the
   default, and the whole registered domain of solver::universal::lsearch_max_iters): B <= 400; NOT implied on the upper part of
   asga's domain [10, 1000] (B = 4000 for lsearch_max_iters = 1000) *)
Theorem C02_bodies2_property_constant : forall b cfg,
  c2_lsmax cfg <= 100 -> 0 <= c2_n cfg -> pass_bound b cfg <= 400 /\ pass_bound b cfg <= 1100 + 8 * c2_n cfg.
Proof. exact pass_bound_property_constant. Qed.
Print Assumptions C02_bodies2_property_constant.
Theorem C02_bodies2_property_constant_asga_domain_refuted :
  exists b cfg, c2_lsmax cfg = 1000 /\ c2_n cfg = 16 /\ 1100 + 8 * c2_n cfg < pass_bound b cfg.
Proof. exact pass_bound_asga_domain_refuted. Qed.
Print Assumptions C02_bodies2_property_constant_asga_domain_refuted.

(* (2a) C02_triple_honest discharged for these clients: the returned point and value are an answer of the oracle to one of the
   evaluations the run requested; the returned sub-gradient too, except for osga (it calls the 2-argument update_if_better:
   its state.gx() stays the sub-gradient at x0) *)
Theorem C02_bodies2_honest : forall b orc cfg fuel x0, asga_cap_ok b cfg ->
  let r := body2_run b orc cfg fuel x0 in
  exists k, 0 <= k < c_ne (rs_c r) /\ fst (o2_eval orc k (sx (rs_s r))) = sfx (rs_s r) /\
            (b <> B2Osga -> snd (o2_eval orc k (sx (rs_s r))) = sgx (rs_s r)).
Proof. exact bodies2_honest. Qed.
Print Assumptions C02_bodies2_honest.

(* (2b) finite f(x0) => the returned value is finite and fx <= f(x0) in binary64 (all seven only ever call update_if_better) *)
Theorem C02_bodies2_best : forall b orc cfg fuel x0, asga_cap_ok b cfg ->
  let r := body2_run b orc cfg fuel x0 in
  ffin (fst (o2_eval orc 0 x0)) = true ->
  ffin (sfx (rs_s r)) = true /\ PrimFloat.leb (sfx (rs_s r)) (fst (o2_eval orc 0 x0)) = true.
Proof. exact bodies2_best. Qed.
Print Assumptions C02_bodies2_best.

(* (3a) status facts: one of the three; `converged` only for a valid state from a done() call with both flags; `failed` only from a
   done() call with iter_ok = false or an invalid state; `max_iters` only through the budget test, lack of fuel, or asga's return
   before the loop (gradient test below DBL_EPSILON at x0); unless failed, the state is valid once a done() call was made *)
Theorem C02_bodies2_status : forall b orc cfg fuel x0, asga_cap_ok b cfg ->
  let r := body2_run b orc cfg fuel x0 in
  let s := rs_s r in
  status_ok (sstatus s) /\
  (sstatus s = ST_CONVERGED ->
     valid s = true /\ rs_ok r = true /\ rs_conv r = true /\ (rs_exit r = BX_DONE \/ rs_exit r = BX_ZERO)) /\
  (sstatus s = ST_FAILED ->
     1 <= rs_dones r /\ (rs_exit r = BX_DONE \/ rs_exit r = BX_ZERO) /\ (rs_ok r = false \/ valid s = false)) /\
  (sstatus s = ST_MAX_ITERS ->
     (rs_exit r = BX_BUDGET /\ c2_maxev cfg <= calls (rs_c r) \/ rs_exit r = BX_FUEL \/ rs_exit r = BX_PRE \/
      rs_exit r = BX_ZERO /\ rs_conv r = false /\ rs_ok r = true) /\
     (1 <= rs_dones r -> valid s = true)) /\
  (sstatus s <> ST_FAILED -> 1 <= rs_dones r -> valid s = true).
Proof. exact bodies2_status. Qed.
Print Assumptions C02_bodies2_status.

(* (3b) what `converged` means, body by body.
   ellipsoid: sqrt(gHg) < epsilon for the gHg of the centre the last pass started from (NOT of the returned point), that pass having
   passed the early test (gHg >= DBL_EPSILON or NaN) -- or the early exit gHg < DBL_EPSILON at the current centre *)
Theorem C02_ellipsoid_converged : forall orc cfg fuel x0,
  let r := ell_run orc cfg fuel x0 in
  sstatus (b2_s r) = ST_CONVERGED ->
  valid (b2_s r) = true /\
  ((b2_exit r = BX_DONE /\ PrimFloat.ltb (PrimFloat.sqrt (ell_gHg orc cfg (b2_prev r))) (c2_eps cfg) = true /\
    PrimFloat.ltb (ell_gHg orc cfg (b2_prev r)) f_eps = false) \/
   (b2_exit r = BX_ZERO /\ PrimFloat.ltb (ell_gHg orc cfg (b2_prev r)) f_eps = true)).
Proof. exact ellipsoid_converged. Qed.
Print Assumptions C02_ellipsoid_converged.

(* osga: eta_hat < epsilon OR value_test(patience) < epsilon on a valid best state -- or the early test |state.gx()|_inf < epsilon0 *)
Theorem C02_osga_converged : forall orc cfg fuel x0,
  let r := osga_run orc cfg fuel x0 in
  sstatus (b2_s r) = ST_CONVERGED ->
  valid (b2_s r) = true /\
  ((b2_exit r = BX_DONE /\ exists eta_hat,
      PrimFloat.ltb eta_hat (c2_eps cfg) || PrimFloat.ltb (value_test (b2_s r) (c2_patience cfg)) (c2_eps cfg) = true) \/
   (b2_exit r = BX_ZERO /\ PrimFloat.ltb (maxabs (sgx (b2_s r))) (c2_eps0 cfg) = true)).
Proof. exact osga_converged. Qed.
Print Assumptions C02_osga_converged.

(* pgm / dgm / fgm / asga2 / asga4: the inner search accepted a step (iter_ok) AND value_test(patience) < epsilon on the returned state *)
Theorem C02_universal_asga_converged : forall orc cfg fuel x0,
  vt_conv_statement cfg (pgm_run orc cfg fuel x0) /\ vt_conv_statement cfg (dgm_run orc cfg fuel x0) /\
  vt_conv_statement cfg (fgm_run orc cfg fuel x0) /\
  (1 <= c2_lsmax cfg -> vt_conv_statement cfg (asga2_run orc cfg fuel x0) /\ vt_conv_statement cfg (asga4_run orc cfg fuel x0)).
Proof. exact universal_asga_converged. Qed.
Print Assumptions C02_universal_asga_converged.

(* (4) what keeps the iterations well defined.
   ellipsoid: a pass whose gHg is below DBL_EPSILON leaves the loop through done() WITHOUT executing the update (no evaluation, same
   counters, same centre and shape matrix); hence on the executed path a finite gHg is >= DBL_EPSILON: positive, with a finite
   positive binary64 square root (Flocq): the divisions by sqrt(gHg) and gHg never divide by zero *)
Theorem C02_ellipsoid_guard :
  (forall orc cfg st, PrimFloat.ltb (ell_gHg orc cfg (b2_a st)) f_eps = true ->
     let r := b2_iter orc (ell_rule orc cfg) st in
     snd r = true /\ b2_exit (fst r) = BX_ZERO /\ b2_iters (fst r) = b2_iters st /\ b2_c (fst r) = b2_c st /\ b2_a (fst r) = b2_a st) /\
  (forall g, PrimFloat.is_finite g = true -> PrimFloat.ltb g f_eps = false ->
     PrimFloat.ltb PrimFloat.zero g = true /\ PrimFloat.is_finite (PrimFloat.sqrt g) = true /\
     PrimFloat.ltb PrimFloat.zero (PrimFloat.sqrt g) = true).
Proof. split; [exact ellipsoid_guard|exact guard_sqrt_pos]. Qed.
Print Assumptions C02_ellipsoid_guard.

(* universal / asga: the inner backtracking loop ends by the descent test (iter_ok), by a non-finite value (universal), or because
   its counter reached the cap *)
Theorem C02_inner_loops_exit : forall orc cfg,
  (forall a i0 c, ui_k i0 = 0 ->
     let i := fst (p_run (o2_eval orc) (cap_loop (Z.to_nat (pgm_cap cfg)) (fun i => src_pgm_inner (ui_k i) (pgm_cap cfg) (ui_ok i) (ffin (ui_f1 i))) (pgm_body orc cfg a) i0) c) in
     ui_ok i = true \/ ffin (ui_f1 i) = false \/ pgm_cap cfg <= ui_k i) /\
  (forall a i0 c, ui_k i0 = 0 ->
     let i := fst (p_run (o2_eval orc) (cap_loop (Z.to_nat (dgm_cap cfg)) (fun i => src_dgm_inner (ui_k i) (dgm_cap cfg) (ui_ok i) (ffin (ui_f1 i))) (dgm_body orc cfg a) i0) c) in
     ui_ok i = true \/ ffin (ui_f1 i) = false \/ dgm_cap cfg <= ui_k i) /\
  (forall a i0 c, ui_k i0 = 0 ->
     let i := fst (p_run (o2_eval orc) (cap_loop (Z.to_nat (fgm_cap cfg)) (fun i => src_fgm_inner (ui_k i) (fgm_cap cfg) (ui_ok i) (ffin (ui_f1 i) && ffin (ui_f2 i))) (fgm_body orc cfg a) i0) c) in
     ui_ok i = true \/ (ffin (ui_f1 i) && ffin (ui_f2 i)) = false \/ fgm_cap cfg <= ui_k i) /\
  (forall x0 a i0 c, gi_p i0 = 0 ->
     let i := fst (p_run (o2_eval orc) (cap_loop (Z.to_nat (asga2_cap cfg)) (fun i => src_asga2_inner (gi_p i) (asga2_cap cfg) (gi_ok i)) (asga2_body orc cfg x0 a) i0) c) in
     gi_ok i = true \/ asga2_cap cfg <= gi_p i) /\
  (forall a i0 c, gi_p i0 = 0 ->
     let i := fst (p_run (o2_eval orc) (cap_loop (Z.to_nat (asga4_cap cfg)) (fun i => src_asga4_inner (gi_p i) (asga4_cap cfg) (gi_ok i)) (asga4_body orc cfg a) i0) c) in
     gi_ok i = true \/ asga4_cap cfg <= gi_p i).
Proof. exact inner_loops_exit. Qed.
Print Assumptions C02_inner_loops_exit.

(* the model runs the inner loops with fuel = the cap; the C++ loop has no fuel: more fuel changes nothing when the condition tests
   the counter against the cap *)
Theorem C02_inner_loop_fuel : forall (S : Type) ev (cnt : S -> Z) (cap : Z) (cond : S -> bool) (body : S -> prog S),
  (forall s c, cond s = true -> cnt (fst (p_run ev (body s) c)) = cnt s + 1) ->
  (forall s, cond s = true -> cnt s < cap) ->
  forall extra fuel s c, cap <= cnt s + Z.of_nat fuel ->
  p_run ev (cap_loop (fuel + extra) cond body s) c = p_run ev (cap_loop fuel cond body s) c.
Proof. intros S. exact (@cap_loop_fuel S). Qed.
Print Assumptions C02_inner_loop_fuel.

(* osga: "alpha stays positive" is false in binary64 (kappa = 1000 is inside its registered domain: exp(-kappa) = 0) *)
Theorem C02_osga_alpha_positive_refuted : osga_alpha_positive_refuted_statement.
Proof. exact osga_alpha_positive_refuted. Qed.
Print Assumptions C02_osga_alpha_positive_refuted.

(* the translated decisions of the four source files are what the proofs assume (fails when they change): loop conditions, flags of
   the early tests and after an evaluation, the 1-D test and which factor scales H0, osga's two selections, and -- seeded change
   C02/3 -- WHICH integer parameter caps the inner loop of pgm / dgm / fgm / asga2 / asga4, and the condition of that loop *)
Theorem C02_bodies2_kernels :
  (forall fc gc m, src_loop_ellipsoid fc gc m = (fc + gc <? m)) /\ (forall fc gc m, src_loop_osga fc gc m = (fc + gc <? m)) /\
  (forall fc gc m, src_loop_pgm fc gc m = (fc + gc <? m)) /\ (forall fc gc m, src_loop_dgm fc gc m = (fc + gc <? m)) /\
  (forall fc gc m, src_loop_fgm fc gc m = (fc + gc <? m)) /\ (forall fc gc m, src_loop_asga2 fc gc m = (fc + gc <? m)) /\
  (forall fc gc m, src_loop_asga4 fc gc m = (fc + gc <? m)) /\
  (forall v, src_ell_zero_exit v = v) /\ src_ell_zero_ok = true /\ src_ell_zero_conv = true /\
  (forall n, src_ell_1d n = (n =? 1)) /\ (forall n, src_ell_H0_choice n = if n =? 1 then 1 else 2) /\
  (forall v, src_ell_iter_ok v = v) /\ (forall v, src_ell_conv v = v) /\
  (forall v, src_osga_zero_exit v = v) /\ src_osga_zero_conv = true /\ (forall v, src_osga_zero_ok v = v) /\
  (forall v, src_osga_pick1 v = if v then 1 else 0) /\ (forall v, src_osga_pick2 v = if v then 1 else 0) /\
  (forall v, src_osga_iter_ok v = v) /\ (forall a b, src_osga_conv a b = a || b) /\
  (forall l p m, src_pgm_cap l p m = l) /\ (forall l p m, src_dgm_cap l p m = l) /\ (forall l p m, src_fgm_cap l p m = l) /\
  (forall l p m, src_asga2_cap l p m = l) /\ (forall l p m, src_asga4_cap l p m = l) /\
  (forall k cap ok fin, src_pgm_inner k cap ok fin = (k <? cap) && negb ok && fin) /\
  (forall k cap ok fin, src_dgm_inner k cap ok fin = (k <? cap) && negb ok && fin) /\
  (forall k cap ok fin, src_fgm_inner k cap ok fin = (k <? cap) && negb ok && fin) /\
  (forall k cap ok, src_asga2_inner k cap ok = (k <? cap) && negb ok) /\
  (forall k cap ok, src_asga4_inner k cap ok = (k <? cap) && negb ok) /\
  (forall v, src_pgm_conv v = v) /\ (forall v, src_dgm_conv v = v) /\ (forall v, src_fgm_conv v = v) /\
  (forall v, src_asga2_conv v = v) /\ (forall v, src_asga4_conv v = v).
Proof. exact bodies2_kernels. Qed.
Print Assumptions C02_bodies2_kernels.

(* non-vacuity: runs of the seven models that converge (each through its own criterion), take the early exit, leave through the
   budget test, return before the loop (asga), fail on a NaN value keeping a valid best state; the hypotheses are satisfiable *)
Example C02_nonvacuous_bodies2 :
  (let r := body2_run B2Ell ex2_parab ex2_c1 (b2_fuel ex2_c1) ex2_zero in
   sstatus (rs_s r) = ST_CONVERGED /\ rs_exit r = BX_DONE /\ rs_iters r = 18) /\
  (let r := body2_run B2Osga ex2_parab ex2_c2 (b2_fuel ex2_c2) ex2_zero in rs_exit r = BX_BUDGET /\ rs_iters r = 13) /\
  (let r := body2_run B2Pgm ex2_parab ex2_c3 (b2_fuel ex2_c3) ex2_zero in sstatus (rs_s r) = ST_CONVERGED /\ rs_iters r = 11) /\
  (let r := body2_run B2Pgm ex2_wall ex2_c3 (b2_fuel ex2_c3) ex2_zero in sstatus (rs_s r) = ST_FAILED /\ rs_ok r = false) /\
  rs_exit (body2_run B2Asga4 ex2_parab ex2_c3 (b2_fuel ex2_c3) ex2_three) = BX_PRE /\
  ffin (fst (o2_eval ex2_parab 0 ex2_zero)) = true /\ asga_cap_ok B2Asga2 ex2_c3 /\ 1 <= c2_lsmax ex2_c3 /\
  (c2_lsmax ex2_c3 <= 100 /\ 0 <= c2_n ex2_c3) /\
  (exists g, PrimFloat.is_finite g = true /\ PrimFloat.ltb g f_eps = false) /\
  rule_ok ex2_parab (pgm_rule ex2_parab ex2_c3 ex2_zero) (2 * Z.max 0 (pgm_cap ex2_c3)) true (fun _ _ => True).
Proof.
  split; [vm_compute; repeat split; reflexivity|]. split; [vm_compute; repeat split; reflexivity|].
  split; [vm_compute; repeat split; reflexivity|]. split; [vm_compute; repeat split; reflexivity|].
  split; [vm_compute; reflexivity|]. split; [reflexivity|]. split; [intros _; vm_compute; discriminate|].
  split; [vm_compute; discriminate|]. split; [split; vm_compute; discriminate|].
  split; [exists PrimFloat.one; split; reflexivity|exact (pgm_ok ex2_parab ex2_c3 ex2_zero)].
Qed.
