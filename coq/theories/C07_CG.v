(* C07 -- CG_DESCENT: the exact characterisation of a reported success, for EVERY probe oracle, parameters and fuel.
   Every `return {state.valid(), t}` of cgdescent.cpp follows a call of interval_t::done that returned true; `done`'s
   three tests are translated from cgdescent.cpp (Src_c07_flt.v) and pinned here to what they evaluate. NB: this `done`
   has no `m_approx`/`omega` switching (Hager-Zhang's permanent switch to the approximate conditions): both pairs of
   conditions are tried on every call, with epsilon_k = epsilon * |f(x0)| fixed for the whole search. *)
From Coq Require Import List ZArith Bool Floats Lia.
From LNGen Require Import Src_c07_flt.
From LN Require Import C07_Defs C07_Proofs.
Import ListNotations.
Local Open Scope float_scope.

Lemma cg_epsk_spec : forall prm p0, cg_epsk prm p0 = cg_epsilon prm * abs (pf p0).
Proof. reflexivity. Qed.

(* "bracketing failed or diverged" *)
Lemma cg_failed_spec : forall prm p0 iv br,
  cg_failed prm p0 iv br =
  (br && ((pf p0 + cg_epsilon prm * abs (pf p0) <? st_f (i_a iv)) || (st_g (i_b iv) <? 0))) || negb (pv (iv_cur iv)).
Proof. reflexivity. Qed.

(* "tentative point outside bracketing interval, keep trying" *)
Lemma cg_outside_spec : forall iv, cg_outside iv = (i_step iv <? st_t (i_a iv)) || (st_t (i_b iv) <? i_step iv).
Proof. reflexivity. Qed.

(* (Armijo-)Wolfe || approximate (Armijo-)Wolfe, with state.cpp's predicates *)
Lemma cg_accept_spec : forall prm p0 iv,
  cg_accept prm p0 iv =
  (has_armijo p0 (iv_cur iv) (i_step iv) (c1 prm) && has_wolfe p0 (iv_cur iv) (c2 prm)) ||
  (has_approx_armijo p0 (iv_cur iv) (cg_epsilon prm * abs (pf p0)) && has_approx_wolfe p0 (iv_cur iv) (c1 prm) (c2 prm)).
Proof. reflexivity. Qed.

Lemma cg_done_spec : forall prm p0 iv br,
  cg_done prm p0 iv br =
  if cg_failed prm p0 iv br then true else if cg_outside iv then false else cg_accept prm p0 iv.
Proof. reflexivity. Qed.

Local Arguments C07_Defs.update : simpl never.
Local Arguments cg_move : simpl never.
Local Arguments cg_done : simpl never.
Local Arguments cg_mucd : simpl never.
Local Arguments cg_update : simpl never.

Section CG.
  Variable phi : Z -> float -> probe.
  Variable prm : params.
  Variable p0 : probe.

  (* a result produced by `return {state.valid(), interval.step_size}` right after done(...) = true *)
  Definition cg_exit (r : result) : Prop :=
    exists iv br, rx r = XCG iv br /\ i_s iv = rs r /\ i_step iv = rt r /\ ok r = pv (iv_cur iv) /\
                  cg_done prm p0 iv br = true.

  Lemma cg_ret_exit : forall iv br, cg_done prm p0 iv br = true -> cg_exit (cg_ret iv br).
  Proof. intros iv br D. exists iv, br. repeat split. exact D. Qed.

  Lemma cg_mucd_done : forall iv t,
    fst (cg_mucd phi prm p0 iv t) = true -> cg_done prm p0 (snd (cg_mucd phi prm p0 iv t)) true = true.
  Proof.
    intros iv t. unfold cg_mucd.
    destruct (negb (is_finite t)); [simpl; discriminate|].
    destruct (cg_done prm p0 (cg_move phi iv t) true) eqn:D; simpl; intros H; [exact D|exact H].
  Qed.

  Lemma cg_loop_exit : forall fuel i iv,
    ok (cg_loop phi prm p0 fuel i iv) = true -> cg_exit (cg_loop phi prm p0 fuel i iv).
  Proof.
    induction fuel as [|k IH]; intros i iv H; cbn [cg_loop] in *.
    - simpl in H. discriminate.
    - destruct (negb (i <? i_mi iv)%Z || negb (stpmin <? st_t (i_b iv) - st_t (i_a iv))); [simpl in H; discriminate|].
      pose proof (cg_mucd_done iv (secant (i_a iv) (i_b iv))) as D1.
      destruct (cg_mucd phi prm p0 iv (secant (i_a iv) (i_b iv))) as [d1 iv1]. cbn [fst snd] in D1.
      destruct d1; [apply cg_ret_exit, D1; reflexivity|].
      match type of H with
      | context [let '(d2, iv2) := ?e in _] =>
        assert (D2 : fst e = true -> cg_done prm p0 (snd e) true = true);
          [ | destruct e as [d2 iv2]; cbn [fst snd] in D2 ]
      end.
      { destruct (abs (secant (i_a iv) (i_b iv) - st_t (i_a iv1)) <? eps0); [apply cg_mucd_done|].
        destruct (abs (secant (i_a iv) (i_b iv) - st_t (i_b iv1)) <? eps0); [apply cg_mucd_done|].
        cbn [fst]. discriminate. }
      destruct d2; [apply cg_ret_exit, D2; reflexivity|].
      destruct (cg_gamma prm * (st_t (i_b iv) - st_t (i_a iv)) <? st_t (i_b iv2) - st_t (i_a iv2)).
      + pose proof (cg_mucd_done iv2 ((st_t (i_a iv2) + st_t (i_b iv2)) / 2)) as D3.
        destruct (cg_mucd phi prm p0 iv2 ((st_t (i_a iv2) + st_t (i_b iv2)) / 2)) as [d3 iv3]. cbn [fst snd] in D3.
        destruct d3; [apply cg_ret_exit, D3; reflexivity|].
        apply IH. exact H.
      + apply IH. exact H.
  Qed.

  Lemma cgdescent_exit : forall s t,
    ok (cgdescent phi prm p0 s t) = true -> cg_exit (cgdescent phi prm p0 s t).
  Proof.
    intros s t H. unfold cgdescent in *.
    match type of H with context [cg_done prm p0 ?x false] => set (iv := x) in * end.
    destruct (cg_done prm p0 iv false) eqn:D0; [apply cg_ret_exit; exact D0|].
    destruct (cg_done prm p0 (cg_bracket phi prm p0 (fuel_of (maxit prm)) iv (i_a iv)) true) eqn:D1;
      [apply cg_ret_exit; exact D1|].
    apply cg_loop_exit. exact H.
  Qed.

  Lemma ls_get_cg_exit : forall t0,
    ok (ls_get phi prm p0 CGDescent t0) = true -> cg_exit (ls_get phi prm p0 CGDescent t0).
  Proof.
    intros t0 H. unfold ls_get in *.
    destruct (negb (has_descent p0)); [simpl in H; discriminate|].
    destruct (shrink phi (fuel_of (maxit prm)) (init_state p0) (init_step t0)) as [s1 t1].
    destruct (src_ls_stale_guard_f (pv (cur s1))); [simpl in H; discriminate|].
    destruct (grow phi p0 (fuel_of (maxit prm)) s1 t1) as [go [s2 t2]].
    destruct go; [|simpl in H; discriminate].
    cbn [do_get] in *. apply cgdescent_exit. exact H.
  Qed.

  (* done(...) = true on a valid state: which of its tests said so *)
  Lemma cg_done_cases : forall iv br,
    pv (iv_cur iv) = true -> cg_done prm p0 iv br = true ->
    let epsk := cg_epsilon prm * abs (pf p0) in
    let c := iv_cur iv in
    let t := i_step iv in
    ((t <? st_t (i_a iv)) = false /\ (st_t (i_b iv) <? t) = false /\
     has_armijo p0 c t (c1 prm) = true /\ has_wolfe p0 c (c2 prm) = true) \/
    ((t <? st_t (i_a iv)) = false /\ (st_t (i_b iv) <? t) = false /\
     has_approx_armijo p0 c epsk = true /\ has_approx_wolfe p0 c (c1 prm) (c2 prm) = true) \/
    (br = true /\ ((pf p0 + epsk <? st_f (i_a iv)) = true \/ (st_g (i_b iv) <? 0) = true)).
  Proof.
    intros iv br V D epsk c t. rewrite cg_done_spec in D.
    destruct (cg_failed prm p0 iv br) eqn:F.
    - rewrite cg_failed_spec, V in F. cbn [negb] in F. rewrite orb_false_r in F.
      apply andb_true_iff in F. destruct F as [B F]. apply orb_true_iff in F.
      right; right. split; [exact B|exact F].
    - destruct (cg_outside iv) eqn:O; [discriminate|].
      rewrite cg_outside_spec in O. apply orb_false_iff in O. destruct O as [O1 O2].
      rewrite cg_accept_spec in D. apply orb_true_iff in D. destruct D as [D|D];
        apply andb_true_iff in D; destruct D as [A W].
      + left. repeat split; assumption.
      + right; left. repeat split; assumption.
  Qed.

  Lemma ls_get_cg_cases : forall t0,
    let r := ls_get phi prm p0 CGDescent t0 in
    ok r = true ->
    let epsk := cg_epsilon prm * abs (pf p0) in
    let c := cur (rs r) in
    let t := rt r in
    pv c = true /\
    exists iv bracketed, rx r = XCG iv bracketed /\ i_s iv = rs r /\ i_step iv = t /\
    (((t <? st_t (i_a iv)) = false /\ (st_t (i_b iv) <? t) = false /\
      has_armijo p0 c t (c1 prm) = true /\ has_wolfe p0 c (c2 prm) = true) \/
     ((t <? st_t (i_a iv)) = false /\ (st_t (i_b iv) <? t) = false /\
      has_approx_armijo p0 c epsk = true /\ has_approx_wolfe p0 c (c1 prm) (c2 prm) = true) \/
     (bracketed = true /\ ((pf p0 + epsk <? st_f (i_a iv)) = true \/ (st_g (i_b iv) <? 0) = true))).
  Proof.
    intros t0 r H epsk c t. destruct (ls_get_cg_exit t0 H) as [iv [br [X [S [T [V D]]]]]]. fold r in X, S, T, V.
    rewrite H in V. symmetry in V.
    assert (Vc : pv c = true) by (unfold c; rewrite <- S; exact V).
    split; [exact Vc|]. exists iv, br. split; [exact X|]. split; [exact S|]. split; [exact T|].
    pose proof (cg_done_cases iv br V D) as C. cbn zeta in C.
    unfold iv_cur in C. rewrite S, T in C. exact C.
  Qed.
End CG.

(* ---------- "bracketing failed": the sub-case a.f > f0 + epsilon_k never occurs ----------
   The lower end `a` only ever holds the origin or a point that passed has_approx_armijo, so -- provided the origin
   itself is not above f0 + epsilon_k in floating point, `(f0 + epsilon_k < f0) = false`, which holds for every f0
   since epsilon_k = epsilon * |f0| >= 0 or NaN (stated as a hypothesis: it is a fact about rounding, not about the
   search) -- a reported "bracketing failed" success always means b.g < 0: the upper end still descends.
   (FloatAxioms only: comparisons through SpecFloat.SFcompare.) *)
Lemma pc_antisym : forall mx my, Pos.compare_cont Eq my mx = CompOpp (Pos.compare_cont Eq mx my).
Proof. intros mx my. rewrite Pos.compare_cont_antisym. reflexivity. Qed.

Lemma sf_compare_antisym : forall x y,
  SFcompare y x = match SFcompare x y with Some c => Some (CompOpp c) | None => None end.
Proof.
  intros x y.
  destruct x as [sx|sx| |sx mx ex], y as [sy|sy| |sy my ey]; cbn; try destruct sx; try destruct sy; try reflexivity;
    rewrite (Z.compare_antisym ex ey); destruct (ex ?= ey)%Z; cbn; try reflexivity;
    rewrite (pc_antisym mx my); reflexivity.
Qed.

Lemma ltb_false_of_leb : forall x y, (x <=? y) = true -> (y <? x) = false.
Proof.
  intros x y H. rewrite leb_spec in H. rewrite ltb_spec. unfold SFleb, SFltb in *.
  rewrite (sf_compare_antisym (Prim2SF x) (Prim2SF y)).
  destruct (SFcompare (Prim2SF x) (Prim2SF y)) as [[| |]|]; try discriminate; reflexivity.
Qed.

Section CGA.
  Variable phi : Z -> float -> probe.
  Variable prm : params.
  Variable p0 : probe.
  Hypothesis origin_ok : (pf p0 + cg_epsilon prm * abs (pf p0) <? pf p0) = false.

  Definition a_ok (a : step) : Prop := (pf p0 + cg_epsilon prm * abs (pf p0) <? st_f a) = false.
  Definition ainv (iv : interval) : Prop := a_ok (i_a iv).

  Lemma a_ok_of_approx_armijo : forall t p,
    has_approx_armijo p0 p (cg_epsk prm p0) = true -> a_ok (step_of t p).
  Proof.
    intros t p H. rewrite has_approx_armijo_spec, cg_epsk_spec in H.
    unfold a_ok, step_of; cbn [st_f]. apply ltb_false_of_leb. exact H.
  Qed.

  Lemma ainv_updateU : forall fuel iv, ainv iv -> ainv (cg_updateU phi prm p0 fuel iv).
  Proof.
    induction fuel as [|k IH]; intros iv A; cbn [cg_updateU]; [exact A|].
    destruct (negb (0 <? i_mi iv)%Z || negb (stpmin <? st_t (i_b iv) - st_t (i_a iv))); [exact A|].
    match goal with |- context [cg_move phi iv ?x] => set (t := x) end.
    destruct (negb (pv (iv_cur (cg_move phi iv t)))); [exact A|].
    destruct (negb (has_descent (iv_cur (cg_move phi iv t)))); [exact A|].
    destruct (has_approx_armijo p0 (iv_cur (cg_move phi iv t)) (cg_epsk prm p0)) eqn:AA; apply IH.
    - apply a_ok_of_approx_armijo. exact AA.
    - exact A.
  Qed.

  Lemma ainv_update : forall iv, ainv iv -> ainv (cg_update phi prm p0 iv).
  Proof.
    intros iv A. unfold cg_update.
    destruct ((i_step iv <=? st_t (i_a iv)) || (st_t (i_b iv) <=? i_step iv)); [exact A|].
    destruct (negb (has_descent (iv_cur iv))); [exact A|].
    destruct (has_approx_armijo p0 (iv_cur iv) (cg_epsk prm p0)) eqn:AA.
    - apply a_ok_of_approx_armijo. exact AA.
    - apply ainv_updateU. exact A.
  Qed.

  Lemma ainv_bracket : forall fuel iv la, ainv iv -> a_ok la -> ainv (cg_bracket phi prm p0 fuel iv la).
  Proof.
    induction fuel as [|k IH]; intros iv la A L; cbn [cg_bracket]; [exact A|].
    destruct (negb (0 <? i_mi iv)%Z || negb (pv (iv_cur iv))); [exact A|].
    destruct (negb (has_descent (iv_cur iv))); [exact L|].
    destruct (has_approx_armijo p0 (iv_cur iv) (cg_epsk prm p0)) eqn:AA; cbn [negb].
    - apply IH; [exact A|]. apply a_ok_of_approx_armijo. exact AA.
    - apply ainv_updateU. exact origin_ok.
  Qed.

  Lemma ainv_mucd : forall iv t, ainv iv -> ainv (snd (cg_mucd phi prm p0 iv t)).
  Proof.
    intros iv t A. unfold cg_mucd.
    destruct (negb (is_finite t)); [exact A|].
    destruct (cg_done prm p0 (cg_move phi iv t) true); cbn [snd]; [exact A|].
    apply ainv_update. exact A.
  Qed.

  Definition exit_ainv (r : result) : Prop := forall iv br, rx r = XCG iv br -> ainv iv.

  Lemma cg_ret_ainv : forall iv br, ainv iv -> exit_ainv (cg_ret iv br).
  Proof. intros iv br A iv' br' E. cbn in E. injection E as <- _. exact A. Qed.

  Lemma cg_loop_ainv : forall fuel i iv, ainv iv -> exit_ainv (cg_loop phi prm p0 fuel i iv).
  Proof.
    induction fuel as [|k IH]; intros i iv A; cbn [cg_loop].
    - intros iv' br' E. discriminate.
    - destruct (negb (i <? i_mi iv)%Z || negb (stpmin <? st_t (i_b iv) - st_t (i_a iv))); [intros iv' br' E; discriminate|].
      pose proof (ainv_mucd iv (secant (i_a iv) (i_b iv)) A) as A1.
      destruct (cg_mucd phi prm p0 iv (secant (i_a iv) (i_b iv))) as [d1 iv1]. cbn [snd] in A1.
      destruct d1; [apply cg_ret_ainv; exact A1|].
      match goal with
      | |- context [let '(d2, iv2) := ?e in _] =>
        assert (A2 : ainv (snd e)); [ | destruct e as [d2 iv2]; cbn [snd] in A2 ]
      end.
      { destruct (abs (secant (i_a iv) (i_b iv) - st_t (i_a iv1)) <? eps0); [apply ainv_mucd; exact A1|].
        destruct (abs (secant (i_a iv) (i_b iv) - st_t (i_b iv1)) <? eps0); [apply ainv_mucd; exact A1|].
        exact A1. }
      destruct d2; [apply cg_ret_ainv; exact A2|].
      destruct (cg_gamma prm * (st_t (i_b iv) - st_t (i_a iv)) <? st_t (i_b iv2) - st_t (i_a iv2)).
      + pose proof (ainv_mucd iv2 ((st_t (i_a iv2) + st_t (i_b iv2)) / 2) A2) as A3.
        destruct (cg_mucd phi prm p0 iv2 ((st_t (i_a iv2) + st_t (i_b iv2)) / 2)) as [d3 iv3]. cbn [snd] in A3.
        destruct d3; [apply cg_ret_ainv; exact A3|].
        apply IH. exact A3.
      + apply IH. exact A2.
  Qed.

  Lemma cgdescent_ainv : forall s t, exit_ainv (cgdescent phi prm p0 s t).
  Proof.
    intros s t. unfold cgdescent.
    match goal with |- context [cg_done prm p0 ?x false] => set (iv := x) end.
    assert (A0 : ainv iv) by exact origin_ok.
    destruct (cg_done prm p0 iv false); [apply cg_ret_ainv; exact A0|].
    pose proof (ainv_bracket (fuel_of (maxit prm)) iv (i_a iv) A0 A0) as A1.
    destruct (cg_done prm p0 (cg_bracket phi prm p0 (fuel_of (maxit prm)) iv (i_a iv)) true);
      [apply cg_ret_ainv; exact A1|].
    apply cg_loop_ainv. exact A1.
  Qed.

  Lemma ls_get_cg_ainv : forall t0 iv br,
    rx (ls_get phi prm p0 CGDescent t0) = XCG iv br ->
    (pf p0 + cg_epsilon prm * abs (pf p0) <? st_f (i_a iv)) = false.
  Proof.
    intros t0 iv br. unfold ls_get.
    destruct (negb (has_descent p0)); [discriminate|].
    destruct (shrink phi (fuel_of (maxit prm)) (init_state p0) (init_step t0)) as [s1 t1].
    destruct (src_ls_stale_guard_f (pv (cur s1))); [discriminate|].
    destruct (grow phi p0 (fuel_of (maxit prm)) s1 t1) as [go [s2 t2]].
    destruct go; [|discriminate].
    cbn [do_get]. apply cgdescent_ainv.
  Qed.
End CGA.
