(* C06 -- transfer between the two instances of the shared model: Q2R is a homomorphism of the scalar structure
   (ordered-field embedding), hence  Q2R (obj Qops q) = obj Rops (map Q2R q)  for every object written over [ops T].
   The driver evaluates [obj Qops] on the doubles the implementation saw (doubles are rationals); the convexity / derivative
   theorems are about [obj Rops]: through this file they apply verbatim to exactly what is compared with the library. *)
From Coq Require Import ZArith QArith Qreals List Bool Reals Lra Lia.
From LN Require Import C06_Defs.
Import ListNotations.
Local Open Scope R_scope.

Notation QR := (map Q2R).

(* ---- the scalar structure ---- *)
Lemma h_zero : Q2R (o_zero Qops) = o_zero Rops.
Proof. unfold Q2R; simpl; lra. Qed.
Lemma h_one : Q2R (o_one Qops) = o_one Rops.
Proof. unfold Q2R; simpl; lra. Qed.
Lemma h_add : forall a b, Q2R (o_add Qops a b) = o_add Rops (Q2R a) (Q2R b).
Proof. exact Q2R_plus. Qed.
Lemma h_sub : forall a b, Q2R (o_sub Qops a b) = o_sub Rops (Q2R a) (Q2R b).
Proof. exact Q2R_minus. Qed.
Lemma h_mul : forall a b, Q2R (o_mul Qops a b) = o_mul Rops (Q2R a) (Q2R b).
Proof. exact Q2R_mult. Qed.
Lemma h_opp : forall a, Q2R (o_opp Qops a) = o_opp Rops (Q2R a).
Proof. exact Q2R_opp. Qed.
Lemma h_cst : forall n d, Q2R (cst Qops n d) = cst Rops n d.
Proof. reflexivity. Qed.
(* order embedding *)
Lemma h_ltb : forall a b, o_ltb Qops a b = o_ltb Rops (Q2R a) (Q2R b).
Proof.
  intros a b. cbn [o_ltb Qops Rops]. unfold Qltb, Rltb. destruct (Rlt_dec (Q2R a) (Q2R b)) as [L|L].
  - destruct (Qle_bool b a) eqn:E; [|reflexivity]. apply Qle_bool_iff, Qle_Rle in E. lra.
  - assert (E : Qle_bool b a = true) by (apply Qle_bool_iff, Rle_Qle; lra). now rewrite E.
Qed.
Lemma Q2R_if : forall (c : bool) a b, Q2R (if c then a else b) = if c then Q2R a else Q2R b.
Proof. destruct c; reflexivity. Qed.
Lemma h_two : Q2R (two Qops) = two Rops. Proof. reflexivity. Qed.
Lemma h_half : Q2R (half Qops) = half Rops. Proof. reflexivity. Qed.

Ltac hom1 := rewrite ?Q2R_if, ?h_ltb, ?h_add, ?h_sub, ?h_mul, ?h_opp, ?h_cst, ?h_two, ?h_half, ?h_zero, ?h_one.
Ltac hom := repeat progress hom1.

Lemma h_pabs : forall x, Q2R (pabs Qops x) = pabs Rops (Q2R x).
Proof. intro x. unfold pabs. hom. reflexivity. Qed.
Lemma h_pmax : forall a b, Q2R (pmax Qops a b) = pmax Rops (Q2R a) (Q2R b).
Proof. intros. unfold pmax. hom. reflexivity. Qed.
Lemma h_psgn : forall x, Q2R (psgn Qops x) = psgn Rops (Q2R x).
Proof. intro x. unfold psgn. hom. reflexivity. Qed.
Lemma h_sq : forall x, Q2R (sq Qops x) = sq Rops (Q2R x).
Proof. intro x. unfold sq. hom. reflexivity. Qed.
Lemma h_cube : forall x, Q2R (cube Qops x) = cube Rops (Q2R x).
Proof. intro x. unfold cube. hom. now rewrite h_sq. Qed.
Lemma h_quartic : forall x, Q2R (quartic Qops x) = quartic Rops (Q2R x).
Proof. intro x. unfold quartic. now rewrite !h_sq. Qed.

Ltac homs := repeat progress (hom1; rewrite ?h_pabs, ?h_pmax, ?h_psgn, ?h_quartic, ?h_cube, ?h_sq).

(* ---- list combinators ---- *)
Lemma h_sum2 : forall (kq : Q -> Q -> Q) (kr : R -> R -> R), (forall a u, Q2R (kq a u) = kr (Q2R a) (Q2R u)) ->
  forall w x, Q2R (sum2 Qops kq w x) = sum2 Rops kr (QR w) (QR x).
Proof.
  intros kq kr H. induction w as [|a w IH]; intros [|u x]; simpl; try apply h_zero.
  rewrite h_add, H, IH. reflexivity.
Qed.
Lemma h_map2 : forall (kq : Q -> Q -> Q) (kr : R -> R -> R), (forall a u, Q2R (kq a u) = kr (Q2R a) (Q2R u)) ->
  forall w x, QR (map2 kq w x) = map2 kr (QR w) (QR x).
Proof.
  intros kq kr H. induction w as [|a w IH]; intros [|u x]; simpl; auto. now rewrite H, IH.
Qed.
Lemma h_dot : forall x y, Q2R (dot Qops x y) = dot Rops (QR x) (QR y).
Proof. intros. unfold dot. apply h_sum2. exact h_mul. Qed.
Lemma h_vsub : forall x y, QR (vsub Qops x y) = vsub Rops (QR x) (QR y).
Proof. intros. unfold vsub. apply h_map2. exact h_sub. Qed.
Lemma h_vadd : forall x y, QR (vadd Qops x y) = vadd Rops (QR x) (QR y).
Proof. intros. unfold vadd. apply h_map2. exact h_add. Qed.
Lemma h_vscale : forall c x, QR (vscale Qops c x) = vscale Rops (Q2R c) (QR x).
Proof. intros c x. unfold vscale. rewrite !map_map. apply map_ext. intro a. apply h_mul. Qed.
Lemma h_total : forall x, Q2R (total Qops x) = total Rops (QR x).
Proof. induction x as [|a x IH]; simpl; [apply h_zero|]. now rewrite h_add, IH. Qed.
Lemma h_map : forall (fq : Q -> Q) (fr : R -> R), (forall a, Q2R (fq a) = fr (Q2R a)) -> forall x, QR (map fq x) = map fr (QR x).
Proof. intros fq fr H x. rewrite !map_map. apply map_ext. exact H. Qed.
Lemma h_nth : forall i l, Q2R (nth i l (o_zero Qops)) = nth i (QR l) (o_zero Rops).
Proof. induction i as [|i IH]; intros [|a l]; simpl; try apply h_zero; auto. Qed.
Lemma h_weights : forall n i, QR (weights_from Qops i n) = weights_from Rops i n.
Proof. induction n as [|n IH]; intro i; cbn [weights_from map]; auto. rewrite IH. reflexivity. Qed.
Lemma h_bias1 : forall x, QR (bias1 Qops x) = bias1 Rops (QR x).
Proof. intro x. unfold bias1. now rewrite h_weights, map_length. Qed.
Lemma h_bias2 : forall x, QR (bias2 Qops x) = bias2 Rops (QR x).
Proof. intro x. unfold bias2. now rewrite h_weights, map_length. Qed.
Lemma h_biash : forall x, QR (biash Qops x) = biash Rops (QR x).
Proof. intro x. unfold biash. rewrite (h_map (o_mul Qops (half Qops)) (o_mul Rops (half Rops))), h_bias1; auto. intro a. now rewrite h_mul. Qed.

Lemma h_chain_v : forall (pq : Q -> Q -> Q -> Q) (pr : R -> R -> R -> R),
  (forall w a b, Q2R (pq w a b) = pr (Q2R w) (Q2R a) (Q2R b)) ->
  forall w x, Q2R (chain_v Qops pq w x) = chain_v Rops pr (QR w) (QR x).
Proof.
  intros pq pr H. induction w as [|wi w IH]; intros x.
  - destruct x as [|a [|b x]]; simpl; apply h_zero.
  - destruct x as [|a [|b x]]; try (simpl; apply h_zero).
    change (chain_v Qops pq (wi :: w) (a :: b :: x)) with (o_add Qops (pq wi a b) (chain_v Qops pq w (b :: x))).
    rewrite h_add, H, IH. reflexivity.
Qed.
Lemma h_chain_g : forall (aq bq : Q -> Q -> Q -> Q) (ar br : R -> R -> R -> R),
  (forall w a b, Q2R (aq w a b) = ar (Q2R w) (Q2R a) (Q2R b)) -> (forall w a b, Q2R (bq w a b) = br (Q2R w) (Q2R a) (Q2R b)) ->
  forall w x c, QR (chain_g Qops aq bq c w x) = chain_g Rops ar br (Q2R c) (QR w) (QR x).
Proof.
  intros aq bq ar br Ha Hb. induction w as [|wi w IH]; intros x c.
  - destruct x as [|a [|b x]]; reflexivity.
  - destruct x as [|a [|b x]]; try reflexivity.
    change (chain_g Qops aq bq c (wi :: w) (a :: b :: x)) with (o_add Qops c (aq wi a b) :: chain_g Qops aq bq (bq wi a b) w (b :: x)).
    cbn [map]. rewrite h_add, Ha, IH, Hb. reflexivity.
Qed.
Lemma h_prefix : forall x acc, QR (prefix_from Qops acc x) = prefix_from Rops (Q2R acc) (QR x).
Proof. induction x as [|v x IH]; intro acc; simpl; auto. now rewrite IH, h_add. Qed.
Lemma h_suffix : forall p, QR (suffix_sums Qops p) = suffix_sums Rops (QR p).
Proof.
  induction p as [|v p IH]; cbn [suffix_sums map]; auto. rewrite <- IH, h_add.
  destruct (suffix_sums Qops p); cbn [map]; rewrite ?h_zero; reflexivity.
Qed.
Lemma h_argmax_from : forall o best ib i, argmax_from Qops best ib i o = argmax_from Rops (Q2R best) ib i (QR o).
Proof. induction o as [|v o IH]; intros; cbn [argmax_from map]; auto. rewrite h_ltb. destruct (o_ltb Rops (Q2R best) (Q2R v)); apply IH. Qed.
Lemma h_argmax : forall o, argmax Qops o = argmax Rops (QR o).
Proof. intros [|v o]; cbn [argmax map]; auto. apply h_argmax_from. Qed.

(* ---- error rules (natural numbers) ---- *)
Lemma h_err_count : forall eps t o, err_count Qops eps t o = err_count Rops (Q2R eps) (QR t) (QR o).
Proof. induction t as [|a t IH]; intros [|b o]; cbn [err_count map]; auto. rewrite h_ltb, h_mul, IH. reflexivity. Qed.
Lemma h_err_sclass : forall eps t o, err_sclass Qops eps t o = err_sclass Rops (Q2R eps) (QR t) (QR o).
Proof.
  intros eps t o. destruct t as [|a [|b t]]; try apply h_err_count.
  unfold err_sclass, is_pos_target. cbn [map]. rewrite h_ltb, h_zero, h_argmax.
  change (Q2R a :: Q2R b :: QR t) with (QR (a :: b :: t)). now rewrite <- h_nth.
Qed.
Lemma h_err_absdiff : forall t o, Q2R (err_absdiff Qops t o) = err_absdiff Rops (QR t) (QR o).
Proof. intros. unfold err_absdiff. apply h_sum2. intros. now homs. Qed.

(* ---- per-coefficient loss kernels, one line each ---- *)
Ltac kernel := intros; unfold k_mse_v, k_mse_g, k_mae_v, k_mae_g, k_hinge_v, k_hinge_g, k_sqhinge_v, k_sqhinge_g, k_pinball_v, k_pinball_g;
               homs; reflexivity.
Lemma h_mse_v : forall t o, Q2R (k_mse_v Qops t o) = k_mse_v Rops (Q2R t) (Q2R o). Proof. kernel. Qed.
Lemma h_mse_g : forall t o, Q2R (k_mse_g Qops t o) = k_mse_g Rops (Q2R t) (Q2R o). Proof. kernel. Qed.
Lemma h_mae_v : forall t o, Q2R (k_mae_v Qops t o) = k_mae_v Rops (Q2R t) (Q2R o). Proof. kernel. Qed.
Lemma h_mae_g : forall t o, Q2R (k_mae_g Qops t o) = k_mae_g Rops (Q2R t) (Q2R o). Proof. kernel. Qed.
Lemma h_hinge_v : forall t o, Q2R (k_hinge_v Qops t o) = k_hinge_v Rops (Q2R t) (Q2R o). Proof. kernel. Qed.
Lemma h_hinge_g : forall t o, Q2R (k_hinge_g Qops t o) = k_hinge_g Rops (Q2R t) (Q2R o). Proof. kernel. Qed.
Lemma h_sqhinge_v : forall t o, Q2R (k_sqhinge_v Qops t o) = k_sqhinge_v Rops (Q2R t) (Q2R o). Proof. kernel. Qed.
Lemma h_sqhinge_g : forall t o, Q2R (k_sqhinge_g Qops t o) = k_sqhinge_g Rops (Q2R t) (Q2R o). Proof. kernel. Qed.
Lemma h_pinball_v : forall al t o, Q2R (k_pinball_v Qops al t o) = k_pinball_v Rops (Q2R al) (Q2R t) (Q2R o). Proof. kernel. Qed.
Lemma h_pinball_g : forall al t o, Q2R (k_pinball_g Qops al t o) = k_pinball_g Rops (Q2R al) (Q2R t) (Q2R o). Proof. kernel. Qed.

(* a sample's loss / gradient for ANY kernel pair related by Q2R *)
Lemma h_loss_v : forall kq kr, (forall t o, Q2R (kq t o) = kr (Q2R t) (Q2R o)) ->
  forall t o, Q2R (loss_v Qops kq t o) = loss_v Rops kr (QR t) (QR o).
Proof. intros. unfold loss_v. now apply h_sum2. Qed.
Lemma h_loss_g : forall kq kr, (forall t o, Q2R (kq t o) = kr (Q2R t) (Q2R o)) ->
  forall t o, QR (loss_g kq t o) = loss_g kr (QR t) (QR o).
Proof. intros. unfold loss_g. now apply h_map2. Qed.

(* ---- benchmark functions ---- *)
Lemma h_sphere_v : forall x, Q2R (sphere_v Qops x) = sphere_v Rops (QR x).
Proof. intro. unfold sphere_v. apply h_dot. Qed.
Lemma h_sphere_g : forall x, QR (sphere_g Qops x) = sphere_g Rops (QR x).
Proof. intro. unfold sphere_g. now rewrite h_vscale. Qed.

Lemma h_axis_v : forall x, Q2R (axis_v Qops x) = axis_v Rops (QR x).
Proof. intro. unfold axis_v. rewrite <- h_bias1. apply h_sum2. intros. now homs. Qed.
Lemma h_axis_g : forall x, QR (axis_g Qops x) = axis_g Rops (QR x).
Proof. intro. unfold axis_g. rewrite <- h_bias1. apply h_map2. intros. now homs. Qed.

Lemma h_schumer_v : forall x, Q2R (schumer_v Qops x) = schumer_v Rops (QR x).
Proof. intro. unfold schumer_v. apply h_sum2. intros. now homs. Qed.
Lemma h_schumer_g : forall x, QR (schumer_g Qops x) = schumer_g Rops (QR x).
Proof. intro. unfold schumer_g. apply h_map2. intros. now homs. Qed.

Lemma h_chung_v : forall x, Q2R (chung_v Qops x) = chung_v Rops (QR x).
Proof. intro. unfold chung_v. now rewrite h_sq, h_dot. Qed.
Lemma h_chung_g : forall x, QR (chung_g Qops x) = chung_g Rops (QR x).
Proof. intro. unfold chung_g. rewrite h_vscale. homs. now rewrite h_dot. Qed.

Lemma h_sargan_v : forall x, Q2R (sargan_v Qops x) = sargan_v Rops (QR x).
Proof. intro. unfold sargan_v. homs. now rewrite !h_dot. Qed.
Lemma h_sargan_g : forall x, QR (sargan_g Qops x) = sargan_g Rops (QR x).
Proof. intro. unfold sargan_g. rewrite h_vscale. homs. now rewrite h_dot. Qed.

Lemma h_zakharov_v : forall x, Q2R (zakharov_v Qops x) = zakharov_v Rops (QR x).
Proof. intro. unfold zakharov_v. cbv zeta. homs. now rewrite !h_dot, h_biash. Qed.
Lemma h_zakharov_g : forall x, QR (zakharov_g Qops x) = zakharov_g Rops (QR x).
Proof. intro. unfold zakharov_g. cbv zeta. rewrite h_vadd, !h_vscale. homs. now rewrite !h_dot, h_biash. Qed.

Lemma h_qing_v : forall x, Q2R (qing_v Qops x) = qing_v Rops (QR x).
Proof. intro. unfold qing_v. rewrite <- h_bias1. apply h_sum2. intros. now homs. Qed.
Lemma h_qing_g : forall x, QR (qing_g Qops x) = qing_g Rops (QR x).
Proof. intro. unfold qing_g. rewrite <- h_bias1. apply h_map2. intros. now homs. Qed.

Lemma h_styblinski_v : forall x, Q2R (styblinski_v Qops x) = styblinski_v Rops (QR x).
Proof. intro. unfold styblinski_v. apply h_sum2. intros. now homs. Qed.
Lemma h_styblinski_g : forall x, QR (styblinski_g Qops x) = styblinski_g Rops (QR x).
Proof. intro. unfold styblinski_g. apply h_map2. intros. now homs. Qed.

Lemma h_trid_v : forall x, Q2R (trid_v Qops x) = trid_v Rops (QR x).
Proof.
  intro. unfold trid_v. rewrite h_sub, <- h_bias2.
  rewrite (h_sum2 (fun _ u => sq Qops (o_sub Qops u (o_one Qops))) (fun _ u => sq Rops (o_sub Rops u (o_one Rops)))) by (intros; now homs).
  rewrite (h_chain_v (fun _ a b => o_mul Qops a b) (fun _ a b => o_mul Rops a b)) by (intros; now homs). reflexivity.
Qed.
Lemma h_trid_g : forall x, QR (trid_g Qops x) = trid_g Rops (QR x).
Proof.
  intro. unfold trid_g. rewrite h_vsub, <- h_bias2.
  rewrite (h_map2 (fun _ u => o_mul Qops (two Qops) (o_sub Qops u (o_one Qops))) (fun _ u => o_mul Rops (two Rops) (o_sub Rops u (o_one Rops)))) by (intros; now homs).
  rewrite (h_chain_g (fun _ a b => b) (fun _ a b => a) (fun _ a b => b) (fun _ a b => a)) by reflexivity. now rewrite h_zero.
Qed.

Lemma h_rosenbrock_v : forall x, Q2R (rosenbrock_v Qops x) = rosenbrock_v Rops (QR x).
Proof. intro. unfold rosenbrock_v. rewrite <- h_bias2. apply h_chain_v. intros. unfold rosen_phi. now homs. Qed.
Lemma h_rosenbrock_g : forall x, QR (rosenbrock_g Qops x) = rosenbrock_g Rops (QR x).
Proof.
  intro. unfold rosenbrock_g. rewrite <- h_bias2, <- h_zero. apply h_chain_g; intros; unfold rosen_pa, rosen_pb; now homs.
Qed.

Lemma h_dixon_v : forall x, Q2R (dixon_v Qops x) = dixon_v Rops (QR x).
Proof.
  intros [|x0 x]; [apply h_zero|]. unfold dixon_v. change (QR (x0 :: x)) with (Q2R x0 :: QR x). cbv iota.
  rewrite h_add. change (Q2R x0 :: QR x) with (QR (x0 :: x)). rewrite <- h_bias2.
  rewrite (h_chain_v (dixon_phi Qops) (dixon_phi Rops)) by (intros; unfold dixon_phi; now homs). now homs.
Qed.
Lemma h_dixon_g : forall x, QR (dixon_g Qops x) = dixon_g Rops (QR x).
Proof.
  intros [|x0 x]; [reflexivity|]. unfold dixon_g. change (QR (x0 :: x)) with (Q2R x0 :: QR x). cbv iota.
  change (Q2R x0 :: QR x) with (QR (x0 :: x)). rewrite <- h_bias2.
  rewrite (h_chain_g (dixon_pa Qops) (dixon_pb Qops) (dixon_pa Rops) (dixon_pb Rops)) by (intros; unfold dixon_pa, dixon_pb; now homs).
  now homs.
Qed.

Lemma h_chained_lq_v : forall x, Q2R (chained_lq_v Qops x) = chained_lq_v Rops (QR x).
Proof. intro. unfold chained_lq_v. rewrite <- h_bias2. apply h_chain_v. intros. unfold lq_phi, lq_v2, lq_v1. now homs. Qed.
Lemma h_chained_lq_g : forall x, QR (chained_lq_g Qops x) = chained_lq_g Rops (QR x).
Proof.
  intro. unfold chained_lq_g. rewrite <- h_bias2, <- h_zero. apply h_chain_g; intros; unfold lq_pa, lq_pb, lq_v2, lq_v1; now homs.
Qed.

Lemma h_rotated_v : forall x, Q2R (rotated_v Qops x) = rotated_v Rops (QR x).
Proof. intro. unfold rotated_v. rewrite h_total, (h_map (sq Qops) (sq Rops) h_sq), h_prefix, h_zero. reflexivity. Qed.
Lemma h_rotated_g : forall x, QR (rotated_g Qops x) = rotated_g Rops (QR x).
Proof.
  intro. unfold rotated_g. rewrite h_suffix, (h_map (o_mul Qops (two Qops)) (o_mul Rops (two Rops))), h_prefix, h_zero; auto.
  intro a. now homs.
Qed.

Lemma h_maxq_v : forall x, Q2R (maxq_v Qops x) = maxq_v Rops (QR x).
Proof. intro. unfold maxq_v. now rewrite h_nth, h_argmax, !(h_map (sq Qops) (sq Rops) h_sq). Qed.
Lemma h_maxq_g : forall x, QR (maxq_g Qops x) = maxq_g Rops (QR x).
Proof.
  intro. unfold maxq_g. cbv zeta. rewrite h_argmax, (h_map (sq Qops) (sq Rops) h_sq), !map_length, <- (h_weights (length x) 0).
  apply h_map2. intros. now homs.
Qed.

(* ---- constraints ---- *)
Lemma h_cons_ball_v : forall o r x, Q2R (cons_ball_v Qops o r x) = cons_ball_v Rops (QR o) (Q2R r) (QR x).
Proof. intros. unfold cons_ball_v. homs. now rewrite h_dot, h_vsub. Qed.
Lemma h_cons_ball_g : forall o x, QR (cons_ball_g Qops o x) = cons_ball_g Rops (QR o) (QR x).
Proof. intros. unfold cons_ball_g. now rewrite h_vscale, h_vsub. Qed.
Lemma h_cons_linear_v : forall q r x, Q2R (cons_linear_v Qops q r x) = cons_linear_v Rops (QR q) (Q2R r) (QR x).
Proof. intros. unfold cons_linear_v. homs. now rewrite h_dot. Qed.
Lemma h_cons_linear_g : forall q x, QR (cons_linear_g q x) = cons_linear_g (QR q) (QR x).
Proof. intros. unfold cons_linear_g. now apply h_map2. Qed.
Lemma h_cons_coord_v : forall s v d x, Q2R (cons_coord_v Qops s v d x) = cons_coord_v Rops (Q2R s) (Q2R v) d (QR x).
Proof. intros. unfold cons_coord_v. homs. now rewrite h_nth. Qed.
Lemma h_cons_coord_g : forall s d x, QR (cons_coord_g Qops s d x) = cons_coord_g Rops (Q2R s) d (QR x).
Proof.
  intros. unfold cons_coord_g. rewrite map_length, <- (h_weights (length x) 0). apply h_map2. intros. now homs.
Qed.

(* ---- everything together ---- *)
Lemma model_transfer :
  (* scalar structure: Q2R is an order embedding of ordered fields *)
  (forall a b, o_ltb Qops a b = o_ltb Rops (Q2R a) (Q2R b)) /\
  (* per-coefficient loss kernels (value, gradient) *)
  (forall t o, Q2R (k_mse_v Qops t o) = k_mse_v Rops (Q2R t) (Q2R o)) /\ (forall t o, Q2R (k_mse_g Qops t o) = k_mse_g Rops (Q2R t) (Q2R o)) /\
  (forall t o, Q2R (k_mae_v Qops t o) = k_mae_v Rops (Q2R t) (Q2R o)) /\ (forall t o, Q2R (k_mae_g Qops t o) = k_mae_g Rops (Q2R t) (Q2R o)) /\
  (forall t o, Q2R (k_hinge_v Qops t o) = k_hinge_v Rops (Q2R t) (Q2R o)) /\ (forall t o, Q2R (k_hinge_g Qops t o) = k_hinge_g Rops (Q2R t) (Q2R o)) /\
  (forall t o, Q2R (k_sqhinge_v Qops t o) = k_sqhinge_v Rops (Q2R t) (Q2R o)) /\ (forall t o, Q2R (k_sqhinge_g Qops t o) = k_sqhinge_g Rops (Q2R t) (Q2R o)) /\
  (forall al t o, Q2R (k_pinball_v Qops al t o) = k_pinball_v Rops (Q2R al) (Q2R t) (Q2R o)) /\
  (forall al t o, Q2R (k_pinball_g Qops al t o) = k_pinball_g Rops (Q2R al) (Q2R t) (Q2R o)) /\
  (* a sample's loss and gradient, for any kernel pair related by Q2R *)
  (forall kq kr, (forall t o, Q2R (kq t o) = kr (Q2R t) (Q2R o)) -> forall t o, Q2R (loss_v Qops kq t o) = loss_v Rops kr (QR t) (QR o)) /\
  (forall kq kr, (forall t o, Q2R (kq t o) = kr (Q2R t) (Q2R o)) -> forall t o, QR (loss_g kq t o) = loss_g kr (QR t) (QR o)) /\
  (* error rules *)
  (forall t o, Q2R (err_absdiff Qops t o) = err_absdiff Rops (QR t) (QR o)) /\
  (forall eps t o, err_count Qops eps t o = err_count Rops (Q2R eps) (QR t) (QR o)) /\
  (forall eps t o, err_sclass Qops eps t o = err_sclass Rops (Q2R eps) (QR t) (QR o)) /\
  (forall o, argmax Qops o = argmax Rops (QR o)) /\
  (* benchmark functions (value, gradient) *)
  (forall x, Q2R (sphere_v Qops x) = sphere_v Rops (QR x)) /\ (forall x, QR (sphere_g Qops x) = sphere_g Rops (QR x)) /\
  (forall x, Q2R (axis_v Qops x) = axis_v Rops (QR x)) /\ (forall x, QR (axis_g Qops x) = axis_g Rops (QR x)) /\
  (forall x, Q2R (schumer_v Qops x) = schumer_v Rops (QR x)) /\ (forall x, QR (schumer_g Qops x) = schumer_g Rops (QR x)) /\
  (forall x, Q2R (chung_v Qops x) = chung_v Rops (QR x)) /\ (forall x, QR (chung_g Qops x) = chung_g Rops (QR x)) /\
  (forall x, Q2R (sargan_v Qops x) = sargan_v Rops (QR x)) /\ (forall x, QR (sargan_g Qops x) = sargan_g Rops (QR x)) /\
  (forall x, Q2R (zakharov_v Qops x) = zakharov_v Rops (QR x)) /\ (forall x, QR (zakharov_g Qops x) = zakharov_g Rops (QR x)) /\
  (forall x, Q2R (qing_v Qops x) = qing_v Rops (QR x)) /\ (forall x, QR (qing_g Qops x) = qing_g Rops (QR x)) /\
  (forall x, Q2R (styblinski_v Qops x) = styblinski_v Rops (QR x)) /\ (forall x, QR (styblinski_g Qops x) = styblinski_g Rops (QR x)) /\
  (forall x, Q2R (trid_v Qops x) = trid_v Rops (QR x)) /\ (forall x, QR (trid_g Qops x) = trid_g Rops (QR x)) /\
  (forall x, Q2R (rosenbrock_v Qops x) = rosenbrock_v Rops (QR x)) /\ (forall x, QR (rosenbrock_g Qops x) = rosenbrock_g Rops (QR x)) /\
  (forall x, Q2R (dixon_v Qops x) = dixon_v Rops (QR x)) /\ (forall x, QR (dixon_g Qops x) = dixon_g Rops (QR x)) /\
  (forall x, Q2R (chained_lq_v Qops x) = chained_lq_v Rops (QR x)) /\ (forall x, QR (chained_lq_g Qops x) = chained_lq_g Rops (QR x)) /\
  (forall x, Q2R (rotated_v Qops x) = rotated_v Rops (QR x)) /\ (forall x, QR (rotated_g Qops x) = rotated_g Rops (QR x)) /\
  (forall x, Q2R (maxq_v Qops x) = maxq_v Rops (QR x)) /\ (forall x, QR (maxq_g Qops x) = maxq_g Rops (QR x)) /\
  (* constraints *)
  (forall o r x, Q2R (cons_ball_v Qops o r x) = cons_ball_v Rops (QR o) (Q2R r) (QR x)) /\
  (forall o x, QR (cons_ball_g Qops o x) = cons_ball_g Rops (QR o) (QR x)) /\
  (forall q r x, Q2R (cons_linear_v Qops q r x) = cons_linear_v Rops (QR q) (Q2R r) (QR x)) /\
  (forall q x, QR (cons_linear_g q x) = cons_linear_g (QR q) (QR x)) /\
  (forall s v d x, Q2R (cons_coord_v Qops s v d x) = cons_coord_v Rops (Q2R s) (Q2R v) d (QR x)) /\
  (forall s d x, QR (cons_coord_g Qops s d x) = cons_coord_g Rops (Q2R s) d (QR x)).
Proof.
  exact (conj h_ltb (conj h_mse_v (conj h_mse_g (conj h_mae_v (conj h_mae_g (conj h_hinge_v (conj h_hinge_g (conj h_sqhinge_v (conj h_sqhinge_g (conj h_pinball_v (conj h_pinball_g (conj h_loss_v (conj h_loss_g (conj h_err_absdiff (conj h_err_count (conj h_err_sclass (conj h_argmax (conj h_sphere_v (conj h_sphere_g (conj h_axis_v (conj h_axis_g (conj h_schumer_v (conj h_schumer_g (conj h_chung_v (conj h_chung_g (conj h_sargan_v (conj h_sargan_g (conj h_zakharov_v (conj h_zakharov_g (conj h_qing_v (conj h_qing_g (conj h_styblinski_v (conj h_styblinski_g (conj h_trid_v (conj h_trid_g (conj h_rosenbrock_v (conj h_rosenbrock_g (conj h_dixon_v (conj h_dixon_g (conj h_chained_lq_v (conj h_chained_lq_g (conj h_rotated_v (conj h_rotated_g (conj h_maxq_v (conj h_maxq_g (conj h_cons_ball_v (conj h_cons_ball_g (conj h_cons_linear_v (conj h_cons_linear_g (conj h_cons_coord_v h_cons_coord_g)))))))))))))))))))))))))))))))))))))))))))))))))).
Qed.

(* how the transfer is used: a theorem about [Rops] applies verbatim to what the driver computes with [Qops] on rational points;
   e.g. the sub-gradient inequality of the extracted mae loss, read in R *)
From LN Require Import C06_Proofs.
Lemma transfer_mae_convex : forall t o o' : list Q, length o' = length o ->
  Q2R (loss_v Qops (k_mae_v Qops) t o') >=
  Q2R (loss_v Qops (k_mae_v Qops) t o) + Q2R (dot Qops (loss_g (k_mae_g Qops) t o) (vsub Qops o' o)).
Proof.
  intros t o o' H.
  rewrite !(h_loss_v (k_mae_v Qops) (k_mae_v Rops) h_mae_v), h_dot, h_vsub, (h_loss_g (k_mae_g Qops) (k_mae_g Rops) h_mae_g).
  apply loss_subgrad; [exact k_mae_subgrad | now rewrite !map_length].
Qed.
Lemma transfer_sphere_convex : forall x z : list Q, length z = length x ->
  Q2R (sphere_v Qops z) >= Q2R (sphere_v Qops x) + Q2R (dot Qops (sphere_g Qops x) (vsub Qops z x))
                           + 2 / 2 * Q2R (dot Qops (vsub Qops z x) (vsub Qops z x)).
Proof.
  intros x z H. rewrite !h_sphere_v, !h_dot, !h_vsub, h_sphere_g. apply sphere_convex. now rewrite !map_length.
Qed.
