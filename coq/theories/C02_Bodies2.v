(* C02 (extension 3) -- proofs about the whole-run models of the ellipsoid / osga / pgm / dgm / fgm / asga2 / asga4 bodies
   (C02_Bodies2_Defs.v).
   Part 1: programs (p_run, p_bind, cap_loop): counters, composition, loop invariants.
   Part 2: the skeleton b2_run over an ARBITRARY rule2 whose passes cost at most B and make progress when they go on:
           termination within the budget, evaluations <= max(2, max_evals - 1 + B), the stored (x, fx[, gx]) is an oracle answer,
           the best value never increases, status facts, the shapes of the exit.
   Part 3: the seven concrete rules satisfy the hypotheses of part 2, with their B; what their flags mean.
   Part 4: per-body facts that keep the iteration well defined. *)
From Coq Require Import ZArith List Bool Reals Floats Lra Lia.
From Flocq Require Import Core BinarySingleNaN PrimFloat.
From LNGen Require Import Src_c02 Src_c02c.
From LN Require Import C02_Defs C02_Proofs C02_Bodies_Defs C02_Bodies C02_Bodies2_Defs.
Import ListNotations.
Local Open Scope Z_scope.

(* ------------------------------------------------------------------------------------------------------------- *)
(* Part 1: programs                                                                                              *)
(* ------------------------------------------------------------------------------------------------------------- *)
Lemma p_run_eval {A} ev x wg (k : PrimFloat.float -> bpoint -> prog A) c :
  p_run ev (PEval x wg k) c =
  p_run ev (k (fst (ev (c_ne c) x)) (if wg then snd (ev (c_ne c) x) else []))
        (mkC (c_ne c + 1) (c_fc c + 1) (c_gc c + (if wg then 1 else 0))).
Proof.
  simpl. destruct (ev (c_ne c) x) as [f g]. unfold eval_counters. rewrite k_fn_fcalls, k_fn_gcalls.
  destruct wg; reflexivity.
Qed.

Lemma p_run_bind {A B} ev (p : prog A) (k : A -> prog B) : forall c,
  p_run ev (p_bind p k) c = p_run ev (k (fst (p_run ev p c))) (snd (p_run ev p c)).
Proof.
  induction p as [a|x wg kk IH]; intros c; [reflexivity|].
  change (p_bind (PEval x wg kk) k) with (PEval x wg (fun f g => p_bind (kk f g) k)).
  rewrite !p_run_eval. apply IH.
Qed.

(* how the counters advance: every evaluation adds one to the index and to fcalls, at most one to gcalls *)
Definition adv (c c' : ctr) : Prop :=
  c_ne c <= c_ne c' /\ c_fc c' - c_fc c = c_ne c' - c_ne c /\ 0 <= c_gc c' - c_gc c <= c_ne c' - c_ne c.

Lemma adv_refl c : adv c c. Proof. unfold adv. lia. Qed.
Lemma adv_trans a b c : adv a b -> adv b c -> adv a c. Proof. unfold adv. lia. Qed.

Lemma p_run_adv {A} ev (p : prog A) : forall c, adv c (snd (p_run ev p c)).
Proof.
  induction p as [a|x wg kk IH]; intros c; [apply adv_refl|].
  rewrite p_run_eval. eapply adv_trans; [|apply IH]. unfold adv. simpl. destruct wg; lia.
Qed.

Definition calls (c : ctr) : Z := c_fc c + c_gc c.

(* an invariant of the loop state and the counters is carried through cap_loop *)
Lemma cap_loop_inv {S} ev (I : S -> ctr -> Prop) (cond : S -> bool) (body : S -> prog S) :
  (forall s c, cond s = true -> I s c -> I (fst (p_run ev (body s) c)) (snd (p_run ev (body s) c))) ->
  forall fuel s c, I s c -> I (fst (p_run ev (cap_loop fuel cond body s) c)) (snd (p_run ev (cap_loop fuel cond body s) c)).
Proof.
  intros HB. induction fuel as [|n IH]; intros s c HI; simpl; [exact HI|].
  destruct (cond s) eqn:C; [|exact HI]. rewrite p_run_bind. apply IH. apply HB; assumption.
Qed.

(* how cap_loop ends: the condition is false, or the fuel is used up by [fuel] executions of the body *)
Lemma cap_loop_exit {S} ev (cnt : S -> Z) (cond : S -> bool) (body : S -> prog S) :
  (forall s c, cond s = true -> cnt (fst (p_run ev (body s) c)) = cnt s + 1) ->
  forall fuel s c, let s' := fst (p_run ev (cap_loop fuel cond body s) c) in
  cond s' = false \/ cnt s' = cnt s + Z.of_nat fuel.
Proof.
  intros HC. induction fuel as [|n IH]; intros s c; simpl.
  - right. lia.
  - destruct (cond s) eqn:C; [|left; exact C]. rewrite p_run_bind.
    destruct (IH (fst (p_run ev (body s) c)) (snd (p_run ev (body s) c))) as [H|H]; [left; exact H|right].
    rewrite H, HC by exact C. lia.
Qed.

(* more fuel than the cap the condition tests changes nothing *)
Lemma cap_loop_fuel {S} ev (cnt : S -> Z) (cap : Z) (cond : S -> bool) (body : S -> prog S) :
  (forall s c, cond s = true -> cnt (fst (p_run ev (body s) c)) = cnt s + 1) ->
  (forall s, cond s = true -> cnt s < cap) ->
  forall extra fuel s c, cap <= cnt s + Z.of_nat fuel ->
  p_run ev (cap_loop (fuel + extra) cond body s) c = p_run ev (cap_loop fuel cond body s) c.
Proof.
  intros HC HK extra. induction fuel as [|n IH]; intros s c Hc.
  - simpl Nat.add. destruct extra as [|e]; [reflexivity|]. simpl. destruct (cond s) eqn:C; [|reflexivity].
    apply HK in C. simpl in Hc. lia.
  - simpl. destruct (cond s) eqn:C; [|reflexivity]. rewrite !p_run_bind. apply IH. rewrite HC by exact C. lia.
Qed.

(* ------------------------------------------------------------------------------------------------------------- *)
(* Part 2: the skeleton over an arbitrary rule                                                                   *)
(* ------------------------------------------------------------------------------------------------------------- *)
Lemma better2_fields s fc gc x f :
  let s1 := fst (update_if_better2 s fc gc x f) in
  sfcalls s1 = fc /\ sgcalls s1 = gc /\ sstatus s1 = sstatus s /\ sgx s1 = sgx s /\
  ((sx s1 = sx s /\ sfx s1 = sfx s) \/ (sx s1 = x /\ sfx s1 = f)).
Proof.
  unfold update_if_better2, update_if_better. destruct (ffin f); [destruct (PrimFloat.ltb _ _)|]; simpl; auto 10.
Qed.

Section Generic2.
  Variable A : Type.
  Variable orc : b2oracles.
  Variable R : rule2 A.
  Variable cfg : b2conf.
  Variable B : Z.                  (* the per-pass evaluation bound, in fcalls + gcalls *)
  Variable three : bool.           (* the rule only uses the 3-argument update_if_better *)
  Variable J : Z -> A -> Prop.     (* an invariant of the auxiliaries (indexed by the number of evaluations requested) *)
  Let ev := o2_eval orc.

  Definition seen3 (ne : Z) (x : bpoint) (f : PrimFloat.float) (g : bpoint) : Prop := exists k, 0 <= k < ne /\ ev k x = (f, g).
  Definition seen2 (ne : Z) (x : bpoint) (f : PrimFloat.float) : Prop := exists k, 0 <= k < ne /\ fst (ev k x) = f.

  Definition cand_ok (ne : Z) (cand : option (bpoint * option bpoint * PrimFloat.float)) : Prop :=
    match cand with
    | Some (x, Some g, f) => seen3 ne x f g
    | Some (x, None, f) => three = false /\ seen2 ne x f
    | None => True
    end.

  Hypothesis HL : forall fc gc m, r2_loop R fc gc m = (fc + gc <? m).
  Hypothesis HB0 : 0 <= B.
  Hypothesis HJ0 : forall x0, J 1 (r2_init R (b2_state0 orc x0)).
  Hypothesis HP : forall s a c, 1 <= c_ne c -> J (c_ne c) a ->
    let oc := p_run ev (r2_pass R s a) c in
    calls (snd oc) <= calls c + B /\
    (forall s1, po_ok (fst oc) s1 = true -> c_ne c < c_ne (snd oc)) /\
    J (c_ne (snd oc)) (po_aux (fst oc)) /\ cand_ok (c_ne (snd oc)) (po_cand (fst oc)).

  (* the stored point and value (and sub-gradient, for the 3-argument clients) are an answer of the oracle *)
  Definition hon (ne : Z) (s : sstate) : Prop :=
    exists k, 0 <= k < ne /\ fst (ev k (sx s)) = sfx s /\ (three = true -> snd (ev k (sx s)) = sgx s).

  Record ginv2 (f0 : PrimFloat.float) (st : brun2 A) : Prop := mkGI2 {
    g2_fc : c_fc (b2_c st) = c_ne (b2_c st);
    g2_gc : 0 <= c_gc (b2_c st) <= c_ne (b2_c st);
    g2_ne : 1 <= c_ne (b2_c st);
    g2_it : 0 <= b2_iters st <= b2_dones st;
    g2_bd : calls (b2_c st) <= Z.max 2 (c2_maxev cfg - 1 + B);
    g2_rf : sfcalls (b2_s st) <= c_fc (b2_c st);
    g2_rg : sgcalls (b2_s st) <= c_gc (b2_c st);
    g2_h : hon (c_ne (b2_c st)) (b2_s st);
    g2_j : J (c_ne (b2_c st)) (b2_a st);
    g2_best : ffin f0 = true -> ffin (sfx (b2_s st)) = true /\ PrimFloat.leb (sfx (b2_s st)) f0 = true
  }.

  Definition goon2 (st : brun2 A) : Prop :=
    sstatus (b2_s st) = ST_MAX_ITERS /\ (1 <= b2_dones st -> valid (b2_s st) = true).

  Definition status_of2 (r : brun2 A) : Z :=
    if b2_conv r && (b2_ok r && valid (b2_s r)) then ST_CONVERGED else ST_FAILED.

  (* same point, value, sub-gradient, history, validity (done() and update_calls() only touch the status and the counters) *)
  Definition samept (s1 s : sstate) : Prop :=
    sx s1 = sx s /\ sfx s1 = sfx s /\ sgx s1 = sgx s /\ shist s1 = shist s /\ valid s1 = valid s.

  (* how a run can end *)
  Definition post2 (x0 : bpoint) (r : brun2 A) : Prop :=
    ((b2_exit r = BX_FUEL \/ b2_exit r = BX_BUDGET) /\ goon2 r /\
     (b2_exit r = BX_BUDGET -> c2_maxev cfg <= calls (b2_c r))) \/
    (b2_exit r = BX_DONE /\ 1 <= b2_iters r /\
     (exists s0 c0 s1, let out := fst (p_run ev (r2_pass R s0 (b2_prev r)) c0) in
        b2_ok r = po_ok out s1 /\ b2_conv r = po_conv out s1 /\ samept s1 (b2_s r)) /\
     ((exists s00, r2_exit R s00 (b2_prev r) = None) \/ r2_exit_break R = false) /\
     (b2_conv r || negb (b2_ok r && valid (b2_s r))) = true /\
     sstatus (b2_s r) = status_of2 r) \/
    (b2_exit r = BX_ZERO /\ 1 <= b2_dones r /\
     (exists s0, r2_exit R s0 (b2_prev r) = Some (b2_ok r, b2_conv r) /\ samept s0 (b2_s r)) /\
     sstatus (b2_s r) = (if b2_conv r || negb (b2_ok r && valid (b2_s r)) then status_of2 r else ST_MAX_ITERS)) \/
    (b2_exit r = BX_PRE /\ b2_dones r = 0 /\ b2_iters r = 0 /\ b2_s r = b2_state0 orc x0 /\ r2_pre R (b2_s r) = true /\
     sstatus (b2_s r) = ST_MAX_ITERS).

  Lemma hon_mono ne ne' s : ne <= ne' -> hon ne s -> hon ne' s.
  Proof. intros L (k & K & E). exists k. split; [lia|exact E]. Qed.

  Lemma apply_cand_inv f0 s c cand ne :
    hon ne s -> cand_ok ne cand ->
    (ffin f0 = true -> ffin (sfx s) = true /\ PrimFloat.leb (sfx s) f0 = true) ->
    let s1 := apply_cand s c cand in
    sstatus s1 = sstatus s /\ hon ne s1 /\
    (ffin f0 = true -> ffin (sfx s1) = true /\ PrimFloat.leb (sfx s1) f0 = true).
  Proof.
    intros Hh Hc Hb. destruct cand as [[[x [g|]] f]|]; simpl; [| |auto].
    - pose proof (better_fields s (c_fc c) (c_gc c) x g f) as BF. cbv zeta in BF.
      pose proof (better_spec s (c_fc c) (c_gc c) x g f) as BS.
      destruct (update_if_better s (c_fc c) (c_gc c) x g f) as [s1 rb]. simpl in *.
      destruct BF as (_ & _ & B3 & B4). split; [exact B3|]. split.
      + destruct B4 as [(P1 & P2 & P3)|(P1 & P2 & P3)].
        * destruct Hh as (k & K & E1 & E2). exists k. rewrite P1, P2, P3. auto.
        * destruct Hc as (k & K & E). exists k. rewrite P1, P2, P3, E. auto.
      + intros F0. destruct (Hb F0) as (Fs & Ls). destruct (BS Fs) as (A1 & A2 & _). split; [exact A1|].
        apply fin_leb_trans with (b := sfx s); auto.
    - unfold update_if_better2.
      pose proof (better_fields s (c_fc c) (c_gc c) x (sgx s) f) as BF. cbv zeta in BF.
      pose proof (better_spec s (c_fc c) (c_gc c) x (sgx s) f) as BS.
      destruct (update_if_better s (c_fc c) (c_gc c) x (sgx s) f) as [s1 rb]. simpl in *.
      destruct BF as (_ & _ & B3 & B4). split; [exact B3|]. destruct Hc as (T & k & K & E). split.
      + destruct B4 as [(P1 & P2 & P3)|(P1 & P2 & P3)].
        * destruct Hh as (k' & K' & E1 & E2). exists k'. rewrite P1, P2, P3. auto.
        * exists k. rewrite P1, P2. split; [exact K|]. split; [exact E|]. rewrite T. discriminate.
      + intros F0. destruct (Hb F0) as (Fs & Ls). destruct (BS Fs) as (A1 & A2 & _). split; [exact A1|].
        apply fin_leb_trans with (b := sfx s); auto.
  Qed.

  Lemma b2_body_inv f0 x0 st s d :
    ginv2 f0 st -> calls (b2_c st) < c2_maxev cfg ->
    hon (c_ne (b2_c st)) s ->
    (ffin f0 = true -> ffin (sfx s) = true /\ PrimFloat.leb (sfx s) f0 = true) ->
    sstatus s = ST_MAX_ITERS -> b2_iters st <= d ->
    ((exists s00, r2_exit R s00 (b2_a st) = None) \/ r2_exit_break R = false) ->
    let r := b2_body orc R st s d in
    ginv2 f0 (fst r) /\
    (snd r = false -> goon2 (fst r) /\ b2_exit (fst r) = b2_exit st /\ calls (b2_c st) + 1 <= calls (b2_c (fst r))) /\
    (snd r = true -> post2 x0 (fst r) /\ b2_exit (fst r) <> BX_FUEL).
  Proof.
    intros [Hfc Hgc Hne Hit Hbd Hrf Hrg Hh Hj Hb] Hlt Hs Hbs Hst Hd Hx. unfold b2_body.
    pose proof (HP s (b2_a st) (b2_c st) Hne Hj) as HPp. cbv zeta in HPp.
    pose proof (p_run_adv ev (r2_pass R s (b2_a st)) (b2_c st)) as Hadv.
    fold ev. destruct (p_run ev (r2_pass R s (b2_a st)) (b2_c st)) as [out c'] eqn:EP. simpl in HPp, Hadv.
    destruct HPp as (Hcost & Hprog & HJ' & Hcand). destruct Hadv as (A1 & A2 & A3).
    pose proof (apply_cand_inv f0 s c' (po_cand out) (c_ne c') (hon_mono _ _ _ A1 Hs) Hcand Hbs) as AC. cbv zeta in AC.
    set (s1 := apply_cand s c' (po_cand out)) in *. destruct AC as (C1 & C2 & C3).
    set (ok := po_ok out s1). set (conv := po_conv out s1).
    pose proof (done_fields s1 (c_fc c') (c_gc c') ok conv) as DF. cbv zeta in DF.
    destruct DF as (D1 & D2 & D3 & D4 & D5 & D6 & D7).
    pose proof (done_step_spec s1 (c_fc c') (c_gc c') ok conv) as DS.
    destruct (done_step s1 (c_fc c') (c_gc c') ok conv) as [s2 stop] eqn:DE. simpl in *.
    unfold calls in *.
    split; [|split].
    - constructor; simpl; unfold calls in *; try lia; auto.
      + destruct C2 as (k & K & E1 & E2). exists k. rewrite D3, D4, D5. auto.
      + rewrite D4. exact C3.
    - intros SF. subst stop.
      destruct (conv || negb (ok && valid s1)) eqn:DD; [inversion DS|].
      inversion DS; subst s2. simpl.
      apply orb_false_iff in DD. destruct DD as (Dc & Dn). apply negb_false_iff in Dn. apply andb_true_iff in Dn.
      destruct Dn as (Ok & Vs). split; [|split; [reflexivity|]].
      + split; simpl; [rewrite C1; exact Hst|intros _; exact Vs].
      + pose proof (Hprog s1 Ok). lia.
    - intros SF. subst stop. split; [|simpl; discriminate]. right. left. simpl.
      destruct (conv || negb (ok && valid s1)) eqn:DD; [|inversion DS].
      inversion DS; subst s2. simpl. split; [reflexivity|]. split; [lia|]. split.
      + exists s, (b2_c st), s1. rewrite EP. simpl. repeat split; reflexivity.
      + split; [exact Hx|]. split; [exact DD|]. unfold status_of2. simpl. reflexivity.
  Qed.

  Lemma b2_iter_inv f0 x0 st :
    ginv2 f0 st -> goon2 st -> calls (b2_c st) < c2_maxev cfg ->
    let r := b2_iter orc R st in
    ginv2 f0 (fst r) /\
    (snd r = false -> goon2 (fst r) /\ b2_exit (fst r) = b2_exit st /\ calls (b2_c st) + 1 <= calls (b2_c (fst r))) /\
    (snd r = true -> post2 x0 (fst r) /\ b2_exit (fst r) <> BX_FUEL).
  Proof.
    intros I (Gs & Gv) Hlt. unfold b2_iter.
    destruct (r2_exit R (b2_s st) (b2_a st)) as [[ok0 cv0]|] eqn:E.
    - pose proof (done_fields (b2_s st) (c_fc (b2_c st)) (c_gc (b2_c st)) ok0 cv0) as DF. cbv zeta in DF.
      destruct DF as (D1 & D2 & D3 & D4 & D5 & D6 & D7).
      pose proof (done_step_spec (b2_s st) (c_fc (b2_c st)) (c_gc (b2_c st)) ok0 cv0) as DS.
      destruct (done_step (b2_s st) (c_fc (b2_c st)) (c_gc (b2_c st)) ok0 cv0) as [s' stop] eqn:DE. simpl in *.
      destruct (r2_exit_break R || stop) eqn:BS.
      + (* the loop is left through the early test *)
        simpl. destruct I as [Hfc Hgc Hne Hit Hbd Hrf Hrg Hh Hj Hb]. split; [|split; [discriminate|]].
        * constructor; simpl; try lia; auto.
          -- destruct Hh as (k & K & E1 & E2). exists k. rewrite D3, D4, D5. auto.
          -- rewrite D4. exact Hb.
        * intros _. split; [|simpl; discriminate]. right. right. left. simpl. split; [reflexivity|]. split; [lia|]. split.
          -- exists (b2_s st). split; [exact E|]. unfold samept. rewrite D3, D4, D5, D6, D7. auto.
          -- unfold status_of2. simpl. rewrite D7.
             destruct (cv0 || negb (ok0 && valid (b2_s st))); inversion DS; subst; simpl; [reflexivity|exact Gs].
      + (* done() returned false and the pass goes on *)
        pose proof BS as BS0. apply orb_false_iff in BS. destruct BS as (_ & SF). subst stop.
        destruct (cv0 || negb (ok0 && valid (b2_s st))) eqn:DD; [inversion DS|]. inversion DS; subst s'.
        destruct I as [Hfc Hgc Hne Hit Hbd Hrf Hrg Hh Hj Hb].
        apply orb_false_iff in BS0. destruct BS0 as (BK & _).
        apply b2_body_inv; try assumption; simpl; try lia; [constructor; assumption|right; exact BK].
    - destruct I as [Hfc Hgc Hne Hit Hbd Hrf Hrg Hh Hj Hb].
      apply b2_body_inv; try assumption; try lia; [constructor; assumption|left; exists (b2_s st); exact E].
  Qed.

  Lemma b2_set_exit_inv f0 st e : ginv2 f0 st -> ginv2 f0 (b2_set_exit st e).
  Proof. intros [H1 H2 H3 H4 H5 H6 H7 H8 H9 H10]. constructor; simpl; auto. Qed.

  Lemma b2_loop_inv f0 x0 : forall fuel st,
    ginv2 f0 st -> goon2 st ->
    ginv2 f0 (b2_loop orc R cfg fuel st) /\ post2 x0 (b2_loop orc R cfg fuel st) /\
    (Z.max 0 (c2_maxev cfg - calls (b2_c st)) < Z.of_nat fuel -> b2_exit (b2_loop orc R cfg fuel st) <> BX_FUEL).
  Proof.
    induction fuel as [|k IH]; intros st I G.
    - simpl. split; [apply b2_set_exit_inv; exact I|]. split.
      + left. simpl. split; [left; reflexivity|]. split; [exact G|discriminate].
      + intros H. simpl in H. lia.
    - simpl. rewrite HL. fold (calls (b2_c st)). destruct (calls (b2_c st) <? c2_maxev cfg) eqn:C.
      + apply Z.ltb_lt in C. destruct (b2_iter_inv f0 x0 st I G C) as (I' & GO & ST).
        destruct (b2_iter orc R st) as [st' stop] eqn:EI. simpl in *. destruct stop.
        * split; [exact I'|]. split; [apply ST; reflexivity|]. intros _. apply ST. reflexivity.
        * destruct (GO eq_refl) as (G' & EX & CT). destruct (IH st' I' G') as (A1 & B1 & D1).
          split; [exact A1|]. split; [exact B1|]. intros H. apply D1. lia.
      + apply Z.ltb_ge in C. split; [apply b2_set_exit_inv; exact I|]. split.
        * left. simpl. split; [right; reflexivity|]. split; [exact G|]. intros _. exact C.
        * simpl. discriminate.
  Qed.

  Lemma b2_state0_eq x0 :
    b2_state0 orc x0 = mkS x0 (fst (ev 0 x0)) (snd (ev 0 x0)) true ST_MAX_ITERS 1 1 [].
  Proof.
    unfold b2_state0. fold ev. destruct (ev 0 x0) as [f g]. unfold eval_counters. rewrite k_fn_fcalls, k_fn_gcalls. reflexivity.
  Qed.

  Lemma b2_init_inv x0 :
    ginv2 (fst (ev 0 x0)) (b2_init orc R x0) /\ goon2 (b2_init orc R x0) /\ calls (b2_c (b2_init orc R x0)) = 2.
  Proof.
    unfold b2_init. rewrite b2_state0_eq. simpl. split; [|split; [split; simpl; [reflexivity|lia]|reflexivity]].
    constructor; simpl; unfold calls; simpl; try lia.
    - exists 0. split; [lia|]. auto.
    - rewrite <- b2_state0_eq. apply HJ0.
    - intros F. split; [exact F|apply fin_leb_refl; exact F].
  Qed.

  Lemma b2_run_inv fuel x0 :
    let r := b2_run orc R cfg fuel x0 in
    ginv2 (fst (ev 0 x0)) r /\ post2 x0 r /\ (Z.max 0 (c2_maxev cfg - 2) < Z.of_nat fuel -> b2_exit r <> BX_FUEL).
  Proof.
    unfold b2_run. destruct (b2_init_inv x0) as (I & G & N).
    destruct (r2_pre R (b2_s (b2_init orc R x0))) eqn:P.
    - split; [apply b2_set_exit_inv; exact I|]. split.
      + right. right. right. split; [reflexivity|]. split; [reflexivity|]. split; [reflexivity|]. split; [reflexivity|].
        split; [exact P|exact (proj1 G)].
      + simpl. discriminate.
    - destruct (b2_loop_inv _ x0 fuel _ I G) as (A1 & B1 & C1). split; [exact A1|]. split; [exact B1|].
      rewrite N in C1. exact C1.
  Qed.

  (* ---- the theorems of part 2 ---- *)
  Theorem generic2_budget fuel x0 :
    let r := b2_run orc R cfg fuel x0 in
    (Z.max 0 (c2_maxev cfg - 2) < Z.of_nat fuel -> b2_exit r <> BX_FUEL) /\
    c_fc (b2_c r) = c_ne (b2_c r) /\ 0 <= c_gc (b2_c r) <= c_ne (b2_c r) /\ 1 <= c_ne (b2_c r) /\
    0 <= b2_iters r <= b2_dones r /\
    calls (b2_c r) <= Z.max 2 (c2_maxev cfg - 1 + B) /\
    sfcalls (b2_s r) <= c_fc (b2_c r) /\ sgcalls (b2_s r) <= c_gc (b2_c r).
  Proof.
    intros r. destruct (b2_run_inv fuel x0) as ([H1 H2 H3 H4 H5 H6 H7 H8 H9 H10] & _ & F). fold r in H1, H2, H3, H4, H5, H6, H7, F.
    repeat split; try lia; auto.
  Qed.

  Theorem generic2_honest fuel x0 : let r := b2_run orc R cfg fuel x0 in hon (c_ne (b2_c r)) (b2_s r).
  Proof. intros r. destruct (b2_run_inv fuel x0) as (I & _). exact (g2_h _ _ I). Qed.

  Theorem generic2_aux fuel x0 : let r := b2_run orc R cfg fuel x0 in J (c_ne (b2_c r)) (b2_a r).
  Proof. intros r. destruct (b2_run_inv fuel x0) as (I & _). exact (g2_j _ _ I). Qed.

  Theorem generic2_best fuel x0 :
    let r := b2_run orc R cfg fuel x0 in
    ffin (fst (ev 0 x0)) = true -> ffin (sfx (b2_s r)) = true /\ PrimFloat.leb (sfx (b2_s r)) (fst (ev 0 x0)) = true.
  Proof. intros r. destruct (b2_run_inv fuel x0) as (I & _). exact (g2_best _ _ I). Qed.

  Theorem generic2_post fuel x0 : post2 x0 (b2_run orc R cfg fuel x0).
  Proof. destruct (b2_run_inv fuel x0) as (_ & P & _). exact P. Qed.

  Theorem generic2_status fuel x0 :
    let r := b2_run orc R cfg fuel x0 in
    let s := b2_s r in
    status_ok (sstatus s) /\
    (sstatus s = ST_CONVERGED ->
       valid s = true /\ b2_ok r = true /\ b2_conv r = true /\ (b2_exit r = BX_DONE \/ b2_exit r = BX_ZERO)) /\
    (sstatus s = ST_FAILED ->
       1 <= b2_dones r /\ (b2_exit r = BX_DONE \/ b2_exit r = BX_ZERO) /\ (b2_ok r = false \/ valid s = false)) /\
    (sstatus s = ST_MAX_ITERS ->
       (b2_exit r = BX_BUDGET /\ c2_maxev cfg <= calls (b2_c r) \/ b2_exit r = BX_FUEL \/ b2_exit r = BX_PRE \/
        b2_exit r = BX_ZERO /\ b2_conv r = false /\ b2_ok r = true) /\
       (1 <= b2_dones r -> valid s = true)) /\
    (sstatus s <> ST_FAILED -> 1 <= b2_dones r -> valid s = true).
  Proof.
    intros r s. subst s. pose proof (generic2_post fuel x0) as P. fold r in P. unfold post2, status_of2 in P.
    pose proof (generic2_budget fuel x0) as Bd. cbv zeta in Bd. fold r in Bd. destruct Bd as (_ & _ & _ & _ & It & _).
    unfold status_ok, ST_MAX_ITERS, ST_CONVERGED, ST_FAILED in *.
    destruct P as [(EX & (Gs & Gv) & MB)|[(EX & I1 & _ & _ & DD & ST)|[(EX & Dd & _ & ST)|(EX & D0 & _ & _ & _ & ST)]]].
    - rewrite Gs. split; [left; reflexivity|]. split; [intros H; vm_compute in H; discriminate H|].
      split; [intros H; vm_compute in H; discriminate H|]. split.
      + intros _. split; [destruct EX as [EX|EX]; [right; left; exact EX|left; split; [exact EX|exact (MB EX)]]|exact Gv].
      + intros _. exact Gv.
    - rewrite ST. destruct (b2_conv r) eqn:C, (b2_ok r) eqn:O, (valid (b2_s r)) eqn:V; simpl in *;
        repeat split; auto; try discriminate; try lia; try (intros; discriminate); try (intros H; exfalso; apply H; reflexivity).
    - rewrite ST. destruct (b2_conv r) eqn:C, (b2_ok r) eqn:O, (valid (b2_s r)) eqn:V; simpl in *;
        repeat split; auto 6; try discriminate; try lia; try (intros; discriminate); try (intros H; exfalso; apply H; reflexivity).
    - rewrite ST. split; [left; reflexivity|]. split; [intros H; vm_compute in H; discriminate H|].
      split; [intros H; vm_compute in H; discriminate H|]. split; [intros _; split; [auto|intros; lia]|intros; lia].
  Qed.

  Lemma b2_fuel_enough : Z.max 0 (c2_maxev cfg - 2) < Z.of_nat (b2_fuel cfg).
  Proof. unfold b2_fuel. rewrite Nat2Z.inj_succ. destruct (Z_le_gt_dec 0 (c2_maxev cfg)) as [H|H].
    - rewrite Z2Nat.id by exact H. lia.
    - destruct (c2_maxev cfg); simpl; lia. Qed.
End Generic2.

(* ------------------------------------------------------------------------------------------------------------- *)
(* Part 3: the seven bodies                                                                                      *)
(* ------------------------------------------------------------------------------------------------------------- *)
(* what part 2 asks of a rule: budget test as loop condition; every pass costs at most B, makes at least one evaluation when its
   iter_ok can be true, hands only evaluated points to update_if_better, and keeps the invariant J of the auxiliaries *)
Definition rule_ok {A : Type} (orc : b2oracles) (R : rule2 A) (B : Z) (three : bool) (J : Z -> A -> Prop) : Prop :=
  (forall fc gc m, r2_loop R fc gc m = (fc + gc <? m)) /\
  (forall x0, J 1 (r2_init R (b2_state0 orc x0))) /\
  (forall s a c, 1 <= c_ne c -> J (c_ne c) a ->
     let oc := p_run (o2_eval orc) (r2_pass R s a) c in
     calls (snd oc) <= calls c + B /\
     (forall s1, po_ok (fst oc) s1 = true -> c_ne c < c_ne (snd oc)) /\
     J (c_ne (snd oc)) (po_aux (fst oc)) /\ cand_ok orc three (c_ne (snd oc)) (po_cand (fst oc))).

Lemma seen3_here orc n x : 0 <= n -> forall m, n < m ->
  seen3 orc m x (fst (o2_eval orc n x)) (snd (o2_eval orc n x)).
Proof. intros H m L. exists n. split; [lia|apply surjective_pairing]. Qed.
Lemma seen3_mono orc n m x f g : n <= m -> seen3 orc n x f g -> seen3 orc m x f g.
Proof. intros L (k & K & E). exists k. split; [lia|exact E]. Qed.
Lemma seen2_here orc n x : 0 <= n -> forall m, n < m -> seen2 orc m x (fst (o2_eval orc n x)).
Proof. intros H m L. exists n. split; [lia|reflexivity]. Qed.
Lemma seen2_mono orc n m x f : n <= m -> seen2 orc n x f -> seen2 orc m x f.
Proof. intros L (k & K & E). exists k. split; [lia|exact E]. Qed.

(* ---- ellipsoid ---- *)
Lemma ell_ok orc cfg : rule_ok orc (ell_rule orc cfg) 2 true (fun _ _ => True).
Proof.
  split; [reflexivity|]. split; [auto|]. intros s a c Hne _. unfold ell_rule. simpl r2_pass. unfold ell_pass.
  destruct (if src_ell_1d (c2_n cfg) then ell1_step a else _) as [x' H'].
  rewrite p_run_eval. simpl. unfold calls. simpl. split; [lia|]. split; [intros; lia|]. split; [exact I|].
  apply seen3_here; lia.
Qed.

(* the flags of a pass of the ellipsoid method do not depend on the best state: iter_ok = isfinite(value at the new centre),
   converged = sqrt(gHg) < epsilon with the gHg of the centre the pass started from *)
Lemma ell_flags orc cfg s a c :
  let out := fst (p_run (o2_eval orc) (ell_pass orc cfg s a) c) in
  (forall s1, po_conv out s1 = PrimFloat.ltb (PrimFloat.sqrt (ell_gHg orc cfg a)) (c2_eps cfg)) /\
  (forall s1, po_ok out s1 = ffin (e_f (po_aux out))) /\
  e_k (po_aux out) = e_k a + 1.
Proof.
  unfold ell_pass. destruct (if src_ell_1d (c2_n cfg) then ell1_step a else _) as [x' H'].
  rewrite p_run_eval. simpl. repeat split; reflexivity.
Qed.

(* ---- osga ---- *)
Lemma osga_ok orc cfg x0 :
  rule_ok orc (osga_rule orc cfg x0) 3 false (fun ne a => seen2 orc ne (os_xb a) (os_fb a)).
Proof.
  split; [reflexivity|]. split.
  - intros y0. rewrite b2_state0_eq. simpl. apply seen2_here; lia.
  - intros s a c Hne HJ. unfold osga_rule. simpl r2_pass. unfold os_pass.
    rewrite p_run_eval. rewrite p_run_eval. simpl. unfold calls. simpl. split; [lia|]. split; [intros; lia|].
    set (x := os_point (os_alpha a) (os_xb a) (os_u a)).
    set (f := fst (o2_eval orc (c_ne c) x)).
    unfold src_osga_pick1, src_osga_pick2.
    assert (H1 : seen2 orc (c_ne c + 1 + 1)
                   (if (if PrimFloat.ltb f (os_fb a) then 1 else 0) =? 1 then x else os_xb a)
                   (if (if PrimFloat.ltb f (os_fb a) then 1 else 0) =? 1 then f else os_fb a)).
    { destruct (PrimFloat.ltb f (os_fb a)); simpl.
      - apply seen2_here; lia.
      - apply seen2_mono with (n := c_ne c); [lia|exact HJ]. }
    match goal with |- context [PrimFloat.ltb ?u ?v] =>
      match u with fst (o2_eval orc (c_ne c + 1) _) => destruct (PrimFloat.ltb u v) eqn:L2 end end; simpl.
    + split; [apply seen2_here; lia|]. split; [reflexivity|apply seen2_here; lia].
    + split; [exact H1|]. split; [reflexivity|exact H1].
Qed.

Lemma osga_flags orc cfg x0 s a c :
  let out := fst (p_run (o2_eval orc) (os_pass orc cfg x0 s a) c) in
  exists eta_hat,
  (forall s1, po_ok out s1 = valid s1) /\
  (forall s1, po_conv out s1 = PrimFloat.ltb eta_hat (c2_eps cfg) || PrimFloat.ltb (value_test s1 (c2_patience cfg)) (c2_eps cfg)).
Proof. unfold os_pass. rewrite p_run_eval. rewrite p_run_eval. simpl. eexists. split; intros; reflexivity. Qed.

(* ---- the guard of the division by sqrt(gHg) in the ellipsoid update (Flocq) ---- *)
Section Guard.
Local Open Scope R_scope.

Lemma FR_eps : FR f_eps = bpow radix2 (-52).
Proof. unfold FR, f_eps. vm_compute Prim2B. unfold B2R, F2R. simpl Fnum. simpl Fexp. 
  change (bpow radix2 (-104)) with (bpow radix2 (-52 + -52)). rewrite bpow_plus.
  replace (IZR (Z.pos 4503599627370496)) with (bpow radix2 52) by (simpl; lra).
  rewrite <- Rmult_assoc. rewrite <- bpow_plus. simpl (52 + -52)%Z. simpl (bpow radix2 0). lra. Qed.

Lemma guard_sqrt_pos g :
  PrimFloat.is_finite g = true -> PrimFloat.ltb g f_eps = false ->
  PrimFloat.ltb PrimFloat.zero g = true /\ PrimFloat.is_finite (PrimFloat.sqrt g) = true /\
  PrimFloat.ltb PrimFloat.zero (PrimFloat.sqrt g) = true.
Proof.
  intros Fg NL.
  assert (F0 : PrimFloat.is_finite PrimFloat.zero = true) by reflexivity.
  assert (Fe : PrimFloat.is_finite f_eps = true) by reflexivity.
  assert (GE : bpow radix2 (-52) <= FR g).
  { rewrite <- FR_eps. destruct (Rle_or_lt (FR f_eps) (FR g)) as [H|H]; [exact H|].
    apply (fin_ltb _ _ Fg Fe) in H. rewrite H in NL. discriminate. }
  assert (P52 : 0 < bpow radix2 (-52)) by apply bpow_gt_0.
  assert (Z0 : FR PrimFloat.zero = 0) by (unfold FR; vm_compute Prim2B; reflexivity).
  split; [apply (fin_ltb _ _ F0 Fg); rewrite Z0; lra|].
  pose proof Fg as Fg'. rewrite is_finite_equiv in Fg'.
  destruct (Bsqrt_correct prec emax Hprec Hmax mode_NE (Prim2B g)) as (H1 & H2 & _).
  assert (Fs : PrimFloat.is_finite (PrimFloat.sqrt g) = true).
  { rewrite is_finite_equiv, sqrt_equiv, H2. unfold FR in GE.
    destruct (Prim2B g) as [s|s| |s m e Hb]; try discriminate; try reflexivity.
    destruct s; [|reflexivity]. exfalso. simpl in GE.
    assert (F2R (Float radix2 (Zneg m) e) < 0) by (apply F2R_lt_0; simpl; lia). lra. }
  split; [exact Fs|]. apply (fin_ltb _ _ F0 Fs). rewrite Z0. unfold FR. rewrite sqrt_equiv, H1.
  apply Rlt_le_trans with (bpow radix2 (-26)); [apply bpow_gt_0|].
  apply round_ge_generic; [apply FLT_exp_valid; reflexivity|apply valid_rnd_N|apply generic_format_bpow; vm_compute; discriminate|].
  fold (FR g). apply Rsqr_incr_0_var; [|apply sqrt_pos]. unfold Rsqr. rewrite sqrt_sqrt by lra.
  rewrite <- bpow_plus. exact GE.
Qed.
End Guard.

(* ---- universal: pgm, dgm, fgm ---- *)
Local Arguments Z.mul : simpl never.
Local Arguments Z.add : simpl never.
(* the invariant of the inner backtracking loops: k iterations so far, each costing at most [per] (fcalls + gcalls) and at least
   one evaluation; an accepted step (iter_ok) was evaluated in this pass: [cand] reads it from the loop state *)
Definition uinv (orc : b2oracles) (cap per : Z) (c0 : ctr) (cand : uin -> bpoint * PrimFloat.float * bpoint) (i : uin) (c : ctr) : Prop :=
  0 <= ui_k i <= Z.max 0 cap /\ calls c <= calls c0 + per * ui_k i /\ c_ne c0 + ui_k i <= c_ne c /\
  (ui_ok i = true -> 1 <= ui_k i /\ seen3 orc (c_ne c) (fst (fst (cand i))) (snd (fst (cand i))) (snd (cand i))).

Lemma inner_lt k cap ok fin : (k <? cap) && negb ok && fin = true -> k < cap.
Proof. intros H. apply andb_true_iff in H. destruct H as (H & _). apply andb_true_iff in H. destruct H as (H & _). apply Z.ltb_lt. exact H. Qed.

Lemma pgm_body_inv orc cfg a c0 i c :
  0 <= c_ne c0 -> src_pgm_inner (ui_k i) (pgm_cap cfg) (ui_ok i) (ffin (ui_f1 i)) = true ->
  uinv orc (pgm_cap cfg) 2 c0 (fun i => (ui_x1 i, ui_f1 i, ui_g1 i)) i c ->
  uinv orc (pgm_cap cfg) 2 c0 (fun i => (ui_x1 i, ui_f1 i, ui_g1 i))
       (fst (p_run (o2_eval orc) (pgm_body orc cfg a i) c)) (snd (p_run (o2_eval orc) (pgm_body orc cfg a i) c)).
Proof.
  intros H0 C (K & Cs & Ne & _). apply inner_lt in C. unfold pgm_body. rewrite p_run_eval. simpl. unfold uinv, calls in *. simpl.
  split; [lia|]. split; [lia|]. split; [lia|]. intros _. split; [lia|]. apply seen3_here; lia.
Qed.

Lemma pgm_ok orc cfg x0 : rule_ok orc (pgm_rule orc cfg x0) (2 * Z.max 0 (pgm_cap cfg)) true (fun _ _ => True).
Proof.
  split; [reflexivity|]. split; [auto|]. intros s a c Hne _. unfold pgm_rule. simpl r2_pass. unfold pgm_pass.
  rewrite p_run_bind.
  pose proof (cap_loop_inv (o2_eval orc) (uinv orc (pgm_cap cfg) 2 c (fun i => (ui_x1 i, ui_f1 i, ui_g1 i)))
                (fun i => src_pgm_inner (ui_k i) (pgm_cap cfg) (ui_ok i) (ffin (ui_f1 i))) (pgm_body orc cfg a)
                (fun i c1 C => pgm_body_inv orc cfg a c i c1 ltac:(lia) C)
                (Z.to_nat (pgm_cap cfg)) (mkUI 0 (u_L a) false [] [] (u_f1 a) [] [] f_zero f_zero) c) as L.
  match type of L with ?P -> _ => assert (P0 : P) by (unfold uinv, calls; simpl; repeat split; try lia; discriminate) end.
  specialize (L P0). clear P0.
  destruct (p_run (o2_eval orc) (cap_loop _ _ _ _) c) as [i c1]. simpl in L. destruct L as (K & Cs & Ne & Ok).
  cbv beta. cbn [fst snd]. destruct (ui_ok i) eqn:O; simpl; unfold calls in *; simpl.
  - destruct (Ok eq_refl) as (K1 & S3). split; [nia|]. split; [intros; lia|]. split; [exact I|exact S3].
  - split; [nia|]. split; [intros s1 F; discriminate F|]. split; exact I.
Qed.

Lemma dgm_body_inv orc cfg a c0 i c :
  0 <= c_ne c0 -> src_dgm_inner (ui_k i) (dgm_cap cfg) (ui_ok i) (ffin (ui_f1 i)) = true ->
  uinv orc (dgm_cap cfg) 3 c0 (fun i => (ui_x1 i, ui_f1 i, ui_g1 i)) i c ->
  uinv orc (dgm_cap cfg) 3 c0 (fun i => (ui_x1 i, ui_f1 i, ui_g1 i))
       (fst (p_run (o2_eval orc) (dgm_body orc cfg a i) c)) (snd (p_run (o2_eval orc) (dgm_body orc cfg a i) c)).
Proof.
  intros H0 C (K & Cs & Ne & _). apply inner_lt in C. unfold dgm_body. rewrite p_run_eval.
  destruct (ffin (fst (o2_eval orc (c_ne c) _))) eqn:F.
  - rewrite p_run_eval. simpl. unfold uinv, calls in *. simpl.
    split; [lia|]. split; [lia|]. split; [lia|]. intros _. split; [lia|]. apply seen3_here; lia.
  - simpl. unfold uinv, calls in *. simpl. split; [lia|]. split; [lia|]. split; [lia|]. intros D. discriminate D.
Qed.

Lemma dgm_ok orc cfg x0 : rule_ok orc (dgm_rule orc cfg x0) (3 * Z.max 0 (dgm_cap cfg)) true (fun _ _ => True).
Proof.
  split; [reflexivity|]. split; [auto|]. intros s a c Hne _. unfold dgm_rule. simpl r2_pass. unfold dgm_pass.
  rewrite p_run_bind.
  pose proof (cap_loop_inv (o2_eval orc) (uinv orc (dgm_cap cfg) 3 c (fun i => (ui_x1 i, ui_f1 i, ui_g1 i)))
                (fun i => src_dgm_inner (ui_k i) (dgm_cap cfg) (ui_ok i) (ffin (ui_f1 i))) (dgm_body orc cfg a)
                (fun i c1 C => dgm_body_inv orc cfg a c i c1 ltac:(lia) C)
                (Z.to_nat (dgm_cap cfg)) (mkUI 0 (u_L a) false [] [] (u_f1 a) [] [] f_zero f_zero) c) as L.
  match type of L with ?P -> _ => assert (P0 : P) by (unfold uinv, calls; simpl; repeat split; try lia; discriminate) end.
  specialize (L P0). clear P0.
  destruct (p_run (o2_eval orc) (cap_loop _ _ _ _) c) as [i c1]. simpl in L. destruct L as (K & Cs & Ne & Ok).
  cbv beta. cbn [fst snd]. destruct (ui_ok i) eqn:O; simpl; unfold calls in *; simpl.
  - destruct (Ok eq_refl) as (K1 & S3). split; [nia|]. split; [intros; lia|]. split; [exact I|exact S3].
  - split; [nia|]. split; [intros s1 F; discriminate F|]. split; exact I.
Qed.

Lemma fgm_body_inv orc cfg a c0 i c :
  0 <= c_ne c0 -> src_fgm_inner (ui_k i) (fgm_cap cfg) (ui_ok i) (ffin (ui_f1 i) && ffin (ui_f2 i)) = true ->
  uinv orc (fgm_cap cfg) 4 c0 (fun i => (ui_x2 i, ui_f2 i, ui_g2 i)) i c ->
  uinv orc (fgm_cap cfg) 4 c0 (fun i => (ui_x2 i, ui_f2 i, ui_g2 i))
       (fst (p_run (o2_eval orc) (fgm_body orc cfg a i) c)) (snd (p_run (o2_eval orc) (fgm_body orc cfg a i) c)).
Proof.
  intros H0 C (K & Cs & Ne & _). apply inner_lt in C. unfold fgm_body. rewrite p_run_eval. rewrite p_run_eval.
  simpl. unfold uinv, calls in *. simpl.
  split; [lia|]. split; [lia|]. split; [lia|]. intros _. split; [lia|]. apply seen3_here; lia.
Qed.

Lemma fgm_ok orc cfg x0 : rule_ok orc (fgm_rule orc cfg x0) (4 * Z.max 0 (fgm_cap cfg)) true (fun _ _ => True).
Proof.
  split; [reflexivity|]. split; [auto|]. intros s a c Hne _. unfold fgm_rule. simpl r2_pass. unfold fgm_pass.
  rewrite p_run_bind.
  pose proof (cap_loop_inv (o2_eval orc) (uinv orc (fgm_cap cfg) 4 c (fun i => (ui_x2 i, ui_f2 i, ui_g2 i)))
                (fun i => src_fgm_inner (ui_k i) (fgm_cap cfg) (ui_ok i) (ffin (ui_f1 i) && ffin (ui_f2 i))) (fgm_body orc cfg a)
                (fun i c1 C => fgm_body_inv orc cfg a c i c1 ltac:(lia) C)
                (Z.to_nat (fgm_cap cfg)) (mkUI 0 (u_L a) false [] [] (u_f1 a) [] [] (u_f2 a) f_zero) c) as L.
  match type of L with ?P -> _ => assert (P0 : P) by (unfold uinv, calls; simpl; repeat split; try lia; discriminate) end.
  specialize (L P0). clear P0.
  destruct (p_run (o2_eval orc) (cap_loop _ _ _ _) c) as [i c1]. simpl in L. destruct L as (K & Cs & Ne & Ok).
  cbv beta. cbn [fst snd]. destruct (ui_ok i) eqn:O; simpl; unfold calls in *; simpl.
  - destruct (Ok eq_refl) as (K1 & S3). split; [nia|]. split; [intros; lia|]. split; [exact I|exact S3].
  - split; [nia|]. split; [intros s1 F; discriminate F|]. split; exact I.
Qed.

(* ---- asga2, asga4 ---- *)
Definition ginv_in (orc : b2oracles) (cap : Z) (c0 : ctr) (i : gin) (c : ctr) : Prop :=
  0 <= gi_p i <= Z.max 0 cap /\ calls c = calls c0 + 4 * gi_p i /\ c_ne c = c_ne c0 + 2 * gi_p i /\
  (gi_ok i = true -> 1 <= gi_p i) /\
  (1 <= gi_p i -> seen3 orc (c_ne c) (gi_x1 i) (gi_f1 i) (gi_g1 i)).

Lemma inner2_lt p cap ok : (p <? cap) && negb ok = true -> p < cap.
Proof. intros H. apply andb_true_iff in H. destruct H as (H & _). apply Z.ltb_lt. exact H. Qed.

Lemma asga2_body_inv orc cfg x0 a c0 i c :
  0 <= c_ne c0 -> src_asga2_inner (gi_p i) (asga2_cap cfg) (gi_ok i) = true ->
  ginv_in orc (asga2_cap cfg) c0 i c ->
  ginv_in orc (asga2_cap cfg) c0 (fst (p_run (o2_eval orc) (asga2_body orc cfg x0 a i) c))
          (snd (p_run (o2_eval orc) (asga2_body orc cfg x0 a i) c)).
Proof.
  intros H0 C (K & Cs & Ne & _). apply inner2_lt in C. unfold asga2_body. rewrite p_run_eval. rewrite p_run_eval.
  simpl. unfold ginv_in, calls in *. simpl.
  split; [lia|]. split; [lia|]. split; [lia|]. split; [intros; lia|]. intros _. apply seen3_here; lia.
Qed.

Lemma asga4_body_inv orc cfg a c0 i c :
  0 <= c_ne c0 -> src_asga4_inner (gi_p i) (asga4_cap cfg) (gi_ok i) = true ->
  ginv_in orc (asga4_cap cfg) c0 i c ->
  ginv_in orc (asga4_cap cfg) c0 (fst (p_run (o2_eval orc) (asga4_body orc cfg a i) c))
          (snd (p_run (o2_eval orc) (asga4_body orc cfg a i) c)).
Proof.
  intros H0 C (K & Cs & Ne & _). apply inner2_lt in C. unfold asga4_body. rewrite p_run_eval. rewrite p_run_eval.
  simpl. unfold ginv_in, calls in *. simpl.
  split; [lia|]. split; [lia|]. split; [lia|]. split; [intros; lia|]. intros _. apply seen3_here; lia.
Qed.

(* the inner loop of asga runs at least once when its cap is at least 1 (the registered domain is [10, 1000]) *)
Lemma asga_ran (cap : Z) (cond : gin -> bool) i0 i :
  1 <= cap -> gi_p i0 = 0 -> gi_ok i0 = false ->
  (forall j, cond j = (gi_p j <? cap) && negb (gi_ok j)) ->
  (cond i = false \/ gi_p i = gi_p i0 + Z.of_nat (Z.to_nat cap)) -> (gi_ok i = true -> 1 <= gi_p i) -> 1 <= gi_p i.
Proof.
  intros Hc P0 O0 HC [E|E] Hok.
  - rewrite HC in E. apply andb_false_iff in E. destruct E as [E|E].
    + apply Z.ltb_ge in E. lia.
    + apply negb_false_iff in E. auto.
  - rewrite Z2Nat.id in E by lia. lia.
Qed.

Lemma asga2_ok orc cfg x0 : 1 <= asga2_cap cfg ->
  rule_ok orc (asga2_rule orc cfg x0) (4 * Z.max 0 (asga2_cap cfg)) true (fun _ _ => True).
Proof.
  intros Hcap. split; [reflexivity|]. split; [auto|]. intros s a c Hne _. unfold asga2_rule. simpl r2_pass. unfold asga2_pass.
  rewrite p_run_bind.
  pose proof (cap_loop_inv (o2_eval orc) (ginv_in orc (asga2_cap cfg) c)
                (fun i => src_asga2_inner (gi_p i) (asga2_cap cfg) (gi_ok i)) (asga2_body orc cfg x0 a)
                (fun i c1 C => asga2_body_inv orc cfg x0 a c i c1 ltac:(lia) C)
                (Z.to_nat (asga2_cap cfg)) (gin0 cfg a) c) as L.
  match type of L with ?P -> _ => assert (P0 : P) by (unfold ginv_in, calls, gin0; simpl; repeat split; try lia; try discriminate) end.
  specialize (L P0). clear P0.
  pose proof (cap_loop_exit (o2_eval orc) gi_p (fun i => src_asga2_inner (gi_p i) (asga2_cap cfg) (gi_ok i)) (asga2_body orc cfg x0 a)) as X.
  match type of X with ?P -> _ => assert (P0 : P) by (intros j cj _; unfold asga2_body; rewrite !p_run_eval; reflexivity) end.
  specialize (X P0 (Z.to_nat (asga2_cap cfg)) (gin0 cfg a) c). clear P0. cbv zeta in X.
  destruct (p_run (o2_eval orc) (cap_loop _ _ _ _) c) as [i c1]. cbn [fst snd] in *. destruct L as (K & Cs & Ne & Ok & S3).
  assert (P1 : 1 <= gi_p i) by (apply (asga_ran (asga2_cap cfg) _ (gin0 cfg a) i Hcap eq_refl eq_refl (fun j => eq_refl) X Ok)).
  simpl. unfold calls in *. simpl. split; [nia|]. split; [intros; lia|]. split; [exact I|exact (S3 P1)].
Qed.

Lemma asga4_ok orc cfg x0 : 1 <= asga4_cap cfg ->
  rule_ok orc (asga4_rule orc cfg x0) (4 * Z.max 0 (asga4_cap cfg)) true (fun _ _ => True).
Proof.
  intros Hcap. split; [reflexivity|]. split; [auto|]. intros s a c Hne _. unfold asga4_rule. simpl r2_pass. unfold asga4_pass.
  rewrite p_run_bind.
  pose proof (cap_loop_inv (o2_eval orc) (ginv_in orc (asga4_cap cfg) c)
                (fun i => src_asga4_inner (gi_p i) (asga4_cap cfg) (gi_ok i)) (asga4_body orc cfg a)
                (fun i c1 C => asga4_body_inv orc cfg a c i c1 ltac:(lia) C)
                (Z.to_nat (asga4_cap cfg)) (gin0 cfg a) c) as L.
  match type of L with ?P -> _ => assert (P0 : P) by (unfold ginv_in, calls, gin0; simpl; repeat split; try lia; try discriminate) end.
  specialize (L P0). clear P0.
  pose proof (cap_loop_exit (o2_eval orc) gi_p (fun i => src_asga4_inner (gi_p i) (asga4_cap cfg) (gi_ok i)) (asga4_body orc cfg a)) as X.
  match type of X with ?P -> _ => assert (P0 : P) by (intros j cj _; unfold asga4_body; rewrite !p_run_eval; reflexivity) end.
  specialize (X P0 (Z.to_nat (asga4_cap cfg)) (gin0 cfg a) c). clear P0. cbv zeta in X.
  destruct (p_run (o2_eval orc) (cap_loop _ _ _ _) c) as [i c1]. cbn [fst snd] in *. destruct L as (K & Cs & Ne & Ok & S3).
  assert (P1 : 1 <= gi_p i) by (apply (asga_ran (asga4_cap cfg) _ (gin0 cfg a) i Hcap eq_refl eq_refl (fun j => eq_refl) X Ok)).
  simpl. unfold calls in *. simpl. split; [nia|]. split; [intros; lia|]. split; [exact I|exact (S3 P1)].
Qed.

(* ---- which integer parameter caps the inner loop (translated from the source; seeded change C02/3 read another one) ---- *)
Lemma caps_are_lsearch_max_iters cfg :
  pgm_cap cfg = c2_lsmax cfg /\ dgm_cap cfg = c2_lsmax cfg /\ fgm_cap cfg = c2_lsmax cfg /\
  asga2_cap cfg = c2_lsmax cfg /\ asga4_cap cfg = c2_lsmax cfg.
Proof. repeat split; reflexivity. Qed.

Lemma pass_bound_lsmax b cfg :
  pass_bound b cfg = match b with
                     | B2Ell => 2 | B2Osga => 3
                     | B2Pgm => 2 * Z.max 0 (c2_lsmax cfg) | B2Dgm => 3 * Z.max 0 (c2_lsmax cfg)
                     | _ => 4 * Z.max 0 (c2_lsmax cfg)
                     end.
Proof. destruct b; reflexivity. Qed.

(* every body is an instance of part 2, with its proved per-pass bound *)
Lemma body2_elim b orc cfg fuel x0 (Q : bres -> Prop) :
  (b = B2Asga2 \/ b = B2Asga4 -> 1 <= c2_lsmax cfg) ->
  (forall A (R : rule2 A) three J, rule_ok orc R (pass_bound b cfg) three J -> (b <> B2Osga -> three = true) ->
     Q (res_of (b2_run orc R cfg fuel x0))) ->
  Q (body2_run b orc cfg fuel x0).
Proof.
  intros Hc H. destruct b; simpl.
  - apply (H _ _ true _ (ell_ok orc cfg)). reflexivity.
  - apply (H _ _ false _ (osga_ok orc cfg x0)). intros N. exfalso. apply N. reflexivity.
  - apply (H _ _ true _ (pgm_ok orc cfg x0)). reflexivity.
  - apply (H _ _ true _ (dgm_ok orc cfg x0)). reflexivity.
  - apply (H _ _ true _ (fgm_ok orc cfg x0)). reflexivity.
  - apply (H _ _ true _ (asga2_ok orc cfg x0 (Hc (or_introl eq_refl)))). reflexivity.
  - apply (H _ _ true _ (asga4_ok orc cfg x0 (Hc (or_intror eq_refl)))). reflexivity.
Qed.

Definition asga_cap_ok (b : body2) (cfg : b2conf) : Prop := b = B2Asga2 \/ b = B2Asga4 -> 1 <= c2_lsmax cfg.

Theorem bodies2_budget b orc cfg fuel x0 : asga_cap_ok b cfg ->
  let r := body2_run b orc cfg fuel x0 in
  (Z.max 0 (c2_maxev cfg - 2) < Z.of_nat fuel -> rs_exit r <> BX_FUEL) /\
  c_fc (rs_c r) = c_ne (rs_c r) /\ 0 <= c_gc (rs_c r) <= c_ne (rs_c r) /\ 1 <= c_ne (rs_c r) /\
  0 <= rs_iters r <= rs_dones r /\
  calls (rs_c r) <= Z.max 2 (c2_maxev cfg - 1 + pass_bound b cfg) /\
  sfcalls (rs_s r) <= c_fc (rs_c r) /\ sgcalls (rs_s r) <= c_gc (rs_c r).
Proof.
  intros Hc. apply body2_elim; [exact Hc|]. intros A R three J (HL & HJ0 & HP) _.
  exact (generic2_budget A orc R cfg _ three J HL HJ0 HP fuel x0).
Qed.

Theorem bodies2_honest b orc cfg fuel x0 : asga_cap_ok b cfg ->
  let r := body2_run b orc cfg fuel x0 in
  exists k, 0 <= k < c_ne (rs_c r) /\ fst (o2_eval orc k (sx (rs_s r))) = sfx (rs_s r) /\
            (b <> B2Osga -> snd (o2_eval orc k (sx (rs_s r))) = sgx (rs_s r)).
Proof.
  intros Hc. apply body2_elim; [exact Hc|]. intros A R three J (HL & HJ0 & HP) T.
  destruct (generic2_honest A orc R cfg _ three J HL HJ0 HP fuel x0) as (k & K & E1 & E2).
  exists k. simpl. split; [exact K|]. split; [exact E1|]. intros N. apply E2. apply T. exact N.
Qed.

Theorem bodies2_best b orc cfg fuel x0 : asga_cap_ok b cfg ->
  let r := body2_run b orc cfg fuel x0 in
  ffin (fst (o2_eval orc 0 x0)) = true ->
  ffin (sfx (rs_s r)) = true /\ PrimFloat.leb (sfx (rs_s r)) (fst (o2_eval orc 0 x0)) = true.
Proof.
  intros Hc. apply body2_elim; [exact Hc|]. intros A R three J (HL & HJ0 & HP) _.
  exact (generic2_best A orc R cfg _ three J HL HJ0 HP fuel x0).
Qed.

Theorem bodies2_status b orc cfg fuel x0 : asga_cap_ok b cfg ->
  let r := body2_run b orc cfg fuel x0 in
  let s := rs_s r in
  status_ok (sstatus s) /\
  (sstatus s = ST_CONVERGED ->
     valid s = true /\ rs_ok r = true /\ rs_conv r = true /\ (rs_exit r = BX_DONE \/ rs_exit r = BX_ZERO)) /\
  (sstatus s = ST_FAILED ->
     1 <= rs_dones r /\ (rs_exit r = BX_DONE \/ rs_exit r = BX_ZERO) /\ (rs_ok r = false \/ valid s = false)) /\
  (sstatus s = ST_MAX_ITERS ->
     (rs_exit r = BX_BUDGET /\ c2_maxev cfg <= calls (rs_c r) \/ rs_exit r = BX_FUEL \/ rs_exit r = BX_PRE \/
      rs_exit r = BX_ZERO /\ rs_conv r = false /\ rs_ok r = true) /\
     (1 <= rs_dones r -> valid s = true)) /\
  (sstatus s <> ST_FAILED -> 1 <= rs_dones r -> valid s = true).
Proof.
  intros Hc. apply body2_elim; [exact Hc|]. intros A R three J (HL & HJ0 & HP) _.
  exact (generic2_status A orc R cfg _ three J HL HJ0 HP fuel x0).
Qed.

(* ---- what `converged` means, body by body ---- *)
(* ellipsoid: sqrt(gHg) < epsilon with the gHg of the centre the last pass started from, after an evaluation with a finite value
   at the new centre -- or the early exit gHg < DBL_EPSILON at the current centre *)
Theorem ellipsoid_converged orc cfg fuel x0 :
  let r := ell_run orc cfg fuel x0 in
  sstatus (b2_s r) = ST_CONVERGED ->
  valid (b2_s r) = true /\
  ((b2_exit r = BX_DONE /\ PrimFloat.ltb (PrimFloat.sqrt (ell_gHg orc cfg (b2_prev r))) (c2_eps cfg) = true /\
    PrimFloat.ltb (ell_gHg orc cfg (b2_prev r)) f_eps = false) \/
   (b2_exit r = BX_ZERO /\ PrimFloat.ltb (ell_gHg orc cfg (b2_prev r)) f_eps = true)).
Proof.
  intros r H. unfold ell_run in r. destruct (ell_ok orc cfg) as (HL & HJ0 & HP).
  pose proof (generic2_status _ orc _ cfg 2 true (fun _ _ => True) HL HJ0 HP fuel x0) as S. cbv zeta in S. fold r in S.
  destruct S as (_ & SC & _). destruct (SC H) as (V & O & C & _). split; [exact V|].
  pose proof (generic2_post _ orc _ cfg 2 true (fun _ _ => True) HL HJ0 HP fuel x0) as P. fold r in P. unfold post2 in P.
  destruct P as [(_ & (Gs & _) & _)|[(EX & _ & (s0 & c0 & s1 & Ok & Cv & _) & Hx & _)|[(EX & _ & (s0 & E0 & _) & _)|(_ & _ & _ & _ & _ & ST)]]].
  - rewrite Gs in H. discriminate.
  - left. split; [exact EX|]. simpl r2_pass in Ok, Cv.
    destruct (ell_flags orc cfg s0 (b2_prev r) c0) as (FC & _). rewrite FC in Cv. rewrite <- Cv. split; [exact C|].
    destruct Hx as [(s00 & E0)|Bk]; [|discriminate Bk]. simpl in E0. unfold src_ell_zero_exit in E0.
    destruct (PrimFloat.ltb (ell_gHg orc cfg (b2_prev r)) f_eps); [discriminate|reflexivity].
  - right. split; [exact EX|]. simpl in E0. unfold src_ell_zero_exit in E0.
    destruct (PrimFloat.ltb (ell_gHg orc cfg (b2_prev r)) f_eps); [reflexivity|discriminate].
  - rewrite ST in H. discriminate.
Qed.


(* universal / asga: `converged` = the inner search accepted a step AND value_test(patience) < epsilon *)
Lemma vt_converged {A} orc (R : rule2 A) cfg B three J fuel x0 :
  rule_ok orc R B three J ->
  (forall s a, r2_exit R s a = None) ->
  (forall s a c s1, po_conv (fst (p_run (o2_eval orc) (r2_pass R s a) c)) s1 = true ->
                    PrimFloat.ltb (value_test s1 (c2_patience cfg)) (c2_eps cfg) = true) ->
  let r := b2_run orc R cfg fuel x0 in
  sstatus (b2_s r) = ST_CONVERGED ->
  valid (b2_s r) = true /\ b2_exit r = BX_DONE /\ b2_ok r = true /\
  PrimFloat.ltb (value_test (b2_s r) (c2_patience cfg)) (c2_eps cfg) = true.
Proof.
  intros (HL & HJ0 & HP) HE HF r H.
  pose proof (generic2_status _ orc _ cfg B three J HL HJ0 HP fuel x0) as S. cbv zeta in S. fold r in S.
  destruct S as (_ & SC & _). destruct (SC H) as (V & O & C & _). split; [exact V|].
  pose proof (generic2_post _ orc _ cfg B three J HL HJ0 HP fuel x0) as P. fold r in P. unfold post2 in P.
  destruct P as [(_ & (Gs & _) & _)|[(EX & _ & (s0 & c0 & s1 & Ok & Cv & (_ & _ & _ & SH & _)) & _)|[(_ & _ & (s0 & E0 & _) & _)|(_ & _ & _ & _ & _ & ST)]]].
  - rewrite Gs in H. discriminate.
  - split; [exact EX|]. split; [exact O|]. rewrite C in Cv. symmetry in Cv. apply HF in Cv.
    rewrite (value_test_hist _ _ _ SH) in Cv. exact Cv.
  - rewrite HE in E0. discriminate.
  - rewrite ST in H. discriminate.
Qed.

Lemma pgm_flags orc cfg s a c s1 :
  po_conv (fst (p_run (o2_eval orc) (pgm_pass orc cfg s a) c)) s1 = true ->
  PrimFloat.ltb (value_test s1 (c2_patience cfg)) (c2_eps cfg) = true.
Proof. unfold pgm_pass. rewrite p_run_bind. cbv beta. destruct (ui_ok _); simpl; [auto|discriminate]. Qed.
Lemma dgm_flags orc cfg s a c s1 :
  po_conv (fst (p_run (o2_eval orc) (dgm_pass orc cfg s a) c)) s1 = true ->
  PrimFloat.ltb (value_test s1 (c2_patience cfg)) (c2_eps cfg) = true.
Proof. unfold dgm_pass. rewrite p_run_bind. cbv beta. destruct (ui_ok _); simpl; [auto|discriminate]. Qed.
Lemma fgm_flags orc cfg s a c s1 :
  po_conv (fst (p_run (o2_eval orc) (fgm_pass orc cfg s a) c)) s1 = true ->
  PrimFloat.ltb (value_test s1 (c2_patience cfg)) (c2_eps cfg) = true.
Proof. unfold fgm_pass. rewrite p_run_bind. cbv beta. destruct (ui_ok _); simpl; [auto|discriminate]. Qed.
Lemma asga2_flags orc cfg x0 s a c s1 :
  po_conv (fst (p_run (o2_eval orc) (asga2_pass orc cfg x0 s a) c)) s1 = true ->
  PrimFloat.ltb (value_test s1 (c2_patience cfg)) (c2_eps cfg) = true.
Proof. unfold asga2_pass. rewrite p_run_bind. simpl. auto. Qed.
Lemma asga4_flags orc cfg x0 s a c s1 :
  po_conv (fst (p_run (o2_eval orc) (asga4_pass orc cfg x0 s a) c)) s1 = true ->
  PrimFloat.ltb (value_test s1 (c2_patience cfg)) (c2_eps cfg) = true.
Proof. unfold asga4_pass. rewrite p_run_bind. simpl. auto. Qed.

Definition vt_conv_statement {A} (cfg : b2conf) (r : brun2 A) : Prop :=
  sstatus (b2_s r) = ST_CONVERGED ->
  valid (b2_s r) = true /\ b2_exit r = BX_DONE /\ b2_ok r = true /\
  PrimFloat.ltb (value_test (b2_s r) (c2_patience cfg)) (c2_eps cfg) = true.

Theorem universal_asga_converged orc cfg fuel x0 :
  vt_conv_statement cfg (pgm_run orc cfg fuel x0) /\ vt_conv_statement cfg (dgm_run orc cfg fuel x0) /\
  vt_conv_statement cfg (fgm_run orc cfg fuel x0) /\
  (1 <= c2_lsmax cfg -> vt_conv_statement cfg (asga2_run orc cfg fuel x0) /\ vt_conv_statement cfg (asga4_run orc cfg fuel x0)).
Proof.
  split; [|split; [|split]].
  - exact (vt_converged orc _ cfg _ _ _ fuel x0 (pgm_ok orc cfg x0) (fun _ _ => eq_refl) (pgm_flags orc cfg)).
  - exact (vt_converged orc _ cfg _ _ _ fuel x0 (dgm_ok orc cfg x0) (fun _ _ => eq_refl) (dgm_flags orc cfg)).
  - exact (vt_converged orc _ cfg _ _ _ fuel x0 (fgm_ok orc cfg x0) (fun _ _ => eq_refl) (fgm_flags orc cfg)).
  - intros Hc. split.
    + exact (vt_converged orc _ cfg _ _ _ fuel x0 (asga2_ok orc cfg x0 Hc) (fun _ _ => eq_refl) (asga2_flags orc cfg x0)).
    + exact (vt_converged orc _ cfg _ _ _ fuel x0 (asga4_ok orc cfg x0 Hc) (fun _ _ => eq_refl) (asga4_flags orc cfg x0)).
Qed.

(* osga: `converged` = (eta_hat < epsilon or value_test(patience) < epsilon) on a valid best state -- or the early test
   |state.gx()|_inf < epsilon0 on a valid state; state.gx() is the sub-gradient at x0 for the whole run (the 2-argument
   update_if_better keeps it) *)
Theorem osga_converged orc cfg fuel x0 :
  let r := osga_run orc cfg fuel x0 in
  sstatus (b2_s r) = ST_CONVERGED ->
  valid (b2_s r) = true /\
  ((b2_exit r = BX_DONE /\ exists eta_hat,
      PrimFloat.ltb eta_hat (c2_eps cfg) || PrimFloat.ltb (value_test (b2_s r) (c2_patience cfg)) (c2_eps cfg) = true) \/
   (b2_exit r = BX_ZERO /\ PrimFloat.ltb (maxabs (sgx (b2_s r))) (c2_eps0 cfg) = true)).
Proof.
  intros r H. unfold osga_run in r. destruct (osga_ok orc cfg x0) as (HL & HJ0 & HP).
  pose proof (generic2_status _ orc _ cfg 3 false (fun ne a => seen2 orc ne (os_xb a) (os_fb a)) HL HJ0 HP fuel x0) as S. cbv zeta in S. fold r in S.
  destruct S as (_ & SC & _). destruct (SC H) as (V & O & C & _). split; [exact V|].
  pose proof (generic2_post _ orc _ cfg 3 false (fun ne a => seen2 orc ne (os_xb a) (os_fb a)) HL HJ0 HP fuel x0) as P. fold r in P. unfold post2 in P.
  destruct P as [(_ & (Gs & _) & _)|[(EX & _ & (s0 & c0 & s1 & Ok & Cv & (_ & _ & _ & SH & _)) & _)|[(EX & _ & (s0 & E0 & (_ & _ & SG & _)) & _)|(_ & _ & _ & _ & _ & ST)]]].
  - rewrite Gs in H. discriminate.
  - left. split; [exact EX|]. simpl r2_pass in Cv. destruct (osga_flags orc cfg x0 s0 (b2_prev r) c0) as (eh & _ & FC).
    exists eh. rewrite FC in Cv. rewrite (value_test_hist _ _ _ SH) in Cv. rewrite <- Cv. exact C.
  - right. split; [exact EX|]. simpl in E0. unfold src_osga_zero_exit in E0. rewrite SG in E0.
    destruct (PrimFloat.ltb (maxabs (sgx (b2_s r))) (c2_eps0 cfg)); [reflexivity|discriminate].
  - rewrite ST in H. discriminate.
Qed.

(* how the inner backtracking loops end: by the descent test (iter_ok), by a non-finite value (universal), or by the cap *)
Theorem inner_loops_exit orc cfg :
  (forall a i0 c, ui_k i0 = 0 ->
     let i := fst (p_run (o2_eval orc) (cap_loop (Z.to_nat (pgm_cap cfg)) (fun i => src_pgm_inner (ui_k i) (pgm_cap cfg) (ui_ok i) (ffin (ui_f1 i))) (pgm_body orc cfg a) i0) c) in
     ui_ok i = true \/ ffin (ui_f1 i) = false \/ pgm_cap cfg <= ui_k i) /\
  (forall a i0 c, ui_k i0 = 0 ->
     let i := fst (p_run (o2_eval orc) (cap_loop (Z.to_nat (dgm_cap cfg)) (fun i => src_dgm_inner (ui_k i) (dgm_cap cfg) (ui_ok i) (ffin (ui_f1 i))) (dgm_body orc cfg a) i0) c) in
     ui_ok i = true \/ ffin (ui_f1 i) = false \/ dgm_cap cfg <= ui_k i) /\
  (forall a i0 c, ui_k i0 = 0 ->
     let i := fst (p_run (o2_eval orc) (cap_loop (Z.to_nat (fgm_cap cfg)) (fun i => src_fgm_inner (ui_k i) (fgm_cap cfg) (ui_ok i) (ffin (ui_f1 i) && ffin (ui_f2 i))) (fgm_body orc cfg a) i0) c) in
     ui_ok i = true \/ (ffin (ui_f1 i) && ffin (ui_f2 i)) = false \/ fgm_cap cfg <= ui_k i) /\
  (forall x0 a i0 c, gi_p i0 = 0 ->
     let i := fst (p_run (o2_eval orc) (cap_loop (Z.to_nat (asga2_cap cfg)) (fun i => src_asga2_inner (gi_p i) (asga2_cap cfg) (gi_ok i)) (asga2_body orc cfg x0 a) i0) c) in
     gi_ok i = true \/ asga2_cap cfg <= gi_p i) /\
  (forall a i0 c, gi_p i0 = 0 ->
     let i := fst (p_run (o2_eval orc) (cap_loop (Z.to_nat (asga4_cap cfg)) (fun i => src_asga4_inner (gi_p i) (asga4_cap cfg) (gi_ok i)) (asga4_body orc cfg a) i0) c) in
     gi_ok i = true \/ asga4_cap cfg <= gi_p i).
Proof.
  assert (U : forall k cap ok fin, (k <? cap) && negb ok && fin = false -> ok = true \/ fin = false \/ cap <= k).
  { intros k cap ok fin H. destruct ok; [auto|]. destruct fin; [|auto]. right. right.
    rewrite !andb_true_r in H. apply Z.ltb_ge in H. exact H. }
  assert (G : forall k cap ok, (k <? cap) && negb ok = false -> ok = true \/ cap <= k).
  { intros k cap ok H. destruct ok; [auto|]. right. rewrite andb_true_r in H. apply Z.ltb_ge in H. exact H. }
  split; [|split; [|split; [|split]]].
  - intros a i0 c K0 i. subst i.
    destruct (cap_loop_exit (o2_eval orc) ui_k (fun i => src_pgm_inner (ui_k i) (pgm_cap cfg) (ui_ok i) (ffin (ui_f1 i))) (pgm_body orc cfg a)
                (fun j cj _ => ltac:(unfold pgm_body; rewrite p_run_eval; reflexivity)) (Z.to_nat (pgm_cap cfg)) i0 c) as [E|E].
    + apply U. exact E.
    + right. right. rewrite E, K0. lia.
  - intros a i0 c K0 i. subst i.
    destruct (cap_loop_exit (o2_eval orc) ui_k (fun i => src_dgm_inner (ui_k i) (dgm_cap cfg) (ui_ok i) (ffin (ui_f1 i))) (dgm_body orc cfg a)
                (fun j cj _ => ltac:(unfold dgm_body; rewrite p_run_eval; destruct (ffin _); [rewrite p_run_eval|]; reflexivity)) (Z.to_nat (dgm_cap cfg)) i0 c) as [E|E].
    + apply U. exact E.
    + right. right. rewrite E, K0. lia.
  - intros a i0 c K0 i. subst i.
    destruct (cap_loop_exit (o2_eval orc) ui_k (fun i => src_fgm_inner (ui_k i) (fgm_cap cfg) (ui_ok i) (ffin (ui_f1 i) && ffin (ui_f2 i))) (fgm_body orc cfg a)
                (fun j cj _ => ltac:(unfold fgm_body; rewrite !p_run_eval; reflexivity)) (Z.to_nat (fgm_cap cfg)) i0 c) as [E|E].
    + apply U. exact E.
    + right. right. rewrite E, K0. lia.
  - intros x0 a i0 c K0 i. subst i.
    destruct (cap_loop_exit (o2_eval orc) gi_p (fun i => src_asga2_inner (gi_p i) (asga2_cap cfg) (gi_ok i)) (asga2_body orc cfg x0 a)
                (fun j cj _ => ltac:(unfold asga2_body; rewrite !p_run_eval; reflexivity)) (Z.to_nat (asga2_cap cfg)) i0 c) as [E|E].
    + apply G. exact E.
    + right. rewrite E, K0. lia.
  - intros a i0 c K0 i. subst i.
    destruct (cap_loop_exit (o2_eval orc) gi_p (fun i => src_asga4_inner (gi_p i) (asga4_cap cfg) (gi_ok i)) (asga4_body orc cfg a)
                (fun j cj _ => ltac:(unfold asga4_body; rewrite !p_run_eval; reflexivity)) (Z.to_nat (asga4_cap cfg)) i0 c) as [E|E].
    + apply G. exact E.
    + right. rewrite E, K0. lia.
Qed.

(* the ellipsoid update is executed only when the early test is false: the division by sqrt(gHg) is guarded *)
Theorem ellipsoid_guard orc cfg st :
  PrimFloat.ltb (ell_gHg orc cfg (b2_a st)) f_eps = true ->
  let r := b2_iter orc (ell_rule orc cfg) st in
  snd r = true /\ b2_exit (fst r) = BX_ZERO /\ b2_iters (fst r) = b2_iters st /\ b2_c (fst r) = b2_c st /\ b2_a (fst r) = b2_a st.
Proof.
  intros H. unfold b2_iter. simpl r2_exit. rewrite H. unfold src_ell_zero_exit.
  destruct (done_step _ _ _ _ _) as [s' stop]. simpl. repeat split; reflexivity.
Qed.

(* the translated decisions of the four source files are what the proofs assume *)
Lemma bodies2_kernels :
  (forall fc gc m, src_loop_ellipsoid fc gc m = (fc + gc <? m)) /\ (forall fc gc m, src_loop_osga fc gc m = (fc + gc <? m)) /\
  (forall fc gc m, src_loop_pgm fc gc m = (fc + gc <? m)) /\ (forall fc gc m, src_loop_dgm fc gc m = (fc + gc <? m)) /\
  (forall fc gc m, src_loop_fgm fc gc m = (fc + gc <? m)) /\ (forall fc gc m, src_loop_asga2 fc gc m = (fc + gc <? m)) /\
  (forall fc gc m, src_loop_asga4 fc gc m = (fc + gc <? m)) /\
  (forall v, src_ell_zero_exit v = v) /\ src_ell_zero_ok = true /\ src_ell_zero_conv = true /\
  (forall n, src_ell_1d n = (n =? 1)) /\ (forall n, src_ell_H0_choice n = if n =? 1 then 1 else 2) /\
  (forall v, src_ell_iter_ok v = v) /\ (forall v, src_ell_conv v = v) /\
  (forall v, src_osga_zero_exit v = v) /\ src_osga_zero_conv = true /\ (forall v, src_osga_zero_ok v = v) /\
  (forall v, src_osga_pick1 v = if v then 1 else 0) /\ (forall v, src_osga_pick2 v = if v then 1 else 0) /\
  (forall v, src_osga_iter_ok v = v) /\ (forall a b, src_osga_conv a b = a || b) /\
  (forall l p m, src_pgm_cap l p m = l) /\ (forall l p m, src_dgm_cap l p m = l) /\ (forall l p m, src_fgm_cap l p m = l) /\
  (forall l p m, src_asga2_cap l p m = l) /\ (forall l p m, src_asga4_cap l p m = l) /\
  (forall k cap ok fin, src_pgm_inner k cap ok fin = (k <? cap) && negb ok && fin) /\
  (forall k cap ok fin, src_dgm_inner k cap ok fin = (k <? cap) && negb ok && fin) /\
  (forall k cap ok fin, src_fgm_inner k cap ok fin = (k <? cap) && negb ok && fin) /\
  (forall k cap ok, src_asga2_inner k cap ok = (k <? cap) && negb ok) /\
  (forall k cap ok, src_asga4_inner k cap ok = (k <? cap) && negb ok) /\
  (forall v, src_pgm_conv v = v) /\ (forall v, src_dgm_conv v = v) /\ (forall v, src_fgm_conv v = v) /\
  (forall v, src_asga2_conv v = v) /\ (forall v, src_asga4_conv v = v).
Proof. repeat split; reflexivity. Qed.

(* the proved per-pass bound against the property's constant 1100 + 8 dim *)
Lemma pass_bound_property_constant b cfg :
  c2_lsmax cfg <= 100 -> 0 <= c2_n cfg -> pass_bound b cfg <= 400 /\ pass_bound b cfg <= 1100 + 8 * c2_n cfg.
Proof. intros L N. rewrite pass_bound_lsmax. destruct b; lia. Qed.

Lemma pass_bound_asga_domain_refuted :
  exists b cfg, c2_lsmax cfg = 1000 /\ c2_n cfg = 16 /\ 1100 + 8 * c2_n cfg < pass_bound b cfg.
Proof.
  exists B2Asga2, (mkB2C PrimFloat.zero 100 10 1000 16 PrimFloat.zero PrimFloat.zero PrimFloat.zero PrimFloat.zero PrimFloat.zero PrimFloat.zero).
  vm_compute. repeat split; reflexivity.
Qed.
