(* C03 -- the n-D deep-cut update of the ellipsoid method (src/solver/ellipsoid.cpp, model en_* of C03_Defs.v) keeps the
   lower level set -- hence the minimiser -- inside the ellipsoid.  Over ANY ordered field (field_theory + positive cone,
   as in C01Q_Proofs) with the square root s = sqrt(g'Hg) given as a witness (s*s = g'Hg, 0 < s).

   Method: the inverse P of the shape matrix H is carried explicitly (H P = P H = I as maps on vectors of length n); the
   Sherman-Morrison inverse P+ of the updated matrix H+ is given in closed form (en_P) and every statement is reduced by
   bilinearity (lemmas mv_* / dot_* of C01Q_Proofs) to identities between the scalars  q = w'Pw,  g'w,  s,  alpha,  n
   (closed by [field]) plus sign arguments on products of non-negative factors:
       1 - (y - x+)' P+ (y - x+)  =  ( (1 - q) + k (a + 1) (-(a + alpha)) ) / delta,     a = g'(y - x) / s,
   with k >= 0, delta > 0, a + 1 >= 0 by the Cauchy-Schwarz inequality a^2 <= q <= 1 and a + alpha <= 0 by the
   sub-gradient inequality on the level set. *)
From Coq Require Import List ZArith Bool Lia Field Ring Arith.
From LN Require Import C03_Defs.
From LN Require Import C01Q_Defs C01Q_Proofs.
Import ListNotations.

Section EllN.
  Variable F : Type.
  Variable FO : fops F.
  Local Notation "0" := (f0 FO).
  Local Notation "1" := (f1 FO).
  Local Infix "+" := (fadd FO).
  Local Infix "*" := (fmul FO).
  Local Infix "-" := (fsub FO).
  Local Infix "/" := (fdiv FO).
  Local Notation "- x" := (fopp FO x).
  Local Notation "/ x" := (finv FO x).
  Hypothesis Fth : field_theory 0 1 (fadd FO) (fmul FO) (fsub FO) (fopp FO) (fdiv FO) (finv FO) (@eq F).
  Add Field Ffield_elln : Fth.
  Variable pos : F -> Prop.
  Hypothesis pos_add : forall a b, pos a -> pos b -> pos (a + b).
  Hypothesis pos_mul : forall a b, pos a -> pos b -> pos (a * b).
  Hypothesis pos_cases : forall a, a = 0 \/ pos a \/ pos (- a).
  Hypothesis pos_0 : ~ pos 0.

  Local Notation dot := (dot FO).
  Local Notation vadd := (vadd FO).
  Local Notation vsub := (vsub FO).
  Local Notation vscale := (vscale FO).
  Local Notation vdivs := (vdivs FO).
  Local Notation mv := (mv FO).
  Local Notation mscale := (mscale FO).
  Local Notation identity := (identity FO).
  Local Notation zeros := (zeros FO).
  Local Notation nonneg := (nonneg FO pos).
  Local Notation msym := (msym FO).
  Local Notation pd := (pd FO pos).
  Local Notation two := (en_two F FO).

  (* the lemmas of C01Q_Proofs at this field *)
  Local Notation div_def := (div_def F FO Fth).
  Local Notation dot_comm := (dot_comm F FO Fth).
  Local Notation dot_vadd_l := (dot_vadd_l F FO Fth).
  Local Notation dot_vsub_l := (dot_vsub_l F FO Fth).
  Local Notation dot_vscale_l := (dot_vscale_l F FO Fth).
  Local Notation dot_vdivs_l := (dot_vdivs_l F FO Fth).
  Local Notation dot_vadd_r := (dot_vadd_r F FO Fth).
  Local Notation dot_vsub_r := (dot_vsub_r F FO Fth).
  Local Notation dot_vscale_r := (dot_vscale_r F FO Fth).
  Local Notation dot_vdivs_r := (dot_vdivs_r F FO Fth).
  Local Notation dot_zeros_l := (dot_zeros_l F FO Fth).
  Local Notation dot_zeros_r := (dot_zeros_r F FO Fth).
  Local Notation mv_vadd := (mv_vadd F FO Fth).
  Local Notation mv_vsub := (mv_vsub F FO Fth).
  Local Notation mv_vscale := (mv_vscale F FO Fth).
  Local Notation mv_vdivs := (mv_vdivs F FO Fth).
  Local Notation mv_madd := (mv_madd F FO Fth).
  Local Notation mv_msub := (mv_msub F FO Fth).
  Local Notation mv_mscale := (mv_mscale F FO Fth).
  Local Notation mv_mdivs := (mv_mdivs F FO Fth).
  Local Notation mv_outer := (mv_outer F FO Fth).
  Local Notation mv_mmul := (mv_mmul F FO Fth).
  Local Notation mv_identity := (mv_identity F FO Fth).
  Local Notation vec_ext := (vec_ext F FO Fth).
  Local Notation pos_nz := (pos_nz F FO pos pos_0).
  Local Notation pos_asym := (pos_asym F FO Fth pos pos_add pos_0).
  Local Notation eq0_dec := (eq0_dec F FO Fth pos pos_cases pos_0).
  Local Notation pos_sq := (pos_sq F FO Fth pos pos_mul pos_cases).
  Local Notation pos_1 := (pos_1 F FO Fth pos pos_mul pos_cases).
  Local Notation pos_inv := (pos_inv F FO Fth pos pos_add pos_mul pos_cases pos_0).
  Local Notation nonneg_sq := (nonneg_sq F FO Fth pos pos_mul pos_cases pos_0).
  Local Notation nonneg_add := (nonneg_add F FO Fth pos pos_add).
  Local Notation pos_add_nonneg := (pos_add_nonneg F FO Fth pos pos_add).
  Local Notation nonneg_add_pos := (nonneg_add_pos F FO Fth pos pos_add).
  Local Notation nonneg_mul_pos := (nonneg_mul_pos F FO Fth pos pos_mul).
  Local Notation vec_zero_dec := (vec_zero_dec F FO Fth pos pos_cases pos_0).
  Local Notation dot_self_pos := (dot_self_pos F FO Fth pos pos_add pos_mul pos_cases pos_0).
  Local Notation dot_self_nonneg := (dot_self_nonneg F FO Fth pos pos_add pos_mul pos_cases pos_0).
  Local Notation pd_nonneg := (pd_nonneg F FO Fth pos pos_cases pos_0).
  Local Notation pd_identity := (pd_identity F FO Fth pos pos_add pos_mul pos_cases pos_0).
  Local Notation msym_identity := (msym_identity F FO Fth).

  Ltac expand :=
    cbv zeta;
    repeat (rewrite ?mv_vadd, ?mv_vsub, ?mv_vscale, ?mv_vdivs, ?dot_vadd_r, ?dot_vsub_r, ?dot_vscale_r, ?dot_vdivs_r,
            ?dot_vadd_l, ?dot_vsub_l, ?dot_vscale_l, ?dot_vdivs_l).

  (* ---- order: a <= b is nonneg (b - a), a < b is pos (b - a) ------------------------------------------------------- *)
  Definition fle (a b : F) : Prop := nonneg (b - a).
  Definition flt (a b : F) : Prop := pos (b - a).

  Lemma nonneg_0 : nonneg 0.
  Proof. left. reflexivity. Qed.
  Lemma pos_nonneg a : pos a -> nonneg a.
  Proof. intros P. right. exact P. Qed.
  Lemma nonneg_mul a b : nonneg a -> nonneg b -> nonneg (a * b).
  Proof.
    intros [A|A] [B|B]; subst; try (left; ring). right. apply pos_mul; assumption.
  Qed.
  Lemma nonneg_eq a b : a = b -> nonneg a -> nonneg b.
  Proof. intros E N. rewrite <- E. exact N. Qed.
  Lemma pos_eq a b : a = b -> pos a -> pos b.
  Proof. intros E N. rewrite <- E. exact N. Qed.
  Lemma pos_not_nonneg_opp a : pos a -> nonneg (- a) -> False.
  Proof.
    intros P [E|N]; [|exact (pos_asym a P N)].
    apply pos_0. replace 0 with a; [exact P|]. replace a with (- - a) by ring. rewrite E. ring.
  Qed.
  Lemma nonneg_cases a : nonneg a \/ pos (- a).
  Proof. destruct (pos_cases a) as [E|[P|N]]; [left; left; exact E|left; right; exact P|right; exact N]. Qed.
  Lemma nonneg_antisym a : nonneg a -> nonneg (- a) -> a = 0.
  Proof. intros [E|P] N; [exact E|]. exfalso. exact (pos_not_nonneg_opp a P N). Qed.
  Lemma pos_two : pos two.
  Proof. unfold en_two. apply pos_add; apply pos_1. Qed.
  Lemma nonneg_div a b : nonneg a -> pos b -> nonneg (a * / b).
  Proof. intros A B. apply nonneg_mul_pos; [exact A|apply pos_inv; exact B]. Qed.

  (* 1 - a^2 >= 0  ==>  a + 1 >= 0 *)
  Lemma sq_le1_lower a : nonneg (1 - a * a) -> nonneg (a + 1).
  Proof.
    intros N. destruct (nonneg_cases (a + 1)) as [G|L]; [exact G|]. exfalso.
    set (t := - (a + 1)) in *.
    apply (pos_not_nonneg_opp (two * t + t * t)).
    - apply pos_add; [apply pos_mul; [apply pos_two|exact L]|apply pos_mul; exact L].
    - apply (nonneg_eq (1 - a * a)); [unfold t, en_two; ring|exact N].
  Qed.

  (* ---- the numbers of one step -------------------------------------------------------------------------------------- *)
  Section Step.
    Variable n : nat.
    Variable nf : F.
    Hypothesis Hnf : pos (nf - 1).
    Variables H P : mat F.
    Variables x g : vec F.
    Variables s alpha : F.
    Hypothesis LH : length H = n.
    Hypothesis LP : length P = n.
    Hypothesis Lx : length x = n.
    Hypothesis Lg : length g = n.
    Hypothesis SH : msym n H.
    Hypothesis SP : msym n P.
    Hypothesis HPI : forall v, length v = n -> mv H (mv P v) = v.
    Hypothesis PHI : forall v, length v = n -> mv P (mv H v) = v.
    Hypothesis Hs : s * s = dot g (mv H g).
    Hypothesis Ps : pos s.
    Hypothesis A0 : nonneg (1 + nf * alpha).       (* -1/n <= alpha; the code has 0 <= alpha *)
    Hypothesis A1 : pos (1 - alpha).               (* alpha < 1 *)
    Hypothesis A2 : pos (1 + alpha).

    Let xp := en_x F FO nf s alpha x H g.
    Let Hp := en_H F FO nf alpha H g.
    Let Pp := en_P F FO nf s alpha P g.
    Let delta := en_delta F FO nf alpha.
    Let kk := en_k F FO nf alpha.

    Lemma nf_pos : pos nf.
    Proof. apply (pos_eq ((nf - 1) + 1)); [ring|]. apply pos_add; [exact Hnf|apply pos_1]. Qed.
    Lemma nf1_pos : pos (nf + 1).
    Proof. apply pos_add; [apply nf_pos|apply pos_1]. Qed.
    Lemma nn1_pos : pos (nf * nf - 1).
    Proof. apply (pos_eq ((nf - 1) * (nf + 1))); [ring|]. apply pos_mul; [exact Hnf|apply nf1_pos]. Qed.
    Lemma delta_pos : pos delta.
    Proof.
      unfold delta, en_delta. rewrite div_def.
      apply pos_mul; [apply pos_mul; [apply pos_mul; apply nf_pos|apply pos_inv; apply nn1_pos]|].
      apply (pos_eq ((1 - alpha) * (1 + alpha))); [ring|]. apply pos_mul; assumption.
    Qed.
    Lemma kk_nonneg : nonneg kk.
    Proof.
      unfold kk, en_k. rewrite div_def. apply nonneg_div.
      - apply (nonneg_eq ((1 + nf * alpha) * two)); [ring|]. apply nonneg_mul_pos; [exact A0|apply pos_two].
      - apply pos_mul; assumption.
    Qed.

    Let Ns : s <> 0 := pos_nz s Ps.
    Let Nn1 : nf + 1 <> 0 := pos_nz _ nf1_pos.
    Let Nnn : nf * nf - 1 <> 0 := pos_nz _ nn1_pos.
    Let Nm1 : nf - 1 <> 0 := pos_nz _ Hnf.
    Let Na1 : 1 - alpha <> 0 := pos_nz _ A1.
    Let Na2 : 1 + alpha <> 0 := pos_nz _ A2.
    Let Nd : delta <> 0 := pos_nz _ delta_pos.
    Let Nnf : nf <> 0 := pos_nz _ nf_pos.
    Lemma aa_pos : pos (1 - alpha * alpha).
    Proof. apply (pos_eq ((1 - alpha) * (1 + alpha))); [ring|]. apply pos_mul; assumption. Qed.
    Let Naa : 1 - alpha * alpha <> 0 := pos_nz _ aa_pos.

    Lemma Nss : s * s <> 0.
    Proof. apply pos_nz. apply pos_mul; exact Ps. Qed.
    Lemma NgHg : dot g (mv H g) <> 0.
    Proof. rewrite <- Hs. apply Nss. Qed.

    (* lengths *)
    Lemma length_Hp : length Hp = n.
    Proof.
      unfold Hp, en_H. rewrite length_mscale, length_msub, length_mdivs, length_mscale, length_mmul, length_outer, length_mv.
      rewrite LH. apply Nat.max_id.
    Qed.
    Lemma length_Pp : length Pp = n.
    Proof.
      unfold Pp, en_P. rewrite length_mscale, length_madd, length_mscale, length_outer. rewrite LP, Lg. apply Nat.max_id.
    Qed.
    Lemma length_xp : length xp = n.
    Proof.
      unfold xp, en_x. rewrite length_vsub, length_vdivs, length_vscale, length_mv. rewrite Lx, LH. apply Nat.max_id.
    Qed.

    (* the action of the two matrices *)
    Lemma Hp_mv v : mv Hp v =
      vscale ((nf * nf) / (nf * nf - 1) * (1 - alpha * alpha))
        (vsub (mv H v)
           (vdivs (vscale (two * (1 + nf * alpha) / (nf + 1) / (1 + alpha)) (vscale (dot g (mv H v)) (mv H g)))
              (dot g (mv H g)))).
    Proof. unfold Hp, en_H, en_gHg. rewrite mv_mscale, mv_msub, mv_mdivs, mv_mscale, mv_mmul, mv_outer. reflexivity. Qed.
    Lemma Pp_mv v : mv Pp v =
      vscale (/ delta) (vadd (mv P v) (vscale (kk / (s * s)) (vscale (dot g v) g))).
    Proof. unfold Pp, en_P. rewrite mv_mscale, mv_madd, mv_mscale, mv_outer. reflexivity. Qed.

    (* symmetry is preserved *)
    Lemma Hp_sym : msym n Hp.
    Proof.
      intros a b La Lb. rewrite !Hp_mv. expand. rewrite ?div_def.
      rewrite (SH b a Lb La), (SH g a Lg La), (SH g b Lg Lb), (dot_comm a (mv H g)), (dot_comm b (mv H g)).
      ring.
    Qed.
    Lemma Pp_sym : msym n Pp.
    Proof.
      intros a b La Lb. rewrite !Pp_mv. expand. rewrite ?div_def.
      rewrite (SP b a Lb La), (dot_comm a g), (dot_comm b g). ring.
    Qed.

    (* P+ is the inverse of H+ (Sherman-Morrison) *)
    Lemma Hp_Pp v : length v = n -> mv Hp (mv Pp v) = v.
    Proof.
      intros Lv. apply vec_ext; [rewrite length_mv, length_Hp; symmetry; exact Lv|].
      intros w. rewrite Hp_mv, Pp_mv. expand. rewrite (HPI v Lv). rewrite <- Hs.
      unfold delta, en_delta, kk, en_k, en_two. rewrite ?div_def.
      set (a := dot w v). set (b := dot w (mv H g)). set (c := dot g v).
      field. repeat split; assumption.
    Qed.
    Lemma Pp_Hp v : length v = n -> mv Pp (mv Hp v) = v.
    Proof.
      intros Lv. apply vec_ext; [rewrite length_mv, length_Pp; symmetry; exact Lv|].
      intros w. rewrite Pp_mv, Hp_mv. expand. rewrite (PHI v Lv), (PHI g Lg). rewrite <- Hs.
      unfold delta, en_delta, kk, en_k, en_two. rewrite ?div_def.
      set (a := dot w v). set (b := dot w g). set (c := dot g (mv H v)).
      field. repeat split; assumption.
    Qed.

    (* ---- positive definiteness, Cauchy-Schwarz ------------------------------------------------------------------- *)
    Hypothesis PDH : pd n H.

    Ltac nz := repeat split; assumption.

    Lemma length_Hg : length (mv H g) = n.
    Proof. rewrite length_mv. exact LH. Qed.

    (* z'Pz = (Pz)'H(Pz): P is positive semi-definite *)
    Lemma P_nonneg z : length z = n -> nonneg (dot z (mv P z)).
    Proof.
      intros L. apply (nonneg_eq (dot (mv P z) (mv H (mv P z)))); [rewrite (HPI z L); apply dot_comm|].
      apply (pd_nonneg n H PDH). rewrite length_mv. exact LP.
    Qed.

    (* Cauchy-Schwarz in the P / H pairing:  (g'w / s)^2 <= w'Pw  *)
    Lemma cs_PH w : length w = n -> nonneg (dot w (mv P w) - (dot g w * / s) * (dot g w * / s)).
    Proof.
      intros Lw. set (lam := dot g w * / (s * s)).
      set (u := vsub w (vscale lam (mv H g))).
      assert (Lu : length u = n).
      { unfold u. rewrite length_vsub, length_vscale, length_mv, Lw, LH. apply Nat.max_id. }
      apply (nonneg_eq (dot u (mv P u))); [|apply P_nonneg; exact Lu].
      unfold u. expand. rewrite (PHI g Lg).
      rewrite (SP (mv H g) w length_Hg Lw), (PHI g Lg).
      rewrite (dot_comm (mv H g) g), <- Hs, (dot_comm w g). unfold lam.
      set (q := dot w (mv P w)). set (gw := dot g w). field. exact Ns.
    Qed.

    (* ... and in H itself:  (g'Hz / s)^2 <= z'Hz *)
    Lemma cs_H z : length z = n -> nonneg (dot z (mv H z) - (dot g (mv H z) * / s) * (dot g (mv H z) * / s)).
    Proof.
      intros Lz. set (lam := dot g (mv H z) * / (s * s)).
      set (u := vsub z (vscale lam g)).
      assert (Lu : length u = n).
      { unfold u. rewrite length_vsub, length_vscale, Lz, Lg. apply Nat.max_id. }
      apply (nonneg_eq (dot u (mv H u))); [|apply (pd_nonneg n H PDH); exact Lu].
      unfold u. expand. rewrite (SH z g Lz Lg), <- Hs. unfold lam.
      set (q := dot z (mv H z)). set (gz := dot g (mv H z)). field. exact Ns.
    Qed.

    (* H+ stays positive definite *)
    Lemma Hp_pd : pd n Hp.
    Proof.
      intros z Lz Nz. rewrite Hp_mv. expand. rewrite (SH z g Lz Lg), <- Hs.
      set (zHz := dot z (mv H z)). set (gHz := dot g (mv H z)).
      set (sig := two * (1 + nf * alpha) * / ((nf + 1) * (1 + alpha))).
      apply (pos_eq (delta * ((nf - 1) * (1 - alpha) * / ((nf + 1) * (1 + alpha)) * zHz
                              + sig * (zHz - (gHz * / s) * (gHz * / s))))).
      { unfold delta, en_delta, sig, en_two. rewrite ?div_def. field. nz. }
      apply pos_mul; [exact delta_pos|].
      apply pos_add_nonneg.
      - apply pos_mul; [|exact (PDH z Lz Nz)].
        apply pos_mul; [apply pos_mul; assumption|].
        apply pos_inv. apply pos_mul; [exact nf1_pos|exact A2].
      - apply nonneg_mul; [|apply cs_H; exact Lz].
        unfold sig. apply nonneg_div; [|apply pos_mul; [exact nf1_pos|exact A2]].
        apply (nonneg_eq ((1 + nf * alpha) * two)); [ring|]. apply nonneg_mul_pos; [exact A0|apply pos_two].
    Qed.

    (* ---- membership: one step keeps the deep-cut part of the ellipsoid ------------------------------------------ *)
    Lemma xp_diff y : length y = n ->
      vsub y xp = vadd (vsub y x) (vdivs (vscale ((1 + nf * alpha) / (nf + 1)) (mv H g)) s).
    Proof.
      intros Ly. unfold xp, en_x. apply vec_ext.
      - rewrite !length_vsub, length_vadd, length_vsub, !length_vdivs, !length_vscale, length_mv, Ly, Lx, LH.
        rewrite !Nat.max_id. reflexivity.
      - intros w. expand. ring.
    Qed.

    Lemma form_step y : length y = n ->
      1 - en_form F FO Pp xp y =
      ((1 - dot (vsub y x) (mv P (vsub y x)))
       + kk * (dot g (vsub y x) * / s + 1) * (- (dot g (vsub y x) * / s + alpha))) * / delta.
    Proof.
      intros Ly. unfold en_form. rewrite (xp_diff y Ly).
      assert (Lw : length (vsub y x) = n) by (rewrite length_vsub, Ly, Lx; apply Nat.max_id).
      set (w := vsub y x) in *.
      rewrite Pp_mv. expand. rewrite (PHI g Lg).
      rewrite (SP (mv H g) w length_Hg Lw), (PHI g Lg).
      rewrite (dot_comm (mv H g) g), <- Hs, (dot_comm w g).
      unfold delta, en_delta, kk, en_k, en_two. rewrite ?div_def.
      set (q := dot w (mv P w)). set (gw := dot g w). field. nz.
    Qed.

    (* every y of the ellipsoid with g'(y - x) <= -alpha s is in the new ellipsoid *)
    Lemma step_contains y : length y = n ->
      nonneg (1 - en_form F FO P x y) ->
      nonneg (- (alpha * s) - dot g (vsub y x)) ->
      nonneg (1 - en_form F FO Pp xp y).
    Proof.
      intros Ly Q C. rewrite (form_step y Ly). unfold en_form in Q.
      assert (Lw : length (vsub y x) = n) by (rewrite length_vsub, Ly, Lx; apply Nat.max_id).
      set (w := vsub y x) in *.
      apply nonneg_div; [|exact delta_pos].
      apply nonneg_add; [exact Q|].
      apply nonneg_mul; [apply nonneg_mul; [exact kk_nonneg|]|].
      - apply sq_le1_lower.
        apply (nonneg_eq ((1 - dot w (mv P w)) + (dot w (mv P w) - (dot g w * / s) * (dot g w * / s)))); [ring|].
        apply nonneg_add; [exact Q|apply cs_PH; exact Lw].
      - apply (nonneg_eq ((- (alpha * s) - dot g w) * / s)); [field; exact Ns|].
        apply nonneg_div; assumption.
    Qed.

    (* the certificate in inverse form: y in the ellipsoid ==> -g'(y - x) <= r for every r >= 0 with g'Hg <= r^2 *)
    Lemma form_certificate y r : length y = n ->
      nonneg (1 - en_form F FO P x y) -> nonneg r -> nonneg (r * r - dot g (mv H g)) ->
      nonneg (r + dot g (vsub y x)).
    Proof.
      intros Ly Q R G. unfold en_form in Q.
      assert (Lw : length (vsub y x) = n) by (rewrite length_vsub, Ly, Lx; apply Nat.max_id).
      set (w := vsub y x) in *. rewrite <- Hs in G.
      destruct (nonneg_cases (r + dot g w)) as [N|N]; [exact N|]. exfalso.
      (* -g'w > r >= 0, so (g'w)^2 > r^2 >= s^2 >= s^2 q >= (g'w)^2 *)
      set (t := - (r + dot g w)) in *.
      assert (E : dot g w = - (r + t)) by (unfold t; ring).
      pose proof (cs_PH w Lw) as CS. rewrite E in CS.
      apply (pos_not_nonneg_opp ((two * r * t + t * t) * / (s * s))).
      - apply pos_mul; [|apply pos_inv; apply pos_mul; exact Ps].
        apply nonneg_add_pos; [|apply pos_mul; exact N].
        apply nonneg_mul_pos; [|exact N]. apply (nonneg_eq (r * two)); [ring|]. apply nonneg_mul_pos; [exact R|apply pos_two].
      - apply (nonneg_eq ((1 - dot w (mv P w)) + (dot w (mv P w) - - (r + t) * / s * (- (r + t) * / s))
                          + (r * r - s * s) * / (s * s))).
        { unfold en_two. field. exact Ns. }
        apply nonneg_add; [apply nonneg_add; assumption|]. apply nonneg_div; [exact G|apply pos_mul; exact Ps].
    Qed.
  End Step.

  (* ---- packaged: the invariant of one ellipsoid ---------------------------------------------------------------------- *)
  (* an explicit inverse P of the shape matrix H exists, both symmetric, H positive definite *)
  Definition ell_ok (n : nat) (x : vec F) (H P : mat F) : Prop :=
    length x = n /\ length H = n /\ length P = n /\ msym n H /\ msym n P /\ pd n H /\
    (forall v, length v = n -> mv H (mv P v) = v) /\ (forall v, length v = n -> mv P (mv H v) = v).
  (* y is inside the ellipsoid {y | (y - x)' P (y - x) <= 1} *)
  Definition inside (P : mat F) (x y : vec F) : Prop := nonneg (1 - en_form F FO P x y).

  Lemma alpha_s s f best : s <> 0 -> en_alpha F FO s f best * s = f - best.
  Proof. intros N. unfold en_alpha. field. exact N. Qed.

  (* one deep-cut update: the invariant is preserved and the cut part of the ellipsoid stays inside *)
  Lemma deep_cut_step n nf x H P g s alpha :
    pos (nf - 1) -> ell_ok n x H P -> length g = n -> s * s = en_gHg F FO H g -> pos s ->
    nonneg (1 + nf * alpha) -> pos (1 - alpha) -> pos (1 + alpha) ->
    ell_ok n (en_x F FO nf s alpha x H g) (en_H F FO nf alpha H g) (en_P F FO nf s alpha P g) /\
    forall y, length y = n -> inside P x y -> nonneg (- (alpha * s) - dot g (vsub y x)) ->
              inside (en_P F FO nf s alpha P g) (en_x F FO nf s alpha x H g) y.
  Proof.
    intros Hnf (Lx & LH & LP & SH & SP & PDH & HPI & PHI) Lg Hs Ps A0 A1 A2. unfold en_gHg in Hs.
    split.
    - repeat split.
      + apply (length_xp n nf H x g s alpha LH Lx).
      + apply (length_Hp n nf H g alpha LH).
      + apply (length_Pp n nf P g s alpha LP Lg).
      + apply (Hp_sym n nf H g alpha Lg SH).
      + apply (Pp_sym n nf P g s alpha SP).
      + apply (Hp_pd n nf Hnf H g s alpha Lg SH Hs Ps A0 A1 A2 PDH).
      + intros v Lv. apply (Hp_Pp n nf Hnf H P g s alpha LH HPI Hs Ps A1 A2 v Lv).
      + intros v Lv. apply (Pp_Hp n nf Hnf H P g s alpha LP Lg PHI Hs Ps A1 A2 v Lv).
    - intros y Ly Q C.
      apply (step_contains n nf Hnf H P x g s alpha LH LP Lx Lg SP HPI PHI Hs Ps A0 A1 A2 PDH y Ly Q C).
  Qed.
  (* ---- small facts ------------------------------------------------------------------------------------------------- *)
  Lemma nonneg_sum0_l u v : nonneg u -> nonneg v -> u + v = 0 -> u = 0.
  Proof.
    intros U V E. apply nonneg_antisym; [exact U|].
    apply (nonneg_eq v); [|exact V]. replace v with ((u + v) - u) by ring. rewrite E. ring.
  Qed.
  Lemma mv_zeros M m : mv M (zeros m) = zeros (length M).
  Proof.
    apply vec_ext; [rewrite length_mv, length_zeros; reflexivity|].
    intros w. rewrite dot_zeros_r. unfold C01Q_Defs.mv.
    induction M as [|r M IH] in w |- *; [destruct w; reflexivity|].
    destruct w as [|y w]; [reflexivity|]. simpl. rewrite dot_zeros_r, IH. ring.
  Qed.

  (* P is positive DEFINITE when H is (z = H (P z)) *)
  Lemma P_pd n x H P : ell_ok n x H P -> forall z, length z = n -> dot z (mv P z) = 0 -> z = zeros n.
  Proof.
    intros (Lx & LH & LP & SH & SP & PDH & HPI & PHI) z Lz E.
    assert (LPz : length (mv P z) = n) by (rewrite length_mv; exact LP).
    assert (E2 : dot (mv P z) (mv H (mv P z)) = 0) by (rewrite (HPI z Lz), dot_comm; exact E).
    destruct (vec_zero_dec (mv P z)) as [Z|Z]; rewrite LPz in Z.
    - rewrite <- (HPI z Lz), Z, mv_zeros, LH. reflexivity.
    - exfalso. apply (pos_0). rewrite <- E2. apply PDH; assumption.
  Qed.

  (* ---- runs ---------------------------------------------------------------------------------------------------------- *)
  Section Run.
    Variable n : nat.
    Variable nf : F.
    Hypothesis Hnf : pos (nf - 1).
    Hypothesis fcmp_spec : forall a b,
      (fcmp FO a b = 1%Z /\ pos (a - b)) \/ (fcmp FO a b = 0%Z /\ a = b) \/ (fcmp FO a b = (-1)%Z /\ pos (b - a)).
    Lemma lt_spec a b : en_lt F FO a b = true <-> pos (b - a).
    Proof.
      unfold en_lt. destruct (fcmp_spec a b) as [[E Q]|[[E Q]|[E Q]]]; rewrite E; simpl; split; intros X;
        try discriminate; try reflexivity; try exact Q; exfalso.
      - apply (pos_asym (a - b) Q). apply (pos_eq (b - a)); [ring|exact X].
      - subst b. apply pos_0. apply (pos_eq (a - a)); [ring|exact X].
    Qed.
    Variable fn : vec F -> F.                 (* the objective *)
    Variable xs : vec F.                      (* a minimiser *)
    Hypothesis Lxs : length xs = n.
    Hypothesis xs_min : forall z, length z = n -> nonneg (fn z - fn xs).
    Local Notation fstar := (fn xs).

    (* the oracle answer [o] at the centre of [st]: value, sub-gradient, exact square root of g'Hg *)
    Definition step_ok (st : estate F) (o : estep F) : Prop :=
      ef o = fn (ex st) /\ length (eg o) = n /\
      (forall z, length z = n -> nonneg (fn z - (ef o + dot (eg o) (vsub z (ex st))))) /\
      pos (es o) /\ es o * es o = en_gHg F FO (eH st) (eg o).
    Fixpoint run_ok (st : estate F) (os : list (estep F)) : Prop :=
      match os with
      | [] => True
      | o :: os' => step_ok st o /\ run_ok (en_step F FO nf st o) os'
      end.

    (* the minimiser is inside the current ellipsoid -- or has been found exactly (the degenerate cut alpha = 1) *)
    Definition run_inv (st : estate F) : Prop :=
      nonneg (ebest st - fstar) /\ length (ex st) = n /\ length (eH st) = n /\
      (ebest st = fstar \/ ex st = xs \/ exists P, ell_ok n (ex st) (eH st) P /\ inside P (ex st) xs).

    Lemma en_best_cases b f :
      (en_best F FO b f = f /\ pos (b - f)) \/ (en_best F FO b f = b /\ nonneg (f - b)).
    Proof.
      unfold en_best. destruct (en_lt F FO f b) eqn:E.
      - left. split; [reflexivity|]. apply lt_spec. exact E.
      - right. split; [reflexivity|]. destruct (nonneg_cases (f - b)) as [N|N]; [exact N|].
        assert (T : en_lt F FO f b = true) by (apply lt_spec; apply (pos_eq (- (f - b))); [ring|exact N]). congruence.
    Qed.
    Lemma en_best_le_l b f : nonneg (b - en_best F FO b f).
    Proof.
      destruct (en_best_cases b f) as [[E Q]|[E Q]]; rewrite E; [right; exact Q|left; ring].
    Qed.
    Lemma en_best_le_r b f : nonneg (f - en_best F FO b f).
    Proof.
      destruct (en_best_cases b f) as [[E Q]|[E Q]]; rewrite E; [left; ring|exact Q].
    Qed.
    Lemma en_best_ge b f c : nonneg (b - c) -> nonneg (f - c) -> nonneg (en_best F FO b f - c).
    Proof. intros B Fc. destruct (en_best_cases b f) as [[E _]|[E _]]; rewrite E; assumption. Qed.

    (* the invariant at the start: x* within R of x0, H0 = R^2 I (P0 = I / R^2) *)
    Lemma run_inv_init x0 R :
      length x0 = n -> pos R -> nonneg (R * R - dot (vsub xs x0) (vsub xs x0)) ->
      run_inv (mk_estate x0 (en_H0 F FO n R) (fn x0)).
    Proof.
      intros L0 PR D. pose proof (pos_mul R R PR PR) as PRR. pose proof (pos_nz _ PRR) as NRR. pose proof (pos_nz _ PR) as NR.
      split; [apply xs_min; exact L0|]. split; [exact L0|].
      split; [simpl; unfold en_H0; rewrite length_mscale; apply length_identity|]. right. right.
      exists (en_P0 F FO n R). simpl. unfold en_H0, en_P0.
      assert (Lw : length (vsub xs x0) = n) by (rewrite length_vsub, Lxs, L0; apply Nat.max_id).
      split.
      - repeat split.
        + exact L0.
        + rewrite length_mscale. apply length_identity.
        + rewrite length_mscale. apply length_identity.
        + intros a b La Lb. rewrite !mv_mscale, !mv_identity by assumption. expand. rewrite (dot_comm a b). reflexivity.
        + intros a b La Lb. rewrite !mv_mscale, !mv_identity by assumption. expand. rewrite (dot_comm a b). reflexivity.
        + intros z Lz Nz. rewrite mv_mscale, mv_identity by exact Lz. expand.
          apply pos_mul; [exact PRR|]. apply dot_self_pos. rewrite Lz. exact Nz.
        + intros v Lv. rewrite !mv_mscale, (mv_identity n v Lv).
          rewrite mv_identity by (rewrite length_vscale; exact Lv).
          apply vec_ext; [rewrite !length_vscale; reflexivity|]. intros w. expand. field. exact NR.
        + intros v Lv. rewrite !mv_mscale, (mv_identity n v Lv).
          rewrite mv_identity by (rewrite length_vscale; exact Lv).
          apply vec_ext; [rewrite !length_vscale; reflexivity|]. intros w. expand. field. exact NR.
      - unfold inside, en_form. rewrite mv_mscale, mv_identity by exact Lw.
        set (w := vsub xs x0) in *. expand.
        apply (nonneg_eq ((R * R - dot w w) * / (R * R))); [field; exact NR|].
        apply nonneg_div; assumption.
    Qed.

    (* one iteration *)
    Lemma run_inv_step st o : run_inv st -> step_ok st o -> run_inv (en_step F FO nf st o).
    Proof.
      intros (B & Lx & LH & I) (Ef & Lg & Sub & Ps & Hs).
      assert (Fge : nonneg (ef o - fstar)) by (rewrite Ef; apply xs_min; exact Lx).
      unfold en_step. set (best := en_best F FO (ebest st) (ef o)).
      assert (Bge : nonneg (best - fstar)) by (apply en_best_ge; assumption).
      set (alpha := en_alpha F FO (es o) (ef o) best).
      pose proof (pos_nz _ Ps) as Ns.
      pose proof (length_xp n nf (eH st) (ex st) (eg o) (es o) alpha LH Lx) as Lxp.
      pose proof (length_Hp n nf (eH st) (eg o) alpha LH) as LHp.
      (* once the best value is the minimum it stays the minimum *)
      assert (Done : best = fstar -> run_inv (mk_estate (en_x F FO nf (es o) alpha (ex st) (eH st) (eg o))
                                                        (en_H F FO nf alpha (eH st) (eg o)) best)).
      { intros E. split; [exact Bge|]. split; [exact Lxp|]. split; [exact LHp|]. left. exact E. }
      destruct I as [I|[I|(P & OK & In)]].
      - (* the best value is already the minimum *)
        apply Done. unfold best. destruct (en_best_cases (ebest st) (ef o)) as [[E Q]|[E Q]]; rewrite E; [|exact I].
        exfalso. rewrite I in Q. apply (pos_not_nonneg_opp _ Q). apply (nonneg_eq (ef o - fstar)); [ring|exact Fge].
      - (* the centre is the minimiser *)
        apply Done. assert (Ef' : ef o = fstar) by (rewrite Ef, I; reflexivity).
        unfold best. destruct (en_best_cases (ebest st) (ef o)) as [[E Q]|[E Q]]; rewrite E; [exact Ef'|].
        rewrite Ef' in Q.
        assert (Z : ebest st - fstar = 0).
        { apply nonneg_antisym; [exact B|]. apply (nonneg_eq (fstar - ebest st)); [ring|exact Q]. }
        replace (ebest st) with ((ebest st - fstar) + fstar) by ring. rewrite Z. ring.
      - (* the minimiser is inside the ellipsoid *)
        pose proof OK as (_ & _ & LP & SH & SP & PDH & HPI & PHI).
        unfold en_gHg in Hs.
        assert (Lw : length (vsub xs (ex st)) = n) by (rewrite length_vsub, Lxs, Lx; apply Nat.max_id).
        pose proof In as Q. unfold inside, en_form in Q.
        pose proof (Sub xs Lxs) as SubS.
        set (w := vsub xs (ex st)) in *. set (gw := dot (eg o) w) in *. set (s := es o) in *.
        assert (AS : alpha * s = ef o - best) by (apply alpha_s; exact Ns).
        (* the sub-gradient inequality at the minimiser: g'(x* - x) <= -alpha s *)
        assert (C : nonneg (- (alpha * s) - gw)).
        { rewrite AS. apply (nonneg_eq ((fstar - (ef o + gw)) + (best - fstar))); [ring|]. apply nonneg_add; assumption. }
        assert (Age : nonneg alpha).
        { unfold alpha, en_alpha. rewrite div_def. apply nonneg_div; [apply en_best_le_r|exact Ps]. }
        pose proof (cs_PH n (eH st) P (eg o) s LH LP Lg SP HPI PHI Hs Ps PDH w Lw) as CS. fold gw in CS.
        set (a := gw * / s) in *.
        assert (A1 : nonneg (a + 1)).
        { apply sq_le1_lower. apply (nonneg_eq ((1 - dot w (mv P w)) + (dot w (mv P w) - a * a))); [ring|].
          apply nonneg_add; assumption. }
        assert (NA : nonneg (- (a + alpha))).
        { apply (nonneg_eq ((- (alpha * s) - gw) * / s)); [unfold a; field; exact Ns|]. apply nonneg_div; assumption. }
        assert (Le1 : nonneg (1 - alpha)).
        { apply (nonneg_eq ((a + 1) + - (a + alpha))); [ring|]. apply nonneg_add; assumption. }
        assert (P1a : pos (1 + alpha)) by (apply pos_add_nonneg; [apply pos_1|exact Age]).
        assert (A0 : nonneg (1 + nf * alpha)).
        { apply nonneg_add; [apply pos_nonneg; apply pos_1|]. apply nonneg_mul; [apply pos_nonneg; apply (nf_pos nf Hnf)|exact Age]. }
        destruct Le1 as [E1|Lt1].
        + (* alpha = 1: the level set is the single point x - Hg/s, which is the new centre *)
          assert (Ea : alpha = 1) by (replace alpha with (1 - (1 - alpha)) by ring; rewrite E1; ring).
          assert (Za : a + 1 = 0).
          { apply (nonneg_sum0_l (a + 1) (- (a + alpha))); [assumption|assumption|]. rewrite <- E1. ring. }
          assert (Ea1 : a = - (1)) by (replace a with ((a + 1) - 1) by ring; rewrite Za; ring).
          assert (Eq : dot w (mv P w) = 1).
          { assert (Z : 1 - dot w (mv P w) = 0).
            { apply nonneg_antisym; [exact Q|]. apply (nonneg_eq (dot w (mv P w) - a * a)); [rewrite Ea1; ring|exact CS]. }
            replace (dot w (mv P w)) with (1 - (1 - dot w (mv P w))) by ring. rewrite Z. ring. }
          set (u := vadd w (vscale (/ s) (mv (eH st) (eg o)))).
          assert (Lu : length u = n).
          { unfold u. rewrite length_vadd, length_vscale, length_mv, Lw, LH. apply Nat.max_id. }
          assert (LHg : length (mv (eH st) (eg o)) = n) by (rewrite length_mv; exact LH).
          assert (Zu : dot u (mv P u) = 0).
          { unfold u. expand. rewrite (PHI (eg o) Lg).
            rewrite (SP (mv (eH st) (eg o)) w LHg Lw), (PHI (eg o) Lg).
            rewrite (dot_comm (mv (eH st) (eg o)) (eg o)), <- Hs, (dot_comm w (eg o)). fold gw. rewrite Eq.
            replace gw with (a * s) by (unfold a; field; exact Ns). rewrite Ea1. field. exact Ns. }
          pose proof (P_pd n (ex st) (eH st) P OK u Lu Zu) as U0.
          assert (Xs : en_x F FO nf s alpha (ex st) (eH st) (eg o) = xs).
          { apply vec_ext; [rewrite Lxp, Lxs; reflexivity|]. intros v.
            assert (T : dot v u = 0) by (rewrite U0; apply dot_zeros_r).
            unfold u, w in T. revert T. unfold en_x. expand. rewrite Ea, ?div_def. intros T.
            replace (dot v xs) with ((dot v xs - dot v (ex st) + / s * dot v (mv (eH st) (eg o)))
                                     + (dot v (ex st) - / s * dot v (mv (eH st) (eg o)))) by ring.
            rewrite T. field. split; [exact Ns|exact (pos_nz _ (nf1_pos nf Hnf))]. }
          split; [exact Bge|]. split; [exact Lxp|]. split; [exact LHp|]. right. left. exact Xs.
        + (* the regular case: the deep-cut lemma *)
          destruct (deep_cut_step n nf (ex st) (eH st) P (eg o) s alpha Hnf OK Lg Hs Ps A0 Lt1 P1a) as [OK' Cont].
          split; [exact Bge|]. split; [exact Lxp|]. split; [exact LHp|]. right. right.
          exists (en_P F FO nf s alpha P (eg o)). split; [exact OK'|].
          apply (Cont xs Lxs In). exact C.
    Qed.

    (* every run *)
    Lemma run_inv_run : forall os st, run_inv st -> run_ok st os -> run_inv (en_run F FO nf st os).
    Proof.
      induction os as [|o os IH]; intros st I OK; [exact I|].
      destruct OK as [O1 OK]. simpl. apply IH; [apply run_inv_step; assumption|exact OK].
    Qed.

    (* the stopping tests: with the invariant, any r >= 0 with g'Hg <= r^2 bounds the gap of the best value *)
    Lemma run_inv_certificate st o r :
      run_inv st -> step_ok st o -> nonneg r -> nonneg (r * r - en_gHg F FO (eH st) (eg o)) ->
      nonneg (r - (en_best F FO (ebest st) (ef o) - fstar)).
    Proof.
      intros (B & Lx & LH & I) (Ef & Lg & Sub & Ps & Hs) R G.
      assert (Fge : nonneg (ef o - fstar)) by (rewrite Ef; apply xs_min; exact Lx).
      set (best := en_best F FO (ebest st) (ef o)).
      assert (Zero : best = fstar -> nonneg (r - (best - fstar))).
      { intros E. rewrite E. apply (nonneg_eq r); [ring|exact R]. }
      destruct I as [I|[I|(P & OK & In)]].
      - apply Zero. unfold best. destruct (en_best_cases (ebest st) (ef o)) as [[E Q]|[E Q]]; rewrite E; [|exact I].
        exfalso. rewrite I in Q. apply (pos_not_nonneg_opp _ Q). apply (nonneg_eq (ef o - fstar)); [ring|exact Fge].
      - apply Zero. assert (Ef' : ef o = fstar) by (rewrite Ef, I; reflexivity).
        unfold best. destruct (en_best_cases (ebest st) (ef o)) as [[E Q]|[E Q]]; rewrite E; [exact Ef'|].
        rewrite Ef' in Q.
        assert (Z : ebest st - fstar = 0).
        { apply nonneg_antisym; [exact B|]. apply (nonneg_eq (fstar - ebest st)); [ring|exact Q]. }
        replace (ebest st) with ((ebest st - fstar) + fstar) by ring. rewrite Z. ring.
      - pose proof OK as (_ & _ & LP & SH & SP & PDH & HPI & PHI).
        unfold en_gHg in Hs, G.
        pose proof (form_certificate n (eH st) P (ex st) (eg o) (es o) LH LP Lx Lg SP HPI PHI Hs Ps PDH xs r Lxs In R G) as Cert.
        pose proof (Sub xs Lxs) as SubS.
        apply (nonneg_eq ((r + dot (eg o) (vsub xs (ex st))) + (fstar - (ef o + dot (eg o) (vsub xs (ex st)))) + (ef o - best)));
          [ring|].
        apply nonneg_add; [apply nonneg_add; assumption|]. apply en_best_le_r.
    Qed.
  End Run.
End EllN.

(* ---- packaged over [ordered_field] (C01Q_Proofs): what Properties_C03.v states ------------------------------------------ *)
Section Packaged.
  Variable F : Type.
  Variable FO : fops F.
  Variable OF : ordered_field FO.
  Local Notation "0" := (f0 FO).
  Local Notation "1" := (f1 FO).
  Local Infix "+" := (fadd FO).
  Local Infix "*" := (fmul FO).
  Local Infix "-" := (fsub FO).
  Local Notation pos := (of_pos OF).
  Local Notation Fth := (of_th OF).
  Add Field Ffield_elln_pack : Fth.

  (* a <= b, a < b *)
  Definition ole (a b : F) : Prop := nonneg FO pos (b - a).
  Definition olt (a b : F) : Prop := pos (b - a).
  (* P = H^-1 (on vectors of length n), both symmetric, H positive definite, x of length n *)
  Definition ell_inv (n : nat) (x : vec F) (H P : mat F) : Prop := ell_ok F FO pos n x H P.
  (* (y - x)' P (y - x) <= 1 *)
  Definition ell_in (P : mat F) (x y : vec F) : Prop := ole (en_form F FO P x y) 1.
  (* the oracle answers of a run are those of a convex objective fn: value, a sub-gradient, the exact square root of g'Hg *)
  Definition oracle_ok (n : nat) (fn : vec F -> F) (st : estate F) (o : estep F) : Prop :=
    ef o = fn (ex st) /\ length (eg o) = n /\
    (forall z, length z = n -> ole (ef o + dot FO (eg o) (vsub FO z (ex st))) (fn z)) /\
    olt 0 (es o) /\ es o * es o = en_gHg F FO (eH st) (eg o).
  Fixpoint oracles_ok (n : nat) (fn : vec F -> F) (st : estate F) (os : list (estep F)) : Prop :=
    match os with
    | [] => True
    | o :: os' => oracle_ok n fn st o /\ oracles_ok n fn (en_step F FO (en_nat F FO n) st o) os'
    end.

  Lemma en_nat_pos : forall k, pos (en_nat F FO (S k)).
  Proof.
    induction k as [|k IH]; simpl.
    - apply (pos_eq F pos 1); [ring|]. apply (pos_1 F FO Fth pos (of_mul OF) (of_cases OF)).
    - apply (of_add OF); [exact IH|]. apply (pos_1 F FO Fth pos (of_mul OF) (of_cases OF)).
  Qed.
  Lemma en_nat_ge2 n : (2 <= n)%nat -> pos (en_nat F FO n - 1).
  Proof.
    intros L. destruct n as [|[|k]]; try lia. simpl.
    apply (pos_eq F pos (en_nat F FO (S k))); [simpl; ring|]. apply en_nat_pos.
  Qed.

  Lemma step_ok_of n fn st o : oracle_ok n fn st o -> step_ok F FO pos n fn st o.
  Proof.
    intros (E & Lg & Sub & Ps & Hs). split; [exact E|]. split; [exact Lg|]. split; [|split; [|exact Hs]].
    - intros z Lz. exact (Sub z Lz).
    - apply (pos_eq F pos (es o - 0)); [ring|exact Ps].
  Qed.
  Lemma run_ok_of n fn : forall os st, oracles_ok n fn st os -> run_ok F FO pos n (en_nat F FO n) fn st os.
  Proof.
    induction os as [|o os IH]; intros st OK; [exact I|]. destruct OK as [O1 OK].
    split; [apply step_ok_of; exact O1|apply IH; exact OK].
  Qed.

  (* one step *)
  Lemma ellipsoid_deep_cut_contains (n : nat) (fn : vec F -> F) (x g : vec F) (H P : mat F) (s best : F) :
    (2 <= n)%nat -> ell_inv n x H P -> length g = n ->
    (forall z, length z = n -> ole (fn x + dot FO g (vsub FO z x)) (fn z)) ->
    olt 0 s -> s * s = en_gHg F FO H g ->
    ole best (fn x) -> olt (fn x - best) s ->
    let nf := en_nat F FO n in
    let alpha := en_alpha F FO s (fn x) best in
    ell_inv n (en_x F FO nf s alpha x H g) (en_H F FO nf alpha H g) (en_P F FO nf s alpha P g) /\
    forall y, length y = n -> ole (fn y) best -> ell_in P x y ->
              ell_in (en_P F FO nf s alpha P g) (en_x F FO nf s alpha x H g) y.
  Proof.
    intros L2 OK Lg Sub Ps Hs Bf A1 nf alpha.
    pose proof (en_nat_ge2 n L2) as Hnf. fold nf in Hnf.
    assert (Ps' : pos s) by (apply (pos_eq F pos (s - 0)); [ring|exact Ps]).
    pose proof (pos_nz F FO pos (of_0 OF) s Ps') as Ns.
    pose proof (pos_inv F FO Fth pos (of_add OF) (of_mul OF) (of_cases OF) (of_0 OF) s Ps') as Pis.
    assert (Age : nonneg FO pos alpha).
    { unfold alpha, en_alpha. rewrite (div_def F FO Fth). apply (nonneg_mul_pos F FO Fth pos (of_mul OF)); assumption. }
    assert (A0 : nonneg FO pos (1 + nf * alpha)).
    { apply (nonneg_add F FO Fth pos (of_add OF)).
      - right. apply (pos_1 F FO Fth pos (of_mul OF) (of_cases OF)).
      - apply (nonneg_mul F FO Fth pos (of_mul OF)); [|exact Age]. right.
        apply (nf_pos F FO Fth pos (of_add OF) (of_mul OF) (of_cases OF) nf Hnf). }
    assert (Alt : pos (1 - alpha)).
    { apply (pos_eq F pos ((s - (fn x - best)) * finv FO s)); [unfold alpha, en_alpha; field; exact Ns|].
      apply (of_mul OF); assumption. }
    assert (A2 : pos (1 + alpha)).
    { apply (pos_add_nonneg F FO Fth pos (of_add OF)); [apply (pos_1 F FO Fth pos (of_mul OF) (of_cases OF))|exact Age]. }
    destruct (deep_cut_step F FO Fth pos (of_add OF) (of_mul OF) (of_cases OF) (of_0 OF) n nf x H P g s alpha
                Hnf OK Lg Hs Ps' A0 Alt A2) as [OK' Cont].
    split; [exact OK'|]. intros y Ly Lv In. apply (Cont y Ly In).
    (* g'(y - x) <= f(y) - f(x) <= best - f(x) = -alpha s *)
    apply (nonneg_eq F FO pos ((fn y - (fn x + dot FO g (vsub FO y x))) + (best - fn y))).
    - unfold alpha, en_alpha. field. exact Ns.
    - apply (nonneg_add F FO Fth pos (of_add OF)); [exact (Sub y Ly)|exact Lv].
  Qed.

  (* every run from the initial ball *)
  Lemma ellipsoid_nd_invariant (n : nat) (fn : vec F -> F) (xs x0 : vec F) (R : F) (os : list (estep F)) :
    (2 <= n)%nat -> length xs = n -> (forall z, length z = n -> ole (fn xs) (fn z)) ->
    length x0 = n -> olt 0 R -> ole (dot FO (vsub FO xs x0) (vsub FO xs x0)) (R * R) ->
    let st0 := mk_estate x0 (en_H0 F FO n R) (fn x0) in
    oracles_ok n fn st0 os ->
    let st := en_run F FO (en_nat F FO n) st0 os in
    ole (fn xs) (ebest st) /\
    (ebest st = fn xs \/ ex st = xs \/ exists P, ell_inv n (ex st) (eH st) P /\ ell_in P (ex st) xs).
  Proof.
    intros L2 Lxs Min L0 PR D st0 OK st.
    assert (PR' : pos R) by (apply (pos_eq F pos (R - 0)); [ring|exact PR]).
    pose proof (run_inv_init F FO Fth pos (of_add OF) (of_mul OF) (of_cases OF) (of_0 OF) n fn xs Lxs Min x0 R L0 PR' D) as I0.
    pose proof (run_inv_run F FO Fth pos (of_add OF) (of_mul OF) (of_cases OF) (of_0 OF) n (en_nat F FO n) (en_nat_ge2 n L2)
                  (of_cmp OF) fn xs Lxs Min os st0 I0 (run_ok_of n fn os st0 OK)) as (B & _ & _ & I).
    split; [exact B|exact I].
  Qed.

  (* ... and when it stops: any r >= 0 with g'Hg <= r^2 at the last centre bounds the gap of the best value *)
  Lemma ellipsoid_nd_converged (n : nat) (fn : vec F -> F) (xs x0 : vec F) (R : F) (os : list (estep F)) (o : estep F) (r : F) :
    (2 <= n)%nat -> length xs = n -> (forall z, length z = n -> ole (fn xs) (fn z)) ->
    length x0 = n -> olt 0 R -> ole (dot FO (vsub FO xs x0) (vsub FO xs x0)) (R * R) ->
    let st0 := mk_estate x0 (en_H0 F FO n R) (fn x0) in
    oracles_ok n fn st0 os ->
    let st := en_run F FO (en_nat F FO n) st0 os in
    oracle_ok n fn st o -> ole 0 r -> ole (en_gHg F FO (eH st) (eg o)) (r * r) ->
    forall f_next, ole (en_best F FO (en_best F FO (ebest st) (ef o)) f_next - fn xs) r.
  Proof.
    intros L2 Lxs Min L0 PR D st0 OK st O R0 G f_next.
    assert (PR' : pos R) by (apply (pos_eq F pos (R - 0)); [ring|exact PR]).
    pose proof (run_inv_init F FO Fth pos (of_add OF) (of_mul OF) (of_cases OF) (of_0 OF) n fn xs Lxs Min x0 R L0 PR' D) as I0.
    pose proof (run_inv_run F FO Fth pos (of_add OF) (of_mul OF) (of_cases OF) (of_0 OF) n (en_nat F FO n) (en_nat_ge2 n L2)
                  (of_cmp OF) fn xs Lxs Min os st0 I0 (run_ok_of n fn os st0 OK)) as I.
    fold st in I.
    assert (R0' : nonneg FO pos r) by (apply (nonneg_eq F FO pos (r - 0)); [ring|exact R0]).
    pose proof (run_inv_certificate F FO Fth pos (of_add OF) (of_mul OF) (of_cases OF) (of_0 OF) n (of_cmp OF) fn xs Lxs Min
                  st o r I (step_ok_of n fn st o O) R0' G) as C.
    pose proof (en_best_le_l F FO Fth pos (of_add OF) (of_cases OF) (of_0 OF) (of_cmp OF)
                  (en_best F FO (ebest st) (ef o)) f_next) as Le.
    unfold ole.
    apply (nonneg_eq F FO pos ((r - (en_best F FO (ebest st) (ef o) - fn xs))
                               + (en_best F FO (ebest st) (ef o) - en_best F FO (en_best F FO (ebest st) (ef o)) f_next))); [ring|].
    apply (nonneg_add F FO Fth pos (of_add OF)); assumption.
  Qed.
End Packaged.
Arguments ole {F FO}. Arguments olt {F FO}. Arguments ell_inv {F FO}. Arguments ell_in {F FO}.
Arguments oracle_ok {F FO}. Arguments oracles_ok {F FO}.

(* ---- a concrete instance over the canonical rationals (non-vacuity of the hypotheses) ------------------------------------ *)
(* fn z = (g.z)^2 with g = (3/5, 4/5): convex, sub-gradient 2 (g.x) g, minimisers { g.z = 0 } (we take x* = 0); started at
   x0 = (1, 1) with R = 2 every square root of the run is rational:  s_1 = 2 |g.x0| R,  s_2 = 2 |g.x1| R n (1 - alpha)/(n + 1) *)
From Coq Require Import QArith Qcanon.
Definition exq (a : Z) (b : positive) : Qc := Q2Qc (a # b).
Arguments exq a%Z_scope b%positive_scope.
Definition ex_g : vec Qc := [exq 3 5; exq 4 5].
Definition ex_fn (z : vec Qc) : Qc := Qcmult (dot QcO ex_g z) (dot QcO ex_g z).
Definition ex_oracle (x : vec Qc) (s : Qc) : estep Qc :=
  mk_estep (ex_fn x) (vscale QcO (Qcmult (exq 2 1) (dot QcO ex_g x)) ex_g) s.
Definition ex_xs : vec Qc := [exq 0 1; exq 0 1].
Definition ex_x0 : vec Qc := [exq 1 1; exq 1 1].
Definition ex_R : Qc := exq 2 1.
Definition ex_st0 : estate Qc := mk_estate ex_x0 (en_H0 Qc QcO 2 ex_R) (ex_fn ex_x0).
Definition ex_o1 : estep Qc := ex_oracle ex_x0 (exq 28 5).
Definition ex_st1 : estate Qc := en_run Qc QcO (en_nat Qc QcO 2) ex_st0 [ex_o1].
Definition ex_o2 : estep Qc := ex_oracle (ex ex_st1) (exq 88 45).

Lemma ex_sub x z s :
  ole Qc_ordered_field (fadd QcO (ef (ex_oracle x s)) (dot QcO (eg (ex_oracle x s)) (vsub QcO z x))) (ex_fn z).
Proof.
  unfold ole, ex_oracle, ex_fn. cbn [ef eg].
  rewrite (dot_vscale_l Qc QcO Qcft), (dot_vsub_r Qc QcO Qcft).
  set (a := dot QcO ex_g z). set (b := dot QcO ex_g x).
  apply (nonneg_eq Qc QcO (of_pos Qc_ordered_field) (fmul QcO (fsub QcO a b) (fsub QcO a b))).
  - unfold exq. simpl. assert (T : Q2Qc (2 # 1) = Qcplus (Q2Qc 1) (Q2Qc 1)) by (apply Qc_is_canon; vm_compute; reflexivity). rewrite T. ring.
  - apply (nonneg_sq Qc QcO Qcft _ (of_mul Qc_ordered_field) (of_cases Qc_ordered_field) (of_0 Qc_ordered_field)).
Qed.
Lemma ex_min z : ole Qc_ordered_field (ex_fn ex_xs) (ex_fn z).
Proof.
  unfold ole. replace (ex_fn ex_xs) with (f0 QcO) by (apply Qc_is_canon; vm_compute; reflexivity).
  apply (nonneg_eq Qc QcO (of_pos Qc_ordered_field) (ex_fn z)); [simpl; ring|]. unfold ex_fn.
  apply (nonneg_sq Qc QcO Qcft _ (of_mul Qc_ordered_field) (of_cases Qc_ordered_field) (of_0 Qc_ordered_field)).
Qed.
Lemma ex_oracle_ok st s : olt Qc_ordered_field (f0 QcO) s -> fmul QcO s s = en_gHg Qc QcO (eH st) (eg (ex_oracle (ex st) s)) ->
  oracle_ok Qc_ordered_field 2 ex_fn st (ex_oracle (ex st) s).
Proof.
  intros Ps Hs. split; [reflexivity|]. split; [reflexivity|]. split; [|split; assumption].
  intros z _. apply ex_sub.
Qed.
