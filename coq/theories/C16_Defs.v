(* C16 -- executable model of tensor indexing (include/nano/tensor/{dims,base,tensor,integral}.h).
   Style A (discrete). The arithmetic steps are *imported* from the translated kernels
   (coq/generated/Src_dims.v, Src_tensor.v) so the theorems are re-checked against the source. *)
From Coq Require Import List ZArith Bool.
From LNGen Require Import Src_dims Src_tensor.
Import ListNotations.
Local Open Scope Z_scope.

Definition dims := list Z.

(* detail::product<0>(dims) *)
Fixpoint size (d : dims) : Z :=
  match d with
  | [] => src_product_base
  | x :: r => src_product_step x (size r)
  end.

(* detail::get_index<0>(dims, i0, ..., i_{n-1}) : the overload with a single remaining index
   returns the index itself *)
Fixpoint offset (d : dims) (i : list Z) : Z :=
  match i with
  | [] => 0
  | [k] => src_get_index_last k
  | k :: j => match d with
              | _ :: r => src_get_index_step k (size r) (offset r j)
              | [] => 0
              end
  end.

(* detail::get_index0<0>(dims, i0, ..., i_{p-1}), p <= rank *)
Fixpoint offset0 (d : dims) (i : list Z) : Z :=
  match i, d with
  | [], _ => src_get_index0_base
  | k :: j, _ :: r => src_get_index0_step k (size r) (offset0 r j)
  | _ :: _, [] => 0
  end.

(* nano::dims0(dims, indices...) *)
Definition dims0 (d : dims) (p : list Z) : dims := skipn (length p) d.

(* the assert of get_index/get_index0: every index inside its dimension *)
Fixpoint validb (d : dims) (i : list Z) : bool :=
  match d, i with
  | [], [] => true
  | x :: r, k :: j => src_index_valid k x && validb r j
  | _, _ => false
  end.

(* a valid prefix (fewer indices than dimensions allowed) *)
Fixpoint validpb (d : dims) (p : list Z) : bool :=
  match p, d with
  | [], _ => true
  | k :: j, x :: r => src_index_valid k x && validpb r j
  | _ :: _, [] => false
  end.

(* explicit inverse of offset *)
Fixpoint unoffset (d : dims) (o : Z) : list Z :=
  match d with
  | [] => []
  | _ :: r => Z.quot o (size r) :: unoffset r (Z.rem o (size r))
  end.

(* ---- views: (pointer offset into the flat storage, dimensions) -------------------------------- *)
Definition view := (Z * dims)%type.

(* tensor(indices...) *)
Definition view_tensor (d : dims) (p : list Z) : view := (offset0 d p, dims0 d p).
(* vector(indices...) : a flat segment *)
Definition view_vector (d : dims) (p : list Z) : Z * Z := (offset0 d p, size (dims0 d p)).
(* matrix(indices...) with rank-2 indices: rows() x cols() of the *parent* *)
Definition view_matrix (d : dims) (p : list Z) : Z * Z * Z :=
  (offset0 d p, nth (length d - 2) d 0, nth (length d - 1) d 0).
(* slice(begin, end) *)
Definition view_slice (d : dims) (b e : Z) : view :=
  (offset0 d [b], match d with [] => [] | _ :: r => src_slice_dim0 b e :: r end).
Definition slice_validb (d : dims) (b e : Z) : bool :=
  match d with [] => false | x :: _ => src_slice_valid b e x end.

(* treshape: the loop replaces, in order, every -1 by -size()/product(current dimensions) *)
Fixpoint reshape_loop (total : Z) (done todo : dims) : dims :=
  match todo with
  | [] => done
  | x :: r =>
      let x' := if Z.eqb x (-1) then src_reshape_infer total (size (done ++ todo)) else x in
      reshape_loop total (done ++ [x']) r
  end.
Definition reshape (d : dims) (target : dims) : dims := reshape_loop (size d) [] target.

(* element addressed through a view *)
Definition view_at (v : view) (i : list Z) : Z := fst v + offset (snd v) i.

(* ---- gather: indexed(indices) ------------------------------------------------------------- *)
Definition segment {A} (b n : Z) (l : list A) : list A := firstn (Z.to_nat n) (skipn (Z.to_nat b) l).
Definition gather {A} (d : dims) (flat : list A) (idx : list Z) : list A :=
  let row := size (tl d) in
  flat_map (fun k => segment (k * row) row flat) idx.

(* ---- integral (summed-area table), integral.h ------------------------------------------------ *)
Fixpoint prefix_sums (acc : Z) (l : list Z) : list Z :=
  match l with [] => [] | x :: r => (acc + x) :: prefix_sums (acc + x) r end.

Fixpoint vadd (a b : list Z) : list Z :=
  match a, b with x :: r, y :: s => (x + y) :: vadd r s | _, _ => [] end.

(* running vector sum over the chunks: otensor.vector(i0) += otensor.vector(i0 - 1) *)
Fixpoint scan_chunks (prev : option (list Z)) (chunks : list (list Z)) : list (list Z) :=
  match chunks with
  | [] => []
  | c :: r => let c' := match prev with None => c | Some p => vadd c p end in
              c' :: scan_chunks (Some c') r
  end.

Fixpoint chunks_of (n : nat) (count : nat) (l : list Z) : list (list Z) :=
  match count with
  | O => []
  | S c => firstn n l :: chunks_of n c (skipn n l)
  end.

(* integral_t<rank>::get on a flat row-major list *)
Fixpoint integral_rec (d : dims) (flat : list Z) : list Z :=
  match d with
  | [] => flat
  | [_] => prefix_sums 0 flat
  | n :: r =>
      let row := Z.to_nat (size r) in
      concat (scan_chunks None (map (integral_rec r) (chunks_of row (Z.to_nat n) flat)))
  end.
Definition integral (d : dims) (flat : list Z) : list Z :=
  if Z.gtb (size d) 0 then integral_rec d flat else flat.

(* naive definition: sum over the dominated box *)
Fixpoint all_indices (d : dims) : list (list Z) :=
  match d with
  | [] => [[]]
  | n :: r => flat_map (fun k => map (fun t => k :: t) (all_indices r)) (map Z.of_nat (seq 0 (Z.to_nat n)))
  end.
Fixpoint dominated (j i : list Z) : bool :=
  match j, i with
  | [], [] => true
  | a :: r, b :: s => Z.leb a b && dominated r s
  | _, _ => false
  end.
Definition zsum (l : list Z) : Z := fold_right Z.add 0 l.
Definition naive_integral_at (d : dims) (flat : list Z) (i : list Z) : Z :=
  zsum (map (fun j => nth (Z.to_nat (offset d j)) flat 0) (filter (fun j => dominated j i) (all_indices d))).
