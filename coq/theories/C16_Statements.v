(* C16 -- the property statements, proved about the executable model (C16_Defs) via C16_Proofs.
   Properties_C16.v only re-exports them with `exact` + Print Assumptions. *)
From Coq Require Import List ZArith Bool Lia Arith.
From LNGen Require Import Src_dims Src_tensor.
From LN Require Import ListAux C16_Defs C16_Proofs.
Import ListNotations.
Local Open Scope Z_scope.

Lemma validb_len d i : validb d i = true -> length i = length d.
Proof. intros H. apply valid_length. apply validb_spec. exact H. Qed.

Lemma offset_eq d i : validb d i = true -> offset d i = offs d i.
Proof. intros H. apply offset_offs. apply validb_len. exact H. Qed.

Lemma s_offset_range d i : validb d i = true -> 0 <= offset d i < size d.
Proof. intros H. rewrite offset_eq by exact H. apply offs_range. apply validb_spec. exact H. Qed.

Lemma s_offset_bijection :
  (forall d i, validb d i = true -> unoffset d (offset d i) = i) /\
  (forall d o, Forall (fun x => 0 < x) d -> 0 <= o < size d ->
     validb d (unoffset d o) = true /\ offset d (unoffset d o) = o).
Proof.
  split.
  - intros d i H. rewrite offset_eq by exact H. apply unoffset_offs. apply validb_spec. exact H.
  - intros d o Hd Ho. destruct (offs_unoffset d o Hd Ho) as [Hv He].
    apply validb_spec in Hv. split; [exact Hv|]. rewrite offset_eq by exact Hv. exact He.
Qed.

Lemma s_offset_injective d i j :
  validb d i = true -> validb d j = true -> offset d i = offset d j -> i = j.
Proof.
  intros Hi Hj H. rewrite !offset_eq in H by assumption.
  apply (offs_injective d); try apply validb_spec; assumption.
Qed.

(* tensor(p...)(r...) addresses the element (p ++ r) of the parent *)
Lemma s_subview d p r :
  validb d (p ++ r) = true ->
  validb (snd (view_tensor d p)) r = true /\
  view_at (view_tensor d p) r = offset d (p ++ r) /\
  0 <= view_at (view_tensor d p) r < size d.
Proof.
  intros H. pose proof H as Hv. apply validb_spec in Hv.
  destruct (valid_app_split p d r Hv) as [Hp Hr].
  pose proof (validp_length p d Hp) as Hl.
  unfold view_tensor, view_at, dims0; cbn [fst snd].
  assert (Hrb : validb (skipn (length p) d) r = true) by (apply validb_spec; exact Hr).
  split; [exact Hrb|].
  assert (E : offset0 d p + offset (skipn (length p) d) r = offset d (p ++ r)).
  { rewrite offset0_offs by exact Hl. rewrite (offset_eq _ r) by exact Hrb.
    rewrite (offset_eq d) by exact H. rewrite offs_app by exact Hl. reflexivity. }
  split; [exact E|]. rewrite E. apply s_offset_range. exact H.
Qed.

(* vector(p...) is the flat segment holding exactly the elements (p ++ r), in row-major order of r *)
Lemma s_vector_view d p r :
  validb d (p ++ r) = true ->
  let '(b, n) := view_vector d p in
  offset d (p ++ r) = b + offset (dims0 d p) r /\ 0 <= offset (dims0 d p) r < n /\
  0 <= b /\ b + n <= size d.
Proof.
  intros H. pose proof H as Hv. apply validb_spec in Hv.
  destruct (valid_app_split p d r Hv) as [Hp Hr].
  pose proof (validp_length p d Hp) as Hl.
  unfold view_vector, dims0.
  assert (Hrb : validb (skipn (length p) d) r = true) by (apply validb_spec; exact Hr).
  destruct (s_subview d p r H) as [_ [E _]]. unfold view_tensor, view_at, dims0 in E; cbn [fst snd] in E.
  pose proof (s_offset_range _ r Hrb) as Hrange.
  split; [symmetry; exact E|]. split; [exact Hrange|].
  (* the segment lies inside the parent: b = offs d p is a multiple of n below size d *)
  rewrite offset0_offs by exact Hl.
  pose proof (valid_size_pos _ _ Hr) as Hpos.
  clear E Hrange Hrb H Hv Hr. revert d Hp Hl Hpos.
  induction p as [|k j IH]; intros d Hp Hl Hpos.
  - cbn [length skipn] in *. destruct d; cbn [offs]; lia.
  - destruct d as [|x d']; cbn [length] in Hl; [lia|]. cbn [validp] in Hp.
    destruct Hp as [Hk Hj]. cbn [length skipn offs] in *. rewrite size_cons.
    specialize (IH d' Hj ltac:(lia) Hpos).
    assert (0 < size d') by lia. nia.
Qed.

(* matrix(p...)(i, j) with |p| = rank - 2 *)
Lemma s_matrix_view d p i j :
  validb d (p ++ [i; j]) = true ->
  let '(b, rows, cols) := view_matrix d p in
  offset d (p ++ [i; j]) = b + i * cols + j /\ 0 <= i < rows /\ 0 <= j < cols.
Proof.
  intros H. pose proof H as Hv. apply validb_spec in Hv.
  destruct (valid_app_split p d [i; j] Hv) as [Hp Hr].
  pose proof (validp_length p d Hp) as Hl.
  pose proof (validb_len _ _ H) as Hlen. rewrite app_length in Hlen. cbn [length] in Hlen.
  destruct (s_subview d p [i; j] H) as [Hrb [E _]].
  unfold view_tensor, view_at, dims0 in E, Hrb; cbn [fst snd] in E, Hrb.
  unfold view_matrix.
  remember (skipn (length p) d) as tail eqn:Ht.
  destruct tail as [|rws [|cls [|? ?]]]; cbn [valid] in Hr; try tauto.
  assert (Hd : d = firstn (length p) d ++ [rws; cls]) by (rewrite Ht; symmetry; apply firstn_skipn).
  assert (Hfl : length (firstn (length p) d) = length p) by (apply firstn_length_le; exact Hl).
  assert (R : nth (length d - 2) d 0 = rws).
  { rewrite Hd at 2. rewrite app_nth2 by lia. rewrite Hfl.
    replace (length d - 2 - length p)%nat with 0%nat by lia. reflexivity. }
  assert (C : nth (length d - 1) d 0 = cls).
  { rewrite Hd at 2. rewrite app_nth2 by lia. rewrite Hfl.
    replace (length d - 1 - length p)%nat with 1%nat by lia. reflexivity. }
  rewrite R, C. rewrite <- E.
  rewrite (offset_eq [rws; cls]) by exact Hrb. cbn [offs]. rewrite size_cons, size_nil.
  split; [lia|]. tauto.
Qed.

(* slice(b, e)(k, j...) addresses the element (b + k, j...) of the parent *)
Lemma s_slice x r b e k j :
  slice_validb (x :: r) b e = true ->
  validb (snd (view_slice (x :: r) b e)) (k :: j) = true ->
  validb (x :: r) (b + k :: j) = true /\
  view_at (view_slice (x :: r) b e) (k :: j) = offset (x :: r) (b + k :: j) /\
  0 <= view_at (view_slice (x :: r) b e) (k :: j) < size (x :: r).
Proof.
  unfold slice_validb, view_slice, view_at; cbn [fst snd]. unfold src_slice_valid, src_slice_dim0.
  intros Hs Hv. apply andb_true_iff in Hs. destruct Hs as [Hs He]. apply andb_true_iff in Hs.
  destruct Hs as [Hb Hbe].
  pose proof Hv as Hv'. apply validb_spec in Hv'.
  destruct (slice_offs x r b e k j ltac:(lia) ltac:(lia) ltac:(lia) Hv') as [Hval Heq].
  assert (Hvb : validb (x :: r) (b + k :: j) = true) by (apply validb_spec; exact Hval).
  split; [exact Hvb|].
  assert (E : offset0 (x :: r) [b] + offset (e - b :: r) (k :: j) = offset (x :: r) (b + k :: j)).
  { rewrite offset0_offs by (cbn; lia). rewrite (offset_eq _ (k :: j)) by exact Hv.
    rewrite (offset_eq (x :: r)) by exact Hvb. exact Heq. }
  split; [exact E|]. rewrite E. apply s_offset_range. exact Hvb.
Qed.

(* reshape: no -1 => the target itself; one -1 => inferred = size / product of the others *)
Lemma s_reshape_infer d pre post :
  Forall (fun x => x <> -1) pre -> Forall (fun x => x <> -1) post ->
  0 < size pre * size post -> 0 <= size d -> (size pre * size post | size d) ->
  reshape d (pre ++ (-1) :: post) = pre ++ size d / (size pre * size post) :: post /\
  size (reshape d (pre ++ (-1) :: post)) = size d.
Proof. exact (reshape_one_infer d pre post). Qed.

Lemma s_reshape_plain d target :
  Forall (fun x => x <> -1) target -> reshape d target = target.
Proof. exact (reshape_no_infer d target). Qed.

(* a reshape of equal size enumerates the same flat positions, i.e. the same elements in row-major order *)
Lemma s_reshape_same_elements d d' i :
  Forall (fun x => 0 < x) d -> size d' = size d -> validb d' i = true ->
  let j := unoffset d (offset d' i) in
  validb d j = true /\ offset d j = offset d' i /\ 0 <= offset d' i < size d.
Proof.
  intros Hd Hs Hi. pose proof (s_offset_range d' i Hi) as Hr. rewrite Hs in Hr.
  destruct (proj2 s_offset_bijection d (offset d' i) Hd Hr) as [H1 H2].
  cbv zeta. tauto.
Qed.

(* indexed(idx)(i, rest...) = tensor(idx(i), rest...) *)
Lemma s_gather {A} n r (flat : list A) idx i rest dflt :
  Z.of_nat (length flat) = size (n :: r) ->
  Forall (fun k => 0 <= k < n) idx ->
  0 <= i < Z.of_nat (length idx) ->
  validb r rest = true ->
  nth (Z.to_nat (offset (Z.of_nat (length idx) :: r) (i :: rest))) (gather (n :: r) flat idx) dflt =
  nth (Z.to_nat (offset (n :: r) (nth (Z.to_nat i) idx 0 :: rest))) flat dflt.
Proof.
  intros Hf Hidx Hi Hr.
  assert (Hk : 0 <= nth (Z.to_nat i) idx 0 < n).
  { rewrite Forall_forall in Hidx. apply Hidx. apply nth_In. lia. }
  rewrite !offset_eq.
  - apply gather_spec; try assumption. apply validb_spec. exact Hr.
  - cbn [validb]. rewrite Hr. unfold src_index_valid. lia.
  - cbn [validb]. rewrite Hr. unfold src_index_valid. lia.
Qed.
