(* C12 -- executable model of the splitters (src/splitter/{kfold,random}.cpp) and of the index samplers
   (src/core/sampling.cpp, used by src/gboost/sampler.cpp).  Style A (discrete).

   * every integer expression that decides which positions of the shuffled vector go where is *imported*
     from the kernels translated from the source on every run (coq/generated/Src_splitter.v,
     Src_sampling.v, Src_numeric.v);
   * `std::shuffle(..., rng)` is an oracle: a function `shuffle seed call l` (seed of make_rng, number of
     the call on that generator, current contents).  The theorems assume only its contract
     (`Permutation (shuffle s c l) l`).  The executable instance `shuffle_by` replays the position
     permutation that the same std::shuffle produced on `arange(n)` (obtained by the harness) and
     *checks* that it is a permutation of 0..n-1, so the contract is discharged, not assumed;
   * `std::sort` on int64 is a merge sort on Z;
   * `uniform_int_distribution` / `discrete_distribution` are oracles answering position lists.
   No proofs in this file. *)
From Coq Require Import List ZArith Bool.
From LNGen Require Import Src_numeric Src_splitter Src_sampling.
Import ListNotations.
Local Open Scope Z_scope.

(* ---- std::sort ------------------------------------------------------------------------------- *)
Fixpoint insert (x : Z) (l : list Z) : list Z :=
  match l with
  | [] => [x]
  | y :: r => if x <=? y then x :: l else y :: insert x r
  end.

Fixpoint isort (l : list Z) : list Z :=
  match l with
  | [] => []
  | x :: r => insert x (isort r)
  end.

Fixpoint merge (l1 : list Z) : list Z -> list Z :=
  match l1 with
  | [] => fun l2 => l2
  | x :: r1 =>
      fix merge_aux (l2 : list Z) : list Z :=
        match l2 with
        | [] => l1
        | y :: r2 => if x <=? y then x :: merge r1 l2 else y :: merge_aux r2
        end
  end.

Fixpoint halve (l : list Z) : list Z * list Z :=
  match l with
  | [] => ([], [])
  | [x] => ([x], [])
  | x :: y :: r => let (a, b) := halve r in (x :: a, y :: b)
  end.

(* top-down merge sort; when the fuel runs out (never for fewer than 2^64 elements) it falls back to
   insertion sort, so it is a sorting function for every fuel *)
Fixpoint msort (fuel : nat) (l : list Z) : list Z :=
  match l with
  | [] => l
  | [_] => l
  | _ :: _ :: _ =>
      match fuel with
      | O => isort l
      | S f => let (a, b) := halve l in merge (msort f a) (msort f b)
      end
  end.

Definition sort (l : list Z) : list Z := msort 64 l.

(* ---- Eigen segments, ranges -------------------------------------------------------------------- *)
Definition zlen (l : list Z) : Z := Z.of_nat (length l).
Definition zfirstn (n : Z) (l : list Z) : list Z := firstn (Z.to_nat n) l.
Definition zskipn (n : Z) (l : list Z) : list Z := skipn (Z.to_nat n) l.
(* v.segment(start, len) *)
Definition seg (start len : Z) (l : list Z) : list Z := zfirstn len (zskipn start l).
(* [first; first+1; ...] with n elements *)
Definition zrange_from (first : Z) (n : Z) : list Z := map (fun i => first + Z.of_nat i) (seq 0 (Z.to_nat n)).
Definition zrange (n : Z) : list Z := zrange_from 0 n.

Fixpoint list_eqb (a b : list Z) : bool :=
  match a, b with
  | [], [] => true
  | x :: a', y :: b' => (x =? y) && list_eqb a' b'
  | _, _ => false
  end.

(* ---- the std::shuffle oracle ---------------------------------------------------------------------- *)
(* p is a permutation of 0..n-1 *)
Definition perm_okb (p : list Z) (n : nat) : bool := list_eqb (sort p) (zrange (Z.of_nat n)).
Definition apply_perm (p : list Z) (l : list Z) : list Z := map (fun i => nth (Z.to_nat i) l 0) p.
(* oracle seed call = the position permutation std::shuffle applied at this call (result[i] = input[p[i]]);
   an answer that is not a permutation is ignored (identity), so the contract holds for every oracle *)
Definition shuffle_by (oracle : Z -> nat -> list Z) (seed : Z) (call : nat) (l : list Z) : list Z :=
  let p := oracle seed call in
  if perm_okb p (length l) then apply_perm p l else l.

(* ---- k-fold ------------------------------------------------------------------------------------------ *)
Record kgeom := {
  kg_chunk : Z; kg_vb : Z; kg_ve : Z; kg_vsize : Z; kg_tsize : Z;
  kg_valid_src : Z * Z;                      (* (start, len) of world.segment on the right-hand side *)
  kg_head_dst : Z * Z; kg_head_src : Z * Z;
  kg_tail_dst : Z * Z; kg_tail_src : Z * Z }.

Definition kfold_geom (size folds fold : Z) : kgeom :=
  let chunk := src_kfold_chunk size folds in
  let vb := src_kfold_valid_begin size folds fold chunk in
  let ve := src_kfold_valid_end size folds fold chunk vb in
  let vs := src_kfold_valid_size size folds fold chunk vb ve in
  let ts := src_kfold_train_size size folds fold chunk vb ve vs in
  {| kg_chunk := chunk; kg_vb := vb; kg_ve := ve; kg_vsize := vs; kg_tsize := ts;
     kg_valid_src := (src_kfold_valid_src_start size folds fold chunk vb ve vs ts,
                      src_kfold_valid_src_len size folds fold chunk vb ve vs ts);
     kg_head_dst := (src_kfold_head_dst_start size folds fold chunk vb ve vs ts,
                     src_kfold_head_dst_len size folds fold chunk vb ve vs ts);
     kg_head_src := (src_kfold_head_src_start size folds fold chunk vb ve vs ts,
                     src_kfold_head_src_len size folds fold chunk vb ve vs ts);
     kg_tail_dst := (src_kfold_tail_dst_start size folds fold chunk vb ve vs ts,
                     src_kfold_tail_dst_len size folds fold chunk vb ve vs ts);
     kg_tail_src := (src_kfold_tail_src_start size folds fold chunk vb ve vs ts,
                     src_kfold_tail_src_len size folds fold chunk vb ve vs ts) |}.

(* a source segment lies inside the vector (Eigen asserts this only in debug builds) *)
Definition in_bounds (size : Z) (s : Z * Z) : bool := (0 <=? fst s) && (0 <=? snd s) && (fst s + snd s <=? size).

(* the three copy statements are size-consistent, stay in bounds, and the two destination segments of
   `train` tile it exactly in order: only then is "train = head ++ tail" what the code computes *)
Definition kfold_layoutb (size folds fold : Z) : bool :=
  let g := kfold_geom size folds fold in
  (0 <=? kg_vsize g) && (0 <=? kg_tsize g) &&
  in_bounds size (kg_valid_src g) && (snd (kg_valid_src g) =? kg_vsize g) &&
  in_bounds size (kg_head_src g) && in_bounds size (kg_tail_src g) &&
  (fst (kg_head_dst g) =? 0) && (snd (kg_head_dst g) =? snd (kg_head_src g)) &&
  (fst (kg_tail_dst g) =? snd (kg_head_dst g)) && (snd (kg_tail_dst g) =? snd (kg_tail_src g)) &&
  (snd (kg_head_dst g) + snd (kg_tail_dst g) =? kg_tsize g).

Definition kfold_one (w : list Z) (folds fold : Z) : list Z * list Z :=
  let g := kfold_geom (zlen w) folds fold in
  let valid := seg (fst (kg_valid_src g)) (snd (kg_valid_src g)) w in
  let train := seg (fst (kg_head_src g)) (snd (kg_head_src g)) w ++
               seg (fst (kg_tail_src g)) (snd (kg_tail_src g)) w in
  (sort train, sort valid).

Section Splitters.
  Variable shuffle : Z -> nat -> list Z -> list Z.

  Definition kfold (seed folds : Z) (l : list Z) : list (list Z * list Z) :=
    let w := shuffle seed 0%nat l in
    map (kfold_one w folds) (zrange_from (src_kfold_loop_first (zlen w) folds) folds).

  (* ---- repeated random sub-sampling: one generator, the vector is re-shuffled in place per fold ---- *)
  Definition random_one (cur : list Z) (size folds fold perc : Z) : list Z * list Z :=
    let ts := src_random_train_size size folds fold perc in
    let vs := src_random_valid_size size folds fold perc ts in
    (sort (seg (src_random_train_src_start size folds fold perc ts vs) (src_random_train_src_len size folds fold perc ts vs) cur),
     sort (seg (src_random_valid_src_start size folds fold perc ts vs) (src_random_valid_src_len size folds fold perc ts vs) cur)).

  Fixpoint random_loop (seed : Z) (call : nat) (todo : nat) (cur : list Z) (size folds perc : Z)
    : list (list Z * list Z) :=
    match todo with
    | O => []
    | S m =>
        let cur' := shuffle seed call cur in
        random_one cur' size folds (Z.of_nat call) perc :: random_loop seed (S call) m cur' size folds perc
    end.

  Definition random_split (seed folds perc : Z) (l : list Z) : list (list Z * list Z) :=
    random_loop seed 0%nat (Z.to_nat folds) l (zlen l) folds perc.

  (* ---- sample_without_replacement: shuffle a copy, keep slice(0, count), sort ---- *)
  Definition sample_without (seed : Z) (call : nat) (count : Z) (l : list Z) : list Z :=
    let w := shuffle seed call l in
    let b := src_sample_swor_begin (zlen l) count in
    let e := src_sample_swor_end (zlen l) count in
    sort (seg b (e - b) w).
End Splitters.

(* the random splitter's copies are size-consistent and in bounds *)
Definition random_layoutb (size folds fold perc : Z) : bool :=
  let ts := src_random_train_size size folds fold perc in
  let vs := src_random_valid_size size folds fold perc ts in
  let t := (src_random_train_src_start size folds fold perc ts vs, src_random_train_src_len size folds fold perc ts vs) in
  let v := (src_random_valid_src_start size folds fold perc ts vs, src_random_valid_src_len size folds fold perc ts vs) in
  in_bounds size t && in_bounds size v &&
  (snd t =? src_random_train_alloc size folds fold perc ts vs) &&
  (snd v =? src_random_valid_alloc size folds fold perc ts vs).

(* ---- sampling with replacement: `count` draws of a position, then sort ------------------------------- *)
(* uniform: the draws come from make_udist(lo, hi); contract: lo <= pick <= hi *)
Definition picks_in_rangeb (size count : Z) (picks : list Z) : bool :=
  forallb (fun i => (src_sample_udist_lo size count <=? i) && (i <=? src_sample_udist_hi size count)) picks.

Definition sample_with (picks : list Z) (l : list Z) : list Z :=
  sort (map (fun i => nth (Z.to_nat i) l 0) picks).

(* weighted: std::discrete_distribution(weights); contract: 0 <= pick < size and weight(pick) > 0;
   `wpos` = "the weight at this position is > 0" *)
Definition picks_weightedb (wpos : list bool) (picks : list Z) : bool :=
  forallb (fun i => (0 <=? i) && (i <? Z.of_nat (length wpos)) && nth (Z.to_nat i) wpos false) picks.

(* ---- verified checkers applied to what the implementation returned ---------------------------------- *)
Fixpoint sortedb (l : list Z) : bool :=
  match l with
  | [] => true
  | x :: r => match r with [] => true | y :: _ => (x <=? y) && sortedb r end
  end.

Fixpoint strictb (l : list Z) : bool :=
  match l with
  | [] => true
  | x :: r => match r with [] => true | y :: _ => (x <? y) && strictb r end
  end.

(* (train, valid) is a sorted split of l into two disjoint parts (for duplicate-free l) *)
Definition split_okb (l tr va : list Z) : bool :=
  sortedb tr && sortedb va && list_eqb (merge tr va) (sort l) && strictb (merge tr va).

(* every element of s occurs in u *)
Definition membersb (s u : list Z) : bool := forallb (fun x => existsb (Z.eqb x) u) s.
