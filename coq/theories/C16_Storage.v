(* C16 -- proofs about the storage conversions of C16_StorageDefs (owning / mapping / constant-mapping storages convert
   without changing contents; an owning tensor assigned from a view of its OWN buffer still gets the viewed elements). *)
From Coq Require Import List ZArith Bool Lia.
From LN Require Import C16_Defs C16_StorageDefs.
Import ListNotations.
Local Open Scope Z_scope.

(* ---------- list facts ---------- *)
Lemma list_eq_nth_error {A} (l1 l2 : list A) : (forall i, nth_error l1 i = nth_error l2 i) -> l1 = l2.
Proof.
  revert l2. induction l1 as [|a l1 IH]; intros [|b l2] H.
  - reflexivity.
  - specialize (H O). discriminate.
  - specialize (H O). discriminate.
  - f_equal.
    + specialize (H O). cbn in H. congruence.
    + apply IH. intro i. exact (H (S i)).
Qed.

Lemma nth_error_skipn {A} (l : list A) : forall o i, nth_error (skipn o l) i = nth_error l (o + i).
Proof. induction l as [|a l IH]; intros [|o] i; cbn; try reflexivity; [destruct i; reflexivity | apply IH]. Qed.

Lemma nth_error_firstn {A} (l : list A) : forall n i, nth_error (firstn n l) i = if Nat.ltb i n then nth_error l i else None.
Proof.
  induction l as [|a l IH]; intros n i.
  - rewrite firstn_nil. destruct i; cbn [nth_error]; destruct (Nat.ltb _ n); reflexivity.
  - destruct n as [|n], i as [|i]; cbn [firstn nth_error]; try reflexivity.
    rewrite IH. reflexivity.
Qed.

Lemma nth_error_app {A} (l1 l2 : list A) i :
  nth_error (l1 ++ l2) i = if Nat.ltb i (length l1) then nth_error l1 i else nth_error l2 (i - length l1).
Proof.
  destruct (Nat.ltb_spec i (length l1)) as [H|H]; [apply nth_error_app1; exact H | apply nth_error_app2; exact H].
Qed.

Lemma set_nth_length {A} (l : list A) : forall n v, length (set_nth n v l) = length l.
Proof. induction l as [|a l IH]; intros [|n] v; cbn; try reflexivity. now rewrite IH. Qed.

Lemma nth_error_set_nth {A} (l : list A) : forall n v i,
  nth_error (set_nth n v l) i = if Nat.eqb i n then (if Nat.ltb n (length l) then Some v else None) else nth_error l i.
Proof.
  induction l as [|a l IH]; intros [|n] v [|i]; cbn; try reflexivity.
  - destruct (Nat.eqb i n); reflexivity.
  - rewrite IH. reflexivity.
Qed.

(* ---------- slices ---------- *)
Lemma nth_error_slice (l : list Z) o n i : 0 <= o -> 0 <= n ->
  nth_error (slice_list l o n) i = if Nat.ltb i (Z.to_nat n) then nth_error l (Z.to_nat o + i) else None.
Proof. intros _ _. unfold slice_list. rewrite nth_error_firstn, nth_error_skipn. reflexivity. Qed.

Lemma slice_length (l : list Z) o n : 0 <= o -> 0 <= n -> o + n <= Z.of_nat (length l) ->
  length (slice_list l o n) = Z.to_nat n.
Proof. intros Ho Hn Hb. unfold slice_list. rewrite firstn_length, skipn_length. lia. Qed.

Lemma nth_error_splice (b d : list Z) o i : 0 <= o -> o + Z.of_nat (length d) <= Z.of_nat (length b) ->
  nth_error (splice b o d) i =
  if Nat.ltb i (Z.to_nat o) then nth_error b i
  else if Nat.ltb i (Z.to_nat o + length d) then nth_error d (i - Z.to_nat o) else nth_error b i.
Proof.
  intros Ho Hb. unfold splice. rewrite nth_error_app, firstn_length, Nat.min_l by lia.
  destruct (Nat.ltb_spec i (Z.to_nat o)) as [H1|H1].
  - rewrite nth_error_firstn. destruct (Nat.ltb_spec i (Z.to_nat o)); [reflexivity|lia].
  - rewrite nth_error_app. destruct (Nat.ltb_spec (i - Z.to_nat o) (length d)) as [H2|H2].
    + destruct (Nat.ltb_spec i (Z.to_nat o + length d)); [reflexivity|lia].
    + destruct (Nat.ltb_spec i (Z.to_nat o + length d)); [lia|]. rewrite nth_error_skipn. f_equal. lia.
Qed.

Lemma splice_length (b d : list Z) o : 0 <= o -> o + Z.of_nat (length d) <= Z.of_nat (length b) -> length (splice b o d) = length b.
Proof. intros Ho Hb. unfold splice. rewrite !app_length, firstn_length, skipn_length. lia. Qed.

(* ---------- hread ---------- *)
Lemma hread_spec h s d : hread h s = Some d ->
  exists b, nth_error h (s_buf s) = Some (Some b) /\ 0 <= s_off s /\ 0 <= size (s_dims s) /\
            s_off s + size (s_dims s) <= Z.of_nat (length b) /\ d = slice_list b (s_off s) (size (s_dims s)).
Proof.
  unfold hread. destruct (nth_error h (s_buf s)) as [[b|]|] eqn:E; try discriminate.
  destruct ((0 <=? s_off s) && (0 <=? size (s_dims s)) && (s_off s + size (s_dims s) <=? Z.of_nat (length b))) eqn:C; [|discriminate].
  intros H. injection H as <-. apply andb_true_iff in C. destruct C as [C C3]. apply andb_true_iff in C. destruct C as [C1 C2].
  exists b. repeat split; try reflexivity; lia.
Qed.

Lemma hread_length h s d : hread h s = Some d -> Z.of_nat (length d) = size (s_dims s).
Proof. intros H. destruct (hread_spec h s d H) as (b & _ & H1 & H2 & H3 & ->). rewrite slice_length by lia. lia. Qed.

Lemma hread_fresh (l : heap) d (dm : dims) : Z.of_nat (length d) = size dm ->
  hread (l ++ [Some d]) (mkSto KOwn (length l) 0 dm) = Some d.
Proof.
  intros Hs. unfold hread; cbn [s_buf s_off s_dims]. rewrite nth_error_app2, Nat.sub_diag by lia. cbn [nth_error].
  assert (C : (0 <=? 0) && (0 <=? size dm) && (0 + size dm <=? Z.of_nat (length d)) = true).
  { rewrite !andb_true_iff. repeat split; lia. }
  rewrite C. f_equal. unfold slice_list. cbn [Z.to_nat skipn]. rewrite <- Hs, Nat2Z.id. apply firstn_all.
Qed.

(* a storage whose buffer is not the one that was freed / replaced, and that already existed, reads the same *)
Lemma hread_frame h n v x s : (s_buf s < length h)%nat -> s_buf s <> n ->
  hread (set_nth n v h ++ x) s = hread h s.
Proof.
  intros Hl Hn. unfold hread. rewrite nth_error_app1 by (rewrite set_nth_length; exact Hl).
  rewrite nth_error_set_nth. destruct (Nat.eqb_spec (s_buf s) n); [contradiction|reflexivity].
Qed.

Lemma hread_extend h x s : (s_buf s < length h)%nat -> hread (h ++ x) s = hread h s.
Proof. intros Hl. unfold hread. rewrite nth_error_app1 by exact Hl. reflexivity. Qed.

(* ---------- the conversions ---------- *)
(* constructor tensor(view): a fresh buffer with the viewed elements, same dims; nothing else changes *)
Lemma own_of_copies h src d : hread h src = Some d ->
  exists h' t, own_of h src = Some (h', t) /\ hread h' t = Some d /\ s_dims t = s_dims src /\ s_kind t = KOwn /\
               s_buf t <> s_buf src /\ (forall s, (s_buf s < length h)%nat -> hread h' s = hread h s).
Proof.
  intros H. unfold own_of. rewrite H. eexists _, _. split; [reflexivity|]. repeat split.
  - apply hread_fresh. apply (hread_length h src d H).
  - cbn. destruct (hread_spec h src d H) as (b & E & _). assert (s_buf src < length h)%nat by (apply nth_error_Some; congruence). lia.
  - intros s Hs. apply hread_extend. exact Hs.
Qed.

(* operator=: owning tensor := view -- ALSO when the view points into the destination's own buffer (any offset, any size):
   the destination ends up with exactly the elements the view showed before the assignment, with the view's dims; every
   storage over another buffer is untouched *)
Lemma own_assign_copies h dst src d : hread h src = Some d ->
  exists h' t, own_assign h dst src = Some (h', t) /\ hread h' t = Some d /\ s_dims t = s_dims src /\ s_kind t = KOwn /\
               (forall s, (s_buf s < length h)%nat -> s_buf s <> s_buf dst -> hread h' s = hread h s).
Proof.
  intros H. unfold own_assign. rewrite H. eexists _, _. split; [reflexivity|]. repeat split.
  - rewrite <- (set_nth_length h (s_buf dst) None). apply hread_fresh. apply (hread_length h src d H).
  - intros s Hs Hn. apply hread_frame; assumption.
Qed.

(* the old buffer of the destination is gone afterwards: a view into it dangles (reads None) *)
Lemma own_assign_frees h dst src h' t s : own_assign h dst src = Some (h', t) ->
  (s_buf dst < length h)%nat -> s_buf s = s_buf dst -> hread h' s = None.
Proof.
  unfold own_assign. destruct (hread h src) as [d|]; [|discriminate]. intros E Hl Hs. injection E as <- _.
  unfold hread. rewrite nth_error_app1 by (rewrite set_nth_length; lia). rewrite nth_error_set_nth, Hs, Nat.eqb_refl.
  destruct (Nat.ltb_spec (s_buf dst) (length h)); [reflexivity|lia].
Qed.

(* views alias: same elements in every heap *)
Lemma map_of_reads h k s : hread h (map_of k s) = hread h s.
Proof. reflexivity. Qed.

(* mutable view := any storage of the same size, not overlapping it: the view's range now holds the source's elements, the
   source is unchanged, and so is every storage that does not overlap the destination range *)
Lemma map_assign_copies h dst src d old : hread h src = Some d -> hread h dst = Some old -> length d = length old ->
  exists h', map_assign h dst src = Some h' /\ hread h' dst = Some d /\
             (forall s, disjointb dst s = true -> hread h' s = hread h s).
Proof.
  intros Hs Hd Hl. unfold map_assign. rewrite Hs, Hd.
  destruct (hread_spec h dst old Hd) as (b & Eb & O1 & O2 & O3 & Eo). rewrite Eb.
  assert (Hl' : Nat.eqb (length d) (length old) = true) by (apply Nat.eqb_eq; exact Hl). rewrite Hl'.
  assert (Ld : Z.of_nat (length d) = size (s_dims dst)) by (rewrite Hl; apply (hread_length h dst old Hd)).
  assert (Hb : (s_buf dst < length h)%nat) by (apply nth_error_Some; congruence).
  eexists. split; [reflexivity|]. split.
  - unfold hread. rewrite nth_error_set_nth, Nat.eqb_refl. destruct (Nat.ltb_spec (s_buf dst) (length h)); [|lia].
    rewrite splice_length by lia.
    assert (C : (0 <=? s_off dst) && (0 <=? size (s_dims dst)) && (s_off dst + size (s_dims dst) <=? Z.of_nat (length b)) = true).
    { rewrite !andb_true_iff. repeat split; lia. }
    rewrite C. f_equal. apply list_eq_nth_error. intro i. rewrite nth_error_slice by lia. rewrite nth_error_splice by lia.
    destruct (Nat.ltb_spec i (Z.to_nat (size (s_dims dst)))) as [Hi|Hi].
    + destruct (Nat.ltb_spec (Z.to_nat (s_off dst) + i) (Z.to_nat (s_off dst))); [lia|].
      destruct (Nat.ltb_spec (Z.to_nat (s_off dst) + i) (Z.to_nat (s_off dst) + length d)); [|lia]. f_equal. lia.
    + symmetry. apply nth_error_None. lia.
  - intros s Dj. unfold hread. rewrite nth_error_set_nth.
    destruct (Nat.eqb_spec (s_buf s) (s_buf dst)) as [E|E]; [|reflexivity].
    destruct (Nat.ltb_spec (s_buf dst) (length h)); [|lia]. rewrite E, Eb. rewrite splice_length by lia.
    destruct ((0 <=? s_off s) && (0 <=? size (s_dims s)) && (s_off s + size (s_dims s) <=? Z.of_nat (length b))) eqn:C; [|reflexivity].
    apply andb_true_iff in C. destruct C as [C C3]. apply andb_true_iff in C. destruct C as [C1 C2].
    apply Z.leb_le in C1, C2, C3.
    f_equal. apply list_eq_nth_error. intro i. rewrite !nth_error_slice by lia. rewrite nth_error_splice by lia.
    destruct (Nat.ltb_spec i (Z.to_nat (size (s_dims s)))) as [Hi|Hi]; [|reflexivity].
    unfold disjointb in Dj. rewrite E, Nat.eqb_refl in Dj. cbn [negb orb] in Dj. apply orb_true_iff in Dj.
    destruct Dj as [Dj|Dj]; apply Z.leb_le in Dj.
    + (* the destination range ends before s starts *)
      destruct (Nat.ltb_spec (Z.to_nat (s_off s) + i) (Z.to_nat (s_off dst))); [reflexivity|].
      destruct (Nat.ltb_spec (Z.to_nat (s_off s) + i) (Z.to_nat (s_off dst) + length d)); [lia|reflexivity].
    + (* s ends before the destination range starts *)
      destruct (Nat.ltb_spec (Z.to_nat (s_off s) + i) (Z.to_nat (s_off dst))); [reflexivity|lia].
Qed.

(* ---------- the resize-first variant is wrong exactly in the aliasing case ---------- *)
(* owner of [10;11;12;13;14;15] (dims [3;2]); x = const slice [1,3) of it (dims [2;2], offset 2); owner := x *)
Definition ex_heap : heap := [Some [10; 11; 12; 13; 14; 15]].
Definition ex_owner : sto := mkSto KOwn 0 0 [3; 2].
Definition ex_view : sto := slice_of KCMap ex_owner 1 3.

Lemma resize_first_loses_aliased_source :
  hread ex_heap ex_view = Some [12; 13; 14; 15] /\
  (exists h' t, own_assign ex_heap ex_owner ex_view = Some (h', t) /\ hread h' t = Some [12; 13; 14; 15] /\ s_dims t = [2; 2]) /\
  own_assign_resize_first ex_heap ex_owner ex_view = None.
Proof. vm_compute. split; [reflexivity|]. split; [|reflexivity]. eexists _, _. repeat split. Qed.

(* ... and harmless when the source lives in another buffer: both variants agree *)
Lemma resize_first_same_when_not_aliased h dst src : s_buf src <> s_buf dst -> (s_buf src < length h)%nat ->
  own_assign_resize_first h dst src = own_assign h dst src.
Proof.
  intros Hn Hl. unfold own_assign_resize_first, own_assign.
  replace (hread (set_nth (s_buf dst) None h) src) with (hread h src); [reflexivity|].
  rewrite <- (app_nil_r (set_nth (s_buf dst) None h)). symmetry. apply hread_frame; assumption.
Qed.
