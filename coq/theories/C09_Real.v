(* C09 (extension) -- proofs about the real-valued model of C09_Real_Defs.v *)
From Coq Require Import List ZArith QArith Reals Bool Lia Lra Psatz Permutation Morphisms.
From Coquelicot Require Import Coquelicot.
From LNGen Require Import Src_parallel Src_c09.
From LN Require Import C17_Defs C17_Statements C09_Defs C09_Proofs C06_Defs C06_Proofs C06_Deriv C09_Real_Defs.
Import ListNotations.
Local Open Scope R_scope.

(* ================================================================================================== *)
(* 1. schedule independence over (R, +)                                                                 *)
(* ================================================================================================== *)
Lemma rsum_cons a l : rsum (a :: l) = a + rsum l.
Proof. reflexivity. Qed.

Lemma range_sum_rsum (f : Z -> R) k : forall b, range_sum Rplus 0 f b k = rsum (map f (zrange b k)).
Proof. induction k as [|k IH]; intro b; [reflexivity|]. cbn [range_sum zrange map]. now rewrite rsum_cons, IH. Qed.

Theorem rreduced_mean_naive (f : Z -> R) workers n batch sched :
  (1 <= workers)%nat -> (1 <= batch)%Z -> (0 <= n)%Z -> valid_schedule workers n batch sched ->
  rreduced_mean f workers sched n = rnaive_mean f n.
Proof.
  intros Hw Hb Hn Hs. unfold rreduced_mean, rnaive_mean, src_c09_reduce_divisor.
  rewrite (map_reduce_schedule_independent (@eq R) Rplus 0 eq_equivalence _ Rplus_comm Rplus_assoc Rplus_0_l f
             workers n batch sched Hw Hb Hn Hs).
  now rewrite range_sum_rsum.
Qed.

(* ================================================================================================== *)
(* 2. helpers on lists / sums                                                                            *)
(* ================================================================================================== *)
Lemma zrange_In k : forall b i, In i (zrange b k) -> (b <= i < b + Z.of_nat k)%Z.
Proof.
  induction k as [|k IH]; intros b i H; cbn in H; [contradiction|].
  destruct H as [<-|H]; [lia|]. apply IH in H. lia.
Qed.

Lemma rsum_ext_in (f g : Z -> R) l : (forall i, In i l -> f i = g i) -> rsum (map f l) = rsum (map g l).
Proof.
  induction l as [|a l IH]; intro H; [reflexivity|]. cbn [map]. rewrite !rsum_cons.
  rewrite (H a (or_introl eq_refl)), IH; [reflexivity|]. intros i Hi. apply H. now right.
Qed.

Lemma rnaive_mean_ext f g n : (forall i, (0 <= i < n)%Z -> f i = g i) -> rnaive_mean f n = rnaive_mean g n.
Proof.
  intro H. unfold rnaive_mean. f_equal. apply rsum_ext_in. intros i Hi. apply zrange_In in Hi. apply H. lia.
Qed.

Lemma rsum_is_derive (F : R -> Z -> R) (F' : Z -> R) x0 l :
  (forall i, In i l -> is_derive (fun s => F s i) x0 (F' i)) ->
  is_derive (fun s => rsum (map (F s) l)) x0 (rsum (map F' l)).
Proof.
  induction l as [|a l IH]; intro H; cbn [map].
  - apply @is_derive_const.
  - apply (is_derive_ext (fun s => plus (F s a) (rsum (map (F s) l)))); [reflexivity|]. rewrite rsum_cons.
    apply (is_derive_plus (fun s => F s a) (fun s => rsum (map (F s) l))).
    + apply H. now left.
    + apply IH. intros i Hi. apply H. now right.
Qed.

Lemma rnaive_mean_is_derive (F : R -> Z -> R) (F' : Z -> R) x0 n :
  (forall i, (0 <= i < n)%Z -> is_derive (fun s => F s i) x0 (F' i)) ->
  is_derive (fun s => rnaive_mean (F s) n) x0 (rnaive_mean F' n).
Proof.
  intro H. unfold rnaive_mean.
  apply (is_derive_ext (fun s => scal (/ IZR n) (rsum (map (F s) (zrange 0 (Z.to_nat n)))))).
  - intro s. unfold scal; cbn; unfold mult; cbn. unfold Rdiv. ring.
  - replace (rsum (map F' (zrange 0 (Z.to_nat n))) / IZR n) with (scal (/ IZR n) (rsum (map F' (zrange 0 (Z.to_nat n)))))
      by (unfold scal; cbn; unfold mult; cbn; unfold Rdiv; ring).
    apply @is_derive_scal. apply rsum_is_derive. intros i Hi. apply zrange_In in Hi. apply H. lia.
Qed.

Lemma rsum_le (f g : Z -> R) l : (forall i, In i l -> f i <= g i) -> rsum (map f l) <= rsum (map g l).
Proof.
  induction l as [|a l IH]; intro H; [cbn; lra|]. cbn [map]. rewrite !rsum_cons.
  assert (f a <= g a) by (apply H; now left). assert (rsum (map f l) <= rsum (map g l)) by (apply IH; intros; apply H; now right).
  lra.
Qed.

Lemma rsum_plus (f g : Z -> R) l : rsum (map (fun i => f i + g i) l) = rsum (map f l) + rsum (map g l).
Proof. induction l as [|a l IH]; [cbn; lra|]. cbn [map]. rewrite !rsum_cons, IH. lra. Qed.

Lemma rnaive_mean_le f g n : (0 < n)%Z -> (forall i, (0 <= i < n)%Z -> f i <= g i) -> rnaive_mean f n <= rnaive_mean g n.
Proof.
  intros Hn H. unfold rnaive_mean. apply Rmult_le_compat_r.
  - left. apply Rinv_0_lt_compat. now apply IZR_lt.
  - apply rsum_le. intros i Hi. apply zrange_In in Hi. apply H. lia.
Qed.

Lemma rnaive_mean_plus f g n : rnaive_mean (fun i => f i + g i) n = rnaive_mean f n + rnaive_mean g n.
Proof. unfold rnaive_mean. rewrite rsum_plus. unfold Rdiv. ring. Qed.

(* ---- vectors ---- *)
Lemma rvadd_length : forall x y : list R, length x = length y -> length (Rvadd x y) = length x.
Proof. induction x as [|a x IH]; intros [|b y] H; cbn in *; try discriminate; [reflexivity|]. f_equal. apply IH. lia. Qed.
Lemma rvscale_length : forall s (x : list R), length (Rvscale s x) = length x.
Proof. intros. unfold C06_Defs.vscale. apply map_length. Qed.

Lemma nth_rvadd_rvscale : forall (x d : list R) s k, length x = length d ->
  nth k (Rvadd x (Rvscale s d)) 0 = nth k x 0 + s * nth k d 0.
Proof.
  induction x as [|a x IH]; intros [|b d] s k H; cbn in *; try discriminate.
  - destruct k; lra.
  - destruct k; cbn; [reflexivity|]. apply IH. lia.
Qed.

Lemma dot_seq_unit : forall (g : list R) a c,
  Rdot g (map (fun k => if Nat.eqb k c then 1 else 0) (seq a (length g))) =
  if Nat.leb a c then nth (c - a) g 0 else 0.
Proof.
  induction g as [|u g IH]; intros a c.
  - cbn. destruct (Nat.leb a c); [destruct (c - a)%nat|]; reflexivity.
  - cbn [length seq map]. rewrite dot_cons, IH.
    destruct (Nat.eqb a c) eqn:E.
    + apply Nat.eqb_eq in E. subst. rewrite Nat.leb_refl, Nat.sub_diag.
      replace (Nat.leb (S c) c) with false by (symmetry; apply Nat.leb_gt; lia). cbn. lra.
    + apply Nat.eqb_neq in E. destruct (Nat.leb a c) eqn:L.
      * apply Nat.leb_le in L. replace (Nat.leb (S a) c) with true by (symmetry; apply Nat.leb_le; lia).
        replace (c - a)%nat with (S (c - S a)) by lia. cbn. lra.
      * apply Nat.leb_gt in L. replace (Nat.leb (S a) c) with false by (symmetry; apply Nat.leb_gt; lia). lra.
Qed.

Lemma dot_runit : forall (g : list R) n c, length g = n -> Rdot g (runit n c) = nth c g 0.
Proof. intros g n c <-. unfold runit. rewrite dot_seq_unit. cbn. now rewrite Nat.sub_0_r. Qed.

Lemma dot_rzeros : forall (g : list R) n, Rdot g (rzeros n) = 0.
Proof.
  induction g as [|u g IH]; intros [|n]; cbn; try reflexivity.
  change (Rdot (u :: g) (0 :: rzeros n) = 0). rewrite dot_cons, IH. lra.
Qed.

Lemma runit_length n c : length (runit n c) = n.
Proof. unfold runit. now rewrite map_length, seq_length. Qed.
Lemma rzeros_length n : length (rzeros n) = n.
Proof. apply repeat_length. Qed.

(* ================================================================================================== *)
(* 3. the losses: derivative / sub-gradient of every registered kernel                                   *)
(* ================================================================================================== *)
(* along every direction of the output space the loss has the derivative <gradient, direction> *)
Definition loss_deriv (lval : list R -> list R -> R) (lgrad : list R -> list R -> list R) : Prop :=
  forall t o d, length t = length o -> length d = length o ->
  is_derive (fun s => lval t (Rvadd o (Rvscale s d))) 0 (Rdot (lgrad t o) d).
(* the gradient is a sub-gradient (convex losses, including their kinks) *)
Definition loss_subgradient (lval : list R -> list R -> R) (lgrad : list R -> list R -> list R) : Prop :=
  forall t o o', length o' = length o -> lval t o' >= lval t o + Rdot (lgrad t o) (Rvsub o' o).

(* ---- class-NLL ---- *)
Lemma sumexp_pos m o : o <> [] -> 0 < sumexp m o.
Proof.
  destruct o as [|v o]; [congruence|]. intros _. unfold sumexp. cbn.
  assert (H : forall l, 0 <= fold_right (fun v acc => exp (v - m) + acc) 0 l).
  { induction l as [|a l IH]; cbn; [lra|]. generalize (exp_pos (a - m)). lra. }
  generalize (exp_pos (v - m)) (H o). lra.
Qed.
Lemma sumexp_nonneg m o : 0 <= sumexp m o.
Proof. induction o as [|a l IH]; cbn; [lra|]. unfold sumexp in IH. generalize (exp_pos (a - m)). lra. Qed.

Lemma sumexp_shift m o : sumexp m o = exp (- m) * sumexp 0 o.
Proof.
  induction o as [|v o IH]; cbn; [ring|]. unfold sumexp in *. rewrite IH.
  replace (v - m) with ((v - 0) + - m) by ring. rewrite exp_plus. ring.
Qed.

Lemma listmax_ge o : forall v, In v o -> v <= listmax o.
Proof.
  destruct o as [|a o]; [contradiction|]. unfold listmax.
  induction o as [|b o IH]; intros v Hv; cbn in *.
  - destruct Hv as [<-|[]]. lra.
  - destruct Hv as [<-|[<-|Hv]].
    + apply Rle_trans with (fold_right Rmax a o); [apply IH; now left | apply Rmax_r].
    + apply Rmax_l.
    + apply Rle_trans with (fold_right Rmax a o); [apply IH; now right | apply Rmax_r].
Qed.
Lemma listmax_in o : o <> [] -> In (listmax o) o.
Proof.
  destruct o as [|a o]; [congruence|]. intros _. unfold listmax.
  induction o as [|b o IH]; cbn; [now left|].
  destruct (Rle_dec b (fold_right Rmax a o)).
  - rewrite Rmax_right by lra. destruct IH as [H|H]; [left; exact H | right; right; exact H].
  - rewrite Rmax_left by lra. right. now left.
Qed.
Lemma sumexp_ge_term m o : forall v, In v o -> exp (v - m) <= sumexp m o.
Proof.
  induction o as [|a o IH]; intros v Hv; [contradiction|]. cbn. fold (sumexp m o).
  destruct Hv as [<-|Hv]; [generalize (sumexp_nonneg m o); lra | generalize (IH v Hv) (exp_pos (a - m)); lra].
Qed.

(* the epsilon inside the logarithm moves the value by at most epsilon: the shifted sum is >= 1 *)
Theorem classnll_code_close eps t o : 0 <= eps -> o <> [] ->
  0 <= classnll_code eps t o - classnll_ideal t o <= eps.
Proof.
  intros He Ho. unfold classnll_code, classnll_ideal. set (m := listmax o).
  assert (S1 : 1 <= sumexp m o).
  { generalize (sumexp_ge_term m o m (listmax_in o Ho)). replace (m - m) with 0 by ring. rewrite exp_0. lra. }
  assert (Sp : 0 < sumexp 0 o) by (apply sumexp_pos; exact Ho).
  assert (E : ln (sumexp 0 o) = ln (sumexp m o) + m).
  { rewrite (sumexp_shift m o). rewrite ln_mult by (auto using exp_pos). rewrite ln_exp. ring. }
  rewrite E.
  assert (L0 : ln (sumexp m o) <= ln (eps + sumexp m o)).
  { destruct (Req_dec eps 0) as [->|Hne]; [rewrite Rplus_0_l; lra|]. left. apply ln_increasing; lra. }
  assert (L1 : ln (eps + sumexp m o) <= ln (sumexp m o) + eps).
  { replace (eps + sumexp m o) with (sumexp m o * (1 + eps / sumexp m o)) by (field; lra).
    assert (Q : 0 <= eps / sumexp m o <= eps).
    { split; [apply Rdiv_le_0_compat; lra|]. apply Rle_div_l; [lra|]. nra. }
    rewrite ln_mult by lra.
    assert (ln (1 + eps / sumexp m o) <= eps / sumexp m o).
    { generalize (exp_ineq1_le (eps / sumexp m o)). intro X.
      destruct (Req_dec (eps / sumexp m o) 0) as [->|N]; [rewrite Rplus_0_r, ln_1; lra|].
      apply Rle_trans with (ln (exp (eps / sumexp m o))); [|rewrite ln_exp; lra].
      destruct (Rle_lt_or_eq_dec _ _ X) as [Y|Y]; [left; apply ln_increasing; lra | rewrite Y; lra]. }
    lra. }
  lra.
Qed.

Theorem classnll_code_close52 t o : o <> [] -> 0 <= rl_value RClassnll t o - rl_ideal RClassnll t o <= eps52.
Proof. intro Ho. apply classnll_code_close; [unfold eps52; lra | exact Ho]. Qed.

(* d/ds ln sum_i exp(o_i + s d_i) - posum(t, o + s d) at 0 *)
Lemma sumexp0_is_derive : forall o d, length d = length o ->
  is_derive (fun s => sumexp 0 (Rvadd o (Rvscale s d))) 0 (Rdot (map (fun v => exp (v - 0)) o) d).
Proof.
  induction o as [|v o IH]; intros [|e d] H; cbn in H; try discriminate.
  - cbn. apply @is_derive_const.
  - injection H as H. specialize (IH d H).
    change (map (fun v0 => exp (v0 - 0)) (v :: o)) with (exp (v - 0) :: map (fun v0 => exp (v0 - 0)) o).
    rewrite dot_cons.
    apply (is_derive_ext (fun s => plus (exp (v + s * e - 0)) (sumexp 0 (Rvadd o (Rvscale s d))))); [reflexivity|].
    apply @is_derive_plus; [|exact IH]. auto_derive; auto.
    replace (v + 0 * e + - 0) with (v - 0) by ring. ring.
Qed.
Lemma posum_is_derive : forall t o d, length d = length o ->
  is_derive (fun s => posum t (Rvadd o (Rvscale s d))) 0
            (Rdot (C09_Defs.map2 (fun a (_ : R) => if Rltb 0 a then 1 else 0) t o) d).
Proof.
  induction t as [|a t IH]; intros o d H.
  - cbn. apply @is_derive_const.
  - destruct o as [|v o]; destruct d as [|e d]; cbn in H; try discriminate.
    + cbn. apply @is_derive_const.
    + injection H as H. specialize (IH o d H). cbn [C09_Defs.map2]. rewrite dot_cons.
      apply (is_derive_ext (fun s => plus ((if Rltb 0 a then v + s * e else 0)) (posum t (Rvadd o (Rvscale s d))))); [reflexivity|].
      apply @is_derive_plus; [|exact IH]. destruct (Rltb 0 a); auto_derive; auto; ring.
Qed.

Lemma classnll_g_from_dot m s : forall t o d, length t = length o -> length d = length o ->
  Rdot (classnll_g_from m s t o) d =
  Rdot (map (fun v => exp (v - m)) o) d / s - Rdot (C09_Defs.map2 (fun a (_ : R) => if Rltb 0 a then 1 else 0) t o) d.
Proof.
  induction t as [|a t IH]; intros [|v o] [|e d] Ht Hd; cbn in Ht, Hd; try discriminate.
  - unfold C06_Defs.dot; cbn. unfold Rdiv. ring.
  - injection Ht as Ht. injection Hd as Hd. cbn [classnll_g_from map C09_Defs.map2]. rewrite !dot_cons, (IH o d Ht Hd).
    unfold Rdiv. ring.
Qed.
Lemma map_exp_shift m o : map (fun v => exp (v - m)) o = Rvscale (exp (- m)) (map (fun v => exp (v - 0)) o).
Proof.
  induction o as [|v o IH]; cbn; [reflexivity|]. unfold C06_Defs.vscale in IH. rewrite IH. f_equal.
  replace (v - m) with ((v - 0) + - m) by ring. rewrite exp_plus. ring.
Qed.

Theorem classnll_is_derive : loss_deriv classnll_ideal classnll_g.
Proof.
  intros t o d Ht Hd. unfold classnll_ideal, classnll_g.
  destruct o as [|v0 o0] eqn:Eo.
  { destruct d; [|discriminate]. destruct t; [|discriminate]. cbn. apply @is_derive_const. }
  rewrite <- Eo in *. assert (Ho : o <> []) by (rewrite Eo; discriminate).
  rewrite classnll_g_from_dot by assumption.
  rewrite map_exp_shift, dot_vscale_l, (sumexp_shift (listmax o) o).
  assert (Sp : 0 < sumexp 0 o) by (apply sumexp_pos; exact Ho).
  replace (exp (- listmax o) * Rdot (map (fun v => exp (v - 0)) o) d / (exp (- listmax o) * sumexp 0 o))
    with (Rdot (map (fun v => exp (v - 0)) o) d / sumexp 0 o)
    by (field; split; [lra | generalize (exp_pos (- listmax o)); lra]).
  assert (E0 : Rvadd o (Rvscale 0 d) = o).
  { clear -Hd. revert d Hd. induction o as [|a o IH]; intros [|e d] H; cbn in *; try discriminate; [reflexivity|].
    f_equal; [ring | apply IH; lia]. }
  apply (is_derive_minus (fun s => ln (sumexp 0 (Rvadd o (Rvscale s d)))) (fun s => posum t (Rvadd o (Rvscale s d)))).
  - replace (Rdot (map (fun v => exp (v - 0)) o) d / sumexp 0 o)
      with (scal (Rdot (map (fun v => exp (v - 0)) o) d) (/ sumexp 0 o)) by (unfold scal; cbn; unfold mult; cbn; field; lra).
    apply (is_derive_comp ln (fun s => sumexp 0 (Rvadd o (Rvscale s d)))).
    + rewrite E0. apply (is_derive_ext (fun y => ln y)); [reflexivity|]. auto_derive; [exact Sp | ring].
    + exact (sumexp0_is_derive o d Hd).
  - apply posum_is_derive; exact Hd.
Qed.

(* ---- every registered loss ---- *)
Theorem rl_smooth_deriv : forall l, rl_smooth l = true -> loss_deriv (rl_ideal l) (rl_grad l).
Proof.
  intros l Hl t o d Ht Hd. destruct l; try discriminate; cbn [rl_ideal rl_value rl_grad];
    try (apply loss_is_derive; [|exact Hd]).
  - exact d_mse.
  - exact d_cauchy.
  - apply classnll_is_derive; assumption.
  - exact d_savage.
  - exact d_tangent.
  - exact d_logistic.
  - exact d_exponential.
Qed.

Theorem rl_convex_subgradient : forall l, rl_convex l = true ->
  (forall a, l = RPinball a -> 0 <= a <= 1) -> loss_subgradient (rl_value l) (rl_grad l).
Proof.
  intros l Hl Ha t o o' Ho. destruct l; try discriminate; cbn [rl_value rl_grad]; apply loss_subgrad; auto.
  - intros a u v. generalize (k_mse_subgrad a u v) (sqr_ge0 (v - u)). lra.
  - exact k_mae_subgrad.
  - apply k_pinball_subgrad. now apply Ha.
  - exact k_hinge_subgrad.
  - exact k_sqhinge_subgrad.
  - exact k_logistic_subgrad.
  - exact k_exponential_subgrad.
Qed.

(* every registered id falls in (at least) one of the two classes *)
Theorem registered_covered : forall alpha name l, In (name, l) (registered_losses alpha) ->
  rl_smooth l = true \/ rl_convex l = true.
Proof.
  intros alpha name l H. cbn in H.
  repeat (destruct H as [H|H]; [injection H as _ <-; cbn; auto|]). contradiction.
Qed.

(* ================================================================================================== *)
(* 4. objectives: the code's reduction is the definition; the gradient formulas are the derivatives     *)
(* ================================================================================================== *)
Section ObjectiveTheorems.
  Variable lval : list R -> list R -> R.
  Variable lgrad : list R -> list R -> list R.

  (* ---- regularisation: code = definition ---- *)
  Lemma Rltb_spec a b : (a < b /\ Rltb a b = true) \/ (b <= a /\ Rltb a b = false).
  Proof. unfold Rltb. destruct (Rlt_dec a b); [left | right]; split; auto; lra. Qed.

  Lemma rsum_map_scale c (f g : R -> R) (w : list R) : (forall a, f a = c * g a) -> rsum (map f w) = c * rsum (map g w).
  Proof. intro H. induction w as [|a w IH]; cbn; [ring|]. unfold rsum in IH. rewrite IH, H. ring. Qed.

  Lemma rreg_code_def l1 l2 w : 0 <= l1 -> 0 <= l2 -> rreg_code l1 l2 w = rreg_value l1 l2 w.
  Proof.
    intros H1 H2. unfold rreg_code, rreg_value, rsq_sum.
    rewrite (rsum_map_scale l2 (fun a => sqrt l2 * a * (sqrt l2 * a)) (fun a => a * a)).
    2:{ intro a. transitivity (sqrt l2 * sqrt l2 * (a * a)); [ring|]. now rewrite sqrt_sqrt. }
    destruct (Rltb_spec 0 l1) as [[L1 ->]|[L1 ->]]; destruct (Rltb_spec 0 l2) as [[L2 ->]|[L2 ->]];
      try (replace l1 with 0 by lra); try (replace l2 with 0 by lra); unfold Rdiv; ring.
  Qed.
  Lemma rreg_grad_code_def l1 l2 w k : 0 <= l1 -> 0 <= l2 -> rreg_grad_code l1 l2 w k = rreg_grad l1 l2 w k.
  Proof.
    intros H1 H2. unfold rreg_grad_code, rreg_grad.
    destruct (Rltb_spec 0 l1) as [[L1 ->]|[L1 ->]]; destruct (Rltb_spec 0 l2) as [[L2 ->]|[L2 ->]];
      try (replace l1 with 0 by lra); try (replace l2 with 0 by lra); unfold Rdiv; ring.
  Qed.

  (* ---- value / gradient as evaluated = naive definitions, for every schedule ---- *)
  Theorem rlin_value_def isize tsize l1 l2 x T X workers batch sched :
    0 <= l1 -> 0 <= l2 -> (1 <= workers)%nat -> (1 <= batch)%Z -> valid_schedule workers (Z.of_nat (length X)) batch sched ->
    rlin_value lval isize tsize l1 l2 x T X workers sched = rlin_naive_value lval isize tsize l1 l2 x T X.
  Proof.
    intros H1 H2 Hw Hb Hs. unfold rlin_value, rlin_naive_value, rlin_data.
    rewrite (rreduced_mean_naive _ workers _ batch sched Hw Hb (Nat2Z.is_nonneg _) Hs), rreg_code_def by assumption. reflexivity.
  Qed.
  Theorem rlin_grad_def isize tsize l1 l2 x T X workers batch sched :
    0 <= l1 -> 0 <= l2 -> (1 <= workers)%nat -> (1 <= batch)%Z -> valid_schedule workers (Z.of_nat (length X)) batch sched ->
    (forall c j, rlin_gW lgrad isize tsize l1 l2 x T X workers sched c j = rlin_naive_gW lgrad isize tsize l1 l2 x T X c j) /\
    (forall c, rlin_gb lgrad isize tsize x T X workers sched c = rlin_naive_gb lgrad isize tsize x T X c).
  Proof.
    intros H1 H2 Hw Hb Hs. split; [intros c j | intro c].
    - unfold rlin_gW, rlin_naive_gW, rlin_gW_data.
      rewrite (rreduced_mean_naive _ workers _ batch sched Hw Hb (Nat2Z.is_nonneg _) Hs), rreg_grad_code_def by assumption. reflexivity.
    - unfold rlin_gb, rlin_naive_gb, rlin_gb_data.
      now rewrite (rreduced_mean_naive _ workers _ batch sched Hw Hb (Nat2Z.is_nonneg _) Hs).
  Qed.
  Theorem rbias_def x T workers batch sched :
    (1 <= workers)%nat -> (1 <= batch)%Z -> valid_schedule workers (Z.of_nat (length T)) batch sched ->
    rbias_value lval x T workers sched = rbias_naive_value lval x T /\
    (forall c, rbias_grad lgrad x T workers sched c = rbias_naive_grad lgrad x T c).
  Proof.
    intros Hw Hb Hs. split; [|intro c]; unfold rbias_value, rbias_grad, rbias_naive_value, rbias_naive_grad;
      now rewrite (rreduced_mean_naive _ workers _ batch sched Hw Hb (Nat2Z.is_nonneg _) Hs).
  Qed.
  Theorem rscale_def x groups S Wk T smp workers batch sched :
    (1 <= workers)%nat -> (1 <= batch)%Z -> valid_schedule workers (Z.of_nat (length smp)) batch sched ->
    rscale_value lval x groups S Wk T smp workers sched = rscale_naive_value lval x groups S Wk T smp /\
    (forall g, rscale_grad lgrad x groups S Wk T smp workers sched g = rscale_naive_grad lgrad x groups S Wk T smp g).
  Proof.
    intros Hw Hb Hs. split; [|intro g]; unfold rscale_value, rscale_grad, rscale_naive_value, rscale_naive_grad;
      now rewrite (rreduced_mean_naive _ workers _ batch sched Hw Hb (Nat2Z.is_nonneg _) Hs).
  Qed.

  (* grads: the buffer written range by range over stale content holds the per-sample losses; its mean is the definition *)
  Theorem rgrads_value_def T O workers batch sched (old : list R) :
    (1 <= batch)%Z -> valid_schedule workers (Z.of_nat (length O)) batch sched -> length old = length O ->
    rgrads_value lval T O sched old = rgrads_naive_value lval T O.
  Proof.
    intros Hb Hs Hold. unfold rgrads_value, rgrads_vbuf, rgrads_naive_value, rnaive_mean, rlen.
    assert (E : run_writes (fun i => lval (nthZ T i []) (nthZ O i [])) sched old =
                map (fun i => lval (nthZ T i []) (nthZ O i [])) (zrange 0 (length O))).
    { rewrite (run_writes_full (fun i => lval (nthZ T i []) (nthZ O i [])) workers (Z.of_nat (length O)) batch sched old Hb
               (Nat2Z.is_nonneg _) Hs) by (now rewrite Hold). now rewrite Nat2Z.id. }
    rewrite E, map_length, zrange_length, Nat2Z.id. reflexivity.
  Qed.

  (* ---- derivatives ---- *)
  Hypothesis Hderiv : loss_deriv lval lgrad.

  (* the generic step: outputs moving affinely, o_i(s) = o_i + s d_i *)
  Lemma mean_loss_is_derive (t o d : Z -> list R) n :
    (forall i, (0 <= i < n)%Z -> length (t i) = length (o i) /\ length (d i) = length (o i)) ->
    is_derive (fun s => rnaive_mean (fun i => lval (t i) (Rvadd (o i) (Rvscale s (d i)))) n) 0
              (rnaive_mean (fun i => Rdot (lgrad (t i) (o i)) (d i)) n).
  Proof.
    intro H. apply (rnaive_mean_is_derive (fun s i => lval (t i) (Rvadd (o i) (Rvscale s (d i))))).
    intros i Hi. destruct (H i Hi). now apply Hderiv.
  Qed.

  (* linear::predict is affine in (W, b) *)
  Definition same_shape (A B : list (list R)) : Prop := Forall2 (fun a b => length a = length b) A B.
  Lemma same_shape_length A B : same_shape A B -> length A = length B.
  Proof. induction 1; cbn; congruence. Qed.
  Lemma rlin_out_affine s xi : forall W dW b db, same_shape W dW -> length b = length db ->
    rlin_out (rmadd W (rmscale s dW)) (Rvadd b (Rvscale s db)) xi = Rvadd (rlin_out W b xi) (Rvscale s (rlin_out dW db xi)).
  Proof.
    induction W as [|w W IH]; intros dW b db HW Hb; inversion HW as [|? dw ? dW' Hw HW']; subst; [reflexivity|].
    destruct b as [|bc b]; destruct db as [|dc db]; cbn in Hb; try discriminate; [reflexivity|].
    injection Hb as Hb. cbn [rmadd rmscale map C09_Defs.map2 rlin_out C06_Defs.vadd C06_Defs.vscale C06_Defs.map2 o_add o_mul Rops].
    f_equal.
    - rewrite dot_vadd_l by (now rewrite rvscale_length). rewrite dot_vscale_l. ring.
    - apply (IH dW' b db HW' Hb).
  Qed.
  Lemma rlin_out_length xi : forall W b, length W = length b -> length (rlin_out W b xi) = length b.
  Proof. induction W as [|w W IH]; intros [|bc b] H; cbn in *; try discriminate; [reflexivity|]. f_equal. apply IH. lia. Qed.

  (* linear objective, data term: along EVERY direction (dW, db) of parameter space *)
  Theorem rlin_data_is_derive W b dW db T X :
    same_shape W dW -> length b = length db -> length W = length b ->
    (forall i, (0 <= i < Z.of_nat (length X))%Z -> length (nthZ T i []) = length b) ->
    is_derive (fun s => rlin_data lval (rmadd W (rmscale s dW)) (Rvadd b (Rvscale s db)) T X) 0
              (rnaive_mean (fun i => Rdot (lgrad (nthZ T i []) (rlin_out W b (nthZ X i []))) (rlin_out dW db (nthZ X i [])))
                           (Z.of_nat (length X))).
  Proof.
    intros HW Hb HWb HT. unfold rlin_data.
    apply (is_derive_ext (fun s => rnaive_mean (fun i => lval (nthZ T i [])
             (Rvadd (rlin_out W b (nthZ X i [])) (Rvscale s (rlin_out dW db (nthZ X i []))))) (Z.of_nat (length X)))).
    - intro s. apply rnaive_mean_ext. intros i Hi. now rewrite rlin_out_affine.
    - apply (mean_loss_is_derive (fun i => nthZ T i []) (fun i => rlin_out W b (nthZ X i [])) (fun i => rlin_out dW db (nthZ X i []))).
      intros i Hi. pose proof (same_shape_length _ _ HW) as HL.
      rewrite (rlin_out_length _ W b HWb), (rlin_out_length _ dW db) by congruence.
      split; [now apply HT | now symmetry].
  Qed.

  (* ... in particular along the coordinates: W(c,j) and b(c), with the formulas the source uses *)
  Lemma rlin_out_unit_W_gen isize c j xi : length xi = isize -> forall k a,
    rlin_out (map (fun r => if Nat.eqb r c then runit isize j else rzeros isize) (seq a k)) (rzeros k) xi =
    Rvscale (nth j xi 0) (map (fun r => if Nat.eqb r c then 1 else 0) (seq a k)).
  Proof.
    intros Hx. unfold rlin_out. induction k as [|k IH]; intro a; [reflexivity|].
    cbn [seq map rzeros repeat C09_Defs.map2 C06_Defs.vscale]. f_equal; [|apply IH].
    cbn [o_mul Rops]. destruct (Nat.eqb a c).
    - rewrite dot_comm, dot_runit by exact Hx. ring.
    - rewrite dot_comm, dot_rzeros. ring.
  Qed.
  Lemma rlin_out_unit_W tsize isize c j xi : length xi = isize ->
    rlin_out (runitmat tsize isize c j) (rzeros tsize) xi = Rvscale (nth j xi 0) (runit tsize c).
  Proof. intro Hx. exact (rlin_out_unit_W_gen isize c j xi Hx tsize 0%nat). Qed.
  Lemma rlin_out_unit_b tsize isize c xi :
    rlin_out (repeat (rzeros isize) tsize) (runit tsize c) xi = runit tsize c.
  Proof.
    unfold runit, rlin_out. generalize 0%nat as a.
    induction tsize as [|k IH]; intro a; cbn; [reflexivity|]. f_equal; [|apply IH].
    rewrite dot_comm, dot_rzeros. ring.
  Qed.
  Lemma runitmat_shape W tsize isize c j : length W = tsize -> List.Forall (fun w => length w = isize) W ->
    same_shape W (runitmat tsize isize c j).
  Proof.
    intros <- HW. unfold runitmat.
    assert (G : forall a, same_shape W (map (fun r => if Nat.eqb r c then runit isize j else rzeros isize) (seq a (length W)))).
    { induction HW as [|w W Hw HW IH]; intro a; cbn [length seq map]; constructor; [|apply IH].
      destruct (Nat.eqb a c); [now rewrite runit_length | now rewrite rzeros_length]. }
    apply G.
  Qed.
  Lemma rzeromat_shape W tsize isize : length W = tsize -> List.Forall (fun w => length w = isize) W ->
    same_shape W (repeat (rzeros isize) tsize).
  Proof.
    intros <- HW. induction HW as [|w W Hw HW IH]; cbn [length repeat]; constructor; [now rewrite rzeros_length | exact IH].
  Qed.

  Theorem rlin_data_deriv_W W b T X tsize isize c j :
    length W = tsize -> List.Forall (fun w => length w = isize) W -> length b = tsize ->
    (forall i, (0 <= i < Z.of_nat (length X))%Z -> length (nthZ T i []) = tsize /\ length (nthZ X i []) = isize) ->
    (forall t o, length t = length o -> length (lgrad t o) = length o) ->
    is_derive (fun s => rlin_data lval (rmadd W (rmscale s (runitmat tsize isize c j))) (Rvadd b (Rvscale s (rzeros tsize))) T X) 0
              (rlin_gW_data lgrad W b T X c j).
  Proof.
    intros HW Hrows Hb HTX Hlen.
    pose proof (rlin_data_is_derive W b (runitmat tsize isize c j) (rzeros tsize) T X
                  (runitmat_shape W tsize isize c j HW Hrows) (eq_trans Hb (eq_sym (rzeros_length tsize))) (eq_trans HW (eq_sym Hb))
                  (fun i Hi => eq_trans (proj1 (HTX i Hi)) (eq_sym Hb))) as D.
    replace (rlin_gW_data lgrad W b T X c j) with
      (rnaive_mean (fun i => Rdot (lgrad (nthZ T i []) (rlin_out W b (nthZ X i [])))
                                  (rlin_out (runitmat tsize isize c j) (rzeros tsize) (nthZ X i []))) (Z.of_nat (length X))); [exact D|].
    unfold rlin_gW_data. apply rnaive_mean_ext. intros i Hi. destruct (HTX i Hi) as [Ht Hx].
    rewrite (rlin_out_unit_W tsize isize c j _ Hx), dot_comm, dot_vscale_l, dot_comm, dot_runit; [ring|].
    rewrite Hlen; rewrite rlin_out_length; congruence.
  Qed.
  Theorem rlin_data_deriv_b W b T X tsize isize c :
    length W = tsize -> List.Forall (fun w => length w = isize) W -> length b = tsize ->
    (forall i, (0 <= i < Z.of_nat (length X))%Z -> length (nthZ T i []) = tsize) ->
    (forall t o, length t = length o -> length (lgrad t o) = length o) ->
    is_derive (fun s => rlin_data lval (rmadd W (rmscale s (repeat (rzeros isize) tsize))) (Rvadd b (Rvscale s (runit tsize c))) T X) 0
              (rlin_gb_data lgrad W b T X c).
  Proof.
    intros HW Hrows Hb HT Hlen.
    pose proof (rlin_data_is_derive W b (repeat (rzeros isize) tsize) (runit tsize c) T X
                  (rzeromat_shape W tsize isize HW Hrows) (eq_trans Hb (eq_sym (runit_length tsize c))) (eq_trans HW (eq_sym Hb))
                  (fun i Hi => eq_trans (HT i Hi) (eq_sym Hb))) as D.
    replace (rlin_gb_data lgrad W b T X c) with
      (rnaive_mean (fun i => Rdot (lgrad (nthZ T i []) (rlin_out W b (nthZ X i [])))
                                  (rlin_out (repeat (rzeros isize) tsize) (runit tsize c) (nthZ X i []))) (Z.of_nat (length X))); [exact D|].
    unfold rlin_gb_data. apply rnaive_mean_ext. intros i Hi.
    rewrite rlin_out_unit_b, dot_runit; [reflexivity|].
    rewrite Hlen; rewrite rlin_out_length; try congruence. rewrite (HT i Hi). congruence.
  Qed.

  (* gboost bias: along every direction, and along the coordinates *)
  Theorem rbias_is_derive x d T :
    length d = length x -> (forall i, (0 <= i < Z.of_nat (length T))%Z -> length (nthZ T i []) = length x) ->
    is_derive (fun s => rbias_naive_value lval (Rvadd x (Rvscale s d)) T) 0
              (rnaive_mean (fun i => Rdot (lgrad (nthZ T i []) x) d) (Z.of_nat (length T))).
  Proof.
    intros Hd HT. unfold rbias_naive_value.
    apply (mean_loss_is_derive (fun i => nthZ T i []) (fun _ => x) (fun _ => d)). intros i Hi. split; [now apply HT | exact Hd].
  Qed.
  Theorem rbias_deriv_coord x T c :
    (forall i, (0 <= i < Z.of_nat (length T))%Z -> length (nthZ T i []) = length x) ->
    (forall t o, length t = length o -> length (lgrad t o) = length o) ->
    is_derive (fun s => rbias_naive_value lval (Rvadd x (Rvscale s (runit (length x) c))) T) 0 (rbias_naive_grad lgrad x T c).
  Proof.
    intros HT Hlen. pose proof (rbias_is_derive x (runit (length x) c) T (runit_length _ _) HT) as D.
    replace (rbias_naive_grad lgrad x T c) with (rnaive_mean (fun i => Rdot (lgrad (nthZ T i []) x) (runit (length x) c)) (Z.of_nat (length T)));
      [exact D|].
    unfold rbias_naive_grad. apply rnaive_mean_ext. intros i Hi. apply dot_runit. apply Hlen. now apply HT.
  Qed.

  (* gboost scale: output_i = s_i + x[group_i] w_i is affine in x *)
  Lemma rscale_of_affine x d s g : length x = length d ->
    rscale_of (Rvadd x (Rvscale s d)) g = rscale_of x g + s * rscale_of d g.
  Proof.
    intro H. unfold rscale_of. destruct (src_c09_scale_unassigned g); [ring|]. unfold nthZ. now apply nth_rvadd_rvscale.
  Qed.
  Lemma rscale_out_affine a c s : forall (S0 W0 : list R),
    Rvadd S0 (Rvscale (a + s * c) W0) = Rvadd (Rvadd S0 (Rvscale a W0)) (Rvscale s (Rvscale c W0)).
  Proof.
    induction S0 as [|u S0 IH]; intros [|w W0]; cbn; try reflexivity.
    f_equal; [ring | apply IH].
  Qed.
  Theorem rscale_is_derive x d groups S Wk T smp :
    length x = length d ->
    (forall i, (0 <= i < Z.of_nat (length smp))%Z ->
       length (nthZ S (nthZ smp i 0%Z) []) = length (nthZ Wk (nthZ smp i 0%Z) []) /\
       length (nthZ T i []) = length (nthZ S (nthZ smp i 0%Z) [])) ->
    is_derive (fun s => rscale_naive_value lval (Rvadd x (Rvscale s d)) groups S Wk T smp) 0
              (rnaive_mean (fun i => rscale_of d (nthZ groups (nthZ smp i 0%Z) (-1)%Z) *
                                     Rdot (lgrad (nthZ T i []) (rscale_out x groups S Wk (nthZ smp i 0%Z))) (nthZ Wk (nthZ smp i 0%Z) []))
                           (Z.of_nat (length smp))).
  Proof.
    intros Hx Hshape. unfold rscale_naive_value.
    apply (is_derive_ext (fun s => rnaive_mean (fun i => lval (nthZ T i [])
             (Rvadd (rscale_out x groups S Wk (nthZ smp i 0%Z))
                    (Rvscale s (Rvscale (rscale_of d (nthZ groups (nthZ smp i 0%Z) (-1)%Z)) (nthZ Wk (nthZ smp i 0%Z) [])))))
             (Z.of_nat (length smp)))).
    - intro s. apply rnaive_mean_ext. intros i Hi. unfold rscale_out. now rewrite rscale_of_affine, rscale_out_affine.
    - replace (rnaive_mean (fun i => rscale_of d (nthZ groups (nthZ smp i 0%Z) (-1)%Z) *
                 Rdot (lgrad (nthZ T i []) (rscale_out x groups S Wk (nthZ smp i 0%Z))) (nthZ Wk (nthZ smp i 0%Z) [])) (Z.of_nat (length smp)))
        with (rnaive_mean (fun i => Rdot (lgrad (nthZ T i []) (rscale_out x groups S Wk (nthZ smp i 0%Z)))
                 (Rvscale (rscale_of d (nthZ groups (nthZ smp i 0%Z) (-1)%Z)) (nthZ Wk (nthZ smp i 0%Z) []))) (Z.of_nat (length smp))).
      2:{ apply rnaive_mean_ext. intros i Hi. now rewrite dot_comm, dot_vscale_l, dot_comm. }
      apply (mean_loss_is_derive (fun i => nthZ T i []) (fun i => rscale_out x groups S Wk (nthZ smp i 0%Z))
               (fun i => Rvscale (rscale_of d (nthZ groups (nthZ smp i 0%Z) (-1)%Z)) (nthZ Wk (nthZ smp i 0%Z) []))).
      intros i Hi. destruct (Hshape i Hi) as [H1 H2]. unfold rscale_out.
      rewrite rvadd_length by (now rewrite rvscale_length). rewrite rvscale_length. split; congruence.
  Qed.
  (* ... along the coordinate x[g]: the formula of the source (sum over the samples of the cluster, skipping group < 0) *)
  Lemma nthZ_runit n g k : (0 <= g)%Z -> (0 <= k)%Z ->
    nthZ (runit n (Z.to_nat g)) k 0 = if (k =? g)%Z && (k <? Z.of_nat n)%Z then 1 else 0.
  Proof.
    intros Hg K0. unfold nthZ, runit.
    destruct (k <? Z.of_nat n)%Z eqn:Kn; [apply Z.ltb_lt in Kn | apply Z.ltb_ge in Kn].
    - rewrite nth_map_seq by lia.
      destruct (k =? g)%Z eqn:E; [apply Z.eqb_eq in E; subst; now rewrite Nat.eqb_refl|].
      apply Z.eqb_neq in E. replace (Nat.eqb (Z.to_nat k) (Z.to_nat g)) with false; [reflexivity|].
      symmetry. apply Nat.eqb_neq. lia.
    - rewrite nth_overflow by (rewrite map_length, seq_length; lia). now rewrite andb_false_r.
  Qed.
  Theorem rscale_deriv_coord x groups S Wk T smp g :
    (0 <= g < Z.of_nat (length x))%Z ->
    (forall i, (0 <= i < Z.of_nat (length smp))%Z ->
       length (nthZ S (nthZ smp i 0%Z) []) = length (nthZ Wk (nthZ smp i 0%Z) []) /\
       length (nthZ T i []) = length (nthZ S (nthZ smp i 0%Z) [])) ->
    is_derive (fun s => rscale_naive_value lval (Rvadd x (Rvscale s (runit (length x) (Z.to_nat g)))) groups S Wk T smp) 0
              (rscale_naive_grad lgrad x groups S Wk T smp g).
  Proof.
    intros Hg Hshape.
    pose proof (rscale_is_derive x (runit (length x) (Z.to_nat g)) groups S Wk T smp (eq_sym (runit_length _ _)) Hshape) as D.
    replace (rscale_naive_grad lgrad x groups S Wk T smp g) with
      (rnaive_mean (fun i => rscale_of (runit (length x) (Z.to_nat g)) (nthZ groups (nthZ smp i 0%Z) (-1)%Z) *
                   Rdot (lgrad (nthZ T i []) (rscale_out x groups S Wk (nthZ smp i 0%Z))) (nthZ Wk (nthZ smp i 0%Z) []))
                   (Z.of_nat (length smp))); [exact D|].
    unfold rscale_naive_grad. apply rnaive_mean_ext. intros i Hi. unfold rscale_gterm, rscale_of.
    unfold src_c09_scale_unassigned, src_c09_scale_grad_skip.
    set (gi := nthZ groups (nthZ smp i 0%Z) (-1)%Z).
    destruct (gi <? 0)%Z eqn:L; [ring|]. apply Z.ltb_ge in L.
    rewrite nthZ_runit by lia.
    destruct (gi =? g)%Z eqn:E.
    - apply Z.eqb_eq in E. replace (gi <? Z.of_nat (length x))%Z with true by (symmetry; apply Z.ltb_lt; lia).
      cbn. ring.
    - cbn. ring.
  Qed.

  (* gboost grads: the parameters are the outputs themselves, one row per sample *)
  Lemma nthZ_rmadd O D s i : length O = length D ->
    nthZ (rmadd O (rmscale s D)) i [] = Rvadd (nthZ O i []) (Rvscale s (nthZ D i [])).
  Proof.
    unfold nthZ. generalize (Z.to_nat i) as k. revert D.
    induction O as [|o O IH]; intros [|d D] k H; cbn in H; try discriminate.
    - destruct k; reflexivity.
    - destruct k; cbn; [reflexivity|]. apply IH. lia.
  Qed.
  Lemma rmadd_length O D s : length O = length D -> length (rmadd O (rmscale s D)) = length O.
  Proof. revert D. induction O as [|o O IH]; intros [|d D] H; cbn in *; try discriminate; [reflexivity|]. f_equal. apply IH. lia. Qed.
  Theorem rgrads_is_derive T O D :
    length O = length D ->
    (forall i, (0 <= i < Z.of_nat (length O))%Z ->
       length (nthZ T i []) = length (nthZ O i []) /\ length (nthZ D i []) = length (nthZ O i [])) ->
    is_derive (fun s => rgrads_naive_value lval T (rmadd O (rmscale s D))) 0
              (rnaive_mean (fun i => Rdot (lgrad (nthZ T i []) (nthZ O i [])) (nthZ D i [])) (Z.of_nat (length O))).
  Proof.
    intros HD Hshape. unfold rgrads_naive_value.
    apply (is_derive_ext (fun s => rnaive_mean (fun i => lval (nthZ T i []) (Rvadd (nthZ O i []) (Rvscale s (nthZ D i []))))
                                               (Z.of_nat (length O)))).
    - intro s. rewrite rmadd_length by exact HD. apply rnaive_mean_ext. intros i Hi. now rewrite nthZ_rmadd.
    - apply (mean_loss_is_derive (fun i => nthZ T i []) (fun i => nthZ O i []) (fun i => nthZ D i [])). exact Hshape.
  Qed.
End ObjectiveTheorems.

(* ---- regularisation terms: l2 part smooth, l1 part a sub-gradient (also where W(c,j) = 0: sign(0) = 0) ---- *)
Lemma rsq_sum_is_derive : forall w d : list R, length d = length w ->
  is_derive (fun s => rsq_sum (Rvadd w (Rvscale s d))) 0 (Rdot (map (fun a => 2 * a) w) d).
Proof.
  induction w as [|a w IH]; intros [|e d] H; cbn in H; try discriminate.
  - cbn. apply @is_derive_const.
  - injection H as H. specialize (IH d H). cbn [map]. rewrite dot_cons.
    apply (is_derive_ext (fun s => plus ((a + s * e) * (a + s * e)) (rsq_sum (Rvadd w (Rvscale s d))))); [reflexivity|].
    apply @is_derive_plus; [|exact IH]. auto_derive; auto. ring.
Qed.
Lemma dot_map_lin (f g : R -> R) c : (forall a, f a = c * g a) -> forall w d : list R,
  Rdot (map f w) d = c * Rdot (map g w) d.
Proof.
  intro H. induction w as [|a w IH]; intros [|e d]; try (unfold C06_Defs.dot; cbn; ring).
  cbn [map]. rewrite !dot_cons, IH, H. ring.
Qed.
Theorem rreg_l2_is_derive l2 (w d : list R) : length d = length w ->
  is_derive (fun s => rreg_value 0 l2 (Rvadd w (Rvscale s d))) 0
            (Rdot (map (fun a => l2 * a / rlen w) w) d).
Proof.
  intro H. unfold rreg_value.
  apply (is_derive_ext (fun s => scal (l2 / 2 / rlen w) (rsq_sum (Rvadd w (Rvscale s d))))).
  - intro s. unfold scal; cbn; unfold mult; cbn. unfold rlen. rewrite rvadd_length by (now rewrite rvscale_length). unfold Rdiv. ring.
  - replace (Rdot (map (fun a => l2 * a / rlen w) w) d) with (scal (l2 / 2 / rlen w) (Rdot (map (fun a => 2 * a) w) d)).
    + apply @is_derive_scal. now apply rsq_sum_is_derive.
    + unfold scal; cbn; unfold mult; cbn.
      rewrite (dot_map_lin (fun a => l2 * a / rlen w) (fun a => a) (l2 * / rlen w)) by (intro a; unfold Rdiv; ring).
      rewrite (dot_map_lin (fun a => 2 * a) (fun a => a) 2) by (intro a; ring).
      replace (l2 / 2 / rlen w) with (/ 2 * (l2 * / rlen w)) by (unfold Rdiv; ring).
      generalize (l2 * / rlen w) as q. generalize (Rdot (map (fun a => a) w) d) as y. intros y q. field.
Qed.
Lemma rabs_sum_subgrad : forall w w' : list R, length w' = length w ->
  rabs_sum w' >= rabs_sum w + Rdot (map rsign w) (Rvsub w' w).
Proof.
  induction w as [|a w IH]; intros [|b w'] H; cbn in H; try discriminate.
  - unfold rabs_sum, C06_Defs.dot; cbn. lra.
  - injection H as H. specialize (IH w' H). cbn [map]. rewrite vsub_cons, dot_cons.
    unfold rabs_sum in *. cbn [map rsum fold_right]. fold (rsum (map Rabs w')). fold (rsum (map Rabs w)).
    assert (Rabs b >= Rabs a + rsign a * (b - a)).
    { unfold rsign, psgn. rops. unfold Rabs. rcases; destruct (Rcase_abs b); destruct (Rcase_abs a); lra. }
    lra.
Qed.
Theorem rreg_l1_subgradient l1 (w w' : list R) : 0 <= l1 -> length w' = length w -> w <> [] ->
  rreg_value l1 0 w' >= rreg_value l1 0 w + Rdot (map (fun a => l1 * rsign a / rlen w) w) (Rvsub w' w).
Proof.
  intros H1 H Hw. unfold rreg_value, rlen. rewrite H.
  assert (N : 0 < IZR (Z.of_nat (length w))).
  { apply IZR_lt. destruct w; [congruence|cbn; lia]. }
  pose proof (rabs_sum_subgrad w w' H) as S.
  assert (E : Rdot (map (fun a => l1 * rsign a / IZR (Z.of_nat (length w))) w) (Rvsub w' w) =
              l1 / IZR (Z.of_nat (length w)) * Rdot (map rsign w) (Rvsub w' w)).
  { apply dot_map_lin. intro a. unfold Rdiv. ring. }
  rewrite E. unfold Rdiv.
  assert (P : 0 <= l1 * / IZR (Z.of_nat (length w))) by (apply Rmult_le_pos; [lra | left; now apply Rinv_0_lt_compat]).
  nra.
Qed.

(* ---- sub-gradient form for the convex losses (kinks included): outputs moved from o_i to o'_i ---- *)
Theorem mean_loss_subgradient lval lgrad (t o o' : Z -> list R) n :
  loss_subgradient lval lgrad -> (0 < n)%Z ->
  (forall i, (0 <= i < n)%Z -> length (o' i) = length (o i)) ->
  rnaive_mean (fun i => lval (t i) (o' i)) n >=
  rnaive_mean (fun i => lval (t i) (o i)) n + rnaive_mean (fun i => Rdot (lgrad (t i) (o i)) (Rvsub (o' i) (o i))) n.
Proof.
  intros Hs Hn Hl. rewrite <- rnaive_mean_plus. apply Rle_ge. apply rnaive_mean_le; [exact Hn|].
  intros i Hi. apply Rge_le. apply Hs. now apply Hl.
Qed.
(* gboost bias objective: the reported gradient is a sub-gradient of the objective *)
Theorem rbias_subgradient lval lgrad x x' T :
  loss_subgradient lval lgrad -> T <> [] -> length x' = length x ->
  rbias_naive_value lval x' T >= rbias_naive_value lval x T +
    rnaive_mean (fun i => Rdot (lgrad (nthZ T i []) x) (Rvsub x' x)) (Z.of_nat (length T)).
Proof.
  intros Hs HT Hl. unfold rbias_naive_value.
  apply (mean_loss_subgradient lval lgrad (fun i => nthZ T i []) (fun _ => x) (fun _ => x')); auto.
  destruct T; [congruence | cbn; lia].
Qed.

(* ================================================================================================== *)
(* 5. floating-point re-association: ANY reduction tree over the same terms                             *)
(* ================================================================================================== *)
Lemma rsum_app l1 l2 : rsum (l1 ++ l2) = rsum l1 + rsum l2.
Proof. induction l1 as [|a l IH]; cbn [app]; [cbn; lra|]. rewrite !rsum_cons, IH. lra. Qed.
Lemma rabs_sum_app l1 l2 : rabs_sum (l1 ++ l2) = rabs_sum l1 + rabs_sum l2.
Proof. unfold rabs_sum. rewrite map_app. apply rsum_app. Qed.
Lemma rabs_sum_nonneg l : 0 <= rabs_sum l.
Proof. unfold rabs_sum. induction l as [|a l IH]; cbn [map]; [cbn; lra|]. rewrite rsum_cons. generalize (Rabs_pos a). lra. Qed.
Lemma rsum_abs_le l : Rabs (rsum l) <= rabs_sum l.
Proof.
  unfold rabs_sum. induction l as [|a l IH]; cbn [map]; [cbn; rewrite Rabs_R0; lra|]. rewrite !rsum_cons.
  eapply Rle_trans; [apply Rabs_triang|]. lra.
Qed.
Lemma rsum_perm l1 l2 : Permutation l1 l2 -> rsum l1 = rsum l2.
Proof. induction 1; rewrite ?rsum_cons; try lra; try reflexivity. Qed.
Lemma rabs_sum_perm l1 l2 : Permutation l1 l2 -> rabs_sum l1 = rabs_sum l2.
Proof. intro H. unfold rabs_sum. apply rsum_perm. now apply Permutation_map. Qed.
Lemma rsum_repeat0 z : rsum (repeat 0 z) = 0.
Proof. induction z as [|z IH]; cbn [repeat]; [reflexivity|]. rewrite rsum_cons, IH. lra. Qed.
Lemma rabs_sum_repeat0 z : rabs_sum (repeat 0 z) = 0.
Proof. unfold rabs_sum. induction z as [|z IH]; cbn [repeat map]; [reflexivity|]. rewrite rsum_cons, IH, Rabs_R0. lra. Qed.

Lemma height_lt_leaves t : (height t < length (leaves t))%nat.
Proof. induction t as [x|l IHl r IHr]; cbn [height leaves length]; [lia|]. rewrite app_length. lia. Qed.

(* (1 + u)^k - 1 <= gamma_k *)
Lemma pow_gamma u k : 0 <= u -> INR k * u < 1 -> (1 + u) ^ k - 1 <= gamma u k.
Proof.
  intros Hu Hk.
  assert (P : (1 + u) ^ k * (1 - INR k * u) <= 1).
  { induction k as [|k IH]; [cbn; lra|].
    assert (Hk' : INR k * u < 1). { rewrite S_INR in Hk. nra. }
    specialize (IH Hk'). rewrite S_INR in *. cbn [pow].
    assert (Q : 0 <= (1 + u) ^ k) by (apply pow_le; lra).
    assert (0 <= INR k) by apply pos_INR.
    assert ((1 + u) * (1 - (INR k + 1) * u) <= 1 - INR k * u) by nra.
    assert ((1 + u) ^ k * ((1 + u) * (1 - (INR k + 1) * u)) <= (1 + u) ^ k * (1 - INR k * u)) by (apply Rmult_le_compat_l; lra).
    lra. }
  unfold gamma. assert (D : 0 < 1 - INR k * u) by lra.
  apply Rle_trans with (/ (1 - INR k * u) - 1).
  - assert ((1 + u) ^ k <= / (1 - INR k * u)); [|lra].
    apply Rmult_le_reg_r with (1 - INR k * u); [exact D|]. rewrite Rinv_l by lra. exact P.
  - right. field. lra.
Qed.

Section FpTree.
  Variable rnd : R -> R.              (* the rounding of one operation *)
  Variable fmt : R -> Prop.           (* representable numbers *)
  Variables u eta : R.
  Hypothesis u_nonneg : 0 <= u.
  Hypothesis eta_nonneg : 0 <= eta.
  Hypothesis rnd_fmt : forall x, fmt (rnd x).
  (* the standard model of a floating-point addition of two representable numbers (no overflow; gradual underflow makes
     small sums exact) and of a division (result possibly subnormal: absolute term eta) *)
  Hypothesis add_model : forall a b, fmt a -> fmt b -> exists d, Rabs d <= u /\ rnd (a + b) = (a + b) * (1 + d).
  Hypothesis any_model : forall y, exists d e, Rabs d <= u /\ Rabs e <= eta /\ rnd y = y * (1 + d) + e.

  Fixpoint all_fmt (t : sumtree) : Prop := match t with Leaf x => fmt x | Node l r => all_fmt l /\ all_fmt r end.
  Lemma tsum_fmt t : all_fmt t -> fmt (tsum rnd t).
  Proof. destruct t; cbn; [auto | intros _; apply rnd_fmt]. Qed.

  Lemma pow1u_ge1 k : 1 <= (1 + u) ^ k.
  Proof. apply pow_R1_Rle. lra. Qed.
  Lemma pow1u_mono k k' : (k <= k')%nat -> (1 + u) ^ k <= (1 + u) ^ k'.
  Proof. intro H. apply Rle_pow; [lra | exact H]. Qed.

  Lemma tsum_error t : all_fmt t ->
    Rabs (tsum rnd t - rsum (leaves t)) <= ((1 + u) ^ height t - 1) * rabs_sum (leaves t).
  Proof.
    induction t as [x|l IHl r IHr]; intro Hf.
    - cbn [tsum leaves height pow]. rewrite rsum_cons. cbn. replace (x - (x + 0)) with 0 by ring. rewrite Rabs_R0.
      generalize (rabs_sum_nonneg [x]). lra.
    - destruct Hf as [Hl Hr]. specialize (IHl Hl). specialize (IHr Hr).
      cbn [tsum leaves height]. rewrite rsum_app, rabs_sum_app.
      set (sl := tsum rnd l) in *. set (sr := tsum rnd r) in *.
      set (el := rsum (leaves l)) in *. set (er := rsum (leaves r)) in *.
      set (Al := rabs_sum (leaves l)) in *. set (Ar := rabs_sum (leaves r)) in *.
      set (m := Nat.max (height l) (height r)).
      destruct (add_model sl sr (tsum_fmt l Hl) (tsum_fmt r Hr)) as (d & Hd & ->).
      assert (PAl : 0 <= Al) by apply rabs_sum_nonneg. assert (PAr : 0 <= Ar) by apply rabs_sum_nonneg.
      assert (Bl : Rabs (sl - el) <= ((1 + u) ^ m - 1) * Al).
      { eapply Rle_trans; [exact IHl|]. apply Rmult_le_compat_r; [exact PAl|].
        generalize (pow1u_mono (height l) m (Nat.le_max_l _ _)). lra. }
      assert (Br : Rabs (sr - er) <= ((1 + u) ^ m - 1) * Ar).
      { eapply Rle_trans; [exact IHr|]. apply Rmult_le_compat_r; [exact PAr|].
        generalize (pow1u_mono (height r) m (Nat.le_max_r _ _)). lra. }
      assert (El : Rabs el <= Al) by apply rsum_abs_le. assert (Er : Rabs er <= Ar) by apply rsum_abs_le.
      replace ((sl + sr) * (1 + d) - (el + er)) with (((sl - el) + (sr - er)) * (1 + d) + (el + er) * d) by ring.
      pose proof (pow1u_ge1 m) as P1. cbn [pow]. set (P := (1 + u) ^ m) in *.
      assert (D1 : Rabs (1 + d) <= 1 + u).
      { eapply Rle_trans; [apply Rabs_triang|]. rewrite Rabs_R1. lra. }
      assert (S1 : Rabs ((sl - el) + (sr - er)) <= (P - 1) * (Al + Ar)).
      { eapply Rle_trans; [apply Rabs_triang|]. lra. }
      assert (S2 : Rabs (el + er) <= Al + Ar).
      { eapply Rle_trans; [apply Rabs_triang|]. lra. }
      eapply Rle_trans; [apply Rabs_triang|]. rewrite !Rabs_mult.
      assert (T1 : Rabs ((sl - el) + (sr - er)) * Rabs (1 + d) <= (P - 1) * (Al + Ar) * (1 + u)).
      { apply Rmult_le_compat; auto using Rabs_pos. }
      assert (T2 : Rabs (el + er) * Rabs d <= (Al + Ar) * u).
      { apply Rmult_le_compat; auto using Rabs_pos. }
      nra.
  Qed.

  (* one tree against the exact sum: gamma_{n-1} with n = number of leaves *)
  Theorem fp_tree_sum t : all_fmt t -> INR (length (leaves t) - 1) * u < 1 ->
    Rabs (tsum rnd t - rsum (leaves t)) <= gamma u (length (leaves t) - 1) * rabs_sum (leaves t).
  Proof.
    intros Hf Hn. eapply Rle_trans; [apply tsum_error; exact Hf|].
    apply Rmult_le_compat_r; [apply rabs_sum_nonneg|].
    eapply Rle_trans; [|apply pow_gamma; assumption].
    generalize (pow1u_mono (height t) (length (leaves t) - 1) ltac:(pose proof (height_lt_leaves t); lia)). lra.
  Qed.

  (* two trees (two summation orders / groupings / thread partitions) over the same terms *)
  Theorem fp_reassociation t1 t2 : all_fmt t1 -> all_fmt t2 -> Permutation (leaves t1) (leaves t2) ->
    INR (length (leaves t1) - 1) * u < 1 ->
    Rabs (tsum rnd t1 - tsum rnd t2) <= 2 * gamma u (length (leaves t1) - 1) * rabs_sum (leaves t1).
  Proof.
    intros H1 H2 Hp Hn.
    pose proof (fp_tree_sum t1 H1 Hn) as B1.
    assert (Hn2 : INR (length (leaves t2) - 1) * u < 1) by (now rewrite <- (Permutation_length Hp)).
    pose proof (fp_tree_sum t2 H2 Hn2) as B2.
    rewrite <- (Permutation_length Hp), <- (rsum_perm _ _ Hp), <- (rabs_sum_perm _ _ Hp) in B2.
    replace (tsum rnd t1 - tsum rnd t2) with ((tsum rnd t1 - rsum (leaves t1)) - (tsum rnd t2 - rsum (leaves t1))) by ring.
    eapply Rle_trans; [apply Rabs_triang|]. rewrite Rabs_Ropp. lra.
  Qed.

  (* the mean as the code forms it: the rounded sum of ANY tree whose leaves are the terms (in any order) and any number of
     zeros (the cleared accumulators), divided by N with one more rounding *)
  Theorem fp_mean t vs z N : all_fmt t -> Permutation (leaves t) (vs ++ repeat 0 z) -> 0 < N ->
    INR (length vs + z) * u < 1 ->
    Rabs (rnd (tsum rnd t / N) - rsum vs / N) <= gamma u (length vs + z) * (rabs_sum vs / N) + eta.
  Proof.
    intros Hf Hp HN Hn.
    assert (Es : rsum (leaves t) = rsum vs) by (rewrite (rsum_perm _ _ Hp), rsum_app, rsum_repeat0; lra).
    assert (Ea : rabs_sum (leaves t) = rabs_sum vs) by (rewrite (rabs_sum_perm _ _ Hp), rabs_sum_app, rabs_sum_repeat0; lra).
    assert (El : length (leaves t) = (length vs + z)%nat) by (rewrite (Permutation_length Hp), app_length, repeat_length; reflexivity).
    pose proof (tsum_error t Hf) as B. rewrite Es, Ea in B.
    set (Sf := tsum rnd t) in *. set (E := rsum vs) in *. set (A := rabs_sum vs) in *.
    assert (PA : 0 <= A) by apply rabs_sum_nonneg.
    set (k := (length vs + z)%nat) in *.
    assert (Hh : (S (height t) <= k)%nat) by (pose proof (height_lt_leaves t); lia).
    assert (B' : Rabs (Sf - E) <= ((1 + u) ^ (k - 1) - 1) * A).
    { eapply Rle_trans; [exact B|]. apply Rmult_le_compat_r; [exact PA|].
      generalize (pow1u_mono (height t) (k - 1) ltac:(lia)). lra. }
    destruct (any_model (Sf / N)) as (d & e & Hd & He & ->).
    replace (Sf / N * (1 + d) + e - E / N) with ((Sf - E) * / N * (1 + d) + E * / N * d + e) by (unfold Rdiv; ring).
    assert (IN : 0 < / N) by now apply Rinv_0_lt_compat.
    assert (EA : Rabs E <= A) by apply rsum_abs_le.
    assert (D1 : Rabs (1 + d) <= 1 + u). { eapply Rle_trans; [apply Rabs_triang|]. rewrite Rabs_R1. lra. }
    set (P := (1 + u) ^ (k - 1)) in *. pose proof (pow1u_ge1 (k - 1)) as P1. fold P in P1.
    assert (G : (1 + u) * P - 1 <= gamma u k).
    { replace ((1 + u) * P) with ((1 + u) ^ k); [apply pow_gamma; assumption|].
      unfold P. replace k with (S (k - 1)) at 1 by lia. reflexivity. }
    eapply Rle_trans; [apply Rabs_triang|]. eapply Rle_trans; [apply Rplus_le_compat_r, Rabs_triang|].
    rewrite !Rabs_mult, (Rabs_pos_eq (/ N)) by lra.
    assert (T1 : Rabs (Sf - E) * / N * Rabs (1 + d) <= (P - 1) * A * / N * (1 + u)).
    { apply Rmult_le_compat; auto using Rabs_pos.
      - apply Rmult_le_pos; [apply Rabs_pos | lra].
      - apply Rmult_le_compat_r; lra. }
    assert (T2 : Rabs E * / N * Rabs d <= A * / N * u).
    { apply Rmult_le_compat; auto using Rabs_pos.
      - apply Rmult_le_pos; [apply Rabs_pos | lra].
      - apply Rmult_le_compat_r; lra. }
    assert (AN : 0 <= A * / N) by (apply Rmult_le_pos; lra).
    unfold Rdiv. nra.
  Qed.
End FpTree.

(* ---- the hypotheses hold for IEEE-754 binary64 arithmetic, round to nearest even (Flocq's FLT format with gradual
        underflow; "no overflow" = the unbounded-exponent format agrees with binary64 while |results| < 2^1024) ---- *)
From Flocq Require Import Core Relative Plus_error.

Definition fexp64 := FLT_exp (-1074) 53.
Definition rnd64 (x : R) : R := round radix2 fexp64 ZnearestE x.
Definition fmt64 (x : R) : Prop := generic_format radix2 fexp64 x.

Lemma prec53_gt_0 : Prec_gt_0 53. Proof. unfold Prec_gt_0. lia. Qed.
Lemma u64_bpow : u64 = / 2 * bpow radix2 (-53 + 1).
Proof. unfold u64. change (bpow radix2 (-53 + 1)) with (/ IZR (Z.pow_pos 2 52)). change (Z.pow_pos 2 52) with 4503599627370496%Z. lra. Qed.
Lemma eta64_bpow : eta64 = / 2 * bpow radix2 (-1074).
Proof.
  unfold eta64. rewrite bpow_powerRZ. change (IZR radix2) with 2.
  replace (-1075)%Z with (-1 + -1074)%Z by reflexivity. rewrite powerRZ_add by lra. f_equal.
  change (powerRZ 2 (-1)) with (/ (2 * 1)). f_equal. ring.
Qed.

Lemma rnd64_fmt x : fmt64 (rnd64 x).
Proof. apply generic_format_round; auto with typeclass_instances. apply FLT_exp_valid. exact prec53_gt_0. Qed.

Lemma add_model64 a b : fmt64 a -> fmt64 b -> exists d, Rabs d <= u64 /\ rnd64 (a + b) = (a + b) * (1 + d).
Proof.
  intros Fa Fb. pose proof prec53_gt_0 as P53.
  destruct (Rle_or_lt (Rabs (a + b)) (bpow radix2 (53 + -1074))) as [Hs|Hl].
  - exists 0. split; [rewrite Rabs_R0; unfold u64; lra|].
    unfold rnd64. rewrite round_generic; [ring | auto with typeclass_instances|].
    apply (FLT_format_plus_small radix2 (-1074) 53); assumption.
  - destruct (relative_error_N_FLT_ex radix2 (-1074) 53 P53 (fun x => negb (Z.even x)) (a + b)) as (eps & He & Hr).
    + left. eapply Rle_lt_trans; [|exact Hl]. apply bpow_le. lia.
    + exists eps. split; [rewrite u64_bpow; exact He | exact Hr].
Qed.
Lemma any_model64 y : exists d e, Rabs d <= u64 /\ Rabs e <= eta64 /\ rnd64 y = y * (1 + d) + e.
Proof.
  destruct (error_N_FLT radix2 (-1074) 53 ltac:(lia) (fun x => negb (Z.even x)) y) as (eps & et & H1 & H2 & _ & H3).
  exists eps, et. rewrite u64_bpow, eta64_bpow. auto.
Qed.
Lemma u64_nonneg : 0 <= u64. Proof. unfold u64. lra. Qed.
Lemma eta64_nonneg : 0 <= eta64. Proof. rewrite eta64_bpow. generalize (bpow_ge_0 radix2 (-1074)). lra. Qed.

Theorem fp_reassociation64 t1 t2 : all_fmt fmt64 t1 -> all_fmt fmt64 t2 -> Permutation (leaves t1) (leaves t2) ->
  INR (length (leaves t1) - 1) * u64 < 1 ->
  Rabs (tsum rnd64 t1 - tsum rnd64 t2) <= 2 * gamma u64 (length (leaves t1) - 1) * rabs_sum (leaves t1).
Proof. apply (fp_reassociation rnd64 fmt64 u64 u64_nonneg rnd64_fmt add_model64). Qed.
Theorem fp_tree_sum64 t : all_fmt fmt64 t -> INR (length (leaves t) - 1) * u64 < 1 ->
  Rabs (tsum rnd64 t - rsum (leaves t)) <= gamma u64 (length (leaves t) - 1) * rabs_sum (leaves t).
Proof. apply (fp_tree_sum rnd64 fmt64 u64 u64_nonneg rnd64_fmt add_model64). Qed.
Theorem fp_mean64 t vs z N : all_fmt fmt64 t -> Permutation (leaves t) (vs ++ repeat 0 z) -> 0 < N ->
  INR (length vs + z) * u64 < 1 ->
  Rabs (rnd64 (tsum rnd64 t / N) - rsum vs / N) <= gamma u64 (length vs + z) * (rabs_sum vs / N) + eta64.
Proof. apply (fp_mean rnd64 fmt64 u64 eta64 u64_nonneg rnd64_fmt add_model64 any_model64). Qed.

(* ================================================================================================== *)
(* 6. the executable form of the bound                                                                  *)
(* ================================================================================================== *)
From Coq Require Import Qreals.
Local Open Scope R_scope.
(* ---- the executable rational check evaluated by the driver is the bound of fp_mean ---- *)
Lemma Q2R_qabs x : Q2R (qabs x) = Rabs (Q2R x).
Proof.
  unfold qabs. destruct (Qle_bool 0 x) eqn:E.
  - apply Qle_bool_iff in E. apply Qle_Rle in E. rewrite RMicromega.Q2R_0 in E. now rewrite Rabs_pos_eq.
  - assert (H : (x < 0)%Q). { apply Qnot_le_lt. intro H. apply Qle_bool_iff in H. congruence. }
    apply Qlt_Rlt in H. rewrite RMicromega.Q2R_0 in H. rewrite Q2R_opp, Rabs_left; lra.
Qed.
Lemma Q2R_qsum l : Q2R (qsum l) = rsum (map Q2R l).
Proof. induction l as [|a l IH]; cbn [qsum fold_right map]; [apply RMicromega.Q2R_0|]. rewrite rsum_cons, Q2R_plus. unfold qsum in IH. now rewrite IH. Qed.
Lemma Q2R_qsumabs l : Q2R (qsumabs l) = rabs_sum (map Q2R l).
Proof.
  unfold rabs_sum. induction l as [|a l IH]; cbn [qsumabs fold_right map]; [apply RMicromega.Q2R_0|].
  rewrite rsum_cons, Q2R_plus, Q2R_qabs. unfold qsumabs in IH. now rewrite IH.
Qed.
Lemma Q2R_inject_Z z : Q2R (inject_Z z) = IZR z.
Proof. unfold Q2R, inject_Z. cbn. lra. Qed.
Lemma Q2R_u64 : Q2R u64Q = u64.
Proof. unfold Q2R, u64Q, u64. cbn. lra. Qed.
Lemma Q2R_eta64 : Q2R eta64Q = eta64.
Proof.
  unfold Q2R, eta64Q, eta64. cbn [Qnum Qden]. rewrite Rmult_1_l.
  change (powerRZ 2 (-1075)) with (/ (pow 2 (Pos.to_nat 1075))). f_equal.
  rewrite Pos2Z.inj_pow. rewrite <- (positive_nat_Z 1075) at 1. rewrite <- pow_IZR. reflexivity.
Qed.
Lemma Q2R_gammaQ k : (0 <= k)%Z -> IZR k * u64 < 1 -> Q2R (gammaQ k) = gamma u64 (Z.to_nat k).
Proof.
  intros Hk H. unfold gammaQ, gamma. rewrite INR_IZR_INZ, Z2Nat.id by exact Hk.
  assert (N : ~ (1 - inject_Z k * u64Q == 0)%Q).
  { intro E. apply Qeq_eqR in E. rewrite Q2R_minus, Q2R_mult, Q2R_inject_Z, Q2R_u64, RMicromega.Q2R_0, RMicromega.Q2R_1 in E. lra. }
  rewrite Q2R_div by exact N. rewrite Q2R_minus, !Q2R_mult, Q2R_inject_Z, Q2R_u64, RMicromega.Q2R_1. reflexivity.
Qed.

Theorem fp_mean_okb_sound k vs fx : (0 <= k)%Z -> vs <> [] -> IZR k * u64 < 1 -> fp_mean_okb k vs fx = true ->
  Rabs (Q2R fx - rsum (map Q2R vs) / IZR (Z.of_nat (length vs))) <=
  gamma u64 (Z.to_nat k) * (rabs_sum (map Q2R vs) / IZR (Z.of_nat (length vs))) + eta64.
Proof.
  intros Hk Hvs Hu H. unfold fp_mean_okb, fp_mean_bound in H. apply Qle_bool_iff in H. apply Qle_Rle in H.
  assert (N : ~ (inject_Z (Z.of_nat (length vs)) == 0)%Q).
  { intro E. apply Qeq_eqR in E. rewrite Q2R_inject_Z, RMicromega.Q2R_0 in E. apply eq_IZR in E. destruct vs; [congruence | cbn in E; lia]. }
  rewrite Q2R_qabs, Q2R_minus, Q2R_plus, !Q2R_div, Q2R_mult, Q2R_qsum, Q2R_qsumabs, Q2R_inject_Z, Q2R_eta64, Q2R_gammaQ in H by assumption.
  unfold Rdiv in *. lra.
Qed.
