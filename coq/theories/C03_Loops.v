(* C03, extension LOOP -- proofs about C03_Loops_Defs.v: the curve search, the outer loops of RQB / FPBA (for EVERY oracle: bundle
   QP, function, bundle operations are Section variables), proximity_t and the Nesterov sequences, over exact rationals. *)
From Coq Require Import List ZArith QArith Qabs Bool Lia Lra Psatz.
From LN Require Import C03_Defs C03_Proofs C03_Loops_Defs.
From LNGen Require Import Src_c03.
Import ListNotations.
Local Open Scope Q_scope.

(* ---- the translated kernels, as the proofs use them --------------------------------------------------------------------- *)
Lemma k_cs_budget c m : src_c03_cs_budget c 0 m = (c <? m)%Z.
Proof. unfold src_c03_cs_budget. now rewrite Z.add_0_r. Qed.
Lemma k_rqb_budget c m : src_c03_rqb_budget c 0 m = (c <? m)%Z.
Proof. unfold src_c03_rqb_budget. now rewrite Z.add_0_r. Qed.
Lemma k_fpba_budget c m : src_c03_fpba_budget c 0 m = (c <? m)%Z.
Proof. unfold src_c03_fpba_budget. now rewrite Z.add_0_r. Qed.

Lemma Qle_bool_true a b : Qle_bool a b = true <-> a <= b.
Proof. apply Qle_bool_iff. Qed.
Lemma Qle_bool_false a b : Qle_bool a b = false <-> b < a.
Proof.
  split; intro H.
  - apply Qnot_le_lt. intro K. apply Qle_bool_iff in K. congruence.
  - destruct (Qle_bool a b) eqn:E; [|reflexivity]. apply Qle_bool_iff in E. exfalso. apply (Qlt_not_le _ _ H E).
Qed.

(* ---- one pass ------------------------------------------------------------------------------------------------------------- *)
(* every status that a pass assigns, with the tests that lead to it (csearch_status: failed 0, converged 2, null_step 3,
   descent_step 4, cutting_plane_step 5; max_iters = 1 is never assigned) *)
Definition cs_ret_spec (P : cs_params) (t tL : Q) (tR : option Q) (a : cs_ans) (s : Z) (tL' : Q) (tR' : option Q) : Prop :=
  (s = 0%Z /\ a_finite a = false /\ tL' = tL /\ tR' = tR) \/
  (s = 2%Z /\ a_finite a = true /\ a_econv a = true /\ a_sconv a = true /\ tL' = tL /\ tR' = tR) \/
  (s = 4%Z /\ a_finite a = true /\ p_m1 P * a_delta a <= a_fx a - a_fy a /\ - p_m2 P * a_delta a <= a_gdot a /\ tL' = t /\ tR' = tR) \/
  (s = 5%Z /\ a_finite a = true /\ p_m1 P * a_delta a <= a_fx a - a_fy a /\ a_gdot a < - p_m2 P * a_delta a /\ tR = None /\
   (a_sconv a = true \/ - p_m4 P * a_delta a <= a_sdot a) /\ tL' = t /\ tR' = None) \/
  (s = 3%Z /\ a_finite a = true /\ a_fx a - a_fy a < p_m1 P * a_delta a /\ tL < p_eps0 P /\ a_e a <= p_m3 P * a_delta a /\
   tL' = tL /\ tR' = Some t).

Lemma cs_pass_ret P t tL tR a s tL' tR' :
  cs_pass P t tL tR a = PRet s tL' tR' -> cs_ret_spec P t tL tR a s tL' tR'.
Proof.
  unfold cs_pass, cs_ret_spec, src_c03_cs_failed, src_c03_cs_converged, src_c03_cs_descent, src_c03_cs_dstep, src_c03_cs_cstep,
    src_c03_cs_null, src_c03_cs_descent_moves, src_c03_cs_else_moves, cs_move, src_c03_cs_st_failed, src_c03_cs_st_converged,
    src_c03_cs_st_null, src_c03_cs_st_descent, src_c03_cs_st_cutting, cs_m1_test, cs_m2_test, cs_m3_test, cs_m4_test.
  simpl Z.eqb. cbv iota. simpl fst. simpl snd.
  destruct (a_finite a) eqn:Ef; simpl negb; cbv iota.
  2:{ intro H; inversion H; subst. left. auto. }
  destruct (a_econv a) eqn:Ee, (a_sconv a) eqn:Es; simpl andb; cbv iota;
    try (intro H; inversion H; subst; right; left; now auto).
  all: destruct (Qle_bool (p_m1 P * a_delta a) (a_fx a - a_fy a)) eqn:E1;
       [ apply Qle_bool_true in E1 | apply Qle_bool_false in E1 ].
  all: try (destruct (Qle_bool (- p_m2 P * a_delta a) (a_gdot a)) eqn:E2;
            [ apply Qle_bool_true in E2; intro H; inversion H; subst; right; right; left; now auto
            | apply Qle_bool_false in E2 ]).
  all: try (destruct tR as [r|]; simpl is_some; simpl negb; simpl andb; cbv iota; [ intro H; discriminate H | ]).
  all: try (destruct (Qle_bool (- p_m4 P * a_delta a) (a_sdot a)) eqn:E4; simpl orb; simpl andb; cbv iota;
            [ apply Qle_bool_true in E4 | ]).
  all: try (intro H; inversion H; subst; right; right; right; left; repeat split; auto; fail).
  all: try (intro H; discriminate H).
  all: try (destruct (Qltb tL (p_eps0 P)) eqn:E5; simpl andb; cbv iota; [ apply Qltb_true in E5 | intro H; discriminate H ];
            destruct (Qle_bool (a_e a) (p_m3 P * a_delta a)) eqn:E3; cbv iota; [ apply Qle_bool_true in E3 | intro H; discriminate H ];
            intro H; inversion H; subst; right; right; right; right; repeat split; auto).
Qed.

(* ---- the bracket ------------------------------------------------------------------------------------------------------------ *)
(* at the head of the loop: 0 <= tL < t < tR (strictly inside; tR = None is +infinity) *)
Definition cs_inv (t tL : Q) (tR : option Q) : Prop := 0 <= tL /\ tL < t /\ (forall r, tR = Some r -> t < r).
(* when a status is returned: tL <= t <= tR (one end of the bracket may have been moved onto t) *)
Definition cs_inv_ret (t tL : Q) (tR : option Q) : Prop := 0 <= tL /\ tL <= t /\ 0 < t /\ (forall r, tR = Some r -> t <= r).
Definition cs_params_ok (P : cs_params) : Prop := 0 < p_interpol P /\ p_interpol P < 1 /\ 1 < p_extrapol P.

Lemma interp_inside ip a b : 0 < ip -> ip < 1 -> a < b -> a < (1 - ip) * a + ip * b /\ (1 - ip) * a + ip * b < b.
Proof. intros. split; nra. Qed.

Lemma cs_pass_cont P t tL tR a t' tL' tR' :
  cs_params_ok P -> cs_inv t tL tR -> cs_pass P t tL tR a = PCont t' tL' tR' ->
  cs_inv t' tL' tR' /\ a_finite a = true /\
  ((tL' = t /\ tR' = tR /\ p_m1 P * a_delta a <= a_fx a - a_fy a) \/
   (tL' = tL /\ tR' = Some t /\ a_fx a - a_fy a < p_m1 P * a_delta a)).
Proof.
  intros (Hi0 & Hi1 & He) (H0 & H1 & H2).
  unfold cs_pass, src_c03_cs_failed, src_c03_cs_converged, src_c03_cs_descent, src_c03_cs_dstep, src_c03_cs_cstep,
    src_c03_cs_null, src_c03_cs_descent_moves, src_c03_cs_else_moves, cs_move, cs_m1_test, new_trial, src_c03_cs_interp.
  simpl Z.eqb. cbv iota. simpl fst. simpl snd.
  destruct (a_finite a) eqn:Ef; simpl negb; cbv iota; [| intro H; discriminate H].
  destruct (andb (a_econv a) (a_sconv a)); [intro H; discriminate H|].
  destruct (Qle_bool (p_m1 P * a_delta a) (a_fx a - a_fy a)) eqn:E1;
    [ apply Qle_bool_true in E1 | apply Qle_bool_false in E1 ].
  - destruct (cs_m2_test P a); [intro H; discriminate H|].
    destruct (andb (negb (is_some tR)) (orb (a_sconv a) (cs_m4_test P a))); [intro H; discriminate H|].
    match goal with |- PCont (Qred ?x) _ _ = _ -> _ => pose proof (Qred_correct x) as EQ; set (X := Qred x) in * end.
    intro H; injection H as Ht HtL HtR; subst t' tL' tR'. split; [|split; [reflexivity|left; auto]].
    unfold cs_inv. setoid_rewrite EQ. clear EQ X.
    destruct tR as [r|]; simpl is_some; cbv iota.
    + pose proof (H2 r eq_refl) as Hr. destruct (interp_inside (p_interpol P) t r Hi0 Hi1 Hr) as [Ha Hb].
      repeat split; try lra. intros r' Hr'. inversion Hr'; subst. exact Hb.
    + repeat split; try lra; try nra. intros r' Hr'. discriminate Hr'.
  - destruct (andb (Qltb tL (p_eps0 P)) (cs_m3_test P a)); [intro H; discriminate H|].
    match goal with |- PCont (Qred ?x) _ _ = _ -> _ => pose proof (Qred_correct x) as EQ; set (X := Qred x) in * end.
    intro H; injection H as Ht HtL HtR; subst t' tL' tR'. split; [|split; [reflexivity|right; auto]].
    unfold cs_inv. setoid_rewrite EQ. clear EQ X.
    simpl is_some. cbv iota. destruct (interp_inside (p_interpol P) tL t Hi0 Hi1 H1) as [Ha Hb].
    repeat split; try lra. intros r' Hr'. inversion Hr'; subst. exact Hb.
Qed.

Lemma cs_pass_ret_bracket P t tL tR a s tL' tR' :
  cs_inv t tL tR -> cs_pass P t tL tR a = PRet s tL' tR' -> cs_inv_ret t tL' tR'.
Proof.
  intros (H0 & H1 & H2) H. apply cs_pass_ret in H.
  unfold cs_inv_ret.
  destruct H as [(_ & _ & -> & ->) | [(_ & _ & _ & _ & -> & ->) | [(_ & _ & _ & _ & -> & ->) | [(_ & _ & _ & _ & _ & _ & -> & ->) | (_ & _ & _ & _ & _ & -> & ->)]]]].
  - repeat split; try lra. intros r Hr. apply H2 in Hr. lra.
  - repeat split; try lra. intros r Hr. apply H2 in Hr. lra.
  - repeat split; try lra. intros r Hr. apply H2 in Hr. lra.
  - repeat split; try lra. intros r Hr. discriminate Hr.
  - repeat split; try lra. intros r Hr. inversion Hr; subst. lra.
Qed.

(* ---- the loop of csearch_t::search, for every oracle ---------------------------------------------------------------------- *)
Section SearchProofs.
  Variable Or : Type.
  Variable ask : Or -> Q -> Or * cs_ans.
  Local Notation loop := (cs_loop Or ask).

  Lemma loop_unfold fuel P miu M calls t tL tR o last passes :
    loop fuel P miu M calls t tL tR o last passes =
    if negb (calls <? M)%Z then mk_res Or o None false t tL tR calls last passes
    else match fuel with
         | O => mk_res Or o None true t tL tR calls last passes
         | S k =>
             let oa := ask o (miu / t) in
             let calls' := (calls + p_cost P)%Z in
             match cs_pass P t tL tR (snd oa) with
             | PRet s tL' tR' => mk_res Or (fst oa) (Some s) false t tL' tR' calls' (Some (snd oa)) (S passes)
             | PCont t' tL' tR' => loop k P miu M calls' t' tL' tR' (fst oa) (Some (snd oa)) (S passes)
             end
         end.
  Proof. destruct fuel; simpl; rewrite k_cs_budget; reflexivity. Qed.

  (* (1) accounting: every pass evaluates once; the last evaluation started inside the budget; enough fuel is never used up *)
  Lemma loop_calls : forall fuel P miu M calls t tL tR o last passes,
    let r := loop fuel P miu M calls t tL tR o last passes in
    (passes <= r_passes r)%nat /\
    r_calls r = (calls + p_cost P * Z.of_nat (r_passes r - passes))%Z /\
    ((passes < r_passes r)%nat -> (r_calls r - p_cost P < M)%Z) /\
    (r_passes r = passes -> r_assigned r = None /\ r_last r = last /\ r_t r = t /\ r_tL r = tL /\ r_tR r = tR /\ r_or r = o).
  Proof.
    induction fuel as [|k IH]; intros P miu M calls t tL tR o last passes; cbv zeta; rewrite loop_unfold.
    - destruct (calls <? M)%Z; simpl; rewrite Nat.sub_diag; repeat split; try lia; auto.
    - destruct (calls <? M)%Z eqn:Eb; simpl negb; cbv iota.
      + cbv zeta. destruct (cs_pass P t tL tR (snd (ask o (miu / t)))) as [s tL' tR'|t' tL' tR'].
        * cbn [r_passes r_calls r_assigned r_last r_t r_tL r_tR r_or]. apply Z.ltb_lt in Eb.
          replace (S passes - passes)%nat with 1%nat by lia. repeat split; try lia.
        * specialize (IH P miu M (calls + p_cost P)%Z t' tL' tR' (fst (ask o (miu / t))) (Some (snd (ask o (miu / t)))) (S passes)).
          cbv zeta in IH. destruct IH as (I1 & I2 & I3 & I4).
          set (r := loop k P miu M (calls + p_cost P)%Z t' tL' tR' (fst (ask o (miu / t))) (Some (snd (ask o (miu / t)))) (S passes)) in *.
          apply Z.ltb_lt in Eb.
          repeat split; try lia.
          rewrite I2. replace (r_passes r - passes)%nat with (S (r_passes r - S passes))%nat by lia. lia.
      + simpl. rewrite Nat.sub_diag. repeat split; try lia; auto.
  Qed.

  Lemma loop_fuel : forall fuel P miu M calls t tL tR o last passes,
    (1 <= p_cost P)%Z -> (M - calls <= Z.of_nat fuel)%Z ->
    r_fuel_out (loop fuel P miu M calls t tL tR o last passes) = false.
  Proof.
    induction fuel as [|k IH]; intros P miu M calls t tL tR o last passes Hc Hf; rewrite loop_unfold.
    - destruct (calls <? M)%Z eqn:Eb; simpl; [apply Z.ltb_lt in Eb; lia | reflexivity].
    - destruct (calls <? M)%Z eqn:Eb; simpl negb; cbv iota; [|reflexivity].
      cbv zeta. destruct (cs_pass P t tL tR (snd (ask o (miu / t)))); [reflexivity|].
      apply IH; lia.
  Qed.

  Lemma loop_progress : forall fuel P miu M calls t tL tR o last passes,
    (calls < M)%Z -> (0 < fuel)%nat -> (passes < r_passes (loop fuel P miu M calls t tL tR o last passes))%nat.
  Proof.
    intros [|k] P miu M calls t tL tR o last passes Hb Hf; [lia|]. rewrite loop_unfold.
    apply Z.ltb_lt in Hb. rewrite Hb. simpl negb. cbv iota zeta.
    destruct (cs_pass P t tL tR (snd (ask o (miu / t)))) as [s tL' tR'|t' tL' tR']; [simpl; lia|].
    pose proof (loop_calls k P miu M (calls + p_cost P)%Z t' tL' tR' (fst (ask o (miu / t))) (Some (snd (ask o (miu / t)))) (S passes)) as H.
    cbv zeta in H. lia.
  Qed.

  (* (2) status soundness + (5) bracket: an ASSIGNED status is the verdict of cs_pass on the last answer read, at the returned t,
     with the bracket around it; when NO status is assigned the loop was ended by its guard (budget), strictly inside the bracket *)
  Lemma loop_status : forall fuel P miu M calls t tL tR o last passes,
    cs_params_ok P -> cs_inv t tL tR ->
    let r := loop fuel P miu M calls t tL tR o last passes in
    (forall s, r_assigned r = Some s ->
       exists a tL0 tR0, r_last r = Some a /\ cs_inv (r_t r) tL0 tR0 /\ cs_pass P (r_t r) tL0 tR0 a = PRet s (r_tL r) (r_tR r)) /\
    (r_assigned r = None -> cs_inv (r_t r) (r_tL r) (r_tR r) /\ (r_fuel_out r = false -> (M <= r_calls r)%Z)).
  Proof.
    induction fuel as [|k IH]; intros P miu M calls t tL tR o last passes HP Hinv; cbv zeta; rewrite loop_unfold.
    - destruct (calls <? M)%Z eqn:Eb; simpl; (split; [intros s H; discriminate H|]); intros _; split; auto.
      + intro H; discriminate H.
      + intros _. apply Z.ltb_ge in Eb. exact Eb.
    - destruct (calls <? M)%Z eqn:Eb; simpl negb; cbv iota.
      + cbv zeta. destruct (cs_pass P t tL tR (snd (ask o (miu / t)))) as [s tL' tR'|t' tL' tR'] eqn:Ep.
        * simpl. split; [|intro H; discriminate H].
          intros s0 H; injection H as <-. exists (snd (ask o (miu / t))), tL, tR. auto.
        * apply (cs_pass_cont P t tL tR _ t' tL' tR' HP Hinv) in Ep. destruct Ep as (Hinv' & _).
          apply (IH P miu M (calls + p_cost P)%Z t' tL' tR' (fst (ask o (miu / t))) (Some (snd (ask o (miu / t)))) (S passes) HP Hinv').
      + simpl. split; [intros s H; discriminate H|]. intros _; split; auto. intros _. apply Z.ltb_ge in Eb. exact Eb.
  Qed.

  (* an invariant of the oracle that every pass keeps is kept by the call; the answers read satisfy what it promises *)
  Lemma loop_oracle_inv (I : Or -> Prop) (A : cs_ans -> Prop) :
    (forall o mt, I o -> I (fst (ask o mt)) /\ A (snd (ask o mt))) ->
    forall fuel P miu M calls t tL tR o last passes,
    I o -> (forall a, last = Some a -> A a) ->
    let r := loop fuel P miu M calls t tL tR o last passes in
    I (r_or r) /\ (forall a, r_last r = Some a -> A a).
  Proof.
    intros Hask. induction fuel as [|k IH]; intros P miu M calls t tL tR o last passes Ho Hl; cbv zeta; rewrite loop_unfold.
    - destruct (calls <? M)%Z; simpl; auto.
    - destruct (calls <? M)%Z; simpl negb; cbv iota; [|simpl; auto].
      cbv zeta. destruct (Hask o (miu / t) Ho) as [Ho' Ha].
      destruct (cs_pass P t tL tR (snd (ask o (miu / t)))) as [s tL' tR'|t' tL' tR'].
      + simpl. split; auto. intros a H; injection H as <-. exact Ha.
      + apply IH; auto. intros a H; injection H as <-. exact Ha.
  Qed.

  Lemma loop_last : forall fuel P miu M calls t tL tR o last passes,
    (passes < r_passes (loop fuel P miu M calls t tL tR o last passes))%nat ->
    exists a, r_last (loop fuel P miu M calls t tL tR o last passes) = Some a.
  Proof.
    induction fuel as [|k IH]; intros P miu M calls t tL tR o last passes; rewrite loop_unfold.
    - destruct (calls <? M)%Z; simpl; lia.
    - destruct (calls <? M)%Z; simpl negb; cbv iota; [|simpl; lia].
      cbv zeta. destruct (cs_pass P t tL tR (snd (ask o (miu / t)))) as [s tL' tR'|t' tL' tR'].
      + simpl. eauto.
      + intros H.
        pose proof (loop_calls k P miu M (calls + p_cost P)%Z t' tL' tR' (fst (ask o (miu / t))) (Some (snd (ask o (miu / t)))) (S passes)) as L.
        cbv zeta in L. destruct L as (L1 & _ & _ & L4).
        destruct (Nat.eq_dec (r_passes (loop k P miu M (calls + p_cost P)%Z t' tL' tR' (fst (ask o (miu / t))) (Some (snd (ask o (miu / t)))) (S passes))) (S passes)) as [E|E].
        * destruct (L4 E) as (_ & -> & _). eauto.
        * apply IH. lia.
  Qed.

  Lemma cs_init_inv : cs_inv 1 0 None.
  Proof. unfold cs_inv. repeat split; try lra. intros r H; discriminate H. Qed.

  (* what the callers use: one call of search() under the guard of the outer loop *)
  Lemma search_facts P miu M calls o :
    (1 <= p_cost P)%Z -> cs_params_ok P -> (calls < M)%Z ->
    let r := cs_search Or ask P miu M calls o in
    r_fuel_out r = false /\ (1 <= r_passes r)%nat /\ r_calls r = (calls + p_cost P * Z.of_nat (r_passes r))%Z /\
    (r_calls r - p_cost P < M)%Z /\ (exists a, r_last r = Some a) /\
    (forall s, r_assigned r = Some s ->
       exists a tL0 tR0, r_last r = Some a /\ cs_inv (r_t r) tL0 tR0 /\ cs_pass P (r_t r) tL0 tR0 a = PRet s (r_tL r) (r_tR r)) /\
    (r_assigned r = None -> cs_inv (r_t r) (r_tL r) (r_tR r) /\ (M <= r_calls r)%Z).
  Proof.
    intros Hc HP Hb. unfold cs_search. cbv zeta.
    set (fuel := Z.to_nat (M - calls)).
    assert (Hf : (M - calls <= Z.of_nat fuel)%Z) by (unfold fuel; lia).
    assert (Hf0 : (0 < fuel)%nat) by (unfold fuel; lia).
    pose proof (loop_fuel fuel P miu M calls 1 0 None o None 0%nat Hc Hf) as F.
    pose proof (loop_progress fuel P miu M calls 1 0 None o None 0%nat Hb Hf0) as G.
    pose proof (loop_calls fuel P miu M calls 1 0 None o None 0%nat) as L. cbv zeta in L. destruct L as (L1 & L2 & L3 & _).
    pose proof (loop_last fuel P miu M calls 1 0 None o None 0%nat G) as La.
    pose proof (loop_status fuel P miu M calls 1 0 None o None 0%nat HP cs_init_inv) as S. cbv zeta in S. destruct S as (S1 & S2).
    rewrite Nat.sub_0_r in L2.
    split; [exact F|]. split; [lia|]. split; [lia|]. split; [lia|]. split; [exact La|]. split; [exact S1|].
    intro HN. destruct (S2 HN) as [A B]. split; [exact A | apply B; exact F].
  Qed.

  (* the stale path at ENTRY: with the budget already exhausted no pass runs and no status is assigned *)
  Lemma search_entry_exhausted P miu M calls o :
    (M <= calls)%Z -> let r := cs_search Or ask P miu M calls o in
    r_assigned r = None /\ r_passes r = 0%nat /\ r_calls r = calls /\ r_last r = None.
  Proof.
    intros Hb. unfold cs_search. cbv zeta. rewrite loop_unfold.
    apply Z.ltb_ge in Hb. rewrite Hb. simpl. auto.
  Qed.
End SearchProofs.

(* ---- the outer loops ---------------------------------------------------------------------------------------------------------- *)
Section OuterProofs.
  Variable Or : Type.
  Variable ask : Or -> Q -> Or * cs_ans.
  Variable valid_of : Or -> bool.
  Variable prox_of : Or -> Q -> Q -> Q.
  Variable serious : Or -> Q -> Or.
  Variable nullstep : Or -> Or.
  Variable momentum : Or -> Q -> Or * option Q.
  Variable init_status : option Z.

  (* a loop `while (budget) { iter }` whose body makes progress in fcalls + gcalls *)
  Section Generic.
    Variable budget : Z -> Z -> Z -> bool.
    Variable iter : cs_params -> Z -> ost Or -> iter_out Or.
    Variable K : Z.
    Hypothesis Hbudget : forall c m, budget c 0%Z m = (c <? m)%Z.
    Variable P : cs_params.
    Variable M : Z.
    Hypothesis Hiter : forall s, (s_calls s < M)%Z ->
      match iter P M s with
      | INext s' u => (s_calls s < s_calls s')%Z /\ (s_calls s' <= M + K)%Z /\ (u = true -> (M <= s_calls s')%Z)
      | IDone s1 z => (s_calls s1 <= M + K)%Z
      end.

    Lemma outer_terminates : forall fuel s stale iters,
      (M - s_calls s <= Z.of_nat fuel)%Z ->
      let R := outer_loop Or budget iter fuel P M s stale iters in
      o_exit R <> EFuel /\ (s_calls (o_final R) <= Z.max (s_calls s) (M + K))%Z /\
      (o_exit R = EBudget -> (M <= s_calls (o_final R))%Z) /\
      (stale = false -> o_stale R = true -> o_exit R = EBudget).
    Proof.
      induction fuel as [|k IH]; intros s stale iters Hf; cbv zeta; simpl; rewrite Hbudget.
      - destruct (s_calls s <? M)%Z eqn:Eb; simpl.
        + apply Z.ltb_lt in Eb. lia.
        + apply Z.ltb_ge in Eb. repeat split; try lia; try discriminate; auto; try (intros -> H; discriminate H).
      - destruct (s_calls s <? M)%Z eqn:Eb; simpl negb; cbv iota.
        + apply Z.ltb_lt in Eb. pose proof (Hiter s Eb) as Hi.
          destruct (iter P M s) as [s1 z|s' u].
          * simpl. repeat split; try lia; try discriminate; try (intros -> H; discriminate H).
          * destruct Hi as (H1 & H2 & H3).
            assert (Hf' : (M - s_calls s' <= Z.of_nat k)%Z) by lia.
            destruct (IH s' (stale || u) (S iters) Hf') as (I1 & I2 & I3 & I4). cbv zeta in I1, I2, I3, I4.
            repeat split; auto; try lia.
            intros -> HS. simpl orb in *. destruct u.
            -- (* the unvetted move exhausted the budget: the loop ends at the next guard *)
               specialize (H3 eq_refl). destruct k as [|k']; simpl; rewrite Hbudget;
                 (assert (Ez : (s_calls s' <? M)%Z = false) by (apply Z.ltb_ge; lia)); rewrite Ez; reflexivity.
            -- apply I4; auto.
        + apply Z.ltb_ge in Eb. simpl. repeat split; try lia; try discriminate; auto; try (intros -> H; discriminate H).
    Qed.

    (* the value of the state along the loop, as long as no unvetted move happened *)
    Variable J : ost Or -> Prop.
    Hypothesis Hvalue : forall s, (s_calls s < M)%Z -> J s ->
      match iter P M s with
      | INext s' u => u = false -> J s' /\ s_fx s' <= s_fx s
      | IDone s1 z => s_fx s1 <= s_fx s
      end.

    Lemma outer_monotone : forall fuel s iters,
      J s -> let R := outer_loop Or budget iter fuel P M s false iters in
      o_stale R = false -> s_fx (o_final R) <= s_fx s.
    Proof.
      induction fuel as [|k IH]; intros s iters HJ; cbv zeta; simpl; rewrite Hbudget.
      - destruct (s_calls s <? M)%Z; simpl; intros _; lra.
      - destruct (s_calls s <? M)%Z eqn:Eb; simpl negb; cbv iota; [|simpl; intros _; lra].
        apply Z.ltb_lt in Eb. pose proof (Hvalue s Eb HJ) as Hv. pose proof (Hiter s Eb) as Hi.
        destruct (iter P M s) as [s1 z|s' u].
        + simpl. intros _. exact Hv.
        + simpl orb. destruct u.
          * (* stale from here on: o_stale R = true *)
            destruct Hi as (_ & _ & H3). specialize (H3 eq_refl).
            destruct k as [|k']; simpl; rewrite Hbudget;
              (assert (Ez : (s_calls s' <? M)%Z = false) by (apply Z.ltb_ge; lia)); rewrite Ez; simpl; intro H; discriminate H.
          * destruct (Hv eq_refl) as [HJ' Hle]. intro HS. specialize (IH s' (S iters) HJ' HS). lra.
    Qed.

    Lemma outer_no_stale :
      (forall s, match iter P M s with INext _ u => u = false | IDone _ _ => True end) ->
      forall fuel s stale iters, o_stale (outer_loop Or budget iter fuel P M s stale iters) = stale.
    Proof.
      intros Hnu. induction fuel as [|k IH]; intros s stale iters; simpl; rewrite Hbudget.
      - destruct (s_calls s <? M)%Z; reflexivity.
      - destruct (s_calls s <? M)%Z; simpl negb; cbv iota; [|reflexivity].
        pose proof (Hnu s) as Hs. destruct (iter P M s) as [s1 z|s' u]; [reflexivity|].
        rewrite IH, Hs. apply orb_false_r.
    Qed.

    (* the value when EVERY continuing iteration keeps it below (FPBA: update_if_better) *)
    Hypothesis Hvalue_all : forall s, (s_calls s < M)%Z ->
      match iter P M s with
      | INext s' u => s_fx s' <= s_fx s
      | IDone s1 z => s_fx s1 <= s_fx s
      end.
    Lemma outer_monotone_all : forall fuel s stale iters,
      s_fx (o_final (outer_loop Or budget iter fuel P M s stale iters)) <= s_fx s.
    Proof.
      induction fuel as [|k IH]; intros s stale iters; simpl; rewrite Hbudget.
      - destruct (s_calls s <? M)%Z; simpl; lra.
      - destruct (s_calls s <? M)%Z eqn:Eb; simpl negb; cbv iota; [|simpl; lra].
        apply Z.ltb_lt in Eb. pose proof (Hvalue_all s Eb) as Hv.
        destruct (iter P M s) as [s1 z|s' u]; [simpl; exact Hv|].
        specialize (IH s' (stale || u) (S iters)). lra.
    Qed.
  End Generic.

  (* ---- RQB ---- *)
  Lemma k_is_descent st : src_c03_rqb_is_descent st = true -> st = 4%Z.
  Proof. unfold src_c03_rqb_is_descent. apply Z.eqb_eq. Qed.
  Lemma k_is_cutting st : src_c03_rqb_is_cutting st = true -> st = 5%Z.
  Proof. unfold src_c03_rqb_is_cutting. apply Z.eqb_eq. Qed.

  Lemma rqb_iter_calls P M s :
    (1 <= p_cost P)%Z -> cs_params_ok P -> (s_calls s < M)%Z ->
    match rqb_iter Or ask valid_of prox_of serious nullstep init_status P M s with
    | INext s' u => (s_calls s < s_calls s')%Z /\ (s_calls s' <= M + (p_cost P - 1))%Z /\ (u = true -> (M <= s_calls s')%Z)
    | IDone s1 z => (s_calls s1 <= M + (p_cost P - 1))%Z
    end.
  Proof.
    intros Hc HP Hb. unfold rqb_iter. cbv zeta.
    pose proof (search_facts Or ask P (s_miu s) M (s_calls s) (s_or s) Hc HP Hb) as F. cbv zeta in F.
    set (r := cs_search Or ask P (s_miu s) M (s_calls s) (s_or s)) in *.
    destruct F as (_ & F1 & F2 & F3 & _ & _ & F6).
    assert (Hu : negb (is_some (r_assigned r)) = true -> (M <= r_calls r)%Z).
    { destruct (r_assigned r); simpl; [discriminate|]. intros _. apply F6. reflexivity. }
    destruct (rqb_done (member_status Or init_status s r) (valid_of (r_or r))); [simpl; lia|].
    destruct (src_c03_rqb_is_descent (member_status Or init_status s r)); [simpl; repeat split; try lia; exact Hu|].
    destruct (src_c03_rqb_is_cutting (member_status Or init_status s r)); [simpl; repeat split; try lia; exact Hu|].
    destruct (src_c03_rqb_is_null (member_status Or init_status s r)); simpl; repeat split; try lia; discriminate.
  Qed.

  (* what the oracle must satisfy for the value statements: the answers report the current centre value and a non-negative
     predicted decrease (C03_delta_nonneg: true of the bundle model under its invariant), moveto() re-centres at the given value *)
  Section RqbValue.
    Variable I : Or -> Q -> Prop.
    Hypothesis Hask : forall o v mt, I o v -> I (fst (ask o mt)) v /\ (a_fx (snd (ask o mt)) == v /\ 0 <= a_delta (snd (ask o mt))).
    Hypothesis Hser : forall o v w, I o v -> I (serious o w) w.
    Hypothesis Hnull : forall o v, I o v -> I (nullstep o) v.

    Lemma rqb_iter_value P M s :
      (1 <= p_cost P)%Z -> cs_params_ok P -> 0 <= p_m1 P -> (s_calls s < M)%Z -> I (s_or s) (s_fx s) ->
      match rqb_iter Or ask valid_of prox_of serious nullstep init_status P M s with
      | INext s' u => u = false -> I (s_or s') (s_fx s') /\ s_fx s' <= s_fx s
      | IDone s1 z => s_fx s1 <= s_fx s
      end.
    Proof.
      intros Hc HP Hm1 Hb HI. unfold rqb_iter. cbv zeta.
      pose proof (search_facts Or ask P (s_miu s) M (s_calls s) (s_or s) Hc HP Hb) as F. cbv zeta in F.
      pose proof (loop_oracle_inv Or ask (fun o => I o (s_fx s)) (fun a => a_fx a == s_fx s /\ 0 <= a_delta a)
                    (fun o mt Ho => Hask o (s_fx s) mt Ho) (Z.to_nat (M - s_calls s)) P (s_miu s) M (s_calls s) 1 0 None (s_or s) None 0%nat HI) as L.
      cbv zeta in L. fold (cs_search Or ask P (s_miu s) M (s_calls s) (s_or s)) in L.
      set (r := cs_search Or ask P (s_miu s) M (s_calls s) (s_or s)) in *.
      destruct L as [LI LA]; [intros a H; discriminate H|].
      destruct F as (_ & _ & _ & _ & _ & F5 & _).
      destruct (rqb_done (member_status Or init_status s r) (valid_of (r_or r))); [simpl; lra|].
      (* a serious step on a status assigned in this call: the m1 test held on the answer whose fy becomes the value *)
      assert (Hstep : forall st, r_assigned r = Some st -> st = 4%Z \/ st = 5%Z ->
                fy_value (member_fy Or s r) <= s_fx s).
      { intros st Hst Hcase. destruct (F5 st Hst) as (a & tL0 & tR0 & Hl & _ & Hp).
        apply cs_pass_ret in Hp. destruct (LA a Hl) as [Hfx Hd].
        unfold member_fy. rewrite Hl.
        assert (Hfin : a_finite a = true /\ p_m1 P * a_delta a <= a_fx a - a_fy a).
        { destruct Hp as [(E & _) | [(E & _) | [(E & Hf & Hm & _) | [(E & Hf & Hm & _) | (E & _)]]]]; try (destruct Hcase; lia); auto. }
        destruct Hfin as [Hf Hm]. rewrite Hf. simpl. nra. }
      unfold member_status in *.
      destruct (r_assigned r) as [st|] eqn:Ea; simpl is_some; simpl negb.
      - destruct (src_c03_rqb_is_descent st) eqn:E4.
        + apply k_is_descent in E4. simpl. intros _. split; [apply Hser with (v := s_fx s); exact LI | apply (Hstep st eq_refl); auto].
        + destruct (src_c03_rqb_is_cutting st) eqn:E5.
          * apply k_is_cutting in E5. simpl. intros _. split; [apply Hser with (v := s_fx s); exact LI | apply (Hstep st eq_refl); auto].
          * destruct (src_c03_rqb_is_null st); simpl; intros _; (split; [|lra]); auto.
      - generalize (match init_status with Some z0 => z0 | None => s_mstatus s end). intro st0.
        destruct (src_c03_rqb_is_descent st0); [simpl; intro H; discriminate H|].
        destruct (src_c03_rqb_is_cutting st0); [simpl; intro H; discriminate H|].
        destruct (src_c03_rqb_is_null st0); simpl; intros _; (split; [|lra]); auto.
    Qed.
  End RqbValue.

  (* ---- FPBA ---- *)
  Lemma better_le v x : better v x <= v.
  Proof.
    unfold better. destruct x as [w|]; [|lra]. destruct (Qltb 0 (v - w)) eqn:E; [|lra]. apply Qltb_true in E. lra.
  Qed.
  Lemma better_le_val v w : better v (Some w) <= w.
  Proof.
    unfold better. destruct (Qltb 0 (v - w)) eqn:E; [lra|]. apply Qltb_false in E. lra.
  Qed.

  Lemma fpba_iter_calls P M s :
    (1 <= p_cost P)%Z -> cs_params_ok P -> (s_calls s < M)%Z ->
    match fpba_iter Or ask valid_of prox_of nullstep momentum init_status P M s with
    | INext s' u => (s_calls s < s_calls s')%Z /\ (s_calls s' <= M + (2 * p_cost P - 1))%Z /\ (u = true -> (M <= s_calls s')%Z)
    | IDone s1 z => (s_calls s1 <= M + (2 * p_cost P - 1))%Z
    end.
  Proof.
    intros Hc HP Hb. unfold fpba_iter. cbv zeta.
    pose proof (search_facts Or ask P (s_miu s) M (s_calls s) (s_or s) Hc HP Hb) as F. cbv zeta in F.
    set (r := cs_search Or ask P (s_miu s) M (s_calls s) (s_or s)) in *.
    destruct F as (_ & F1 & F2 & F3 & _ & _ & F6).
    assert (Hu : negb (is_some (r_assigned r)) = true -> (M <= r_calls r)%Z).
    { destruct (r_assigned r); simpl; [discriminate|]. intros _. apply F6. reflexivity. }
    destruct (fpba_done (member_status Or init_status s r) (valid_of (r_or r))); [cbn [s_calls]; lia|].
    destruct (src_c03_fpba_is_descent (member_status Or init_status s r) || src_c03_fpba_is_cutting (member_status Or init_status s r)).
    - cbn [s_calls]. repeat split; try lia. intro H. specialize (Hu H). lia.
    - destruct (src_c03_fpba_is_null (member_status Or init_status s r)); cbn [s_calls]; repeat split; try lia; discriminate.
  Qed.

  Lemma fpba_iter_value P M s :
    match fpba_iter Or ask valid_of prox_of nullstep momentum init_status P M s with
    | INext s' u => s_fx s' <= s_fx s
    | IDone s1 z => s_fx s1 <= s_fx s
    end.
  Proof.
    unfold fpba_iter. cbv zeta.
    set (r := cs_search Or ask P (s_miu s) M (s_calls s) (s_or s)).
    destruct (fpba_done (member_status Or init_status s r) (valid_of (r_or r))); [simpl; lra|].
    destruct (src_c03_fpba_is_descent (member_status Or init_status s r) || src_c03_fpba_is_cutting (member_status Or init_status s r)).
    - simpl. pose proof (better_le (better (s_fx s) (member_fy Or s r)) (snd (momentum (r_or r) (better (s_fx s) (member_fy Or s r))))).
      pose proof (better_le (s_fx s) (member_fy Or s r)). lra.
    - destruct (src_c03_fpba_is_null (member_status Or init_status s r)); simpl; lra.
  Qed.
  (* ---- the repaired code (repo 31bf93f): every call of search() starts with m_status = max_iters ---- *)
  Section Repaired.
    Hypothesis Hinit : init_status = Some src_c03_cs_st_init.

    (* budget exhaustion inside search(): the status handed to the solver is max_iters; RQB neither stops (unless the state is
       invalid), nor moves the state, nor touches the bundle / the proximity parameter *)
    Lemma rqb_iter_budget_exit P M s :
      let r := cs_search Or ask P (s_miu s) M (s_calls s) (s_or s) in
      r_assigned r = None ->
      match rqb_iter Or ask valid_of prox_of serious nullstep init_status P M s with
      | INext s' u => u = false /\ s_or s' = r_or r /\ s_fx s' = s_fx s /\ s_miu s' = s_miu s /\ s_mstatus s' = src_c03_cs_st_init
      | IDone s1 z => valid_of (r_or r) = false /\ z = 2%Z /\ s_or s1 = r_or r /\ s_fx s1 = s_fx s
      end.
    Proof.
      cbv zeta. intro HN. unfold rqb_iter, member_status. cbv zeta. rewrite HN, Hinit.
      destruct (valid_of (r_or (cs_search Or ask P (s_miu s) M (s_calls s) (s_or s)))); vm_compute; repeat split; reflexivity.
    Qed.

    Lemma fpba_iter_budget_exit P M s :
      let r := cs_search Or ask P (s_miu s) M (s_calls s) (s_or s) in
      r_assigned r = None ->
      match fpba_iter Or ask valid_of prox_of nullstep momentum init_status P M s with
      | INext s' u => u = false /\ s_or s' = r_or r /\ s_fx s' = s_fx s /\ s_miu s' = s_miu s /\ s_calls s' = r_calls r /\ s_mstatus s' = src_c03_cs_st_init
      | IDone s1 z => valid_of (r_or r) = false /\ z = 2%Z /\ s_or s1 = r_or r /\ s_fx s1 = s_fx s
      end.
    Proof.
      cbv zeta. intro HN. unfold fpba_iter, member_status. cbv zeta. rewrite HN, Hinit.
      destruct (valid_of (r_or (cs_search Or ask P (s_miu s) M (s_calls s) (s_or s)))); vm_compute; repeat split; reflexivity.
    Qed.

    (* every status the outer loops act on was assigned by the search call of the same iteration *)
    Lemma rqb_iter_vetted P M s :
      match rqb_iter Or ask valid_of prox_of serious nullstep init_status P M s with INext _ u => u = false | IDone _ _ => True end.
    Proof.
      unfold rqb_iter, member_status. cbv zeta. rewrite Hinit.
      set (r := cs_search Or ask P (s_miu s) M (s_calls s) (s_or s)).
      destruct (r_assigned r) as [st|].
      - destruct (rqb_done st (valid_of (r_or r))); [exact I|].
        destruct (src_c03_rqb_is_descent st); [reflexivity|]. destruct (src_c03_rqb_is_cutting st); [reflexivity|].
        destruct (src_c03_rqb_is_null st); reflexivity.
      - destruct (rqb_done src_c03_cs_st_init (valid_of (r_or r))); [exact I|]. vm_compute. reflexivity.
    Qed.

    Lemma fpba_iter_vetted P M s :
      match fpba_iter Or ask valid_of prox_of nullstep momentum init_status P M s with INext _ u => u = false | IDone _ _ => True end.
    Proof.
      unfold fpba_iter, member_status. cbv zeta. rewrite Hinit.
      set (r := cs_search Or ask P (s_miu s) M (s_calls s) (s_or s)).
      destruct (r_assigned r) as [st|].
      - destruct (fpba_done st (valid_of (r_or r))); [exact I|].
        destruct (src_c03_fpba_is_descent st || src_c03_fpba_is_cutting st); [reflexivity|].
        destruct (src_c03_fpba_is_null st); reflexivity.
      - destruct (fpba_done src_c03_cs_st_init (valid_of (r_or r))); [exact I|]. vm_compute. reflexivity.
    Qed.
  End Repaired.
End OuterProofs.

(* ---- the statements of Properties_C03.v ------------------------------------------------------------------------------------------- *)
Section FinalSearch.
  Variable Or : Type.
  Variable ask : Or -> Q -> Or * cs_ans.

  (* (1) one call of search(): every pass evaluates once, there is no bound other than the budget *)
  Lemma search_budget P miu M calls o :
    (1 <= p_cost P)%Z ->
    let r := cs_search Or ask P miu M calls o in
    r_fuel_out r = false /\
    r_calls r = (calls + p_cost P * Z.of_nat (r_passes r))%Z /\
    ((1 <= r_passes r)%nat -> (r_calls r - p_cost P < M)%Z) /\
    ((calls < M)%Z -> (1 <= r_passes r)%nat) /\
    ((M <= calls)%Z -> r_passes r = 0%nat /\ r_assigned r = None).
  Proof.
    intros Hc. cbv zeta. unfold cs_search.
    set (fuel := Z.to_nat (M - calls)).
    assert (Hf : (M - calls <= Z.of_nat fuel)%Z) by (unfold fuel; lia).
    pose proof (loop_fuel Or ask fuel P miu M calls 1 0 None o None 0%nat Hc Hf) as F.
    pose proof (loop_calls Or ask fuel P miu M calls 1 0 None o None 0%nat) as L. cbv zeta in L. destruct L as (L1 & L2 & L3 & _).
    rewrite Nat.sub_0_r in L2.
    split; [exact F|]. split; [exact L2|]. split; [intro; apply L3; lia|]. split.
    - intro Hb. apply (loop_progress Or ask fuel P miu M calls 1 0 None o None 0%nat Hb). unfold fuel. lia.
    - intro Hb. pose proof (search_entry_exhausted Or ask P miu M calls o Hb) as E. cbv zeta in E. unfold cs_search in E. fold fuel in E. tauto.
  Qed.

  (* (2) status soundness of one call under the guard of the outer loop *)
  Lemma search_status P miu M calls o :
    (1 <= p_cost P)%Z -> cs_params_ok P -> (calls < M)%Z ->
    let r := cs_search Or ask P miu M calls o in
    (forall s, r_assigned r = Some s ->
       exists a tL0 tR0, r_last r = Some a /\ cs_ret_spec P (r_t r) tL0 tR0 a s (r_tL r) (r_tR r)) /\
    (r_assigned r = None -> (1 <= r_passes r)%nat /\ (M <= r_calls r)%Z).
  Proof.
    intros Hc HP Hb. pose proof (search_facts Or ask P miu M calls o Hc HP Hb) as F. cbv zeta in F |- *.
    destruct F as (_ & F1 & _ & _ & _ & F5 & F6). split.
    - intros s Hs. destruct (F5 s Hs) as (a & tL0 & tR0 & Hl & _ & Hp). exists a, tL0, tR0. split; [exact Hl|]. apply cs_pass_ret. exact Hp.
    - intro HN. split; [exact F1|]. apply F6. exact HN.
  Qed.

  (* (5) the bracket *)
  Lemma search_bracket P miu M calls o :
    cs_params_ok P ->
    let r := cs_search Or ask P miu M calls o in
    (forall s, r_assigned r = Some s -> cs_inv_ret (r_t r) (r_tL r) (r_tR r)) /\
    (r_assigned r = None -> cs_inv (r_t r) (r_tL r) (r_tR r)).
  Proof.
    intros HP. cbv zeta. unfold cs_search.
    pose proof (loop_status Or ask (Z.to_nat (M - calls)) P miu M calls 1 0 None o None 0%nat HP (cs_init_inv)) as S. cbv zeta in S.
    destruct S as (S1 & S2). split.
    - intros s Hs. destruct (S1 s Hs) as (a & tL0 & tR0 & _ & Hi & Hp). eapply cs_pass_ret_bracket; eauto.
    - intro HN. apply S2. exact HN.
  Qed.

End FinalSearch.

Section Final.
  Variable Or : Type.
  Variable ask : Or -> Q -> Or * cs_ans.
  Variable valid_of : Or -> bool.
  Variable prox_of : Or -> Q -> Q -> Q.
  Variable serious : Or -> Q -> Or.
  Variable nullstep : Or -> Or.
  Variable momentum : Or -> Q -> Or * option Q.
  Variable init_status : option Z.

  Lemma rqb_budget P M s :
    (1 <= p_cost P)%Z -> cs_params_ok P ->
    let R := rqb_run Or ask valid_of prox_of serious nullstep init_status P M s in
    o_exit R <> EFuel /\ (s_calls (o_final R) <= Z.max (s_calls s) (M + (p_cost P - 1)))%Z /\
    (o_exit R = EBudget -> (M <= s_calls (o_final R))%Z) /\ (o_stale R = true -> o_exit R = EBudget).
  Proof.
    intros Hc HP. cbv zeta. unfold rqb_run.
    pose proof (outer_terminates Or src_c03_rqb_budget (rqb_iter Or ask valid_of prox_of serious nullstep init_status) (p_cost P - 1) k_rqb_budget P M
                  (fun s0 Hb => rqb_iter_calls Or ask valid_of prox_of serious nullstep init_status P M s0 Hc HP Hb)
                  (Z.to_nat (M - s_calls s)) s false 0%nat) as H.
    cbv zeta in H. destruct H as (H1 & H2 & H3 & H4); [lia|]. auto.
  Qed.

  Lemma fpba_budget P M s :
    (1 <= p_cost P)%Z -> cs_params_ok P ->
    let R := fpba_run Or ask valid_of prox_of nullstep momentum init_status P M s in
    o_exit R <> EFuel /\ (s_calls (o_final R) <= Z.max (s_calls s) (M + (2 * p_cost P - 1)))%Z /\
    (o_exit R = EBudget -> (M <= s_calls (o_final R))%Z) /\ (o_stale R = true -> o_exit R = EBudget).
  Proof.
    intros Hc HP. cbv zeta. unfold fpba_run.
    pose proof (outer_terminates Or src_c03_fpba_budget (fpba_iter Or ask valid_of prox_of nullstep momentum init_status) (2 * p_cost P - 1) k_fpba_budget P M
                  (fun s0 Hb => fpba_iter_calls Or ask valid_of prox_of nullstep momentum init_status P M s0 Hc HP Hb)
                  (Z.to_nat (M - s_calls s)) s false 0%nat) as H.
    cbv zeta in H. destruct H as (H1 & H2 & H3 & H4); [lia|]. auto.
  Qed.

  (* (3) RQB: the state value never increases as long as every move was made on a status assigned by its own search call *)
  Lemma rqb_monotone (I : Or -> Q -> Prop) P M s :
    (forall o v mt, I o v -> I (fst (ask o mt)) v /\ (a_fx (snd (ask o mt)) == v /\ 0 <= a_delta (snd (ask o mt)))) ->
    (forall o v w, I o v -> I (serious o w) w) -> (forall o v, I o v -> I (nullstep o) v) ->
    (1 <= p_cost P)%Z -> cs_params_ok P -> 0 <= p_m1 P -> I (s_or s) (s_fx s) ->
    let R := rqb_run Or ask valid_of prox_of serious nullstep init_status P M s in
    o_stale R = false -> s_fx (o_final R) <= s_fx s.
  Proof.
    intros Hask Hser Hnull Hc HP Hm1 HI. cbv zeta. unfold rqb_run.
    apply (outer_monotone Or src_c03_rqb_budget (rqb_iter Or ask valid_of prox_of serious nullstep init_status) (p_cost P - 1) k_rqb_budget P M
             (fun s0 Hb => rqb_iter_calls Or ask valid_of prox_of serious nullstep init_status P M s0 Hc HP Hb)
             (fun s0 => I (s_or s0) (s_fx s0))
             (fun s0 Hb HJ => rqb_iter_value Or ask valid_of prox_of serious nullstep init_status I Hask Hser Hnull P M s0 Hc HP Hm1 Hb HJ)).
    exact HI.
  Qed.

  Lemma fpba_best P M s :
    s_fx (o_final (fpba_run Or ask valid_of prox_of nullstep momentum init_status P M s)) <= s_fx s.
  Proof.
    unfold fpba_run.
    apply (outer_monotone_all Or src_c03_fpba_budget (fpba_iter Or ask valid_of prox_of nullstep momentum init_status) k_fpba_budget P M
             (fun s0 _ => fpba_iter_value Or ask valid_of prox_of nullstep momentum init_status P M s0)).
  Qed.
  (* the repaired code: no iteration acts on a status of another call, so the RQB value statement is unconditional *)
  Lemma rqb_never_stale P M s :
    init_status = Some src_c03_cs_st_init ->
    o_stale (rqb_run Or ask valid_of prox_of serious nullstep init_status P M s) = false.
  Proof.
    intro Hinit. unfold rqb_run.
    apply (outer_no_stale Or src_c03_rqb_budget (rqb_iter Or ask valid_of prox_of serious nullstep init_status) k_rqb_budget P M
             (fun s0 => rqb_iter_vetted Or ask valid_of prox_of serious nullstep init_status Hinit P M s0)).
  Qed.

  Lemma fpba_never_stale P M s :
    init_status = Some src_c03_cs_st_init ->
    o_stale (fpba_run Or ask valid_of prox_of nullstep momentum init_status P M s) = false.
  Proof.
    intro Hinit. unfold fpba_run.
    apply (outer_no_stale Or src_c03_fpba_budget (fpba_iter Or ask valid_of prox_of nullstep momentum init_status) k_fpba_budget P M
             (fun s0 => fpba_iter_vetted Or ask valid_of prox_of nullstep momentum init_status Hinit P M s0)).
  Qed.

  Lemma rqb_monotone_repaired (I : Or -> Q -> Prop) P M s :
    init_status = Some src_c03_cs_st_init ->
    (forall o v mt, I o v -> I (fst (ask o mt)) v /\ (a_fx (snd (ask o mt)) == v /\ 0 <= a_delta (snd (ask o mt)))) ->
    (forall o v w, I o v -> I (serious o w) w) -> (forall o v, I o v -> I (nullstep o) v) ->
    (1 <= p_cost P)%Z -> cs_params_ok P -> 0 <= p_m1 P -> I (s_or s) (s_fx s) ->
    s_fx (o_final (rqb_run Or ask valid_of prox_of serious nullstep init_status P M s)) <= s_fx s.
  Proof.
    intros Hinit Hask Hser Hnull Hc HP Hm1 HI.
    apply (rqb_monotone I P M s Hask Hser Hnull Hc HP Hm1 HI). apply rqb_never_stale. exact Hinit.
  Qed.
End Final.

(* the hypothesis `0 <= a_delta` of rqb_monotone is true of the bundle model under its invariant: delta(miu/t) >= 0 *)
Lemma smeared_e_nonneg : forall cuts al, Forall (fun c => 0 <= ce c) cuts -> Forall (fun a => 0 <= a) al -> 0 <= smeared_e cuts al.
Proof.
  induction cuts as [|c cuts IH]; intros al Hc Ha; simpl; [lra|].
  destruct al as [|a al]; [lra|]. inversion Hc; subst. inversion Ha; subst. specialize (IH al H2 H4). nra.
Qed.

Lemma delta_nonneg (f : vec -> Q) (n : nat) b mt :
  Inv f n b -> 0 < mt -> 0 <= delta mt b.
Proof.
  intros HI Hmt. pose proof (cuts_minorize f n b HI) as [_ He].
  destruct HI as (_ & _ & _ & _ & _ & Hal).
  unfold delta.
  assert (H1 : 0 <= smeared_e (bcuts b) (balpha b)).
  { destruct Hal as [-> | [_ [Hs _]]].
    - destruct (bcuts b); simpl; lra.
    - apply smeared_e_nonneg; assumption. }
  pose proof (norm2_nonneg (smeared_s (bn b) (bcuts b) (balpha b))) as H2.
  assert (H3 : 0 < 1 / (2 * mt)). { apply Qlt_shift_div_l; lra. }
  nra.
Qed.

(* ---- proximity_t ----------------------------------------------------------------------------------------------------------------- *)
Lemma qclamp_range v lo hi : lo <= hi -> lo <= qclamp v lo hi <= hi.
Proof.
  intro H. unfold qclamp. destruct (Qltb v lo) eqn:E1; [lra|]. apply Qltb_false in E1.
  destruct (Qltb hi v) eqn:E2; [lra|]. apply Qltb_false in E2. lra.
Qed.

Lemma prox_miu0_range eps0 lo hi gx fx : lo <= hi -> lo <= prox_miu0 eps0 lo hi gx fx <= hi.
Proof. intro H. unfold prox_miu0. apply qclamp_range. exact H. Qed.

(* the secant quotient is positive whenever it is accepted (min_dot_nuv >= 0) *)
Lemma make_miu_pos miu t nu xi mdn m : 0 <= mdn -> make_miu miu t nu xi mdn = Some m -> 0 < m.
Proof.
  intros Hm. unfold make_miu. set (u := vadd xi (vscale (t / miu) nu)).
  destruct (Qltb mdn (dot nu u)) eqn:E; [|discriminate]. apply Qltb_true in E. intro H; injection H as <-.
  assert (Hpos : 0 < dot nu u) by lra.
  pose proof (cauchy_schwarz nu u) as CS. pose proof (norm2_nonneg nu) as N1. pose proof (norm2_nonneg u) as N2. unfold norm2 in *.
  assert (Hnn : 0 < dot nu nu).
  { destruct (Qlt_le_dec 0 (dot nu nu)) as [L|L]; [exact L|].
    assert (Z0 : dot nu nu == 0) by lra. rewrite Z0 in CS. nra. }
  apply Qlt_shift_div_l; lra.
Qed.

Lemma prox_update1_pos miu mdn t xn xn1 gn gn1 : 0 < miu -> 0 <= mdn -> 0 < prox_update1 miu mdn t xn xn1 gn gn1.
Proof.
  intros H0 Hm. unfold prox_update1. destruct (make_miu miu t (vsub gn1 gn) (vsub xn1 xn) mdn) eqn:E; [|exact H0].
  eapply make_miu_pos; eauto.
Qed.

Lemma omin_fold_pos : forall l acc, (forall m, acc = Some m -> 0 < m) -> (forall m, In (Some m) l -> 0 < m) ->
  forall m, fold_left omin l acc = Some m -> 0 < m.
Proof.
  induction l as [|x l IH]; intros acc Ha Hl m; simpl; [apply Ha|].
  apply IH.
  - intros m' Hm'. destruct acc as [a|], x as [b|]; simpl in Hm'; try discriminate Hm'; injection Hm' as <-.
    + destruct (Qltb b a); [apply Hl; left; reflexivity | apply Ha; reflexivity].
    + apply Ha; reflexivity.
    + apply Hl; left; reflexivity.
  - intros m' Hm'. apply Hl. right. exact Hm'.
Qed.

Lemma prox_update2_pos miu mdn t xn xn1 gn gn1 Gn Gn1 : 0 < miu -> 0 <= mdn -> 0 < prox_update2 miu mdn t xn xn1 gn gn1 Gn Gn1.
Proof.
  intros H0 Hm. unfold prox_update2.
  destruct (fold_left omin (prox_candidates miu mdn t xn xn1 gn gn1 Gn Gn1) None) as [m|] eqn:E; [|exact H0].
  revert E. apply omin_fold_pos; [intros m' H; discriminate H|].
  intros m' Hin. unfold prox_candidates in Hin. apply in_flat_map in Hin. destruct Hin as (a1 & _ & Hin).
  apply in_map_iff in Hin. destruct Hin as (a2 & Hmk & _). eapply make_miu_pos; eauto.
Qed.

(* what is NOT true: only miu0 is clamped to miu0_range, the updates leave the range *)
Lemma prox_range_refuted : exists lo hi miu mdn t xn xn1 gn gn1,
  0 < lo /\ lo <= miu <= hi /\ 0 < mdn /\ hi < prox_update1 miu mdn t xn xn1 gn gn1.
Proof.
  exists 1, 10, 1, (1 # 100), (1 # 100), [0], [1 # 1000], [0], [100]. vm_compute. repeat split; try reflexivity; discriminate.
Qed.

(* ---- Nesterov sequences ------------------------------------------------------------------------------------------------------------ *)
Lemma nest_witness_exact lambda r : 0 <= lambda -> 0 <= r -> r * r == 1 + 4 * lambda * lambda -> nest_witness_ok lambda r.
Proof. unfold nest_witness_ok. intros H0 H1 H2. nra. Qed.

Lemma nest_next_ge lambda r : 1 <= lambda -> nest_witness_ok lambda r -> lambda + (1 # 2) <= nest_next r.
Proof. unfold nest_witness_ok, nest_next. intros. lra. Qed.

Lemma nest_coefficients two lambda r : 1 <= lambda -> nest_witness_ok lambda r ->
  0 <= nest_alpha lambda (nest_next r) < 1 /\ 0 <= nest_beta two lambda (nest_next r) < 1.
Proof.
  intros H1 Hw. pose proof (nest_next_ge lambda r H1 Hw) as Hn. set (nx := nest_next r) in *.
  assert (Hp : 0 < nx) by lra.
  unfold nest_alpha, nest_beta. split.
  - split; [apply Qle_shift_div_l; lra | apply Qlt_shift_div_r; lra].
  - destruct two; [|lra]. split; [apply Qle_shift_div_l; lra | apply Qlt_shift_div_r; lra].
Qed.

(* every history of update() / reset() whose square roots are admissible keeps lambda >= 1 *)
Fixpoint nest_hist_ok (two : bool) (s : nest) (evs : list nest_ev) : Prop :=
  match evs with
  | [] => True
  | e :: evs' => (match e with NUpdate r _ => nest_witness_ok (n_lambda s) r | NReset => True end) /\ nest_hist_ok two (nest_step two s e) evs'
  end.

Lemma nest_history two : forall evs s, 1 <= n_lambda s -> nest_hist_ok two s evs -> 1 <= n_lambda (fold_left (nest_step two) evs s).
Proof.
  induction evs as [|e evs IH]; intros s H1 Hok; simpl; [exact H1|].
  destruct Hok as [He Hr]. apply IH; [|exact Hr].
  destruct e as [r z|]; simpl.
  - pose proof (nest_next_ge (n_lambda s) r H1 He). lra.
  - lra.
Qed.

(* ---- witnesses on the tape instance --------------------------------------------------------------------------------------------------- *)
Definition wP : cs_params := mk_csp (1 # 2) (9 # 10) 1 1 (3 # 10) 5 (1 # 1000000) 2.
(* a pass that fails the m1 test and the null-step test: the bracket shrinks, the loop goes on *)
Definition w_shrink (fx fy : Q) : cs_ans := mk_ans true fx fy 10 1 false false 0 0.
(* a pass that ends the call with descent_step: fx - fy >= m1 delta, gy.(y - x) >= -m2 delta *)
Definition w_descent (fx fy : Q) : cs_ans := mk_ans true fx fy 0 1 false false 0 0.

(* the path on which the status of a PREVIOUS call is returned: the budget runs out after a pass that assigned nothing *)
Lemma search_stale_path : exists P miu M calls o,
  (calls < M)%Z /\ cs_params_ok P /\
  let r := tape_search P miu M calls o in
  r_assigned r = None /\ r_passes r = 1%nat /\ r_fuel_out r = false /\ tp_short (r_or r) = false.
Proof.
  exists wP, 1, 4%Z, 2%Z, (mk_tape [w_shrink 10 20] [] [] false). vm_compute. repeat split; try reflexivity; discriminate.
Qed.

(* ... on which RQB, BEFORE repo 31bf93f (no reset of m_status at the start of a call), moved its state to a point that no test
   vetted, ABOVE the value it had (answers with the current centre value and a non-negative delta, as a convex objective
   gives them): descent step 10 -> 9, then a call that rejects its only trial (f = 20), runs out of budget and returns the
   previous call's descent_step *)
Lemma rqb_monotone_prefix_refuted : exists P M s,
  cs_params_ok P /\ 0 <= p_m1 P /\ (1 <= p_cost P)%Z /\
  let R := tape_rqb_prefix P M s in
  o_exit R = EBudget /\ o_stale R = true /\ tp_short (s_or (o_final R)) = false /\ s_fx s < s_fx (o_final R).
Proof.
  exists wP, 6%Z, (mk_ost (mk_tape [w_descent 10 9; w_shrink 9 20] [] [1; 1] false) 2%Z 10 1 0%Z 1 (Some 0)).
  vm_compute. repeat split; try reflexivity; discriminate.
Qed.

(* the status each exit of search() assigns and the reset value, as read from the source *)
Lemma cs_status_codes :
  src_c03_cs_st_failed = 0%Z /\ src_c03_cs_st_init = 1%Z /\ src_c03_cs_st_converged = 2%Z /\ src_c03_cs_st_null = 3%Z /\
  src_c03_cs_st_descent = 4%Z /\ src_c03_cs_st_cutting = 5%Z /\ src_c03_cs_descent_moves = 0%Z /\ src_c03_cs_else_moves = 1%Z.
Proof. repeat split. Qed.

(* an oracle satisfying the hypotheses of rqb_monotone: the state is the centre value, every trial is one below the centre *)
Definition ex_ask (o : Q) (mt : Q) : Q * cs_ans := (o, mk_ans true o (o - 1) 0 1 false false 0 0).
Lemma ex_oracle_ok :
  (forall (o v mt : Q), o == v -> fst (ex_ask o mt) == v /\ (a_fx (snd (ex_ask o mt)) == v /\ 0 <= a_delta (snd (ex_ask o mt)))) /\
  (forall (o v w : Q), o == v -> (fun (_ : Q) (w' : Q) => w') o w == w) /\ (forall (o v : Q), o == v -> (fun o' : Q => o') o == v).
Proof. repeat split; simpl; auto; lra. Qed.
