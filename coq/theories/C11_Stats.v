(* C11, extension "stats" -- proofs about C11_Stats_Defs (the code that computes and stores the reported statistics).
   Re-used, not re-proved: C20_Proofs (sort is a sorted permutation, any sorted permutation agrees rank by rank), C20_Float
   (the binary64 positions of every percentage in [0, 100] stay inside the array, are neighbours and are monotone in the
   percentage), C11_Proofs (the slot arithmetic of ml::tune). *)
From Coq Require Import List ZArith Bool QArith Qabs Floats Lia Lqa Sorted Permutation Setoid Morphisms.
From LNGen Require Import Src_stats Src_mlresult Src_pctile Src_dims Src_tensor.
From LN Require Import ListAux C16_Defs C20_Defs C20_Proofs C20_FloatDefs C20_Float C11_Defs C11_Proofs C11_Stats_Defs.
Import ListNotations.
Local Open Scope Z_scope.

(* ------------------------------------------------------------------------------------------------------------------ *)
(* 0. what the translated kernels say                                                                                  *)
(* ------------------------------------------------------------------------------------------------------------------ *)
Lemma k_st_sel : st_sel = [0; 1; 2]. Proof. reflexivity. Qed.
Lemma k_st_pcts : st_pcts = [1; 5; 10; 20; 50; 80; 90; 95; 99]. Proof. reflexivity. Qed.
Lemma k_ld_cols : ld_cols = [0; 1; 2; 3; 4; 5; 6; 7; 8; 9; 10; 11]. Proof. reflexivity. Qed.
Lemma k_var_guard n : src_var_guard n = (1 <? n). Proof. unfold src_var_guard. rewrite Z.gtb_ltb. reflexivity. Qed.
Lemma k_sd_guard n : src_sd_guard n = (1 <? n). Proof. unfold src_sd_guard. rewrite Z.gtb_ltb. reflexivity. Qed.
Lemma k_sd_den n : src_sd_den n = n - 1. Proof. reflexivity. Qed.
(* the one-pass, clamped variance expression (integer reading of the source expression; [q_var_expr] is its shape over Q) *)
Lemma k_var_expr s c a : src_var_expr s c a = Z.max (Z.quot s c - a * a) 0. Proof. reflexivity. Qed.
(* the position kernels of stats.h translated for C11 are the ones the C20 model is built on *)
Lemma k_pct_kernels_agree : (forall n, src_st_pct_last n = src_pct_last n) /\ (forall l r, src_st_pct_same l r = src_pct_same l r).
Proof. split; reflexivity. Qed.
Lemma k_store_calls : @store_calls = [(0, 0, 0, 0); (0, 1, 0, 1); (1, 0, 1, 0); (1, 1, 1, 1)]. Proof. reflexivity. Qed.
Lemma k_final_calls : final_calls = [(0, 0); (1, 1)]. Proof. reflexivity. Qed.
Lemma k_isplit b : src_rs_isplit b = if b then 0 else 1. Proof. reflexivity. Qed.
Lemma k_ivalue b : src_rs_ivalue b = if b then 0 else 1. Proof. reflexivity. Qed.
Lemma k_ivalue_final b : src_rs_final_load (src_rs_ivalue_final b) = if b then 0 else 1. Proof. reflexivity. Qed.
Lemma k_load_args t f s v :
  (src_rs_load_a0 t f s v, src_rs_load_a1 t f s v, src_rs_load_a2 t f s v, src_rs_load_a3 t f s v) = (t, f, s, v).
Proof. reflexivity. Qed.
Lemma k_value_loop : src_rs_value_first = 0 /\ (forall f n, src_rs_value_cont f n = (f <? n)) /\ (forall f, src_rs_value_step f = f + 1) /\
  src_rs_value_field = 0 /\ (forall n, src_rs_value_den n = n) /\ (src_rs_value_dsplit =? 0) = false /\ (src_rs_value_dkind =? 0) = true.
Proof. repeat split; reflexivity. Qed.
Lemma k_opt_loop : src_rs_opt_first = 0 /\ (forall i n, src_rs_opt_cont i n = (i <? n)) /\ (forall b, src_rs_opt_better b = b) /\
  (forall i n, src_rs_clo_cont i n = (i <? n)) /\ (forall b, src_rs_clo_better b = b).
Proof. repeat split; reflexivity. Qed.

(* ------------------------------------------------------------------------------------------------------------------ *)
(* 1. exact sums                                                                                                       *)
(* ------------------------------------------------------------------------------------------------------------------ *)
Local Open Scope Q_scope.

Lemma qsum_cons x l : qsum (x :: l) = x + qsum l. Proof. reflexivity. Qed.
Lemma qsum_perm' l l' : Permutation l l' -> qsum l == qsum l'.
Proof.
  induction 1; cbn; try reflexivity.
  - rewrite IHPermutation. reflexivity.
  - ring.
  - rewrite IHPermutation1. exact IHPermutation2.
Qed.
Lemma qsum_ge0 l : (forall x, In x l -> 0 <= x) -> 0 <= qsum l.
Proof.
  induction l as [|a l IH]; intros H; [apply Qle_refl|]. rewrite qsum_cons.
  assert (0 <= a) by (apply H; left; reflexivity). assert (0 <= qsum l) by (apply IH; intros; apply H; right; assumption). lra.
Qed.
Lemma qsum_zero_all l : (forall x, In x l -> 0 <= x) -> qsum l == 0 -> forall x, In x l -> x == 0.
Proof.
  induction l as [|a l IH]; intros H E x Hx; [destruct Hx|]. rewrite qsum_cons in E.
  assert (Ha : 0 <= a) by (apply H; left; reflexivity).
  assert (Hl : 0 <= qsum l) by (apply qsum_ge0; intros; apply H; right; assumption).
  destruct Hx as [<-|Hx]; [lra|]. apply IH; [intros; apply H; right; assumption|lra|exact Hx].
Qed.
Lemma qsum_bounds l a b : (forall x, In x l -> a <= x <= b) ->
  a * inject_Z (Z.of_nat (length l)) <= qsum l <= b * inject_Z (Z.of_nat (length l)).
Proof.
  induction l as [|c l IH]; intros H.
  - change (inject_Z (Z.of_nat (length (@nil Q)))) with 0. change (qsum []) with 0. lra.
  - assert (Hc : a <= c <= b) by (apply H; left; reflexivity).
    assert (Hl := IH (fun x Hx => H x (or_intror Hx))).
    change (length (c :: l)) with (S (length l)). rewrite Nat2Z.inj_succ. unfold Z.succ. rewrite inject_Z_plus, qsum_cons.
    change (inject_Z 1) with 1. lra.
Qed.
(* sum of squared deviations from any centre *)
Lemma qsum_dev2 l c :
  qsum (map (fun x => (x - c) * (x - c)) l) == q_sumsq l - 2 * c * qsum l + inject_Z (Z.of_nat (length l)) * c * c.
Proof.
  unfold q_sumsq. induction l as [|a l IH].
  - change (inject_Z (Z.of_nat (length (@nil Q)))) with 0. change (qsum (map (fun x : Q => (x - c) * (x - c)) [])) with 0.
    change (qsum (map (fun x : Q => x * x) [])) with 0. change (qsum []) with 0. ring.
  - change (length (a :: l)) with (S (length l)). rewrite Nat2Z.inj_succ. unfold Z.succ. rewrite inject_Z_plus.
    cbn [map]. rewrite !qsum_cons, IH. change (inject_Z 1) with 1. ring.
Qed.

Lemma count_pos l : l <> [] -> 0 < inject_Z (q_count l).
Proof. intros H. unfold q_count. destruct l; [congruence|]. change 0 with (inject_Z 0). rewrite <- Zlt_Qlt. cbn [length]. lia. Qed.

(* the unclamped one-pass expression is the mean squared deviation: never negative over Q, so the clamp is the identity *)
Lemma var_raw_is_msd l : l <> [] ->
  q_sumsq l / inject_Z (q_count l) - q_mean l * q_mean l
  == qsum (map (fun x => (x - q_mean l) * (x - q_mean l)) l) / inject_Z (q_count l).
Proof.
  intros H. pose proof (count_pos l H) as Hn. rewrite qsum_dev2. unfold q_mean. fold (q_count l).
  set (n := inject_Z (q_count l)) in *. field. intros E. rewrite E in Hn. exact (Qlt_irrefl 0 Hn).
Qed.
Lemma qsq_ge0 z : 0 <= z * z.
Proof. destruct z as [n d]. unfold Qle, Qmult. cbn. nia. Qed.
Lemma qsq_zero z : z * z == 0 -> z == 0.
Proof. destruct z as [n d]. unfold Qeq, Qmult. cbn. nia. Qed.
Lemma msd_ge0 l : 0 <= qsum (map (fun x => (x - q_mean l) * (x - q_mean l)) l).
Proof. apply qsum_ge0. intros x Hx. apply in_map_iff in Hx. destruct Hx as (y & <- & _). apply qsq_ge0. Qed.

Lemma qmax_spec a b : (b <= a -> qmax a b = a) /\ (~ b <= a -> qmax a b = b).
Proof. unfold qmax. destruct (Qle_bool b a) eqn:E; [rewrite Qle_bool_iff in E|]; split; intros; try reflexivity; try contradiction.
  exfalso. rewrite <- Qle_bool_iff in H. congruence. Qed.

Definition all_equal (l : list Q) : Prop := forall x y, In x l -> In y l -> x == y.

Lemma var_raw_ge0 l : l <> [] -> 0 <= q_sumsq l / inject_Z (q_count l) - q_mean l * q_mean l.
Proof.
  intros H. rewrite (var_raw_is_msd l H). pose proof (count_pos l H). pose proof (msd_ge0 l).
  apply Qle_shift_div_l; [assumption|]. lra.
Qed.
Lemma qsum_all_zero l : (forall x, In x l -> x == 0) -> qsum l == 0.
Proof. induction l as [|a l IH]; intros H; [reflexivity|]. rewrite qsum_cons, (H a (or_introl eq_refl)), IH; [ring|]. intros; apply H; right; assumption. Qed.
Lemma nz_of_pos n : 0 < n -> ~ n == 0.
Proof. intros H E. rewrite E in H. exact (Qlt_irrefl 0 H). Qed.

Lemma mean_bounds l a b : l <> [] -> (forall x, In x l -> a <= x <= b) -> a <= q_mean l <= b.
Proof.
  intros H B. pose proof (count_pos l H) as Hn. pose proof (qsum_bounds l a b B) as [B1 B2]. fold (q_count l) in B1, B2.
  unfold q_mean. split; [apply Qle_shift_div_l | apply Qle_shift_div_r]; assumption.
Qed.
Lemma mean_of_equal l a : l <> [] -> (forall x, In x l -> x == a) -> q_mean l == a.
Proof.
  intros H E. apply Qle_antisym; apply (mean_bounds l a a H); intros x Hx; rewrite (E x Hx); split; apply Qle_refl.
Qed.

Definition var_raw (l : list Q) : Q := q_sumsq l / inject_Z (q_count l) - q_mean l * q_mean l.
Definition msd (l : list Q) : Q := qsum (map (fun x => (x - q_mean l) * (x - q_mean l)) l).

Lemma q_variance_eq l : q_variance l == if (1 <? q_count l)%Z then var_raw l else 0.
Proof.
  unfold q_variance. rewrite k_var_guard. destruct (1 <? q_count l)%Z eqn:E; [|reflexivity].
  assert (Hl : l <> []) by (intros ->; discriminate E).
  unfold q_var_expr. fold (var_raw l). destruct (qmax_spec (var_raw l) 0) as [A _]. rewrite A; [reflexivity|]. apply var_raw_ge0, Hl.
Qed.
Lemma q_variance_ge0 l : 0 <= q_variance l.
Proof.
  rewrite q_variance_eq. destruct (1 <? q_count l)%Z eqn:E; [|apply Qle_refl].
  apply var_raw_ge0. intros ->; discriminate E.
Qed.
Lemma msd_zero_iff l : l <> [] -> (msd l == 0 <-> all_equal l).
Proof.
  intros Hl. unfold msd. split.
  - intros E x y Hx Hy.
    assert (Z : forall z, In z l -> z == q_mean l).
    { intros z Hz. assert (Hz' : In ((z - q_mean l) * (z - q_mean l)) (map (fun x => (x - q_mean l) * (x - q_mean l)) l))
        by (apply in_map_iff; exists z; split; [reflexivity|exact Hz]).
      pose proof (qsum_zero_all _ (fun u Hu => ltac:(apply in_map_iff in Hu; destruct Hu as (w & <- & _); apply qsq_ge0)) E _ Hz') as Q0.
      apply qsq_zero in Q0. lra. }
    rewrite (Z x Hx), (Z y Hy). reflexivity.
  - intros A. destruct l as [|a l]; [congruence|].
    assert (M : q_mean (a :: l) == a) by (apply mean_of_equal; [discriminate|]; intros x Hx; apply A; [exact Hx|left; reflexivity]).
    apply qsum_all_zero. intros u Hu. apply in_map_iff in Hu. destruct Hu as (w & <- & Hw).
    rewrite M, (A w a Hw (or_introl eq_refl)). ring.
Qed.
Lemma q_variance_zero_iff l : (1 < q_count l)%Z -> (q_variance l == 0 <-> all_equal l).
Proof.
  intros Hn. assert (Hl : l <> []) by (intros ->; cbn in Hn; lia). rewrite q_variance_eq.
  apply Z.ltb_lt in Hn. rewrite Hn. unfold var_raw. rewrite (var_raw_is_msd l Hl). fold (msd l).
  rewrite <- (msd_zero_iff l Hl). pose proof (count_pos l Hl) as Hc. split; intros E.
  - assert (X : msd l == (msd l / inject_Z (q_count l)) * inject_Z (q_count l)) by (field; apply nz_of_pos, Hc). rewrite X, E. ring.
  - rewrite E. field. apply nz_of_pos, Hc.
Qed.
Lemma q_stdev2_eq l : q_stdev2 l == if (1 <? q_count l)%Z then q_variance l / inject_Z (q_count l - 1) else 0.
Proof. unfold q_stdev2. rewrite k_sd_guard, k_sd_den. reflexivity. Qed.
Lemma den_pos l : (1 < q_count l)%Z -> 0 < inject_Z (q_count l - 1).
Proof. intros H. change 0 with (inject_Z 0). rewrite <- Zlt_Qlt. lia. Qed.
Lemma q_stdev2_ge0 l : 0 <= q_stdev2 l.
Proof.
  rewrite q_stdev2_eq. destruct (1 <? q_count l)%Z eqn:E; [|apply Qle_refl]. apply Z.ltb_lt in E.
  apply Qle_shift_div_l; [apply den_pos, E|]. pose proof (q_variance_ge0 l). lra.
Qed.
Lemma q_stdev2_zero_iff l : (1 < q_count l)%Z -> (q_stdev2 l == 0 <-> all_equal l).
Proof.
  intros Hn. rewrite <- (q_variance_zero_iff l Hn), q_stdev2_eq. pose proof (den_pos l Hn) as Hd.
  apply Z.ltb_lt in Hn. rewrite Hn. split; intros E.
  - assert (X : q_variance l == (q_variance l / inject_Z (q_count l - 1)) * inject_Z (q_count l - 1)) by (field; apply nz_of_pos, Hd).
    rewrite X, E. ring.
  - rewrite E. field. apply nz_of_pos, Hd.
Qed.
Lemma q_single x : q_variance [x] == 0 /\ q_stdev2 [x] == 0 /\ q_mean [x] == x.
Proof. split; [|split]; [reflexivity|reflexivity|]. unfold q_mean, q_count. cbn [length qsum fold_right Z.of_nat Pos.of_succ_nat]. field. Qed.

(* ---- permutation invariance of mean / variance / stdev / count ---- *)
Lemma q_count_perm l l' : Permutation l l' -> q_count l = q_count l'.
Proof. intros H. unfold q_count. rewrite (Permutation_length H). reflexivity. Qed.
Lemma q_mean_perm l l' : Permutation l l' -> q_mean l == q_mean l'.
Proof. intros H. unfold q_mean. rewrite (q_count_perm _ _ H), (qsum_perm' _ _ H). reflexivity. Qed.
Lemma q_sumsq_perm l l' : Permutation l l' -> q_sumsq l == q_sumsq l'.
Proof. intros H. unfold q_sumsq. apply qsum_perm', Permutation_map, H. Qed.
Lemma q_variance_perm l l' : Permutation l l' -> q_variance l == q_variance l'.
Proof.
  intros H. rewrite !q_variance_eq, (q_count_perm _ _ H). destruct (1 <? q_count l')%Z; [|reflexivity].
  unfold var_raw. rewrite (q_count_perm _ _ H), (q_sumsq_perm _ _ H), (q_mean_perm _ _ H). reflexivity.
Qed.
Lemma q_stdev2_perm l l' : Permutation l l' -> q_stdev2 l == q_stdev2 l'.
Proof.
  intros H. rewrite !q_stdev2_eq, (q_count_perm _ _ H). destruct (1 <? q_count l')%Z; [|reflexivity].
  rewrite (q_variance_perm _ _ H). reflexivity.
Qed.

(* ------------------------------------------------------------------------------------------------------------------ *)
(* 2. percentiles over Q (the C20 model): multiset invariance and order facts                                          *)
(* ------------------------------------------------------------------------------------------------------------------ *)
Definition qs (l : list Q) : list Q := sort Q_ops l.
Definition q_pct (l : list Q) (p : Z) : Q := percentile Q_ops l (Z2F p).

Lemma equiv_Qeq x y : equiv Q_ops x y -> x == y.
Proof. unfold equiv. cbn. unfold qcmp. rewrite Qeq_alt. destruct (x ?= y); intros; (reflexivity || discriminate). Qed.
Lemma le_Qle x y : C20_Proofs.le Q_ops x y <-> x <= y.
Proof. unfold C20_Proofs.le. cbn. apply qcmp_le. Qed.
Lemma qs_sorted l : StronglySorted (C20_Proofs.le Q_ops) (qs l).
Proof. apply sort_sorted; [apply qcmp_antisym | apply qcmp_trans]. Qed.
Lemma qs_perm l : Permutation (qs l) l.
Proof. apply sort_perm. Qed.
Lemma qs_length l : length (qs l) = length l.
Proof. apply sort_length. Qed.

Lemma nthZ_qs_perm l l' i : Permutation l l' -> nthZ Q_ops (qs l) i == nthZ Q_ops (qs l') i.
Proof.
  intros H. unfold nthZ. destruct (i <? 0)%Z; [reflexivity|]. set (k := Z.to_nat i).
  destruct (Nat.lt_ge_cases k (length l)) as [Hk|Hk].
  - symmetry. apply equiv_Qeq.
    apply (any_sort_agrees Q_ops qcmp_antisym qcmp_trans l (qs l') (nan Q_ops) k (qs_sorted l')); [|exact Hk].
    eapply perm_trans; [apply qs_perm|]. symmetry. exact H.
  - rewrite !nth_overflow; [reflexivity| |]; rewrite qs_length; [rewrite <- (Permutation_length H)|]; exact Hk.
Qed.
Lemma mid_Q a b : mid Q_ops a b = (a + b) / inject_Z 2.
Proof. reflexivity. Qed.
Lemma q_pct_eq l p :
  q_pct l p = let n := Z.of_nat (length l) in let lp := pct_lpos (Z2F p) n in let rp := pct_rpos (Z2F p) n in
              if (lp =? rp)%Z then nthZ Q_ops (qs l) lp else (nthZ Q_ops (qs l) lp + nthZ Q_ops (qs l) rp) / inject_Z 2.
Proof. unfold q_pct, percentile, percentile_sorted, pick. fold (qs l). rewrite qs_length, k_pct_same, mid_Q. reflexivity. Qed.
Lemma q_pct_perm l l' p : Permutation l l' -> q_pct l p == q_pct l' p.
Proof.
  intros H. rewrite !q_pct_eq. cbv zeta. rewrite (Permutation_length H).
  destruct (_ =? _)%Z; rewrite !(nthZ_qs_perm l l' _ H); reflexivity.
Qed.

(* positions of the nine percentages (C20_Float: every double in [0, 100], every 1 <= n <= 2^46 + 1) *)
Lemma st_pcts_in_range : forall p, In p st_pcts -> pct_in_range (Z2F p) = true.
Proof. intros p Hp. rewrite k_st_pcts in Hp. cbn in Hp. repeat (destruct Hp as [<-|Hp]; [vm_compute; reflexivity|]). destruct Hp. Qed.
Lemma st_pcts_le : forall p p', In p st_pcts -> In p' st_pcts -> (p <= p')%Z -> pct_le (Z2F p) (Z2F p') = true.
Proof.
  assert (A : forallb (fun p => forallb (fun p' => implb (p <=? p')%Z (pct_le (Z2F p) (Z2F p'))) st_pcts) st_pcts = true)
    by (vm_compute; reflexivity).
  intros p p' Hp Hp' L. rewrite forallb_forall in A. specialize (A p Hp). rewrite forallb_forall in A. specialize (A p' Hp').
  apply Z.leb_le in L. rewrite L in A. exact A.
Qed.
Definition size_ok (l : list Q) : Prop := (1 <= Z.of_nat (length l) /\ Z.of_nat (length l) - 1 <= 2 ^ 46)%Z.

Lemma st_pos l p : size_ok l -> In p st_pcts ->
  let n := Z.of_nat (length l) in
  (0 <= pct_lpos (Z2F p) n <= pct_rpos (Z2F p) n /\ pct_rpos (Z2F p) n <= n - 1 /\ pct_rpos (Z2F p) n <= pct_lpos (Z2F p) n + 1)%Z.
Proof.
  intros [H1 H2] Hp n. destruct (s_position_any (Z2F p) n (st_pcts_in_range p Hp) H1 H2) as (_ & _ & _ & _ & A & B & C). auto.
Qed.

Lemma nthZ_sorted_le l i j : (0 <= i <= j)%Z -> (j < Z.of_nat (length l))%Z -> nthZ Q_ops (qs l) i <= nthZ Q_ops (qs l) j.
Proof.
  intros Hij Hj. unfold nthZ. destruct (Z.ltb_spec i 0); [lia|]. destruct (Z.ltb_spec j 0); [lia|].
  destruct (Z.eq_dec i j) as [->|Hne]; [apply Qle_refl|]. apply le_Qle.
  apply (StronglySorted_nth _ _ _ (qs_sorted l)). rewrite qs_length. lia.
Qed.
Lemma nthZ_in l i : (0 <= i < Z.of_nat (length l))%Z -> In (nthZ Q_ops (qs l) i) l.
Proof.
  intros H. unfold nthZ. destruct (Z.ltb_spec i 0); [lia|]. apply (Permutation_in _ (qs_perm l)). apply nth_In. rewrite qs_length. lia.
Qed.

(* a percentile lies between the two elements it reads *)
Lemma q_pct_between l p : size_ok l -> In p st_pcts ->
  let n := Z.of_nat (length l) in
  nthZ Q_ops (qs l) (pct_lpos (Z2F p) n) <= q_pct l p <= nthZ Q_ops (qs l) (pct_rpos (Z2F p) n).
Proof.
  intros Hs Hp n. destruct (st_pos l p Hs Hp) as (A & B & C). fold n in A, B, C. rewrite q_pct_eq. cbv zeta. fold n.
  pose proof (nthZ_sorted_le l _ _ A ltac:(lia)) as L.
  destruct (Z.eqb_spec (pct_lpos (Z2F p) n) (pct_rpos (Z2F p) n)) as [E|E].
  - rewrite <- E. split; apply Qle_refl.
  - set (a := nthZ Q_ops (qs l) (pct_lpos (Z2F p) n)) in *. set (b := nthZ Q_ops (qs l) (pct_rpos (Z2F p) n)) in *.
    change (inject_Z 2) with 2. split; [apply Qle_shift_div_l | apply Qle_shift_div_r]; lra.
Qed.
Lemma q_pct_bounds l p a b : size_ok l -> In p st_pcts -> (forall x, In x l -> a <= x <= b) -> a <= q_pct l p <= b.
Proof.
  intros Hs Hp B. destruct (st_pos l p Hs Hp) as (A1 & A2 & A3). destruct (q_pct_between l p Hs Hp) as [L R].
  cbv zeta in *. set (n := Z.of_nat (length l)) in *.
  pose proof (B _ (nthZ_in l (pct_lpos (Z2F p) n) ltac:(lia))) as [B1 _]. pose proof (B _ (nthZ_in l (pct_rpos (Z2F p) n) ltac:(lia))) as [_ B2].
  split; lra.
Qed.
(* the percentile columns are ordered like their percentages *)
Lemma q_pct_mono l p p' : size_ok l -> In p st_pcts -> In p' st_pcts -> (p <= p')%Z -> q_pct l p <= q_pct l p'.
Proof.
  intros Hs Hp Hp' L. pose proof Hs as [H1 H2].
  destruct (s_position_monotone (Z2F p) (Z2F p') _ (st_pcts_in_range p Hp) (st_pcts_in_range p' Hp') (st_pcts_le p p' Hp Hp' L) H1 H2) as [M1 M2].
  destruct (st_pos l p Hs Hp) as (A1 & A2 & A3). destruct (st_pos l p' Hs Hp') as (B1 & B2 & B3).
  destruct (q_pct_between l p Hs Hp) as [_ R]. destruct (q_pct_between l p' Hs Hp') as [L' _].
  cbv zeta in *. set (n := Z.of_nat (length l)) in *.
  destruct (Z_le_gt_dec (pct_rpos (Z2F p) n) (pct_lpos (Z2F p') n)) as [C|C].
  - assert (X : (pct_lpos (Z2F p') n < Z.of_nat (length l))%Z) by (fold n; lia).
    assert (Y : (0 <= pct_rpos (Z2F p) n <= pct_lpos (Z2F p') n)%Z) by lia.
    pose proof (nthZ_sorted_le l _ _ Y X). lra.
  - assert (E1 : pct_lpos (Z2F p') n = pct_lpos (Z2F p) n) by lia. assert (E2 : pct_rpos (Z2F p') n = pct_rpos (Z2F p) n) by lia.
    rewrite !q_pct_eq. cbv zeta. fold n. rewrite E1, E2. apply Qle_refl.
Qed.

(* ------------------------------------------------------------------------------------------------------------------ *)
(* 3. the 12-number record                                                                                              *)
(* ------------------------------------------------------------------------------------------------------------------ *)
Lemma q_stats_eq l : q_stats l = [q_mean l; q_stdev2 l; inject_Z (q_count l)] ++ map (q_pct l) st_pcts.
Proof. reflexivity. Qed.
Lemma q_stats_length l : length (q_stats l) = 12%nat.
Proof. reflexivity. Qed.
(* store_stats then load_stats: the members of stats_t are (mean, stdev, count, the nine percentiles in increasing percentage) *)
Lemma load_store {T} (Op : ops T) m s c vals :
  load_stats Op (store_stats Op [m; s; c] vals) = m :: s :: c :: st_percentiles Op vals.
Proof. reflexivity. Qed.
Lemma load_store_row {T} (Op : ops T) (row : list T) : length row = 12%nat -> load_stats Op row = row.
Proof.
  intros H. do 12 (destruct row as [|? row]; [discriminate H|]). destruct row; [reflexivity|discriminate H].
Qed.

Lemma Forall2_map_Qeq (f g : Z -> Q) ps : (forall p, f p == g p) -> Forall2 Qeq (map f ps) (map g ps).
Proof. intros H. induction ps; cbn; constructor; auto. Qed.
(* (2) the record is a function of the multiset of the values *)
Lemma stats_multiset l l' : Permutation l l' -> Forall2 Qeq (q_stats l) (q_stats l').
Proof.
  intros H. rewrite !q_stats_eq. apply Forall2_app.
  - repeat constructor; [apply q_mean_perm | apply q_stdev2_perm | rewrite (q_count_perm _ _ H); reflexivity]; exact H.
  - apply Forall2_map_Qeq. intros p. apply q_pct_perm, H.
Qed.

Lemma st_pcts_sorted i j : (i <= j < 9)%nat -> (nth i st_pcts 0 <= nth j st_pcts 0)%Z.
Proof.
  intros H. rewrite k_st_pcts.
  do 9 (destruct i as [|i]; [do 9 (destruct j as [|j]; [cbn; lia|]); lia|]). lia.
Qed.
Lemma st_pcts_nth_in i : (i < 9)%nat -> In (nth i st_pcts 0%Z) st_pcts.
Proof. intros H. apply nth_In. exact H. Qed.
Lemma nth_q_stats_pct l k : (3 <= k < 12)%nat -> nth k (q_stats l) 0 = q_pct l (nth (k - 3) st_pcts 0%Z).
Proof.
  intros H. rewrite q_stats_eq, app_nth2 by (cbn; lia). cbn [length].
  rewrite (nth_indep _ 0 (q_pct l 0%Z)) by (rewrite map_length; cbn; lia). rewrite map_nth. reflexivity.
Qed.

(* (3) what a reader can check on a stored record *)
Lemma stats_order_facts l : size_ok l ->
  let r := q_stats l in
  length r = 12%nat /\
  nth 0 r 0 == q_mean l /\ nth 1 r 0 == q_stdev2 l /\ nth 2 r 0 == inject_Z (Z.of_nat (length l)) /\
  (forall i j, (3 <= i <= j)%nat -> (j < 12)%nat -> nth i r 0 <= nth j r 0) /\
  (forall a b, (forall x, In x l -> a <= x <= b) ->
     a <= nth 0 r 0 <= b /\ forall k, (3 <= k < 12)%nat -> a <= nth k r 0 <= b) /\
  0 <= nth 1 r 0 /\ 0 <= q_variance l /\
  ((1 < Z.of_nat (length l))%Z -> (nth 1 r 0 == 0 <-> all_equal l) /\ (q_variance l == 0 <-> all_equal l) /\
                                  q_variance l == var_raw l /\ var_raw l == msd l / inject_Z (Z.of_nat (length l))) /\
  (length l = 1%nat -> nth 1 r 0 == 0 /\ q_variance l == 0).
Proof.
  intros Hs r. assert (Hl : l <> []) by (destruct Hs as [H _]; intros ->; cbn in H; lia).
  split; [reflexivity|]. split; [reflexivity|]. split; [reflexivity|]. split; [reflexivity|]. split.
  { intros i j Hij Hj. unfold r. rewrite !nth_q_stats_pct by lia.
    apply q_pct_mono; [exact Hs|apply st_pcts_nth_in; lia|apply st_pcts_nth_in; lia|apply st_pcts_sorted; lia]. }
  split.
  { intros a b B. split; [apply (mean_bounds l a b Hl B)|]. intros k Hk. unfold r. rewrite nth_q_stats_pct by lia.
    apply q_pct_bounds; [exact Hs|apply st_pcts_nth_in; lia|exact B]. }
  split; [apply q_stdev2_ge0|]. split; [apply q_variance_ge0|]. split.
  - intros Hn. fold (q_count l) in Hn. split; [apply (q_stdev2_zero_iff l Hn)|]. split; [apply (q_variance_zero_iff l Hn)|].
    split.
    + rewrite q_variance_eq. apply Z.ltb_lt in Hn. rewrite Hn. reflexivity.
    + apply var_raw_is_msd, Hl.
  - intros H1. destruct l as [|x [|y l]]; try discriminate H1. destruct (q_single x) as (A & B & _). split; [exact B|exact A].
Qed.

(* ------------------------------------------------------------------------------------------------------------------ *)
(* 4. the layout of m_values / m_optims                                                                                 *)
(* ------------------------------------------------------------------------------------------------------------------ *)
Local Open Scope Z_scope.

Lemma cell_eq T F t f s v k : cell T F t f s v k = (((t * F + f) * 2 + s) * 2 + v) * 12 + k.
Proof.
  unfold cell, vdims. cbn [offset size]. unfold src_get_index_step, src_get_index_last, src_product_step, src_product_base. ring.
Qed.
Lemma vsize_eq T F : size (vdims T F) = T * F * 48.
Proof. unfold vdims. cbn [size]. unfold src_product_step, src_product_base. ring. Qed.
Lemma sub_view_eq {A} (st : rstate A) t f s v : sub_view st t f s v = (cell (r_trials st) (r_folds st) t f s v 0, 12).
Proof.
  unfold sub_view, view_vector. rewrite cell_eq. unfold vdims, dims0. cbn [offset0 size skipn length].
  unfold src_get_index0_step, src_get_index0_base, src_product_step, src_product_base. f_equal. ring.
Qed.
Lemma o_view_eq v : o_view v = (v * 12, 12).
Proof.
  unfold o_view, view_vector, odims, dims0. cbn [offset0 size skipn length].
  unfold src_get_index0_step, src_get_index0_base, src_product_step, src_product_base. f_equal. ring.
Qed.

Definition idx_ok (T F t f s v : Z) : Prop := 0 <= t < T /\ 0 <= f < F /\ 0 <= s < 2 /\ 0 <= v < 2.
(* every (trial, fold, split, kind, statistic) has its own cell, inside the buffer *)
Lemma cell_range T F t f s v k : idx_ok T F t f s v -> 0 <= k < 12 -> 0 <= cell T F t f s v k < size (vdims T F).
Proof. intros (H1 & H2 & H3 & H4) Hk. rewrite cell_eq, vsize_eq. nia. Qed.
Lemma cell_injective T F t f s v k t' f' s' v' k' :
  idx_ok T F t f s v -> idx_ok T F t' f' s' v' -> 0 <= k < 12 -> 0 <= k' < 12 ->
  cell T F t f s v k = cell T F t' f' s' v' k' -> t = t' /\ f = f' /\ s = s' /\ v = v' /\ k = k'.
Proof.
  intros (H1 & H2 & H3 & H4) (G1 & G2 & G3 & G4) Hk Hk'. rewrite !cell_eq. intros E.
  assert (E1 : t * F + f = t' * F + f') by lia.
  assert (t = t') by nia. subst t'. lia.
Qed.
(* the statistics of different (trial, fold, split, kind) occupy disjoint ranges of 12 cells *)
Lemma cell_blocks_disjoint T F t f s v t' f' s' v' :
  idx_ok T F t f s v -> idx_ok T F t' f' s' v' -> (t, f, s, v) <> (t', f', s', v') ->
  cell T F t f s v 0 + 12 <= cell T F t' f' s' v' 0 \/ cell T F t' f' s' v' 0 + 12 <= cell T F t f s v 0.
Proof.
  intros (H1 & H2 & H3 & H4) (G1 & G2 & G3 & G4) N. rewrite !cell_eq.
  assert (D : (t * F + f) * 2 * 2 + s * 2 + v <> (t' * F + f') * 2 * 2 + s' * 2 + v').
  { intros E. apply N. assert (E1 : t * F + f = t' * F + f') by lia. assert (t = t') by nia. subst t'.
    assert (f = f') by lia. subst f'. assert (s = s') by lia. subst s'. assert (v = v') by lia. subst v'. reflexivity. }
  lia.
Qed.
(* the stride of the first dimension does not depend on the number of trials: add() keeps every old cell where it was *)
Lemma cell_trials_indep T T' F t f s v k : cell T F t f s v k = cell T' F t f s v k.
Proof. rewrite !cell_eq. reflexivity. Qed.

Section Splice.
Context {A : Type}.
Lemma splice_length (b : Z) (row flat : list A) : 0 <= b -> b + Z.of_nat (length row) <= Z.of_nat (length flat) ->
  length (splice b row flat) = length flat.
Proof. intros Hb H. unfold splice. rewrite !app_length, firstn_length, skipn_length. lia. Qed.
Lemma nth_splice (b : Z) (row flat : list A) (d : A) (i : nat) : 0 <= b -> b + Z.of_nat (length row) <= Z.of_nat (length flat) ->
  nth i (splice b row flat) d =
  if (Z.to_nat b <=? i)%nat && (i <? Z.to_nat b + length row)%nat then nth (i - Z.to_nat b) row d else nth i flat d.
Proof.
  intros Hb H. unfold splice. set (bn := Z.to_nat b).
  assert (Lf : length (firstn bn flat) = bn) by (rewrite firstn_length; lia).
  destruct (Nat.leb_spec bn i) as [H1|H1]; cbn [andb].
  - rewrite app_nth2 by lia. rewrite Lf. destruct (Nat.ltb_spec i (bn + length row)) as [H2|H2].
    + rewrite app_nth1 by lia. reflexivity.
    + rewrite app_nth2 by lia. rewrite nth_skipn_add. f_equal. lia.
  - rewrite app_nth1 by lia. apply nth_firstn_lt. lia.
Qed.
Lemma segment_nth_ext (b n : Z) (l l' : list A) : 0 <= b -> 0 <= n -> b + n <= Z.of_nat (length l) -> b + n <= Z.of_nat (length l') ->
  (forall d i, (Z.to_nat b <= i < Z.to_nat b + Z.to_nat n)%nat -> nth i l' d = nth i l d) -> segment b n l' = segment b n l.
Proof.
  intros Hb Hn H L E. unfold segment. destruct l as [|a0 l0] eqn:El.
  - cbn in H. assert (n = 0) by lia. subst n. reflexivity.
  - rewrite <- El in *. apply (nth_ext _ _ a0 a0).
    + rewrite !firstn_length, !skipn_length. lia.
    + intros k Hk. rewrite firstn_length, skipn_length in Hk. rewrite !nth_firstn_lt by lia. rewrite !nth_skipn_add. apply E. lia.
Qed.
Lemma segment_splice_same (b : Z) (row flat : list A) : 0 <= b -> b + Z.of_nat (length row) <= Z.of_nat (length flat) ->
  segment b (Z.of_nat (length row)) (splice b row flat) = row.
Proof.
  intros Hb H. unfold segment, splice. rewrite Nat2Z.id.
  rewrite skipn_app, firstn_length, (skipn_all2 (firstn _ _)) by (rewrite firstn_length; lia).
  replace (Z.to_nat b - Nat.min (Z.to_nat b) (length flat))%nat with 0%nat by lia. cbn [skipn app].
  rewrite firstn_app, Nat.sub_diag, firstn_all. cbn [firstn]. apply app_nil_r.
Qed.
Lemma segment_splice_other (b : Z) (row flat : list A) (b' n : Z) :
  0 <= b -> b + Z.of_nat (length row) <= Z.of_nat (length flat) -> 0 <= b' -> 0 <= n -> b' + n <= Z.of_nat (length flat) ->
  b' + n <= b \/ b + Z.of_nat (length row) <= b' -> segment b' n (splice b row flat) = segment b' n flat.
Proof.
  intros Hb H Hb' Hn H' D. apply segment_nth_ext; try assumption; [rewrite splice_length; assumption|].
  intros d i Hi. rewrite nth_splice by assumption.
  destruct (Nat.leb_spec (Z.to_nat b) i); destruct (Nat.ltb_spec i (Z.to_nat b + length row)); cbn [andb]; try reflexivity. lia.
Qed.
End Splice.

Lemma skipn_repeat' {A} (d : A) k n : skipn k (repeat d n) = repeat d (n - k).
Proof. revert k. induction n as [|n IH]; intros k; [destruct k; reflexivity|]. destruct k as [|k]; [reflexivity|]. cbn. apply IH. Qed.
Lemma firstn_repeat' {A} (d : A) k n : firstn k (repeat d n) = repeat d (Nat.min k n).
Proof. revert k. induction n as [|n IH]; intros k; [destruct k; reflexivity|]. destruct k as [|k]; [reflexivity|]. cbn. f_equal. apply IH. Qed.

Section LayoutProofs.
Context {A : Type}.
Implicit Types st : rstate A.

Definition wf st : Prop :=
  0 <= r_trials st /\ 0 <= r_folds st /\ Z.of_nat (length (r_values st)) = size (vdims (r_trials st) (r_folds st)) /\
  length (r_optims st) = 24%nat.
Definition ok st t f s v : Prop := idx_ok (r_trials st) (r_folds st) t f s v.

Lemma block_in st t f s v : wf st -> ok st t f s v ->
  0 <= cell (r_trials st) (r_folds st) t f s v 0 /\ cell (r_trials st) (r_folds st) t f s v 0 + 12 <= Z.of_nat (length (r_values st)).
Proof.
  intros (W1 & W2 & W3 & _) K. rewrite W3. pose proof (cell_range _ _ _ _ _ _ 11 K ltac:(lia)) as R.
  rewrite cell_eq in *. lia.
Qed.
Lemma write_wf st t f s v row : wf st -> ok st t f s v -> length row = 12%nat -> wf (r_write st t f s v row).
Proof.
  intros W K L. pose proof (block_in st t f s v W K) as [B1 B2]. destruct W as (W1 & W2 & W3 & W4).
  unfold wf, r_write. cbn [r_trials r_folds r_values r_optims]. repeat split; try assumption.
  rewrite sub_view_eq. cbn [fst]. rewrite splice_length; [exact W3|exact B1|rewrite L; exact B2].
Qed.
Lemma write_dims st t f s v row : r_trials (r_write st t f s v row) = r_trials st /\ r_folds (r_write st t f s v row) = r_folds st /\
  r_optims (r_write st t f s v row) = r_optims st.
Proof. repeat split. Qed.
(* store then load returns the record *)
Lemma read_write_same st t f s v row : wf st -> ok st t f s v -> length row = 12%nat -> r_read (r_write st t f s v row) t f s v = row.
Proof.
  intros W K L. pose proof (block_in st t f s v W K) as [B1 B2].
  unfold r_read. rewrite sub_view_eq. unfold r_write. cbn [fst snd r_trials r_folds r_values]. rewrite sub_view_eq. cbn [fst].
  pose proof (segment_splice_same (cell (r_trials st) (r_folds st) t f s v 0) row (r_values st) B1 ltac:(rewrite L; exact B2)) as X.
  rewrite L in X. exact X.
Qed.
(* frame: re-storing one (trial, fold, split, kind) changes no other *)
Lemma read_write_other st t f s v row t' f' s' v' : wf st -> ok st t f s v -> ok st t' f' s' v' -> length row = 12%nat ->
  (t, f, s, v) <> (t', f', s', v') -> r_read (r_write st t f s v row) t' f' s' v' = r_read st t' f' s' v'.
Proof.
  intros W K K' L N. pose proof (block_in st t f s v W K) as [B1 B2]. pose proof (block_in st t' f' s' v' W K') as [C1 C2].
  unfold r_read. rewrite !sub_view_eq. unfold r_write. cbn [fst snd r_trials r_folds r_values]. rewrite sub_view_eq. cbn [fst].
  assert (L' : Z.of_nat (length row) = 12) by (rewrite L; reflexivity).
  apply segment_splice_other; rewrite ?L'; try lia.
  destruct (cell_blocks_disjoint _ _ _ _ _ _ _ _ _ _ K K' N); lia.
Qed.
Lemma read_length st t f s v : wf st -> ok st t f s v -> length (r_read st t f s v) = 12%nat.
Proof.
  intros W K. pose proof (block_in st t f s v W K) as [B1 B2]. unfold r_read. rewrite sub_view_eq. cbn [fst snd].
  unfold segment. rewrite firstn_length, skipn_length. lia.
Qed.

(* store(trial, fold, train, valid): the four sub-tensors of (trial, fold) hold the records of (train errors, train losses,
   valid errors, valid losses); everything else is untouched *)
Definition rows_ok (rec : Z -> Z -> list A) : Prop := forall w r, length (rec w r) = 12%nat.
Lemma store_spec st t f rec : wf st -> 0 <= t < r_trials st -> 0 <= f < r_folds st -> rows_ok rec ->
  let st' := r_store st t f rec in
  wf st' /\ r_trials st' = r_trials st /\ r_folds st' = r_folds st /\ r_optims st' = r_optims st /\
  r_read st' t f 0 0 = rec 0 0 /\ r_read st' t f 0 1 = rec 0 1 /\ r_read st' t f 1 0 = rec 1 0 /\ r_read st' t f 1 1 = rec 1 1 /\
  (forall t' f' s' v', ok st t' f' s' v' -> (t', f') <> (t, f) -> r_read st' t' f' s' v' = r_read st t' f' s' v').
Proof.
  intros W Ht Hf R st'. unfold st', r_store. rewrite k_store_calls. cbn [fold_left].
  assert (K : forall s v, 0 <= s < 2 -> 0 <= v < 2 -> ok st t f s v) by (intros; repeat split; lia).
  set (s1 := r_write st t f 0 0 (rec 0 0)).
  assert (W1 : wf s1) by (apply write_wf; [exact W|apply K; lia|apply R]).
  set (s2 := r_write s1 t f 0 1 (rec 0 1)).
  assert (W2 : wf s2) by (apply write_wf; [exact W1|apply K; lia|apply R]).
  set (s3 := r_write s2 t f 1 0 (rec 1 0)).
  assert (W3 : wf s3) by (apply write_wf; [exact W2|apply K; lia|apply R]).
  set (s4 := r_write s3 t f 1 1 (rec 1 1)).
  assert (W4 : wf s4) by (apply write_wf; [exact W3|apply K; lia|apply R]).
  split; [exact W4|]. split; [reflexivity|]. split; [reflexivity|]. split; [reflexivity|].
  assert (K1 : forall s v, 0 <= s < 2 -> 0 <= v < 2 -> ok s1 t f s v) by exact K.
  assert (K2 : forall s v, 0 <= s < 2 -> 0 <= v < 2 -> ok s2 t f s v) by exact K.
  assert (K3 : forall s v, 0 <= s < 2 -> 0 <= v < 2 -> ok s3 t f s v) by exact K.
  split; [|split; [|split; [|split]]].
  - unfold s4. rewrite read_write_other; [|exact W3|apply K3; lia|apply K3; lia|apply R|intros E; inversion E].
    unfold s3. rewrite read_write_other; [|exact W2|apply K2; lia|apply K2; lia|apply R|intros E; inversion E].
    unfold s2. rewrite read_write_other; [|exact W1|apply K1; lia|apply K1; lia|apply R|intros E; inversion E].
    apply read_write_same; [exact W|apply K; lia|apply R].
  - unfold s4. rewrite read_write_other; [|exact W3|apply K3; lia|apply K3; lia|apply R|intros E; inversion E].
    unfold s3. rewrite read_write_other; [|exact W2|apply K2; lia|apply K2; lia|apply R|intros E; inversion E].
    apply read_write_same; [exact W1|apply K1; lia|apply R].
  - unfold s4. rewrite read_write_other; [|exact W3|apply K3; lia|apply K3; lia|apply R|intros E; inversion E].
    apply read_write_same; [exact W2|apply K2; lia|apply R].
  - apply read_write_same; [exact W3|apply K3; lia|apply R].
  - intros t' f' s' v' K' N.
    assert (N' : forall s v, (t, f, s, v) <> (t', f', s', v')) by (intros s v E; apply N; inversion E; reflexivity).
    unfold s4. rewrite read_write_other; [|exact W3|apply K3; lia|exact K'|apply R|apply N'].
    unfold s3. rewrite read_write_other; [|exact W2|apply K2; lia|exact K'|apply R|apply N'].
    unfold s2. rewrite read_write_other; [|exact W1|apply K1; lia|exact K'|apply R|apply N'].
    unfold s1. rewrite read_write_other; [reflexivity|exact W|apply K; lia|exact K'|apply R|apply N'].
Qed.

(* result_t(spaces, folds) and add(): old cells keep their contents, the new trials read as NaN *)
Lemma new_wf (d : A) F : 0 <= F -> wf (r_new d F).
Proof. intros H. unfold wf, r_new. cbn [r_trials r_folds r_values r_optims]. rewrite vsize_eq, repeat_length. repeat split; try lia. Qed.
Lemma add_spec (d : A) st n : wf st -> 0 <= n ->
  let st' := r_add d st n in
  wf st' /\ r_trials st' = r_trials st + n /\ r_folds st' = r_folds st /\ r_optims st' = r_optims st /\
  (forall t f s v, ok st t f s v -> r_read st' t f s v = r_read st t f s v) /\
  (forall t f s v, ok st' t f s v -> r_trials st <= t -> r_read st' t f s v = repeat d 12).
Proof.
  intros (W1 & W2 & W3 & W4) Hn st'. unfold st', r_add.
  assert (WF : wf (mk_rs (r_trials st + n) (r_folds st) (r_values st ++ repeat d (Z.to_nat (size (vdims n (r_folds st))))) (r_optims st))).
  { unfold wf. cbn [r_trials r_folds r_values r_optims]. rewrite app_length, repeat_length, !vsize_eq in *. repeat split; try lia; try assumption. }
  split; [exact WF|]. split; [reflexivity|]. split; [reflexivity|]. split; [reflexivity|]. split.
  - intros t f s v K. pose proof (block_in st t f s v (conj W1 (conj W2 (conj W3 W4))) K) as [B1 B2].
    unfold r_read. rewrite !sub_view_eq. cbn [fst snd r_trials r_folds r_values].
    rewrite (cell_trials_indep (r_trials st + n) (r_trials st)).
    apply segment_nth_ext; try lia; [rewrite app_length; lia|].
    intros d0 i Hi. apply app_nth1. lia.
  - intros t f s v K Ht. cbn [r_trials r_folds] in K. pose proof (block_in _ t f s v WF K) as [B1 B2].
    cbn [r_trials r_folds r_values] in B1, B2.
    unfold r_read. rewrite !sub_view_eq. cbn [fst snd r_trials r_folds r_values].
    set (b := cell (r_trials st + n) (r_folds st) t f s v 0) in *.
    assert (Hb : Z.of_nat (length (r_values st)) <= b).
    { rewrite W3, vsize_eq. unfold b. rewrite cell_eq. destruct K as (K1 & K2 & K3 & K4). cbn [r_trials r_folds] in *. nia. }
    unfold segment. rewrite skipn_app, (skipn_all2 (r_values st)) by lia. cbn [app].
    rewrite skipn_repeat', firstn_repeat'. f_equal. rewrite app_length, repeat_length in B2. lia.
Qed.
End LayoutProofs.

(* the optimum's statistics: m_optims *)
Lemma final_spec {A} (st : rstate A) rec : length (r_optims st) = 24%nat -> length (rec 0) = 12%nat -> length (rec 1) = 12%nat ->
  let st' := r_store_final st rec in
  r_read_opt st' 0 = rec 0 /\ r_read_opt st' 1 = rec 1 /\ r_values st' = r_values st /\ r_trials st' = r_trials st /\
  r_folds st' = r_folds st /\ length (r_optims st') = 24%nat.
Proof.
  intros L L0 L1 st'. unfold st', r_store_final. rewrite k_final_calls. cbn [fold_left]. unfold r_write_opt, r_read_opt.
  cbn [r_optims r_values r_trials r_folds]. rewrite !o_view_eq. cbn [fst snd].
  assert (Z0 : Z.of_nat (length (rec 0)) = 12) by (rewrite L0; reflexivity).
  assert (Z1 : Z.of_nat (length (rec 1)) = 12) by (rewrite L1; reflexivity).
  assert (S0 : length (splice (0 * 12) (rec 0) (r_optims st)) = 24%nat) by (rewrite splice_length; lia).
  split; [|split; [|repeat split]].
  - rewrite segment_splice_other; try lia. pose proof (segment_splice_same (0 * 12) (rec 0) (r_optims st) ltac:(lia) ltac:(lia)) as X.
    rewrite Z0 in X. exact X.
  - pose proof (segment_splice_same (1 * 12) (rec 1) (splice (0 * 12) (rec 0) (r_optims st)) ltac:(lia) ltac:(lia)) as X.
    rewrite Z1 in X. exact X.
  - rewrite splice_length; lia.
Qed.

Lemma r_stats_eq {T} (Op : ops T) st t f (a b : bool) :
  r_stats Op st t f a b = load_stats Op (r_read st t f (if a then 0 else 1) (if b then 0 else 1)).
Proof. destruct a, b; reflexivity. Qed.
Lemma r_stats_final_eq {T} (Op : ops T) st (b : bool) : r_stats_final Op st b = load_stats Op (r_read_opt st (if b then 0 else 1)).
Proof. destruct b; reflexivity. Qed.

(* ------------------------------------------------------------------------------------------------------------------ *)
(* 5. value(trial) / optimum_trial / closest_trial                                                                      *)
(* ------------------------------------------------------------------------------------------------------------------ *)
Section Value.
Context {T : Type} (Op : ops T).
Definition fold_mean (st : rstate T) (t : Z) (a b : bool) (f : nat) : T := nth 0 (r_stats Op st t (Z.of_nat f) a b) (nan Op).

Lemma value_loop_eq st t a b F : forall fuel k acc, (k + fuel = Z.to_nat F)%nat -> 0 <= F ->
  value_loop Op fuel st t a b (Z.of_nat k) F acc = fold_left (add Op) (map (fold_mean st t a b) (seq k fuel)) acc.
Proof.
  induction fuel as [|fu IH]; intros k acc H HF; [reflexivity|].
  cbn [value_loop seq map fold_left]. destruct k_value_loop as (_ & Hc & Hs & Hfld & _). rewrite Hc, Hs, Hfld.
  destruct (Z.ltb_spec (Z.of_nat k) F) as [_|X]; [|lia].
  replace (Z.of_nat k + 1) with (Z.of_nat (S k)) by lia. rewrite IH by lia. reflexivity.
Qed.
(* value(trial, split, kind) = (sum over fold = 0 .. folds-1, in this order, of the stored m_mean) / folds *)
Lemma r_value_eq st t a b : 0 <= r_folds st ->
  r_value Op st t a b =
  div Op (fold_left (add Op) (map (fold_mean st t a b) (seq 0 (Z.to_nat (r_folds st)))) (ofZ Op 0)) (ofZ Op (r_folds st)).
Proof.
  intros HF. unfold r_value. destruct k_value_loop as (H0 & _ & _ & _ & Hd & _). rewrite H0, Hd.
  rewrite (value_loop_eq st t a b (r_folds st) _ 0%nat) by lia. reflexivity.
Qed.
(* it reads exactly the stored means of the folds of that trial *)
Lemma r_value_reads_means st st' t a b : 0 <= r_folds st -> r_folds st' = r_folds st ->
  (forall f, (f < Z.to_nat (r_folds st))%nat -> fold_mean st' t a b f = fold_mean st t a b f) -> r_value Op st' t a b = r_value Op st t a b.
Proof.
  intros HF E H. rewrite !r_value_eq by lia. rewrite E. f_equal. f_equal. apply map_ext_in. intros f Hf. apply in_seq in Hf. apply H. lia.
Qed.
Lemma r_value_default_eq st t : r_value_default Op st t = r_value Op st t false true.
Proof. reflexivity. Qed.

(* first strict minimum below tmax *)
Hypothesis Ha : forall x y, cmp Op y x = - cmp Op x y.
Hypothesis Ht : forall x y z, cmp Op x y <= 0 -> cmp Op y z <= 0 -> cmp Op x z <= 0.
Notation lt := (C20_Proofs.lt Op).
Notation le := (C20_Proofs.le Op).
Definition amin_inv (x : Z -> T) (tmax : T) (i best : Z) (bestv : T) : Prop :=
  (best = 0 /\ bestv = tmax /\ forall j, 0 <= j < i -> ~ lt (x j) tmax) \/
  (0 <= best < i /\ bestv = x best /\ lt (x best) tmax /\ (forall j, 0 <= j < i -> le (x best) (x j)) /\
   (forall j, 0 <= j < best -> lt (x best) (x j))).

Lemma argmin_loop_inv cont better x tmax n : (forall i n, cont i n = (i <? n)) -> (forall b : bool, better b = b) ->
  forall fuel i best bestv, 0 <= i -> Z.of_nat fuel = n - i -> amin_inv x tmax i best bestv ->
  exists bv, amin_inv x tmax n (argmin_loop Op cont better x fuel i n best bestv) bv.
Proof.
  intros Hc Hb. induction fuel as [|fu IH]; intros i best bestv Hi Hf Inv.
  - cbn [argmin_loop]. replace n with i by lia. exists bestv. exact Inv.
  - cbn [argmin_loop]. rewrite Hc, Hb. destruct (Z.ltb_spec i n) as [_|X]; [|lia].
    destruct (ltb Op (x i) bestv) eqn:E.
    + apply ltb_lt in E. apply IH; [lia|lia|]. right.
      destruct Inv as [(B0 & Bv & N)|(Bb & Bv & Lb & M1 & M2)]; subst bestv.
      * split; [lia|]. split; [reflexivity|]. split; [exact E|]. split.
        -- intros j Hj. destruct (Z.eq_dec j i) as [->|Hne]; [apply (C20_Proofs.le_refl Op Ha)|].
           apply (C20_Proofs.le_trans Op Ht _ tmax); [apply lt_le, E|]. apply (not_lt_le Op Ha). apply N. lia.
        -- intros j Hj. apply (lt_le_trans Op Ha Ht _ tmax); [exact E|]. apply (not_lt_le Op Ha). apply N. lia.
      * split; [lia|]. split; [reflexivity|]. split; [apply (lt_le_trans Op Ha Ht _ (x best)); [exact E|apply lt_le, Lb]|]. split.
        -- intros j Hj. destruct (Z.eq_dec j i) as [->|Hne]; [apply (C20_Proofs.le_refl Op Ha)|].
           apply (C20_Proofs.le_trans Op Ht _ (x best)); [apply lt_le, E|]. apply M1. lia.
        -- intros j Hj. apply (lt_le_trans Op Ha Ht _ (x best)); [exact E|]. apply M1. lia.
    + apply (ltb_false_le Op Ha) in E. apply IH; [lia|lia|].
      destruct Inv as [(B0 & Bv & N)|(Bb & Bv & Lb & M1 & M2)]; subst bestv.
      * left. split; [exact B0|]. split; [reflexivity|]. intros j Hj. destruct (Z.eq_dec j i) as [->|Hne]; [|apply N; lia].
        apply (not_lt_le Op Ha). exact E.
      * right. split; [lia|]. split; [reflexivity|]. split; [exact Lb|]. split; [|exact M2].
        intros j Hj. destruct (Z.eq_dec j i) as [->|Hne]; [exact E|apply M1; lia].
Qed.
Lemma argmin_spec cont better x tmax n : (forall i n, cont i n = (i <? n)) -> (forall b : bool, better b = b) -> 0 <= n ->
  let r := argmin_loop Op cont better x (Z.to_nat n) 0 n 0 tmax in
  ((forall j, 0 <= j < n -> ~ lt (x j) tmax) /\ r = 0) \/
  (0 <= r < n /\ lt (x r) tmax /\ (forall j, 0 <= j < n -> le (x r) (x j)) /\ (forall j, 0 <= j < r -> lt (x r) (x j))).
Proof.
  intros Hc Hb Hn r.
  destruct (argmin_loop_inv cont better x tmax n Hc Hb (Z.to_nat n) 0 0 tmax ltac:(lia) ltac:(lia)) as (bv & Inv).
  { left. split; [reflexivity|]. split; [reflexivity|]. intros j Hj. lia. }
  fold r in Inv. destruct Inv as [(B0 & _ & N)|(Bb & _ & Lb & M1 & M2)]; [left; split; assumption|right; repeat split; try assumption; lia].
Qed.
End Value.

(* over Q: value(trial) is the mean over the folds of the stored means *)
Lemma fold_left_Qplus l a : (fold_left Qplus l a == a + qsum l)%Q.
Proof. revert a. induction l as [|x l IH]; intros a; cbn [fold_left]; [change (qsum []) with 0%Q; ring|]. rewrite IH, qsum_cons. ring. Qed.
Lemma q_value_eq st t a b : 0 <= r_folds st ->
  (r_value Q_ops st t a b == qsum (map (fold_mean Q_ops st t a b) (seq 0 (Z.to_nat (r_folds st)))) / inject_Z (r_folds st))%Q.
Proof.
  intros HF. rewrite r_value_eq by exact HF. cbn [div add ofZ Q_ops]. rewrite fold_left_Qplus. change (inject_Z 0) with 0%Q.
  setoid_replace (0 + qsum (map (fold_mean Q_ops st t a b) (seq 0 (Z.to_nat (r_folds st)))))%Q
    with (qsum (map (fold_mean Q_ops st t a b) (seq 0 (Z.to_nat (r_folds st))))) by ring. reflexivity.
Qed.

(* ------------------------------------------------------------------------------------------------------------------ *)
(* 6. the tasks of ml::tune: whatever the order in which the thread pool runs them                                       *)
(* ------------------------------------------------------------------------------------------------------------------ *)
Section TuneProofs.
Variables S M P : Type.
Variable fit_cb : P -> list S -> M.
Variables errf lossf : M -> S -> Q.
Variable splits : list (list S * list S).
Variable params : list P.
Variable dp : P.
Variables FF OLD : Z.
Hypothesis HF : 0 < FF.
Hypothesis HO : 0 <= OLD.
Let NEW := Z.of_nat (length params).
Let task := tune_task S M P fit_cb errf lossf FF OLD splits params dp.

(* the record a task stores for (who, row) *)
Definition task_model (index : Z) : M :=
  fit_cb (nth (Z.to_nat (index / FF)) params dp) (fst (nth (Z.to_nat (index mod FF)) splits ([], []))).
Definition task_rec (index who row : Z) : list Q :=
  let sp := nth (Z.to_nat (index mod FF)) splits ([], []) in
  let m := task_model index in
  q_stats (ev_row (if who =? 0 then evaluate S M errf lossf m (fst sp) else evaluate S M errf lossf m (snd sp)) row).
Definition inv (st : rstate Q) : Prop := wf st /\ r_folds st = FF /\ r_trials st = OLD + NEW.
Definition tgt (i : Z) : Z * Z := (OLD + i / FF, i mod FF).

Lemma kernels_tune i : 0 <= i -> src_tune_fold i FF = i mod FF /\ src_tune_trial i FF = i / FF.
Proof. intros Hi. unfold src_tune_fold, src_tune_trial. rewrite Z.rem_mod_nonneg, Z.quot_div_nonneg by lia. split; reflexivity. Qed.
Lemma tgt_range i : 0 <= i < FF * NEW -> 0 <= i / FF < NEW /\ 0 <= i mod FF < FF.
Proof.
  intros Hi. split; [|apply Z.mod_pos_bound; lia]. split; [apply Z.div_pos; lia|]. apply Z.div_lt_upper_bound; lia.
Qed.
Lemma tgt_inj i j : 0 <= i < FF * NEW -> 0 <= j < FF * NEW -> tgt i = tgt j -> i = j.
Proof.
  intros Hi Hj E. unfold tgt in E. inversion E as [[E1 E2]]. rewrite (Z.div_mod i FF), (Z.div_mod j FF) by lia.
  assert (i / FF = j / FF) by lia. congruence.
Qed.

Lemma task_spec st i : inv st -> 0 <= i < FF * NEW ->
  let st' := task st i in
  inv st' /\
  (forall s v, 0 <= s < 2 -> 0 <= v < 2 -> r_read st' (fst (tgt i)) (snd (tgt i)) s v = task_rec i s v) /\
  (forall t f s v, ok st t f s v -> (t, f) <> tgt i -> r_read st' t f s v = r_read st t f s v).
Proof.
  intros (W & EF & ET) Hi st'. destruct (kernels_tune i ltac:(lia)) as [K1 K2]. destruct (tgt_range i Hi) as [R1 R2].
  unfold st', task, tune_task. rewrite K1, K2. unfold src_tune_store_trial.
  match goal with |- context [r_store st ?t ?f ?rec] => pose proof (store_spec st t f rec W ltac:(lia) ltac:(lia) ltac:(intros w r; apply q_stats_length)) as X end.
  cbv zeta in X. destruct X as (W' & T' & F' & _ & A00 & A01 & A10 & A11 & Fr).
  split; [split; [exact W'|split; congruence]|]. split.
  - intros s v Hs Hv. unfold tgt. cbn [fst snd]. unfold task_rec, task_model.
    assert (Cs : s = 0 \/ s = 1) by lia. assert (Cv : v = 0 \/ v = 1) by lia.
    destruct Cs as [-> | ->], Cv as [-> | ->]; [rewrite A00|rewrite A01|rewrite A10|rewrite A11]; reflexivity.
  - intros t f s v K N. apply Fr; [exact K|exact N].
Qed.

Lemma batch_inv order : forall st, inv st -> Forall (fun i => 0 <= i < FF * NEW) order -> inv (fold_left task order st).
Proof.
  induction order as [|i order IH]; intros st I Ho; [exact I|]. inversion Ho as [|? ? Hi Ho']; subst. cbn [fold_left].
  apply IH; [apply (task_spec st i I Hi)|exact Ho'].
Qed.
Lemma ok_inv st st' t f s v : inv st -> inv st' -> ok st t f s v -> ok st' t f s v.
Proof. intros (_ & F1 & T1) (_ & F2 & T2). unfold ok. rewrite F1, F2, T1, T2. auto. Qed.
Lemma batch_untouched order : forall st, inv st -> Forall (fun i => 0 <= i < FF * NEW) order ->
  forall t f s v, ok st t f s v -> (forall i, In i order -> (t, f) <> tgt i) ->
  r_read (fold_left task order st) t f s v = r_read st t f s v.
Proof.
  induction order as [|i order IH]; intros st I Ho t f s v K N; [reflexivity|]. inversion Ho as [|? ? Hi Ho']; subst. cbn [fold_left].
  destruct (task_spec st i I Hi) as (I' & _ & Fr). rewrite IH; [|exact I'|exact Ho'|apply (ok_inv st); assumption|intros j Hj; apply N; right; exact Hj].
  apply Fr; [exact K|apply N; left; reflexivity].
Qed.
Lemma batch_written order : forall st, inv st -> Forall (fun i => 0 <= i < FF * NEW) order -> NoDup order ->
  forall i s v, In i order -> 0 <= s < 2 -> 0 <= v < 2 ->
  r_read (fold_left task order st) (fst (tgt i)) (snd (tgt i)) s v = task_rec i s v.
Proof.
  induction order as [|j order IH]; intros st I Ho Nd i s v Hin Hs Hv; [destruct Hin|].
  inversion Ho as [|? ? Hj Ho']; subst. inversion Nd as [|? ? Nj Nd']; subst. cbn [fold_left].
  destruct (task_spec st j I Hj) as (I' & Wr & _).
  destruct (Z.eq_dec i j) as [->|Hne].
  - rewrite batch_untouched; [apply Wr; assumption|exact I'|exact Ho'| |].
    + destruct I' as (_ & F' & T'). destruct (tgt_range j Hj). unfold ok, idx_ok, tgt. cbn [fst snd]. rewrite F', T'. lia.
    + intros k Hk E. rewrite <- surjective_pairing in E. apply tgt_inj in E; [subst k; contradiction|exact Hj|].
      rewrite Forall_forall in Ho'. apply Ho', Hk.
  - destruct Hin as [E|Hin]; [congruence|]. apply IH; assumption.
Qed.
End TuneProofs.

(* the composition stated on tune_batch *)
Lemma tune_batch_spec (S M P : Type) (fit_cb : P -> list S -> M) (errf lossf : M -> S -> Q)
    (splits : list (list S * list S)) (params : list P) (dp : P) (st : rstate Q) (order : list Z) :
  wf st -> 0 < r_folds st ->
  Permutation order (map Z.of_nat (seq 0 (Z.to_nat (r_folds st * Z.of_nat (length params))))) ->
  let st' := tune_batch S M P fit_cb errf lossf splits params dp st order in
  wf st' /\ r_trials st' = r_trials st + Z.of_nat (length params) /\ r_folds st' = r_folds st /\
  (forall trial fold (a b : bool), 0 <= trial < Z.of_nat (length params) -> 0 <= fold < r_folds st ->
     let sp := nth (Z.to_nat fold) splits ([], []) in
     let m := fit_cb (nth (Z.to_nat trial) params dp) (fst sp) in
     r_stats Q_ops st' (r_trials st + trial) fold a b
     = q_stats (map ((if b then errf else lossf) m) (if a then fst sp else snd sp))) /\
  (forall t f s v, ok st t f s v -> r_read st' t f s v = r_read st t f s v).
Proof.
  intros W HF Hp st'. set (FF := r_folds st) in *. set (OLD := r_trials st). set (NEW := Z.of_nat (length params)).
  assert (HO : 0 <= OLD) by apply W. assert (HN : 0 <= NEW) by (unfold NEW; lia).
  destruct (add_spec 0%Q st NEW W HN) as (W1 & T1 & F1 & _ & Old1 & _).
  set (st1 := r_add 0%Q st NEW) in *.
  assert (I1 : inv P params FF OLD st1) by (split; [exact W1|split; [exact F1|exact T1]]).
  assert (Ho : Forall (fun i => 0 <= i < FF * NEW) order).
  { rewrite Forall_forall. intros i Hi. apply (Permutation_in _ Hp) in Hi. apply in_map_iff in Hi. destruct Hi as (k & <- & Hk).
    apply in_seq in Hk. fold NEW in Hk. lia. }
  assert (Nd : NoDup order).
  { apply (Permutation_NoDup (Permutation_sym Hp)). apply FinFun.Injective_map_NoDup; [intros x y; lia|apply seq_NoDup]. }
  unfold st', tune_batch. fold FF OLD NEW st1.
  pose proof (batch_inv S M P fit_cb errf lossf splits params dp FF OLD HF HO order st1 I1 Ho) as (W' & F' & T').
  split; [exact W'|]. split; [exact T'|]. split; [exact F'|]. split.
  - intros trial fold a b Ht Hf. set (i := trial * FF + fold).
    assert (Hi : 0 <= i < FF * NEW) by (unfold i; nia).
    assert (Ed : i / FF = trial) by (unfold i; rewrite Z.div_add_l by lia; rewrite Z.div_small by lia; lia).
    assert (Em : i mod FF = fold) by (unfold i; rewrite Z.add_comm, Z.mod_add by lia; apply Z.mod_small; lia).
    assert (Hin : In i order).
    { apply (Permutation_in _ (Permutation_sym Hp)). apply in_map_iff. exists (Z.to_nat i). split; [lia|]. apply in_seq. fold FF NEW. lia. }
    rewrite r_stats_eq.
    pose proof (batch_written S M P fit_cb errf lossf splits params dp FF OLD HF HO order st1 I1 Ho Nd i
                  (if a then 0 else 1) (if b then 0 else 1) Hin ltac:(destruct a; lia) ltac:(destruct b; lia)) as X.
    unfold tgt in X. cbn [fst snd] in X. rewrite Ed, Em in X. rewrite X. unfold task_rec, task_model. rewrite Ed, Em.
    rewrite load_store_row by apply q_stats_length. destruct a, b; reflexivity.
  - intros t f s v K. rewrite (batch_untouched S M P fit_cb errf lossf splits params dp FF OLD HF HO order st1 I1 Ho).
    + apply Old1, K.
    + destruct K as (K1 & K2). unfold ok, idx_ok. rewrite T1, F1. fold OLD FF. fold OLD in K1. lia.
    + intros i Hi E. unfold tgt in E. inversion E as [[E1 E2]]. destruct K as (K1 & _). fold OLD in K1.
      rewrite Forall_forall in Ho. specialize (Ho i Hi). assert (0 <= i / FF) by (apply Z.div_pos; lia). lia.
Qed.

(* optimum_trial() / closest_trial(): the first strict minimum below numeric_limits::max() (0 when there is none) *)
Lemma optimum_spec {T} (Op : ops T) : order_ok Op -> forall (tmax : T) (st : rstate T), 0 <= r_trials st ->
  let x := r_value_default Op st in
  let r := r_optimum Op tmax st in
  ((forall j, 0 <= j < r_trials st -> ~ C20_Proofs.lt Op (x j) tmax) /\ r = 0) \/
  (0 <= r < r_trials st /\ C20_Proofs.lt Op (x r) tmax /\ (forall j, 0 <= j < r_trials st -> C20_Proofs.le Op (x r) (x j)) /\
   (forall j, 0 <= j < r -> C20_Proofs.lt Op (x r) (x j))).
Proof.
  intros [Ha Ht] tmax st H. destruct k_opt_loop as (_ & Hc & Hb & _).
  exact (argmin_spec Op Ha Ht _ _ (r_value_default Op st) tmax (r_trials st) Hc Hb H).
Qed.
Lemma closest_spec {T} (Op : ops T) : order_ok Op -> forall (tmax : T) (dist : Z -> T) (n : Z), 0 <= n ->
  let r := r_closest Op tmax dist n in
  ((forall j, 0 <= j < n -> ~ C20_Proofs.lt Op (dist j) tmax) /\ r = 0) \/
  (0 <= r < n /\ C20_Proofs.lt Op (dist r) tmax /\ (forall j, 0 <= j < n -> C20_Proofs.le Op (dist r) (dist j)) /\
   (forall j, 0 <= j < r -> C20_Proofs.lt Op (dist r) (dist j))).
Proof.
  intros [Ha Ht] tmax dist n H. destruct k_opt_loop as (_ & _ & _ & Hc & Hb).
  exact (argmin_spec Op Ha Ht _ _ dist tmax n Hc Hb H).
Qed.
Lemma Q_order_ok : order_ok Q_ops.
Proof. split; [apply qcmp_antisym|apply qcmp_trans]. Qed.
