(* C09 -- proofs about the model of C09_Defs.v *)
From Coq Require Import List ZArith QArith Bool Lia Permutation Setoid Morphisms Arith.
From LNGen Require Import Src_parallel Src_c09.
From LN Require Import C17_Defs C17_Statements C09_Defs.
Import ListNotations.
Local Open Scope Z_scope.

(* ================================================================================================== *)
(* 1. map / reduce over a commutative monoid: the result does not depend on the schedule               *)
(* ================================================================================================== *)

Definition valid_schedule (workers : nat) (n batch : Z) (sched : list ((Z * Z) * nat)) : Prop :=
  Permutation (map fst sched) (chunks n batch) /\ Forall (fun ev => (snd ev < workers)%nat) sched.

Section ReduceLaws.
  Context {A : Type} (aeq : A -> A -> Prop) (add : A -> A -> A) (zero : A).
  Context (Heq : Equivalence aeq) (Hadd : Proper (aeq ==> aeq ==> aeq) add).
  Hypothesis add_comm : forall a b, aeq (add a b) (add b a).
  Hypothesis add_assoc : forall a b c, aeq (add (add a b) c) (add a (add b c)).
  Hypothesis add_0_l : forall a, aeq (add zero a) a.
  Variable term : Z -> A.

  Notation rsum := (range_sum add zero term).
  Notation csum := (chunk_sum add zero term).

  Lemma add_0_r a : aeq (add a zero) a.
  Proof. rewrite add_comm. apply add_0_l. Qed.

  Definition total (l : list A) : A := fold_right add zero l.

  Lemma total_app l1 l2 : aeq (total (l1 ++ l2)) (add (total l1) (total l2)).
  Proof.
    induction l1 as [|a r IH]; cbn [app total fold_right].
    - symmetry. apply add_0_l.
    - fold (total (r ++ l2)). fold (total r). rewrite IH. symmetry. apply add_assoc.
  Qed.

  Lemma total_perm l1 l2 : Permutation l1 l2 -> aeq (total l1) (total l2).
  Proof.
    induction 1 as [|x l l' _ IH|x y l|l l' l'' _ IH1 _ IH2]; cbn [total fold_right].
    - reflexivity.
    - fold (total l). fold (total l'). rewrite IH. reflexivity.
    - fold (total l). rewrite <- !add_assoc. rewrite (add_comm y x). reflexivity.
    - etransitivity; eassumption.
  Qed.

  Lemma acc_update_length accs : forall w v, length (acc_update add accs w v) = length accs.
  Proof.
    induction accs as [|a r IH]; intros w v; cbn [acc_update]; [reflexivity|].
    destruct w; cbn [length]; [reflexivity|]. rewrite IH. reflexivity.
  Qed.

  Lemma total_update accs : forall w v, (w < length accs)%nat ->
    aeq (total (acc_update add accs w v)) (add (total accs) v).
  Proof.
    induction accs as [|a r IH]; intros w v Hw; cbn [length] in Hw; [lia|].
    destruct w; cbn [acc_update total fold_right]; fold (total r).
    - rewrite !add_assoc. rewrite (add_comm v). reflexivity.
    - fold (total (acc_update add r w v)). rewrite IH by lia. symmetry. apply add_assoc.
  Qed.

  Lemma run_schedule_length sched : forall accs, length (run_schedule add zero term sched accs) = length accs.
  Proof.
    unfold run_schedule. induction sched as [|ev r IH]; intros accs; cbn [fold_left]; [reflexivity|].
    rewrite IH. apply acc_update_length.
  Qed.

  Lemma total_run sched : forall accs,
    Forall (fun ev => (snd ev < length accs)%nat) sched ->
    aeq (total (run_schedule add zero term sched accs)) (add (total accs) (total (map csum (map fst sched)))).
  Proof.
    unfold run_schedule. induction sched as [|ev r IH]; intros accs Hf; cbn [fold_left map total fold_right].
    - symmetry. apply add_0_r.
    - fold (total (map csum (map fst r))).
      inversion Hf as [|? ? Hev Hr]; subst.
      rewrite IH by (rewrite acc_update_length; exact Hr).
      rewrite total_update by exact Hev. apply add_assoc.
  Qed.

  Lemma rsum_app k1 : forall b k2, aeq (rsum b (k1 + k2)%nat) (add (rsum b k1) (rsum (b + Z.of_nat k1) k2)).
  Proof.
    induction k1 as [|k IH]; intros b k2.
    - cbn [Nat.add range_sum]. rewrite Z.add_0_r. symmetry. apply add_0_l.
    - cbn [Nat.add range_sum]. rewrite IH. rewrite add_assoc.
      replace (b + 1 + Z.of_nat k) with (b + Z.of_nat (S k)) by lia. reflexivity.
  Qed.

  (* consecutive chunks that tile [from, to) add up to the sum over the whole range *)
  Lemma tiles_sum l : forall from to size, from <= to -> tiles from to size l ->
    aeq (total (map csum l)) (rsum from (Z.to_nat (to - from))).
  Proof.
    induction l as [|[b e] r IH]; intros from to size Hle Ht; cbn [tiles] in Ht.
    - subst to. rewrite Z.sub_diag. cbn. reflexivity.
    - destruct Ht as [-> [Hlt [Hto [_ Hr]]]]. cbn [map total fold_right]. fold (total (map csum r)).
      rewrite (IH e to size Hto Hr). unfold chunk_sum. cbn [fst snd].
      replace (Z.to_nat (to - from)) with (Z.to_nat (e - from) + Z.to_nat (to - e))%nat by lia.
      rewrite rsum_app. replace (from + Z.of_nat (Z.to_nat (e - from))) with e by lia. reflexivity.
  Qed.

  Lemma skipn_nth_cons (l : list A) : forall k, (k < length l)%nat -> skipn k l = nth k l zero :: skipn (S k) l.
  Proof.
    induction l as [|a r IH]; intros k Hk; cbn [length] in Hk; [lia|].
    destruct k; [reflexivity|]. cbn [skipn nth]. apply IH. lia.
  Qed.

  (* the translated loop of sum_reduce adds accumulators i, i+1, ..., size-1 to a0 *)
  Lemma reduce_loop_total accs fuel : forall k a0, (length accs - k <= fuel)%nat ->
    aeq (reduce_loop add zero fuel (Z.of_nat k) accs a0) (add a0 (total (skipn k accs))).
  Proof.
    induction fuel as [|f IH]; intros k a0 Hf; cbn [reduce_loop].
    - rewrite skipn_all2 by lia. symmetry. apply add_0_r.
    - unfold src_c09_reduce_continue, src_c09_reduce_next.
      destruct (Z.ltb_spec (Z.of_nat k) (Z.of_nat (length accs))) as [Hlt|Hge].
      + replace (Z.of_nat k + 1) with (Z.of_nat (S k)) by lia. rewrite IH by lia.
        rewrite Nat2Z.id. rewrite (skipn_nth_cons accs k) by lia. cbn [total fold_right].
        fold (total (skipn (S k) accs)). apply add_assoc.
      + rewrite skipn_all2 by lia. symmetry. apply add_0_r.
  Qed.

  (* sum_reduce = the sum of all accumulators (this is where first = 1 and target = 0 matter) *)
  Lemma sum_reduce_total accs : accs <> [] -> aeq (sum_reduce add zero accs) (total accs).
  Proof.
    intros Hne. unfold sum_reduce, src_c09_reduce_first, src_c09_reduce_target.
    change 1 with (Z.of_nat 1). rewrite reduce_loop_total by lia.
    destruct accs as [|a r]; [contradiction|]. cbn. reflexivity.
  Qed.

  Lemma total_repeat_zero k : aeq (total (repeat zero k)) zero.
  Proof.
    induction k as [|k IH]; cbn [repeat total fold_right]; [reflexivity|].
    fold (total (repeat zero k)). rewrite IH. apply add_0_l.
  Qed.

  (* MAIN: for every assignment chunk -> worker and every completion order the reduced accumulator is the
     sum of the contributions of the samples 0 .. n-1 *)
  Theorem map_reduce_schedule_independent workers n batch sched :
    (1 <= workers)%nat -> 1 <= batch -> 0 <= n -> valid_schedule workers n batch sched ->
    aeq (map_reduce add zero term workers sched) (rsum 0 (Z.to_nat n)).
  Proof.
    intros Hw Hb Hn [Hperm Hall]. unfold map_reduce.
    rewrite sum_reduce_total.
    2:{ intros Hnil. apply (f_equal (@length A)) in Hnil. rewrite run_schedule_length, repeat_length in Hnil.
        cbn in Hnil. lia. }
    rewrite total_run by (rewrite repeat_length; exact Hall).
    rewrite total_repeat_zero, add_0_l.
    rewrite (total_perm _ (map csum (chunks n batch))) by (apply Permutation_map; exact Hperm).
    rewrite (tiles_sum _ 0 n batch Hn (s_chunks_tile n batch Hb Hn)). rewrite Z.sub_0_r. reflexivity.
  Qed.
End ReduceLaws.

(* ================================================================================================== *)
(* 2. the rational instance                                                                            *)
(* ================================================================================================== *)
Local Open Scope Q_scope.

Lemma qadd_plus a b : qadd a b == a + b.
Proof. unfold qadd. apply Qred_correct. Qed.

Global Instance qadd_proper : Proper (Qeq ==> Qeq ==> Qeq) qadd.
Proof. intros a a' Ha b b' Hb. rewrite !qadd_plus. rewrite Ha, Hb. reflexivity. Qed.

Lemma qadd_comm a b : qadd a b == qadd b a.
Proof. rewrite !qadd_plus. ring. Qed.
Lemma qadd_assoc a b c : qadd (qadd a b) c == qadd a (qadd b c).
Proof. rewrite !qadd_plus. ring. Qed.
Lemma qadd_0_l a : qadd 0 a == a.
Proof. rewrite qadd_plus. ring. Qed.

Lemma range_sum_qsum f k : forall b, range_sum qadd 0 f b k == qsum (map f (zrange b k)).
Proof.
  induction k as [|k IH]; intros b; cbn [range_sum zrange map qsum fold_right]; [reflexivity|].
  fold (qsum (map f (zrange (b + 1) k))). rewrite qadd_plus, IH. reflexivity.
Qed.

(* the per-thread accumulation followed by sum_reduce and the division by the number of samples is the
   plain mean, whatever the number of workers, the batch size, the assignment and the completion order *)
Theorem reduced_mean_naive f workers n batch sched :
  (1 <= workers)%nat -> (1 <= batch)%Z -> (0 <= n)%Z -> valid_schedule workers n batch sched ->
  reduced_mean f workers sched n == naive_mean f n.
Proof.
  intros Hw Hb Hn Hv. unfold reduced_mean, naive_mean.
  rewrite (map_reduce_schedule_independent Qeq qadd 0 _ _ qadd_comm qadd_assoc qadd_0_l f workers n batch sched Hw Hb Hn Hv).
  rewrite range_sum_qsum. reflexivity.
Qed.

(* ================================================================================================== *)
(* 3. means, per-sample terms                                                                          *)
(* ================================================================================================== *)
From LN Require Import ListAux.

Lemma qsum_ext f g k : forall b, (forall i, (b <= i < b + Z.of_nat k)%Z -> f i == g i) ->
  qsum (map f (zrange b k)) == qsum (map g (zrange b k)).
Proof.
  induction k as [|k IH]; intros b H; cbn [zrange map qsum fold_right]; [reflexivity|].
  fold (qsum (map f (zrange (b + 1) k))). fold (qsum (map g (zrange (b + 1) k))).
  rewrite (H b) by lia. rewrite (IH (b + 1)%Z) by (intros i Hi; apply H; lia). reflexivity.
Qed.

Lemma naive_mean_ext f g n : (forall i, (0 <= i < n)%Z -> f i == g i) -> naive_mean f n == naive_mean g n.
Proof.
  intros H. unfold naive_mean. rewrite (qsum_ext f g (Z.to_nat n) 0); [reflexivity|].
  intros i Hi. apply H. lia.
Qed.

Lemma naive_mean_plus f g n : naive_mean (fun i => f i + g i) n == naive_mean f n + naive_mean g n.
Proof.
  unfold naive_mean. assert (H : forall k b, qsum (map (fun i => f i + g i) (zrange b k)) == qsum (map f (zrange b k)) + qsum (map g (zrange b k))).
  { induction k as [|k IH]; intros b; cbn [zrange map qsum fold_right]; [ring|].
    fold (qsum (map (fun i => f i + g i) (zrange (b + 1) k))). fold (qsum (map f (zrange (b + 1) k))).
    fold (qsum (map g (zrange (b + 1) k))). rewrite IH. ring. }
  rewrite H. unfold Qdiv. ring.
Qed.

Lemma nthZ_map {A B} (f : A -> B) (l : list A) i d d' : (0 <= i < Z.of_nat (length l))%Z ->
  nthZ (map f l) i d = f (nthZ l i d').
Proof.
  intros Hi. unfold nthZ. rewrite (nth_indep _ d (f d')) by (rewrite map_length; lia). apply map_nth.
Qed.

Lemma nthZ_combine {A B} (l : list A) (l' : list B) i a b : length l = length l' ->
  nthZ (combine l l') i (a, b) = (nthZ l i a, nthZ l' i b).
Proof. intros H. unfold nthZ. apply combine_nth. exact H. Qed.

Section ObjectiveProofs.
  Variable lval : list Q -> list Q -> Q.
  Variable lgrad : list Q -> list Q -> list Q.

  (* value and gradient coordinates delivered by the accumulators = plain means of the per-sample terms *)
  Lemma acc_value_mean terms workers batch sched :
    (1 <= workers)%nat -> (1 <= batch)%Z -> valid_schedule workers (Z.of_nat (length terms)) batch sched ->
    acc_value terms workers sched == naive_mean (vterm terms) (Z.of_nat (length terms)).
  Proof. intros Hw Hb Hv. unfold acc_value. apply (reduced_mean_naive _ workers _ batch); auto. lia. Qed.

  Lemma nth_map_seq {B} (F : nat -> B) size k d : (k < size)%nat -> nth k (map F (seq 0 size)) d = F k.
  Proof.
    intros Hk. rewrite (nth_indep _ d (F 0%nat)) by (rewrite map_length, seq_length; exact Hk).
    rewrite map_nth. rewrite seq_nth by exact Hk. reflexivity.
  Qed.

  Lemma acc_grad_mean terms size workers batch sched k :
    (1 <= workers)%nat -> (1 <= batch)%Z -> valid_schedule workers (Z.of_nat (length terms)) batch sched -> (k < size)%nat ->
    nth k (acc_grad terms size workers sched) 0 == naive_mean (gterm terms k) (Z.of_nat (length terms)).
  Proof.
    intros Hw Hb Hv Hk. unfold acc_grad. rewrite nth_map_seq by exact Hk.
    apply (reduced_mean_naive _ workers _ batch); auto. lia.
  Qed.

  (* ---- linear objective -------------------------------------------------------------------------- *)
  Lemma lin_terms_length isize tsize x T X : length T = length X -> length (lin_terms lval lgrad isize tsize x T X) = length X.
  Proof. intros H. unfold lin_terms. rewrite map_length, combine_length, H. apply Nat.min_id. Qed.

  Lemma lin_terms_nth isize tsize x T X i : length T = length X -> (0 <= i < Z.of_nat (length X))%Z ->
    nthZ (lin_terms lval lgrad isize tsize x T X) i term0 =
    lin_sample lval lgrad (lin_W isize tsize x) (lin_b isize tsize x) (nthZ T i [], nthZ X i []).
  Proof.
    intros H Hi. unfold lin_terms. rewrite (nthZ_map _ _ i term0 ([], [])).
    - rewrite nthZ_combine by exact H. reflexivity.
    - rewrite combine_length, H, Nat.min_id. exact Hi.
  Qed.

  Lemma qsum_map_scale c (f g : Q -> Q) (w : list Q) : (forall a, f a == c * g a) -> qsum (map f w) == c * qsum (map g w).
  Proof.
    intros H. induction w as [|a r IH]; cbn [map qsum fold_right]; [ring|].
    fold (qsum (map f r)). fold (qsum (map g r)). rewrite IH, H. ring.
  Qed.

  Lemma qlt_false_le a b : qlt a b = false -> b <= a.
  Proof. unfold qlt. intros H. apply negb_false_iff in H. apply Qle_bool_iff. exact H. Qed.
  Lemma qlt_true_lt a b : qlt a b = true -> a < b.
  Proof.
    unfold qlt. intros H. apply negb_true_iff in H. apply Qnot_le_lt. intros Hle.
    apply Qle_bool_iff in Hle. congruence.
  Qed.

  (* the regularisation terms as the code computes them (guards l > 0, sqrt(l2) * W squared) are
     l1 * mean |W| + l2 / 2 * mean W^2 for all l1, l2 >= 0 *)
  Lemma lin_reg_value_def l1 l2 r2 w : 0 <= l1 -> 0 <= l2 -> r2 * r2 == l2 ->
    lin_reg_value l1 l2 r2 w == l1 * qmean (map qabs w) + (l2 / 2) * qmean (map (fun a => a * a) w).
  Proof.
    intros H1 H2 Hr. unfold lin_reg_value.
    assert (E1 : (if qlt 0 l1 then l1 * qmean (map qabs w) else 0) == l1 * qmean (map qabs w)).
    { destruct (qlt 0 l1) eqn:E; [reflexivity|]. apply qlt_false_le in E.
      assert (Hz : l1 == 0) by (apply Qle_antisym; assumption). rewrite Hz. ring. }
    assert (E2 : (if qlt 0 l2 then (1 # 2) * qmean (map (fun a => r2 * a * (r2 * a)) w) else 0) ==
                 (l2 / 2) * qmean (map (fun a => a * a) w)).
    { assert (Hm : qmean (map (fun a => r2 * a * (r2 * a)) w) == l2 * qmean (map (fun a => a * a) w)).
      { unfold qmean. rewrite !map_length.
        rewrite (qsum_map_scale l2 (fun a => r2 * a * (r2 * a)) (fun a => a * a)).
        - unfold Qdiv. ring.
        - intros a. rewrite <- Hr. ring. }
      destruct (qlt 0 l2) eqn:E.
      - rewrite Hm. unfold Qdiv. change (/ 2) with (1 # 2). ring.
      - apply qlt_false_le in E. assert (Hz : l2 == 0) by (apply Qle_antisym; assumption). rewrite Hz.
        unfold Qdiv. ring. }
    rewrite E1, E2. reflexivity.
  Qed.

  Theorem lin_value_def isize tsize l1 l2 r2 x T X workers batch sched :
    length T = length X -> 0 <= l1 -> 0 <= l2 -> r2 * r2 == l2 ->
    (1 <= workers)%nat -> (1 <= batch)%Z -> valid_schedule workers (Z.of_nat (length X)) batch sched ->
    lin_value lval lgrad isize tsize l1 l2 r2 x T X workers sched == lin_naive_value lval isize tsize l1 l2 x T X.
  Proof.
    intros HT H1 H2 Hr Hw Hb Hv. unfold lin_value, lin_naive_value.
    rewrite (acc_value_mean _ workers batch sched Hw Hb) by (rewrite lin_terms_length by exact HT; exact Hv).
    rewrite lin_terms_length by exact HT. rewrite lin_reg_value_def by assumption.
    rewrite (naive_mean_ext _ (fun i => lval (nthZ T i []) (lin_out (lin_W isize tsize x) (lin_b isize tsize x) (nthZ X i [])))).
    - ring.
    - intros i Hi. unfold vterm. rewrite lin_terms_nth by assumption. unfold lin_sample. cbn [fst snd].
      apply Qred_correct.
  Qed.

  (* flat layout of the per-sample gradient: entry c * isize + j is dloss_c * x_j, entry tsize * isize + c is dloss_c *)
  Lemma flat_map_const_length (g xi : list Q) :
    length (flat_map (fun gc => map (fun xj => Qred (gc * xj)) xi) g) = (length g * length xi)%nat.
  Proof. induction g as [|a r IH]; cbn [flat_map length]; [reflexivity|]. rewrite app_length, map_length, IH. lia. Qed.

  Lemma nth_map_Q (f : Q -> Q) (l : list Q) j : (j < length l)%nat -> nth j (map f l) 0 = f (nth j l 0).
  Proof. intros H. rewrite (nth_indep _ 0 (f 0)) by (rewrite map_length; exact H). apply map_nth. Qed.

  Lemma lin_gvec_W g xi : forall c j, (c < length g)%nat -> (j < length xi)%nat ->
    nth (c * length xi + j) (lin_gvec g xi) 0 == nth c g 0 * nth j xi 0.
  Proof.
    unfold lin_gvec. induction g as [|a r IH]; intros c j Hc Hj; cbn [length] in Hc; [lia|].
    cbn [flat_map]. rewrite <- app_assoc. destruct c as [|c].
    - cbn [Nat.mul Nat.add nth]. rewrite app_nth1 by (rewrite map_length; exact Hj).
      rewrite nth_map_Q by exact Hj. apply Qred_correct.
    - rewrite app_nth2 by (rewrite map_length; cbn [Nat.mul]; lia). rewrite map_length.
      replace (S c * length xi + j - length xi)%nat with (c * length xi + j)%nat by (cbn [Nat.mul]; lia).
      cbn [nth]. assert (Hc' : (c < length r)%nat) by lia. specialize (IH c j Hc' Hj).
      (* the tail of (a :: r) ++ ... is r ++ ... up to the bias part, which lies beyond the W part *)
      rewrite app_nth1 by (rewrite flat_map_const_length; nia).
      rewrite app_nth1 in IH by (rewrite flat_map_const_length; nia). exact IH.
  Qed.

  Lemma lin_gvec_b g xi c : (c < length g)%nat -> nth (length g * length xi + c) (lin_gvec g xi) 0 = nth c g 0.
  Proof.
    intros Hc. unfold lin_gvec. rewrite app_nth2 by (rewrite flat_map_const_length; lia).
    rewrite flat_map_const_length. f_equal. lia.
  Qed.

  Lemma lin_grad_mean isize tsize l1 l2 x T X workers batch sched k :
    length T = length X -> (1 <= workers)%nat -> (1 <= batch)%Z ->
    valid_schedule workers (Z.of_nat (length X)) batch sched -> (k < Z.to_nat (src_c09_lin_size isize tsize))%nat ->
    nth k (lin_grad lval lgrad isize tsize l1 l2 x T X workers sched) 0 ==
    naive_mean (fun i => nth k (lin_gvec (lgrad (nthZ T i []) (lin_out (lin_W isize tsize x) (lin_b isize tsize x) (nthZ X i [])))
                                         (nthZ X i [])) 0) (Z.of_nat (length X))
    + lin_reg_grad l1 l2 (lin_wflat isize tsize x) k.
  Proof.
    intros HT Hw Hb Hv Hk. unfold lin_grad. rewrite nth_map_seq by exact Hk.
    rewrite (reduced_mean_naive _ workers _ batch) by (rewrite ?lin_terms_length by exact HT; auto; lia).
    rewrite lin_terms_length by exact HT.
    rewrite (naive_mean_ext _ (fun i => nth k (lin_gvec (lgrad (nthZ T i []) (lin_out (lin_W isize tsize x) (lin_b isize tsize x) (nthZ X i [])))
                                         (nthZ X i [])) 0)).
    - reflexivity.
    - intros i Hi. unfold gterm. rewrite lin_terms_nth by assumption. unfold lin_sample. cbn [fst snd]. reflexivity.
  Qed.
End ObjectiveProofs.

(* ================================================================================================== *)
(* 4. the linear gradient, coordinate by coordinate                                                    *)
(* ================================================================================================== *)
Lemma map2_length {A B C} (f : A -> B -> C) u : forall v, length (map2 f u v) = Nat.min (length u) (length v).
Proof. induction u as [|a r IH]; intros [|b v]; cbn [map2 length]; try reflexivity. rewrite IH. reflexivity. Qed.

Lemma rows_length k w : forall l, length (rows k w l) = k.
Proof. induction k as [|k IH]; intros l; cbn [rows length]; [reflexivity|]. rewrite IH. reflexivity. Qed.

Lemma nth_rows k w : forall l c j, (c < k)%nat -> (j < w)%nat ->
  nth j (nth c (rows k w l) []) 0 = nth (c * w + j) l 0.
Proof.
  induction k as [|k IH]; intros l c j Hc Hj; [lia|]. cbn [rows]. destruct c as [|c]; cbn [nth].
  - cbn [Nat.mul Nat.add]. apply nth_firstn_lt. exact Hj.
  - rewrite IH by lia. rewrite nth_skipn_add. f_equal. cbn [Nat.mul]. lia.
Qed.

Section LinearGradient.
  Variable lval : list Q -> list Q -> Q.
  Variable lgrad : list Q -> list Q -> list Q.
  Hypothesis lgrad_length : forall t o, length t = length o -> length (lgrad t o) = length o.

  Variables (isize tsize : Z) (x : list Q) (T X : list (list Q)).
  Hypothesis HTrows : Forall (fun t => length t = Z.to_nat tsize) T.
  Hypothesis Hi : (0 <= isize)%Z.
  Hypothesis Ht : (0 <= tsize)%Z.
  Hypothesis Hx : Z.of_nat (length x) = src_c09_lin_size isize tsize.
  Hypothesis HX : Forall (fun xi => length xi = Z.to_nat isize) X.
  Hypothesis HT : length T = length X.

  Notation W := (lin_W isize tsize x).
  Notation b := (lin_b isize tsize x).
  Notation w := (lin_wflat isize tsize x).

  (* the asserted layout of the code holds: x.size() == isize * tsize + tsize *)
  Lemma layout_ok : src_c09_lin_layout_ok (Z.of_nat (length x)) isize tsize = true.
  Proof. unfold src_c09_lin_layout_ok. rewrite Hx. unfold src_c09_lin_size. apply Z.eqb_eq. ring. Qed.

  Lemma wflat_length : length w = (Z.to_nat tsize * Z.to_nat isize)%nat.
  Proof.
    unfold lin_wflat, src_c09_lin_bias_offset. rewrite firstn_length. unfold src_c09_lin_size in Hx. nia.
  Qed.

  Lemma W_length : length W = Z.to_nat tsize.
  Proof. unfold lin_W. apply rows_length. Qed.

  Lemma b_length : length b = Z.to_nat tsize.
  Proof.
    unfold lin_b, src_c09_lin_bias_offset. rewrite firstn_length, skipn_length. unfold src_c09_lin_size in Hx. nia.
  Qed.

  Lemma out_length xi : length (lin_out W b xi) = Z.to_nat tsize.
  Proof. unfold lin_out. rewrite map2_length, W_length, b_length. apply Nat.min_id. Qed.

  Lemma X_row_length i : (0 <= i < Z.of_nat (length X))%Z -> length (nthZ X i []) = Z.to_nat isize.
  Proof.
    intros Hr. unfold nthZ. apply (proj1 (Forall_forall _ X) HX). apply nth_In. lia.
  Qed.

  Lemma g_length i : (0 <= i < Z.of_nat (length X))%Z ->
    length (lgrad (nthZ T i []) (lin_out W b (nthZ X i []))) = Z.to_nat tsize.
  Proof.
    intros Hr. rewrite lgrad_length; rewrite out_length; [reflexivity|].
    unfold nthZ. apply (proj1 (Forall_forall _ T) HTrows). apply nth_In. lia.
  Qed.

  Lemma reg_guard l a sz : 0 <= l -> (if qlt 0 l then l * a / sz else 0) == l * a / sz.
  Proof.
    intros H. destruct (qlt 0 l) eqn:E; [reflexivity|]. apply qlt_false_le in E.
    assert (Hz : l == 0) by (apply Qle_antisym; assumption). rewrite Hz. unfold Qdiv. ring.
  Qed.

  Theorem lin_grad_W_def l1 l2 workers batch sched c j :
    0 <= l1 -> 0 <= l2 -> (1 <= workers)%nat -> (1 <= batch)%Z ->
    valid_schedule workers (Z.of_nat (length X)) batch sched ->
    (c < Z.to_nat tsize)%nat -> (j < Z.to_nat isize)%nat ->
    nth (c * Z.to_nat isize + j) (lin_grad lval lgrad isize tsize l1 l2 x T X workers sched) 0 ==
    lin_naive_gW lgrad isize tsize l1 l2 x T X c j.
  Proof.
    intros H1 H2 Hw Hb Hv Hc Hj.
    rewrite (lin_grad_mean lval lgrad isize tsize l1 l2 x T X workers batch sched) by
      (try assumption; unfold src_c09_lin_size; nia).
    unfold lin_naive_gW.
    rewrite (naive_mean_ext _ (fun i => nth c (lgrad (nthZ T i []) (lin_out W b (nthZ X i []))) 0 * nth j (nthZ X i []) 0)).
    2:{ intros i Hr. rewrite <- (X_row_length i Hr). apply lin_gvec_W.
        - rewrite (g_length i Hr). exact Hc.
        - rewrite (X_row_length i Hr). exact Hj. }
    unfold lin_reg_grad. rewrite wflat_length.
    assert (Hk : (c * Z.to_nat isize + j <? Z.to_nat tsize * Z.to_nat isize)%nat = true) by (apply Nat.ltb_lt; nia).
    rewrite Hk. unfold lin_W. rewrite nth_rows by assumption.
    rewrite (reg_guard l1 _ _ H1), (reg_guard l2 _ _ H2). ring.
  Qed.

  Theorem lin_grad_b_def l1 l2 workers batch sched c :
    (1 <= workers)%nat -> (1 <= batch)%Z -> valid_schedule workers (Z.of_nat (length X)) batch sched ->
    (c < Z.to_nat tsize)%nat ->
    nth (Z.to_nat (src_c09_lin_bias_offset isize tsize) + c) (lin_grad lval lgrad isize tsize l1 l2 x T X workers sched) 0 ==
    lin_naive_gb lgrad isize tsize x T X c.
  Proof.
    intros Hw Hb Hv Hc.
    assert (Hoff : Z.to_nat (src_c09_lin_bias_offset isize tsize) = (Z.to_nat tsize * Z.to_nat isize)%nat)
      by (unfold src_c09_lin_bias_offset; nia).
    rewrite (lin_grad_mean lval lgrad isize tsize l1 l2 x T X workers batch sched) by
      (try assumption; rewrite Hoff; unfold src_c09_lin_size; nia).
    unfold lin_naive_gb.
    rewrite (naive_mean_ext _ (fun i => nth c (lgrad (nthZ T i []) (lin_out W b (nthZ X i []))) 0)).
    2:{ intros i Hr. rewrite Hoff. rewrite <- (X_row_length i Hr).
        rewrite <- (g_length i Hr) at 1.
        rewrite lin_gvec_b by (rewrite (g_length i Hr); exact Hc). reflexivity. }
    unfold lin_reg_grad. rewrite wflat_length, Hoff.
    assert (Hk : (Z.to_nat tsize * Z.to_nat isize + c <? Z.to_nat tsize * Z.to_nat isize)%nat = false) by (apply Nat.ltb_ge; lia).
    rewrite Hk. ring.
  Qed.
End LinearGradient.

(* ================================================================================================== *)
(* 5. buffers written range by range (m_values, m_vgrads, the caches) over stale content               *)
(* ================================================================================================== *)
Lemma zrange_length k : forall b, length (zrange b k) = k.
Proof. induction k as [|k IH]; intros b; cbn [zrange length]; [reflexivity|]. rewrite IH. reflexivity. Qed.

Lemma zrange_nth k : forall b i d, (i < k)%nat -> nth i (zrange b k) d = (b + Z.of_nat i)%Z.
Proof.
  induction k as [|k IH]; intros b i d Hi; [lia|]. cbn [zrange]. destruct i as [|i]; cbn [nth]; [lia|].
  rewrite IH by lia. lia.
Qed.

Lemma tiles_bounds l : forall from to size, tiles from to size l ->
  Forall (fun c => (from <= fst c /\ fst c < snd c /\ snd c <= to)%Z) l.
Proof.
  induction l as [|[b e] r IH]; intros from to size Ht; [constructor|]. cbn [tiles] in Ht.
  destruct Ht as [-> [Hlt [Hto [_ Hr]]]]. constructor; [cbn [fst snd]; lia|].
  specialize (IH e to size Hr). eapply Forall_impl; [|exact IH]. cbn beta. intros c Hc. lia.
Qed.

Section WriteProofs.
  Context {B : Type}.
  Variable f : Z -> B.

  Definition in_bounds (len : nat) (c : Z * Z) : Prop := (0 <= fst c /\ fst c <= snd c /\ snd c <= Z.of_nat len)%Z.

  Lemma write_range_length buf c : in_bounds (length buf) c -> length (write_range f buf c) = length buf.
  Proof.
    intros [H0 [H1 H2]]. unfold write_range. rewrite !app_length, firstn_length, map_length, zrange_length, skipn_length. lia.
  Qed.

  Lemma write_range_nth buf c i d : in_bounds (length buf) c -> (i < length buf)%nat ->
    nth i (write_range f buf c) d = if ((fst c <=? Z.of_nat i) && (Z.of_nat i <? snd c))%Z then f (Z.of_nat i) else nth i buf d.
  Proof.
    intros [H0 [H1 H2]] Hi. unfold write_range.
    destruct (Z.leb_spec (fst c) (Z.of_nat i)) as [Hb|Hb]; cbn [andb].
    - destruct (Z.ltb_spec (Z.of_nat i) (snd c)) as [He|He].
      + rewrite app_nth2 by (rewrite firstn_length; lia). rewrite firstn_length.
        rewrite app_nth1 by (rewrite map_length, zrange_length; lia).
        rewrite (nth_indep _ d (f 0%Z)) by (rewrite map_length, zrange_length; lia).
        rewrite map_nth. rewrite zrange_nth by lia. f_equal. lia.
      + rewrite app_nth2 by (rewrite firstn_length; lia). rewrite firstn_length.
        rewrite app_nth2 by (rewrite map_length, zrange_length; lia). rewrite map_length, zrange_length.
        rewrite nth_skipn_add. f_equal. lia.
    - rewrite app_nth1 by (rewrite firstn_length; lia). apply nth_firstn_lt. lia.
  Qed.

  Lemma run_writes_length sched : forall buf, Forall (fun ev => in_bounds (length buf) (fst ev)) sched ->
    length (run_writes f sched buf) = length buf.
  Proof.
    unfold run_writes. induction sched as [|ev r IH]; intros buf Hf; cbn [fold_left]; [reflexivity|].
    inversion Hf as [|? ? Hev Hr]; subst. rewrite IH.
    - apply write_range_length. exact Hev.
    - rewrite write_range_length by exact Hev. exact Hr.
  Qed.

  (* once a position holds f i it keeps it; a write covering i puts f i there *)
  Lemma run_writes_nth sched i d : forall buf, (i < length buf)%nat ->
    Forall (fun ev => in_bounds (length buf) (fst ev)) sched ->
    (nth i buf d = f (Z.of_nat i) \/ exists ev, In ev sched /\ (fst (fst ev) <= Z.of_nat i < snd (fst ev))%Z) ->
    nth i (run_writes f sched buf) d = f (Z.of_nat i).
  Proof.
    unfold run_writes. induction sched as [|ev r IH]; intros buf Hi Hf Hor; cbn [fold_left].
    - destruct Hor as [H|[ev [[] _]]]. exact H.
    - inversion Hf as [|? ? Hev Hr]; subst. apply IH.
      + rewrite write_range_length by exact Hev. exact Hi.
      + rewrite write_range_length by exact Hev. exact Hr.
      + rewrite write_range_nth by assumption.
        destruct ((fst (fst ev) <=? Z.of_nat i) && (Z.of_nat i <? snd (fst ev)))%Z eqn:E; [left; reflexivity|].
        destruct Hor as [H|[ev' [[Heq|Hin] Hc]]].
        * left. exact H.
        * subst ev'. apply andb_false_iff in E. destruct E as [E|E]; [apply Z.leb_gt in E|apply Z.ltb_ge in E]; lia.
        * right. exists ev'. split; assumption.
  Qed.

  (* MAIN: after the writes of ANY valid schedule over ANY previous content the buffer holds f 0 .. f (n-1) *)
  Theorem run_writes_full workers n batch sched old :
    (1 <= batch)%Z -> (0 <= n)%Z -> valid_schedule workers n batch sched -> Z.of_nat (length old) = n ->
    run_writes f sched old = map f (zrange 0 (Z.to_nat n)).
  Proof.
    intros Hb Hn [Hperm _] Hlen.
    pose proof (s_chunks_tile n batch Hb Hn) as Htiles.
    assert (Hbounds : Forall (fun ev => in_bounds (length old) (fst ev)) sched).
    { apply Forall_forall. intros ev Hin.
      assert (Hc : In (fst ev) (chunks n batch)) by (eapply Permutation_in; [exact Hperm|apply in_map; exact Hin]).
      pose proof (proj1 (Forall_forall _ _) (tiles_bounds _ _ _ _ Htiles) _ Hc) as Hbd. cbn beta in Hbd. unfold in_bounds. lia. }
    destruct old as [|o0 old'] eqn:Eold.
    - cbn in Hlen. subst n. cbn [Z.to_nat zrange map].
      clear Hbounds Htiles. assert (Hch : chunks 0 batch = []) by reflexivity. rewrite Hch in Hperm.
      apply Permutation_sym, Permutation_nil in Hperm. apply map_eq_nil in Hperm. subst sched. reflexivity.
    - rewrite <- Eold in *. apply (nth_ext _ _ o0 o0).
      + rewrite run_writes_length by exact Hbounds. rewrite map_length, zrange_length. lia.
      + intros i Hi. rewrite run_writes_length in Hi by exact Hbounds.
        rewrite (nth_indep (map f _) o0 (f 0%Z)) by (rewrite map_length, zrange_length; lia).
        rewrite map_nth, zrange_nth by lia. rewrite Z.add_0_l.
        apply run_writes_nth; [exact Hi|exact Hbounds|]. right.
        destruct (tiles_cover _ _ _ _ (Z.of_nat i) Htiles ltac:(lia)) as [b [e [Hin Hbe]]].
        assert (Hin' : In (b, e) (map fst sched)) by (eapply Permutation_in; [apply Permutation_sym; exact Hperm|exact Hin]).
        apply in_map_iff in Hin'. destruct Hin' as [ev [Hfst Hev]]. exists ev. split; [exact Hev|].
        rewrite Hfst. cbn [fst snd]. exact Hbe.
  Qed.
End WriteProofs.

(* the caches: filled by any valid schedule (even over stale rows), every range is then delivered from the cache
   and equals what the uncached path computes *)
Lemma slice_map_zrange {B} (f : Z -> B) n c : (0 <= fst c)%Z -> (fst c <= snd c)%Z -> (snd c <= n)%Z ->
  slice (map f (zrange 0 (Z.to_nat n))) c = map f (zrange (fst c) (Z.to_nat (snd c - fst c))).
Proof.
  intros H0 H1 H2. unfold slice. apply (nth_ext _ _ (f 0%Z) (f 0%Z)).
  - rewrite firstn_length, skipn_length, !map_length, !zrange_length. lia.
  - intros i Hi. rewrite firstn_length, skipn_length, map_length, zrange_length in Hi.
    rewrite nth_firstn_lt by lia. rewrite nth_skipn_add. rewrite !map_nth.
    rewrite !zrange_nth by lia. f_equal. lia.
Qed.

Theorem cache_transparent {B} (row : Z -> B) workers n batch sched old c :
  (1 <= batch)%Z -> (0 <= n)%Z -> valid_schedule workers n batch sched -> Z.of_nat (length old) = n ->
  (0 <= fst c)%Z -> (fst c <= snd c)%Z -> (snd c <= n)%Z ->
  deliver row (fill_cache row sched old) n c = map row (zrange (fst c) (Z.to_nat (snd c - fst c))) /\
  deliver_targets row (fill_cache row sched old) n c = map row (zrange (fst c) (Z.to_nat (snd c - fst c))).
Proof.
  intros Hb Hn Hv Hlen H0 H1 H2.
  unfold deliver, deliver_targets, fill_cache. rewrite (run_writes_full row workers n batch sched old Hb Hn Hv Hlen).
  rewrite map_length, zrange_length. unfold src_c09_flatten_cached, src_c09_targets_cached.
  rewrite Z2Nat.id by exact Hn. rewrite Z.eqb_refl. split; apply slice_map_zrange; assumption.
Qed.

(* an empty (never filled / refused) cache is not used unless there is no sample at all *)
Lemma no_cache_direct {B} (row : Z -> B) n c : (0 < n)%Z ->
  deliver row [] n c = map row (zrange (fst c) (Z.to_nat (snd c - fst c))) /\
  deliver_targets row [] n c = map row (zrange (fst c) (Z.to_nat (snd c - fst c))).
Proof.
  intros Hn. unfold deliver, deliver_targets, src_c09_flatten_cached, src_c09_targets_cached. cbn [length].
  destruct (Z.eqb_spec (Z.of_nat 0) n) as [E|_]; [cbn in E; lia|]. split; reflexivity.
Qed.

(* ================================================================================================== *)
(* 6. the gboost objectives                                                                            *)
(* ================================================================================================== *)
Lemma vadd_vscale_0 u : forall v, length u = length v -> Forall2 Qeq (vadd u (vscale 0 v)) u.
Proof.
  induction u as [|a r IH]; intros [|b v] H; cbn [length] in H; try discriminate; cbn [vscale map vadd]; constructor.
  - rewrite !Qred_correct. ring.
  - apply IH. lia.
Qed.

Lemma nth_map_zrange {B} (F : Z -> B) b k g d : (g < k)%nat -> nth g (map F (zrange b k)) d = F (b + Z.of_nat g)%Z.
Proof.
  intros Hg. rewrite (nth_indep _ d (F 0%Z)) by (rewrite map_length, zrange_length; exact Hg).
  rewrite map_nth. rewrite zrange_nth by exact Hg. reflexivity.
Qed.

Section GboostProofs.
  Variable lval : list Q -> list Q -> Q.
  Variable lgrad : list Q -> list Q -> list Q.

  (* ---- bias ---- *)
  Lemma bias_terms_nth x T i : (0 <= i < Z.of_nat (length T))%Z ->
    nthZ (bias_terms lval lgrad x T) i term0 = bias_sample lval lgrad x (nthZ T i []).
  Proof. intros Hi. unfold bias_terms. apply nthZ_map. exact Hi. Qed.

  Theorem bias_value_def x T workers batch sched :
    (1 <= workers)%nat -> (1 <= batch)%Z -> valid_schedule workers (Z.of_nat (length T)) batch sched ->
    bias_value lval lgrad x T workers sched == bias_naive_value lval x T.
  Proof.
    intros Hw Hb Hv. unfold bias_value, bias_naive_value.
    assert (Hl : length (bias_terms lval lgrad x T) = length T) by (unfold bias_terms; apply map_length).
    rewrite (acc_value_mean _ workers batch sched Hw Hb) by (rewrite Hl; exact Hv). rewrite Hl.
    apply naive_mean_ext. intros i Hi. unfold vterm. rewrite bias_terms_nth by exact Hi. cbn [bias_sample fst].
    apply Qred_correct.
  Qed.

  Theorem bias_grad_def x T workers batch sched c :
    (1 <= workers)%nat -> (1 <= batch)%Z -> valid_schedule workers (Z.of_nat (length T)) batch sched -> (c < length x)%nat ->
    nth c (bias_grad lval lgrad x T workers sched) 0 == bias_naive_grad lgrad x T c.
  Proof.
    intros Hw Hb Hv Hc. unfold bias_grad, bias_naive_grad.
    assert (Hl : length (bias_terms lval lgrad x T) = length T) by (unfold bias_terms; apply map_length).
    rewrite (acc_grad_mean _ _ workers batch sched c Hw Hb) by (rewrite ?Hl; assumption). rewrite Hl.
    apply naive_mean_ext. intros i Hi. unfold gterm. rewrite bias_terms_nth by exact Hi. reflexivity.
  Qed.

  (* ---- scale ---- *)
  Hypothesis lval_proper : forall t o o', Forall2 Qeq o o' -> lval t o == lval t o'.

  Variables (x : list Q) (groups : list Z) (S Wk T : list (list Q)) (smp : list Z).
  Hypothesis HT : length T = length smp.
  (* the two learners' outputs of a sample have the same shape (asserted by the constructor) *)
  Hypothesis Hshape : forall s, In s smp -> length (nthZ S s []) = length (nthZ Wk s []).

  Lemma scale_terms_nth i : (0 <= i < Z.of_nat (length smp))%Z ->
    nthZ (scale_terms lval lgrad x groups S Wk T smp) i term0 =
    scale_sample lval lgrad x groups S Wk (nthZ T i [], nthZ smp i 0%Z).
  Proof.
    intros Hi. unfold scale_terms. rewrite (nthZ_map _ _ i term0 ([], 0%Z)).
    - rewrite nthZ_combine by exact HT. reflexivity.
    - rewrite combine_length, HT, Nat.min_id. exact Hi.
  Qed.

  Lemma scale_terms_length : length (scale_terms lval lgrad x groups S Wk T smp) = length smp.
  Proof. unfold scale_terms. rewrite map_length, combine_length, HT. apply Nat.min_id. Qed.

  (* an unassigned sample gets scale 0: its output is the strong learner's output alone *)
  Lemma scale_out_naive s : In s smp ->
    Forall2 Qeq (scale_out x groups S Wk s) (scale_naive_out x groups S Wk s).
  Proof.
    intros Hin. unfold scale_out, scale_naive_out, scale_of, src_c09_scale_unassigned.
    destruct (nthZ groups s (-1) <? 0)%Z.
    - apply vadd_vscale_0. apply Hshape. exact Hin.
    - clear. induction (vadd (nthZ S s []) (vscale (nthZ x (nthZ groups s (-1)%Z) 0) (nthZ Wk s []))); constructor; [reflexivity|assumption].
  Qed.

  Lemma smp_in i : (0 <= i < Z.of_nat (length smp))%Z -> In (nthZ smp i 0%Z) smp.
  Proof. intros Hi. unfold nthZ. apply nth_In. lia. Qed.

  Theorem scale_value_def workers batch sched :
    (1 <= workers)%nat -> (1 <= batch)%Z -> valid_schedule workers (Z.of_nat (length smp)) batch sched ->
    scale_value lval lgrad x groups S Wk T smp workers sched == scale_naive_value lval x groups S Wk T smp.
  Proof.
    intros Hw Hb Hv. unfold scale_value, scale_naive_value.
    rewrite (acc_value_mean _ workers batch sched Hw Hb) by (rewrite scale_terms_length; exact Hv).
    rewrite scale_terms_length. apply naive_mean_ext. intros i Hi. unfold vterm.
    rewrite scale_terms_nth by exact Hi. unfold scale_sample. cbn [fst snd]. rewrite Qred_correct.
    apply lval_proper. apply scale_out_naive. apply smp_in. exact Hi.
  Qed.

  (* gradient wrt x[g]: only the samples of group g contribute, with <dloss, weak output>; unassigned ones never do *)
  Theorem scale_grad_def workers batch sched g :
    (1 <= workers)%nat -> (1 <= batch)%Z -> valid_schedule workers (Z.of_nat (length smp)) batch sched -> (g < length x)%nat ->
    nth g (scale_grad lval lgrad x groups S Wk T smp workers sched) 0 ==
    scale_naive_grad lgrad x groups S Wk T smp (Z.of_nat g).
  Proof.
    intros Hw Hb Hv Hg. unfold scale_grad, scale_naive_grad.
    rewrite (acc_grad_mean _ _ workers batch sched g Hw Hb) by (rewrite ?scale_terms_length; assumption).
    rewrite scale_terms_length. apply naive_mean_ext. intros i Hi. unfold gterm.
    rewrite scale_terms_nth by exact Hi. unfold scale_sample. cbn [fst snd]. unfold scale_gvec.
    rewrite nth_map_zrange by exact Hg. rewrite Z.add_0_l.
    unfold src_c09_scale_grad_skip. set (gi := nthZ groups (nthZ smp i 0%Z) (-1)%Z).
    destruct (Z.ltb_spec gi 0) as [Hneg|Hpos].
    - destruct (Z.eqb_spec gi (Z.of_nat g)) as [E|_]; [lia|reflexivity].
    - destruct (Z.eqb_spec gi (Z.of_nat g)) as [E|_]; [|reflexivity].
      rewrite Qred_correct. unfold scale_out, scale_naive_out, scale_of, src_c09_scale_unassigned. fold gi.
      destruct (Z.ltb_spec gi 0) as [Hneg|_]; [lia|]. reflexivity.
  Qed.
End GboostProofs.

(* ---- grads: per-sample buffers, any stale content ---- *)
Theorem grads_value_def (lval : list Q -> list Q -> Q) T O workers batch sched old :
  (1 <= batch)%Z -> valid_schedule workers (Z.of_nat (length O)) batch sched -> length old = length O ->
  grads_value lval T O sched old == grads_naive_value lval T O.
Proof.
  intros Hb Hv Hl. unfold grads_value, grads_vbuf, grads_naive_value.
  rewrite (run_writes_full _ workers (Z.of_nat (length O)) batch sched old Hb) by (try assumption; lia).
  unfold qmean, naive_mean. rewrite map_length, zrange_length, Nat2Z.id.
  rewrite (qsum_ext _ (fun i => lval (nthZ T i []) (nthZ O i [])) (length O) 0); [reflexivity|].
  intros i _. apply Qred_correct.
Qed.

Theorem grads_gradients_def (lgrad : list Q -> list Q -> list Q) T O workers batch sched old :
  (1 <= batch)%Z -> valid_schedule workers (Z.of_nat (length O)) batch sched -> length old = length O ->
  grads_gbuf lgrad T O sched old = map (fun i => lgrad (nthZ T i []) (nthZ O i [])) (zrange 0 (length O)) /\
  grads_grad lgrad T O sched old =
    map (fun i => map (fun a => a / inject_Z (Z.of_nat (length O))) (lgrad (nthZ T i []) (nthZ O i []))) (zrange 0 (length O)).
Proof.
  intros Hb Hv Hl. unfold grads_grad, grads_gbuf.
  rewrite (run_writes_full _ workers (Z.of_nat (length O)) batch sched old Hb) by (try assumption; lia).
  rewrite Nat2Z.id. split; [reflexivity|]. rewrite map_map. reflexivity.
Qed.

(* ================================================================================================== *)
(* 7. schedules: the executable test is sound, the fast path is a valid schedule                        *)
(* ================================================================================================== *)
Lemma insert_chunk_perm c l : Permutation (insert_chunk c l) (c :: l).
Proof.
  induction l as [|d r IH]; cbn [insert_chunk]; [reflexivity|].
  destruct (fst c <=? fst d)%Z; [reflexivity|]. rewrite IH. apply perm_swap.
Qed.

Lemma sort_chunks_perm l : Permutation (sort_chunks l) l.
Proof.
  induction l as [|c r IH]; cbn [sort_chunks fold_right]; [reflexivity|].
  fold (sort_chunks r). rewrite insert_chunk_perm. constructor. exact IH.
Qed.

Lemma chunks_eqb_eq a : forall b, chunks_eqb a b = true -> a = b.
Proof.
  induction a as [|[x y] a IH]; intros [|[u v] b] H; cbn [chunks_eqb] in H; try discriminate; [reflexivity|].
  apply andb_true_iff in H. destruct H as [H Hr]. apply andb_true_iff in H. destruct H as [H1 H2].
  apply Z.eqb_eq in H1, H2. subst. f_equal. apply IH. exact Hr.
Qed.

Theorem schedule_okb_sound workers n batch sched :
  schedule_okb workers n batch sched = true -> valid_schedule workers n batch sched.
Proof.
  unfold schedule_okb. intros H. apply andb_true_iff in H. destruct H as [Hc Hw]. split.
  - apply chunks_eqb_eq in Hc. rewrite <- Hc. symmetry. apply sort_chunks_perm.
  - apply Forall_forall. intros ev Hin. pose proof (proj1 (forallb_forall _ _) Hw ev Hin) as Hlt.
    apply Nat.ltb_lt in Hlt. exact Hlt.
Qed.

Theorem inline_schedule_valid workers n batch : (1 <= workers)%nat -> valid_schedule workers n batch (inline_schedule n batch).
Proof.
  intros Hw. unfold inline_schedule. rewrite s_chunks_inline_same. split.
  - rewrite map_map. cbn [fst]. rewrite map_id. reflexivity.
  - apply Forall_forall. intros ev Hin. apply in_map_iff in Hin. destruct Hin as [c [<- _]]. cbn [snd]. lia.
Qed.

(* ================================================================================================== *)
(* 8. the concrete losses: shapes, compatibility with ==, and "the gradient is a subgradient"          *)
(* ================================================================================================== *)
From Coq Require Import Lqa.

Lemma map2_length_eq {A B C} (f : A -> B -> C) u v : length u = length v -> length (map2 f u v) = length v.
Proof. intros H. rewrite map2_length, H. apply Nat.min_id. Qed.

Lemma loss_vgrad_length l t o : length t = length o -> length (loss_vgrad l t o) = length o.
Proof. intros H. destruct l; cbn [loss_vgrad]; apply map2_length_eq; exact H. Qed.

Lemma qabs_spec a : (0 <= a /\ qabs a = a) \/ (a < 0 /\ qabs a = - a).
Proof.
  unfold qabs. destruct (Qle_bool 0 a) eqn:E.
  - left. split; [apply Qle_bool_iff; exact E|reflexivity].
  - right. split; [|reflexivity]. apply Qnot_le_lt. intros H. apply Qle_bool_iff in H. congruence.
Qed.
Lemma qsign_spec a : (0 < a /\ qsign a = 1) \/ (a < 0 /\ qsign a = -1) \/ (a == 0 /\ qsign a = 0).
Proof.
  unfold qsign. destruct (qlt 0 a) eqn:E1.
  - left. split; [apply qlt_true_lt; exact E1|reflexivity].
  - right. destruct (qlt a 0) eqn:E2.
    + left. split; [apply qlt_true_lt; exact E2|reflexivity].
    + right. split; [|reflexivity]. apply qlt_false_le in E1, E2. apply Qle_antisym; assumption.
Qed.
Lemma qmax0_spec a : (0 < a /\ qmax0 a = a) \/ (a <= 0 /\ qmax0 a = 0).
Proof.
  unfold qmax0. destruct (qlt 0 a) eqn:E.
  - left. split; [apply qlt_true_lt; exact E|reflexivity].
  - right. split; [apply qlt_false_le; exact E|reflexivity].
Qed.

Global Instance qabs_proper : Proper (Qeq ==> Qeq) qabs.
Proof. intros a b H. destruct (qabs_spec a) as [[? ->]|[? ->]], (qabs_spec b) as [[? ->]|[? ->]]; lra. Qed.
Global Instance qsign_proper : Proper (Qeq ==> Qeq) qsign.
Proof.
  intros a b H. destruct (qsign_spec a) as [[? ->]|[[? ->]|[? ->]]], (qsign_spec b) as [[? ->]|[[? ->]|[? ->]]]; lra.
Qed.
Global Instance qmax0_proper : Proper (Qeq ==> Qeq) qmax0.
Proof. intros a b H. destruct (qmax0_spec a) as [[? ->]|[? ->]], (qmax0_spec b) as [[? ->]|[? ->]]; lra. Qed.

Lemma qsum_map2_proper (v : Q -> Q -> Q) t : (forall tc a b, a == b -> v tc a == v tc b) ->
  forall o o', Forall2 Qeq o o' -> qsum (map2 v t o) == qsum (map2 v t o').
Proof.
  intros Hv. induction t as [|tc t IH]; intros o o' H; [reflexivity|].
  destruct H as [|a b o o' Hab Hr]; [reflexivity|]. cbn [map2 qsum fold_right].
  fold (qsum (map2 v t o)). fold (qsum (map2 v t o')). rewrite (Hv tc a b Hab), (IH o o' Hr). reflexivity.
Qed.

Theorem loss_value_proper l t o o' : Forall2 Qeq o o' -> loss_value l t o == loss_value l t o'.
Proof.
  intros H. destruct l; cbn [loss_value]; unfold mse_value, mae_value, hinge_value, sqhinge_value.
  - rewrite (qsum_map2_proper _ t) with (o' := o'); [reflexivity| |exact H]. intros tc a b E. rewrite E. reflexivity.
  - apply qsum_map2_proper; [|exact H]. intros tc a b E. rewrite E. reflexivity.
  - apply qsum_map2_proper; [|exact H]. intros tc a b E. rewrite E. reflexivity.
  - apply qsum_map2_proper; [|exact H]. intros tc a b E. rewrite E. reflexivity.
Qed.

Fixpoint vsub (u v : list Q) : list Q :=
  match u, v with
  | a :: u', b :: v' => (a - b) :: vsub u' v'
  | _, _ => []
  end.

(* component-wise subgradient inequality lifted to the sums of flatten.h (k = the factor in front of the sum) *)
Lemma subgradient_lift (k : Q) (v g : Q -> Q -> Q) :
  (forall tc a b, k * v tc a + g tc a * (b - a) <= k * v tc b) ->
  forall t o o', length t = length o -> length o = length o' ->
  k * qsum (map2 v t o) + dot (map2 g t o) (vsub o' o) <= k * qsum (map2 v t o').
Proof.
  intros Hc. induction t as [|tc t IH]; intros [|a o] [|b o'] H1 H2; cbn [length] in *; try discriminate.
  - cbn. lra.
  - cbn [map2 qsum fold_right vsub dot]. fold (qsum (map2 v t o)). fold (qsum (map2 v t o')).
    specialize (IH o o' ltac:(lia) ltac:(lia)). specialize (Hc tc a b). lra.
Qed.

(* for each of the four rational losses: loss(t, o') >= loss(t, o) + <vgrad(t, o), o' - o>  (convex, and vgrad is a
   subgradient -- also at the kinks, where the code returns sign(0) = 0) *)
Theorem loss_subgradient l t o o' : length t = length o -> length o = length o' ->
  loss_value l t o + dot (loss_vgrad l t o) (vsub o' o) <= loss_value l t o'.
Proof.
  intros H1 H2. destruct l; cbn [loss_value loss_vgrad];
    unfold mse_value, mse_vgrad, mae_value, mae_vgrad, hinge_value, hinge_vgrad, sqhinge_value, sqhinge_vgrad.
  - apply (subgradient_lift (1 # 2) (fun tc oc => (oc - tc) * (oc - tc)) (fun tc oc => oc - tc)); [|assumption|assumption].
    intros tc a b. assert (Hsq : 0 <= (b - a) * (b - a)) by (destruct (Qlt_le_dec (b - a) 0) as [N|N]; [setoid_replace ((b - a) * (b - a)) with ((-(b - a)) * (-(b - a))) by ring; apply Qmult_le_0_compat; lra | apply Qmult_le_0_compat; exact N]).
    setoid_replace ((1 # 2) * ((b - tc) * (b - tc))) with ((1 # 2) * ((a - tc) * (a - tc)) + (a - tc) * (b - a) + (1 # 2) * ((b - a) * (b - a))) by ring.
    lra.
  - pose proof (subgradient_lift 1 (fun tc oc => qabs (oc - tc)) (fun tc oc => qsign (oc - tc))) as L.
    rewrite <- (Qmult_1_l (qsum (map2 (fun tc oc => qabs (oc - tc)) t o))).
    rewrite <- (Qmult_1_l (qsum (map2 (fun tc oc => qabs (oc - tc)) t o'))). apply L; [|assumption|assumption].
    intros tc a b. destruct (qabs_spec (a - tc)) as [[? ->]|[? ->]], (qabs_spec (b - tc)) as [[? ->]|[? ->]],
      (qsign_spec (a - tc)) as [[? ->]|[[? ->]|[? ->]]]; lra.
  - pose proof (subgradient_lift 1 (fun tc oc => qmax0 (1 - tc * oc)) (fun tc oc => - tc * (qsign (1 - tc * oc) + 1) * (1 # 2))) as L.
    rewrite <- (Qmult_1_l (qsum (map2 (fun tc oc => qmax0 (1 - tc * oc)) t o))).
    rewrite <- (Qmult_1_l (qsum (map2 (fun tc oc => qmax0 (1 - tc * oc)) t o'))). apply L; [|assumption|assumption].
    intros tc a b. destruct (qmax0_spec (1 - tc * a)) as [[? ->]|[? ->]], (qmax0_spec (1 - tc * b)) as [[? ->]|[? ->]],
      (qsign_spec (1 - tc * a)) as [[? ->]|[[? ->]|[? ->]]]; lra.
  - pose proof (subgradient_lift 1 (fun tc oc => qmax0 (1 - tc * oc) * qmax0 (1 - tc * oc)) (fun tc oc => - tc * qmax0 (1 - tc * oc) * 2)) as L.
    rewrite <- (Qmult_1_l (qsum (map2 (fun tc oc => qmax0 (1 - tc * oc) * qmax0 (1 - tc * oc)) t o))).
    rewrite <- (Qmult_1_l (qsum (map2 (fun tc oc => qmax0 (1 - tc * oc) * qmax0 (1 - tc * oc)) t o'))). apply L; [|assumption|assumption].
    intros tc a b.
    assert (Hd : (b - a) * tc == (1 - tc * a) - (1 - tc * b)) by ring.
    set (u := 1 - tc * a) in *. set (v := 1 - tc * b) in *.
    assert (Hg : forall m, - tc * m * 2 * (b - a) == 2 * m * (v - u)).
    { intros m. setoid_replace (- tc * m * 2 * (b - a)) with (- (2 * m * ((b - a) * tc))) by ring. rewrite Hd. ring. }
    clearbody u v. clear Hd.
    destruct (qmax0_spec u) as [[Hu ->]|[Hu ->]], (qmax0_spec v) as [[Hv ->]|[Hv ->]]; rewrite Hg.
    + assert (0 <= (v - u) * (v - u)) by (destruct (Qlt_le_dec (v - u) 0) as [N|N];
        [setoid_replace ((v - u) * (v - u)) with ((-(v - u)) * (-(v - u))) by ring; apply Qmult_le_0_compat; lra
        | apply Qmult_le_0_compat; exact N]).
      setoid_replace (1 * (v * v)) with (1 * (u * u) + 2 * u * (v - u) + (v - u) * (v - u)) by ring. lra.
    + assert (0 <= u * (- v)) by (apply Qmult_le_0_compat; lra).
      assert (0 <= u * u) by (apply Qmult_le_0_compat; lra).
      setoid_replace (2 * u * (v - u)) with (- (2 * (u * - v)) - 2 * (u * u)) by ring. lra.
    + assert (0 <= v * v) by (apply Qmult_le_0_compat; lra). lra.
    + lra.
Qed.
