(* C13 extension (stage SURR) -- the deterministic arithmetic around the quadratic surrogate of the surrogate tuner:
     src/tuner/surrogate.cpp : quadratic_surrogate_fit_t (constructor: the rows of m_p2; do_vgrad with the mse loss),
                               quadratic_surrogate_t (size from sqrt, do_vgrad: value and gradient),
                               surrogate_tuner_t::do_optimize (inner-solver answer -> src_igrid)
     src/tuner/space.cpp     : param_space_t::{to_surrogate, from_surrogate, closest_grid_point_from_surrogate}
   Executable definitions only (no proofs).  Numbers are exact rationals (Q); the harness feeds dyadic inputs for which
   the library's binary64 arithmetic is exact.  Loop starts / conditions / the running coefficient index `k` and the
   comparison `distance < min_distance` are the kernels translated from the working tree (LNGen.Src_tuner).

   The only oracle left for the surrogate tuner is `ans`: the vector returned by the inner solver (None = one of the two
   `critical(!state.valid())` fired).  The proposal (src_igrid) is computed from it by the model. *)
From Coq Require Import List ZArith QArith Qabs Bool Floats.
From LNGen Require Import Src_tuner.
From LN Require Import C13_Defs.
Import ListNotations.
Local Open Scope Z_scope.

(* ---------- loops: `for (v = start; cond v size; ++v)` ---------- *)
Fixpoint zseq (start : Z) (n : nat) : list Z :=
  match n with O => [] | S n' => start :: zseq (start + 1) n' end.
Fixpoint take_while {A} (p : A -> bool) (l : list A) : list A :=
  match l with [] => [] | a :: r => if p a then a :: take_while p r else [] end.
(* the values visited by the loop; the scan is cut one past `size` (a condition such as `v <= size` would show) *)
Definition loop_range (cond : Z -> Z -> bool) (start size : Z) : list Z :=
  take_while (fun v => cond v size) (zseq start (Z.to_nat (size + 1 - start))).
Definition zfrom (lo hi : Z) : list Z := zseq lo (Z.to_nat (hi - lo)).

(* `k++`: consecutive numbering of the visited loop bodies *)
Fixpoint number {A} (k : Z) (l : list A) : list (A * Z) :=
  match l with [] => [] | e :: r => (e, k) :: number (k + 1) r end.

(* the cross-term double loop `for i in [0, size) for (j = j0 i; jc j size; ++j)`: visited (i, j) in order *)
Definition pairs_gen (j0 : Z -> Z) (jc : Z -> Z -> bool) (size : Z) : list (Z * Z) :=
  flat_map (fun i => map (pair i) (loop_range jc (j0 i) size)) (zfrom 0 size).
Definition pairs_fit := pairs_gen src_sg_j0_fit src_sg_jc_fit.
Definition pairs_grad := pairs_gen src_sg_j0_grad src_sg_jc_grad.
Definition pairs_value := pairs_gen src_sg_j0_value src_sg_jc_value.
(* reference walk: upper triangle, row by row *)
Definition pairs (size : Z) : list (Z * Z) := flat_map (fun i => map (pair i) (zfrom i size)) (zfrom 0 size).

(* ---------- sizes ---------- *)
Definition fit_size (d : Z) : Z := src_sg_fit_size d.                               (* (d + 1) * (d + 2) / 2 *)
(* static_cast<tensor_size_t>(std::sqrt(2 * model.size())) - 1 : sqrt of an exactly representable integer, truncated *)
Definition dim_of_size (n : Z) : Z := src_sg_dim (Z.sqrt (src_sg_radicand n)).
(* the closed form of the coefficient index of the cross term (i, j), i <= j *)
Definition pair_index (d i j : Z) : Z := d + 1 + i * d - Z.quot (i * (i - 1)) 2 + (j - i).

(* ---------- vectors over Q ---------- *)
Definition qnth (l : list Q) (k : Z) : Q := nth (Z.to_nat k) l 0%Q.
Definition zlen {A} (l : list A) : Z := Z.of_nat (length l).
Fixpoint qdot (a b : list Q) : Q :=
  match a, b with x :: a', y :: b' => (x * y + qdot a' b')%Q | _, _ => 0%Q end.
Definition qsum (l : list Q) : Q := fold_right Qplus 0%Q l.
Fixpoint qadd (a b : list Q) : list Q :=
  match a, b with x :: a', y :: b' => (x + y)%Q :: qadd a' b' | _, _ => [] end.
Definition qscale (t : Q) (a : list Q) : list Q := map (Qmult t) a.
(* gx(i) += v *)
Fixpoint add_at (n : nat) (v : Q) (g : list Q) : list Q :=
  match g with
  | [] => []
  | a :: r => match n with O => (a + v)%Q :: r | S n' => a :: add_at n' v r end
  end.
Definition add_atz (i : Z) (v : Q) (g : list Q) : list Q := add_at (Z.to_nat i) v g.

(* ---------- quadratic_surrogate_fit_t: one row of m_p2 (m_p2(sample, k++) = ...) ---------- *)
Definition lin_walk (k0 d : Z) : list (Z * Z) := number k0 (zfrom 0 d).
Definition quad_terms (p : list Q) : list Q :=
  let d := zlen p in
  1%Q :: map (qnth p) (zfrom 0 d) ++ map (fun ij => (qnth p (fst ij) * qnth p (snd ij))%Q) (pairs_fit d).

(* ---------- quadratic_surrogate_t::do_vgrad ---------- *)
(* fx = m(0); k = 1; fx += m(k++) * x(i); fx += m(k++) * x(i) * x(j) *)
Definition sg_value (m x : list Q) : Q :=
  let d := zlen x in
  let fx0 := qnth m src_sg_fx0 in
  let fx1 := fold_left (fun fx ik => (fx + qnth m (snd ik) * qnth x (fst ik))%Q) (lin_walk src_sg_k_value d) fx0 in
  fold_left (fun fx e => (fx + qnth m (snd e) * qnth x (fst (fst e)) * qnth x (snd (fst e)))%Q)
            (number (src_sg_k_value + d) (pairs_value d)) fx1.
(* gx.zero(); k = 1; gx(i) += m(k++); { gx(i) += m(k) * x(j); gx(j) += m(k++) * x(i); } *)
Definition sg_grad (m x : list Q) : list Q :=
  let d := zlen x in
  let g0 := map (fun _ => 0%Q) x in
  let g1 := fold_left (fun g ik => add_atz (fst ik) (qnth m (snd ik)) g) (lin_walk src_sg_k_grad d) g0 in
  fold_left (fun g e => add_atz (snd (fst e)) (qnth m (snd e) * qnth x (fst (fst e)))%Q
                          (add_atz (fst (fst e)) (qnth m (snd e) * qnth x (snd (fst e)))%Q g))
            (number (src_sg_k_grad + d) (pairs_grad d)) g1.
(* the purely quadratic part (the remainder of the first-order expansion) *)
Definition sg_quad (m h : list Q) : Q :=
  qsum (map (fun e => (qnth m (snd e) * qnth h (fst (fst e)) * qnth h (snd (fst e)))%Q)
            (number (src_sg_k_value + zlen h) (pairs_value (zlen h)))).

(* ---------- quadratic_surrogate_fit_t::do_vgrad with the mse loss (value 0.5 * (o - t)^2, vgrad o - t) ---------- *)
Definition fit_rows (ps : list (list Q)) : list (list Q) := map quad_terms ps.
Definition mse_value (t o : Q) : Q := ((1 # 2) * ((o - t) * (o - t)))%Q.
Definition mse_vgrad (t o : Q) : Q := (o - t)%Q.
(* m_loss_outputs = m_p2 * x; return sum of the loss values *)
Fixpoint fit_value (rows : list (list Q)) (y : list Q) (c : list Q) : Q :=
  match rows, y with
  | r :: rows', t :: y' => (mse_value t (qdot r c) + fit_value rows' y' c)%Q
  | _, _ => 0%Q
  end.
(* gx = m_p2^T * vgrads (one coefficient per column of m_p2; the rows have as many entries as c) *)
Fixpoint fit_grad (rows : list (list Q)) (y : list Q) (c : list Q) : list Q :=
  match rows, y with
  | r :: rows', t :: y' => qadd (qscale (mse_vgrad t (qdot r c)) r) (fit_grad rows' y' c)
  | _, _ => map (fun _ => 0%Q) c
  end.
(* the remainder of the first-order expansion of the fit objective: 0.5 * sum (row . h)^2 *)
Fixpoint fit_quad (rows : list (list Q)) (y : list Q) (h : list Q) : Q :=
  match rows, y with
  | r :: rows', _ :: y' => ((1 # 2) * (qdot r h * qdot r h) + fit_quad rows' y' h)%Q
  | _, _ => 0%Q
  end.
(* convex(loss.convex() ? yes : no) with mse_t::convex = true *)
Definition fit_declared_convex : bool := true.

(* ---------- param_space_t ---------- *)
Definition qltb (a b : Q) : bool := negb (Qle_bool b a).
(* `distance < min_distance` of the source, on the cross-multiplied numerators *)
Definition q_closer (distance min_distance : Q) : bool :=
  src_sp_closer (Qnum distance * QDen min_distance) (Qnum min_distance * QDen distance).

(* closest_grid_point_from_surrogate: ts = to_surrogate(m_grid_values(point)) for every point; dmax = numeric_limits::max() *)
Fixpoint closest_go (ts : list Q) (x : Q) (size point : Z) (min_distance : Q) (closest : Z) : Z :=
  match ts with
  | [] => closest
  | t :: r =>
    if src_sp_continue point size then
      let distance := Qabs (x - t) in
      if q_closer distance min_distance then closest_go r x size (point + 1) distance (src_sp_closest_assign point)
      else closest_go r x size (point + 1) min_distance closest
    else closest
  end.
Definition closest_point (dmax : Q) (ts : list Q) (x : Q) : Z :=
  closest_go ts x (zlen ts) src_sp_point0 dmax src_sp_closest0.
(* closest_grid_value_from_surrogate *)
Definition closest_value (dmax : Q) (grid ts : list Q) (x : Q) : Q := qnth grid (closest_point dmax ts x).

(* linear spaces: to_surrogate (None = `critical` throws) and from_surrogate (std::clamp) *)
Definition to_surrogate_lin (vmin vmax v : Q) : option Q :=
  if qltb v vmin || qltb vmax v then None else Some ((v - vmin) / (vmax - vmin))%Q.
Definition qclamp (v lo hi : Q) : Q := if qltb v lo then lo else if qltb hi v then hi else v.
Definition from_surrogate_lin (vmin vmax s : Q) : Q := qclamp (vmin + s * (vmax - vmin))%Q vmin vmax.

(* binary64's largest finite value, the initial min_distance *)
Definition dbl_max : Q := inject_Z (2 ^ 1024 - 2 ^ 971).

(* ---------- surrogate_tuner_t::do_optimize: inner-solver answer -> src_igrid ---------- *)
(* tss: per space the images of its grid values in the surrogate space; xs: min_state_opt.x().  The answer has
   quadratic_surrogate_t::size() = dim_of_size (number of fitted coefficients) components. *)
Definition sg_proposal (tss : list (list Q)) (xs : list Q) : igrid :=
  let n := dim_of_size (fit_size (zlen tss)) in
  map (fun i => closest_point dbl_max (nth (Z.to_nat i) tss []) (qnth xs i)) (zfrom 0 n).
Definition sg_prop (tss : list (list Q)) (ans : list step -> option (list Q)) : list step -> option igrid :=
  fun steps => option_map (sg_proposal tss) (ans steps).
Definition optimize_sg (srt : list step -> list step) tss ans := optimize srt (sg_prop tss ans).
Definition optimize_pick_sg (pick : nat -> option igrid) tss ans := optimize_pick pick (sg_prop tss ans).
Definition step1_pick_sg (pick : nat -> option igrid) tss ans := step1_pick pick (sg_prop tss ans).

(* ---------- the binary64 twin of the mapping (bit for bit what the code computes; used for whole tuner runs) ---------- *)
(* `distance < min_distance` on doubles: the translated comparison applied to the three-way comparison against 0
   (a NaN distance is unordered: every comparison is false) *)
Definition fcmp (a b : float) : Z :=
  match PrimFloat.compare a b with FEq => 0 | FLt => -1 | FGt => 1 | FNotComparable => 2 end.
Definition f_closer (distance min_distance : float) : bool :=
  match PrimFloat.compare distance min_distance with
  | FNotComparable => false
  | _ => src_sp_closer (fcmp distance min_distance) 0
  end.
Definition f_dmax : float := 0x1.fffffffffffffp+1023%float.
Fixpoint closest_go_f (ts : list float) (x : float) (size point : Z) (min_distance : float) (closest : Z) : Z :=
  match ts with
  | [] => closest
  | t :: r =>
    if src_sp_continue point size then
      let distance := PrimFloat.abs (PrimFloat.sub x t) in
      if f_closer distance min_distance then closest_go_f r x size (point + 1) distance (src_sp_closest_assign point)
      else closest_go_f r x size (point + 1) min_distance closest
    else closest
  end.
Definition closest_point_f (ts : list float) (x : float) : Z :=
  closest_go_f ts x (zlen ts) src_sp_point0 f_dmax src_sp_closest0.
(* linear spaces in binary64 *)
Definition to_surrogate_lin_f (vmin vmax v : float) : option float :=
  if PrimFloat.ltb v vmin || PrimFloat.ltb vmax v then None
  else Some (PrimFloat.div (PrimFloat.sub v vmin) (PrimFloat.sub vmax vmin)).
Definition fclamp (v lo hi : float) : float := if PrimFloat.ltb v lo then lo else if PrimFloat.ltb hi v then hi else v.
Definition from_surrogate_lin_f (vmin vmax s : float) : float :=
  fclamp (PrimFloat.add vmin (PrimFloat.mul s (PrimFloat.sub vmax vmin))) vmin vmax.
Definition fnth (l : list float) (k : Z) : float := nth (Z.to_nat k) l 0%float.
Definition sg_proposal_f (tss : list (list float)) (xs : list float) : igrid :=
  let n := dim_of_size (fit_size (zlen tss)) in
  map (fun i => closest_point_f (nth (Z.to_nat i) tss []) (fnth xs i)) (zfrom 0 n).
Definition sg_prop_f (tss : list (list float)) (ans : list step -> option (list float)) : list step -> option igrid :=
  fun steps => option_map (sg_proposal_f tss) (ans steps).
Definition optimize_sg_f (srt : list step -> list step) tss ans := optimize srt (sg_prop_f tss ans).
Definition optimize_pick_sg_f (pick : nat -> option igrid) tss ans := optimize_pick pick (sg_prop_f tss ans).

(* constants for the non-vacuity examples of Properties_C13 (which does not import Floats, so that Print Assumptions
   shows the primitive operations with their qualified names) *)
Definition ex_f_grid : list float := [0; 0.5; 1]%float.
Definition ex_f_huge : float := 0x1p+60%float.
Definition ex_f_inside : float := 0.75%float.
Definition ex_f_nan : float := nan.
