(* extraction of the executable C03 model.  Z / positive are mapped to Zarith big integers (ExtrOcamlZBigInt): the
   aggregate of up to 100 rows of doubles has numerators of thousands of bits. *)
From Coq Require Import List ZArith QArith Extraction ExtrOcamlBasic ExtrOcamlZBigInt.
From LN Require Import C03_Defs.
From LNGen Require Import Src_c03.
Extraction Language OCaml.
Extraction "extracted/c03_model.ml" dot vsub vadd vscale norm2 qsum smeared_e smeared_s del_inactive pick aggregate
  del_largest recenter null_cut append init solve2 step run econv sconv cs_converged proximal delta
  done_status rqb_done fpba_done ell1_gHg ell1_next ell1_stop0 ell1_conv ell1_loop removed_count nth_post
  src_c03_capacity src_c03_capacity_e src_c03_capacity_a src_c03_full src_c03_nth src_c03_thres_index src_c03_count
  src_c03_ilast_store src_c03_ilast_append src_c03_solve1 src_c03_solve2 src_c03_cs_converged src_c03_rqb_iter_ok
  src_c03_rqb_converged src_c03_fpba_iter_ok src_c03_fpba_converged src_c03_ell_1d src_c03_done_step_ok
  src_c03_done_stop src_c03_done_status
  Qred Qplus Qminus Qmult Qdiv Qopp Qle_bool Qeq_bool inject_Z.
