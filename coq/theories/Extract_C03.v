(* extraction of the executable C03 model.  Z / positive are mapped to Zarith big integers (ExtrOcamlZBigInt): the
   aggregate of up to 100 rows of doubles has numerators of thousands of bits. *)
From Coq Require Import List ZArith QArith Qcanon Extraction ExtrOcamlBasic ExtrOcamlZBigInt.
From LN Require C01Q_Defs.
From LN Require Import C03_Defs C03_Loops_Defs C03_Whole_Defs.
From LNGen Require Import Src_c03.
Extraction Language OCaml.
(* the n-D ellipsoid step runs over the canonical rationals Qc (Qred after every operation): Z.ggcd is mapped to
   Zarith's gcd with the specification of Z.ggcd, exactly as in Extract_C01Q.v (trusted base) *)
Extract Constant Z.ggcd => "(fun a b -> let g = Big_int_Z.gcd_big_int a b in
  if Big_int_Z.sign_big_int g = 0 then (g, (g, g)) else (g, (Big_int_Z.div_big_int a g, Big_int_Z.div_big_int b g)))".
(* stage WHOLE replays complete runs: Coq's Qplus / Qmult do not reduce their results, and the aggregate of aggregates doubles the size
   of the denominators at every aggregation.  The two operations are extracted to versions that return the SAME rational in lowest
   terms (every decision of the model goes through Qle_bool / Qeq_bool / Qcompare, which respect Qeq) -- trusted base *)
Extract Constant Qplus => "(fun x y ->
  let n = Big_int_Z.add_big_int (Big_int_Z.mult_big_int x.qnum y.qden) (Big_int_Z.mult_big_int y.qnum x.qden) in
  let d = Big_int_Z.mult_big_int x.qden y.qden in
  let g = Big_int_Z.gcd_big_int n d in
  if Big_int_Z.sign_big_int g = 0 || Big_int_Z.eq_big_int g Big_int_Z.unit_big_int then { qnum = n; qden = d }
  else { qnum = Big_int_Z.div_big_int n g; qden = Big_int_Z.div_big_int d g })".
Extract Constant Qmult => "(fun x y ->
  let n = Big_int_Z.mult_big_int x.qnum y.qnum in
  let d = Big_int_Z.mult_big_int x.qden y.qden in
  let g = Big_int_Z.gcd_big_int n d in
  if Big_int_Z.sign_big_int g = 0 || Big_int_Z.eq_big_int g Big_int_Z.unit_big_int then { qnum = n; qden = d }
  else { qnum = Big_int_Z.div_big_int n g; qden = Big_int_Z.div_big_int d g })".
Extraction "extracted/c03_model.ml" dot vsub vadd vscale norm2 qsum smeared_e smeared_s del_inactive pick aggregate
  del_largest recenter null_cut append init solve2 step run econv sconv cs_converged proximal delta
  done_status rqb_done fpba_done ell1_gHg ell1_next ell1_stop0 ell1_conv ell1_loop removed_count nth_post
  src_c03_capacity src_c03_capacity_e src_c03_capacity_a src_c03_full src_c03_nth src_c03_thres_index src_c03_count
  src_c03_ilast_store src_c03_ilast_append src_c03_solve1 src_c03_solve2 src_c03_cs_converged src_c03_rqb_iter_ok
  src_c03_rqb_converged src_c03_fpba_iter_ok src_c03_fpba_converged src_c03_ell_1d src_c03_done_step_ok
  src_c03_done_stop src_c03_done_status
  Qred Qplus Qminus Qmult Qdiv Qopp Qle_bool Qeq_bool inject_Z
  (* stage LOOP (C03_Loops_Defs.v): curve search, outer loops on the tape of recorded answers, proximity, Nesterov *)
  cs_pass new_trial cs_move cs_m1_test cs_m2_test cs_m3_test cs_m4_test better is_better cs_search rqb_iter fpba_iter rqb_run fpba_run
  tape_ask tape_search tape_rqb_iter tape_fpba_iter tape_rqb tape_fpba dummy_ans
  qclamp prox_miu0 make_miu prox_update1 prox_update2 prox_candidates prox_nu omin
  nest_next nest_alpha nest_beta nest_point nest_update nest_reset nest_step
  src_c03_cs_budget src_c03_cs_failed src_c03_cs_descent src_c03_cs_null src_c03_cs_dstep src_c03_cs_cstep src_c03_cs_interp
  src_c03_cs_descent_moves src_c03_cs_else_moves src_c03_cs_st_failed src_c03_cs_st_converged src_c03_cs_st_null
  src_c03_cs_st_descent src_c03_cs_st_cutting src_c03_cs_st_init cs_reset tape_rqb_prefix src_c03_rqb_budget src_c03_rqb_is_descent src_c03_rqb_is_cutting src_c03_rqb_is_null
  src_c03_fpba_budget src_c03_fpba_is_descent src_c03_fpba_is_cutting src_c03_fpba_is_null
  (* stage WHOLE (C03_Whole_Defs.v): the composed model of a whole RQB / FPBA run on the recorded oracle answers *)
  w_solve w_ask w_append w_serious w_null w_prox1 w_prox2 w_momentum w_init w_start whole_rqb whole_fpba replay_rqb replay_fpba
  src_c03_moveto_serious src_c03_append_serious.
(* the n-D deep-cut step goes to a module of its own: its vectors / matrices are those of C01Q_Defs, whose names (dot,
   vsub, ...) would otherwise be renamed against the ones above *)
Extraction "extracted/c03e_model.ml" en_gHg en_alpha en_x en_H en_delta en_k en_P en_best en_step en_run en_H0 en_P0
  en_form en_lt en_step_qc en_form_qc en_P_qc C01Q_Defs.QcO Q2Qc Qred.
