(* C03 -- executable exact-rational model of the proximal bundle (src/solver/bundle.cpp), of the stopping tests of
   the curve search (src/solver/csearch.cpp), of the status logic of RQB / FPBA / solver_t::done and of the 1-D branch
   of the ellipsoid method (src/solver/ellipsoid.cpp), and -- at the end, over the field operations [fops F] of
   C01Q_Defs (lists as vectors, lists of rows as matrices) -- of its n-D deep-cut update.  No proofs here.

   The integer / boolean decisions are the kernels regenerated from the source on every run (Src_c03). *)
From Coq Require Import List ZArith QArith Bool.
From LN Require C01Q_Defs.
From LNGen Require Import Src_c03.
Import ListNotations.
Local Open Scope Q_scope.

(* ---- vectors ------------------------------------------------------------------------------------------ *)
Definition vec := list Q.

Fixpoint dot (a b : vec) : Q :=
  match a, b with
  | x :: a', y :: b' => x * y + dot a' b'
  | _, _ => 0
  end.

Fixpoint vsub (a b : vec) : vec :=
  match a, b with
  | x :: a', y :: b' => (x - y) :: vsub a' b'
  | _, _ => []
  end.

Fixpoint vadd (a b : vec) : vec :=
  match a, b with
  | x :: a', y :: b' => (x + y) :: vadd a' b'
  | _, _ => []
  end.

Definition vscale (k : Q) (a : vec) : vec := map (Qmult k) a.
Definition vzero (n : nat) : vec := repeat 0 n.
Definition norm2 (a : vec) : Q := dot a a.

Fixpoint qsum (l : list Q) : Q :=
  match l with
  | [] => 0
  | x :: l' => x + qsum l'
  end.

Definition Qltb (a b : Q) : bool := negb (Qle_bool b a).

(* ---- the bundle ------------------------------------------------------------------------------------------ *)
(* one row of (m_bundleS, m_bundleE): the cut  z |-> fx + cs.(z - x) - ce  of the cutting plane model *)
Record cut := mkcut { cs : vec; ce : Q }.

Record bundle := mkb {
  bn : nat;           (* dims() *)
  bcap : Z;           (* capacity() = m_alphas.size() *)
  bx : vec;           (* m_x  *)
  bfx : Q;            (* m_fx *)
  bcuts : list cut;   (* rows 0 .. m_size-1 *)
  balpha : list Q     (* m_alphas[0 .. m_size): [] = not (re)computed since the last append *)
}.

(* smeared_e() = e().dot(alpha()),  smeared_s() = S()^T alpha() *)
Fixpoint smeared_e (cuts : list cut) (al : list Q) : Q :=
  match cuts, al with
  | c :: cuts', a :: al' => a * ce c + smeared_e cuts' al'
  | _, _ => 0
  end.

Fixpoint smeared_s (n : nat) (cuts : list cut) (al : list Q) : vec :=
  match cuts, al with
  | c :: cuts', a :: al' => vadd (vscale a (cs c)) (smeared_s n cuts' al')
  | _, _ => vzero n
  end.

(* delete_inactive(eps): remove_if (alpha_i < eps), stable *)
Fixpoint del_inactive (eps : Q) (cuts : list cut) (al : list Q) : list cut * list Q :=
  match cuts, al with
  | c :: cuts', a :: al' =>
      let r := del_inactive eps cuts' al' in
      if Qltb a eps then r else (c :: fst r, a :: snd r)
  | _, _ => ([], [])
  end.

(* the rows that survive delete_largest: which ones is decided by nth_element + a floating point threshold, the
   model takes the list of surviving indices as an oracle answer (any list: a missing index selects nothing) *)
Fixpoint pick (cuts : list cut) (keep : list nat) : list cut :=
  match keep with
  | [] => []
  | i :: keep' => match nth_error cuts i with
                  | Some c => c :: pick cuts keep'
                  | None => pick cuts keep'
                  end
  end.

Definition aggregate (n : nat) (cuts : list cut) (al : list Q) : cut :=
  mkcut (smeared_s n cuts al) (smeared_e cuts al).

(* delete_largest(count): only when size()+1 == capacity(); store_aggregate, remove, append_aggregate *)
Definition del_largest (n : nat) (cap : Z) (keep : list nat) (cuts : list cut) (al : list Q) : list cut :=
  if src_c03_full (Z.of_nat (length cuts)) cap
  then pick cuts keep ++ [aggregate n cuts al]
  else cuts.

(* serious step: m_bundleE(i) += fy - m_fx - S(i).dot(y - m_x) *)
Definition recenter (x : vec) (fx : Q) (y : vec) (fy : Q) (c : cut) : cut :=
  mkcut (cs c) (ce c + (fy - fx - dot (cs c) (vsub y x))).

(* null step: m_bundleE(m_size) = m_fx - (fy + gy.dot(m_x - y)) *)
Definition null_cut (x : vec) (fx : Q) (y gy : vec) (fy : Q) : cut :=
  mkcut gy (fx - (fy + dot gy (vsub x y))).

(* bundle_t::append(y, gy, fy, serious) followed, for a serious step, by the re-centring of moveto() *)
Definition append (eps0 : Q) (serious : bool) (keep : list nat) (y gy : vec) (fy : Q) (b : bundle) : bundle :=
  let r := del_inactive eps0 (bcuts b) (balpha b) in
  let c2 := del_largest (bn b) (bcap b) keep (fst r) (snd r) in
  if serious
  then mkb (bn b) (bcap b) y fy (map (recenter (bx b) (bfx b) y fy) c2 ++ [mkcut gy 0]) []
  else mkb (bn b) (bcap b) (bx b) (bfx b) (c2 ++ [null_cut (bx b) (bfx b) y gy fy]) [].

(* the constructor: append(state.x(), state.gx(), state.fx(), serious) on the empty bundle *)
Definition init (n : nat) (max_size : Z) (x gx : vec) (fx : Q) : bundle :=
  mkb n (src_c03_capacity max_size) x fx [mkcut gx 0] [].

(* bundle_t::solve for m_size == 2: closed form of  min 1/2 a'Qa + c'a  on the simplex, Q = S S', c = miu e *)
Definition solve2 (miu : Q) (c0 c1 : cut) : Q :=
  let q00 := dot (cs c0) (cs c0) in
  let q11 := dot (cs c1) (cs c1) in
  let q01 := dot (cs c0) (cs c1) in
  let q10 := dot (cs c1) (cs c0) in
  let q := q00 + q11 - q01 - q10 in
  let p := (1 # 2) * (q01 + q10) - q11 + miu * ce c0 - miu * ce c1 in
  let side := if Qltb 0 ((1 # 2) * q + p) then 0 else 1 in
  if Qeq_bool q 0 then side   (* b = -p/0 is not finite *)
  else let b := - p / q in
       if Qle_bool 0 b && Qle_bool b 1 then b else side.

Inductive op :=
| OSolve (miu : Q) (alpha : list Q)   (* alpha: answer of the interior point QP solver when m_size > 2 *)
| OAppend (serious : bool) (keep : list nat) (y gy : vec) (fy : Q).

Definition step (eps0 : Q) (b : bundle) (o : op) : option bundle :=
  match o with
  | OSolve miu alpha =>
      let m := Z.of_nat (length (bcuts b)) in
      match bcuts b with
      | [] => None
      | c0 :: rest =>
          if src_c03_solve1 m then Some (mkb (bn b) (bcap b) (bx b) (bfx b) (bcuts b) [1])
          else if src_c03_solve2 m then
            match rest with
            | c1 :: _ => let a := solve2 miu c0 c1 in
                         Some (mkb (bn b) (bcap b) (bx b) (bfx b) (bcuts b) [a; 1 - a])
            | [] => None
            end
          else if Nat.eqb (length alpha) (length (bcuts b))
               then Some (mkb (bn b) (bcap b) (bx b) (bfx b) (bcuts b) alpha)
               else None
      end
  | OAppend serious keep y gy fy =>
      (* the multipliers must have been computed for the current rows (append reads m_alphas) *)
      if Nat.eqb (length (balpha b)) (length (bcuts b)) && Nat.eqb (length y) (bn b) && Nat.eqb (length gy) (bn b)
      then Some (append eps0 serious keep y gy fy b)
      else None
  end.

Fixpoint run (eps0 : Q) (b : bundle) (ops : list op) : option bundle :=
  match ops with
  | [] => Some b
  | o :: ops' => match step eps0 b o with
                 | Some b' => run eps0 b' ops'
                 | None => None
                 end
  end.

(* econverged / sconverged with tol = epsilon * sqrt(n) (the square root is taken from the run) *)
Definition econv (tol : Q) (b : bundle) : bool := Qle_bool (smeared_e (bcuts b) (balpha b)) tol.
Definition sconv (tol : Q) (b : bundle) : bool :=
  let s := smeared_s (bn b) (bcuts b) (balpha b) in Qle_bool (norm2 s) (tol * tol).
Definition cs_converged (tol : Q) (b : bundle) : bool :=
  src_c03_cs_converged (src_c03_cs_econv (econv tol b)) (src_c03_cs_sconv (sconv tol b)).

(* bundle_t::proximal(miu) = m_x - smeared_s() / miu, delta(miu) = smeared_e + |smeared_s|^2 / (2 miu) *)
Definition proximal (miu : Q) (b : bundle) : vec :=
  vsub (bx b) (vscale (/ miu) (smeared_s (bn b) (bcuts b) (balpha b))).
Definition delta (miu : Q) (b : bundle) : Q :=
  smeared_e (bcuts b) (balpha b) + (1 / (2 * miu)) * norm2 (smeared_s (bn b) (bcuts b) (balpha b)).

(* ---- status logic: csearch status -> (iter_ok, converged) -> solver_t::done -------------------------------- *)
(* returns None when the loop goes on, Some status (solver_status enumerator) when done() stops the solver *)
Definition done_status (iter_ok valid converged : bool) : option Z :=
  if src_c03_done_stop converged (src_c03_done_step_ok iter_ok valid)
  then Some (src_c03_done_status converged (src_c03_done_step_ok iter_ok valid)) else None.   (* repo 85997bc *)
Definition rqb_done (status : Z) (valid : bool) : option Z :=
  done_status (src_c03_rqb_iter_ok status) valid (src_c03_rqb_converged status).
Definition fpba_done (status : Z) (valid : bool) : option Z :=
  done_status (src_c03_fpba_iter_ok status) valid (src_c03_fpba_converged status).

(* ---- ellipsoid, 1-D branch -------------------------------------------------------------------------------- *)
(* gHg = gv.dot(Hm * gv) *)
Definition ell1_gHg (H g : Q) : Q := g * (H * g).
(* x += H * (g < 0 ? +1 : -1);  H /= 2 *)
Definition ell1_next (c H g : Q) : Q * Q := (c + H * (if Qltb g 0 then 1 else - (1)), H / 2).
Definition ell1_stop0 (macheps H g : Q) : bool := Qltb (ell1_gHg H g) macheps.
(* converged = sqrt(gHg) < epsilon, for epsilon > 0 *)
Definition ell1_conv (eps H g : Q) : bool := Qltb (ell1_gHg H g) (eps * eps).

Section Ell1Loop.
  Variable f g : Q -> Q.      (* the oracle: value and a sub-gradient *)
  Variable eps macheps : Q.
  (* the loop of solver_ellipsoid_t::do_minimize for function.size() == 1 with exact arithmetic; fuel = number of
     evaluations left; returns (converged?, best value seen) *)
  Fixpoint ell1_loop (fuel : nat) (c H best : Q) : bool * Q :=
    match fuel with
    | O => (false, best)
    | S k =>
        if ell1_stop0 macheps H (g c) then (true, best)
        else let r := ell1_next c H (g c) in
             let best' := if Qltb (f (fst r)) best then f (fst r) else best in
             if ell1_conv eps H (g c) then (true, best')
             else ell1_loop k (fst r) (snd r) best'
    end.
End Ell1Loop.

(* ---- delete_largest: the threshold read by the code (refutation witness material) ---------------------------- *)
(* number of rows removed by  remove_if(E(i) > thres) *)
Definition removed_count (thres : Q) (es : list Q) : nat := length (filter (fun e => Qltb thres e) es).
(* post-condition of std::nth_element(first, first + k, last) on arr *)
Definition nth_post (arr : list Q) (k : nat) : bool :=
  let v := nth k arr 0 in
  forallb (fun e => Qle_bool e v) (firstn k arr) && forallb (fun e => Qle_bool v e) (skipn (S k) arr).

(* ---- ellipsoid, n-D branch: the deep-cut update -------------------------------------------------------------------- *)
(* Written once over a record of field operations (C01Q_Defs.fops: instantiated at the canonical rationals Qc for the
   extracted model that replays the `ev_ellipsoid_update` events of the real solver, at any ordered field in the
   theorems).  The square root s = std::sqrt(gHg) is an INPUT (a witness: the theorems assume s*s = g'Hg, 0 < s; the
   driver takes the double computed by the run).  [nf] is function.size() as a scalar. *)
Local Close Scope Q_scope.
Section EllN.
  Variable F : Type.
  Variable FO : C01Q_Defs.fops F.
  Local Notation "0" := (C01Q_Defs.f0 FO).
  Local Notation "1" := (C01Q_Defs.f1 FO).
  Local Infix "+" := (C01Q_Defs.fadd FO).
  Local Infix "*" := (C01Q_Defs.fmul FO).
  Local Infix "-" := (C01Q_Defs.fsub FO).
  Local Infix "/" := (C01Q_Defs.fdiv FO).
  Local Notation "/ x" := (C01Q_Defs.finv FO x).
  Local Notation fvec := (list F).
  Local Notation fmat := (list (list F)).

  Definition en_two : F := 1 + 1.
  Fixpoint en_nat (k : nat) : F := match k with O => 0 | S k' => en_nat k' + 1 end.
  (* gHg = gv.dot(Hm * gv) *)
  Definition en_gHg (H : fmat) (g : fvec) : F := C01Q_Defs.dot FO g (C01Q_Defs.mv FO H g).
  (* alpha = (f - state.fx()) / std::sqrt(gHg) *)
  Definition en_alpha (s f fbest : F) : F := (f - fbest) / s.
  (* xv - (1 + n * alpha) / (n + 1) * (Hm * gv) / std::sqrt(gHg) *)
  Definition en_x (nf s alpha : F) (x : fvec) (H : fmat) (g : fvec) : fvec :=
    C01Q_Defs.vsub FO x
      (C01Q_Defs.vdivs FO (C01Q_Defs.vscale FO ((1 + nf * alpha) / (nf + 1)) (C01Q_Defs.mv FO H g)) s).
  (* (n * n) / (n * n - 1) * (1 - alpha * alpha) *
     (Hm - 2 * (1 + n * alpha) / (n + 1) / (1 + alpha) * (Hm * gv * gv.transpose() * Hm) / gHg) *)
  Definition en_H (nf alpha : F) (H : fmat) (g : fvec) : fmat :=
    C01Q_Defs.mscale FO ((nf * nf) / (nf * nf - 1) * (1 - alpha * alpha))
      (C01Q_Defs.msub FO H
         (C01Q_Defs.mdivs FO
            (C01Q_Defs.mscale FO (en_two * (1 + nf * alpha) / (nf + 1) / (1 + alpha))
               (C01Q_Defs.mmul FO (C01Q_Defs.outer FO (C01Q_Defs.mv FO H g) g) H))
            (en_gHg H g))).
  (* the inverse of the shape matrix, carried explicitly (Sherman-Morrison; not computed by the code):
     P+ = (1/delta) (P + k g g' / s^2),  delta = n^2 (1 - alpha^2) / (n^2 - 1),  k = 2 (1 + n alpha) / ((n - 1)(1 - alpha)) *)
  Definition en_delta (nf alpha : F) : F := (nf * nf) / (nf * nf - 1) * (1 - alpha * alpha).
  Definition en_k (nf alpha : F) : F := en_two * (1 + nf * alpha) / ((nf - 1) * (1 - alpha)).
  Definition en_P (nf s alpha : F) (P : fmat) (g : fvec) : fmat :=
    C01Q_Defs.mscale FO (/ en_delta nf alpha)
      (C01Q_Defs.madd FO P (C01Q_Defs.mscale FO (en_k nf alpha / (s * s)) (C01Q_Defs.outer FO g g))).

  (* one oracle answer at the current centre: value, sub-gradient, and the square root witness of g'Hg *)
  Record estep := mk_estep { ef : F; eg : fvec; es : F }.
  (* the state of the loop: centre, shape matrix, best value seen at the EARLIER centres *)
  Record estate := mk_estate { ex : fvec; eH : fmat; ebest : F }.
  (* state.fx() once the current centre has been evaluated (update_if_better) *)
  Definition en_lt (a b : F) : bool := Z.eqb (C01Q_Defs.fcmp FO a b) (-1).      (* a < b *)
  Definition en_best (bprev f : F) : F := if en_lt f bprev then f else bprev.
  Definition en_step (nf : F) (st : estate) (o : estep) : estate :=
    let best := en_best (ebest st) (ef o) in
    let alpha := en_alpha (es o) (ef o) best in
    mk_estate (en_x nf (es o) alpha (ex st) (eH st) (eg o)) (en_H nf alpha (eH st) (eg o)) best.
  Definition en_run (nf : F) (st : estate) (os : list estep) : estate :=
    fold_left (en_step nf) os st.
  (* H0 = R^2 I,  P0 = I / R^2 *)
  Definition en_H0 (n : nat) (R : F) : fmat := C01Q_Defs.mscale FO (R * R) (C01Q_Defs.identity FO n).
  Definition en_P0 (n : nat) (R : F) : fmat := C01Q_Defs.mscale FO (/ (R * R)) (C01Q_Defs.identity FO n).
  (* membership in the ellipsoid {y | (y - x)' P (y - x) <= 1}, as the quadratic form *)
  Definition en_form (P : fmat) (x y : fvec) : F :=
    C01Q_Defs.dot FO (C01Q_Defs.vsub FO y x) (C01Q_Defs.mv FO P (C01Q_Defs.vsub FO y x)).
End EllN.
Arguments ef {F}. Arguments eg {F}. Arguments es {F}. Arguments ex {F}. Arguments eH {F}. Arguments ebest {F}.
Arguments mk_estep {F}. Arguments mk_estate {F}.

(* the instance that is extracted: canonical rationals *)
Definition en_step_qc := en_step Qcanon.Qc C01Q_Defs.QcO.
Definition en_form_qc := en_form Qcanon.Qc C01Q_Defs.QcO.
Definition en_P_qc := en_P Qcanon.Qc C01Q_Defs.QcO.
Local Open Scope Q_scope.
