(* C02 (extension 3) -- example oracles, non-vacuity witnesses and refuted readings for the ellipsoid / osga / universal / asga
   bodies (C02_Bodies2_Defs.v). *)
From Coq Require Import ZArith List Bool Floats Uint63.
From LN Require Import C02_Defs C02_Bodies_Defs C02_Bodies_Statements C02_Bodies2_Defs.
Import ListNotations.
Local Open Scope Z_scope.

(* a 1-D objective given by value and derivative; the reductions of 1-D vectors are single products; exp is replaced by a
   step function that is exactly 0 below -700 (as libm's exp is below -745.2) -- any function is an admissible oracle *)
Definition orc2_1d (f df : float -> float) : b2oracles :=
  mkB2O (fun _ x => match x with [v] => (f v, [df v]) | _ => (b_nan, []) end)
        (fun a b => match a, b with [u], [v] => PrimFloat.mul u v | _, _ => PrimFloat.zero end)
        (fun v => match v with [a] => PrimFloat.abs a | _ => PrimFloat.zero end)
        (fun v => if PrimFloat.ltb v (-700)%float then 0%float else if PrimFloat.ltb v 0%float then 0.5%float else 2%float)
        (fun _ _ _ => b_nan)
        (fun _ x _ H _ _ _ => (x, H)).

(* (x - 3)^2 *)
Definition ex2_parab : b2oracles :=
  orc2_1d (fun v => PrimFloat.mul (PrimFloat.sub v 3%float) (PrimFloat.sub v 3%float))
          (fun v => PrimFloat.mul 2%float (PrimFloat.sub v 3%float)).
(* -x below 1, NaN beyond *)
Definition ex2_wall : b2oracles :=
  orc2_1d (fun v => if PrimFloat.ltb v 1%float then PrimFloat.opp v else b_nan) (fun v => if PrimFloat.ltb v 1%float then (-1)%float else b_nan).

Definition ex2_cfg (maxev lsmax : Z) (p1 p2 p3 p4 : float) : b2conf :=
  mkB2C 0x1p-20%float maxev 10 lsmax 1 0%float 0x1p-50%float p1 p2 p3 p4.

Definition r_show (r : bres) :=
  (sx (rs_s r), sfx (rs_s r), sstatus (rs_s r), (c_fc (rs_c r), c_gc (rs_c r)), (rs_iters r, rs_dones r), (rs_ok r, rs_conv r), rs_exit r).

(* osga: "the step size alpha stays positive" is FALSE of the faithful model in binary64: with kappa = 1000 (inside its registered
   domain 0 < kappa' <= kappa) the factor exp(-kappa) is exactly 0 and the first shrinking step gives alpha = 0 *)
Definition osga_alpha_positive_refuted_statement : Prop :=
  exists (orc : b2oracles) (cfg : b2conf) (alpha eta eta_hat : float),
    PrimFloat.ltb 0%float alpha = true /\ PrimFloat.ltb 0%float (c2_p4 cfg) = true /\
    PrimFloat.ltb 0%float (c2_p3 cfg) = true /\ PrimFloat.leb (c2_p3 cfg) (c2_p4 cfg) = true /\
    PrimFloat.ltb 0%float (os_alpha_next orc cfg alpha eta eta_hat) = false.
Lemma osga_alpha_positive_refuted : osga_alpha_positive_refuted_statement.
Proof.
  exists ex2_parab, (ex2_cfg 100 10 0.9%float 0.7%float 0.1%float 1000%float), 0.7%float, 1%float, 1%float.
  vm_compute. repeat split; reflexivity.
Qed.

Definition ex2_c1 : b2conf := ex2_cfg 100 10 10%float 0.7%float 0.1%float 1.1%float.
Definition ex2_c2 : b2conf := ex2_cfg 40 10 0.9%float 0.7%float 0.1%float 1.1%float.
Definition ex2_c3 : b2conf := ex2_cfg 40 10 1%float 4%float 0.9%float 0%float.
Definition ex2_zero : bpoint := [0%float].
Definition ex2_three : bpoint := [3%float].

Lemma b2_examples :
  (* ellipsoid, 1-D (bisection) on (x-3)^2 from 0 with R = 10: 18 passes, converged through sqrt(gHg) < epsilon *)
  (let r := body2_run B2Ell ex2_parab ex2_c1 (b2_fuel ex2_c1) ex2_zero in
   sstatus (rs_s r) = ST_CONVERGED /\ rs_exit r = BX_DONE /\ rs_iters r = 18 /\ PrimFloat.ltb (sfx (rs_s r)) 0x1p-20%float = true) /\
  (* started at the minimiser: the early exit gHg < DBL_EPSILON, one evaluation *)
  r_show (body2_run B2Ell ex2_parab ex2_c1 (b2_fuel ex2_c1) ex2_three)
  = ([3%float], 0%float, ST_CONVERGED, (1, 1), (0, 1), (true, true), BX_ZERO) /\
  (* a NaN value: iter_ok = false, failed, the best state is kept *)
  (let r := body2_run B2Ell ex2_wall ex2_c1 (b2_fuel ex2_c1) ex2_zero in
   sstatus (rs_s r) = ST_FAILED /\ rs_ok r = false /\ valid (rs_s r) = true) /\
  (* osga: leaves through the budget test after 13 passes of 3 calls each: 2 + 39 = 41 >= 40 *)
  (let r := body2_run B2Osga ex2_parab ex2_c2 (b2_fuel ex2_c2) ex2_zero in
   rs_exit r = BX_BUDGET /\ rs_iters r = 13 /\ c_fc (rs_c r) + c_gc (rs_c r) = 41 /\ PrimFloat.ltb (sfx (rs_s r)) 9%float = true) /\
  (* pgm / dgm: converged through the value test after backtracking; fgm / asga2 / asga4: budget exit with a better value *)
  (let r := body2_run B2Pgm ex2_parab ex2_c3 (b2_fuel ex2_c3) ex2_zero in sstatus (rs_s r) = ST_CONVERGED /\ rs_iters r = 11 /\ c_fc (rs_c r) + c_gc (rs_c r) = 26) /\
  (let r := body2_run B2Dgm ex2_parab ex2_c3 (b2_fuel ex2_c3) ex2_zero in sstatus (rs_s r) = ST_CONVERGED /\ c_fc (rs_c r) + c_gc (rs_c r) = 38) /\
  (let r := body2_run B2Fgm ex2_parab ex2_c3 (b2_fuel ex2_c3) ex2_zero in rs_exit r = BX_BUDGET /\ c_fc (rs_c r) + c_gc (rs_c r) = 42) /\
  (let r := body2_run B2Asga2 ex2_parab ex2_c3 (b2_fuel ex2_c3) ex2_zero in rs_exit r = BX_BUDGET /\ PrimFloat.ltb (sfx (rs_s r)) 9%float = true) /\
  (let r := body2_run B2Asga4 ex2_parab ex2_c3 (b2_fuel ex2_c3) ex2_zero in rs_exit r = BX_BUDGET /\ PrimFloat.ltb (sfx (rs_s r)) 9%float = true) /\
  (* asga returns before the loop at a stationary point: no done() call, status max_iters *)
  r_show (body2_run B2Asga4 ex2_parab ex2_c3 (b2_fuel ex2_c3) ex2_three)
  = ([3%float], 0%float, ST_MAX_ITERS, (1, 1), (0, 0), (true, false), BX_PRE) /\
  (* pgm on the NaN wall: the inner search fails, status failed *)
  (let r := body2_run B2Pgm ex2_wall ex2_c3 (b2_fuel ex2_c3) ex2_zero in sstatus (rs_s r) = ST_FAILED /\ rs_ok r = false) /\
  ffin (fst (o2_eval ex2_parab 0 ex2_zero)) = true /\ 1 <= c2_lsmax ex2_c3.
Proof. vm_compute. repeat split; try reflexivity; try discriminate. Qed.
