(* C07 -- the evaluation budget of one lsearchk_t::get call, for EVERY probe oracle, parameters and max_iterations >= 1.
   `cnt` counts the calls of state.update(x0 + t*d) (= one function_t::vgrad with gradient each: 1 fcall + 1 gcall).
     get():        `*0.3` loop <= max_iterations, `*3` loop <= max_iterations
     backtrack:    <= max_iterations            lemarechal: <= max_iterations - 1        morethuente: <= max_iterations
     fletcher:     <= (max_iterations - 1) + max_iterations   (bracketing, then ONE zoom with its own full budget)
     cgdescent:    <= 7 * max_iterations + 1: the mutable m_max_iterations is decremented once per evaluation of bracket() /
                   updateU() except for the last evaluation of an updateU() call (returns without `--`), and the main loop
                   (i < m_max_iterations) makes up to three move+update per iteration, each <= 2 evaluations + decrements. *)
From Coq Require Import List ZArith Bool Floats Lia.
From LNGen Require Import Src_c07_flt.
From LNGen Require Src_c07.
From LN Require Import C07_Defs.
Import ListNotations.
Local Open Scope Z_scope.

(* the registered default and lower bound of lsearchk::max_iterations, translated from lsearchk.cpp *)
Definition default_max_iterations : Z := Src_c07.src_ls_default_max_iterations.
Definition min_max_iterations : Z := Src_c07.src_ls_min_max_iterations.

Definition do_get_bound (a : alg) (n : Z) : Z :=
  match a with
  | Backtrack => n
  | Lemarechal => n - 1
  | Fletcher => 2 * n - 1
  | MoreThuente => n
  | CGDescent => 7 * n + 1
  end.

(* the two loops of get() + do_get *)
Definition ls_bound (a : alg) (n : Z) : Z := 2 * n + do_get_bound a n.

Local Arguments cg_done : simpl never.
Local Arguments cg_mucd : simpl never.
Local Arguments cg_update : simpl never.
Local Arguments interpolate : simpl never.
Local Arguments mt_stop : simpl never.
Local Arguments mt_next : simpl never.
Local Arguments fclamp : simpl never.
Local Arguments Z.of_nat : simpl never.
Local Arguments Z.mul : simpl never.
Local Arguments Z.add : simpl never.

Section Budget.
  Variable phi : Z -> float -> probe.
  Variable prm : params.
  Variable p0 : probe.
  Local Notation update := (C07_Defs.update phi).

  Lemma cnt_update : forall s t, cnt (update s t) = cnt s + 1.
  Proof. reflexivity. Qed.

  Local Opaque C07_Defs.update.

  Lemma shrink_cnt : forall fuel s t,
    cnt s <= cnt (fst (shrink phi fuel s t)) <= cnt s + Z.of_nat fuel.
  Proof.
    induction fuel as [|k IH]; intros s t; cbn [shrink].
    - cbn [fst]. lia.
    - destruct (pv (cur (update s t))); cbn [fst].
      + rewrite cnt_update. lia.
      + specialize (IH (update s t) (PrimFloat.mul t k03)). rewrite cnt_update in IH. lia.
  Qed.

  Lemma grow_cnt : forall fuel s t,
    cnt s <= cnt (fst (snd (grow phi p0 fuel s t))) <= cnt s + Z.of_nat fuel.
  Proof.
    induction fuel as [|k IH]; intros s t; cbn [grow].
    - cbn [fst snd]. lia.
    - destruct (PrimFloat.ltb _ eps1); [|cbn [fst snd]; lia].
      match goal with |- context [update s ?x] => set (t' := x) end.
      destruct (pv (cur (update s t'))); cbn [fst snd].
      + specialize (IH (update s t') t'). rewrite cnt_update in IH. lia.
      + rewrite cnt_update. lia.
  Qed.

  Lemma backtrack_cnt : forall fuel s t,
    cnt s <= cnt (rs (backtrack phi prm p0 fuel s t)) <= cnt s + Z.of_nat fuel.
  Proof.
    induction fuel as [|k IH]; intros s t; cbn [backtrack].
    - cbn [rs]. lia.
    - destruct (negb (pv (cur s))); [cbn [rs]; lia|].
      destruct (armijo prm p0 s t); [cbn [rs]; lia|].
      match goal with |- context [update s ?x] => set (t' := x) end.
      destruct (pv (cur (update s t'))).
      + specialize (IH (update s t') t'). rewrite cnt_update in IH. lia.
      + cbn [rs]. rewrite cnt_update. lia.
  Qed.

  Lemma lemarechal_cnt : forall fuel s t L R,
    cnt s <= cnt (rs (lemarechal phi prm p0 fuel s t L R)) <= cnt s + Z.of_nat fuel.
  Proof.
    induction fuel as [|k IH]; intros s t L R; cbn [lemarechal].
    - cbn [rs]. lia.
    - destruct (armijo prm p0 s t).
      + destruct (wolfe prm p0 s); [cbn [rs]; lia|].
        match goal with |- context [update s ?x] => set (t' := x) end.
        destruct (pv (cur (update s t'))).
        * specialize (IH (update s t') t' (step_of t (cur s)) R). rewrite cnt_update in IH. lia.
        * cbn [rs]. rewrite cnt_update. lia.
      + match goal with |- context [update s ?x] => set (t' := x) end.
        destruct (pv (cur (update s t'))).
        * specialize (IH (update s t') t' L (step_of t (cur s))). rewrite cnt_update in IH. lia.
        * cbn [rs]. rewrite cnt_update. lia.
  Qed.

  Lemma zoom_cnt : forall fuel s lo hi,
    cnt s <= cnt (rs (zoom phi prm p0 fuel s lo hi)) <= cnt s + Z.of_nat fuel.
  Proof.
    induction fuel as [|k IH]; intros s lo hi; cbn [zoom].
    - cbn [rs]. lia.
    - destruct (negb (PrimFloat.ltb eps0 _)); [cbn [rs]; lia|].
      match goal with |- context [update s ?x] => set (t := x) end.
      destruct (negb (pv (cur (update s t)))); [cbn [rs]; rewrite cnt_update; lia|].
      destruct (negb (armijo prm p0 (update s t) t) || _).
      + specialize (IH (update s t) lo (step_of t (cur (update s t)))). rewrite cnt_update in IH. lia.
      + destruct (swolfe prm p0 (update s t)); [cbn [rs]; rewrite cnt_update; lia|].
        match goal with |- context [zoom phi prm p0 k (update s t) ?a ?b] => specialize (IH (update s t) a b) end.
        rewrite cnt_update in IH. lia.
  Qed.

  Lemma fletcher_cnt : forall fuel s t prev curr,
    cnt s <= cnt (rs (fletcher phi prm p0 fuel s t prev curr)) <= cnt s + Z.of_nat fuel + Z.of_nat (fuel_of (maxit prm)).
  Proof.
    induction fuel as [|k IH]; intros s t prev curr; cbn [fletcher].
    - cbn [rs]. lia.
    - destruct (negb (armijo prm p0 s t) || _).
      + pose proof (zoom_cnt (fuel_of (maxit prm)) s prev curr). lia.
      + destruct (swolfe prm p0 s); [cbn [rs]; lia|].
        destruct (negb (has_descent (cur s))).
        * pose proof (zoom_cnt (fuel_of (maxit prm)) s curr prev). lia.
        * match goal with |- context [update s ?x] => set (t' := x) end.
          destruct (negb (pv (cur (update s t')))); [cbn [rs]; rewrite cnt_update; lia|].
          specialize (IH (update s t') t' curr (step_of t' (cur (update s t')))). rewrite cnt_update in IH. lia.
  Qed.

  Lemma morethuente_cnt : forall fuel s stp m,
    cnt s <= cnt (rs (morethuente phi prm p0 fuel s stp m)) <= cnt s + Z.of_nat fuel.
  Proof.
    induction fuel as [|k IH]; intros s stp m; cbn [morethuente].
    - cbn [rs]. lia.
    - destruct (mt_stop prm p0 (cur s) stp m); [cbn [rs]; lia|].
      destruct (mt_next prm p0 (cur s) stp m) as [stp' m'].
      destruct (negb (pv (cur (update s stp')))); [cbn [rs]; rewrite cnt_update; lia|].
      specialize (IH (update s stp') stp' m'). rewrite cnt_update in IH. lia.
  Qed.

  (* ---------- CG_DESCENT: evaluations against the mutable m_max_iterations ---------- *)
  Definition icnt (iv : interval) : Z := cnt (i_s iv).

  (* k more evaluations than decrements, the budget never negative *)
  Definition cg_rel (k : Z) (iv iv' : interval) : Prop :=
    0 <= i_mi iv' <= i_mi iv /\ icnt iv <= icnt iv' /\ icnt iv' + i_mi iv' <= icnt iv + i_mi iv + k.

  Lemma icnt_move : forall iv t, icnt (cg_move phi iv t) = icnt iv + 1.
  Proof. reflexivity. Qed.

  Lemma updateU_rel : forall fuel iv, 0 <= i_mi iv -> cg_rel 1 iv (cg_updateU phi prm p0 fuel iv).
  Proof.
    induction fuel as [|k IH]; intros iv M; cbn [cg_updateU]; [unfold cg_rel; lia|].
    destruct (negb (0 <? i_mi iv) || _) eqn:C; [unfold cg_rel; lia|].
    apply orb_false_iff in C. destruct C as [C _]. apply negb_false_iff, Z.ltb_lt in C.
    match goal with |- context [cg_move phi iv ?x] => set (t := x) end.
    pose proof (icnt_move iv t) as E.
    destruct (negb (pv (iv_cur (cg_move phi iv t)))); [unfold cg_rel; cbn [i_mi cg_move]; lia|].
    destruct (negb (has_descent (iv_cur (cg_move phi iv t))));
      [unfold cg_rel, icnt in *; cbn [i_mi i_s cg_move cg_updateB] in *; lia|].
    destruct (has_approx_armijo p0 (iv_cur (cg_move phi iv t)) (cg_epsk prm p0)).
    - match goal with |- context [cg_updateU phi prm p0 k ?x] => specialize (IH x) end.
      unfold cg_rel, icnt in *. cbn [i_mi i_s cg_move cg_updateA cg_dec] in *. lia.
    - match goal with |- context [cg_updateU phi prm p0 k ?x] => specialize (IH x) end.
      unfold cg_rel, icnt in *. cbn [i_mi i_s cg_move cg_updateB cg_dec] in *. lia.
  Qed.

  Lemma update_rel : forall iv, 0 <= i_mi iv -> cg_rel 1 iv (cg_update phi prm p0 iv).
  Proof.
    intros iv M. unfold cg_update.
    destruct (_ || _); [unfold cg_rel; lia|].
    destruct (negb (has_descent (iv_cur iv))); [unfold cg_rel, icnt; cbn [i_mi i_s cg_updateB]; lia|].
    destruct (has_approx_armijo p0 (iv_cur iv) (cg_epsk prm p0)); [unfold cg_rel, icnt; cbn [i_mi i_s cg_updateA]; lia|].
    pose proof (updateU_rel (fuel_of (i_mi (cg_updateB iv))) (cg_updateB iv) M) as U.
    unfold cg_rel, icnt in *. cbn [i_mi i_s cg_updateB] in *. exact U.
  Qed.

  Lemma bracket_rel : forall fuel iv la, 0 <= i_mi iv -> cg_rel 1 iv (cg_bracket phi prm p0 fuel iv la).
  Proof.
    induction fuel as [|k IH]; intros iv la M; cbn [cg_bracket]; [unfold cg_rel; lia|].
    destruct (negb (0 <? i_mi iv) || _) eqn:C; [unfold cg_rel; lia|].
    apply orb_false_iff in C. destruct C as [C _]. apply negb_false_iff, Z.ltb_lt in C.
    destruct (negb (has_descent (iv_cur iv))); [unfold cg_rel, icnt; cbn [i_mi i_s cg_updateB cg_setA]; lia|].
    destruct (negb (has_approx_armijo p0 (iv_cur iv) (cg_epsk prm p0))).
    - match goal with |- context [cg_updateU phi prm p0 ?f ?x] => pose proof (updateU_rel f x) as U end.
      unfold cg_rel, icnt in *. cbn [i_mi i_s cg_updateB cg_setA] in *. apply U. exact M.
    - match goal with |- context [cg_bracket phi prm p0 k ?x ?l] => specialize (IH x l) end.
      unfold cg_rel, icnt in *. cbn [i_mi i_s cg_move cg_dec] in *. rewrite cnt_update in IH. lia.
  Qed.

  Lemma mucd_rel : forall iv t, 0 <= i_mi iv -> cg_rel 2 iv (snd (cg_mucd phi prm p0 iv t)).
  Proof.
    intros iv t M. unfold cg_mucd.
    destruct (negb (PrimFloat.is_finite t)); [cbn [snd]; unfold cg_rel; lia|].
    pose proof (icnt_move iv t) as E.
    destruct (cg_done prm p0 (cg_move phi iv t) true); cbn [snd].
    - unfold cg_rel. cbn [i_mi cg_move]. lia.
    - pose proof (update_rel (cg_move phi iv t)) as U. unfold cg_rel in *. cbn [i_mi cg_move] in *. lia.
  Qed.

  Lemma cg_ret_cnt : forall iv br, cnt (rs (cg_ret iv br)) = icnt iv.
  Proof. reflexivity. Qed.

  Lemma cg_loop_cnt : forall fuel i iv,
    0 <= i -> 0 <= i_mi iv ->
    icnt iv <= cnt (rs (cg_loop phi prm p0 fuel i iv)) <= icnt iv + 6 * Z.max 0 (i_mi iv - i) + i_mi iv.
  Proof.
    induction fuel as [|k IH]; intros i iv I M; cbn [cg_loop].
    - cbn [rs]. fold (icnt iv). lia.
    - destruct (negb (i <? i_mi iv) || _) eqn:C; [cbn [rs]; fold (icnt iv); lia|].
      apply orb_false_iff in C. destruct C as [C _]. apply negb_false_iff, Z.ltb_lt in C.
      pose proof (mucd_rel iv (secant (i_a iv) (i_b iv)) M) as R1.
      destruct (cg_mucd phi prm p0 iv (secant (i_a iv) (i_b iv))) as [d1 iv1]. cbn [snd] in R1.
      destruct d1; [rewrite cg_ret_cnt; unfold cg_rel in R1; lia|].
      match goal with
      | |- context [let '(d2, iv2) := ?e in _] =>
        assert (R2 : cg_rel 2 iv1 (snd e)); [ | destruct e as [d2 iv2]; cbn [snd] in R2 ]
      end.
      { assert (M1 : 0 <= i_mi iv1) by (unfold cg_rel in R1; lia).
        destruct (PrimFloat.ltb _ eps0); [apply mucd_rel; exact M1|].
        destruct (PrimFloat.ltb _ eps0); [apply mucd_rel; exact M1|].
        cbn [snd]. unfold cg_rel. lia. }
      destruct d2; [rewrite cg_ret_cnt; unfold cg_rel in R1, R2; lia|].
      destruct (PrimFloat.ltb _ _).
      + assert (M2 : 0 <= i_mi iv2) by (unfold cg_rel in R2; lia).
        pose proof (mucd_rel iv2 (PrimFloat.div (PrimFloat.add (st_t (i_a iv2)) (st_t (i_b iv2))) 2%float) M2) as R3.
        destruct (cg_mucd phi prm p0 iv2 _) as [d3 iv3]. cbn [snd] in R3.
        destruct d3; [rewrite cg_ret_cnt; unfold cg_rel in R1, R2, R3; lia|].
        assert (M3 : 0 <= i_mi iv3) by (unfold cg_rel in R3; lia).
        specialize (IH (i + 1) iv3 ltac:(lia) M3). unfold cg_rel in R1, R2, R3. lia.
      + assert (M2 : 0 <= i_mi iv2) by (unfold cg_rel in R2; lia).
        specialize (IH (i + 1) iv2 ltac:(lia) M2). unfold cg_rel in R1, R2. lia.
  Qed.

  Lemma cgdescent_cnt : forall s t,
    0 <= maxit prm ->
    cnt s <= cnt (rs (cgdescent phi prm p0 s t)) <= cnt s + 7 * maxit prm + 1.
  Proof.
    intros s t M. unfold cgdescent.
    match goal with |- context [cg_done prm p0 ?x false] => set (iv := x) end.
    assert (E0 : icnt iv = cnt s) by reflexivity.
    assert (M0 : i_mi iv = maxit prm) by reflexivity.
    destruct (cg_done prm p0 iv false); [rewrite cg_ret_cnt; lia|].
    pose proof (bracket_rel (fuel_of (maxit prm)) iv (i_a iv) ltac:(lia)) as B.
    set (iv1 := cg_bracket phi prm p0 (fuel_of (maxit prm)) iv (i_a iv)) in *.
    destruct (cg_done prm p0 iv1 true); [rewrite cg_ret_cnt; unfold cg_rel in B; lia|].
    assert (M1 : 0 <= i_mi iv1) by (unfold cg_rel in B; lia).
    pose proof (cg_loop_cnt (fuel_of (maxit prm)) 0 iv1 ltac:(lia) M1) as L.
    unfold cg_rel in B. lia.
  Qed.

  Lemma do_get_cnt : forall a s t,
    0 < maxit prm ->
    cnt s <= cnt (rs (do_get phi prm p0 a s t)) <= cnt s + do_get_bound a (maxit prm).
  Proof.
    intros a s t M. destruct a; cbn [do_get do_get_bound].
    - pose proof (backtrack_cnt (fuel_of (maxit prm)) s t). unfold fuel_of in *. rewrite Z2Nat.id in *; lia.
    - pose proof (lemarechal_cnt (fuel_of (maxit prm - 1)) s t (step0 p0) (step0 p0)).
      unfold fuel_of in *. rewrite Z2Nat.id in *; lia.
    - pose proof (fletcher_cnt (fuel_of (maxit prm - 1)) s t (step0 p0) (step_of t (cur s))).
      unfold fuel_of in *. rewrite !Z2Nat.id in *; lia.
    - pose proof (morethuente_cnt (fuel_of (maxit prm)) s t (mt_init p0 t)). unfold fuel_of in *. rewrite Z2Nat.id in *; lia.
    - pose proof (cgdescent_cnt s t). lia.
  Qed.

  Lemma ls_get_cnt : forall a t0,
    0 < maxit prm ->
    0 <= cnt (rs (ls_get phi prm p0 a t0)) <= ls_bound a (maxit prm).
  Proof.
    intros a t0 M. unfold ls_get, ls_bound.
    assert (D : 0 <= do_get_bound a (maxit prm)) by (destruct a; cbn [do_get_bound]; lia).
    destruct (negb (has_descent p0)); [cbn [rs init_state cnt]; lia|].
    pose proof (shrink_cnt (fuel_of (maxit prm)) (init_state p0) (init_step t0)) as S.
    destruct (shrink phi (fuel_of (maxit prm)) (init_state p0) (init_step t0)) as [s1 t1]. cbn [fst] in S.
    change (cnt (init_state p0)) with 0 in S.
    unfold fuel_of in *. rewrite Z2Nat.id in S by lia.
    destruct (src_ls_stale_guard_f (pv (cur s1))); [cbn [rs]; lia|].
    pose proof (grow_cnt (Z.to_nat (maxit prm)) s1 t1) as G.
    destruct (grow phi p0 (Z.to_nat (maxit prm)) s1 t1) as [go [s2 t2]]. cbn [fst snd] in G.
    rewrite Z2Nat.id in G by lia.
    destruct go; [|cbn [rs]; lia].
    pose proof (do_get_cnt a s2 t2 M). lia.
  Qed.
End Budget.

Lemma ls_bound_values : forall n,
  ls_bound Backtrack n = 3 * n /\ ls_bound Lemarechal n = 3 * n - 1 /\ ls_bound Fletcher n = 4 * n - 1 /\
  ls_bound MoreThuente n = 3 * n /\ ls_bound CGDescent n = 9 * n + 1.
Proof. intros n. unfold ls_bound, do_get_bound. repeat split; lia. Qed.

Lemma default_max_iterations_value : default_max_iterations = 128 /\ min_max_iterations = 1.
Proof. split; reflexivity. Qed.

Lemma ls_get_cnt_default : forall phi prm p0 a t0,
  maxit prm = default_max_iterations ->
  0 <= cnt (rs (ls_get phi prm p0 a t0)) <=
  match a with Backtrack => 384 | Lemarechal => 383 | Fletcher => 511 | MoreThuente => 384 | CGDescent => 1153 end.
Proof.
  intros phi prm p0 a t0 E. pose proof (ls_get_cnt phi prm p0 a t0) as H. rewrite E in H.
  specialize (H ltac:(reflexivity)). destruct a; exact H.
Qed.
