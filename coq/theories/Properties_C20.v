(* C20 -- Order statistics and histograms are consistent with a sorted-array reference.
   Only statements + `exact` + Print Assumptions live here.  Model: C20_Defs (kernels translated from
   include/nano/core/{stats,histogram}.h on every run); proofs: C20_Proofs.

   Every theorem is about the polymorphic model instantiated with ANY scalar operations [Op] whose
   three-way comparison is a total preorder ([order_ok Op]); Z_ops and Q_ops (exact integers and
   rationals: "every real v") are such instances (C20_nonvacuous_order).  The percentile position is
   computed in binary64 exactly as the code does. *)
(* Floats is deliberately not imported: Print Assumptions then prints the primitive operations with their
   module names (PrimFloat.mul, ...), which is what the axiom gate whitelists *)
From Coq Require Import List ZArith Bool Sorted Permutation QArith Qround.
From LNGen Require Import Src_pctile Src_histogram.
From LN Require Import C20_Defs C20_Proofs.
Import ListNotations.
Local Open Scope Z_scope.

(* --- the sorted-array reference ------------------------------------------------------------------- *)
(* the model's sort is a sorted permutation, and the element at index k is characterised by ranks alone:
   fewer than k+1 elements are smaller, at least k+1 are not larger -- so every correct std::sort /
   std::nth_element yields an equivalent element at that index *)
Theorem C20_order_statistic : forall T (Op : ops T), order_ok Op -> forall (l : list T) (d : T) (k : nat),
  (StronglySorted (le Op) (sort Op l) /\ Permutation (sort Op l) l) /\
  ((k < length l)%nat ->
     let x := nth k (sort Op l) d in
     In x l /\ (count_lt Op x l <= k)%nat /\ (k < count_le Op x l)%nat /\
     (forall y, (count_lt Op y l <= k)%nat -> (k < count_le Op y l)%nat -> equiv Op x y) /\
     (forall s', StronglySorted (le Op) s' -> Permutation s' l -> equiv Op (nth k s' d) x)).
Proof. exact s_order_statistic. Qed.
Print Assumptions C20_order_statistic.

(* percentile (unsorted variant) = the element of the sorted permutation at the binary64-computed position,
   or the midpoint of the two neighbours; the sorted variant agrees on sorted input *)
Theorem C20_percentile_spec : forall T (Op : ops T), order_ok Op -> forall (l : list T) (p : PrimFloat.float),
  let s := sort Op l in
  let n := Z.of_nat (length l) in
  let lp := pct_lpos p n in
  let rp := pct_rpos p n in
  (StronglySorted (le Op) s /\ Permutation s l /\
   percentile Op l p = (if lp =? rp then nthZ Op s lp else midpoint Op (nthZ Op s lp) (nthZ Op s rp))) /\
  (StronglySorted (le Op) l -> percentile_sorted Op l p = percentile Op l p).
Proof. exact s_percentile_spec. Qed.
Print Assumptions C20_percentile_spec.

(* the binary64 position agrees with the exact rational p*(n-1)/100: floor and ceiling.
   Full statement (every dyadic percentage, large n): NOT proved, searched by the harness' exact-integer
   oracle on every percentage that is a multiple of 2^-20. *)
Definition C20_position_exact_full_statement : Prop :=
  forall (p : PrimFloat.float) (num j n : Z),
    0 <= j <= 20 -> 0 <= num <= 100 * 2 ^ j -> SFvalue_is (FloatOps.Prim2SF p) num (2 ^ j) = true ->
    1 <= n <= 2 ^ 31 ->
    pct_lpos p n = (num * (n - 1)) / (100 * 2 ^ j) /\
    pct_rpos p n = - ((- (num * (n - 1))) / (100 * 2 ^ j)).

(* proved part: every percentage on the grid k/16 (k = 0..1600, includes 0, 100 and all integers) and every
   list length 1..512, exhaustively (kernel computation over the 819,712 cases, not sampling) *)
Theorem C20_position_exact_partial : forall k n, 0 <= k <= 1600 -> 1 <= n <= 512 ->
  SFvalue_is (FloatOps.Prim2SF (grid_p k)) k 16 = true /\
  pct_lpos (grid_p k) n = (k * (n - 1)) / 1600 /\
  pct_rpos (grid_p k) n = - ((- (k * (n - 1))) / 1600) /\
  0 <= pct_lpos (grid_p k) n <= pct_rpos (grid_p k) n /\ pct_rpos (grid_p k) n <= n - 1 /\
  pct_rpos (grid_p k) n <= pct_lpos (grid_p k) n + 1.
Proof. exact s_position_exact_partial. Qed.
Print Assumptions C20_position_exact_partial.

(* the property's formula on that grid: value at position k(n-1)/1600 of the sorted list, midpoint of the
   two neighbours when the position is fractional *)
Theorem C20_percentile_formula : forall T (Op : ops T), order_ok Op -> forall (l : list T) (k : Z),
  0 <= k <= 1600 -> (1 <= length l <= 512)%nat ->
  let s := sort Op l in
  let a := k * (Z.of_nat (length l) - 1) in
  percentile Op l (grid_p k) =
  if a mod 1600 =? 0 then nthZ Op s (a / 1600)
  else midpoint Op (nthZ Op s (a / 1600)) (nthZ Op s (a / 1600 + 1)).
Proof. exact s_percentile_formula. Qed.
Print Assumptions C20_percentile_formula.

Theorem C20_median : forall T (Op : ops T), order_ok Op -> forall (l : list T),
  (1 <= length l <= 4096)%nat ->
  let s := sort Op l in
  let n := Z.of_nat (length l) in
  median Op l =
  if Z.odd n then nthZ Op s ((n - 1) / 2)
  else midpoint Op (nthZ Op s (n / 2 - 1)) (nthZ Op s (n / 2)).
Proof. exact s_median. Qed.
Print Assumptions C20_median.

(* --- histograms ---------------------------------------------------------------------------------------- *)
(* for ANY thresholds (unsorted, duplicates, outside the data range): the bins partition the sorted values;
   bin b holds exactly the values with thr_{b-1} <= v < thr_b (= exactly the values with bin(v) = b); its count
   is the number of such values in the original list; and the stored (count, mean, median) are computed from
   precisely that list of values *)
Theorem C20_partition : forall T (Op : ops T), order_ok Op -> forall (thr vals : list T),
  let st := sort Op thr in
  let s := sort Op vals in
  let B := hist_bins Op st s in
  (StronglySorted (le Op) st /\ Permutation st thr) /\
  length B = S (length thr) /\
  concat B = s /\ Permutation (concat B) vals /\
  (forall b, (b <= length thr)%nat ->
     nth b B [] = filter (in_binb Op st b) s /\
     nth b B [] = filter (fun v => hist_bin Op st v =? Z.of_nat b) s /\
     length (nth b B []) = count (in_binb Op st b) vals) /\
  histogram Op thr vals = (st, map (bin_summary Op) B) /\
  (forall m, bin_summary Op m =
     (Z.of_nat (length m),
      if 0 <? Z.of_nat (length m) then mean_of Op m else nan Op,
      if 0 <? Z.of_nat (length m) then median_sorted Op m else nan Op)).
Proof. exact s_partition. Qed.
Print Assumptions C20_partition.

(* bin(v), for EVERY v of the scalar type (not only data values, not only integers): the bin the counting rule
   assigns, i.e. the unique b with thr_{b-1} <= v < thr_b *)
Theorem C20_bin_agrees : forall T (Op : ops T), order_ok Op -> forall (st : list T) (v : T),
  StronglySorted (le Op) st ->
  0 <= hist_bin Op st v <= Z.of_nat (length st) /\
  (forall b, (b <= length st)%nat -> (hist_bin Op st v = Z.of_nat b <-> in_binb Op st b v = true)) /\
  (forall thr vals, st = sort Op thr -> In v vals ->
     In v (nth (Z.to_nat (hist_bin Op st v)) (hist_bins Op st (sort Op vals)) [])).
Proof. exact s_bin_agrees. Qed.
Print Assumptions C20_bin_agrees.

(* with exact arithmetic the mean of a bin is the mean of the values of the original (unsorted) list that lie
   in the bin's interval *)
Theorem C20_exact_mean : forall (thr vals : list Q) (b : nat), (b <= length thr)%nat ->
  let st := sort Q_ops thr in
  let m := nth b (hist_bins Q_ops st (sort Q_ops vals)) [] in
  let m' := filter (in_binb Q_ops st b) vals in
  length m = length m' /\
  (mean_of Q_ops m == fold_left Qplus m' 0 / inject_Z (Z.of_nat (length m')))%Q.
Proof. exact s_exact_mean. Qed.
Print Assumptions C20_exact_mean.

(* the translated source expressions mean what the model assumes: the predicate handed to upper_bound is a
   pure order test (so evaluating it on the three-way comparison is faithful), bin() compares the query
   itself (no conversion), the last bin is bins-1 *)
Theorem C20_kernels : forall t v n,
  src_hist_goes_right t v = src_hist_goes_right 0 (zcmp v t) /\
  src_hist_goes_right t v = (t <=? v) /\
  src_bin_query v = v /\ src_bin_last (src_hist_bins n) = n /\ src_pct_last n = n - 1.
Proof. exact s_kernels. Qed.
Print Assumptions C20_kernels.

(* --- non-vacuity ------------------------------------------------------------------------------------------ *)
Example C20_nonvacuous_order : order_ok Z_ops /\ order_ok Q_ops.
Proof.
  split; split.
  - exact zcmp_antisym.
  - exact zcmp_trans.
  - exact qcmp_antisym.
  - exact qcmp_trans.
Qed.

(* thresholds {5, 2, 2} (unsorted, duplicate), values with ties and a negative one *)
Example C20_nonvacuous_histogram :
  histogram Z_ops [5; 2; 2] [1; 2; 3; 7; 5; 2; -4] =
    ([2; 2; 5], [(2, -1, -1); (0, 0, 0); (3, 2, 2); (2, 6, 6)]) /\
  map (hist_bin Z_ops [2; 2; 5]) [-4; 1; 2; 3; 4; 5; 7; 100] = [0; 0; 2; 2; 2; 3; 3; 3] /\
  in_binb Z_ops [2; 2; 5] 2 3 = true /\ in_binb Z_ops [2; 2; 5] 1 2 = false.
Proof. vm_compute. repeat split; reflexivity. Qed.

(* the pre-repair behaviour (query truncated to an integer) is different: thresholds {2.5}, query 2.7 *)
Example C20_truncated_query_differs :
  hist_bin Q_ops [5 # 2]%Q (27 # 10)%Q = 1 /\ hist_bin Q_ops [5 # 2]%Q (inject_Z (Qfloor (27 # 10))) = 0.
Proof. vm_compute. split; reflexivity. Qed.

(* 25% of five values is exactly position 1; 30% lies between positions 1 and 2; the median of 4 values *)
Example C20_nonvacuous_percentile :
  percentile Z_ops [9; 1; 7; 3; 5] (grid_p 400) = 3 /\
  pct_lpos (grid_p 480) 5 = 1 /\ pct_rpos (grid_p 480) 5 = 2 /\
  percentile Q_ops [9; 1; 7; 3; 5]%Q (grid_p 480) = ((3 + 5) / 2)%Q /\
  median Q_ops [4; 1; 3; 2]%Q = ((2 + 3) / 2)%Q /\
  (0 <= 480 <= 1600 /\ 1 <= 5 <= 512).
Proof. vm_compute. repeat split; try reflexivity; discriminate. Qed.

(* ========================================================================================================== *)
(* Extension: the binary64 position through Flocq (C20_FloatDefs / C20_Float), replacing the finite sweep      *)
(* ========================================================================================================== *)
(* FR x = the real number a finite double denotes (Flocq's B2R of Prim2B), RN = rounding to nearest-even in
   binary64 (FLT_exp (-1074) 53, unbounded above: overflow is excluded separately), real_quot a b = a / b in R,
   real_position P n = RN (RN (P * (n-1)) / 100).  pos_side_ok k j n = 0 <= k, 0 <= j <= 1015, 1 <= n,
   n - 1 < 2^53, k (n-1) < 2^53. *)
From LNGen Require Import Src_pctpos.
From LN Require Import C20_FloatDefs C20_Float.

(* EVERY dyadic percentage p = k / 2^j and EVERY size n with k (n-1) < 2^53 (j <= 1015 excludes underflow of the
   quotient): the product p * double(n-1) is exact, the quotient by 100.0 is the correctly rounded exact quotient,
   and floor / ceil of the rounded quotient are floor / ceil of the exact rational position k (n-1) / (100 2^j);
   the two indices coincide exactly when the exact position is an integer *)
Theorem C20_position_exact : forall (p : PrimFloat.float) (k j n : Z),
  SFvalue_is (FloatOps.Prim2SF p) k (2 ^ j) = true -> pos_side_ok k j n = true ->
  FR (PrimFloat.mul p (Z2F (n - 1))) = real_quot (k * (n - 1)) (2 ^ j) /\
  FR (pct_position p n) = RN (real_quot (k * (n - 1)) (100 * 2 ^ j)) /\
  PrimFloat.is_finite (pct_position p n) = true /\
  pct_lpos p n = (k * (n - 1)) / (100 * 2 ^ j) /\
  pct_rpos p n = - ((- (k * (n - 1))) / (100 * 2 ^ j)) /\
  (pct_lpos p n = pct_rpos p n <-> (k * (n - 1)) mod (100 * 2 ^ j) = 0) /\
  pct_rpos p n <= pct_lpos p n + 1.
Proof. exact s_position_exact. Qed.
Print Assumptions C20_position_exact.

(* the same in the executable form the driver evaluates on every POS line of the run *)
Theorem C20_pos_reference : forall (p : PrimFloat.float) (n l r : Z), pos_reference p n = Some (l, r) ->
  pct_lpos_src p n = l /\ pct_rpos_src p n = r /\
  exists k j, SFvalue_is (FloatOps.Prim2SF p) k (2 ^ j) = true /\ pos_side_ok k j n = true /\
              l = (k * (n - 1)) / (100 * 2 ^ j) /\ r = - ((- (k * (n - 1))) / (100 * 2 ^ j)).
Proof. exact s_pos_reference. Qed.
Print Assumptions C20_pos_reference.

(* hence, for all such inputs, the percentile IS the sorted-array reference of the property (any length, any
   scalar type with a total preorder); the sorted variant agrees *)
Theorem C20_percentile_exact : forall T (Op : ops T), order_ok Op ->
  forall (l : list T) (p : PrimFloat.float) (k j : Z),
  SFvalue_is (FloatOps.Prim2SF p) k (2 ^ j) = true -> pos_side_ok k j (Z.of_nat (length l)) = true ->
  let s := sort Op l in
  let a := k * (Z.of_nat (length l) - 1) in
  let D := 100 * 2 ^ j in
  percentile Op l p =
    (if a mod D =? 0 then nthZ Op s (a / D) else midpoint Op (nthZ Op s (a / D)) (nthZ Op s (a / D + 1))) /\
  (StronglySorted (le Op) l -> percentile_sorted Op l p = percentile Op l p).
Proof. exact s_percentile_exact. Qed.
Print Assumptions C20_percentile_exact.

(* the median for every length below 2^47 (C20_median: up to 4096, by enumeration) *)
Theorem C20_median_all : forall T (Op : ops T), order_ok Op -> forall (l : list T),
  (1 <= length l)%nat -> Z.of_nat (length l) - 1 < 2 ^ 47 ->
  let s := sort Op l in
  let n := Z.of_nat (length l) in
  median Op l =
  if Z.odd n then nthZ Op s ((n - 1) / 2)
  else midpoint Op (nthZ Op s (n / 2 - 1)) (nthZ Op s (n / 2)).
Proof. exact s_median_all. Qed.
Print Assumptions C20_median_all.

(* what IS true for every double in [0, 100] (decimal percentages such as 8.8 included; 8.8 is not 8.8): the position
   follows the binary64 value of p -- it is the twice rounded real expression in FR p --, both indices stay inside
   the array (no out-of-range access) and are neighbours *)
Theorem C20_position_any : forall (p : PrimFloat.float) (n : Z),
  pct_in_range p = true -> 1 <= n -> n - 1 <= 2 ^ 46 ->
  PrimFloat.is_finite (pct_position p n) = true /\
  FR (pct_position p n) = real_position (FR p) n /\
  pct_lpos p n = Raux.Zfloor (FR (pct_position p n)) /\ pct_rpos p n = Raux.Zceil (FR (pct_position p n)) /\
  0 <= pct_lpos p n <= pct_rpos p n /\ pct_rpos p n <= n - 1 /\ pct_rpos p n <= pct_lpos p n + 1.
Proof. exact s_position_any. Qed.
Print Assumptions C20_position_any.

(* ... and the indices are monotone in the percentage *)
Theorem C20_position_monotone : forall (p p' : PrimFloat.float) (n : Z),
  pct_in_range p = true -> pct_in_range p' = true -> pct_le p p' = true -> 1 <= n -> n - 1 <= 2 ^ 46 ->
  pct_lpos p n <= pct_lpos p' n /\ pct_rpos p n <= pct_rpos p' n.
Proof. exact s_position_monotone. Qed.
Print Assumptions C20_position_monotone.

(* the midpoint in binary64 as the REPAIRED source computes it (/repo 985fdb5: `sum = lvalue + rvalue;
   isfinite(sum) ? sum / 2 : lvalue / 2 + rvalue / 2`; replaces the first version of this theorem, which needed the
   hypothesis that a + b does not overflow): for ALL finite a <= b the result is finite and lies in [a, b]; when a + b is
   finite it is the pre-repair value fl(fl(a + b) / 2); when a + b overflows it is fl(a/2 + b/2) = the correctly rounded
   exact midpoint RN((a + b) / 2) (both operands then have magnitude >= 2^970, so halving them is exact) *)
Theorem C20_midpoint : forall a b : PrimFloat.float,
  midpoint float_ops a b = fmid a b /\
  (PrimFloat.is_finite a = true -> PrimFloat.is_finite b = true -> PrimFloat.leb a b = true ->
   PrimFloat.is_finite (fmid a b) = true /\ PrimFloat.leb a (fmid a b) = true /\ PrimFloat.leb (fmid a b) b = true /\
   (PrimFloat.is_finite (PrimFloat.add a b) = true ->
      fmid a b = fmid_prefix a b /\
      FR (fmid a b) = RN (Rdefinitions.Rdiv (RN (Rdefinitions.Rplus (FR a) (FR b))) (Rdefinitions.IZR 2))) /\
   (PrimFloat.is_finite (PrimFloat.add a b) = false ->
      fmid a b = PrimFloat.add (PrimFloat.div a (Z2F 2)) (PrimFloat.div b (Z2F 2)) /\
      FR (fmid a b) = RN (Rdefinitions.Rdiv (Rdefinitions.Rplus (FR a) (FR b)) (Rdefinitions.IZR 2)))).
Proof. exact s_midpoint. Qed.
Print Assumptions C20_midpoint.

(* history: the pre-repair expression `(lvalue + rvalue) / 2` is false of the clause "a <= midpoint <= b": the largest
   double twice gave +infinity (percentile_sorted({DBL_MAX, DBL_MAX}, 50) = inf); the repaired code returns DBL_MAX *)
Theorem C20_midpoint_prefix_refuted : exists a b : PrimFloat.float,
  PrimFloat.is_finite a = true /\ PrimFloat.is_finite b = true /\ PrimFloat.leb a b = true /\
  fmid_prefix a b = PrimFloat.infinity /\ PrimFloat.leb (fmid_prefix a b) b = false /\
  fmid a b = a.
Proof. exact s_midpoint_prefix_refuted. Qed.
Print Assumptions C20_midpoint_prefix_refuted.

(* exact instances: `isfinite` is constantly true there (every integer / rational is finite), and for the rationals the
   two branches denote the same number anyway -- C20_percentile_exact / C20_median_all / C20_exact_mean are unaffected *)
Theorem C20_mid_branches_Q : forall (a b : Q) (t : bool), (mid_shape Q_ops t a b == (a + b) / 2)%Q.
Proof. exact s_mid_branches_Q. Qed.
Print Assumptions C20_mid_branches_Q.

(* the translated expressions of group pctpos mean what the model assumes.  Position: for every integer percentage
   the source's position expression with the double conversions erased IS the left index (a re-associated expression
   such as percentage / 100.0 * (size - 1) still translates and breaks this theorem) *)
Theorem C20_kernel_position : forall k n, 0 <= k <= 100 -> 1 <= n -> n - 1 <= 2 ^ 46 ->
  pct_lpos_src (Z2F k) n = src_pct_pos_int k n /\
  pct_rpos_src (Z2F k) n = src_pct_pos_int k n + (if Z.rem (k * (n - 1)) 100 =? 0 then 0 else 1).
Proof. exact s_kernel_position. Qed.
Print Assumptions C20_kernel_position.

(* indices: lpos is the cast of floor(position), rpos the cast of ceil(position) (not lpos + 1); the midpoint kernels
   (`lvalue + rvalue`; `std::isfinite(sum) ? (sum / 2) : (lvalue / 2 + rvalue / 2)` with the test as a boolean) are
   [mid_shape] of the integer instance, and [midpoint] of every instance is [mid_shape] on the instance's own
   finiteness test of the sum -- reverting the repair (or writing l + (r - l) / 2) breaks the anchor or this theorem *)
Theorem C20_kernel_indices : forall (p : PrimFloat.float) (n f c l a b : Z) (t : bool),
  src_pct_lpos f c = f /\ src_pct_rpos f c l = c /\
  pct_lpos_src p n = pct_lpos p n /\ pct_rpos_src p n = pct_rpos p n /\
  src_pct_mid a b (src_pct_sum a b) t = mid_shape Z_ops t a b /\
  (forall T (Op : ops T) (x y : T), midpoint Op x y = mid_shape Op (fin Op (add Op x y)) x y) /\
  midpoint Z_ops a b = Z.quot (a + b) 2 /\ fin Z_ops (a + b) = true /\ (forall q : Q, fin Q_ops q = true).
Proof. exact s_kernel_indices. Qed.
Print Assumptions C20_kernel_indices.

(* detail::percentile with a lazily generated array (the POS stage of the harness) is percentile_sorted *)
Theorem C20_percentile_fn : forall T (Op : ops T) (s : list T) (p : PrimFloat.float),
  percentile_fn Op (nthZ Op s) (Z.of_nat (length s)) p = percentile_sorted Op s p.
Proof. exact s_percentile_fn. Qed.
Print Assumptions C20_percentile_fn.

(* --- refuted (false of the faithful model, with witnesses) ------------------------------------------------ *)
(* the conjecture of the first round, C20_position_exact_full_statement, is false: p = 74151217 / 2^20, n = 1983666872 *)
Theorem C20_position_exact_full_refuted : ~ C20_position_exact_full_statement.
Proof. exact s_position_full_refuted. Qed.
Print Assumptions C20_position_exact_full_refuted.

(* beyond k (n-1) < 2^53 the right index can be wrong already for four values: p = fl(100/3), k (n-1) < 2^54 *)
Theorem C20_position_beyond_refuted : exists (p : PrimFloat.float) (k j n : Z),
  SFvalue_is (FloatOps.Prim2SF p) k (2 ^ j) = true /\ 0 <= k <= 100 * 2 ^ j /\ 0 <= j <= 1015 /\ 1 <= n <= 4 /\
  k * (n - 1) < 2 ^ 54 /\
  pct_lpos p n = ref_lpos k j n /\ pct_rpos p n <> ref_rpos k j n.
Proof. exact s_position_beyond_refuted. Qed.
Print Assumptions C20_position_beyond_refuted.

(* without j <= 1015 the quotient can underflow to 0: p = 2^-1074, two values *)
Theorem C20_position_underflow_refuted : exists (p : PrimFloat.float) (k j n : Z),
  SFvalue_is (FloatOps.Prim2SF p) k (2 ^ j) = true /\ 0 <= k <= 100 * 2 ^ j /\ 0 <= j <= 1074 /\ n = 2 /\
  k * (n - 1) < 2 ^ 53 /\
  pct_rpos p n = 0 /\ ref_rpos k j n = 1.
Proof. exact s_position_underflow_refuted. Qed.
Print Assumptions C20_position_underflow_refuted.

(* --- non-vacuity of the new hypotheses ---------------------------------------------------------------------- *)
(* 12.5% of 2^30 + 1 values: position 2^27 exactly; 37.5% of 6 values: between 1 and 2; both inside the side
   condition; pos_reference answers; integer percentage 30 with 11 values: position 3 *)
Example C20_nonvacuous_position :
  SFvalue_is (FloatOps.Prim2SF (grid_p 200)) 25 (2 ^ 1) = true /\ pos_side_ok 25 1 (2 ^ 30 + 1) = true /\
  pct_lpos (grid_p 200) (2 ^ 30 + 1) = 2 ^ 27 /\ pct_rpos (grid_p 200) (2 ^ 30 + 1) = 2 ^ 27 /\
  pos_reference (grid_p 600) 6 = Some (1, 2) /\
  pct_in_range (grid_p 600) = true /\ pct_le (grid_p 200) (grid_p 600) = true /\
  (0 <= 30 <= 100 /\ 1 <= 11 /\ 11 - 1 <= 2 ^ 46) /\ src_pct_pos_int 30 11 = 3 /\
  percentile_iota 6 (grid_p 600) = fmid (Z2F 1) (Z2F 2).
Proof. vm_compute. repeat split; try reflexivity; discriminate. Qed.

(* a list of 5 rationals with the dyadic percentage 37.5: position 1.5; the median of 6 values *)
Example C20_nonvacuous_percentile_exact :
  SFvalue_is (FloatOps.Prim2SF (grid_p 600)) 75 (2 ^ 1) = true /\ pos_side_ok 75 1 5 = true /\
  percentile Q_ops [9; 1; 7; 3; 5]%Q (grid_p 600) = ((3 + 5) / 2)%Q /\
  median Q_ops [6; 4; 1; 3; 2; 5]%Q = ((3 + 4) / 2)%Q /\ (1 <= 6)%nat /\ 6 - 1 < 2 ^ 47.
Proof. repeat split; try (vm_compute; reflexivity); repeat constructor. Qed.

(* midpoint: finite a <= b with a finite sum, and an overflowing pair (a = b = the largest double: now returned as is) *)
Example C20_nonvacuous_midpoint :
  PrimFloat.is_finite (Z2F 3) = true /\ PrimFloat.leb (Z2F 3) (Z2F 8) = true /\
  PrimFloat.is_finite (PrimFloat.add (Z2F 3) (Z2F 8)) = true /\ fmid (Z2F 3) (Z2F 8) = PrimFloat.div (Z2F 11) (Z2F 2) /\
  (let m := PrimFloat.next_down PrimFloat.infinity in
   PrimFloat.is_finite m = true /\ PrimFloat.leb m m = true /\ PrimFloat.is_finite (PrimFloat.add m m) = false /\
   fmid m m = m /\ fmid_prefix m m = PrimFloat.infinity /\
   PrimFloat.leb (PrimFloat.opp m) (fmid (PrimFloat.opp m) (PrimFloat.opp (PrimFloat.next_down m))) = true /\
   PrimFloat.leb (fmid (PrimFloat.opp m) (PrimFloat.opp (PrimFloat.next_down m))) (PrimFloat.opp (PrimFloat.next_down m)) = true).
Proof. vm_compute. repeat split; reflexivity. Qed.
