(* C20 -- Order statistics and histograms are consistent with a sorted-array reference.
   Only statements + `exact` + Print Assumptions live here.  Model: C20_Defs (kernels translated from
   include/nano/core/{stats,histogram}.h on every run); proofs: C20_Proofs.

   Every theorem is about the polymorphic model instantiated with ANY scalar operations [Op] whose
   three-way comparison is a total preorder ([order_ok Op]); Z_ops and Q_ops (exact integers and
   rationals: "every real v") are such instances (C20_nonvacuous_order).  The percentile position is
   computed in binary64 exactly as the code does. *)
(* Floats is deliberately not imported: Print Assumptions then prints the primitive operations with their
   module names (PrimFloat.mul, ...), which is what the axiom gate whitelists *)
From Coq Require Import List ZArith Bool Sorted Permutation QArith Qround.
From LNGen Require Import Src_pctile Src_histogram.
From LN Require Import C20_Defs C20_Proofs.
Import ListNotations.
Local Open Scope Z_scope.

(* --- the sorted-array reference ------------------------------------------------------------------- *)
(* the model's sort is a sorted permutation, and the element at index k is characterised by ranks alone:
   fewer than k+1 elements are smaller, at least k+1 are not larger -- so every correct std::sort /
   std::nth_element yields an equivalent element at that index *)
Theorem C20_order_statistic : forall T (Op : ops T), order_ok Op -> forall (l : list T) (d : T) (k : nat),
  (StronglySorted (le Op) (sort Op l) /\ Permutation (sort Op l) l) /\
  ((k < length l)%nat ->
     let x := nth k (sort Op l) d in
     In x l /\ (count_lt Op x l <= k)%nat /\ (k < count_le Op x l)%nat /\
     (forall y, (count_lt Op y l <= k)%nat -> (k < count_le Op y l)%nat -> equiv Op x y) /\
     (forall s', StronglySorted (le Op) s' -> Permutation s' l -> equiv Op (nth k s' d) x)).
Proof. exact s_order_statistic. Qed.
Print Assumptions C20_order_statistic.

(* percentile (unsorted variant) = the element of the sorted permutation at the binary64-computed position,
   or the midpoint of the two neighbours; the sorted variant agrees on sorted input *)
Theorem C20_percentile_spec : forall T (Op : ops T), order_ok Op -> forall (l : list T) (p : PrimFloat.float),
  let s := sort Op l in
  let n := Z.of_nat (length l) in
  let lp := pct_lpos p n in
  let rp := pct_rpos p n in
  (StronglySorted (le Op) s /\ Permutation s l /\
   percentile Op l p = (if lp =? rp then nthZ Op s lp else midpoint Op (nthZ Op s lp) (nthZ Op s rp))) /\
  (StronglySorted (le Op) l -> percentile_sorted Op l p = percentile Op l p).
Proof. exact s_percentile_spec. Qed.
Print Assumptions C20_percentile_spec.

(* the binary64 position agrees with the exact rational p*(n-1)/100: floor and ceiling.
   Full statement (every dyadic percentage, large n): NOT proved, searched by the harness' exact-integer
   oracle on every percentage that is a multiple of 2^-20. *)
Definition C20_position_exact_full_statement : Prop :=
  forall (p : PrimFloat.float) (num j n : Z),
    0 <= j <= 20 -> 0 <= num <= 100 * 2 ^ j -> SFvalue_is (FloatOps.Prim2SF p) num (2 ^ j) = true ->
    1 <= n <= 2 ^ 31 ->
    pct_lpos p n = (num * (n - 1)) / (100 * 2 ^ j) /\
    pct_rpos p n = - ((- (num * (n - 1))) / (100 * 2 ^ j)).

(* proved part: every percentage on the grid k/16 (k = 0..1600, includes 0, 100 and all integers) and every
   list length 1..512, exhaustively (kernel computation over the 819,712 cases, not sampling) *)
Theorem C20_position_exact_partial : forall k n, 0 <= k <= 1600 -> 1 <= n <= 512 ->
  SFvalue_is (FloatOps.Prim2SF (grid_p k)) k 16 = true /\
  pct_lpos (grid_p k) n = (k * (n - 1)) / 1600 /\
  pct_rpos (grid_p k) n = - ((- (k * (n - 1))) / 1600) /\
  0 <= pct_lpos (grid_p k) n <= pct_rpos (grid_p k) n /\ pct_rpos (grid_p k) n <= n - 1 /\
  pct_rpos (grid_p k) n <= pct_lpos (grid_p k) n + 1.
Proof. exact s_position_exact_partial. Qed.
Print Assumptions C20_position_exact_partial.

(* the property's formula on that grid: value at position k(n-1)/1600 of the sorted list, midpoint of the
   two neighbours when the position is fractional *)
Theorem C20_percentile_formula : forall T (Op : ops T), order_ok Op -> forall (l : list T) (k : Z),
  0 <= k <= 1600 -> (1 <= length l <= 512)%nat ->
  let s := sort Op l in
  let a := k * (Z.of_nat (length l) - 1) in
  percentile Op l (grid_p k) =
  if a mod 1600 =? 0 then nthZ Op s (a / 1600)
  else midpoint Op (nthZ Op s (a / 1600)) (nthZ Op s (a / 1600 + 1)).
Proof. exact s_percentile_formula. Qed.
Print Assumptions C20_percentile_formula.

Theorem C20_median : forall T (Op : ops T), order_ok Op -> forall (l : list T),
  (1 <= length l <= 4096)%nat ->
  let s := sort Op l in
  let n := Z.of_nat (length l) in
  median Op l =
  if Z.odd n then nthZ Op s ((n - 1) / 2)
  else midpoint Op (nthZ Op s (n / 2 - 1)) (nthZ Op s (n / 2)).
Proof. exact s_median. Qed.
Print Assumptions C20_median.

(* --- histograms ---------------------------------------------------------------------------------------- *)
(* for ANY thresholds (unsorted, duplicates, outside the data range): the bins partition the sorted values;
   bin b holds exactly the values with thr_{b-1} <= v < thr_b (= exactly the values with bin(v) = b); its count
   is the number of such values in the original list; and the stored (count, mean, median) are computed from
   precisely that list of values *)
Theorem C20_partition : forall T (Op : ops T), order_ok Op -> forall (thr vals : list T),
  let st := sort Op thr in
  let s := sort Op vals in
  let B := hist_bins Op st s in
  (StronglySorted (le Op) st /\ Permutation st thr) /\
  length B = S (length thr) /\
  concat B = s /\ Permutation (concat B) vals /\
  (forall b, (b <= length thr)%nat ->
     nth b B [] = filter (in_binb Op st b) s /\
     nth b B [] = filter (fun v => hist_bin Op st v =? Z.of_nat b) s /\
     length (nth b B []) = count (in_binb Op st b) vals) /\
  histogram Op thr vals = (st, map (bin_summary Op) B) /\
  (forall m, bin_summary Op m =
     (Z.of_nat (length m),
      if 0 <? Z.of_nat (length m) then mean_of Op m else nan Op,
      if 0 <? Z.of_nat (length m) then median_sorted Op m else nan Op)).
Proof. exact s_partition. Qed.
Print Assumptions C20_partition.

(* bin(v), for EVERY v of the scalar type (not only data values, not only integers): the bin the counting rule
   assigns, i.e. the unique b with thr_{b-1} <= v < thr_b *)
Theorem C20_bin_agrees : forall T (Op : ops T), order_ok Op -> forall (st : list T) (v : T),
  StronglySorted (le Op) st ->
  0 <= hist_bin Op st v <= Z.of_nat (length st) /\
  (forall b, (b <= length st)%nat -> (hist_bin Op st v = Z.of_nat b <-> in_binb Op st b v = true)) /\
  (forall thr vals, st = sort Op thr -> In v vals ->
     In v (nth (Z.to_nat (hist_bin Op st v)) (hist_bins Op st (sort Op vals)) [])).
Proof. exact s_bin_agrees. Qed.
Print Assumptions C20_bin_agrees.

(* with exact arithmetic the mean of a bin is the mean of the values of the original (unsorted) list that lie
   in the bin's interval *)
Theorem C20_exact_mean : forall (thr vals : list Q) (b : nat), (b <= length thr)%nat ->
  let st := sort Q_ops thr in
  let m := nth b (hist_bins Q_ops st (sort Q_ops vals)) [] in
  let m' := filter (in_binb Q_ops st b) vals in
  length m = length m' /\
  (mean_of Q_ops m == fold_left Qplus m' 0 / inject_Z (Z.of_nat (length m')))%Q.
Proof. exact s_exact_mean. Qed.
Print Assumptions C20_exact_mean.

(* the translated source expressions mean what the model assumes: the predicate handed to upper_bound is a
   pure order test (so evaluating it on the three-way comparison is faithful), bin() compares the query
   itself (no conversion), the last bin is bins-1 *)
Theorem C20_kernels : forall t v n,
  src_hist_goes_right t v = src_hist_goes_right 0 (zcmp v t) /\
  src_hist_goes_right t v = (t <=? v) /\
  src_bin_query v = v /\ src_bin_last (src_hist_bins n) = n /\ src_pct_last n = n - 1.
Proof. exact s_kernels. Qed.
Print Assumptions C20_kernels.

(* --- non-vacuity ------------------------------------------------------------------------------------------ *)
Example C20_nonvacuous_order : order_ok Z_ops /\ order_ok Q_ops.
Proof.
  split; split.
  - exact zcmp_antisym.
  - exact zcmp_trans.
  - exact qcmp_antisym.
  - exact qcmp_trans.
Qed.

(* thresholds {5, 2, 2} (unsorted, duplicate), values with ties and a negative one *)
Example C20_nonvacuous_histogram :
  histogram Z_ops [5; 2; 2] [1; 2; 3; 7; 5; 2; -4] =
    ([2; 2; 5], [(2, -1, -1); (0, 0, 0); (3, 2, 2); (2, 6, 6)]) /\
  map (hist_bin Z_ops [2; 2; 5]) [-4; 1; 2; 3; 4; 5; 7; 100] = [0; 0; 2; 2; 2; 3; 3; 3] /\
  in_binb Z_ops [2; 2; 5] 2 3 = true /\ in_binb Z_ops [2; 2; 5] 1 2 = false.
Proof. vm_compute. repeat split; reflexivity. Qed.

(* the pre-repair behaviour (query truncated to an integer) is different: thresholds {2.5}, query 2.7 *)
Example C20_truncated_query_differs :
  hist_bin Q_ops [5 # 2]%Q (27 # 10)%Q = 1 /\ hist_bin Q_ops [5 # 2]%Q (inject_Z (Qfloor (27 # 10))) = 0.
Proof. vm_compute. split; reflexivity. Qed.

(* 25% of five values is exactly position 1; 30% lies between positions 1 and 2; the median of 4 values *)
Example C20_nonvacuous_percentile :
  percentile Z_ops [9; 1; 7; 3; 5] (grid_p 400) = 3 /\
  pct_lpos (grid_p 480) 5 = 1 /\ pct_rpos (grid_p 480) 5 = 2 /\
  percentile Q_ops [9; 1; 7; 3; 5]%Q (grid_p 480) = ((3 + 5) / 2)%Q /\
  median Q_ops [4; 1; 3; 2]%Q = ((2 + 3) / 2)%Q /\
  (0 <= 480 <= 1600 /\ 1 <= 5 <= 512).
Proof. vm_compute. repeat split; try reflexivity; discriminate. Qed.
