(* C02 (extension) -- one complete solver body inside the model: the loop of the line-search solvers.

     src/solver/gd.cpp          state = {function, x0}; if done(state, true, gtest < eps) return state;
                                while (fcalls + gcalls < max_evals) { descent = -state.gx();
                                  iter_ok = lsearch.get(state, descent); converged = state.gradient_test() < epsilon;
                                  if (done(state, iter_ok, converged)) break; }  return state;
     src/solver/{cgd,lbfgs,quasi}.cpp   the same skeleton with `pstate = cstate` before the line search, a direction
                                computed by the solver (an ORACLE here) and `return cstate.valid() ? cstate : pstate`
     src/solver/lsearch.cpp     t0 = lsearch0->get(state, descent, last); {ok, t} = lsearchk->get(state, descent, t0); last = t

   composed from  C02_Defs (sstate, valid, gradient_test, done_step, eval_counters: the translated kernels of
   solver_t::done and function_t::vgrad)  and  C07_Defs.ls_get (lsearchk_t::get + the five line searches, bit-exact).

   Oracles (arbitrary functions; the theorems quantify over all of them):
     o_eval k x   the k-th evaluation of the objective (k = number of earlier evaluations of any kind), at the point x:
                  (f(x), g(x)). A deterministic objective ignores k; the replaying driver answers from the recording.
     o_dot g d    gx.dot(descent): an Eigen reduction, not bit-reproducible -> taken from the run (as the probe of C07)
     o_dir i c p  the descent direction of outer iteration i given cstate and pstate (cgd / lbfgs / quasi; gd computes
                  -gx itself: negation is exact)
     o_trial / o_t0   lsearch0_t::get: an optional VALUE-ONLY evaluation at x + s*d (lsearch0/cgdescent.cpp), then t0
   `x + t*d` is elementwise scalar code: bit-exact.   No proofs in this file. *)
From Coq Require Import ZArith List Bool Floats.
From LNGen Require Import Src_c02 Src_c02ls.
From LN Require Import C02_Defs.
From LN Require C07_Defs.
Import ListNotations.
Local Open Scope Z_scope.

Definition point := list float.

(* state0.x() + step_size * descent *)
Fixpoint axpy (x : point) (t : float) (d : point) : point :=
  match x, d with
  | xi :: x', di :: d' => PrimFloat.add xi (PrimFloat.mul t di) :: axpy x' t d'
  | _, _ => []
  end.

(* -state.gx() *)
Definition vneg (g : point) : point := map PrimFloat.opp g.

Record oracles := mkO {
  o_eval : Z -> point -> float * point;
  o_dot : point -> point -> float;
  o_dir : Z -> sstate -> sstate -> point;
  o_trial : Z -> float -> sstate -> point -> option float;
  o_t0 : Z -> float -> sstate -> point -> option float -> float
}.

(* the four solver bodies with this skeleton *)
Inductive body := BGd | BCgd | BLbfgs | BQuasi.

Definition loop_cond (b : body) : Z -> Z -> Z -> bool :=
  match b with BGd => src_loop_gd | BCgd => src_loop_cgd | BLbfgs => src_loop_lbfgs | BQuasi => src_loop_quasi end.

(* which state the final `return` hands back: true = (c)state, false = pstate.
   gd: `return state;`   others: `return cstate.valid() ? cstate : pstate;` (translated, 1 = cstate, 0 = pstate) *)
Definition ret_current (b : body) (valid_c : bool) : bool :=
  negb ((match b with
         | BGd => src_ret_gd
         | BCgd => src_ret_cgd valid_c
         | BLbfgs => src_ret_lbfgs valid_c
         | BQuasi => src_ret_quasi valid_c
         end) =? 0).

Record lsconf := mkLC {
  lc_body : body;
  lc_alg : C07_Defs.alg;          (* lsearchk *)
  lc_prm : C07_Defs.params;       (* its parameters (c1, c2 = solver::tolerance) *)
  lc_eps : float;                 (* solver::epsilon *)
  lc_maxev : Z                    (* solver::max_evals *)
}.

(* the run so far; lr_ok / lr_irreg / lr_exit / lr_iters are ghosts (never influence the states) *)
Record lsrun := mkLR {
  lr_c : sstate;                  (* (c)state *)
  lr_p : sstate;                  (* pstate *)
  lr_fc : Z; lr_gc : Z;           (* function.fcalls(), function.gcalls() *)
  lr_ne : Z;                      (* evaluations requested so far (index of the next oracle call) *)
  lr_last : float;                (* lsearch_t::m_last_step_size *)
  lr_iters : Z;                   (* line searches started *)
  lr_ok : bool;                   (* iter_ok handed to the most recent done() call *)
  lr_irreg : bool;                (* some line search reported success with an irregular step (see step_regular; never observed) *)
  lr_exit : Z                     (* 0 fuel exhausted, 1 loop condition false, 2 done() in the loop, 3 done() before the loop *)
}.

Definition EX_FUEL : Z := 0.
Definition EX_BUDGET : Z := 1.
Definition EX_DONE : Z := 2.
Definition EX_INIT : Z := 3.

Definition set_exit (r : lsrun) (e : Z) : lsrun :=
  mkLR (lr_c r) (lr_p r) (lr_fc r) (lr_gc r) (lr_ne r) (lr_last r) (lr_iters r) (lr_ok r) (lr_irreg r) e.

(* n evaluations: the counters of function_t::vgrad (translated) applied n times *)
Fixpoint bump (n : nat) (withg : bool) (fg : Z * Z) : Z * Z :=
  match n with
  | O => fg
  | S k => bump k withg (eval_counters (fst fg) (snd fg) withg)
  end.

(* an accepted step t is regular when it is not negative and the right-hand side of state.cpp's Armijo test,
   f0 + t * c1 * dg0, is a finite number (then t, c1, t * c1 and t * c1 * dg0 are finite too) *)
Definition step_regular (prm : C07_Defs.params) (p0 : C07_Defs.probe) (t : float) : bool :=
  negb (PrimFloat.ltb t PrimFloat.zero) &&
  PrimFloat.is_finite (PrimFloat.add (C07_Defs.pf p0) (PrimFloat.mul (PrimFloat.mul t (C07_Defs.c1 prm)) (C07_Defs.pg p0))).

Section Run.
  Variable orc : oracles.
  Variable cfg : lsconf.

  (* state.update(state0.x() + t * descent) seen by the line search: the answer of evaluation number ne + k *)
  Definition ls_probe (ne : Z) (c : sstate) (d : point) (k : Z) (t : float) : C07_Defs.probe :=
    let x := axpy (sx c) t d in
    let '(f, g) := o_eval orc (ne + k) x in
    C07_Defs.mkP (valid (set_point c x g f)) f (o_dot orc g d).

  (* the state object after lsearchk_t::get: untouched without a probe, else the evaluation at the last trial point
     (`cnt` = number of probes made, `trace` = the requested steps, most recent first: ghosts of C07's model) *)
  Definition ls_after (ne : Z) (c : sstate) (d : point) (s : C07_Defs.state) (fc gc : Z) : sstate :=
    match C07_Defs.trace s with
    | [] => c
    | t :: _ =>
      let x := axpy (sx c) t d in
      let '(f, g) := o_eval orc (ne + C07_Defs.cnt s - 1) x in
      set_calls (set_point c x g f) fc gc
    end.

  Definition direction (i : Z) (c p : sstate) : point :=
    match lc_body cfg with BGd => vneg (sgx c) | _ => o_dir orc i c p end.

  (* one pass through the loop body; returns the run and what done() returned *)
  Definition ls_iter (st : lsrun) : lsrun * bool :=
    let c := lr_c st in
    let i := lr_iters st in
    let d := direction i c (lr_p st) in
    (* lsearch0: optional value-only evaluation, then t0 *)
    let tr0 := o_trial orc i (lr_last st) c d in
    let n0 := match tr0 with Some _ => 1%nat | None => 0%nat end in
    let f0 := match tr0 with Some s => Some (fst (o_eval orc (lr_ne st) (axpy (sx c) s d))) | None => None end in
    let t0 := o_t0 orc i (lr_last st) c d f0 in
    let '(fc0, gc0) := bump n0 false (lr_fc st, lr_gc st) in
    let ne0 := lr_ne st + Z.of_nat n0 in
    (* lsearchk *)
    let p0 := C07_Defs.mkP (valid c) (sfx c) (o_dot orc (sgx c) d) in
    let r := C07_Defs.ls_get (ls_probe ne0 c d) (lc_prm cfg) p0 (lc_alg cfg) t0 in
    let n := Z.to_nat (C07_Defs.cnt (C07_Defs.rs r)) in
    let '(fc1, gc1) := bump n true (fc0, gc0) in
    let c1 := ls_after ne0 c d (C07_Defs.rs r) fc1 gc1 in
    let conv := PrimFloat.ltb (gradient_test c1) (lc_eps cfg) in
    let '(c2, stop) := done_step c1 fc1 gc1 (C07_Defs.ok r) conv in
    (mkLR c2 c fc1 gc1 (ne0 + Z.of_nat n) (C07_Defs.rt r) (i + 1) (C07_Defs.ok r)
          (lr_irreg st || (C07_Defs.ok r && negb (step_regular (lc_prm cfg) p0 (C07_Defs.rt r)))) (lr_exit st), stop).

  Fixpoint ls_loop (fuel : nat) (st : lsrun) : lsrun :=
    match fuel with
    | O => set_exit st EX_FUEL
    | S k =>
      if loop_cond (lc_body cfg) (lr_fc st) (lr_gc st) (lc_maxev cfg) then
        let '(st', stop) := ls_iter st in
        if stop then set_exit st' EX_DONE else ls_loop k st'
      else set_exit st EX_BUDGET
    end.

  (* solver_state_t{function, x0} after function.clear_statistics(), then the first done() *)
  Definition ls_init (x0 : point) : lsrun * bool :=
    let '(f, g) := o_eval orc 0 x0 in
    let '(fc, gc) := eval_counters 0 0 true in
    let c := mkS x0 f g true ST_MAX_ITERS fc gc [] in
    let conv := PrimFloat.ltb (gradient_test c) (lc_eps cfg) in
    let '(c', stop) := done_step c fc gc true conv in
    (mkLR c' c' fc gc 1 (-1)%float 0 true false EX_INIT, stop).

  Definition ls_solver_run (fuel : nat) (x0 : point) : lsrun :=
    let '(st, stop) := ls_init x0 in
    if stop then st else ls_loop fuel st.

  (* the state do_minimize returns *)
  Definition ls_result (r : lsrun) : sstate :=
    if lr_exit r =? EX_INIT then lr_c r
    else if ret_current (lc_body cfg) (valid (lr_c r)) then lr_c r else lr_p r.

  (* enough fuel for every run: each pass that does not stop adds at least 2 to fcalls + gcalls *)
  Definition ls_fuel : nat := S (Z.to_nat (lc_maxev cfg)).

  Definition ls_minimize (x0 : point) : sstate := ls_result (ls_solver_run ls_fuel x0).
End Run.

(* Armijo-type searches: their success carries state.cpp's has_armijo on the returned step *)
Definition armijo_type (a : C07_Defs.alg) : bool :=
  match a with C07_Defs.Backtrack | C07_Defs.Lemarechal | C07_Defs.Fletcher => true | _ => false end.

(* helpers for the driver *)
Definition body_of_Z (z : Z) : body :=
  if z =? 0 then BGd else if z =? 1 then BCgd else if z =? 2 then BLbfgs else BQuasi.
