(* C14 -- proofs about the model of C14_Defs.v (exact rationals). *)
From Coq Require Import List ZArith QArith Qfield Bool Lia Lqa Setoid Morphisms.
From LNGen Require Import Src_dstats.
From LN Require Import ListAux C14_Defs.
Import ListNotations.
Local Open Scope Q_scope.

(* ------------------------------------------------------------------------------------------------ *)
(* comparisons                                                                                      *)
(* ------------------------------------------------------------------------------------------------ *)
Lemma qlt_true : forall a b, qlt a b = true <-> a < b.
Proof.
  intros a b. unfold qlt. rewrite negb_true_iff. split; intro H.
  - apply Qnot_le_lt. intro L. apply Qle_bool_iff in L. congruence.
  - destruct (Qle_bool b a) eqn:E; [|reflexivity]. apply Qle_bool_iff in E.
    exfalso. apply (Qlt_not_le _ _ H E).
Qed.

Lemma qlt_false : forall a b, qlt a b = false <-> b <= a.
Proof.
  intros a b. unfold qlt. rewrite negb_false_iff. apply Qle_bool_iff.
Qed.

Lemma qmax_cases : forall a b, (a < b /\ qmax a b = b) \/ (b <= a /\ qmax a b = a).
Proof.
  intros a b. unfold qmax. destruct (qlt a b) eqn:E.
  - left. split; [apply qlt_true; exact E | reflexivity].
  - right. split; [apply qlt_false; exact E | reflexivity].
Qed.

Lemma qmin_cases : forall a b, (b < a /\ qmin a b = b) \/ (a <= b /\ qmin a b = a).
Proof.
  intros a b. unfold qmin. destruct (qlt b a) eqn:E.
  - left. split; [apply qlt_true; exact E | reflexivity].
  - right. split; [apply qlt_false; exact E | reflexivity].
Qed.

Lemma qmax_ge_l : forall a b, a <= qmax a b.
Proof. intros a b. destruct (qmax_cases a b) as [[H E]|[H E]]; rewrite E; [apply Qlt_le_weak; exact H | apply Qle_refl]. Qed.

Lemma qmax_ge_r : forall a b, b <= qmax a b.
Proof. intros a b. destruct (qmax_cases a b) as [[H E]|[H E]]; rewrite E; [apply Qle_refl | exact H]. Qed.

Lemma qmin_le_l : forall a b, qmin a b <= a.
Proof. intros a b. destruct (qmin_cases a b) as [[H E]|[H E]]; rewrite E; [apply Qlt_le_weak; exact H | apply Qle_refl]. Qed.

Lemma qmin_le_r : forall a b, qmin a b <= b.
Proof. intros a b. destruct (qmin_cases a b) as [[H E]|[H E]]; rewrite E; [apply Qle_refl | exact H]. Qed.

Lemma qmax_pos : forall a eps, 0 < eps -> 0 < qmax a eps.
Proof. intros a eps H. apply Qlt_le_trans with eps; [exact H | apply qmax_ge_r]. Qed.

Lemma qmax_nz : forall a eps, 0 < eps -> ~ qmax a eps == 0.
Proof. intros a eps H E. pose proof (qmax_pos a eps H) as P. rewrite E in P. apply (Qlt_irrefl 0 P). Qed.

(* ------------------------------------------------------------------------------------------------ *)
(* well-formed statistics: the (de)normalisers are inverse to each other                             *)
(* ------------------------------------------------------------------------------------------------ *)
Definition stats_wf (s : stats) : Prop :=
  s_div_range s * s_mul_range s == 1 /\ s_div_stdev s * s_mul_stdev s == 1 /\
  0 < s_mul_range s /\ 0 < s_mul_stdev s.

Lemma stats_off_wf : forall n, stats_wf (stats_off n).
Proof. intro n. unfold stats_wf, stats_off; simpl. repeat split; reflexivity. Qed.

Lemma done1_wf : forall eps sd i esize eflag a, 0 < eps -> stats_wf (done1 eps sd i esize eflag a).
Proof.
  intros eps sd i esize eflag a He. unfold done1.
  destruct (src_c14_disabled i esize eflag); [apply stats_off_wf|].
  destruct (src_c14_many (a_n a)).
  - unfold stats_wf; simpl.
    pose proof (qmax_nz (a_max a - a_min a) eps He) as N1.
    pose proof (qmax_nz sd eps He) as N2.
    repeat split.
    + field. exact N1.
    + field. exact N2.
    + apply qmax_pos; exact He.
    + apply qmax_pos; exact He.
  - destruct (src_c14_none (a_n a)); unfold stats_wf; simpl; repeat split; reflexivity.
Qed.

(* ------------------------------------------------------------------------------------------------ *)
(* round trip                                                                                       *)
(* ------------------------------------------------------------------------------------------------ *)
Lemma roundtrip_wf : forall m s x, stats_wf s -> upscale1 m s (scale1 m s (Some x)) == x.
Proof.
  intros m s x (Hr & Hs & _ & _). destruct m; simpl.
  - reflexivity.
  - setoid_replace (s_mean s + (x - s_mean s) * s_div_range s * s_mul_range s)
      with (s_mean s + (x - s_mean s) * (s_div_range s * s_mul_range s)) by ring.
    rewrite Hr. ring.
  - setoid_replace (s_min s + (x - s_min s) * s_div_range s * s_mul_range s)
      with (s_min s + (x - s_min s) * (s_div_range s * s_mul_range s)) by ring.
    rewrite Hr. ring.
  - setoid_replace (s_mean s + (x - s_mean s) * s_div_stdev s * s_mul_stdev s)
      with (s_mean s + (x - s_mean s) * (s_div_stdev s * s_mul_stdev s)) by ring.
    rewrite Hs. ring.
Qed.

Lemma roundtrip : forall eps sd i esize eflag a m x, 0 < eps ->
  let s := done1 eps sd i esize eflag a in upscale1 m s (scale1 m s (Some x)) == x.
Proof. intros. apply roundtrip_wf. apply done1_wf. assumption. Qed.

(* ------------------------------------------------------------------------------------------------ *)
(* the translated guards say what the model assumes (a changed guard breaks these lemmas)            *)
(* ------------------------------------------------------------------------------------------------ *)
Lemma many_spec : forall N, src_c14_many N = true <-> (N > 1)%Z.
Proof. intro N. unfold src_c14_many. rewrite Z.gtb_lt. lia. Qed.

Lemma none_spec : forall N, src_c14_none N = true <-> N = 0%Z.
Proof. intro N. unfold src_c14_none. apply Z.eqb_eq. Qed.

Lemma count_inc_spec : src_c14_count_inc = 1%Z.
Proof. reflexivity. Qed.

Lemma disabled_spec : forall i esize eflag,
  src_c14_disabled i esize eflag = true <-> (i < esize)%Z /\ eflag = 0%Z.
Proof.
  intros i esize eflag. unfold src_c14_disabled. rewrite andb_true_iff, Z.ltb_lt, Z.eqb_eq. tauto.
Qed.

(* categorical columns (sclass / mclass features, categorical targets) get flag 0 = disabled, the others flag 1 *)
Lemma flags_spec : forall i esize, (0 <= i < esize)%Z ->
  (forall s m, src_c14_isclass s m = true ->
     src_c14_disabled i esize (src_c14_flatten_flag (src_c14_isclass s m)) = true) /\
  (forall s m, src_c14_isclass s m = false ->
     src_c14_disabled i esize (src_c14_flatten_flag (src_c14_isclass s m)) = false) /\
  (forall s m, src_c14_isclass s m = true <-> s = true \/ m = true) /\
  (forall s m, src_c14_target_isclass s m = true <-> s = true \/ m = true) /\
  src_c14_disabled i esize src_c14_target_flag_class = true /\
  src_c14_disabled i esize src_c14_target_flag_cont = false /\
  src_c14_disabled i esize src_c14_feature_flag = false.
Proof.
  intros i esize Hi.
  assert (L : (i <? esize)%Z = true) by (apply Z.ltb_lt; lia).
  repeat split.
  - intros s m H. rewrite H. unfold src_c14_disabled, src_c14_flatten_flag. rewrite L. reflexivity.
  - intros s m H. rewrite H. unfold src_c14_disabled, src_c14_flatten_flag. rewrite L. reflexivity.
  - unfold src_c14_isclass. intro H. apply orb_true_iff in H. exact H.
  - unfold src_c14_isclass. intro H. apply orb_true_iff. exact H.
  - unfold src_c14_target_isclass. intro H. apply orb_true_iff in H. exact H.
  - unfold src_c14_target_isclass. intro H. apply orb_true_iff. exact H.
  - unfold src_c14_disabled, src_c14_target_flag_class. rewrite L. reflexivity.
  - unfold src_c14_disabled, src_c14_target_flag_cont. rewrite L. reflexivity.
  - unfold src_c14_disabled, src_c14_feature_flag. rewrite L. reflexivity.
Qed.

(* ------------------------------------------------------------------------------------------------ *)
(* categorical columns are never rescaled                                                           *)
(* ------------------------------------------------------------------------------------------------ *)
Lemma disabled_identity : forall eps sd i esize eflag a m x y,
  src_c14_disabled i esize eflag = true ->
  let s := done1 eps sd i esize eflag a in
  s = stats_off (a_n a) /\ scale1 m s (Some x) == x /\ upscale1 m s y == y.
Proof.
  intros eps sd i esize eflag a m x y H s. subst s. unfold done1. rewrite H.
  split; [reflexivity|]. split; destruct m; simpl; ring.
Qed.

(* ------------------------------------------------------------------------------------------------ *)
(* missing entries do not affect the statistics and are scaled to zero                               *)
(* ------------------------------------------------------------------------------------------------ *)
Lemma accumulate_finite : forall col a, accumulate a col = accumulate a (map Some (finite col)).
Proof.
  induction col as [|v r IH]; intro a; [reflexivity|].
  destruct v as [x|]; simpl.
  - unfold accumulate in *. simpl. apply IH.
  - unfold accumulate in *. simpl. apply IH.
Qed.

Lemma accumulate_app : forall l1 l2 a, accumulate a (l1 ++ l2) = accumulate (accumulate a l1) l2.
Proof. intros. unfold accumulate. apply fold_left_app. Qed.

Lemma finite_app : forall l1 l2, finite (l1 ++ l2) = finite l1 ++ finite l2.
Proof.
  induction l1 as [|v r IH]; intro l2; [reflexivity|]. destruct v; simpl; rewrite IH; reflexivity.
Qed.

Lemma finite_map_Some : forall l, finite (map Some l) = l.
Proof. induction l as [|x r IH]; simpl; [reflexivity | rewrite IH; reflexivity]. Qed.

Lemma missing_ignored : forall eps big sd eflag l1 l2 m s,
  col_stats eps big sd eflag (l1 ++ None :: l2) = col_stats eps big sd eflag (l1 ++ l2) /\
  col_stats eps big sd eflag l1 = col_stats eps big sd eflag (map Some (finite l1)) /\
  scale1 m s None = 0.
Proof.
  intros. unfold col_stats. repeat split.
  - rewrite !accumulate_app. reflexivity.
  - rewrite <- accumulate_finite. reflexivity.
Qed.

(* ------------------------------------------------------------------------------------------------ *)
(* what the accumulator holds                                                                       *)
(* ------------------------------------------------------------------------------------------------ *)
Fixpoint qsum (l : list Q) : Q := match l with [] => 0 | x :: r => x + qsum r end.
Definition qn (l : list Q) : Q := inject_Z (Z.of_nat (length l)).
Definition sq (x : Q) : Q := x * x.

Lemma acc_n : forall col a, a_n (accumulate a col) = (a_n a + Z.of_nat (length (finite col)))%Z.
Proof.
  induction col as [|v r IH]; intro a.
  - simpl. lia.
  - destruct v as [x|]; unfold accumulate in *; simpl fold_left; rewrite IH.
    + simpl a_n. rewrite count_inc_spec. simpl length. lia.
    + reflexivity.
Qed.

Lemma acc_sum : forall col a, a_sum (accumulate a col) == a_sum a + qsum (finite col).
Proof.
  induction col as [|v r IH]; intro a.
  - simpl. ring.
  - destruct v as [x|]; unfold accumulate in *; simpl fold_left; rewrite IH.
    + simpl. ring.
    + reflexivity.
Qed.

Lemma acc_sq : forall col a, a_sq (accumulate a col) == a_sq a + qsum (map sq (finite col)).
Proof.
  induction col as [|v r IH]; intro a.
  - simpl. ring.
  - destruct v as [x|]; unfold accumulate in *; simpl fold_left; rewrite IH.
    + simpl. unfold sq. ring.
    + reflexivity.
Qed.

Lemma acc_min_init : forall col a, a_min (accumulate a col) <= a_min a.
Proof.
  induction col as [|v r IH]; intro a; [apply Qle_refl|].
  destruct v as [x|]; unfold accumulate in *; simpl fold_left.
  - eapply Qle_trans; [apply IH|]. simpl. apply qmin_le_l.
  - apply IH.
Qed.

Lemma acc_max_init : forall col a, a_max a <= a_max (accumulate a col).
Proof.
  induction col as [|v r IH]; intro a; [apply Qle_refl|].
  destruct v as [x|]; unfold accumulate in *; simpl fold_left.
  - eapply Qle_trans; [|apply IH]. simpl. apply qmax_ge_l.
  - apply IH.
Qed.

Lemma acc_min_le : forall col a x, In x (finite col) -> a_min (accumulate a col) <= x.
Proof.
  induction col as [|v r IH]; intros a x H; [contradiction|].
  destruct v as [y|]; unfold accumulate in *; simpl fold_left.
  - simpl in H. destruct H as [E|H].
    + subst y. eapply Qle_trans; [apply (acc_min_init r)|]. simpl. apply qmin_le_r.
    + apply IH. exact H.
  - apply IH. exact H.
Qed.

Lemma acc_max_ge : forall col a x, In x (finite col) -> x <= a_max (accumulate a col).
Proof.
  induction col as [|v r IH]; intros a x H; [contradiction|].
  destruct v as [y|]; unfold accumulate in *; simpl fold_left.
  - simpl in H. destruct H as [E|H].
    + subst y. eapply Qle_trans; [|apply (acc_max_init r)]. simpl. apply qmax_ge_r.
    + apply IH. exact H.
  - apply IH. exact H.
Qed.

(* the minimum / maximum is the initial value or one of the entries *)
Lemma accumulate_cons : forall a v r, accumulate a (v :: r) = accumulate (update1 a v) r.
Proof. reflexivity. Qed.

Lemma acc_min_in : forall col a, a_min (accumulate a col) = a_min a \/ In (a_min (accumulate a col)) (finite col).
Proof.
  induction col as [|v r IH]; intro a; [left; reflexivity|].
  rewrite accumulate_cons. destruct (IH (update1 a v)) as [E|I].
  - rewrite E. destruct v as [y|]; [|left; reflexivity].
    simpl a_min. destruct (qmin_cases (a_min a) y) as [[_ Q]|[_ Q]]; rewrite Q.
    + right. simpl. left. reflexivity.
    + left. reflexivity.
  - right. destruct v as [y|]; simpl; [right|]; exact I.
Qed.

Lemma acc_max_in : forall col a, a_max (accumulate a col) = a_max a \/ In (a_max (accumulate a col)) (finite col).
Proof.
  induction col as [|v r IH]; intro a; [left; reflexivity|].
  rewrite accumulate_cons. destruct (IH (update1 a v)) as [E|I].
  - rewrite E. destruct v as [y|]; [|left; reflexivity].
    simpl a_max. destruct (qmax_cases (a_max a) y) as [[_ Q]|[_ Q]]; rewrite Q.
    + right. simpl. left. reflexivity.
    + left. reflexivity.
  - right. destruct v as [y|]; simpl; [right|]; exact I.
Qed.

Definition bounded (big : Q) (l : list Q) : Prop := Forall (fun x => - big <= x <= big) l.

(* with entries in [-big, big] (big = the initial min, -big the initial max) the extremes are attained *)
Lemma acc_min_attained : forall big col, bounded big (finite col) -> finite col <> [] ->
  exists x, In x (finite col) /\ x == a_min (accumulate (acc0 big) col).
Proof.
  intros big col B NE. destruct (acc_min_in col (acc0 big)) as [E|I].
  - destruct (finite col) as [|x r] eqn:F; [contradiction|]. exists x. split; [left; reflexivity|].
    assert (Ix : In x (finite col)) by (rewrite F; left; reflexivity).
    pose proof (acc_min_le col (acc0 big) x Ix) as L. rewrite E in *. simpl in *.
    inversion B as [|? ? [_ U] _]; subst. apply Qle_antisym; assumption.
  - eexists. split; [exact I | reflexivity].
Qed.

Lemma acc_max_attained : forall big col, bounded big (finite col) -> finite col <> [] ->
  exists x, In x (finite col) /\ x == a_max (accumulate (acc0 big) col).
Proof.
  intros big col B NE. destruct (acc_max_in col (acc0 big)) as [E|I].
  - destruct (finite col) as [|x r] eqn:F; [contradiction|]. exists x. split; [left; reflexivity|].
    assert (Ix : In x (finite col)) by (rewrite F; left; reflexivity).
    pose proof (acc_max_ge col (acc0 big) x Ix) as L. rewrite E in *. simpl in *.
    inversion B as [|? ? [U _] _]; subst. apply Qle_antisym; assumption.
  - eexists. split; [exact I | reflexivity].
Qed.

(* ------------------------------------------------------------------------------------------------ *)
(* the three shapes of the statistics of an enabled column                                           *)
(* ------------------------------------------------------------------------------------------------ *)
Lemma enabled_flag : src_c14_disabled 0 1 1 = false.
Proof. reflexivity. Qed.

Lemma acc0_n : forall big col, a_n (accumulate (acc0 big) col) = Z.of_nat (length (finite col)).
Proof. intros. rewrite acc_n. simpl. reflexivity. Qed.

Lemma acc0_sum : forall big col, a_sum (accumulate (acc0 big) col) == qsum (finite col).
Proof. intros. rewrite acc_sum. simpl. ring. Qed.

Lemma acc0_sq : forall big col, a_sq (accumulate (acc0 big) col) == qsum (map sq (finite col)).
Proof. intros. rewrite acc_sq. simpl. ring. Qed.

Lemma col_stats_cases : forall eps big sd col,
  let a := accumulate (acc0 big) col in
  let n := length (finite col) in
  ((n > 1)%nat /\ col_stats eps big sd 1 col =
     mkstats (a_n a) (a_min a) (a_max a) (a_sum a / inject_Z (a_n a)) sd
             (1 / qmax (a_max a - a_min a) eps) (qmax (a_max a - a_min a) eps) (1 / qmax sd eps) (qmax sd eps)) \/
  (n = 1%nat /\ col_stats eps big sd 1 col = mkstats (a_n a) (a_min a) (a_max a) (a_sum a) 0 1 1 1 1) \/
  (n = 0%nat /\ col_stats eps big sd 1 col = mkstats (a_n a) 0 0 0 0 1 1 1 1).
Proof.
  intros eps big sd col a n. unfold col_stats, done1. rewrite enabled_flag. fold a.
  assert (Hn : a_n a = Z.of_nat n) by apply acc0_n.
  destruct (src_c14_many (a_n a)) eqn:M.
  - left. apply many_spec in M. split; [lia | reflexivity].
  - right. assert (~ (a_n a > 1)%Z) as NM by (intro H; apply many_spec in H; congruence).
    destruct (src_c14_none (a_n a)) eqn:Z0.
    + right. apply none_spec in Z0. split; [lia | reflexivity].
    + left. assert (a_n a <> 0%Z) as NZ by (intro H; apply none_spec in H; congruence).
      split; [lia | reflexivity].
Qed.

Lemma qn_cons : forall x l, qn (x :: l) == 1 + qn l.
Proof.
  intros. unfold qn. simpl length. rewrite Nat2Z.inj_succ. unfold Z.succ. rewrite inject_Z_plus. ring.
Qed.

Lemma qn_nil : qn [] == 0.
Proof. reflexivity. Qed.

Lemma qn_nonneg : forall l, 0 <= qn l.
Proof. intro l. unfold qn. change 0 with (inject_Z 0). rewrite <- Zle_Qle. lia. Qed.

Lemma qn_gt1 : forall l, (length l > 1)%nat -> 1 < qn l.
Proof. intros l H. unfold qn. change 1 with (inject_Z 1). rewrite <- Zlt_Qlt. lia. Qed.

(* ------------------------------------------------------------------------------------------------ *)
(* min-max scaling: range [0, 1], attained                                                          *)
(* ------------------------------------------------------------------------------------------------ *)
Lemma minmax_range : forall eps big sd col x, 0 < eps -> bounded big (finite col) -> In x (finite col) ->
  let s := col_stats eps big sd 1 col in 0 <= scale1 MMinMax s (Some x) <= 1.
Proof.
  intros eps big sd col x He B Ix s. subst s.
  pose proof (acc_min_le col (acc0 big) x Ix) as Lmin.
  pose proof (acc_max_ge col (acc0 big) x Ix) as Lmax.
  destruct (col_stats_cases eps big sd col) as [[Hn E]|[[Hn E]|[Hn E]]]; rewrite E; simpl; clear E.
  - set (a := accumulate (acc0 big) col) in *.
    pose proof (qmax_pos (a_max a - a_min a) eps He) as P.
    pose proof (qmax_ge_l (a_max a - a_min a) eps) as G.
    set (M := qmax (a_max a - a_min a) eps) in *.
    setoid_replace ((x - a_min a) * (1 / M)) with ((x - a_min a) / M) by (field; intro Z; rewrite Z in P; apply (Qlt_irrefl 0 P)).
    split.
    + apply Qle_shift_div_l; [exact P|]. lra.
    + apply Qle_shift_div_r; [exact P|]. lra.
  - destruct (acc_min_attained big col B) as [y [Iy Ey]].
    + intro F. rewrite F in Hn. discriminate.
    + destruct (finite col) as [|x0 [|x1 r]] eqn:F; try discriminate.
      simpl in Ix, Iy. destruct Ix as [Ix|[]]. destruct Iy as [Iy|[]]. subst x0. subst y.
      rewrite <- Ey. split; lra.
  - destruct (finite col); [contradiction | discriminate].
Qed.

Lemma minmax_attained : forall eps big sd col, 0 < eps -> bounded big (finite col) ->
  (length (finite col) > 1)%nat ->
  let s := col_stats eps big sd 1 col in
  eps <= s_max s - s_min s ->
  exists lo hi, In lo (finite col) /\ In hi (finite col) /\
    scale1 MMinMax s (Some lo) == 0 /\ scale1 MMinMax s (Some hi) == 1.
Proof.
  intros eps big sd col He B Hn s. subst s.
  assert (NE : finite col <> []) by (intro F; rewrite F in Hn; simpl in Hn; lia).
  destruct (acc_min_attained big col B NE) as [lo [Ilo Elo]].
  destruct (acc_max_attained big col B NE) as [hi [Ihi Ehi]].
  destruct (col_stats_cases eps big sd col) as [[_ E]|[[Hn1 _]|[Hn0 _]]]; [|lia|lia].
  rewrite E; simpl; clear E. intro R.
  set (a := accumulate (acc0 big) col) in *.
  exists lo, hi. repeat split; try assumption.
  - rewrite Elo. ring.
  - destruct (qmax_cases (a_max a - a_min a) eps) as [[L _]|[_ Q]].
    + exfalso. apply (Qlt_irrefl eps). eapply Qle_lt_trans; [exact R | exact L].
    + rewrite Q. rewrite Ehi. field. intro Z. rewrite Z in R. apply (Qlt_irrefl 0). eapply Qlt_le_trans; [exact He | exact R].
Qed.

(* ------------------------------------------------------------------------------------------------ *)
(* mean / standard scaling: the scaled column sums to zero                                           *)
(* ------------------------------------------------------------------------------------------------ *)
Definition offset (m : mode) (s : stats) : Q :=
  match m with MNone => 0 | MMinMax => s_min s | _ => s_mean s end.

Lemma scale1_offset : forall m s x, scale1 m s (Some x) == (x - offset m s) * scaling_w m s.
Proof. intros. destruct m; simpl; ring. Qed.

Lemma scale1_affine : forall m s x, scale1 m s (Some x) == scaling_w m s * x + scaling_b m s.
Proof. intros. destruct m; simpl; ring. Qed.

Lemma qsum_scaled : forall m s col,
  qsum (map (scale1 m s) col) == (qsum (finite col) - qn (finite col) * offset m s) * scaling_w m s.
Proof.
  intros m s. induction col as [|v r IH].
  - simpl. rewrite qn_nil. ring.
  - destruct v as [x|].
    + change (qsum (map (scale1 m s) (Some x :: r))) with (scale1 m s (Some x) + qsum (map (scale1 m s) r)).
      change (finite (Some x :: r)) with (x :: finite r).
      rewrite IH, scale1_offset, qn_cons. simpl qsum. ring.
    + change (qsum (map (scale1 m s) (None :: r))) with (0 + qsum (map (scale1 m s) r)).
      change (finite (None :: r)) with (finite r).
      rewrite IH. ring.
Qed.

Lemma zero_mean : forall eps big sd col m, 0 < eps -> m = MMean \/ m = MStandard ->
  let s := col_stats eps big sd 1 col in qsum (map (scale1 m s) col) == 0.
Proof.
  intros eps big sd col m He Hm s. subst s. rewrite qsum_scaled.
  assert (O : forall s, offset m s = s_mean s) by (intro s; destruct Hm; subst m; reflexivity).
  rewrite O.
  destruct (col_stats_cases eps big sd col) as [[Hn E]|[[Hn E]|[Hn E]]]; rewrite E; cbn [s_mean]; clear E;
    match goal with |- context [scaling_w m ?r] => generalize (scaling_w m r); intro w end.
  - rewrite acc0_sum, acc0_n. fold (qn (finite col)).
    pose proof (qn_gt1 _ Hn) as G.
    setoid_replace (qsum (finite col) - qn (finite col) * (qsum (finite col) / qn (finite col))) with 0.
    + ring.
    + field. intro Z. rewrite Z in G. lra.
  - rewrite acc0_sum. destruct (finite col) as [|x0 [|x1 r]]; try discriminate.
    rewrite qn_cons, qn_nil. simpl qsum. ring.
  - destruct (finite col); [|discriminate]. rewrite qn_nil. simpl qsum. ring.
Qed.

(* ------------------------------------------------------------------------------------------------ *)
(* the one-pass variance is non-negative in exact arithmetic (so the clamp at 0 is an identity)       *)
(* ------------------------------------------------------------------------------------------------ *)
Lemma qsum_shift_sq : forall l c,
  qsum (map (fun y => sq (y - c)) l) == qsum (map sq l) - 2 * c * qsum l + qn l * c * c.
Proof.
  induction l as [|x r IH]; intro c.
  - simpl. rewrite qn_nil. ring.
  - change (qsum (map (fun y => sq (y - c)) (x :: r))) with (sq (x - c) + qsum (map (fun y => sq (y - c)) r)).
    change (qsum (map sq (x :: r))) with (sq x + qsum (map sq r)).
    change (qsum (x :: r)) with (x + qsum r).
    rewrite IH, qn_cons. unfold sq. ring.
Qed.

Lemma sq_nonneg : forall x, 0 <= sq x.
Proof.
  intro x. unfold sq. destruct (Qlt_le_dec x 0) as [N|P].
  - setoid_replace (x * x) with ((- x) * (- x)) by ring. apply Qmult_le_0_compat; lra.
  - apply Qmult_le_0_compat; assumption.
Qed.

Lemma qsum_sq_nonneg : forall l c, 0 <= qsum (map (fun y => sq (y - c)) l).
Proof.
  induction l as [|x r IH]; intro c; [apply Qle_refl|].
  change (qsum (map (fun y => sq (y - c)) (x :: r))) with (sq (x - c) + qsum (map (fun y => sq (y - c)) r)).
  pose proof (sq_nonneg (x - c)). pose proof (IH c). lra.
Qed.

Lemma cauchy : forall l, 0 <= qn l * qsum (map sq l) - qsum l * qsum l.
Proof.
  induction l as [|x r IH].
  - simpl. rewrite qn_nil. lra.
  - change (qsum (map sq (x :: r))) with (sq x + qsum (map sq r)).
    change (qsum (x :: r)) with (x + qsum r).
    rewrite qn_cons.
    pose proof (qsum_sq_nonneg r x) as H. rewrite qsum_shift_sq in H.
    setoid_replace ((1 + qn r) * (sq x + qsum (map sq r)) - (x + qsum r) * (x + qsum r))
      with ((qn r * qsum (map sq r) - qsum r * qsum r) + (qsum (map sq r) - 2 * x * qsum r + qn r * x * x))
      by (unfold sq; ring).
    lra.
Qed.

Lemma var_of_eq : forall a, var_of a ==
  (a_sq a - a_sum a * a_sum a / inject_Z (a_n a)) / (inject_Z (a_n a) - 1).
Proof. intro a. unfold var_of. reflexivity. Qed.

Lemma var_acc0 : forall big col,
  var_of (accumulate (acc0 big) col) ==
  (qsum (map sq (finite col)) - qsum (finite col) * qsum (finite col) / qn (finite col)) / (qn (finite col) - 1).
Proof.
  intros. rewrite var_of_eq, acc0_sq, acc0_sum, acc0_n. reflexivity.
Qed.

Lemma variance_nonneg : forall big col, (length (finite col) > 1)%nat ->
  0 <= var_of (accumulate (acc0 big) col).
Proof.
  intros big col Hn. rewrite var_acc0.
  pose proof (qn_gt1 _ Hn) as G. pose proof (cauchy (finite col)) as C.
  set (n := qn (finite col)) in *. set (S := qsum (finite col)) in *. set (Q2 := qsum (map sq (finite col))) in *.
  apply Qle_shift_div_l; [lra|].
  setoid_replace (0 * (n - 1)) with 0 by ring.
  setoid_replace (Q2 - S * S / n) with ((n * Q2 - S * S) / n) by (field; intro Z; rewrite Z in G; lra).
  apply Qle_shift_div_l; [lra|]. lra.
Qed.

(* ------------------------------------------------------------------------------------------------ *)
(* standard scaling: the variance of the scaled entries is variance / max(stdev, eps)^2, hence 1      *)
(* ------------------------------------------------------------------------------------------------ *)
Definition scaled_present (m : mode) (s : stats) (col : list (option Q)) : list Q :=
  map (fun x => scale1 m s (Some x)) (finite col).

Lemma qsum_affine : forall l c d, qsum (map (fun x => (x - c) * d) l) == (qsum l - qn l * c) * d.
Proof.
  induction l as [|x r IH]; intros c d.
  - simpl. rewrite qn_nil. ring.
  - change (qsum (map (fun x => (x - c) * d) (x :: r))) with ((x - c) * d + qsum (map (fun x => (x - c) * d) r)).
    change (qsum (x :: r)) with (x + qsum r).
    rewrite IH, qn_cons. ring.
Qed.

Lemma qsum_sq_affine : forall l c d,
  qsum (map sq (map (fun x => (x - c) * d) l)) == (qsum (map sq l) - 2 * c * qsum l + qn l * c * c) * d * d.
Proof.
  induction l as [|x r IH]; intros c d.
  - simpl. rewrite qn_nil. ring.
  - change (qsum (map sq (map (fun x => (x - c) * d) (x :: r))))
      with (sq ((x - c) * d) + qsum (map sq (map (fun x => (x - c) * d) r))).
    change (qsum (map sq (x :: r))) with (sq x + qsum (map sq r)).
    change (qsum (x :: r)) with (x + qsum r).
    rewrite IH, qn_cons. unfold sq. ring.
Qed.

Lemma scaled_variance : forall eps big big' sd col, 0 < eps -> (length (finite col) > 1)%nat ->
  let a := accumulate (acc0 big) col in
  let s := col_stats eps big sd 1 col in
  var_of (accumulate (acc0 big') (map Some (scaled_present MStandard s col))) * (s_mul_stdev s * s_mul_stdev s)
  == var_of a.
Proof.
  intros eps big big' sd col He Hn a s. subst a s.
  rewrite !var_acc0. rewrite finite_map_Some.
  destruct (col_stats_cases eps big sd col) as [[_ E]|[[Hn1 _]|[Hn0 _]]]; [|lia|lia].
  unfold scaled_present. rewrite E. cbn [scale1 s_mean s_div_stdev s_mul_stdev]. clear E.
  set (mu := a_sum (accumulate (acc0 big) col) / inject_Z (a_n (accumulate (acc0 big) col))).
  assert (Emu : mu == qsum (finite col) / qn (finite col)) by (subst mu; rewrite acc0_sum, acc0_n; reflexivity).
  pose proof (qn_gt1 _ Hn) as G.
  pose proof (qmax_pos sd eps He) as P.
  set (l := finite col) in *. set (M := qmax sd eps) in *.
  rewrite qsum_sq_affine, qsum_affine.
  assert (L : qn (map (fun x : Q => (x - mu) * (1 / M)) l) = qn l)
    by (unfold qn; rewrite map_length; reflexivity).
  rewrite L. rewrite Emu.
  set (n := qn l) in *. set (S := qsum l) in *. set (Q2 := qsum (map sq l)) in *.
  field. repeat split; lra.
Qed.

Lemma unit_variance : forall eps big big' sd col, 0 < eps -> (length (finite col) > 1)%nat ->
  let a := accumulate (acc0 big) col in
  let s := col_stats eps big sd 1 col in
  sd_ok a sd -> eps <= sd ->
  var_of (accumulate (acc0 big') (map Some (scaled_present MStandard s col))) == 1.
Proof.
  intros eps big big' sd col He Hn a s [Hsd Hsq] Hge.
  pose proof (scaled_variance eps big big' sd col He Hn) as V. cbv zeta in V. fold a s in V.
  pose proof (variance_nonneg big col Hn) as NN. fold a in NN.
  assert (Es : s_mul_stdev s = sd).
  { subst s. destruct (col_stats_cases eps big sd col) as [[_ E]|[[Hn1 _]|[Hn0 _]]]; [|lia|lia].
    rewrite E. cbn [s_mul_stdev]. destruct (qmax_cases sd eps) as [[L _]|[_ Q]]; [|exact Q].
    exfalso. apply (Qlt_irrefl sd). eapply Qlt_le_trans; [exact L | exact Hge]. }
  rewrite Es in V.
  destruct (qmax_cases (var_of a) 0) as [[L _]|[_ Q]].
  - exfalso. apply (Qlt_irrefl 0). eapply Qle_lt_trans; [exact NN | exact L].
  - rewrite Q in Hsq. rewrite <- Hsq in V.
    assert (NZ : ~ sd * sd == 0).
    { intro Z. assert (0 < sd) as Psd by (eapply Qlt_le_trans; [exact He | exact Hge]).
      pose proof (Qmult_lt_0_compat sd sd Psd Psd) as PP. rewrite Z in PP. apply (Qlt_irrefl 0 PP). }
    apply (proj1 (Qmult_inj_r _ 1 (sd * sd) NZ)). rewrite V. ring.
Qed.

(* ------------------------------------------------------------------------------------------------ *)
(* the affine conversion of weights and bias                                                        *)
(* ------------------------------------------------------------------------------------------------ *)
Lemma dot_up_wrow : forall fm tm t fs w x, length fs = length w -> length w = length x ->
  ~ scaling_w tm t == 0 ->
  dot (up_wrow fm tm fs t w) x ==
  (dot w (scale_row fm fs (map Some x)) - dot w (map (scaling_b fm) fs)) / scaling_w tm t.
Proof.
  intros fm tm t. induction fs as [|f fs IH]; intros w x L1 L2 NZ.
  - destruct w; [|discriminate]. simpl. field. exact NZ.
  - destruct w as [|w0 w]; [discriminate|]. destruct x as [|x0 x]; [discriminate|].
    simpl in L1, L2. injection L1 as L1. injection L2 as L2.
    change (dot (up_wrow fm tm (f :: fs) t (w0 :: w)) (x0 :: x))
      with (w0 / scaling_w tm t * scaling_w fm f * x0 + dot (up_wrow fm tm fs t w) x).
    change (dot (w0 :: w) (scale_row fm (f :: fs) (map Some (x0 :: x))))
      with (w0 * scale1 fm f (Some x0) + dot w (scale_row fm fs (map Some x))).
    change (dot (w0 :: w) (map (scaling_b fm) (f :: fs)))
      with (w0 * scaling_b fm f + dot w (map (scaling_b fm) fs)).
    rewrite (IH w x L1 L2 NZ), scale1_affine. field. exact NZ.
Qed.

Lemma wf_scaling : forall tm t, stats_wf t ->
  ~ scaling_w tm t == 0 /\ forall y, upscale1 tm t y == (y - scaling_b tm t) / scaling_w tm t.
Proof.
  intros tm t (Hr & Hs & _ & _).
  assert (NR : ~ s_div_range t == 0) by (intro Z; rewrite Z in Hr; lra).
  assert (NS : ~ s_div_stdev t == 0) by (intro Z; rewrite Z in Hs; lra).
  assert (MR : s_mul_range t == 1 / s_div_range t) by (rewrite <- Hr; field; exact NR).
  assert (MS : s_mul_stdev t == 1 / s_div_stdev t) by (rewrite <- Hs; field; exact NS).
  destruct tm; simpl; split; try assumption; intro y.
  - lra.
  - field.
  - rewrite MR. field. exact NR.
  - rewrite MR. field. exact NR.
  - rewrite MS. field. exact NS.
Qed.

Lemma affine_conversion : forall fm tm fs t w b x, stats_wf t -> length fs = length w -> length w = length x ->
  dot (up_wrow fm tm fs t w) x + up_bias fm tm fs t w b ==
  upscale1 tm t (dot w (scale_row fm fs (map Some x)) + b).
Proof.
  intros fm tm fs t w b x WF L1 L2. destruct (wf_scaling tm t WF) as [NZ UP].
  rewrite UP, (dot_up_wrow fm tm t fs w x L1 L2 NZ). unfold up_bias. field. exact NZ.
Qed.

(* ------------------------------------------------------------------------------------------------ *)
(* the statistics do not depend on the batch size                                                   *)
(* ------------------------------------------------------------------------------------------------ *)
Lemma batch_more_spec : forall i size, src_c14_batch_more i size = true <-> (i < size)%Z.
Proof. intros. unfold src_c14_batch_more. apply Z.ltb_lt. Qed.

Lemma batch_end_spec : forall i batch size, src_c14_batch_end i batch size = Z.min (i + batch) size.
Proof. reflexivity. Qed.

Lemma batch_next_spec : forall batch, src_c14_batch_next batch = batch.
Proof. reflexivity. Qed.

Lemma skipn_nil_ge : forall (A : Type) (l : list A) n, (length l <= n)%nat -> skipn n l = [].
Proof. intros A l n H. apply skipn_all2. exact H. Qed.

Lemma batched_skipn : forall col batch, (1 <= batch)%Z -> forall fuel i a, (0 <= i)%Z ->
  (Z.of_nat (length col) - i <= Z.of_nat fuel)%Z ->
  fold_left (fun a r => accumulate a (slice col r)) (batches fuel i batch (Z.of_nat (length col))) a
  = accumulate a (skipn (Z.to_nat i) col).
Proof.
  intros col batch Hb. induction fuel as [|f IH]; intros i a Hi Hf.
  - simpl. rewrite skipn_nil_ge by lia. reflexivity.
  - simpl batches. destruct (src_c14_batch_more i (Z.of_nat (length col))) eqn:M.
    + apply batch_more_spec in M. simpl fold_left. rewrite batch_next_spec, batch_end_spec.
      rewrite IH by lia.
      unfold slice. simpl fst. simpl snd.
      set (k := Z.to_nat (Z.min (i + batch) (Z.of_nat (length col)) - i)).
      rewrite <- (firstn_skipn k (skipn (Z.to_nat i) col)) at 2.
      rewrite accumulate_app. f_equal.
      rewrite skipn_skipn_add.
      destruct (Z_le_gt_dec (i + batch) (Z.of_nat (length col))) as [L|G].
      * f_equal. subst k. lia.
      * rewrite !skipn_nil_ge; [reflexivity | subst k; lia | lia].
    + simpl. rewrite skipn_nil_ge; [reflexivity|].
      assert (~ (i < Z.of_nat (length col))%Z) by (intro H; apply batch_more_spec in H; congruence). lia.
Qed.

Lemma batching_irrelevant : forall col a batch, (1 <= batch)%Z -> accumulate_batched a col batch = accumulate a col.
Proof.
  intros col a batch Hb. unfold accumulate_batched. rewrite (batched_skipn col batch Hb); [reflexivity | lia | lia].
Qed.

(* ------------------------------------------------------------------------------------------------ *)
(* row-level round trip                                                                             *)
(* ------------------------------------------------------------------------------------------------ *)
Lemma roundtrip_row : forall m ss xs, Forall stats_wf ss -> length ss = length xs ->
  Forall2 Qeq (upscale_row m ss (scale_row m ss (map Some xs))) xs.
Proof.
  intros m. induction ss as [|s ss IH]; intros xs WF L.
  - destruct xs; [constructor | discriminate].
  - destruct xs as [|x xs]; [discriminate|]. simpl in L. injection L as L.
    inversion WF as [|? ? W1 W2]; subst. simpl. constructor.
    + apply roundtrip_wf. exact W1.
    + apply IH; assumption.
Qed.

(* mean scaling stays within [-1, 1] *)
Lemma qsum_bounds : forall l lo hi, (forall x, In x l -> lo <= x <= hi) -> qn l * lo <= qsum l <= qn l * hi.
Proof.
  induction l as [|x r IH]; intros lo hi H.
  - simpl. rewrite qn_nil. lra.
  - rewrite qn_cons. change (qsum (x :: r)) with (x + qsum r).
    assert (Hx : lo <= x <= hi) by (apply H; left; reflexivity).
    assert (Hr : qn r * lo <= qsum r <= qn r * hi) by (apply IH; intros y Iy; apply H; right; exact Iy).
    split; lra.
Qed.

Lemma mean_range : forall eps big sd col x, 0 < eps -> bounded big (finite col) -> In x (finite col) ->
  let s := col_stats eps big sd 1 col in -1 <= scale1 MMean s (Some x) <= 1.
Proof.
  intros eps big sd col x He B Ix s. subst s.
  pose proof (acc_min_le col (acc0 big) x Ix) as Lmin.
  pose proof (acc_max_ge col (acc0 big) x Ix) as Lmax.
  destruct (col_stats_cases eps big sd col) as [[Hn E]|[[Hn E]|[Hn E]]]; rewrite E; cbn [scale1 s_mean s_div_range]; clear E.
  - pose proof (qsum_bounds (finite col) _ _
                  (fun y Iy => conj (acc_min_le col (acc0 big) y Iy) (acc_max_ge col (acc0 big) y Iy))) as [B1 B2].
    rewrite acc0_sum, acc0_n. fold (qn (finite col)).
    pose proof (qn_gt1 _ Hn) as G.
    set (a := accumulate (acc0 big) col) in *.
    pose proof (qmax_pos (a_max a - a_min a) eps He) as P.
    pose proof (qmax_ge_l (a_max a - a_min a) eps) as GM.
    set (M := qmax (a_max a - a_min a) eps) in *.
    set (n := qn (finite col)) in *. set (S := qsum (finite col)) in *.
    assert (Mu : a_min a <= S / n <= a_max a).
    { split; [apply Qle_shift_div_l | apply Qle_shift_div_r]; try lra. }
    setoid_replace ((x - S / n) * (1 / M)) with ((x - S / n) / M) by (field; split; intro Z; rewrite Z in *; lra).
    split; [apply Qle_shift_div_l | apply Qle_shift_div_r]; try exact P; lra.
  - rewrite acc0_sum. destruct (finite col) as [|x0 [|x1 r]]; try discriminate.
    simpl in Ix. destruct Ix as [Ix|[]]. subst x0. simpl qsum. split; lra.
  - destruct (finite col); [contradiction | discriminate].
Qed.
