(* C08 -- executable model of the dataset views (include/nano/datasource{.h,/mask.h,/storage.h,/iterator.h},
   src/datasource.cpp, src/dataset.cpp, src/generator.cpp, include/nano/generator/{elemwise,pairwise,select}.h,
   src/generator/{pairwise_base,elemwise_gradient}.cpp).  Style A (discrete).
   The integer kernels (mask byte/bit expressions, storage thresholds, range checks, column counts, ...) are
   *imported* from coq/generated/Src_c08.v, regenerated from the source on every run.  No proofs here. *)
From Coq Require Import List ZArith Bool.
From LNGen Require Import Src_c08.
Import ListNotations.
Local Open Scope Z_scope.

(* ---------------------------------------------------------------------------------------------- *)
(* generic helpers                                                                                *)
(* ---------------------------------------------------------------------------------------------- *)
Definition zlen {A} (l : list A) : Z := Z.of_nat (length l).
Definition znth {A} (i : Z) (l : list A) (d : A) : A := nth (Z.to_nat i) l d.
Definition zseq (n : Z) : list Z := map Z.of_nat (seq 0 (Z.to_nat n)).
Definition zrepeat {A} (x : A) (n : Z) : list A := repeat x (Z.to_nat n).
Definition zsum (l : list Z) : Z := fold_right Z.add 0 l.

Fixpoint upd {A} (n : nat) (f : A -> A) (l : list A) : list A :=
  match l, n with
  | [], _ => []
  | x :: r, O => f x :: r
  | x :: r, S k => x :: upd k f r
  end.

(* overwrite |v| consecutive cells starting at a *)
Definition write_seg {A} (a : nat) (v : list A) (l : list A) : list A :=
  firstn a l ++ v ++ skipn (a + length v) l.
Definition read_seg {A} (a n : nat) (l : list A) : list A := firstn n (skipn a l).

(* ---------------------------------------------------------------------------------------------- *)
(* mask.h                                                                                         *)
(* ---------------------------------------------------------------------------------------------- *)
Definition mask_row := list Z.   (* bytes of one feature *)
Definition mask_zero (samples : Z) : mask_row := zrepeat 0 (src_mask_bytes samples).
(* mask(sample / 8) |= uint8(0x01 << (7 - sample % 8)) *)
Definition setbit (m : mask_row) (sample : Z) : mask_row :=
  upd (Z.to_nat (src_setbit_byte sample)) (fun b => Z.lor b (Z.shiftl 1 (src_setbit_shift sample))) m.
(* (mask(sample / 8) & (0x01 << (7 - sample % 8))) != 0 *)
Definition getbit (m : mask_row) (sample : Z) : bool :=
  negb (Z.land (znth (src_getbit_byte sample) m 0) (Z.shiftl 1 (src_getbit_shift sample)) =? 0).

(* ---------------------------------------------------------------------------------------------- *)
(* features and the typed storage pools (datasource_t::resize / visit / set)                      *)
(* ---------------------------------------------------------------------------------------------- *)
Inductive ftype := TI08 | TI16 | TI32 | TI64 | TU08 | TU16 | TU32 | TU64 | TF32 | TF64 | TSclass | TMclass.


Record feature := mkF { f_type : ftype; f_classes : Z; f_d0 : Z; f_d1 : Z; f_d2 : Z }.
Definition fsize (f : feature) : Z := f_d0 f * f_d1 f * f_d2 f.          (* nano::size(dims) *)

(* index of the storage pool; sclass/mclass are never pools *)
Definition pool_idx (t : ftype) : nat :=
  match t with TI08 => 0 | TI16 => 1 | TI32 => 2 | TI64 => 3 | TU08 => 4 | TU16 => 5 | TU32 => 6 | TU64 => 7
             | TF32 => 8 | TF64 => 9 | TSclass => 10 | TMclass => 11 end%nat.
Definition npools : nat := 12.

(* the pool chosen by resize() ... *)
Definition pool_resize (f : feature) : ftype :=
  match f_type f with
  | TMclass => TU08
  | TSclass => if src_resize_sclass_u08 (f_classes f) then TU08
               else if src_resize_sclass_u16 (f_classes f) then TU16
               else if src_resize_sclass_u32 (f_classes f) then TU32 else TU64
  | t => t
  end.
(* ... and the pool read by visit() *)
Definition pool_visit (f : feature) : ftype :=
  match f_type f with
  | TMclass => TU08
  | TSclass => if src_visit_sclass_u08 (f_classes f) src_maxu08 then TU08
               else if src_visit_sclass_u16 (f_classes f) src_maxu16 then TU16
               else if f_classes f <=? 4294967296 then TU32 else TU64
  | t => t
  end.
(* number of storage rows reserved by resize() = number of cells per sample *)
Definition width (f : feature) : Z :=
  match f_type f with TMclass => f_classes f | TSclass => 1 | _ => fsize f end.

(* running totals per pool: update_size_storage *)
Fixpoint assign (tot : list Z) (fs : list feature) : list (Z * Z) * list Z :=
  match fs with
  | [] => ([], tot)
  | f :: r =>
      let p := pool_idx (pool_resize f) in
      let b := nth p tot 0 in
      let e := src_range_end b (width f) in
      let '(rs, tot') := assign (upd p (fun _ => e) tot) r in
      ((b, e) :: rs, tot')
  end.

Record store := mkS {
  s_samples : Z;
  s_feats : list feature;
  s_target : Z;                    (* m_target: index of the target or the total number of features *)
  s_ranges : list (Z * Z);
  s_pools : list (list Z);         (* npools flat pools of (rows x samples) cells *)
  s_mask : list mask_row }.

Definition resize (samples : Z) (fs : list feature) (target : Z) : store :=
  let '(rs, tot) := assign (repeat 0 npools) fs in
  mkS samples fs
      (if src_resize_target target (zlen fs) then target else zlen fs)
      rs
      (map (fun t => zrepeat 0 (t * samples)) tot)
      (map (fun _ => zrepeat 0 (src_ds_mask_bytes samples)) fs).

(* element (sample, k) of a feature's block `slice(range).reshape(samples, ...)` *)
Definition cell_addr (st : store) (fi : Z) (sample : Z) : Z :=
  fst (znth fi (s_ranges st) (0, 0)) * s_samples st + sample * width (znth fi (s_feats st) (mkF TF32 0 1 1 1)).

Definition dflt_feature : feature := mkF TF32 0 1 1 1.

(* feature_storage_t::set's critical() conditions *)
Definition set_ok (f : feature) (vals : list Z) : bool :=
  match f_type f with
  | TSclass => match vals with [l] => negb ((l <? 0) || (l >=? f_classes f)) | _ => false end
  | TMclass => zlen vals =? f_classes f
  | _ => zlen vals =? fsize f
  end.

(* datasource_t::set(sample, ifeature, value): raw feature index (the target included) *)
Definition ds_set (st : store) (fi sample : Z) (vals : list Z) : option store :=
  let f := znth fi (s_feats st) dflt_feature in
  if negb (set_ok f vals) then None else
  let p := pool_idx (pool_visit f) in
  Some (mkS (s_samples st) (s_feats st) (s_target st) (s_ranges st)
            (upd p (write_seg (Z.to_nat (cell_addr st fi sample)) vals) (s_pools st))
            (upd (Z.to_nat fi) (fun m => setbit m sample) (s_mask st))).

(* what the iterators dereference: (given, values) of the raw feature fi at a stored sample *)
Definition ds_get (st : store) (fi sample : Z) : option (list Z) :=
  let f := znth fi (s_feats st) dflt_feature in
  if getbit (znth fi (s_mask st) []) sample
  then Some (read_seg (Z.to_nat (cell_addr st fi sample)) (Z.to_nat (width f))
                      (nth (pool_idx (pool_visit f)) (s_pools st) []))
  else None.

(* datasource_t::features() / feature(i) / visit_inputs(i) *)
Definition ds_features (st : store) : Z := src_ds_features (s_target st) (zlen (s_feats st)).
Definition ds_feature (st : store) (i : Z) : feature := znth (src_ds_feature_index i (s_target st)) (s_feats st) dflt_feature.
Definition reader := Z -> Z -> option (list Z).
Definition ds_reader (st : store) : reader := fun i s => ds_get st (src_ds_input_index i (s_target st)) s.
Definition has_target (st : store) : bool := s_target st <? zlen (s_feats st).

(* ---------------------------------------------------------------------------------------------- *)
(* generators: fit                                                                                *)
(* ---------------------------------------------------------------------------------------------- *)
Inductive gkind := GSclass | GMclass | GScalar | GStruct | GProduct | GGradient.

(* a generated feature: its sources, the descriptor returned by generator->feature(i), process()'s colsize *)
Record gfeat := mkG { g_kind : gkind; g_o1 : Z; g_o2 : Z; g_desc : feature; g_colsize : Z }.

Definition is_cont (f : feature) : bool :=
  match f_type f with TSclass | TMclass => false | _ => true end.
Definition kind_matches (k : gkind) (f : feature) : bool :=
  match k with
  | GSclass => match f_type f with TSclass => true | _ => false end
  | GMclass => match f_type f with TMclass => true | _ => false end
  | GScalar | GProduct => is_cont f && src_sel_scalar (fsize f)
  | GStruct | GGradient => is_cont f && src_sel_struct (fsize f)
  end.

(* detail::select: the given indices (all features if none given), filtered by kind, in the given order *)
Definition select_ids (st : store) (k : gkind) (ids : list Z) : list Z :=
  filter (fun i => kind_matches k (ds_feature st i)) (match ids with [] => zseq (ds_features st) | _ => ids end).

Definition f64 (d0 d1 d2 : Z) : feature := mkF TF64 0 d0 d1 d2.

Definition fit_identity (st : store) (k : gkind) (ids : list Z) : list gfeat :=
  map (fun i => let f := ds_feature st i in
                mkG k i i f
                    (match k with
                     | GSclass => src_id_sclass_colsize (f_classes f)
                     | GMclass => src_id_mclass_colsize (f_classes f)
                     | GScalar => src_id_scalar_colsize
                     | _ => src_id_struct_colsize (fsize f)
                     end))
      (select_ids st k ids).

(* make_pairwise: std::map keyed by (min, max), first insertion wins, iterated in key order.
   The stored value is (i1, i2): a row of mapping1 and a row of mapping2 (expressions translated from the source; before
   the repo fix the pair was swapped when feature1 > feature2 and then indexed mapping1 with a row number of mapping2). *)
Definition pkey := (Z * Z)%type.
Definition pkey_eqb (a b : pkey) : bool := (fst a =? fst b) && (snd a =? snd b).
Definition pkey_ltb (a b : pkey) : bool := (fst a <? fst b) || ((fst a =? fst b) && (snd a <? snd b)).
Fixpoint pmap_insert (k : pkey) (v : Z * Z) (m : list (pkey * (Z * Z))) : list (pkey * (Z * Z)) :=
  match m with
  | [] => [(k, v)]
  | (k', v') :: r => if pkey_eqb k k' then m                     (* try_emplace: keep the first *)
                     else if pkey_ltb k k' then (k, v) :: m
                     else (k', v') :: pmap_insert k v r
  end.
Definition make_pairwise (m1 m2 : list Z) : list (Z * Z) :=
  let pairs := flat_map (fun i1 => map (fun i2 => (i1, i2)) (zseq (zlen m2))) (zseq (zlen m1)) in
  let mp := fold_left (fun acc '(i1, i2) =>
                         let f1 := znth i1 m1 0 in let f2 := znth i2 m2 0 in
                         pmap_insert (src_pair_key_lo f1 f2, src_pair_key_hi f1 f2)
                                     (src_pair_value_first i1 i2, src_pair_value_second i1 i2) acc)
                      pairs [] in
  map (fun '(_, (i1, i2)) => (znth i1 m1 0, znth i2 m2 0)) mp.

Definition fit_product (st : store) (ids1 ids2 : list Z) : list gfeat :=
  map (fun '(a, b) => mkG GProduct a b (f64 1 1 1) 1)
      (make_pairwise (select_ids st GProduct ids1) (select_ids st GProduct ids2)).

(* gradient: 4 features per channel of every structured feature with rows, cols >= 3.  The k-th generated feature of a
   source feature is (channel, type) of the loop nest `for channel .. for type < 4 ..  k++`; g_o2 packs the two mapping
   columns written by do_fit as `column5 * modes + column6` (decoded by C08_Gradient.grad_channel / grad_mode); the
   output dims (1, rows - 2, cols - 2), the loop bound and the column size are the translated expressions. *)
Definition grad_block (i : Z) (f : feature) : list gfeat :=
  flat_map (fun ch => map (fun ty => mkG GGradient i (src_grad_map_channel ch ty * src_grad_modes + src_grad_map_mode ch ty)
                                         (f64 src_grad_out_channels (src_grad_out_rows (f_d1 f)) (src_grad_out_cols (f_d2 f)))
                                         (src_grad_colsize (src_grad_out_rows (f_d1 f)) (src_grad_out_cols (f_d2 f))))
                          (zseq src_grad_modes))
           (zseq (f_d0 f)).
Definition fit_gradient (st : store) (ids : list Z) : list gfeat :=
  flat_map (fun i => let f := ds_feature st i in
                     if src_grad_applies (f_d1 f) (f_d2 f) then grad_block i f else [])
           (select_ids st GGradient ids).

Definition fit (st : store) (k : gkind) (ids1 ids2 : list Z) : list gfeat :=
  match k with
  | GProduct => fit_product st ids1 ids2
  | GGradient => fit_gradient st ids1
  | _ => fit_identity st k ids1
  end.

(* ---------------------------------------------------------------------------------------------- *)
(* dataset_t::update: the column / feature / generator bookkeeping                                *)
(* ---------------------------------------------------------------------------------------------- *)
Definition desc_cols_total (f : feature) : Z :=
  match f_type f with
  | TSclass => src_total_cols_sclass (f_classes f)
  | TMclass => src_total_cols_mclass (f_classes f)
  | _ => src_total_cols_struct (fsize f)
  end.
Definition desc_cols (f : feature) : Z :=
  match f_type f with
  | TSclass => src_cols_sclass (f_classes f)
  | TMclass => src_cols_mclass (f_classes f)
  | _ => src_cols_struct (fsize f)
  end.
Definition desc_dims (f : feature) : Z * Z * Z :=
  match f_type f with
  | TSclass => (1, 1, 1)
  | TMclass => (f_classes f, 1, 1)
  | _ => (f_d0 f, f_d1 f, f_d2 f)
  end.

Definition gens := list (list gfeat).

(* first loop: total_columns / features *)
Definition total_columns (gs : gens) : Z := zsum (map (fun fs => zsum (map (fun g => desc_cols_total (g_desc g)) fs)) gs).
Definition total_features (gs : gens) : Z := zsum (map (fun fs => zlen fs) gs).

(* second loop: rows appended to m_column_mapping / m_feature_mapping, entries of m_generator_mapping *)
Fixpoint colmap_feats (gi : Z) (fs : list gfeat) (gf : Z) : list (Z * Z * Z) :=
  match fs with
  | [] => []
  | g :: r => map (fun ic => (gi, ic, gf)) (zseq (desc_cols (g_desc g))) ++ colmap_feats gi r (gf + 1)
  end.
Fixpoint colmap_gens (gi : Z) (gs : gens) (gf : Z) : list (Z * Z * Z) :=
  match gs with
  | [] => []
  | fs :: r => colmap_feats gi fs gf ++ colmap_gens (gi + 1) r (gf + zlen fs)
  end.
Fixpoint fmap_gens (gi : Z) (gs : gens) : list (Z * Z) :=
  match gs with
  | [] => []
  | fs :: r => map (fun li => (gi, li)) (zseq (zlen fs)) ++ fmap_gens (gi + 1) r
  end.
Fixpoint genmap_from (offset : Z) (gs : gens) : list Z :=
  match gs with
  | [] => []
  | fs :: r => let offset' := offset + zsum (map (fun g => desc_cols (g_desc g)) fs) in
               src_gen_columns offset' offset :: genmap_from offset' r
  end.

Definition column_mapping (gs : gens) : list (Z * Z * Z) := colmap_gens 0 gs 0.
Definition feature_mapping (gs : gens) : list (Z * Z) := fmap_gens 0 gs.
Definition generator_mapping (gs : gens) : list Z := genmap_from 0 gs.

Definition columns (gs : gens) : Z := total_columns gs.              (* m_column_mapping.size<0>() *)
Definition features (gs : gens) : Z := total_features gs.            (* m_feature_mapping.size<0>() *)
Definition column2feature (gs : gens) (c : Z) : Z := snd (znth c (column_mapping gs) (0, 0, -1)).

(* global feature index -> (generator, local feature), declaratively *)
Fixpoint locate (gs : gens) (gi : Z) (f : Z) : option (Z * Z) :=
  match gs with
  | [] => None
  | fs :: r => if f <? zlen fs then Some (gi, f) else locate r (gi + 1) (f - zlen fs)
  end.
(* first column of global feature f, declaratively *)
Definition all_feats (gs : gens) : list gfeat := concat gs.
Definition col_offset (gs : gens) (f : Z) : Z :=
  zsum (map (fun g => desc_cols (g_desc g)) (firstn (Z.to_nat f) (all_feats gs))).

(* ---------------------------------------------------------------------------------------------- *)
(* drop / shuffle state (generator_t::m_feature_infos, m_feature_shuffles)                        *)
(* ---------------------------------------------------------------------------------------------- *)
Inductive flag := Normal | Dropped | Shuffled (perm : list Z).
Definition flags := list (list flag).
Definition flags_init (gs : gens) : flags := map (fun fs => map (fun _ => Normal) fs) gs.

Definition get_flag (fl : flags) (gi li : Z) : flag := znth li (znth gi fl []) Normal.
Definition set_flag (fl : flags) (gi li : Z) (v : flag) : flags :=
  upd (Z.to_nat gi) (upd (Z.to_nat li) (fun _ => v)) fl.
Definition reset_flags (fl : flags) : flags := map (map (fun _ => Normal)) fl.

Inductive op := ODrop (f : Z) | OUndrop | OShuffle (f : Z) (perm : list Z) | OUnshuffle.

Definition check_feature (gs : gens) (f : Z) : bool := negb (src_check_feature_bad f (features gs)).

(* dataset_t::{drop, undrop, shuffle, unshuffle}; None = exception (invalid feature index) *)
Definition apply_op (gs : gens) (fl : flags) (o : op) : option flags :=
  match o with
  | OUndrop | OUnshuffle => Some (reset_flags fl)
  | ODrop f => if check_feature gs f then
                 let '(gi, li) := znth f (feature_mapping gs) (0, 0) in Some (set_flag fl gi li Dropped)
               else None
  | OShuffle f p => if check_feature gs f then
                      let '(gi, li) := znth f (feature_mapping gs) (0, 0) in Some (set_flag fl gi li (Shuffled p))
                    else None
  end.
Fixpoint run_ops (gs : gens) (fl : flags) (ops : list op) : option flags :=
  match ops with
  | [] => Some fl
  | o :: r => match apply_op gs fl o with Some fl' => run_ops gs fl' r | None => None end
  end.
Definition flag_of (gs : gens) (fl : flags) (f : Z) : flag :=
  let '(gi, li) := znth f (feature_mapping gs) (0, 0) in get_flag fl gi li.

(* ---------------------------------------------------------------------------------------------- *)
(* iterators and the per-feature (select) views                                                   *)
(* ---------------------------------------------------------------------------------------------- *)
(* base_datasource_iterator_t::sample() *)
Definition eff_sample (fl : flag) (s : Z) : Z :=
  match fl with
  | Shuffled p => if zlen p =? 0 then s else znth s p 0
  | _ => s
  end.

(* the value a generated feature computes from its source cells (None = some source not given) *)
Definition gvalue (rd : reader) (g : gfeat) (fl : flag) (s : Z) : option (list Z) :=
  let s' := eff_sample fl s in
  match g_kind g with
  | GProduct => match rd (g_o1 g) s', rd (g_o2 g) s' with
                | Some a, Some b => Some [hd 0 a * hd 0 b]
                | _, _ => None
                end
  | GGradient => match rd (g_o1 g) s' with           (* integer layer: placeholder zeros; the VALUES are C08_Gradient.grad_image *)
                 | Some _ => Some (zrepeat 0 (g_colsize g))
                 | None => None
                 end
  | _ => rd (g_o1 g) s'
  end.

Definition is_dropped (fl : flag) : bool := match fl with Dropped => true | _ => false end.

Inductive view :=
| VSclass (label : Z)
| VMclass (hits : list Z)
| VScalar (v : option Z)
| VStruct (vs : list (option Z)).

(* generator_t::select + do_select (elemwise.h / pairwise.h select_... ) : one sample of the view *)
Definition select_view (rd : reader) (g : gfeat) (fl : flag) (s : Z) : view :=
  let d := g_desc g in
  match f_type d with
  | TSclass => VSclass (if is_dropped fl then -1 else match gvalue rd g fl s with Some v => hd 0 v | None => -1 end)
  | TMclass => VMclass (if is_dropped fl then zrepeat (-1) (f_classes d)
                        else match gvalue rd g fl s with Some v => v | None => zrepeat (-1) (f_classes d) end)
  | _ => if fsize d =? 1
         then VScalar (if is_dropped fl then None else match gvalue rd g fl s with Some v => Some (hd 0 v) | None => None end)
         else VStruct (if is_dropped fl then zrepeat None (fsize d)
                       else match gvalue rd g fl s with Some v => map Some v | None => zrepeat None (fsize d) end)
  end.

(* ---------------------------------------------------------------------------------------------- *)
(* flatten                                                                                        *)
(* ---------------------------------------------------------------------------------------------- *)
(* C-1 columns, -1 everywhere, +1 at the label unless it is the last class *)
Definition onehot (hit : Z -> Z -> bool) (size : Z) (label : Z) : list (option Z) :=
  map (fun j => Some (if (j =? label) && hit label size then 1 else -1)) (zseq size).

(* elemwise.h / pairwise.h flatten(): the segment written for one feature and one sample *)
Definition enc_flat (rd : reader) (g : gfeat) (fl : flag) (s : Z) : list (option Z) :=
  let cs := g_colsize g in
  if is_dropped fl then zrepeat None cs                               (* flatten_dropped *)
  else match gvalue rd g fl s with
       | None => match f_type (g_desc g) with
                 | TSclass | TMclass => zrepeat None cs
                 | _ => if fsize (g_desc g) =? 1 then [None] else zrepeat None cs
                 end
       | Some v => match f_type (g_desc g) with
                   | TSclass => onehot (match g_kind g with GProduct => src_pw_onehot_hit | _ => src_onehot_hit end) cs (hd 0 v)
                   | TMclass => map (fun h => Some (2 * h - 1)) v
                   | _ => if fsize (g_desc g) =? 1 then [Some (hd 0 v)] else map Some v
                   end
       end.

Definition row := list (option Z).

(* generator->flatten(samples, storage, column): `column += colsize` per feature *)
Fixpoint flat_gen (rd : reader) (fs : list gfeat) (fls : list flag) (s : Z) (column : Z) (r : row) : row :=
  match fs with
  | [] => r
  | g :: fs' =>
      let fl := hd Normal fls in
      flat_gen rd fs' (tl fls) s (column + g_colsize g) (write_seg (Z.to_nat column) (enc_flat rd g fl s) r)
  end.
(* dataset_t::flatten: `offset += m_generator_mapping(index++, 0)` per generator *)
Fixpoint flat_gens (rd : reader) (gs : gens) (fl : flags) (gm : list Z) (s : Z) (offset : Z) (r : row) : row :=
  match gs with
  | [] => r
  | fs :: gs' => flat_gens rd gs' (tl fl) (tl gm) s (offset + hd 0 gm) (flat_gen rd fs (hd [] fl) s offset r)
  end.
Definition flat_row (rd : reader) (gs : gens) (fl : flags) (s : Z) (r : row) : row :=
  flat_gens rd gs fl (generator_mapping gs) s 0 r.

Definition lmin (l : list Z) : Z := fold_right Z.min (hd 0 l) l.
Definition lmax (l : list Z) : Z := fold_right Z.max (hd 0 l) l.
(* dataset_t::check(samples) *)
(* repo 2030fc5: the empty list is accepted before min()/max() are taken (they do not exist for it) *)
Definition check_samples (n : Z) (samples : list Z) : bool :=
  if src_check_samples_empty (Z.of_nat (length samples)) then true
  else negb (src_check_samples_bad (lmin samples) (lmax samples) n).

(* dataset_t::flatten on a fresh (all-NaN) buffer; None = exception *)
Definition flatten (rd : reader) (n : Z) (gs : gens) (fl : flags) (samples : list Z) : option (list row) :=
  if check_samples n samples
  then Some (map (fun s => flat_row rd gs fl s (zrepeat None (columns gs))) samples)
  else None.

(* dataset_t::select(samples, feature, buffer); None = exception *)
Definition select (rd : reader) (n : Z) (gs : gens) (fl : flags) (samples : list Z) (f : Z) : option (list view) :=
  if check_samples n samples && check_feature gs f
  then let '(gi, li) := znth f (feature_mapping gs) (0, 0) in
       let g := znth li (znth gi gs []) (mkG GScalar 0 0 dflt_feature 1) in
       Some (map (select_view rd g (get_flag fl gi li)) samples)
  else None.

(* the documented encoding of a per-feature view value into flatten columns *)
Definition encode_view (classes : Z) (v : view) : list (option Z) :=
  match v with
  | VSclass l => if l <? 0 then zrepeat None (classes - 1)
                 else map (fun j => Some (if j =? l then 1 else -1)) (zseq (classes - 1))
  | VMclass h => if hd 0 h <? 0 then map (fun _ => None) h else map (fun x => Some (2 * x - 1)) h
  | VScalar x => [x]
  | VStruct xs => xs
  end.

(* ---------------------------------------------------------------------------------------------- *)
(* targets                                                                                        *)
(* ---------------------------------------------------------------------------------------------- *)
(* dataset_t::targets: one sample of the (samples, d1, d2, d3) tensor, flattened *)
Definition target_row (tf : feature) (cell : option (list Z)) : row :=
  match f_type tf with
  | TSclass => match cell with
               | Some v => map (fun j => Some (if j =? hd 0 v then 1 else -1)) (zseq (f_classes tf))
               | None => zrepeat None (f_classes tf)
               end
  | TMclass => match cell with
               | Some v => map (fun h => Some (2 * h - 1)) v
               | None => zrepeat None (f_classes tf)
               end
  | _ => match cell with
         | Some v => map Some v
         | None => zrepeat None (fsize tf)
         end
  end.
Definition target_dims (st : store) : Z * Z * Z :=
  if has_target st then
    let tf := znth (s_target st) (s_feats st) dflt_feature in
    match f_type tf with TSclass | TMclass => (f_classes tf, 1, 1) | _ => (f_d0 tf, f_d1 tf, f_d2 tf) end
  else (0, 0, 0).
Definition targets (st : store) (samples : list Z) : option (list row) :=
  if check_samples (s_samples st) samples && has_target st
  then let tf := znth (s_target st) (s_feats st) dflt_feature in
       Some (map (fun s => target_row tf (ds_get st (s_target st) s)) samples)
  else None.
(* dataset_t::select(samples, buffer) on the target *)
Definition target_view (tf : feature) (cell : option (list Z)) : view :=
  match f_type tf with
  | TSclass => VSclass (match cell with Some v => hd 0 v | None => -1 end)
  | TMclass => VMclass (match cell with Some v => v | None => zrepeat (-1) (f_classes tf) end)
  | _ => if fsize tf =? 1 then VScalar (match cell with Some v => Some (hd 0 v) | None => None end)
         else VStruct (match cell with Some v => map Some v | None => zrepeat None (fsize tf) end)
  end.
Definition target_select (st : store) (samples : list Z) : option (list view) :=
  if check_samples (s_samples st) samples && has_target st
  then let tf := znth (s_target st) (s_feats st) dflt_feature in
       Some (map (fun s => target_view tf (ds_get st (s_target st) s)) samples)
  else None.

(* generator_t::shuffled(feature, samples) *)
Definition shuffled (fl : flag) (samples : list Z) : list Z := map (eff_sample fl) samples.
