(* C01F -- finite termination of the conjugate-gradient, BFGS and L-BFGS loops of libnano on strictly convex quadratics
   with EXACT line searches: executable model (stage C01F of property C01).

   f(x) = x'Ax/2 + a'x,  grad f(x) = A x + a.  An exact line search along d from a point with gradient g takes the step
   t = -(g.d)/(d'Ad) (theorem C01F_exact_line_search: it is the minimiser along d).  The loops below are the direction
   blocks of the real solvers, as modelled in C01CG_Defs ([cg_step]: src/solver/cgd.cpp) and C01Q_Defs ([quasi_update],
   [two_loop], [lbfgs_push]: src/solver/quasi.cpp, src/solver/lbfgs.cpp), iterated with that step instead of
   lsearchk_t::get; the loop decisions around them (restart of quasi.cpp when -H g is not a descent direction, the scaled
   initialisation before the first update, the forced -g and the store / clear of lbfgs.cpp) are translated from the source
   on every run (generated/Src_c01f.v; has_descent / dg are the kernels of stage C01CG).

   Written over the record of field operations [fops F] of C01Q_Defs; extracted at the canonical rationals Qc and run
   against the real cgd-* / bfgs / lbfgs solvers (forced to nearly exact line searches) on every run.
   No proofs in this file. *)
From Coq Require Import List ZArith Bool.
From LNGen Require Import Src_c01cg Src_c01f.
From LN Require Import C01Q_Defs C01CG_Defs.
Import ListNotations.

Section Finite.
  Variable F : Type.
  Variable FO : fops F.
  Local Notation "0" := (f0 FO).
  Local Notation "1" := (f1 FO).
  Local Infix "+" := (fadd FO).
  Local Infix "*" := (fmul FO).
  Local Infix "-" := (fsub FO).
  Local Infix "/" := (fdiv FO).
  Local Notation "- x" := (fopp FO x).
  Local Notation dot := (dot FO).
  Local Notation vadd := (vadd FO).
  Local Notation vsub := (vsub FO).
  Local Notation vscale := (vscale FO).
  Local Notation vopp := (vopp FO).
  Local Notation mv := (mv FO).

  (* ---- the quadratic and the exact line search -------------------------------------------------------------------- *)
  Definition quad_f (A : mat F) (a x : vec F) : F := dot x (mv A x) / f2 FO + dot a x.
  Definition quad_grad (A : mat F) (a x : vec F) : vec F := vadd (mv A x) a.
  (* the minimiser of t |-> f(x + t d) when g = grad f(x):  t = -(g.d) / (d'Ad)   ([exact_next] of C01CG_Defs is the
     gradient g + t A d at that point) *)
  Definition ls_step (A : mat F) (g d : vec F) : F := (- dot g d) / dot d (mv A d).
  Definition ls_point (x : vec F) (t : F) (d : vec F) : vec F := vadd x (vscale t d).
  (* the same step from ONE extra gradient evaluation at a trial point x + tau d (secant on the derivative along d):
     t = -tau (g.d) / ((g(x + tau d) - g).d) *)
  Definition secant_step (tau : F) (g gtrial d : vec F) : F := (- (tau * dot g d)) / dot (vsub gtrial g) d.

  (* ---- conjugate gradients: [cg_step] (any of the ten solver ids) with exact line searches, points included -------- *)
  Fixpoint cg_quad_xrun (k : cgkind) (eta orthotest : F) (nrm : vec F -> F) (A : mat F) (st : cgstate F) (x g : vec F)
           (m : nat) : list (vec F * vec F * vec F) :=                    (* (x_j, g_j, d_j), first iteration first *)
    match m with
    | O => []
    | S m' =>
        let '(st', d) := cg_step FO k eta orthotest (nrm (cs_pd st)) (nrm (cs_pg st)) st g in
        (x, g, d) :: cg_quad_xrun k eta orthotest nrm A st' (ls_point x (ls_step A g d) d) (exact_next FO A g d) m'
    end.

  (* ---- quasi-Newton (solver_quasi_t::do_minimize) ------------------------------------------------------------------ *)
  (* descent = -H * g;  if (!has_descent(descent)) { descent = -g; H = identity } *)
  Definition qn_direction (H : mat F) (g : vec F) : mat F * vec F :=
    let d := quasi_direction FO H g in
    if src_qn_restart (cg_has_descent FO g d) then (identity FO (length H), vopp g) else (H, d).
  (* quasi_initialization: identity = 0, scaled = 1 (only compared for equality) *)
  Definition qn_init_scaled (first : bool) (init : Z) : bool := src_qn_scaled_init first init 1%Z.
  (* one iteration: direction (+ restart), exact line search, dx = t d, dg = t A d, scaled initialisation before the first
     update, update.  Returns the new (H, x, g) and (d, dx, dg) *)
  Definition qn_quad_step (kq : qkind) (r : F) (init : Z) (A : mat F) (first : bool) (H : mat F) (x g : vec F)
    : (mat F * vec F * vec F) * (vec F * vec F * vec F) :=
    let '(H1, d) := qn_direction H g in
    let t := ls_step A g d in
    let s := vscale t d in
    let y := vscale t (mv A d) in
    let H2 := if qn_init_scaled first init then scaled_identity FO (length H1) s y else H1 in
    ((quasi_update FO kq r H2 s y, vadd x s, vadd g y), (d, s, y)).
  (* m iterations from H; per iteration (x_j, g_j, d_j, dx_j, dg_j, H_{j+1}) *)
  Fixpoint qn_quad_run (kq : qkind) (r : F) (init : Z) (A : mat F) (first : bool) (H : mat F) (x g : vec F) (m : nat)
    : list (vec F * vec F * vec F * vec F * vec F * mat F) :=
    match m with
    | O => []
    | S m' =>
        let '((H', x', g'), (d, s, y)) := qn_quad_step kq r init A first H x g in
        (x, g, d, s, y, H') :: qn_quad_run kq r init A false H' x' g' m'
    end.

  (* ---- L-BFGS (solver_lbfgs_t::do_minimize) ------------------------------------------------------------------------- *)
  (* descent = -r (two-loop recursion);  if (!has_descent) descent = -g;  line search;  if (has_descent) push (bounded
     history) else clear *)
  Definition lbfgs_quad_step (history : Z) (A : mat F) (hist : list (pair F)) (x g : vec F)
    : (list (pair F) * vec F * vec F) * vec F :=
    let d0 := lbfgs_direction FO hist g in
    let hd := cg_has_descent FO g d0 in
    let d := if src_lbfgs_force hd then vopp g else d0 in
    let t := ls_step A g d in
    let s := vscale t d in
    let y := vscale t (mv A d) in
    let hist' := if src_lbfgs_store hd then lbfgs_push history hist (s, y) else [] in
    ((hist', vadd x s, vadd g y), d).
  Fixpoint lbfgs_quad_run (history : Z) (A : mat F) (hist : list (pair F)) (x g : vec F) (m : nat)
    : list (vec F * vec F * vec F * list (pair F)) :=                    (* (x_j, g_j, d_j, history after iteration j) *)
    match m with
    | O => []
    | S m' =>
        let '((hist', x', g'), d) := lbfgs_quad_step history A hist x g in
        (x, g, d, hist') :: lbfgs_quad_run history A hist' x' g' m'
    end.
End Finite.

Arguments quad_f {F}. Arguments quad_grad {F}. Arguments ls_step {F}. Arguments ls_point {F}. Arguments secant_step {F}.
Arguments cg_quad_xrun {F}. Arguments qn_direction {F}. Arguments qn_quad_step {F}.
Arguments qn_quad_run {F}. Arguments lbfgs_quad_step {F}. Arguments lbfgs_quad_run {F}.
