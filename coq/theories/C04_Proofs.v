(* C04 -- proofs about the model of C04_Defs (all over exact rationals, for all programs / points / multipliers). *)
From Coq Require Import List ZArith QArith Qminmax Qabs Bool Lia Lqa.
From LNGen Require Import Src_c04.
From LN Require Import C04_Defs.
Import ListNotations.
Local Open Scope Q_scope.

(* ------------------------------------------------------------------------------------------------------------ *)
(* 1. list algebra                                                                                                *)
(* ------------------------------------------------------------------------------------------------------------ *)
Lemma dot_nil_r a : dot a [] == 0.
Proof. destruct a; reflexivity. Qed.

Lemma dot_comm a : forall b, dot a b == dot b a.
Proof.
  induction a as [|x a IH]; intros [|y b]; simpl; try reflexivity.
  rewrite IH. ring.
Qed.

Lemma dot_vadd_l a : forall b w, length a = length b -> dot (vadd a b) w == dot a w + dot b w.
Proof.
  induction a as [|x a IH]; intros [|y b] [|z w] H; simpl in *; try discriminate; try ring.
  injection H as H. rewrite (IH b w H). ring.
Qed.

Lemma dot_vsub_l a : forall b w, length a = length b -> dot (vsub a b) w == dot a w - dot b w.
Proof.
  induction a as [|x a IH]; intros [|y b] [|z w] H; simpl in *; try discriminate; try ring.
  injection H as H. rewrite (IH b w H). ring.
Qed.

Lemma dot_vsub_r w a b : length a = length b -> dot w (vsub a b) == dot w a - dot w b.
Proof.
  intro H. rewrite (dot_comm w (vsub a b)), (dot_comm w a), (dot_comm w b). now apply dot_vsub_l.
Qed.

Lemma dot_vscale_l k a : forall w, dot (vscale k a) w == k * dot a w.
Proof.
  induction a as [|x a IH]; intros [|z w]; simpl; try ring.
  rewrite IH. ring.
Qed.

Lemma dot_zeros_l n : forall w, dot (zeros n) w == 0.
Proof.
  induction n as [|n IH]; intros [|z w]; simpl; try reflexivity.
  unfold zeros in IH. rewrite IH. ring.
Qed.

Lemma length_vadd a : forall b, length a = length b -> length (vadd a b) = length a.
Proof.
  induction a as [|x a IH]; intros [|y b] H; simpl in *; try discriminate; auto.
Qed.

Lemma length_vsub a : forall b, length a = length b -> length (vsub a b) = length a.
Proof.
  induction a as [|x a IH]; intros [|y b] H; simpl in *; try discriminate; auto.
Qed.

Lemma length_vscale k a : length (vscale k a) = length a.
Proof. apply map_length. Qed.

Lemma length_zeros n : length (zeros n) = n.
Proof. apply repeat_length. Qed.

Lemma length_mv M x : length (mv M x) = length M.
Proof. apply map_length. Qed.

Definition rows_ok (n : nat) (M : mat) : Prop := Forall (fun r => length r = n) M.

Lemma length_mtv n M : forall v, rows_ok n M -> length (mtv n M v) = n.
Proof.
  induction M as [|r M IH]; intros v H; simpl.
  - apply length_zeros.
  - destruct v as [|k v]; [apply length_zeros|].
    inversion H; subst. rewrite length_vadd; rewrite length_vscale; auto.
    rewrite IH; auto.
Qed.

(* (M' v) . w = v . (M w) *)
Lemma dot_mtv n M : forall v w, rows_ok n M -> dot (mtv n M v) w == dot v (mv M w).
Proof.
  induction M as [|r M IH]; intros v w H; simpl.
  - rewrite dot_zeros_l, dot_nil_r. reflexivity.
  - destruct v as [|k v]; simpl.
    + apply dot_zeros_l.
    + inversion H; subst.
      rewrite dot_vadd_l by (rewrite length_vscale, length_mtv; auto).
      rewrite dot_vscale_l, IH by auto. reflexivity.
Qed.

Lemma dot_mv_vsub_r M : forall w x y, length x = length y ->
  dot w (mv M (vsub x y)) == dot w (mv M x) - dot w (mv M y).
Proof.
  induction M as [|r M IH]; intros [|k w] x y H; simpl; try ring.
  rewrite (dot_vsub_r r x y H), (IH w x y H). ring.
Qed.

Lemma dot_all0_r : forall w z, Forall (fun t => t == 0) z -> dot w z == 0.
Proof.
  induction w as [|k w IH]; intros [|t z] H; simpl; try reflexivity.
  inversion H; subst. rewrite IH by assumption. rewrite H2. ring.
Qed.

Lemma dot_all0_l z w : Forall (fun t => t == 0) z -> dot z w == 0.
Proof. intro H. rewrite dot_comm. now apply dot_all0_r. Qed.

Lemma dot_nonneg_nonpos : forall u w, Forall (fun t => 0 <= t) u -> Forall (fun t => t <= 0) w -> dot u w <= 0.
Proof.
  induction u as [|k u IH]; intros [|t w] Hu Hw; simpl; try lra.
  inversion Hu; inversion Hw; subst.
  specialize (IH w H2 H6). nra.
Qed.

Lemma norm1_nonneg v : 0 <= norm1 v.
Proof.
  induction v as [|k v IH]; simpl; [lra|].
  pose proof (Qabs_nonneg k). lra.
Qed.

(* |v . w| <= |v|_1 * max_i |w_i| *)
Lemma dot_abs_bound rho : forall v w, 0 <= rho -> Forall (fun t => Qabs t <= rho) w -> Qabs (dot v w) <= norm1 v * rho.
Proof.
  intros v w Hr. revert w.
  induction v as [|k v IH]; intros [|t w] H.
  - simpl. lra.
  - simpl. lra.
  - simpl. pose proof (norm1_nonneg v). pose proof (Qabs_nonneg k). nra.
  - inversion H; subst. specialize (IH w H3).
    change (dot (k :: v) (t :: w)) with (k * t + dot v w).
    change (norm1 (k :: v)) with (Qabs k + norm1 v).
    eapply Qle_trans; [apply Qabs_triangle|].
    rewrite Qabs_Qmult.
    pose proof (Qabs_nonneg k). pose proof (Qabs_nonneg t). nra.
Qed.

Lemma dot_le_bound delta : forall u w, 0 <= delta -> Forall (fun t => 0 <= t) u -> Forall (fun t => t <= delta) w ->
  dot u w <= norm1 u * delta.
Proof.
  intros u w Hd. revert w.
  induction u as [|k u IH]; intros [|t w] Hu Hw; simpl; try lra.
  - inversion Hu; subst. pose proof (norm1_nonneg u). rewrite Qabs_pos by assumption. nra.
  - inversion Hu; inversion Hw; subst. specialize (IH w H2 H6).
    rewrite Qabs_pos by assumption. nra.
Qed.

Lemma sumsq_nonneg a : 0 <= sumsq a.
Proof.
  unfold sumsq. induction a as [|x a IH]; simpl; [lra|]. nra.
Qed.

Lemma sumsq_ge_sq a : forall t, In t a -> t * t <= sumsq a.
Proof.
  unfold sumsq. induction a as [|x a IH]; intros t Hin; simpl in *; [contradiction|].
  destruct Hin as [->|Hin].
  - pose proof (sumsq_nonneg a). unfold sumsq in *. lra.
  - specialize (IH t Hin). nra.
Qed.

Lemma sq_nonneg (t : Q) : 0 <= t * t.
Proof. nra. Qed.

Lemma pos_mul_nonneg (B T : Q) : 0 < B -> 0 <= B * T -> 0 <= T.
Proof. intros HB H. destruct (Qlt_le_dec T 0) as [Hlt|]; [|assumption]. exfalso. nra. Qed.

(* 2 x y s <= x^2 B + y^2 A whenever s^2 <= A B *)
Lemma cs_step (x y s A B : Q) : 0 <= A -> 0 <= B -> s * s <= A * B -> 2 * (x * y * s) <= x * x * B + y * y * A.
Proof.
  intros HA HB IH.
  destruct (Qlt_le_dec 0 B) as [HB0|HB0].
  - assert (H1 : 0 <= (x * B - y * s) * (x * B - y * s)) by apply sq_nonneg.
    assert (H2 : 0 <= y * y * (A * B - s * s)).
    { apply Qmult_le_0_compat; [apply sq_nonneg|lra]. }
    assert (E : B * (x * x * B + y * y * A - 2 * (x * y * s)) == (x * B - y * s) * (x * B - y * s) + y * y * (A * B - s * s)) by ring.
    assert (H3 : 0 <= B * (x * x * B + y * y * A - 2 * (x * y * s))) by (rewrite E; lra).
    apply pos_mul_nonneg in H3; [lra|assumption].
  - assert (EB : B == 0) by lra.
    assert (S0 : s * s <= 0) by (rewrite EB in IH; lra).
    assert (Es : s == 0).
    { destruct (Qlt_le_dec s 0); destruct (Qlt_le_dec 0 s); try nra; lra. }
    rewrite Es, EB. pose proof (sq_nonneg y). nra.
Qed.

(* Cauchy-Schwarz (squared form; the square root is not rational) *)
Lemma cauchy_schwarz a : forall b, dot a b * dot a b <= sumsq a * sumsq b.
Proof.
  unfold sumsq. induction a as [|x a IH]; intros [|y b]; simpl; try nra.
  specialize (IH b).
  pose proof (sumsq_nonneg a) as HA. pose proof (sumsq_nonneg b) as HB. unfold sumsq in *.
  set (s := dot a b) in *. set (A := dot a a) in *. set (B := dot b b) in *.
  clearbody s A B.
  pose proof (cs_step x y s A B HA HB IH) as H.
  assert (E1 : (x * y + s) * (x * y + s) == x * x * (y * y) + 2 * (x * y * s) + s * s) by ring.
  assert (E2 : (x * x + A) * (y * y + B) == x * x * (y * y) + (x * x * B + y * y * A) + A * B) by ring.
  rewrite E1, E2. lra.
Qed.

(* |a . b| <= Ra * Rb whenever Ra, Rb bound the Euclidean norms *)
Lemma dot_le_norms a b Ra Rb : 0 <= Ra -> 0 <= Rb -> sumsq a <= Ra * Ra -> sumsq b <= Rb * Rb -> dot a b <= Ra * Rb.
Proof.
  intros HRa HRb Ha Hb.
  pose proof (cauchy_schwarz a b) as CS.
  pose proof (sumsq_nonneg a). pose proof (sumsq_nonneg b).
  assert (dot a b * dot a b <= (Ra * Rb) * (Ra * Rb)) by nra.
  destruct (Qlt_le_dec (Ra * Rb) (dot a b)) as [Hlt|]; [|assumption].
  assert (0 <= Ra * Rb) by nra. nra.
Qed.

(* ------------------------------------------------------------------------------------------------------------ *)
(* 2. well-formed programs, convexity of the objective                                                             *)
(* ------------------------------------------------------------------------------------------------------------ *)
Record wf (P : program) : Prop := mkWf {
  wf_Qrows : rows_ok (dim P) (pQ P);
  wf_Qsize : pQ P = [] \/ length (pQ P) = dim P;
  wf_Arows : rows_ok (dim P) (pA P);
  wf_b : length (pb P) = length (pA P);
  wf_Grows : rows_ok (dim P) (pG P);
  wf_h : length (ph P) = length (pG P) }.

(* Q symmetric positive semidefinite, as a bilinear form on vectors of the right size *)
Definition bil (P : program) (a b : vec) : Q := dot a (mv (pQ P) b).
Definition psd (P : program) : Prop :=
  (forall a b, length a = dim P -> length b = dim P -> bil P a b == bil P b a) /\
  (forall w, length w = dim P -> 0 <= bil P w w).

Lemma length_grad P x : wf P -> length (grad P x) = dim P.
Proof.
  intros W. unfold grad. destruct (pQ P) as [|r M] eqn:E; [reflexivity|].
  rewrite length_vadd; rewrite length_mv; destruct (wf_Qsize P W) as [H|H]; rewrite E in H; try discriminate; auto.
Qed.

Lemma dot_grad P x d : wf P -> dot (grad P x) d == bil P d x + dot (pc P) d.
Proof.
  intros W. unfold grad, bil. destruct (pQ P) as [|r M] eqn:E.
  - simpl. rewrite dot_nil_r. ring.
  - rewrite dot_vadd_l.
    + rewrite (dot_comm (mv (r :: M) x) d). reflexivity.
    + rewrite length_mv. destruct (wf_Qsize P W) as [H|H]; rewrite E in H; try discriminate; auto.
Qed.

Lemma bil_vsub_l P x y w : length x = length y -> bil P (vsub x y) w == bil P x w - bil P y w.
Proof. intro H. unfold bil. now apply dot_vsub_l. Qed.

Lemma bil_vsub_r P w x y : length x = length y -> bil P w (vsub x y) == bil P w x - bil P w y.
Proof. intro H. unfold bil. now apply dot_mv_vsub_r. Qed.

(* f(x) - f(y) - grad f(x).(x-y) = -1/2 (x-y)'Q(x-y)  and  f(x) - f(y) - grad f(y).(x-y) = +1/2 (x-y)'Q(x-y) *)
Lemma convex_at_x P x y : wf P -> psd P -> length x = dim P -> length y = dim P ->
  objective P x - objective P y <= dot (grad P x) (vsub x y).
Proof.
  intros W [Sym Pos] Hx Hy.
  assert (Hxy : length x = length y) by congruence.
  assert (Hd : length (vsub x y) = dim P) by (rewrite length_vsub; auto).
  rewrite dot_grad by assumption.
  specialize (Pos (vsub x y) Hd).
  rewrite bil_vsub_l, !bil_vsub_r in Pos by assumption.
  rewrite bil_vsub_l by assumption.
  rewrite (dot_comm (pc P) (vsub x y)), dot_vsub_l by assumption.
  unfold objective. fold (bil P x x). fold (bil P y y).
  pose proof (Sym x y Hx Hy) as S. lra.
Qed.

Lemma convex_at_y P x y : wf P -> psd P -> length x = dim P -> length y = dim P ->
  dot (grad P y) (vsub x y) <= objective P x - objective P y.
Proof.
  intros W [Sym Pos] Hx Hy.
  assert (Hxy : length x = length y) by congruence.
  assert (Hd : length (vsub x y) = dim P) by (rewrite length_vsub; auto).
  rewrite dot_grad by assumption.
  specialize (Pos (vsub x y) Hd).
  rewrite bil_vsub_l, !bil_vsub_r in Pos by assumption.
  rewrite bil_vsub_l by assumption.
  rewrite (dot_comm (pc P) (vsub x y)), dot_vsub_l by assumption.
  unfold objective. fold (bil P x x). fold (bil P y y).
  pose proof (Sym x y Hx Hy) as S. lra.
Qed.

(* the dual residual against a direction *)
Lemma dot_rdual P x u v d : wf P ->
  dot (m_rdual P x u v) d == dot (grad P x) d + dot v (mv (pA P) d) + dot u (mv (pG P) d).
Proof.
  intros W. unfold m_rdual.
  pose proof (length_grad P x W) as Lg.
  assert (E1 : dot (match pA P with [] => grad P x | _ => vadd (grad P x) (mtv (dim P) (pA P) v) end) d
               == dot (grad P x) d + dot v (mv (pA P) d)).
  { pose proof (wf_Arows P W) as RA. destruct (pA P) as [|r M] eqn:E.
    - simpl. rewrite dot_nil_r. ring.
    - rewrite dot_vadd_l by (rewrite length_mtv; auto). rewrite dot_mtv by assumption. reflexivity. }
  assert (L1 : length (match pA P with [] => grad P x | _ => vadd (grad P x) (mtv (dim P) (pA P) v) end) = dim P).
  { pose proof (wf_Arows P W) as RA. destruct (pA P) as [|r M] eqn:E; [assumption|].
    rewrite length_vadd; [assumption|]. rewrite length_mtv; auto. }
  pose proof (wf_Grows P W) as RG. destruct (pG P) as [|r M] eqn:E.
  - simpl. rewrite dot_nil_r, E1. ring.
  - rewrite dot_vadd_l by (rewrite length_mtv; auto). rewrite dot_mtv by assumption. rewrite E1. reflexivity.
Qed.

Definition feasible_pt (P : program) (y : vec) : Prop :=
  length y = dim P /\ Forall (fun t => t == 0) (m_rprim P y) /\ Forall (fun t => t <= 0) (gxh P y).

Lemma dot_mvA_diff P v x y : wf P -> length x = dim P -> length y = dim P ->
  dot v (mv (pA P) (vsub x y)) == dot v (m_rprim P x) - dot v (m_rprim P y).
Proof.
  intros W Hx Hy. unfold m_rprim.
  rewrite dot_mv_vsub_r by congruence.
  rewrite !dot_vsub_r by (rewrite length_mv; symmetry; apply (wf_b P W)). ring.
Qed.

Lemma dot_mvG_diff P u x y : wf P -> length x = dim P -> length y = dim P ->
  dot u (mv (pG P) (vsub x y)) == dot u (gxh P x) - dot u (gxh P y).
Proof.
  intros W Hx Hy. unfold gxh.
  rewrite dot_mv_vsub_r by congruence.
  rewrite !dot_vsub_r by (rewrite length_mv; symmetry; apply (wf_h P W)). ring.
Qed.

(* ------------------------------------------------------------------------------------------------------------ *)
(* 3. weak duality with residuals                                                                                 *)
(* ------------------------------------------------------------------------------------------------------------ *)
Lemma gap_upper P x u v y :
  wf P -> psd P -> length x = dim P -> Forall (fun t => 0 <= t) u -> feasible_pt P y ->
  objective P x - objective P y <= m_eta P x u + dot (m_rdual P x u v) (vsub x y) - dot v (m_rprim P x).
Proof.
  intros W PSD Hx Hu (Hy & HyA & HyG).
  eapply Qle_trans; [apply convex_at_x; assumption|].
  pose proof (dot_rdual P x u v (vsub x y) W) as R.
  rewrite dot_mvA_diff, dot_mvG_diff in R by assumption.
  rewrite (dot_all0_r v _ HyA) in R.
  pose proof (dot_nonneg_nonpos u _ Hu HyG) as S.
  unfold m_eta. lra.
Qed.

Lemma gap_upper_norms P x u v y Rd Dx Rp :
  wf P -> psd P -> length x = dim P -> Forall (fun t => 0 <= t) u -> feasible_pt P y ->
  0 <= Rd -> 0 <= Dx -> 0 <= Rp ->
  sumsq (m_rdual P x u v) <= Rd * Rd -> sumsq (vsub x y) <= Dx * Dx -> Forall (fun t => Qabs t <= Rp) (m_rprim P x) ->
  objective P x - objective P y <= m_eta P x u + Rd * Dx + norm1 v * Rp.
Proof.
  intros W PSD Hx Hu Fy HRd HDx HRp Hd Hxy Hp.
  eapply Qle_trans; [apply (gap_upper P x u v y); assumption|].
  pose proof (dot_le_norms _ _ Rd Dx HRd HDx Hd Hxy) as H1.
  pose proof (dot_abs_bound Rp v _ HRp Hp) as H2.
  pose proof (Qle_Qabs (- dot v (m_rprim P x))) as H3. rewrite Qabs_opp in H3. lra.
Qed.

(* the other side: a KKT point (y, us, vs) of the program *)
Definition kkt_pt (P : program) (y us vs : vec) : Prop :=
  feasible_pt P y /\ Forall (fun t => 0 <= t) us /\ Forall (fun t => t == 0) (m_rdual P y us vs) /\
  dot us (gxh P y) == 0.

Lemma gap_lower P x y us vs :
  wf P -> psd P -> length x = dim P -> kkt_pt P y us vs ->
  - dot vs (m_rprim P x) - dot us (gxh P x) <= objective P x - objective P y.
Proof.
  intros W PSD Hx ((Hy & HyA & HyG) & Hus & Hst & Hcs).
  eapply Qle_trans; [|apply convex_at_y; assumption].
  pose proof (dot_rdual P y us vs (vsub x y) W) as R.
  rewrite dot_mvA_diff, dot_mvG_diff in R by assumption.
  rewrite (dot_all0_r vs _ HyA) in R.
  rewrite (dot_all0_l _ (vsub x y) Hst) in R. lra.
Qed.

Lemma gap_lower_bounds P x y us vs rho delta :
  wf P -> psd P -> length x = dim P -> kkt_pt P y us vs -> 0 <= rho -> 0 <= delta ->
  Forall (fun t => Qabs t <= rho) (m_rprim P x) -> Forall (fun t => t <= delta) (gxh P x) ->
  - (norm1 vs * rho) - norm1 us * delta <= objective P x - objective P y.
Proof.
  intros W PSD Hx K Hr Hd HA HG.
  eapply Qle_trans; [|apply (gap_lower P x y us vs); assumption].
  destruct K as (_ & Hus & _ & _).
  pose proof (dot_abs_bound rho vs _ Hr HA) as H1.
  pose proof (dot_le_bound delta us _ Hd Hus HG) as H2.
  pose proof (Qle_Qabs (dot vs (m_rprim P x))) as H3. lra.
Qed.

(* ------------------------------------------------------------------------------------------------------------ *)
(* 4. the decisions (translated expressions at the order embedding)                                               *)
(* ------------------------------------------------------------------------------------------------------------ *)
Lemma phi_nonneg t : 0 <= t -> phi t == t * t.
Proof.
  intro H. unfold phi. destruct (Qle_bool 0 t) eqn:E; [reflexivity|].
  apply Qle_bool_iff in H. congruence.
Qed.

Lemma phi_lt a b : a < b <-> phi a < phi b.
Proof.
  unfold phi.
  destruct (Qle_bool 0 a) eqn:Ea; destruct (Qle_bool 0 b) eqn:Eb;
    try (apply Qle_bool_iff in Ea); try (apply Qle_bool_iff in Eb);
    try (assert (Na : a < 0) by (apply Qnot_le_lt; intro H; apply Qle_bool_iff in H; congruence));
    try (assert (Nb : b < 0) by (apply Qnot_le_lt; intro H; apply Qle_bool_iff in H; congruence));
    split; intro H; nra.
Qed.

Lemma phi_lt_sq r2 e : 0 <= e -> (r2 < phi e <-> r2 < e * e).
Proof. intro H. rewrite (phi_nonneg e H). reflexivity. Qed.

Lemma Zpos_mul3 a b c : Zpos (a * b * c) = (Zpos a * Zpos b * Zpos c)%Z.
Proof. now rewrite !Pos2Z.inj_mul. Qed.

Lemma zs4_order a b c d : forall z1 z2 z3 z4, zs4 a b c d = (z1, z2, z3, z4) ->
  ((z1 < z4)%Z <-> a < d) /\ ((z2 < z4)%Z <-> b < d) /\ ((z3 < z4)%Z <-> c < d) /\
  ((z1 < z3)%Z <-> a < c) /\ ((z2 < z3)%Z <-> b < c).
Proof.
  intros z1 z2 z3 z4 E. unfold zs4 in E. injection E as <- <- <- <-.
  rewrite !Zpos_mul3. unfold Qlt.
  destruct a as [na da], b as [nb db], c as [nc dc], d as [nd dd]. simpl.
  assert (Pa : (0 < Zpos da)%Z) by reflexivity. assert (Pb : (0 < Zpos db)%Z) by reflexivity.
  assert (Pc : (0 < Zpos dc)%Z) by reflexivity. assert (Pd : (0 < Zpos dd)%Z) by reflexivity.
  repeat split; intro H.
  - apply (Z.mul_lt_mono_pos_r (Zpos db * Zpos dc)); [lia|]. lia.
  - apply (Z.mul_lt_mono_pos_r (Zpos db * Zpos dc)) in H; [|lia]. lia.
  - apply (Z.mul_lt_mono_pos_r (Zpos da * Zpos dc)); [lia|]. lia.
  - apply (Z.mul_lt_mono_pos_r (Zpos da * Zpos dc)) in H; [|lia]. lia.
  - apply (Z.mul_lt_mono_pos_r (Zpos da * Zpos db)); [lia|]. lia.
  - apply (Z.mul_lt_mono_pos_r (Zpos da * Zpos db)) in H; [|lia]. lia.
  - apply (Z.mul_lt_mono_pos_r (Zpos db * Zpos dd)); [lia|]. lia.
  - apply (Z.mul_lt_mono_pos_r (Zpos db * Zpos dd)) in H; [|lia]. lia.
  - apply (Z.mul_lt_mono_pos_r (Zpos da * Zpos dd)); [lia|]. lia.
  - apply (Z.mul_lt_mono_pos_r (Zpos da * Zpos dd)) in H; [|lia]. lia.
Qed.

Lemma converged_dec_iff feas eta rd2 rp2 eps : 0 <= eps ->
  (converged_dec feas eta rd2 rp2 eps = true <->
   feas = true /\ eta < eps /\ rd2 < eps * eps /\ rp2 < eps * eps).
Proof.
  intro He. unfold converged_dec.
  destruct (zs4 (phi eta) rd2 rp2 (phi eps)) as [[[z1 z2] z3] z4] eqn:E.
  destruct (zs4_order _ _ _ _ _ _ _ _ E) as (H1 & H2 & H3 & _ & _).
  unfold src_c04_converged.
  rewrite andb_true_iff, Z.ltb_lt, !Z.max_lub_lt_iff, H1, H2, H3.
  rewrite <- phi_lt, !(phi_lt_sq _ eps He). tauto.
Qed.

Lemma status_dec_converged feas eta rd2 rp2 eps :
  status_dec feas eta rd2 rp2 eps = st_converged <-> converged_dec feas eta rd2 rp2 eps = true.
Proof.
  unfold status_dec. destruct (converged_dec feas eta rd2 rp2 eps).
  - tauto.
  - unfold src_c04_else_status, st_converged. destruct feas; split; intro H; discriminate.
Qed.

Lemma fold_Qmax_lt e : forall r x, fold_left Qmax r x < e <-> x < e /\ Forall (fun t => t < e) r.
Proof.
  induction r as [|y r IH]; intro x; simpl.
  - split; [intro H; split; [assumption|constructor]|tauto].
  - rewrite IH, Q.max_lub_lt_iff. split.
    + intros [[H1 H2] H3]. split; [assumption|constructor; assumption].
    + intros [H1 H2]. inversion H2; subst. tauto.
Qed.

Lemma vmaxc_lt a e : a <> [] -> (vmaxc a < e <-> Forall (fun t => t < e) a).
Proof.
  destruct a as [|x r]; [congruence|intros _]. unfold vmaxc. rewrite fold_Qmax_lt.
  split; [intros [H1 H2]; constructor; assumption|intro H; inversion H; subst; tauto].
Qed.

Lemma feasible_dec_iff P x e2 : 0 <= e2 ->
  (feasible_dec P x e2 = true <->
   (pA P = [] \/ sumsq (m_rprim P x) < e2 * e2) /\ (pG P = [] \/ vmaxc (gxh P x) < e2)).
Proof.
  intro He. unfold feasible_dec.
  destruct (zs4 (sumsq (m_rprim P x)) (phi (vmaxc (gxh P x))) (phi e2) 0) as [[[z1 z2] z3] z4] eqn:E.
  destruct (zs4_order _ _ _ _ _ _ _ _ E) as (_ & _ & _ & H1 & H2).
  unfold src_c04_feasible.
  rewrite andb_true_iff, !orb_true_iff, !Z.ltb_lt, !Z.eqb_eq, H1, H2.
  rewrite <- phi_lt, (phi_lt_sq _ e2 He).
  assert (LA : Z.of_nat (length (pA P)) = 0%Z <-> pA P = []) by (destruct (pA P); simpl; split; intro; try lia; congruence).
  assert (LG : Z.of_nat (length (pG P)) = 0%Z <-> pG P = []) by (destruct (pG P); simpl; split; intro; try lia; congruence).
  rewrite LA, LG. tauto.
Qed.

(* ------------------------------------------------------------------------------------------------------------ *)
(* 5. normalisation                                                                                              *)
(* ------------------------------------------------------------------------------------------------------------ *)
Lemma dot_vdiv_l d r : forall x, dot (vdiv d r) x == dot r x / d.
Proof.
  induction r as [|a r IH]; intros [|y x]; simpl; try (unfold Qdiv; ring).
  rewrite IH. unfold Qdiv. ring.
Qed.

Lemma length_vdiv d v : length (vdiv d v) = length v.
Proof. apply map_length. Qed.

Lemma Forall2_mv_mdiv d M x : Forall2 (fun t' t => t' == t / d) (mv (mdiv d M) x) (mv M x).
Proof.
  induction M as [|r M IH]; simpl; constructor; [apply dot_vdiv_l|assumption].
Qed.

Lemma Forall2_vsub_div d : forall a' a b, Forall2 (fun t' t => t' == t / d) a' a ->
  Forall2 (fun t' t => t' == t / d) (vsub a' (vdiv d b)) (vsub a b).
Proof.
  intros a' a b H. revert b. induction H as [|t' t a' a Ht H IH]; intros [|s b]; simpl; constructor.
  - rewrite Ht. unfold Qdiv. ring.
  - apply IH.
Qed.

Lemma rprim_normalize dQ dA dG P x :
  Forall2 (fun t' t => t' == t / dA) (m_rprim (normalizeP dQ dA dG P) x) (m_rprim P x).
Proof. unfold m_rprim. simpl. apply Forall2_vsub_div, Forall2_mv_mdiv. Qed.

Lemma gxh_normalize dQ dA dG P x :
  Forall2 (fun t' t => t' == t / dG) (gxh (normalizeP dQ dA dG P) x) (gxh P x).
Proof. unfold gxh. simpl. apply Forall2_vsub_div, Forall2_mv_mdiv. Qed.

Lemma Forall2_transfer (R : Q -> Q -> Prop) (A B : Q -> Prop) : forall a' a,
  (forall t' t, R t' t -> (A t' <-> B t)) -> Forall2 R a' a -> (Forall A a' <-> Forall B a).
Proof.
  intros a' a HR H. induction H as [|t' t a' a Ht H IH].
  - split; constructor.
  - split; intro F; inversion F; subst; constructor; try (apply (HR _ _ Ht)); try (apply IH); assumption.
Qed.

Lemma bil_normalize dQ dA dG P a b : bil (normalizeP dQ dA dG P) a b == bil P a b / dQ.
Proof.
  unfold bil. simpl. revert a. induction (pQ P) as [|r M IH]; intros [|k a]; simpl; try (unfold Qdiv; ring).
  rewrite IH, dot_vdiv_l. unfold Qdiv. ring.
Qed.

Lemma objective_normalize dQ dA dG P x : objective (normalizeP dQ dA dG P) x == objective P x / dQ.
Proof.
  unfold objective. fold (bil (normalizeP dQ dA dG P) x x). fold (bil P x x).
  rewrite bil_normalize. simpl. rewrite (dot_comm x (vdiv dQ (pc P))), dot_vdiv_l, (dot_comm (pc P) x).
  unfold Qdiv. ring.
Qed.

Lemma dim_normalize dQ dA dG P : dim (normalizeP dQ dA dG P) = dim P.
Proof. unfold dim. simpl. apply length_vdiv. Qed.

Lemma feasible_pt_normalize dQ dA dG P y : 0 < dA -> 0 < dG ->
  (feasible_pt (normalizeP dQ dA dG P) y <-> feasible_pt P y).
Proof.
  intros HA HG. unfold feasible_pt. rewrite dim_normalize.
  assert (IA : 0 < / dA) by (apply Qinv_lt_0_compat; assumption).
  assert (IG : 0 < / dG) by (apply Qinv_lt_0_compat; assumption).
  assert (E1 : Forall (fun t => t == 0) (m_rprim (normalizeP dQ dA dG P) y) <-> Forall (fun t => t == 0) (m_rprim P y)).
  { apply (Forall2_transfer (fun t' t => t' == t / dA)); [|apply rprim_normalize].
    intros t' t H. rewrite H. split; intro E.
    - assert (E' : t == t / dA * dA) by (field; lra). rewrite E', E. ring.
    - rewrite E. unfold Qdiv. ring. }
  assert (E2 : Forall (fun t => t <= 0) (gxh (normalizeP dQ dA dG P) y) <-> Forall (fun t => t <= 0) (gxh P y)).
  { apply (Forall2_transfer (fun t' t => t' == t / dG)); [|apply gxh_normalize].
    intros t' t H. rewrite H. unfold Qdiv. split; intro E.
    - assert (E' : t == t * / dG * dG) by (field; lra). rewrite E'. nra.
    - nra. }
  rewrite E1, E2. reflexivity.
Qed.

Definition is_min (P : program) (y : vec) : Prop :=
  feasible_pt P y /\ forall z, feasible_pt P z -> objective P y <= objective P z.

Lemma normalize_equiv dQ dA dG P : 0 < dQ -> 0 < dA -> 0 < dG ->
  (forall y, feasible_pt (normalizeP dQ dA dG P) y <-> feasible_pt P y) /\
  (forall x, objective P x == dQ * objective (normalizeP dQ dA dG P) x) /\
  (forall y, is_min (normalizeP dQ dA dG P) y <-> is_min P y).
Proof.
  intros HQ HA HG.
  assert (F : forall y, feasible_pt (normalizeP dQ dA dG P) y <-> feasible_pt P y)
    by (intro y; apply feasible_pt_normalize; assumption).
  assert (O : forall x, objective P x == dQ * objective (normalizeP dQ dA dG P) x)
    by (intro x; rewrite objective_normalize; field; lra).
  split; [exact F|]. split; [exact O|].
  intro y. unfold is_min. rewrite F. split; intros [Fy M]; split; try assumption; intros z Fz.
  - apply F in Fz. specialize (M z Fz). rewrite (O y), (O z). nra.
  - apply F in Fz. specialize (M z Fz). rewrite (O y), (O z) in M. nra.
Qed.

(* ------------------------------------------------------------------------------------------------------------ *)
(* 6. the internal feasibility test transfers to the caller's program                                             *)
(* ------------------------------------------------------------------------------------------------------------ *)
Lemma forallb_Forall {A} (f : A -> bool) (P : A -> Prop) l : (forall a, P a -> f a = true) -> Forall P l -> forallb f l = true.
Proof. intros H F. induction F; simpl; [reflexivity|]. rewrite H, IHF; auto. Qed.

Lemma Qltb_true a b : a < b -> Qltb a b = true.
Proof.
  intro H. unfold Qltb. destruct (Qle_bool b a) eqn:E; [|reflexivity].
  apply Qle_bool_iff in E. lra.
Qed.

Lemma Forall2_Forall_impl (R : Q -> Q -> Prop) (A B : Q -> Prop) : forall a' a,
  (forall t' t, R t' t -> A t' -> B t) -> Forall2 R a' a -> Forall A a' -> Forall B a.
Proof.
  intros a' a HR H. induction H as [|t' t a' a Ht H IH]; intro F; [constructor|].
  inversion F; subst. constructor; [apply (HR _ _ Ht)|apply IH]; assumption.
Qed.

Lemma Forall_sq_lt a e : 0 < e -> sumsq a < e * e -> Forall (fun t => Qabs t < e) a.
Proof.
  intros He H. apply Forall_forall. intros t Hin.
  pose proof (sumsq_ge_sq a t Hin) as S.
  apply Qabs_case; intro Ht; nra.
Qed.

Lemma feasible_transfer dQ dA dG P x e2 : 0 < dA -> 0 < dG -> 0 < e2 ->
  feasible_dec (normalizeP dQ dA dG P) x e2 = true ->
  user_feasible_b P x (e2 * dA) (e2 * dG) = true.
Proof.
  intros HA HG He H. apply feasible_dec_iff in H; [|lra]. destruct H as [H1 H2].
  assert (IA : 0 < / dA) by (apply Qinv_lt_0_compat; assumption).
  assert (IG : 0 < / dG) by (apply Qinv_lt_0_compat; assumption).
  unfold user_feasible_b. apply andb_true_iff. split.
  - apply (forallb_Forall _ (fun t => Qabs t < e2 * dA)); [intros a; apply Qltb_true|].
    pose proof (rprim_normalize dQ dA dG P x) as R.
    destruct H1 as [H1|H1].
    + simpl in H1. unfold m_rprim. destruct (pA P); [|discriminate]. simpl. constructor.
    + assert (HR : forall t' t, t' == t / dA -> Qabs t' < e2 -> Qabs t < e2 * dA).
      { intros t' t E B. rewrite E in B. unfold Qdiv in B. rewrite Qabs_Qmult in B.
        rewrite (Qabs_pos (/ dA)) in B by lra.
        assert (E' : Qabs t == Qabs t * / dA * dA) by (field; lra).
        rewrite E'. nra. }
      exact (Forall2_Forall_impl (fun t' t => t' == t / dA) (fun t => Qabs t < e2) (fun t => Qabs t < e2 * dA) _ _
               HR R (Forall_sq_lt _ e2 He H1)).
  - apply (forallb_Forall _ (fun t => t < e2 * dG)); [intros a; apply Qltb_true|].
    pose proof (gxh_normalize dQ dA dG P x) as R.
    destruct H2 as [H2|H2].
    + simpl in H2. unfold gxh. destruct (pG P); [|discriminate]. simpl. constructor.
    + destruct (gxh (normalizeP dQ dA dG P) x) as [|g0 gr] eqn:Eg.
      * inversion R. constructor.
      * apply vmaxc_lt in H2; [|discriminate].
        assert (HR : forall t' t, t' == t / dG -> t' < e2 -> t < e2 * dG).
        { intros t' t E B. rewrite E in B. unfold Qdiv in B.
          assert (E' : t == t * / dG * dG) by (field; lra).
          rewrite E'. nra. }
        exact (Forall2_Forall_impl (fun t' t => t' == t / dG) (fun t => t < e2) (fun t => t < e2 * dG) _ _ HR R H2).
Qed.

Lemma never_converged_if_infeasible dQ dA dG P e2 eps : 0 < dA -> 0 < dG -> 0 < e2 ->
  (forall x, user_feasible_b P x (e2 * dA) (e2 * dG) = false) ->
  forall x eta rdual rprim, model_done (normalizeP dQ dA dG P) x eta rdual rprim eps e2 <> st_converged.
Proof.
  intros HA HG He Hinf x eta rdual rprim H.
  unfold model_done in H. apply status_dec_converged in H.
  unfold converged_dec in H.
  destruct (zs4 (phi eta) (sumsq rdual) (sumsq rprim) (phi eps)) as [[[z1 z2] z3] z4].
  unfold src_c04_converged in H. apply andb_true_iff in H. destruct H as [H _].
  apply (feasible_transfer dQ dA dG P x e2 HA HG He) in H. rewrite Hinf in H. discriminate.
Qed.

(* ------------------------------------------------------------------------------------------------------------ *)
(* 7. a state that the model declares converged is eps-optimal                                                    *)
(* ------------------------------------------------------------------------------------------------------------ *)
Lemma converged_gap P x u v y eps e2 Dx :
  wf P -> psd P -> length x = dim P -> Forall (fun t => 0 <= t) u -> feasible_pt P y ->
  0 < eps -> 0 <= Dx -> sumsq (vsub x y) <= Dx * Dx ->
  model_status P x u v eps e2 = st_converged ->
  objective P x - objective P y <= eps * (1 + Dx + norm1 v).
Proof.
  intros W PSD Hx Hu Fy He HDx Hxy H.
  unfold model_status, model_done in H. apply status_dec_converged in H.
  apply converged_dec_iff in H; [|lra]. destruct H as (_ & Heta & Hrd & Hrp).
  pose proof (Forall_sq_lt _ eps He Hrp) as Hp.
  assert (Hp' : Forall (fun t => Qabs t <= eps) (m_rprim P x))
    by (eapply Forall_impl; [|exact Hp]; intros a Ha; simpl in Ha; lra).
  pose proof (gap_upper_norms P x u v y eps Dx eps W PSD Hx Hu Fy) as G.
  assert (G' : objective P x - objective P y <= m_eta P x u + eps * Dx + norm1 v * eps) by (apply G; try lra; assumption).
  lra.
Qed.

(* ... and, through the normalisation, on the caller's program with the factor M = dQ of the property text *)
Lemma converged_gap_user dQ dA dG P x u v y eps e2 Dx :
  wf (normalizeP dQ dA dG P) -> psd (normalizeP dQ dA dG P) -> 0 < dQ -> 0 < dA -> 0 < dG ->
  length x = dim P -> Forall (fun t => 0 <= t) u -> feasible_pt P y ->
  0 < eps -> 0 <= Dx -> sumsq (vsub x y) <= Dx * Dx ->
  model_status (normalizeP dQ dA dG P) x u v eps e2 = st_converged ->
  objective P x - objective P y <= dQ * eps * (1 + Dx + norm1 v).
Proof.
  intros W PSD HQ HA HG Hx Hu Fy He HDx Hxy H.
  destruct (normalize_equiv dQ dA dG P HQ HA HG) as (F & O & _).
  apply F in Fy. rewrite <- (dim_normalize dQ dA dG P) in Hx.
  pose proof (converged_gap _ x u v y eps e2 Dx W PSD Hx Hu Fy He HDx Hxy H) as G.
  rewrite (O x), (O y).
  assert (0 <= 1 + Dx + norm1 v) by (pose proof (norm1_nonneg v); lra).
  nra.
Qed.

(* ------------------------------------------------------------------------------------------------------------ *)
(* 8. a descent ray steeper than eps forbids `converged`; the reported objective is the caller's objective      *)
(* ------------------------------------------------------------------------------------------------------------ *)
Lemma Qltb_lt a b : Qltb a b = true <-> a < b.
Proof.
  unfold Qltb. split; intro H.
  - destruct (Qle_bool b a) eqn:E; [discriminate|].
    apply Qnot_le_lt. intro L. apply Qle_bool_iff in L. congruence.
  - apply Qltb_true. assumption.
Qed.

(* d is a recession direction of the feasible set along which the objective is linear with slope c.d *)
Definition ray (P : program) (d : vec) : Prop :=
  length d = dim P /\ Forall (fun t => t == 0) (mv (pA P) d) /\ Forall (fun t => t <= 0) (mv (pG P) d) /\
  Forall (fun t => t == 0) (mv (pQ P) d).

Lemma rdual_along_ray P x u v d : wf P -> psd P -> length x = dim P -> Forall (fun t => 0 <= t) u -> ray P d ->
  dot (m_rdual P x u v) d <= dot (pc P) d.
Proof.
  intros W [Sym _] Hx Hu (Hd & RA & RG & RQ).
  rewrite dot_rdual, dot_grad by assumption.
  rewrite (dot_all0_r v _ RA).
  pose proof (dot_nonneg_nonpos u _ Hu RG) as S.
  rewrite (Sym d x Hd Hx). unfold bil. rewrite (dot_all0_r x _ RQ). lra.
Qed.

Lemma never_converged_if_steep_ray P x u v d eps e2 Dd :
  wf P -> psd P -> length x = dim P -> Forall (fun t => 0 <= t) u -> ray P d ->
  0 < eps -> 0 <= Dd -> sumsq d <= Dd * Dd -> dot (pc P) d < - (eps * Dd) ->
  model_status P x u v eps e2 <> st_converged.
Proof.
  intros W PSD Hx Hu R He HD Hd Hc H.
  unfold model_status, model_done in H. apply status_dec_converged in H.
  apply converged_dec_iff in H; [|lra]. destruct H as (_ & _ & Hrd & _).
  pose proof (rdual_along_ray P x u v d W PSD Hx Hu R) as S.
  pose proof (cauchy_schwarz (m_rdual P x u v) d) as CS.
  pose proof (sumsq_nonneg (m_rdual P x u v)) as N1. pose proof (sumsq_nonneg d) as N2.
  set (s := dot (m_rdual P x u v) d) in *. set (r2 := sumsq (m_rdual P x u v)) in *. set (d2 := sumsq d) in *.
  clearbody s r2 d2.
  assert (A1 : s < - (eps * Dd)) by lra.
  assert (A2 : 0 <= eps * Dd) by nra.
  assert (A3 : (eps * Dd) * (eps * Dd) < s * s) by nra.
  assert (A4 : r2 * d2 <= (eps * eps) * (Dd * Dd)).
  { assert (B1 : r2 * d2 <= r2 * (Dd * Dd)) by nra.
    assert (B2 : 0 <= Dd * Dd) by apply sq_nonneg.
    assert (B3 : r2 * (Dd * Dd) <= (eps * eps) * (Dd * Dd)) by nra.
    lra. }
  assert (A5 : (eps * Dd) * (eps * Dd) == (eps * eps) * (Dd * Dd)) by ring.
  lra.
Qed.

Lemma objective_reported dQ dA dG P x : 0 < dQ -> m_fx dQ (normalizeP dQ dA dG P) x == objective P x.
Proof.
  intro H. unfold m_fx. rewrite objective_normalize. field. lra.
Qed.
