(* C14 (second extension) -- accuracy of the one-pass statistics and the ADVERTISED properties of the scaled columns in
   binary64 (standard model of C14_Float.v; rnd, u, g n = (1+u)^n - 1, approx).

   1. products of approximations; sums folded left to right (update() is sequential scalar code: a fixed left comb)
   2. mean:      |rnd (s / N) - S / N| <= g N * A / N                         (A = sum |x_i|)
   3. variance:  |v - var| <= (g (N+2) Q + g (2N+2) A^2/N) / (N-1)            (Q = sum x_i^2; the tree of done())
   4. deviation: sd = sqrt (max v 0) (1 + e), hence bounds for sd^2 and |sd - sqrt var| <= u sd_x + (1+u) sqrt E
   5. scaled column y_i = rnd (rnd (x_i - m) * d): sum (zero mean), range, sample variance (unit deviation)
   6. the dot product of linear::predict in any order
   7. bridge: the twin's accumulators / record / scaled values are these real expressions *)
From Coq Require Import ZArith Reals Lra Lia Psatz List Bool Floats Permutation.
From Flocq Require Import Core Relative Plus_error BinarySingleNaN.
From Flocq Require PrimFloat.
From LNGen Require Import Src_dstats Src_dstatsf.
From LN Require Import C14_Defs C14_FloatDefs C14_Float C14_Float2Defs.
Import ListNotations.
Local Open Scope R_scope.
Local Notation sqrt := R_sqrt.sqrt.

Local Instance prec53_gt_0' : Prec_gt_0 53. Proof. reflexivity. Qed.
Local Instance fexp64_valid' : Valid_exp fexp64. Proof. apply FLT_exp_valid. reflexivity. Qed.

(* ------------------------------------------------------------------------------------------------------------------- *)
(* 1. products, folded sums                                                                                            *)
(* ------------------------------------------------------------------------------------------------------------------- *)
Lemma g_mul k1 k2 : g (k1 + k2) = g k1 * g k2 + g k1 + g k2.
Proof. unfold g. rewrite pow_add. ring. Qed.

Lemma approx_mul k1 k2 y1 Y1 M1 y2 Y2 M2 :
  approx k1 y1 Y1 M1 -> approx k2 y2 Y2 M2 -> approx (k1 + k2) (y1 * y2) (Y1 * Y2) (M1 * M2).
Proof.
  intros [A1 A2] [B1 B2].
  pose proof (Rabs_pos Y1). pose proof (Rabs_pos Y2). pose proof (g_nonneg k1). pose proof (g_nonneg k2).
  pose proof (Rabs_pos (y1 - Y1)). pose proof (Rabs_pos (y2 - Y2)).
  split.
  - replace (y1 * y2 - Y1 * Y2) with ((y1 - Y1) * (y2 - Y2) + (y1 - Y1) * Y2 + Y1 * (y2 - Y2)) by ring.
    eapply Rle_trans; [apply Rabs_triang|]. eapply Rle_trans; [apply Rplus_le_compat_r, Rabs_triang|].
    rewrite !Rabs_mult, g_mul.
    assert (Rabs (y1 - Y1) * Rabs (y2 - Y2) <= (g k1 * M1) * (g k2 * M2)) by (apply Rmult_le_compat; lra).
    assert (Rabs (y1 - Y1) * Rabs Y2 <= (g k1 * M1) * M2) by (apply Rmult_le_compat; lra).
    assert (Rabs Y1 * Rabs (y2 - Y2) <= M1 * (g k2 * M2)) by (apply Rmult_le_compat; lra).
    replace ((g k1 * g k2 + g k1 + g k2) * (M1 * M2))
      with ((g k1 * M1) * (g k2 * M2) + (g k1 * M1) * M2 + M1 * (g k2 * M2)) by ring.
    lra.
  - rewrite Rabs_mult. apply Rmult_le_compat; lra.
Qed.

Lemma approx_div k y Y M c : c <> 0 -> approx k y Y M -> approx k (y / c) (Y / c) (M / Rabs c).
Proof.
  intros Hc A. unfold Rdiv. rewrite (Rmult_comm y), (Rmult_comm Y), (Rmult_comm M), <- Rabs_inv.
  now apply approx_scale.
Qed.

Lemma approx_sub k y1 Y1 M1 y2 Y2 M2 :
  approx k y1 Y1 M1 -> approx k y2 Y2 M2 -> approx k (y1 - y2) (Y1 - Y2) (M1 + M2).
Proof. intros A B. unfold Rminus. apply approx_add; [exact A|now apply approx_opp]. Qed.

Lemma rabssum_cons x l : rabssum (x :: l) = Rabs x + rabssum l.
Proof. reflexivity. Qed.

(* update(): m_mean += value ; m_stdev += value * value *)
Definition step_sum (s x : R) : R := rnd (s + x).
Definition sqr (x : R) : R := rnd (x * x).
Definition step_sq (s x : R) : R := rnd (s + rnd (x * x)).
Definition sumR (l : list R) : R := fold_left step_sum l 0.
Definition sqR (l : list R) : R := fold_left step_sq l 0.
Definition sqs (l : list R) : list R := map (fun x => x * x) l.

Lemma fold_sum_fmt l s : fmt s -> fmt (fold_left step_sum l s).
Proof. revert s; induction l as [|x l IH]; simpl; intros s F; [exact F|]. apply IH, rnd_fmt. Qed.

Lemma fold_sum_approx l : forall k s T M, fmt s -> Forall fmt l -> approx k s T M ->
  approx (k + length l) (fold_left step_sum l s) (T + rsum l) (M + rabssum l).
Proof.
  induction l as [|x l IH]; intros k s T M Fs Fl A.
  - simpl. unfold rabssum; simpl. rewrite Nat.add_0_r, !Rplus_0_r. exact A.
  - inversion Fl as [|? ? Fx Fl']; subst.
    destruct (model_add s x Fs Fx) as (e & He & E).
    simpl fold_left. simpl length. simpl rsum. rewrite rabssum_cons.
    replace (k + Datatypes.S (length l))%nat with (Datatypes.S k + length l)%nat by lia.
    replace (T + (x + rsum l)) with ((T + x) + rsum l) by ring.
    replace (M + (Rabs x + rabssum l)) with ((M + Rabs x) + rabssum l) by ring.
    apply IH; [apply rnd_fmt|exact Fl'|].
    unfold step_sum. rewrite E. apply approx_round; [exact He|].
    apply approx_add; [exact A|]. eapply approx_weaken; [| |apply approx_exact]; [lia|lra].
Qed.

(* the running sum of n numbers of the format: n - 1 effective roundings (0 + x_1 is exact) *)
Lemma sumR_approx l : Forall fmt l -> approx (length l - 1) (sumR l) (rsum l) (rabssum l).
Proof.
  intros F. destruct l as [|x l].
  - unfold sumR; simpl. unfold rabssum; simpl. apply approx_exact_0 || (split; [rewrite Rminus_0_r, Rabs_R0, g_0; lra|rewrite Rabs_R0; lra]).
  - inversion F as [|? ? Fx Fl]; subst.
    unfold sumR. simpl fold_left. unfold step_sum at 2. rewrite Rplus_0_l, (rnd_id _ Fx).
    simpl length. replace (Datatypes.S (length l) - 1)%nat with (0 + length l)%nat by lia.
    simpl rsum. rewrite rabssum_cons. apply fold_sum_approx; [exact Fx|exact Fl|apply approx_exact].
Qed.
Lemma sumR_fmt l : fmt (sumR l).
Proof. apply fold_sum_fmt, fmt_0. Qed.

Lemma fold_sq_as_sum l : forall s, fold_left step_sq l s = fold_left step_sum (map sqr l) s.
Proof. induction l as [|x l IH]; intros s; simpl; [reflexivity|]. apply IH. Qed.

Lemma rsum_sqs_nonneg l : 0 <= rsum (sqs l).
Proof. induction l; simpl; [lra|]. nra. Qed.
Lemma rabssum_sqs l : rabssum (sqs l) = rsum (sqs l).
Proof.
  unfold rabssum, sqs. induction l; simpl; [reflexivity|]. rewrite IHl. f_equal. apply Rabs_pos_eq. nra.
Qed.

Lemma sqr_list_approx l : Forall (fun x => NU (x * x)) l ->
  Rabs (rsum (map sqr l) - rsum (sqs l)) <= g 1 * rsum (sqs l) /\ rabssum (map sqr l) <= (1 + u) * rsum (sqs l).
Proof.
  induction 1 as [|x l N _ IH]; simpl.
  - unfold rabssum; simpl. replace (0 - 0) with 0 by ring. rewrite Rabs_R0. split; lra.
  - destruct IH as [I1 I2]. destruct (model_NU _ N) as (e & He & E).
    rewrite rabssum_cons. unfold sqr at 1 3. rewrite E. rewrite g_1 in *.
    assert (P : 0 <= x * x) by nra. apply Rabs_le_inv in He.
    pose proof u_pos. pose proof u_small. split.
    + replace (x * x * (1 + e) + rsum (map sqr l) - (x * x + rsum (sqs l)))
        with (x * x * e + (rsum (map sqr l) - rsum (sqs l))) by ring.
      eapply Rle_trans; [apply Rabs_triang|]. rewrite Rabs_mult, (Rabs_pos_eq _ P).
      assert (Rabs e <= u) by (apply Rabs_le; lra).
      assert (x * x * Rabs e <= x * x * u) by (apply Rmult_le_compat_l; lra). lra.
    + rewrite Rabs_mult, (Rabs_pos_eq _ P), Rabs_pos_eq by lra.
      assert (x * x * (1 + e) <= x * x * (1 + u)) by (apply Rmult_le_compat_l; lra). lra.
Qed.

(* the running sum of squares: n roundings per term (the product, n - 1 effective additions) *)
Lemma sqR_approx l : (1 <= length l)%nat -> Forall (fun x => NU (x * x)) l ->
  approx (length l) (sqR l) (rsum (sqs l)) (rsum (sqs l)).
Proof.
  intros Hn N. unfold sqR. rewrite fold_sq_as_sum. fold (sumR (map sqr l)).
  assert (F : Forall fmt (map sqr l)) by (apply Forall_forall; intros y Hy; apply in_map_iff in Hy; destruct Hy as (x & <- & _); apply rnd_fmt).
  destruct (sumR_approx _ F) as [A _]. rewrite map_length in A.
  destruct (sqr_list_approx l N) as [B1 B2].
  pose proof (rsum_sqs_nonneg l) as Q0. split; [|rewrite Rabs_pos_eq; lra].
  replace (sumR (map sqr l) - rsum (sqs l)) with ((sumR (map sqr l) - rsum (map sqr l)) + (rsum (map sqr l) - rsum (sqs l))) by ring.
  eapply Rle_trans; [apply Rabs_triang|].
  assert (G : g (length l) = g (length l - 1) * (1 + u) + u).
  { replace (length l) with (Datatypes.S (length l - 1)) at 1 by lia. apply g_S. }
  rewrite G. rewrite g_1 in B1.
  pose proof (g_nonneg (length l - 1)).
  assert (g (length l - 1) * rabssum (map sqr l) <= g (length l - 1) * ((1 + u) * rsum (sqs l))) by (apply Rmult_le_compat_l; lra).
  lra.
Qed.
Lemma sqR_fmt l : fmt (sqR l).
Proof. unfold sqR. rewrite fold_sq_as_sum. apply fold_sum_fmt, fmt_0. Qed.

(* ------------------------------------------------------------------------------------------------------------------- *)
(* 2. the mean:  m_mean /= dN                                                                                          *)
(* ------------------------------------------------------------------------------------------------------------------- *)
Definition meanR (l : list R) (dn : R) : R := rnd (sumR l / dn).

Theorem mean_accuracy_R l dn : (1 <= length l)%nat -> Forall fmt l -> 0 < dn -> NU (sumR l / dn) ->
  Rabs (meanR l dn - rsum l / dn) <= g (length l) * (rabssum l / dn).
Proof.
  intros Hn F P N. unfold meanR. destruct (model_NU _ N) as (e & He & E). rewrite E.
  pose proof (sumR_approx l F) as A.
  apply (approx_div _ _ _ _ dn) in A; [|lra]. rewrite (Rabs_pos_eq dn) in A by lra.
  apply (approx_round _ _ _ _ e He) in A.
  replace (Datatypes.S (length l - 1)) with (length l) in A by lia. exact (proj1 A).
Qed.

(* ------------------------------------------------------------------------------------------------------------------- *)
(* 3. the one-pass variance of done():  (sq - sum * sum / dN) / (dN - 1.0)                                            *)
(* ------------------------------------------------------------------------------------------------------------------- *)
Definition varR (l : list R) (dn : R) : R :=
  rnd (rnd (sqR l - rnd (rnd (sumR l * sumR l) / dn)) / rnd (dn - 1)).
(* the exact sample variance, and the error bound *)
Definition var_ex (l : list R) (dn : R) : R := (rsum (sqs l) - rsum l * rsum l / dn) / (dn - 1).
Definition var_err (l : list R) (dn : R) : R :=
  (g (length l + 2) * rsum (sqs l) + g (2 * length l + 2) * (rabssum l * rabssum l / dn)) / (dn - 1).

Definition var_NU (l : list R) (dn : R) : Prop :=
  Forall (fun x => NU (x * x)) l /\ NU (sumR l * sumR l) /\ NU (rnd (sumR l * sumR l) / dn) /\
  NU (rnd (sqR l - rnd (rnd (sumR l * sumR l) / dn)) / (dn - 1)).

Theorem variance_accuracy_R l dn : (1 <= length l)%nat -> Forall fmt l -> 1 < dn -> fmt (dn - 1) -> var_NU l dn ->
  Rabs (varR l dn - var_ex l dn) <= var_err l dn.
Proof.
  intros Hn F P Fd (N0 & N1 & N2 & N3). unfold varR, var_ex, var_err.
  rewrite (rnd_id _ Fd).
  set (n := length l) in *. set (s := sumR l) in *. set (sq := sqR l) in *.
  set (T := rsum l). set (A := rabssum l). set (Q := rsum (sqs l)).
  pose proof (sumR_approx l F) as As. fold n s T A in As.
  pose proof (sqR_approx l Hn N0) as Aq. fold n sq Q in Aq.
  (* p = rnd (s * s), q = rnd (p / dn) *)
  destruct (model_NU _ N1) as (e1 & He1 & E1). destruct (model_NU _ N2) as (e2 & He2 & E2).
  set (p := rnd (s * s)) in *. set (q := rnd (p / dn)) in *.
  assert (Ap : approx (Datatypes.S (n - 1 + (n - 1))) p (T * T) (A * A)).
  { rewrite E1. apply approx_round; [exact He1|]. now apply approx_mul. }
  assert (Aq2 : approx (Datatypes.S (Datatypes.S (n - 1 + (n - 1)))) q (T * T / dn) (A * A / dn)).
  { rewrite E2. apply approx_round; [exact He2|].
    replace (A * A / dn) with (A * A / Rabs dn) by (rewrite Rabs_pos_eq; lra). apply approx_div; [lra|exact Ap]. }
  (* r = rnd (sq - q), v = rnd (r / (dn - 1)) *)
  destruct (model_sub sq q (sqR_fmt l) (rnd_fmt _)) as (e3 & He3 & E3).
  destruct (model_NU _ N3) as (e4 & He4 & E4).
  fold s p q sq in E4. rewrite E4, E3.
  assert (A1 : approx (n + 2) (sq * (1 + e3) * (1 + e4)) Q Q).
  { replace (n + 2)%nat with (Datatypes.S (Datatypes.S n)) by lia.
    apply approx_round; [exact He4|]. apply approx_round; [exact He3|]. exact Aq. }
  assert (A2 : approx (2 * n + 2) (q * (1 + e3) * (1 + e4)) (T * T / dn) (A * A / dn)).
  { replace (2 * n + 2)%nat with (Datatypes.S (Datatypes.S (Datatypes.S (Datatypes.S (n - 1 + (n - 1)))))) by lia.
    apply approx_round; [exact He4|]. apply approx_round; [exact He3|]. exact Aq2. }
  destruct A1 as [B1 _]. destruct A2 as [B2 _].
  replace ((sq - q) * (1 + e3) / (dn - 1) * (1 + e4) - (Q - T * T / dn) / (dn - 1))
    with (((sq * (1 + e3) * (1 + e4) - Q) - (q * (1 + e3) * (1 + e4) - T * T / dn)) / (dn - 1)) by (field; lra).
  unfold Rdiv at 1. rewrite Rabs_mult, Rabs_inv, (Rabs_pos_eq (dn - 1)) by lra.
  unfold Rdiv at 3. apply Rmult_le_compat_r; [apply Rlt_le, Rinv_0_lt_compat; lra|].
  unfold Rminus at 1. eapply Rle_trans; [apply Rabs_triang|]. rewrite Rabs_Ropp. lra.
Qed.

(* Cauchy-Schwarz: the exact one-pass variance is >= 0 (over R; C14_variance_nonneg is the same over Q) *)
Lemma cs_aux l a : 0 <= INR (length l) * (a * a) + rsum (sqs l) - 2 * a * rsum l.
Proof.
  induction l as [|x l IH]; [simpl; lra|]. simpl length. rewrite S_INR. unfold sqs in *. simpl map. simpl rsum.
  pose proof (Rle_0_sqr (a - x)) as H. unfold Rsqr in H. lra.
Qed.
Lemma cauchy_schwarz l : rsum l * rsum l <= INR (length l) * rsum (sqs l).
Proof.
  induction l as [|x l IH]; [simpl; lra|]. simpl length. rewrite S_INR.
  pose proof (cs_aux l x). unfold sqs in *. simpl map. simpl rsum. lra.
Qed.
Lemma var_ex_nonneg l : (2 <= length l)%nat -> 0 <= var_ex l (INR (length l)).
Proof.
  intros Hn. unfold var_ex. pose proof (cauchy_schwarz l) as C.
  assert (N2 : 2 <= INR (length l)) by (apply (le_INR 2); exact Hn).
  apply Rmult_le_pos; [|apply Rlt_le, Rinv_0_lt_compat; lra].
  assert (rsum l * rsum l / INR (length l) <= rsum (sqs l)); [|lra].
  apply Rmult_le_reg_r with (INR (length l)); [lra|]. unfold Rdiv. rewrite Rmult_assoc, Rinv_l by lra. lra.
Qed.

(* ------------------------------------------------------------------------------------------------------------------- *)
(* 4. the deviation: sqrt (max (v, 0.0))                                                                               *)
(* ------------------------------------------------------------------------------------------------------------------- *)
Definition sdR (l : list R) (dn : R) : R := rnd (sqrt (Rmax (varR l dn) 0)).

Lemma Rmax_lip a b c : Rabs (Rmax a c - Rmax b c) <= Rabs (a - b).
Proof. unfold Rmax. repeat destruct Rle_dec; unfold Rabs; repeat destruct Rcase_abs; lra. Qed.

Lemma fmt_pos_ge x : fmt x -> 0 < x -> bpow radix2 (-1074) <= x.
Proof.
  intros F P. apply (generic_format_ge_bpow radix2 fexp64); [|exact P|exact F].
  intros e. unfold fexp64, FLT_exp. lia.
Qed.

Lemma NU_sqrt_fmt x : fmt x -> 0 <= x -> NU (sqrt x).
Proof.
  intros F [P|<-]; [|left; apply sqrt_0].
  right. rewrite Rabs_pos_eq by apply sqrt_pos.
  apply Rle_trans with (bpow radix2 (-537)); [apply bpow_le; discriminate|].
  rewrite <- (sqrt_bpow radix2 (-537)).
  change (2 * -537)%Z with (-1074)%Z.
  apply sqrt_le_1; [apply bpow_ge_0|lra|now apply fmt_pos_ge].
Qed.

Lemma fmt_Rmax a b : fmt a -> fmt b -> fmt (Rmax a b).
Proof. intros Fa Fb. unfold Rmax. destruct Rle_dec; assumption. Qed.

(* sd = sqrt (vc) (1 + e) with vc = max (v, 0) within var_err of the exact variance *)
Lemma sd_model l dn : exists e, Rabs e <= u /\ sdR l dn = sqrt (Rmax (varR l dn) 0) * (1 + e).
Proof.
  unfold sdR. apply model_NU, NU_sqrt_fmt; [apply fmt_Rmax; [apply rnd_fmt|apply fmt_0]|apply Rmax_r].
Qed.

Theorem stdev_sq_accuracy_R l : let dn := INR (length l) in
  (2 <= length l)%nat -> Forall fmt l -> fmt (dn - 1) -> var_NU l dn ->
  0 <= sdR l dn /\
  sdR l dn * sdR l dn <= (var_ex l dn + var_err l dn) * ((1 + u) * (1 + u)) /\
  (var_ex l dn - var_err l dn) * ((1 - u) * (1 - u)) <= sdR l dn * sdR l dn.
Proof.
  intros dn Hn F Fd NUh.
  assert (N2 : 2 <= dn) by (apply (le_INR 2); exact Hn).
  pose proof (variance_accuracy_R l dn ltac:(lia) F ltac:(lra) Fd NUh) as V.
  pose proof (var_ex_nonneg l Hn) as P. fold dn in P.
  destruct (sd_model l dn) as (e & He & E).
  set (vc := Rmax (varR l dn) 0) in *.
  assert (Pv : 0 <= vc) by apply Rmax_r.
  assert (D : Rabs (vc - var_ex l dn) <= var_err l dn).
  { eapply Rle_trans; [|exact V]. rewrite <- (Rmax_left (var_ex l dn) 0) at 1 by exact P. apply Rmax_lip. }
  apply Rabs_le_inv in He. apply Rabs_le_inv in D. pose proof u_pos. pose proof u_small.
  pose proof (sqrt_pos vc) as Ps. pose proof (sqrt_sqrt vc Pv) as SS.
  rewrite E. split; [apply Rmult_le_pos; lra|].
  replace (sqrt vc * (1 + e) * (sqrt vc * (1 + e))) with ((sqrt vc * sqrt vc) * ((1 + e) * (1 + e))) by ring. rewrite SS.
  assert (L1 : (1 - u) * (1 - u) <= (1 + e) * (1 + e)) by nra.
  assert (L2 : (1 + e) * (1 + e) <= (1 + u) * (1 + u)) by nra.
  split.
  - apply Rle_trans with (vc * ((1 + u) * (1 + u))); [apply Rmult_le_compat_l; lra|].
    apply Rmult_le_compat_r; [nra|lra].
  - destruct (Rle_or_lt 0 (var_ex l dn - var_err l dn)) as [G|G].
    + apply Rle_trans with (vc * ((1 - u) * (1 - u))); [apply Rmult_le_compat_r; [nra|lra]|].
      apply Rmult_le_compat_l; lra.
    + apply Rle_trans with 0; [|apply Rmult_le_pos; [lra|nra]].
      assert (0 <= (1 - u) * (1 - u)) by nra. nra.
Qed.

Lemma sqrt_diff a b : 0 <= a -> 0 <= b -> Rabs (sqrt a - sqrt b) <= sqrt (Rabs (a - b)).
Proof.
  assert (K : forall a b, 0 <= b -> b <= a -> sqrt a - sqrt b <= sqrt (a - b)).
  { intros a0 b0 Pb L. pose proof (sqrt_pos b0). pose proof (sqrt_pos (a0 - b0)).
    assert (sqrt a0 <= sqrt b0 + sqrt (a0 - b0)); [|lra].
    apply Rsqr_incr_0_var; [|lra]. unfold Rsqr.
    rewrite sqrt_sqrt by lra.
    replace ((sqrt b0 + sqrt (a0 - b0)) * (sqrt b0 + sqrt (a0 - b0)))
      with (sqrt b0 * sqrt b0 + sqrt (a0 - b0) * sqrt (a0 - b0) + 2 * sqrt b0 * sqrt (a0 - b0)) by ring.
    rewrite !sqrt_sqrt by lra. nra. }
  intros Pa Pb. destruct (Rle_or_lt b a) as [L|L].
  - rewrite !Rabs_pos_eq; [apply K; assumption|lra|].
    assert (sqrt b <= sqrt a) by (apply sqrt_le_1; lra). lra.
  - rewrite Rabs_minus_sym, (Rabs_minus_sym a b). rewrite !Rabs_pos_eq; [apply K; lra|lra|].
    assert (sqrt a <= sqrt b) by (apply sqrt_le_1; lra). lra.
Qed.

Theorem stdev_accuracy_R l : let dn := INR (length l) in
  (2 <= length l)%nat -> Forall fmt l -> fmt (dn - 1) -> var_NU l dn ->
  Rabs (sdR l dn - sqrt (var_ex l dn)) <= u * sqrt (var_ex l dn) + (1 + u) * sqrt (var_err l dn).
Proof.
  intros dn Hn F Fd NUh.
  assert (N2 : 2 <= dn) by (apply (le_INR 2); exact Hn).
  pose proof (variance_accuracy_R l dn ltac:(lia) F ltac:(lra) Fd NUh) as V.
  pose proof (var_ex_nonneg l Hn) as P. fold dn in P.
  destruct (sd_model l dn) as (e & He & E).
  set (vc := Rmax (varR l dn) 0) in *.
  assert (Pv : 0 <= vc) by apply Rmax_r.
  assert (D : Rabs (vc - var_ex l dn) <= var_err l dn).
  { eapply Rle_trans; [|exact V]. rewrite <- (Rmax_left (var_ex l dn) 0) at 1 by exact P. apply Rmax_lip. }
  pose proof (sqrt_diff vc (var_ex l dn) Pv P) as SD.
  assert (SE : sqrt (Rabs (vc - var_ex l dn)) <= sqrt (var_err l dn)).
  { apply sqrt_le_1; [apply Rabs_pos| |exact D]. eapply Rle_trans; [apply Rabs_pos|exact D]. }
  rewrite E. pose proof (sqrt_pos vc). pose proof (sqrt_pos (var_ex l dn)). pose proof (sqrt_pos (var_err l dn)). pose proof u_pos.
  replace (sqrt vc * (1 + e) - sqrt (var_ex l dn)) with ((sqrt vc - sqrt (var_ex l dn)) + sqrt vc * e) by ring.
  eapply Rle_trans; [apply Rabs_triang|]. rewrite Rabs_mult, (Rabs_pos_eq (sqrt vc)) by lra.
  assert (sqrt vc <= sqrt (var_ex l dn) + sqrt (var_err l dn)).
  { apply Rabs_le_inv in SD. lra. }
  pose proof (Rabs_pos e).
  assert (sqrt vc * Rabs e <= (sqrt (var_ex l dn) + sqrt (var_err l dn)) * u) by (apply Rmult_le_compat; lra).
  lra.
Qed.

(* ------------------------------------------------------------------------------------------------------------------- *)
(* 5. the scaled column  y_i = rnd (rnd (x_i - m) * d)   (mean / standard: m = mean; minmax: m = min)                  *)
(* ------------------------------------------------------------------------------------------------------------------- *)
Definition yR (m d x : R) : R := rnd (rnd (x - m) * d).
Definition zR (m d x : R) : R := (x - m) * d.
Definition devs (m : R) (l : list R) : list R := map (fun x => x - m) l.

Lemma y_approx m d x : fmt x -> fmt m -> NU (rnd (x - m) * d) -> approx 2 (yR m d x) (zR m d x) (Rabs (zR m d x)).
Proof.
  intros Fx Fm N. unfold yR, zR. destruct (model_sub x m Fx Fm) as (e1 & He1 & E1).
  destruct (model_NU _ N) as (e2 & He2 & E2). rewrite E2, E1.
  replace ((x - m) * (1 + e1) * d * (1 + e2)) with ((x - m) * d * (1 + e1) * (1 + e2)) by ring.
  apply approx_round; [exact He2|]. apply approx_round; [exact He1|]. apply approx_exact.
Qed.

Lemma map_approx_sum k (f h : R -> R) l : Forall (fun x => approx k (f x) (h x) (Rabs (h x))) l ->
  approx k (rsum (map f l)) (rsum (map h l)) (rabssum (map h l)).
Proof.
  induction 1 as [|x l A _ IH]; simpl.
  - unfold rabssum; simpl. split; [replace (0 - 0) with 0 by ring; rewrite Rabs_R0; pose proof (g_nonneg k); lra|rewrite Rabs_R0; lra].
  - rewrite rabssum_cons. now apply approx_add.
Qed.

Lemma rsum_z m d l : rsum (map (zR m d) l) = (rsum l - INR (length l) * m) * d.
Proof. induction l as [|x l IH]; [simpl; ring|]. simpl length. rewrite S_INR. simpl. rewrite IH. unfold zR. ring. Qed.
Lemma rabssum_z m d l : 0 <= d -> rabssum (map (zR m d) l) = d * rabssum (devs m l).
Proof.
  intros P. unfold rabssum, devs. induction l as [|x l IH]; [simpl; ring|]. simpl. rewrite IH. unfold zR.
  rewrite Rabs_mult, (Rabs_pos_eq d P). ring.
Qed.

Definition scale_NU (m d : R) (l : list R) : Prop := Forall (fun x => NU (rnd (x - m) * d)) l.

Lemma ys_approx m d l : Forall fmt l -> fmt m -> scale_NU m d l ->
  approx 2 (rsum (map (yR m d) l)) (rsum (map (zR m d) l)) (rabssum (map (zR m d) l)).
Proof.
  intros F Fm N. apply map_approx_sum. apply Forall_forall. intros x Hx.
  unfold scale_NU in N. rewrite Forall_forall in F, N. apply y_approx; [now apply F|exact Fm|now apply N].
Qed.

(* the sum of the scaled column: N (mean_exact - m) d up to g 2 d sum |x_i - m| *)
Theorem scaled_sum_R m d l : Forall fmt l -> fmt m -> 0 <= d -> scale_NU m d l ->
  Rabs (rsum (map (yR m d) l) - (rsum l - INR (length l) * m) * d) <= g 2 * (d * rabssum (devs m l)).
Proof.
  intros F Fm P N. destruct (ys_approx m d l F Fm N) as [A _]. now rewrite rsum_z, rabssum_z in A.
Qed.

(* zero mean in floating point: if the stored mean is within delta of the exact one, the mean of the scaled column is
   within d (delta + g 2 * sum |x_i - m| / N) of zero *)
Theorem zero_mean_R m d l delta : (1 <= length l)%nat -> Forall fmt l -> fmt m -> 0 <= d -> scale_NU m d l ->
  Rabs (m - rsum l / INR (length l)) <= delta ->
  Rabs (rsum (map (yR m d) l) / INR (length l)) <= d * (delta + g 2 * (rabssum (devs m l) / INR (length l))).
Proof.
  intros Hn F Fm P N D. pose proof (scaled_sum_R m d l F Fm P N) as S.
  assert (Pn : 0 < INR (length l)) by (apply lt_0_INR; lia).
  set (n := INR (length l)) in *.
  assert (E : Rabs ((rsum l - n * m) * d) <= n * delta * d).
  { rewrite Rabs_mult, (Rabs_pos_eq d P). apply Rmult_le_compat_r; [exact P|].
    replace (rsum l - n * m) with (- (n * (m - rsum l / n))) by (field; lra).
    rewrite Rabs_Ropp, Rabs_mult, (Rabs_pos_eq n) by lra. apply Rmult_le_compat_l; lra. }
  unfold Rdiv at 1. rewrite Rabs_mult, Rabs_inv, (Rabs_pos_eq n) by lra.
  apply Rmult_le_reg_r with n; [exact Pn|]. rewrite Rmult_assoc, Rinv_l, Rmult_1_r by lra.
  replace (d * (delta + g 2 * (rabssum (devs m l) / n)) * n) with (n * delta * d + g 2 * (d * rabssum (devs m l))) by (field; lra).
  replace (rsum (map (yR m d) l)) with ((rsum (map (yR m d) l) - (rsum l - n * m) * d) + (rsum l - n * m) * d) by ring.
  eapply Rle_trans; [apply Rabs_triang|]. lra.
Qed.

(* range of one scaled value (mean scaling: [-1, 1] up to the rounding of the mean and three roundings; no underflow
   assumption: eta pays for it) *)
Lemma rnd_abs_any t : Rabs (rnd t) <= Rabs t * (1 + u) + eta.
Proof.
  destruct (model_any t) as (e & h & He & Hh & E). rewrite E.
  eapply Rle_trans; [apply Rabs_triang|]. rewrite Rabs_mult.
  assert (Rabs (1 + e) <= 1 + u) by (eapply Rle_trans; [apply Rabs_triang|]; rewrite Rabs_R1; lra).
  pose proof (Rabs_pos t). assert (Rabs t * Rabs (1 + e) <= Rabs t * (1 + u)) by (apply Rmult_le_compat_l; lra). lra.
Qed.

Theorem scaled_range_R m d x w : fmt x -> fmt m -> 0 <= d -> Rabs (x - m) <= w ->
  Rabs (yR m d x) <= w * d * ((1 + u) * (1 + u)) + eta.
Proof.
  intros Fx Fm P W. unfold yR. destruct (model_sub x m Fx Fm) as (e1 & He1 & E1).
  eapply Rle_trans; [apply rnd_abs_any|]. apply Rplus_le_compat_r.
  rewrite E1, !Rabs_mult, (Rabs_pos_eq d P).
  assert (Rabs (1 + e1) <= 1 + u) by (eapply Rle_trans; [apply Rabs_triang|]; rewrite Rabs_R1; lra).
  pose proof (Rabs_pos (x - m)). pose proof (Rabs_pos (1 + e1)). pose proof u_pos.
  assert (Rabs (x - m) * Rabs (1 + e1) <= w * (1 + u)) by (apply Rmult_le_compat; lra).
  assert (Rabs (x - m) * Rabs (1 + e1) * d <= w * (1 + u) * d) by (apply Rmult_le_compat_r; lra).
  replace (w * d * ((1 + u) * (1 + u))) with (w * (1 + u) * d * (1 + u)) by ring.
  apply Rmult_le_compat_r; lra.
Qed.

(* x in [mn, mx], exact mean in [mn, mx], stored mean within delta of it: |x - m| <= (mx - mn) + delta *)
Theorem mean_range_R m d x mn mx mu delta : fmt x -> fmt m -> 0 <= d ->
  mn <= x <= mx -> mn <= mu <= mx -> Rabs (m - mu) <= delta ->
  Rabs (yR m d x) <= ((mx - mn) + delta) * d * ((1 + u) * (1 + u)) + eta.
Proof.
  intros Fx Fm P Hx Hmu D. apply scaled_range_R; try assumption.
  apply Rabs_le_inv in D. apply Rabs_le. lra.
Qed.

(* exact mean of a list is between its bounds *)
Lemma mean_between l mn mx : (1 <= length l)%nat -> Forall (fun x => mn <= x <= mx) l ->
  mn <= rsum l / INR (length l) <= mx.
Proof.
  intros Hn F.
  assert (B : INR (length l) * mn <= rsum l <= INR (length l) * mx).
  { clear Hn. induction F as [|x l Hx _ IH]; [simpl; lra|]. simpl length. rewrite S_INR. simpl rsum. lra. }
  assert (Pn : 0 < INR (length l)) by (apply lt_0_INR; lia).
  split.
  - apply Rmult_le_reg_r with (INR (length l)); [exact Pn|]. unfold Rdiv. rewrite Rmult_assoc, Rinv_l by lra. lra.
  - apply Rmult_le_reg_r with (INR (length l)); [exact Pn|]. unfold Rdiv. rewrite Rmult_assoc, Rinv_l by lra. lra.
Qed.

(* sample variance of a list (n = length) *)
Definition svar (l : list R) : R := var_ex l (INR (length l)).

Lemma rsum_sqs_z m d l :
  rsum (sqs (map (zR m d) l)) = d * d * (rsum (sqs l) - 2 * m * rsum l + INR (length l) * (m * m)).
Proof. induction l as [|x l IH]; [simpl; ring|]. simpl length. rewrite S_INR. simpl. rewrite IH. unfold zR. ring. Qed.

(* the exact affine image has variance d^2 * variance, whatever the offset *)
Lemma svar_z m d l : (2 <= length l)%nat -> svar (map (zR m d) l) = d * d * svar l.
Proof.
  intros Hn. unfold svar, var_ex. rewrite map_length, rsum_sqs_z, rsum_z.
  assert (2 <= INR (length l)) by (apply (le_INR 2); exact Hn). field. lra.
Qed.

Lemma g4_g2 : g 4 = g 2 * g 2 + 2 * g 2.
Proof. change 4%nat with (2 + 2)%nat. rewrite g_mul. ring. Qed.

Lemma sq_approx_terms m d l : Forall fmt l -> fmt m -> scale_NU m d l ->
  Rabs (rsum (sqs (map (yR m d) l)) - rsum (sqs (map (zR m d) l))) <= g 4 * rsum (sqs (map (zR m d) l)).
Proof.
  intros F Fm N. induction l as [|x l IH]; simpl.
  - replace (0 - 0) with 0 by ring. rewrite Rabs_R0. lra.
  - inversion F as [|? ? Fx Fl]; subst. inversion N as [|? ? Nx Nl]; subst. specialize (IH Fl Nl).
    destruct (y_approx m d x Fx Fm Nx) as [A _].
    set (y := yR m d x) in *. set (z := zR m d x) in *.
    replace (y * y + rsum (sqs (map (yR m d) l)) - (z * z + rsum (sqs (map (zR m d) l))))
      with ((y - z) * (y - z) + 2 * z * (y - z) + (rsum (sqs (map (yR m d) l)) - rsum (sqs (map (zR m d) l)))) by ring.
    eapply Rle_trans; [apply Rabs_triang|]. eapply Rle_trans; [apply Rplus_le_compat_r, Rabs_triang|].
    rewrite !Rabs_mult, (Rabs_pos_eq 2) by lra.
    pose proof (Rabs_pos (y - z)). pose proof (Rabs_pos z). pose proof (g_nonneg 2).
    assert (Rabs (y - z) * Rabs (y - z) <= (g 2 * Rabs z) * (g 2 * Rabs z)) by (apply Rmult_le_compat; lra).
    assert (2 * Rabs z * Rabs (y - z) <= 2 * Rabs z * (g 2 * Rabs z)) by (apply Rmult_le_compat_l; lra).
    assert (ZZ : Rabs z * Rabs z = z * z) by (rewrite <- Rabs_mult; apply Rabs_pos_eq; nra).
    replace (g 4 * (z * z + rsum (sqs (map (zR m d) l))))
      with ((g 2 * g 2 + 2 * g 2) * (Rabs z * Rabs z) + g 4 * rsum (sqs (map (zR m d) l))) by (rewrite ZZ, g4_g2; ring).
    lra.
Qed.

(* sample variance of the scaled column vs d^2 * sample variance of the column *)
Definition spread2 (m : R) (l : list R) : R :=
  rsum (sqs (devs m l)) + rabssum (devs m l) * rabssum (devs m l) / INR (length l).

Lemma sqs_z_devs m d l : rsum (sqs (map (zR m d) l)) = d * d * rsum (sqs (devs m l)).
Proof. unfold devs. induction l as [|x l IH]; [simpl; ring|]. simpl. rewrite IH. unfold zR. ring. Qed.

Theorem scaled_variance_R m d l : (2 <= length l)%nat -> Forall fmt l -> fmt m -> 0 <= d -> scale_NU m d l ->
  Rabs (svar (map (yR m d) l) - d * d * svar l) <= g 4 * (d * d) * spread2 m l / (INR (length l) - 1).
Proof.
  intros Hn F Fm P N. rewrite <- (svar_z m d l Hn).
  assert (N2 : 2 <= INR (length l)) by (apply (le_INR 2); exact Hn).
  unfold svar, var_ex. rewrite !map_length.
  set (n := INR (length l)) in *.
  pose proof (sq_approx_terms m d l F Fm N) as Q.
  destruct (ys_approx m d l F Fm N) as [S1 S2].
  set (sy := rsum (map (yR m d) l)) in *. set (sz := rsum (map (zR m d) l)) in *.
  set (qy := rsum (sqs (map (yR m d) l))) in *. set (qz := rsum (sqs (map (zR m d) l))) in *.
  set (az := rabssum (map (zR m d) l)) in *.
  replace ((qy - sy * sy / n) / (n - 1) - (qz - sz * sz / n) / (n - 1))
    with (((qy - qz) - (sy * sy - sz * sz) / n) / (n - 1)) by (field; lra).
  unfold Rdiv at 1. rewrite Rabs_mult, Rabs_inv, (Rabs_pos_eq (n - 1)) by lra.
  unfold Rdiv at 2. apply Rmult_le_compat_r; [apply Rlt_le, Rinv_0_lt_compat; lra|].
  assert (Paz : 0 <= az) by apply rabssum_nonneg.
  assert (C : Rabs (sy * sy - sz * sz) <= g 4 * (az * az)).
  { replace (sy * sy - sz * sz) with ((sy - sz) * (sy - sz) + 2 * sz * (sy - sz)) by ring.
    eapply Rle_trans; [apply Rabs_triang|]. rewrite !Rabs_mult, (Rabs_pos_eq 2) by lra.
    pose proof (Rabs_pos (sy - sz)). pose proof (Rabs_pos sz). pose proof (g_nonneg 2).
    assert (Rabs (sy - sz) * Rabs (sy - sz) <= (g 2 * az) * (g 2 * az)) by (apply Rmult_le_compat; lra).
    assert (2 * Rabs sz * Rabs (sy - sz) <= 2 * az * (g 2 * az)) by (apply Rmult_le_compat; lra).
    rewrite g4_g2. lra. }
  assert (C' : Rabs ((sy * sy - sz * sz) / n) <= g 4 * (az * az) / n).
  { unfold Rdiv. rewrite Rabs_mult, Rabs_inv, (Rabs_pos_eq n) by lra.
    apply Rmult_le_compat_r; [apply Rlt_le, Rinv_0_lt_compat; lra|exact C]. }
  unfold Rminus at 1. eapply Rle_trans; [apply Rabs_triang|]. rewrite Rabs_Ropp.
  unfold spread2. fold n. unfold az in C'. rewrite rabssum_z in C' by exact P.
  replace (g 4 * (d * d) * (rsum (sqs (devs m l)) + rabssum (devs m l) * rabssum (devs m l) / n))
    with (g 4 * (d * d * rsum (sqs (devs m l))) + g 4 * (d * rabssum (devs m l) * (d * rabssum (devs m l))) / n) by (field; lra).
  pose proof (sqs_z_devs m d l) as Eqz. fold qz in Eqz. rewrite <- Eqz. lra.
Qed.

(* unit variance: the divisor is rnd (1 / sd) for the stored deviation sd = sqrt (vc) (1 + e), |vc - var| <= E *)
Theorem unit_variance_R var vc E sd e : 0 <= var -> 0 <= vc -> Rabs (vc - var) <= E -> Rabs e <= u ->
  sd = sqrt vc * (1 + e) -> 0 < sd -> NU (/ sd) ->
  Rabs (rnd (/ sd) * rnd (/ sd) * var - 1) <= ((1 + u) * (1 + u) / ((1 - u) * (1 - u)) - 1) + (1 + u) * (1 + u) * E / (sd * sd).
Proof.
  intros Pvar Pvc D He Esd Psd N.
  destruct (model_NU _ N) as (e1 & He1 & E1). rewrite E1.
  pose proof u_pos. pose proof u_small. apply Rabs_le_inv in He. apply Rabs_le_inv in He1.
  assert (SS : sd * sd = vc * ((1 + e) * (1 + e))).
  { rewrite Esd. replace (sqrt vc * (1 + e) * (sqrt vc * (1 + e))) with ((sqrt vc * sqrt vc) * ((1 + e) * (1 + e))) by ring.
    now rewrite (sqrt_sqrt vc Pvc). }
  assert (Pss : 0 < sd * sd) by nra.
  set (dv := var - vc).
  assert (Hd : Rabs dv <= E) by (unfold dv; now rewrite Rabs_minus_sym).
  replace (/ sd * (1 + e1) * (/ sd * (1 + e1)) * var - 1)
    with (((1 + e1) * (1 + e1) / ((1 + e) * (1 + e)) - 1) + (1 + e1) * (1 + e1) * dv / (sd * sd)).
  2:{ assert (Pe : 0 < (1 + e) * (1 + e)) by nra.
      assert (SS' : vc = sd * sd / ((1 + e) * (1 + e))) by (rewrite SS; field; lra).
      unfold dv. rewrite SS'. field. repeat split; lra. }
  eapply Rle_trans; [apply Rabs_triang|]. apply Rplus_le_compat.
  - assert (A1 : (1 - u) * (1 - u) <= (1 + e1) * (1 + e1) <= (1 + u) * (1 + u)) by nra.
    assert (A2 : (1 - u) * (1 - u) <= (1 + e) * (1 + e) <= (1 + u) * (1 + u)) by nra.
    assert (P1 : 0 < (1 - u) * (1 - u)) by nra.
    assert (P2 : 0 < (1 + e) * (1 + e)) by lra.
    set (a := (1 + e1) * (1 + e1)) in *. set (b := (1 + e) * (1 + e)) in *.
    set (lo := (1 - u) * (1 - u)) in *. set (hi := (1 + u) * (1 + u)) in *.
    assert (U1 : a / b <= hi / lo).
    { apply Rmult_le_reg_r with (b * lo); [nra|]. field_simplify; [|lra|lra]. nra. }
    assert (L1 : lo / hi <= a / b).
    { apply Rmult_le_reg_r with (b * hi); [nra|]. field_simplify; [|lra|lra]. nra. }
    assert (K1 : 1 - lo / hi <= hi / lo - 1).
    { assert (0 < hi) by lra. apply Rmult_le_reg_r with (hi * lo); [nra|]. field_simplify; [|lra|lra]. nra. }
    apply Rabs_le. lra.
  - unfold Rdiv. rewrite !Rabs_mult, Rabs_inv, (Rabs_pos_eq (sd * sd)) by lra.
    apply Rmult_le_compat_r; [apply Rlt_le, Rinv_0_lt_compat; lra|].
    rewrite <- Rabs_mult. rewrite (Rabs_pos_eq ((1 + e1) * (1 + e1))) by nra.
    pose proof (Rabs_pos dv). apply Rmult_le_compat; nra.
Qed.

Lemma sqrt_near_1 v : 0 <= v -> Rabs (sqrt v - 1) <= Rabs (v - 1).
Proof.
  intros P. pose proof (sqrt_pos v) as S. pose proof (sqrt_sqrt v P) as SS.
  replace (v - 1) with ((sqrt v - 1) * (sqrt v + 1)) by (replace ((sqrt v - 1) * (sqrt v + 1)) with (sqrt v * sqrt v - 1) by ring; now rewrite SS).
  rewrite Rabs_mult, (Rabs_pos_eq (sqrt v + 1)) by lra. pose proof (Rabs_pos (sqrt v - 1)). nra.
Qed.

(* ------------------------------------------------------------------------------------------------------------------- *)
(* 6. linear::predict -- outputs = inputs * W^T (an Eigen product: any order), then += bias                            *)
(* ------------------------------------------------------------------------------------------------------------------- *)
Fixpoint prods1 (w x : list R) : list R :=
  match w, x with a :: w', b :: x' => rnd (a * b) :: prods1 w' x' | _, _ => [] end.
Fixpoint NU_prods1 (w x : list R) : Prop :=
  match w, x with a :: w', b :: x' => NU (a * b) /\ NU_prods1 w' x' | _, _ => True end.

Lemma prods1_fmt w x : Forall fmt (prods1 w x).
Proof. revert x; induction w; destruct x; simpl; constructor; [apply rnd_fmt|apply IHw]. Qed.
Lemma prods1_length w x : length (prods1 w x) = length (xprods w x).
Proof. revert x; induction w; destruct x; simpl; auto. Qed.

Lemma prods1_approx w x : NU_prods1 w x ->
  Rabs (rsum (prods1 w x) - rsum (xprods w x)) <= g 1 * rabssum (xprods w x) /\
  rabssum (prods1 w x) <= (1 + u) * rabssum (xprods w x).
Proof.
  revert x; induction w as [|a w IH]; destruct x as [|b x]; simpl; intros H;
    try (unfold rabssum; simpl; replace (0 - 0) with 0 by ring; rewrite Rabs_R0; pose proof (g_nonneg 1); lra).
  destruct H as (N1 & N2). destruct (IH x N2) as [I1 I2].
  destruct (model_NU _ N1) as (e & He & E). rewrite !rabssum_cons, E, g_1 in *.
  pose proof (Rabs_pos (a * b)). pose proof u_pos. split.
  - replace (a * b * (1 + e) + rsum (prods1 w x) - (a * b + rsum (xprods w x)))
      with (a * b * e + (rsum (prods1 w x) - rsum (xprods w x))) by ring.
    eapply Rle_trans; [apply Rabs_triang|]. rewrite Rabs_mult.
    assert (Rabs (a * b) * Rabs e <= Rabs (a * b) * u) by (apply Rmult_le_compat_l; lra). lra.
  - rewrite Rabs_mult.
    assert (Rabs (1 + e) <= 1 + u) by (eapply Rle_trans; [apply Rabs_triang|]; rewrite Rabs_R1; lra).
    assert (Rabs (a * b) * Rabs (1 + e) <= Rabs (a * b) * (1 + u)) by (apply Rmult_le_compat_l; lra). lra.
Qed.

Theorem predict_dot_R t w x b : length w = length x -> (1 <= length w)%nat ->
  Permutation (sleaves t) (prods1 w x) -> NU_prods1 w x -> fmt b ->
  Rabs (rnd (sfl t + b) - (rsum (xprods w x) + b)) <= g (length w + 1) * (rabssum (xprods w x) + Rabs b).
Proof.
  intros Hl Hc P NP Fb.
  pose proof (xprods_length w x Hl) as LX. set (C := length w) in *.
  destruct (prods1_approx w x NP) as [P1 P2].
  pose proof (sum_any_order t _ (prods1_fmt w x) P) as P3. rewrite prods1_length, LX in P3.
  set (S := rabssum (xprods w x)) in *. set (Q := rsum (xprods w x)) in *.
  assert (S0 : 0 <= S) by apply rabssum_nonneg.
  assert (AD : approx C (sfl t) Q S).
  { split; [|apply rsum_abs_le].
    replace (sfl t - Q) with ((sfl t - rsum (prods1 w x)) + (rsum (prods1 w x) - Q)) by ring.
    eapply Rle_trans; [apply Rabs_triang|].
    assert (g (C - 1) * rabssum (prods1 w x) <= g (C - 1) * ((1 + u) * S)) by (apply Rmult_le_compat_l; [apply g_nonneg|exact P2]).
    assert (G : g C = g (C - 1) * (1 + u) + u).
    { replace C with (Datatypes.S (C - 1)) at 1 by lia. apply g_S. }
    rewrite G. rewrite g_1 in P1. lra. }
  assert (Ft : fmt (sfl t)).
  { apply sfl_fmt. apply Forall_forall. intros y Hy. pose proof (prods1_fmt w x) as F. rewrite Forall_forall in F.
    apply F. eapply Permutation_in; eauto. }
  destruct (model_add _ _ Ft Fb) as (e & He & E). rewrite E.
  replace (C + 1)%nat with (Datatypes.S C) by lia.
  assert (A : approx (Datatypes.S C) ((sfl t + b) * (1 + e)) (Q + b) (S + Rabs b)).
  { apply approx_round; [exact He|]. apply approx_add; [exact AD|]. eapply approx_weaken; [| |apply approx_exact]; [lia|lra]. }
  exact (proj1 A).
Qed.

(* ------------------------------------------------------------------------------------------------------------------- *)
(* 7. bridge: the accumulators, the record and the scaled values of the PrimFloat twin ARE these real expressions      *)
(* ------------------------------------------------------------------------------------------------------------------- *)
From Flocq Require Import PrimFloat.

(* a non-finite operand gives a non-finite sum / product: "the final sums are finite" covers every intermediate one *)
Lemma fin_add_inv a b : fin (PrimFloat.add a b) -> fin a /\ fin b.
Proof.
  unfold fin. rewrite !is_finite_equiv, add_equiv.
  destruct (Prim2B a) as [s|s| |s m e Hb], (Prim2B b) as [s0|s0| |s0 m0 e0 Hb0]; simpl; try discriminate; auto.
  destruct (Bool.eqb s s0); discriminate.
Qed.
Lemma fin_mul_inv a b : fin (PrimFloat.mul a b) -> fin a /\ fin b.
Proof.
  unfold fin. rewrite !is_finite_equiv, mul_equiv.
  destruct (Prim2B a), (Prim2B b); simpl; try discriminate; auto.
Qed.

Definition FRs (col : list PrimFloat.float) : list R := map FR (ffin_entries col).

Lemma FRs_cons_fin v col : PrimFloat.is_finite v = true -> FRs (v :: col) = FR v :: FRs col.
Proof. intros H. unfold FRs, ffin_entries. simpl. now rewrite H. Qed.
Lemma FRs_cons_nonfin v col : PrimFloat.is_finite v = false -> FRs (v :: col) = FRs col.
Proof. intros H. unfold FRs, ffin_entries. simpl. now rewrite H. Qed.
Lemma FRs_fmt col : Forall fmt (FRs col).
Proof. unfold FRs. apply Forall_forall. intros y Hy. apply in_map_iff in Hy. destruct Hy as (x & <- & _). apply FR_fmt. Qed.

Lemma facc_cons a v col : faccumulate a (v :: col) = faccumulate (fupdate1 a v) col.
Proof. reflexivity. Qed.
Lemma fupd_fin a v : PrimFloat.is_finite v = true ->
  fupdate1 a v = mkfacc (fa_n a + src_c14_count_inc)%Z (PrimFloat.add (fa_sum a) v) (PrimFloat.add (fa_sq a) (PrimFloat.mul v v))
                        (fmin_cpp (fa_min a) v) (fmax_cpp (fa_max a) v).
Proof. intros H. unfold fupdate1. rewrite H. reflexivity. Qed.
Lemma fupd_nonfin a v : PrimFloat.is_finite v = false -> fupdate1 a v = a.
Proof. intros H. unfold fupdate1. now rewrite H. Qed.

Lemma facc_sum_bridge col : forall a, fin (fa_sum (faccumulate a col)) ->
  fin (fa_sum a) /\ FR (fa_sum (faccumulate a col)) = fold_left step_sum (FRs col) (FR (fa_sum a)).
Proof.
  induction col as [|v col IH]; intros a Ff; [split; [exact Ff|reflexivity]|].
  rewrite facc_cons in *. destruct (PrimFloat.is_finite v) eqn:Fv.
  - rewrite (fupd_fin _ _ Fv) in *. destruct (IH _ Ff) as [F1 E1]. simpl fa_sum in F1, E1.
    destruct (fin_add_inv _ _ F1) as [Fa _]. split; [exact Fa|].
    rewrite (FRs_cons_fin _ _ Fv). simpl fold_left. unfold step_sum at 2.
    rewrite <- (proj1 (fin_add _ _ Fa Fv) F1). exact E1.
  - rewrite (fupd_nonfin _ _ Fv) in *. rewrite (FRs_cons_nonfin _ _ Fv). apply IH. exact Ff.
Qed.

Lemma facc_sq_bridge col : forall a, fin (fa_sq (faccumulate a col)) ->
  fin (fa_sq a) /\ FR (fa_sq (faccumulate a col)) = fold_left step_sq (FRs col) (FR (fa_sq a)).
Proof.
  induction col as [|v col IH]; intros a Ff; [split; [exact Ff|reflexivity]|].
  rewrite facc_cons in *. destruct (PrimFloat.is_finite v) eqn:Fv.
  - rewrite (fupd_fin _ _ Fv) in *. destruct (IH _ Ff) as [F1 E1]. simpl fa_sq in F1, E1.
    destruct (fin_add_inv _ _ F1) as [Fa Fm]. split; [exact Fa|].
    rewrite (FRs_cons_fin _ _ Fv). simpl fold_left. unfold step_sq at 2.
    rewrite <- (proj1 (fin_mul _ _ Fv Fv) Fm), <- (proj1 (fin_add _ _ Fa Fm) F1). exact E1.
  - rewrite (fupd_nonfin _ _ Fv) in *. rewrite (FRs_cons_nonfin _ _ Fv). apply IH. exact Ff.
Qed.

Lemma facc_n_bridge col : forall a, fa_n (faccumulate a col) = (fa_n a + Z.of_nat (length (FRs col)))%Z.
Proof.
  induction col as [|v col IH]; intros a; [simpl; lia|].
  rewrite facc_cons, IH. destruct (PrimFloat.is_finite v) eqn:Fv.
  - rewrite (fupd_fin _ _ Fv), (FRs_cons_fin _ _ Fv). simpl fa_n. simpl length. unfold src_c14_count_inc. lia.
  - rewrite (fupd_nonfin _ _ Fv), (FRs_cons_nonfin _ _ Fv). reflexivity.
Qed.

(* the whole column: count, running sum and running sum of squares *)
Lemma fcol_acc_real big col : let a := fcol_acc big col in
  fa_n a = Z.of_nat (length (FRs col)) /\
  (fin (fa_sum a) -> FR (fa_sum a) = sumR (FRs col)) /\
  (fin (fa_sq a) -> FR (fa_sq a) = sqR (FRs col)).
Proof.
  intros a. unfold a, fcol_acc. split; [rewrite facc_n_bridge; reflexivity|]. split; intros F.
  - destruct (facc_sum_bridge col _ F) as [_ E]. rewrite E. simpl fa_sum. rewrite FR_zero. reflexivity.
  - destruct (facc_sq_bridge col _ F) as [_ E]. rewrite E. simpl fa_sq. rewrite FR_zero. reflexivity.
Qed.

Lemma INR_IZR_nat n : INR n = IZR (Z.of_nat n).
Proof. apply INR_IZR_INZ. Qed.

(* the mean and the deviation of the record of done() are the real expressions of sections 2-4 *)
Theorem twin_stats_real eps big i esize eflag col :
  let a := fcol_acc big col in let xs := FRs col in let n := length xs in
  src_c14_disabled i esize eflag = false -> (2 <= n)%nat -> (Z.of_nat n < 2 ^ 53)%Z -> var_finite a = true ->
  let s := fdone eps i esize eflag a in
  fin (f_mean s) /\ fin (f_stdev s) /\ FR (f_mean s) = meanR xs (INR n) /\ FR (f_stdev s) = sdR xs (INR n) /\
  fmt (INR n - 1).
Proof.
  intros a xs n D Hn Hb VF s.
  destruct (fcol_acc_real big col) as (En & Es & Eq). fold a xs n in En, Es, Eq.
  assert (M : src_c14_many (fa_n a) = true) by (unfold src_c14_many; apply Z.gtb_lt; lia).
  unfold s, fdone. rewrite D, M. simpl.
  unfold var_finite in VF. split_andb VF.
  destruct (float_of_count_ok (fa_n a)) as [FdN EdN]; [lia|].
  assert (EdN' : FR (float_of_count (fa_n a)) = INR n) by (rewrite EdN, En; symmetry; apply INR_IZR_nat).
  clear EdN. rename EdN' into EdN.
  set (dN := float_of_count (fa_n a)) in *.
  assert (N2 : 2 <= INR n) by (apply (le_INR 2); exact Hn).
  assert (N2' : 2 <= FR dN) by (rewrite EdN; exact N2).
  specialize (Es VF). specialize (Eq VF2).
  unfold var_shape, mean_shape. simpl.
  destruct (fin_div_ge1 (fa_sum a) dN VF FdN ltac:(lra)) as [Fmean Emean].
  set (p := PrimFloat.mul (fa_sum a) (fa_sum a)) in *.
  pose proof (proj1 (fin_mul _ _ VF VF) VF1) as Ep. fold p in Ep.
  destruct (fin_div_ge1 p dN VF1 FdN ltac:(lra)) as [Fq Eqq].
  set (r := PrimFloat.sub (fa_sq a) (PrimFloat.div p dN)) in *.
  pose proof (proj1 (fin_sub _ _ VF2 Fq) VF0) as Er. fold r in Er.
  destruct (fin_sub dN fone FdN fin_one) as [Ed1 Fd1']. rewrite FR_one in Ed1, Fd1'.
  assert (Fm1 : fmt (INR n - 1)).
  { rewrite INR_IZR_nat, <- minus_IZR. apply fmt_IZR. lia. }
  assert (R1 : rnd (FR dN - 1) = INR n - 1) by (rewrite EdN; apply rnd_id, Fm1).
  assert (Fd1 : fin (PrimFloat.sub dN fone)).
  { apply Fd1'. rewrite R1. eapply Rle_lt_trans; [|apply (FR_lt_emax dN)]. rewrite EdN, !Rabs_pos_eq; lra. }
  specialize (Ed1 Fd1).
  destruct (fin_div_ge1 r (PrimFloat.sub dN fone) VF0 Fd1 ltac:(lra)) as [Fv Ev].
  set (v := PrimFloat.div r (PrimFloat.sub dN fone)) in *.
  destruct (fmax_cpp_fin v fzero Fv fin_zero) as [Fw Ew]. rewrite FR_zero in Ew.
  assert (Pw : 0 <= FR (fmax_cpp v fzero)) by (rewrite Ew; apply Rmax_r).
  destruct (fin_sqrt _ Fw Pw) as [Fsd Esd].
  split; [exact Fmean|]. split; [exact Fsd|]. split; [|split; [|exact Fm1]].
  - rewrite Emean, Es, EdN. reflexivity.
  - rewrite Esd, Ew, Ev, Er, Eqq, Ep, Ed1, Es, Eq, EdN. reflexivity.
Qed.

(* accuracy of the twin's mean and deviation w.r.t. the exact statistics of the finite entries *)
Theorem twin_mean_accuracy eps big i esize eflag col :
  let a := fcol_acc big col in let xs := FRs col in let n := length xs in
  src_c14_disabled i esize eflag = false -> (2 <= n)%nat -> (Z.of_nat n < 2 ^ 53)%Z -> var_finite a = true ->
  NU (sumR xs / INR n) ->
  Rabs (FR (f_mean (fdone eps i esize eflag a)) - rsum xs / INR n) <= g n * (rabssum xs / INR n).
Proof.
  intros a xs n D Hn Hb VF N.
  destruct (twin_stats_real eps big i esize eflag col D Hn Hb VF) as (_ & _ & E & _). fold a xs n in E. rewrite E.
  assert (2 <= INR n) by (apply (le_INR 2); exact Hn).
  apply mean_accuracy_R; [unfold n in *; lia|apply FRs_fmt|lra|exact N].
Qed.

Theorem twin_stdev_accuracy eps big i esize eflag col :
  let a := fcol_acc big col in let xs := FRs col in let n := length xs in let dn := INR n in
  src_c14_disabled i esize eflag = false -> (2 <= n)%nat -> (Z.of_nat n < 2 ^ 53)%Z -> var_finite a = true ->
  var_NU xs dn ->
  let sd := FR (f_stdev (fdone eps i esize eflag a)) in
  0 <= sd /\
  sd * sd <= (var_ex xs dn + var_err xs dn) * ((1 + u) * (1 + u)) /\
  (var_ex xs dn - var_err xs dn) * ((1 - u) * (1 - u)) <= sd * sd /\
  Rabs (sd - sqrt (var_ex xs dn)) <= u * sqrt (var_ex xs dn) + (1 + u) * sqrt (var_err xs dn).
Proof.
  intros a xs n dn D Hn Hb VF N sd.
  destruct (twin_stats_real eps big i esize eflag col D Hn Hb VF) as (_ & _ & _ & E & Fm). fold a xs n in E, Fm.
  unfold sd. rewrite E.
  destruct (stdev_sq_accuracy_R xs Hn (FRs_fmt col) Fm N) as (A & B & C).
  repeat split; try assumption. exact (stdev_accuracy_R xs Hn (FRs_fmt col) Fm N).
Qed.

(* one scaled value of the twin is y = rnd (rnd (x - off) * div) *)
Lemma fscale_real m s x : m <> MNone -> scale_finite m s x = true ->
  fin (fscale_one m s x) /\ FR (fscale_one m s x) = yR (FR (f_off m s)) (FR (f_div m s)) (FR x).
Proof.
  intros NM SF. unfold scale_finite in SF. split_andb SF.
  unfold fscale_one, nan2zero. rewrite fscale_raw_eq by exact NM. rewrite SF0. split; [exact SF0|].
  unfold yR. rewrite (proj1 (fin_mul _ _ SF1 SF2) SF0), (proj1 (fin_sub _ _ SF SF3) SF1). reflexivity.
Qed.

Lemma fscale_col_real m s col : m <> MNone -> col_scale_finite m s (ffin_entries col) = true ->
  map FR (fscale_col m s (ffin_entries col)) = map (yR (FR (f_off m s)) (FR (f_div m s))) (FRs col).
Proof.
  intros NM. unfold FRs, fscale_col, col_scale_finite. induction (ffin_entries col) as [|x l IH]; [reflexivity|].
  simpl. intros H. apply andb_prop in H. destruct H as [H1 H2]. rewrite (IH H2).
  now rewrite (proj2 (fscale_real m s x NM H1)).
Qed.

(* zero mean of the scaled column of the twin (mean and standard scaling): the scaled finite entries of the column the
   statistics were computed from have a mean within  div * (g N * A / N + g 2 * sum |x_i - mean_fl| / N)  of zero *)
Theorem twin_zero_mean eps big i esize eflag col m :
  let a := fcol_acc big col in let xs := FRs col in let n := length xs in
  let s := fdone eps i esize eflag a in
  (m = MMean \/ m = MStandard) ->
  src_c14_disabled i esize eflag = false -> (2 <= n)%nat -> (Z.of_nat n < 2 ^ 53)%Z -> var_finite a = true ->
  col_scale_finite m s (ffin_entries col) = true -> 0 <= FR (f_div m s) ->
  NU (sumR xs / INR n) -> scale_NU (FR (f_mean s)) (FR (f_div m s)) xs ->
  Rabs (rsum (map FR (fscale_col m s (ffin_entries col))) / INR n)
  <= FR (f_div m s) * (g n * (rabssum xs / INR n) + g 2 * (rabssum (devs (FR (f_mean s)) xs) / INR n)).
Proof.
  intros a xs n s Hm D Hn Hb VF SF Pd N1 N2.
  assert (NM : m <> MNone) by (destruct Hm; subst; discriminate).
  assert (Eo : f_off m s = f_mean s) by (destruct Hm; subst; reflexivity).
  rewrite (fscale_col_real m s col NM SF), Eo. fold xs.
  pose proof (twin_mean_accuracy eps big i esize eflag col D Hn Hb VF N1) as MA. fold a xs n s in MA.
  apply (zero_mean_R (FR (f_mean s)) (FR (f_div m s)) xs); try assumption.
  - unfold n in Hn. lia.
  - apply FRs_fmt.
  - apply FR_fmt.
Qed.

(* ------------------------------------------------------------------------------------------------------------------- *)
(* 8. non-vacuity: the column [1; nan; 3; 5] of C14_FloatDefs.v satisfies every hypothesis used above                  *)
(* ------------------------------------------------------------------------------------------------------------------- *)
Lemma rndZ n : (Z.abs n < 2 ^ 53)%Z -> rnd (IZR n) = IZR n.
Proof. intros H. apply rnd_id, fmt_IZR, H. Qed.
Lemma NU_ge1 t : 1 <= Rabs t -> NU t.
Proof.
  intros H. right. eapply Rle_trans; [|exact H]. change 1 with (bpow radix2 0). apply bpow_le. discriminate.
Qed.

Lemma ex2_xs : FRs ex_fcol = [1; 3; 5].
Proof.
  unfold FRs. replace (ffin_entries ex_fcol) with [fl1; fl3; fl5] by (vm_compute; reflexivity).
  destruct ex_float_values as (E1 & _ & E3 & _ & E5 & _). simpl. now rewrite E1, E3, E5.
Qed.

Lemma ex2_sums : sumR [1; 3; 5] = 9 /\ sqR [1; 3; 5] = 35.
Proof.
  unfold sumR, sqR, step_sum, step_sq. simpl. split.
  - replace (0 + 1) with 1 by ring. rewrite (rndZ 1) by (simpl; lia). replace (1 + 3) with 4 by ring.
    rewrite (rndZ 4) by (simpl; lia). replace (4 + 5) with 9 by ring. apply (rndZ 9). simpl; lia.
  - replace (1 * 1) with 1 by ring. replace (3 * 3) with 9 by ring. replace (5 * 5) with 25 by ring.
    rewrite (rndZ 1), (rndZ 9), (rndZ 25) by (simpl; lia).
    replace (0 + 1) with 1 by ring. rewrite (rndZ 1) by (simpl; lia). replace (1 + 9) with 10 by ring.
    rewrite (rndZ 10) by (simpl; lia). replace (10 + 25) with 35 by ring. apply (rndZ 35). simpl; lia.
Qed.

Lemma ex2_var : varR [1; 3; 5] 3 = 4 /\ var_NU [1; 3; 5] 3 /\ var_ex [1; 3; 5] 3 = 4.
Proof.
  destruct ex2_sums as [S Q]. unfold varR, var_NU, var_ex. rewrite S, Q.
  replace (9 * 9) with 81 by ring. rewrite (rndZ 81) by (simpl; lia). replace (81 / 3) with 27 by field.
  rewrite (rndZ 27) by (simpl; lia). replace (35 - 27) with 8 by ring. rewrite (rndZ 8) by (simpl; lia).
  replace (3 - 1) with 2 by ring. rewrite (rndZ 2) by (simpl; lia). replace (8 / 2) with 4 by field.
  split; [apply (rndZ 4); simpl; lia|]. split.
  - assert (K : forall t, 1 <= t -> NU t) by (intros t Ht; apply NU_ge1; rewrite Rabs_pos_eq; lra).
    split. { repeat (constructor; [apply K; lra|]). constructor. }
    split; [apply K; lra|]. split; apply K; lra.
  - simpl. field.
Qed.

Lemma ex2_nonvacuous :
  let a := fcol_acc ex_fbig ex_fcol in let xs := FRs ex_fcol in
  xs = [1; 3; 5] /\ src_c14_disabled 0 1 1 = false /\ (2 <= length xs)%nat /\ (Z.of_nat (length xs) < 2 ^ 53)%Z /\
  var_finite a = true /\ NU (sumR xs / INR (length xs)) /\ var_NU xs (INR (length xs)) /\
  Forall fmt xs /\ fmt (INR (length xs) - 1) /\
  fdone ex_feps 0 1 1 a = ex_fst /\
  col_scale_finite MStandard ex_fst (ffin_entries ex_fcol) = true /\ 0 <= FR (f_div MStandard ex_fst) /\
  scale_NU (FR (f_mean ex_fst)) (FR (f_div MStandard ex_fst)) xs /\
  var_ex xs 3 = 4 /\ FR (f_mean ex_fst) = 3 /\ FR (f_stdev ex_fst) = 2 /\
  map FR (fscale_col MStandard ex_fst (ffin_entries ex_fcol)) = [-1; 0; 1].
Proof.
  intros a xs. unfold xs. rewrite ex2_xs. simpl length.
  destruct ex_float_values as (E1 & E2 & E3 & E4 & E5 & Ee).
  destruct ex2_sums as [S Q]. destruct ex2_var as (V & NV & VE).
  assert (I3 : INR 3 = 3) by (simpl; ring).
  assert (Em : FR (f_mean ex_fst) = 3) by (change (f_mean ex_fst) with fl3; exact E3).
  assert (Ed : FR (f_div MStandard ex_fst) = / 2).
  { change (f_div MStandard ex_fst) with fl05. rewrite FR_SF. vm_compute (Prim2SF _). unfold SF2R, F2R. simpl. lra. }
  rewrite I3.
  split; [reflexivity|]. split; [reflexivity|]. split; [lia|]. split; [simpl; lia|].
  split; [vm_compute; reflexivity|]. split; [rewrite S; apply NU_ge1; rewrite Rabs_pos_eq; lra|].
  split; [exact NV|]. split; [rewrite <- ex2_xs; apply FRs_fmt|].
  split; [replace (3 - 1) with 2 by ring; apply (fmt_IZR 2); simpl; lia|].
  split; [vm_compute; reflexivity|]. split; [vm_compute; reflexivity|]. split; [rewrite Ed; lra|].
  split.
  { rewrite Em, Ed. unfold scale_NU.
    constructor; [|constructor; [|constructor; [|constructor]]].
    - replace (1 - 3) with (Ropp 2) by ring. rewrite rnd_opp, (rndZ 2) by (simpl; lia). apply NU_ge1. rewrite Rabs_left; lra.
    - replace (3 - 3) with 0 by ring. rewrite rnd_0. left; ring.
    - replace (5 - 3) with 2 by ring. rewrite (rndZ 2) by (simpl; lia). apply NU_ge1. rewrite Rabs_pos_eq; lra. }
  split; [exact VE|]. split; [exact Em|]. split; [change (f_stdev ex_fst) with fl2; exact E2|].
  replace (fscale_col MStandard ex_fst (ffin_entries ex_fcol)) with [PrimFloat.opp fl1; fzero; fl1] by (vm_compute; reflexivity).
  simpl. rewrite FR_zero, E1. f_equal. rewrite FR_SF. vm_compute (Prim2SF _). unfold SF2R, F2R. simpl. lra.
Qed.

Lemma ex2_nonvacuous_real :
  fmt 5 /\ fmt 3 /\ 0 <= / 4 /\ 1 <= 5 <= 5 /\ 1 <= 3 <= 5 /\ Rabs (3 - 3) <= 0 /\
  0 <= 4 /\ Rabs (4 - 4) <= 0 /\ Rabs 0 <= u /\ 2 = sqrt 4 * (1 + 0) /\ 0 < 2 /\ NU (/ 2) /\
  (let t := SLeaf 6 in length [2] = length [3] /\ (1 <= length [2])%nat /\ Permutation (sleaves t) (prods1 [2] [3]) /\
   NU_prods1 [2] [3] /\ fmt 1).
Proof.
  assert (S4 : sqrt 4 = 2) by (replace 4 with (2 * 2) by ring; apply sqrt_square; lra).
  pose proof u_pos.
  split; [apply (fmt_IZR 5); simpl; lia|]. split; [apply (fmt_IZR 3); simpl; lia|].
  split; [lra|]. split; [lra|]. split; [lra|]. split; [replace (3 - 3) with 0 by ring; rewrite Rabs_R0; lra|].
  split; [lra|]. split; [replace (4 - 4) with 0 by ring; rewrite Rabs_R0; lra|]. split; [rewrite Rabs_R0; lra|].
  split; [rewrite S4; ring|]. split; [lra|].
  split. { right. rewrite Rabs_pos_eq by lra. change (/ 2) with (/ bpow radix2 1). rewrite <- bpow_opp. apply bpow_le. discriminate. }
  cbv zeta. simpl sleaves. simpl prods1. replace (2 * 3) with 6 by ring. rewrite (rndZ 6) by (simpl; lia).
  split; [reflexivity|]. split; [simpl; lia|]. split; [apply Permutation_refl|]. split; [|exact fmt_1].
  simpl. split; [apply NU_ge1; rewrite Rabs_pos_eq; lra|exact I].
Qed.
