(* extraction of the executable C16 model (ExtrOcamlBasic only; Z stays the extracted inductive) *)
From Coq Require Import List ZArith Extraction ExtrOcamlBasic.
From LN Require Import C16_Defs C16_StorageDefs.
Extraction Language OCaml.
Extraction "extracted/c16_model.ml" size offset offset0 dims0 validb validpb unoffset view_tensor
  view_vector view_matrix view_slice slice_validb reshape view_at gather integral naive_integral_at
  srun sdump mkSto.
