(* C11, extension "assemble" -- proofs about C11_Assemble_Defs (exact rationals); the facts about the weak learners
   (predict is additive, scale multiplies the prediction, merge preserves the summed prediction) are C10's. *)
From Coq Require Import List ZArith QArith Bool Lia Lra Setoid Morphisms.
From LNGen Require Import Src_earlystop Src_mlresult Src_asm Src_c10.
From LN Require Import C10_Defs C10_Proofs C11_Defs C11_Proofs C11_Assemble_Defs.
Import ListNotations.
Local Open Scope Q_scope.

Notation qsum := C10_Defs.qsum.

(* ------------------------------------------------------------------------------------------------------------ *)
(* 0. small list facts                                                                                            *)
(* ------------------------------------------------------------------------------------------------------------ *)
Lemma fold_left_map_arg {A B C} (g : A -> C -> A) (h : B -> C) : forall l a,
  fold_left (fun a x => g a (h x)) l a = fold_left g (map h l) a.
Proof. induction l as [|x l IH]; intro a; cbn; [reflexivity|apply IH]. Qed.

Lemma psum_app no a b s o : psum no (a ++ b) s o == psum no a s o + psum no b s o.
Proof. unfold psum. rewrite map_app. apply qsum_app. Qed.
Lemma psum_nil no s o : psum no [] s o == 0.
Proof. reflexivity. Qed.
Lemma psum_single no w s o : psum no [w] s o == pred0 no w s o.
Proof. unfold psum. cbn [map]. rewrite qsum_cons, qsum_nil. ring. Qed.
Lemma psum_concat no s o : forall ls, psum no (concat ls) s o == qsum (map (fun l => psum no l s o) ls).
Proof.
  induction ls as [|l ls IH]; [reflexivity|]. cbn [concat map]. rewrite psum_app, IH. rewrite qsum_cons. reflexivity.
Qed.
Lemma psum_merge no ws s o : (o < no)%nat -> psum no (merge ws) s o == psum no ws s o.
Proof. intro Ho. unfold merge. rewrite merge_loop_sum by exact Ho. now rewrite compact_some. Qed.

(* ------------------------------------------------------------------------------------------------------------ *)
(* 1. do_predict                                                                                                  *)
(* ------------------------------------------------------------------------------------------------------------ *)
(* the loop of do_predict, unfolded: the row is assigned the bias and every learner adds its increment, in list order *)
Lemma predict_all_incrs no s : forall ws out,
  predict_all no ws s out = fold_left (add_incr no) (map (fun w => incr no w s) ws) out.
Proof.
  induction ws as [|w ws IH]; intro out; [reflexivity|].
  unfold predict_all. cbn [fold_left map]. fold (predict_all no ws s (predict no w s out)). rewrite IH. reflexivity.
Qed.
Lemma gbm_predict_unfold no m s prev :
  gbm_predict no m s prev = sum_incrs no (g_bias m) (map (fun w => incr no w s) (g_ws m)) prev.
Proof. unfold gbm_predict, sum_incrs. apply predict_all_incrs. Qed.

Lemma add_incr_length no out d : length out = no -> length (add_incr no out d) = no.
Proof. intro H. destruct d as [d|]; cbn; [apply tab_length|exact H]. Qed.
Lemma sum_incrs_length no bias ds prev : length (sum_incrs no bias ds prev) = no.
Proof.
  unfold sum_incrs. assert (H : length (assign_row no bias prev) = no) by apply tab_length. revert H.
  generalize (assign_row no bias prev). induction ds as [|d ds IH]; intros out H; cbn [fold_left]; [exact H|].
  apply IH. now apply add_incr_length.
Qed.

Lemma rget_assign_row no bias prev o : (o < no)%nat -> rget o (assign_row no bias prev) == rget o bias.
Proof. intro Ho. unfold assign_row, src_predict_keep_prev. rewrite rget_tab by exact Ho. reflexivity. Qed.
Lemma assign_row_prev no bias prev prev' : assign_row no bias prev' = assign_row no bias prev.
Proof.
  reflexivity.
Qed.
(* bias + sum of the weak learners' predictions; the previous contents of the buffer do not matter *)
Lemma gbm_predict_sum no m s prev o : (o < no)%nat ->
  rget o (gbm_predict no m s prev) == rget o (g_bias m) + psum no (g_ws m) s o.
Proof.
  intro Ho. unfold gbm_predict. rewrite predict_all_sum by exact Ho. rewrite rget_assign_row by exact Ho. reflexivity.
Qed.
Lemma gbm_predict_spec no m s prev :
  gbm_predict no m s prev = sum_incrs no (g_bias m) (map (fun w => incr no w s) (g_ws m)) prev /\
  length (gbm_predict no m s prev) = no /\
  (forall prev', gbm_predict no m s prev' = gbm_predict no m s prev) /\
  (forall o, (o < no)%nat ->
     rget o (gbm_predict no m s prev)
     == rget o (g_bias m) + qsum (map (fun w => rget o (predict no w s (zeros no))) (g_ws m))).
Proof.
  split; [apply gbm_predict_unfold|]. split; [rewrite gbm_predict_unfold; apply sum_incrs_length|].
  split; [intro prev'; unfold gbm_predict; now rewrite (assign_row_prev no (g_bias m) prev prev')|].
  intros o Ho. apply (gbm_predict_sum no m s prev o Ho).
Qed.

(* the driver's evaluation on real per-learner vectors: every learner given by Some increment *)
Lemma sum_incrs_sum no bias prev o : (o < no)%nat -> forall ds,
  rget o (sum_incrs no bias ds prev)
  == rget o bias + qsum (map (fun d => match d with Some v => rget o v | None => 0 end) ds).
Proof.
  intro Ho. unfold sum_incrs.
  assert (G : forall ds out, rget o (fold_left (add_incr no) ds out)
                             == rget o out + qsum (map (fun d => match d with Some v => rget o v | None => 0 end) ds)).
  { induction ds as [|d ds IH]; intro out; cbn [fold_left map]; [rewrite qsum_nil; ring|].
    rewrite IH, qsum_cons. destruct d as [v|]; cbn [add_incr]; [rewrite rget_tab by exact Ho|]; ring. }
  intro ds. rewrite G. rewrite rget_assign_row by exact Ho. reflexivity.
Qed.

(* ------------------------------------------------------------------------------------------------------------ *)
(* 2. scaling by one factor multiplies the prediction (C10_scale with a single factor, every group index)           *)
(* ------------------------------------------------------------------------------------------------------------ *)
Lemma scale1_spec no d w s o : (o < no)%nat -> pred0 no (scale [d] w) s o == d * pred0 no w s o.
Proof.
  intro Ho. unfold pred0.
  assert (Haff : table_like w = false -> sfac [d] 0 == sfac [d] 1).
  { intros _. rewrite !sfac_single by lia. reflexivity. }
  destruct (scale_spec no [d] w s o Ho Haff) as [_ E]. rewrite E. clear E.
  destruct (group w s) as [g|] eqn:G.
  - destruct (Z_lt_ge_dec g 0) as [Hneg|Hpos].
    + (* a negative group index: the table does not exist, the prediction is zero *)
      assert (Z0 : rget o (predict no w s (zeros no)) == 0).
      { rewrite predict_zero by exact Ho. pose proof (split_table no w s g G) as S.
        destruct (table_like w).
        - rewrite S. unfold znth. apply Z.ltb_lt in Hneg. rewrite Hneg. now rewrite rget_nil.
        - destruct S as [S _]. lia. }
      rewrite Z0. ring.
    + rewrite sfac_single by lia. reflexivity.
  - assert (Z0 : rget o (predict no w s (zeros no)) == 0).
    { rewrite predict_zero by exact Ho. apply (group_none_incr no) in G. now rewrite G. }
    rewrite Z0. ring.
Qed.
Lemma psum_scale1 no d s o : (o < no)%nat -> forall ws, psum no (map (scale [d]) ws) s o == d * psum no ws s o.
Proof.
  intros Ho ws. unfold psum. rewrite map_map. rewrite <- qsum_map_scal. apply qsum_map_eq. intros w _. now apply scale1_spec.
Qed.

(* ------------------------------------------------------------------------------------------------------------ *)
(* 3. the outputs buffer of the boosting loop is the prediction of the learners stored so far                      *)
(* ------------------------------------------------------------------------------------------------------------ *)
Definition bs_inv (no : nat) (s : sample) (bias : list Q) (st : bstate) : Prop :=
  length (bs_out st) = no /\
  forall o, (o < no)%nat -> rget o (bs_out st) == rget o bias + psum no (bs_ws st) s o.

Lemma bround_step_inv no s bias st r : bs_inv no s bias st -> bs_inv no s bias (bround_step no s st r).
Proof.
  intros [HL H]. unfold bs_inv, bround_step. cbv zeta. destruct (br_local r) as [t|]; cbn [bs_out bs_ws]; (split; [apply tab_length|]); intros o Ho;
    rewrite rget_tab by exact Ho; rewrite (H o Ho), psum_app, psum_single.
  - rewrite rget_map_scale. rewrite scale1_spec by exact Ho. unfold pred0. ring.
  - unfold pred0. ring.
Qed.
Lemma bround_step_ws no s st r : exists w, bs_ws (bround_step no s st r) = bs_ws st ++ [w].
Proof. unfold bround_step. cbv zeta. destruct (br_local r); eexists; reflexivity. Qed.

Lemma bloop_from_inv no s bias : forall rs st, bs_inv no s bias st -> bs_inv no s bias (fold_left (bround_step no s) rs st).
Proof. induction rs as [|r rs IH]; intros st H; cbn [fold_left]; [exact H|]. apply IH. now apply bround_step_inv. Qed.
Lemma bloop_inv no s ratio0 bias rs : bs_inv no s bias (bloop no s ratio0 bias rs).
Proof.
  apply bloop_from_inv. split; [apply tab_length|]. intros o Ho. cbn [bs_out bs_ws].
  rewrite rget_assign_row by exact Ho. rewrite psum_nil. ring.
Qed.
(* the learners stored by a prefix of the rounds are a prefix of the learners stored by all of them, one per round *)
Lemma bloop_from_ws no s : forall rs st,
  exists ws, bs_ws (fold_left (bround_step no s) rs st) = bs_ws st ++ ws /\ length ws = length rs.
Proof.
  induction rs as [|r rs IH]; intro st; cbn [fold_left].
  - exists []. now rewrite app_nil_r.
  - destruct (IH (bround_step no s st r)) as (ws & E & L). destruct (bround_step_ws no s st r) as (w & Ew).
    exists (w :: ws). rewrite E, Ew, <- app_assoc. split; [reflexivity|cbn; now rewrite L].
Qed.
Lemma bloop_prefix no s ratio0 bias rs k :
  firstn k (bs_ws (bloop no s ratio0 bias rs)) = bs_ws (bloop no s ratio0 bias (firstn k rs)) /\
  length (bs_ws (bloop no s ratio0 bias rs)) = length rs.
Proof.
  unfold bloop. split.
  - rewrite <- (firstn_skipn k rs) at 1. rewrite fold_left_app.
    set (st1 := fold_left (bround_step no s) (firstn k rs) _).
    destruct (bloop_from_ws no s (skipn k rs) st1) as (ws & E & _). rewrite E.
    destruct (bloop_from_ws no s (firstn k rs) (mk_bs ratio0 (assign_row no bias []) [])) as (ws1 & E1 & L1).
    fold st1 in E1. cbn [bs_ws app] in E1. rewrite E1.
    destruct (Nat.le_gt_cases k (length rs)) as [Hk|Hk].
    + rewrite firstn_length_le in L1 by exact Hk. rewrite firstn_app, L1, Nat.sub_diag. cbn [firstn]. rewrite app_nil_r.
      rewrite <- L1. apply firstn_all.
    + rewrite skipn_all2 in E by lia. cbn [fold_left] in E. rewrite firstn_all2 in L1 by lia.
      assert (ws = []) as ->.
      { rewrite E1 in E. apply (f_equal (@length _)) in E. rewrite app_length in E. destruct ws; [reflexivity|cbn in E; lia]. }
      rewrite app_nil_r. apply firstn_all2. lia.
  - destruct (bloop_from_ws no s rs (mk_bs ratio0 (assign_row no bias []) [])) as (ws & E & L). rewrite E. cbn. exact L.
Qed.

(* ------------------------------------------------------------------------------------------------------------ *)
(* 4. the cut-back                                                                                                *)
(* ------------------------------------------------------------------------------------------------------------ *)
Lemma result_done_sum no round ws s o : (o < no)%nat ->
  psum no (result_done round ws) s o == psum no (firstn (Z.to_nat round) ws) s o.
Proof. intro Ho. unfold result_done, src_gb_erase_from. now apply psum_merge. Qed.

Lemma compact_length_le : forall l : list (option wl), (length (compact l) <= length l)%nat.
Proof. induction l as [|[a|] l IH]; cbn; lia. Qed.
Lemma merge_into_length : forall rest a, let '(_, rest', _) := merge_into a rest in length rest' = length rest.
Proof.
  induction rest as [|[b|] rest IH]; intro a; cbn [merge_into]; [reflexivity| |].
  - destruct (try_merge a b) as [a1|].
    + specialize (IH a1). destruct (merge_into a1 rest) as [[a' t'] m]. cbn. now rewrite IH.
    + specialize (IH a). destruct (merge_into a rest) as [[a' t'] m]. cbn. now rewrite IH.
  - specialize (IH a). destruct (merge_into a rest) as [[a' t'] m]. cbn. now rewrite IH.
Qed.
Lemma merge_loop_length : forall fuel l, length (merge_loop fuel l) = length l.
Proof.
  induction fuel as [|fuel IH]; intro l; cbn [merge_loop]; [reflexivity|]. destruct l as [|[a|] t]; [reflexivity| |].
  - pose proof (merge_into_length t a) as M. destruct (merge_into a t) as [[a' t'] m]. destruct m; cbn; [rewrite IH|]; now rewrite M.
  - cbn. now rewrite IH.
Qed.
Lemma merge_length_le ws : (length (merge ws) <= length ws)%nat.
Proof.
  unfold merge. etransitivity; [apply compact_length_le|]. rewrite merge_loop_length. now rewrite map_length.
Qed.

Section CutBack.
  Variables T V : Type.
  Variable ltb : T -> T -> bool.
  Variable sub : T -> T -> T.
  Variables (eps tmax : T) (patience : Z).

  (* ::fit returns the merge of exactly the learners of the rounds before the optimum round *)
  Lemma fold_model_spec (bias : list Q) max_rounds (o0 : obs T V) (evs : list (ev T V wl)) :
    let st := boost ltb sub eps tmax patience max_rounds o0 evs in
    let r := es_round (ls_es st) in
    g_bias (fold_model bias st) = bias /\
    g_ws (fold_model bias st) = merge (kept_learners st) /\
    g_ws (fold_model bias st) = merge (firstn (Z.to_nat r) (round_ws (firstn max_rounds evs))) /\
    (Z.of_nat (length (g_ws (fold_model bias st))) <= r)%Z /\
    forall no s prev o, (o < no)%nat ->
      rget o (gbm_predict no (fold_model bias st) s prev)
      == rget o bias + psum no (firstn (Z.to_nat r) (round_ws (firstn max_rounds evs))) s o.
  Proof.
    intros st r.
    destruct (round_is_kept T V wl ltb sub eps tmax patience max_rounds o0 evs) as (_ & Hk & Hl & _). fold st in Hk, Hl.
    assert (E : g_ws (fold_model bias st) = merge (kept_learners st)) by reflexivity.
    split; [reflexivity|]. split; [exact E|]. split; [rewrite E, Hk; reflexivity|]. split.
    - rewrite E. pose proof (merge_length_le (kept_learners st)). fold r in Hl. lia.
    - intros no s prev o Ho. rewrite gbm_predict_sum by exact Ho. cbn [g_bias fold_model]. rewrite E, Hk.
      rewrite psum_merge by exact Ho. reflexivity.
  Qed.
End CutBack.

(* the outputs the loop held right after round r (from which the optimum's per-sample values were computed) are the
   prediction of the model cut back to r rounds, whatever was appended after the rounds (scaling-failure learner) *)
Lemma cut_back_outputs no s ratio0 bias rs extra (r : Z) prev o : (o < no)%nat -> (0 <= r <= Z.of_nat (length rs))%Z ->
  rget o (gbm_predict no (mk_gbm bias (result_done r (bs_ws (bloop no s ratio0 bias rs) ++ extra))) s prev)
  == rget o (bs_out (bloop no s ratio0 bias (firstn (Z.to_nat r) rs))).
Proof.
  intros Ho Hr. rewrite gbm_predict_sum by exact Ho. cbn [g_bias g_ws]. rewrite result_done_sum by exact Ho.
  destruct (bloop_prefix no s ratio0 bias rs (Z.to_nat r)) as [P L].
  rewrite firstn_app. rewrite L. replace (Z.to_nat r - length rs)%nat with 0%nat by lia. cbn [firstn]. rewrite app_nil_r, P.
  destruct (bloop_inv no s ratio0 bias (firstn (Z.to_nat r) rs)) as [_ I]. rewrite (I o Ho). reflexivity.
Qed.

(* ------------------------------------------------------------------------------------------------------------ *)
(* 5. the assembly of the final model                                                                             *)
(* ------------------------------------------------------------------------------------------------------------ *)
Lemma asm_fold_loop_spec folds : forall k a fuel, Z.of_nat (a + k) = folds -> (k < fuel)%nat ->
  asm_fold_loop fuel (Z.of_nat a) folds = map Z.of_nat (seq a k).
Proof.
  induction k as [|k IH]; intros a fuel E Hf; (destruct fuel as [|fuel]; [lia|]); cbn [asm_fold_loop seq map];
    unfold src_asm_fold_cont, src_asm_fold_step.
  - replace (Z.of_nat a <? folds)%Z with false by (symmetry; apply Z.ltb_ge; lia). reflexivity.
  - replace (Z.of_nat a <? folds)%Z with true by (symmetry; apply Z.ltb_lt; lia). f_equal.
    replace (Z.of_nat a + 1)%Z with (Z.of_nat (S a)) by lia. apply IH; lia.
Qed.
(* the loop runs for fold = 0, 1, .., folds - 1, in this order *)
Lemma asm_folds_visited_spec folds : (0 <= folds)%Z -> asm_folds_visited folds = map Z.of_nat (seq 0 (Z.to_nat folds)).
Proof.
  intro H. unfold asm_folds_visited, src_asm_fold_first. change 0%Z with (Z.of_nat 0). apply asm_fold_loop_spec; lia.
Qed.

Lemma asm_reset_spec no m : asm_reset no m = mk_gbm (zeros no) [].
Proof. unfold asm_reset, src_asm_reset_size. now rewrite Z.mul_0_r. Qed.

Lemma asm_pick_spec extras folds t fold : asm_pick extras folds t fold = nth (Z.to_nat (t * folds + fold)) extras gbm0.
Proof. reflexivity. Qed.

Lemma asm_denom_spec folds : asm_denom folds = 1 / inject_Z folds.
Proof. reflexivity. Qed.

Lemma asm_add_fold no : forall fms m,
  let m' := fold_left (asm_add no) fms m in
  g_ws m' = g_ws m ++ concat (map g_ws fms) /\
  (fms <> [] -> length (g_bias m') = no) /\
  forall o, (o < no)%nat -> rget o (g_bias m') == rget o (g_bias m) + qsum (map (fun f => rget o (g_bias f)) fms).
Proof.
  induction fms as [|f fms IH]; intro m; cbn [fold_left map concat].
  - split; [now rewrite app_nil_r|]. split; [congruence|]. intros. rewrite qsum_nil. ring.
  - destruct (IH (asm_add no m f)) as (Hw & Hl & Hb). split; [|split].
    + rewrite Hw. cbn [asm_add g_ws]. now rewrite app_assoc.
    + intros _. destruct fms as [|f' fms']; [cbn; apply tab_length|]. apply Hl. discriminate.
    + intros o Ho. rewrite (Hb o Ho). cbn [asm_add g_bias]. rewrite rget_tab by exact Ho. rewrite qsum_cons. ring.
Qed.

Lemma asm_collect_spec no m extras folds t : (0 <= folds)%Z ->
  asm_collect no m extras folds t = fold_left (asm_add no) (fold_models extras folds t) (mk_gbm (zeros no) []).
Proof.
  intro H. unfold asm_collect. rewrite asm_reset_spec, asm_folds_visited_spec by exact H.
  rewrite (fold_left_map_arg (asm_add no) (fun fold => asm_pick extras folds t fold)). f_equal.
  unfold fold_models. rewrite map_map. reflexivity.
Qed.

(* closed form of the assembled model; nothing of the state the object was in survives *)
Lemma assemble_spec no m extras folds t : (0 <= folds)%Z ->
  let fms := fold_models extras folds t in
  let fin := assemble no m extras folds t in
  g_ws fin = map (scale [1 / inject_Z folds]) (merge (concat (map g_ws fms))) /\
  (forall o, (o < no)%nat ->
     rget o (g_bias fin) == qsum (map (fun f => rget o (g_bias f)) fms) * (1 / inject_Z folds)) /\
  assemble no m extras folds t = assemble no gbm0 extras folds t.
Proof.
  intros H fms fin. unfold fin, assemble. rewrite !asm_collect_spec by exact H. fold fms.
  destruct (asm_add_fold no fms (mk_gbm (zeros no) [])) as (Hw & _ & Hb). cbn zeta in Hw, Hb. cbn [g_ws g_bias app] in Hw, Hb.
  split; [|split; [|reflexivity]].
  - unfold asm_finish. cbn [g_ws]. rewrite Hw. reflexivity.
  - intros o Ho. unfold asm_finish. cbn [g_bias]. rewrite asm_denom_spec, rget_map_scale, (Hb o Ho), rget_zeros. ring.
Qed.

(* every fold model read lies inside m_extras (size folds * trials): no default is ever used *)
Lemma fold_models_in_range extras folds trials t : (0 <= t < trials)%Z -> Z.of_nat (length extras) = (folds * trials)%Z ->
  length (fold_models extras folds t) = Z.to_nat folds /\
  forall f, (f < Z.to_nat folds)%nat ->
    (0 <= t * folds + Z.of_nat f < Z.of_nat (length extras))%Z /\
    (t * folds + Z.of_nat f)%Z = slot folds t (Z.of_nat f) /\
    nth_error extras (Z.to_nat (t * folds + Z.of_nat f)) = Some (nth f (fold_models extras folds t) gbm0).
Proof.
  intros Ht HL. split; [unfold fold_models; now rewrite map_length, seq_length|]. intros f Hf.
  assert (R : (0 <= t * folds + Z.of_nat f < Z.of_nat (length extras))%Z) by (rewrite HL; nia).
  split; [exact R|]. split; [reflexivity|].
  change (fold_models extras folds t) with (tab (Z.to_nat folds) (fun f0 => nth (Z.to_nat (t * folds + Z.of_nat f0)) extras gbm0)).
  rewrite nth_tab by exact Hf. apply nth_error_nth'. lia.
Qed.

(* the final model predicts the average of the fold models of the optimum trial, for every sample *)
Lemma assemble_predicts_average no m extras folds t s prev o : (0 < folds)%Z -> (o < no)%nat ->
  let fms := fold_models extras folds t in
  rget o (gbm_predict no (assemble no m extras folds t) s prev)
  == qsum (map (fun f => rget o (gbm_predict no f s prev)) fms) / inject_Z folds.
Proof.
  intros Hf Ho fms. assert (H0 : (0 <= folds)%Z) by lia. destruct (assemble_spec no m extras folds t H0) as (Hw & Hb & _). cbn zeta in Hw, Hb. fold fms in Hw, Hb.
  rewrite gbm_predict_sum by exact Ho. rewrite Hw, (Hb o Ho). rewrite psum_scale1, psum_merge, psum_concat by exact Ho.
  rewrite map_map.
  rewrite (qsum_map_eq (fun f => rget o (gbm_predict no f s prev)) (fun f => rget o (g_bias f) + psum no (g_ws f) s o))
    by (intros f _; now apply gbm_predict_sum).
  rewrite qsum_map_plus. field. intro Z0. assert (P : 0 < inject_Z folds) by (rewrite <- (Zlt_Qlt 0); exact Hf). rewrite Z0 in P. exact (Qlt_irrefl 0 P).
Qed.

(* the same statement in the form the driver evaluates: mean of the rows predicted by the fold models *)
Lemma avg_rows_spec no rows o : (o < no)%nat ->
  rget o (avg_rows no rows) = qsum (map (rget o) rows) / inject_Z (Z.of_nat (length rows)).
Proof. intro Ho. unfold avg_rows. now rewrite rget_tab. Qed.
Lemma assemble_predicts_avg_rows no m extras folds t s prev o : (0 < folds)%Z -> (o < no)%nat ->
  rget o (gbm_predict no (assemble no m extras folds t) s prev)
  == rget o (avg_rows no (map (fun f => gbm_predict no f s prev) (fold_models extras folds t))).
Proof.
  intros Hf Ho. rewrite assemble_predicts_average by assumption. rewrite avg_rows_spec by exact Ho.
  rewrite map_map, map_length.
  replace (length (fold_models extras folds t)) with (Z.to_nat folds) by (unfold fold_models; now rewrite map_length, seq_length).
  rewrite Z2Nat.id by lia. reflexivity.
Qed.

(* the model of a second fit of the same object: whatever the first fit left behind, the learner list the fold loop starts
   from is empty *)
Lemma refit_starts_empty no m : g_ws (asm_reset no m) = [] /\ g_bias (asm_reset no m) = zeros no.
Proof. now rewrite asm_reset_spec. Qed.

(* the loop's outputs row is what predict() of the model made of the bias and the learners stored so far gives *)
Lemma loop_outputs_spec no s ratio0 bias rs prev :
  let st := bloop no s ratio0 bias rs in
  length (bs_ws st) = length rs /\ length (bs_out st) = no /\
  forall o, (o < no)%nat -> rget o (bs_out st) == rget o (gbm_predict no (mk_gbm bias (bs_ws st)) s prev).
Proof.
  intro st. destruct (bloop_prefix no s ratio0 bias rs 0) as [_ L]. destruct (bloop_inv no s ratio0 bias rs) as [HL I].
  split; [exact L|]. split; [exact HL|]. intros o Ho. rewrite gbm_predict_sum by exact Ho. cbn [g_bias g_ws]. apply (I o Ho).
Qed.

Lemma final_predicts_fold_average no m extras folds t s prev o : (0 < folds)%Z -> (o < no)%nat ->
  let fms := fold_models extras folds t in
  rget o (gbm_predict no (assemble no m extras folds t) s prev)
  == qsum (map (fun f => rget o (gbm_predict no f s prev)) fms) / inject_Z folds /\
  rget o (gbm_predict no (assemble no m extras folds t) s prev)
  == rget o (avg_rows no (map (fun f => gbm_predict no f s prev) fms)).
Proof.
  intros Hf Ho fms.
  exact (conj (assemble_predicts_average no m extras folds t s prev o Hf Ho)
              (assemble_predicts_avg_rows no m extras folds t s prev o Hf Ho)).
Qed.
