(* C04 -- proofs about the step-length kernel (C04_Step.v): the multipliers stay strictly positive.

   make_smax returns m = min(1, min_{du_i < 0} -u_i/du_i) (> 0 when u > 0), the first trial step is s0 * m and both
   backtracking stages only multiply by beta in (0, 1]; with s0 < 1 the step is strictly inside the boundary:
   0 < s <= s0 * m < m, hence u_i + s du_i > 0 for every i.  For s0 = 1 (allowed by the parameter's range, 0 < s0 <= 1) only
   u + s du >= 0 holds ([step_boundary_witness]). *)
From Coq Require Import List ZArith QArith Bool Arith Lia Lqa.
From LNGen Require Import Src_c04.
From LN Require Import C04_Defs C04_Step.
Import ListNotations.
Local Open Scope Q_scope.

(* ---- the translated min / product at rationals ------------------------------------------------------------------------ *)
Lemma qmin_with_cases a b : qmin_with Z.min a b == a /\ a <= b \/ qmin_with Z.min a b == b /\ b <= a.
Proof.
  unfold qmin_with, Qeq, Qle. simpl.
  destruct (Z.min_spec (Qnum a * Z.pos (Qden b)) (Qnum b * Z.pos (Qden a))) as [[Hlt E]|[Hle E]]; rewrite E.
  - left. split; [rewrite Pos2Z.inj_mul; ring | lia].
  - right. split; [rewrite Pos2Z.inj_mul; ring | lia].
Qed.

Lemma qmin_with_le_l a b : qmin_with Z.min a b <= a.
Proof. destruct (qmin_with_cases a b) as [[E H]|[E H]]; rewrite E; [apply Qle_refl | exact H]. Qed.

Lemma qmin_with_le_r a b : qmin_with Z.min a b <= b.
Proof. destruct (qmin_with_cases a b) as [[E H]|[E H]]; rewrite E; [exact H | apply Qle_refl]. Qed.

Lemma qmin_with_pos a b : 0 < a -> 0 < b -> 0 < qmin_with Z.min a b.
Proof. intros Ha Hb. destruct (qmin_with_cases a b) as [[E _]|[E _]]; rewrite E; assumption. Qed.

Lemma qmul_with_mul a b : qmul_with Z.mul a b = a * b.
Proof. reflexivity. Qed.

Lemma neg_test d : src_c04_smax_neg (Qnum d) = true <-> d < 0.
Proof. unfold src_c04_smax_neg. rewrite Z.ltb_lt. unfold Qlt. simpl. lia. Qed.

Lemma step_applied_id s : step_applied s = s.
Proof. destruct s. reflexivity. Qed.

(* ---- one iteration of the loop ---------------------------------------------------------------------------------------- *)
Lemma smax_step_spec smax ui dui : 0 < smax -> 0 < ui ->
  let m := smax_step smax ui dui in
  0 < m /\ m <= smax /\ (dui < 0 -> m * (- dui) <= ui).
Proof.
  intros Hs Hu. unfold smax_step. destruct (src_c04_smax_neg (Qnum dui)) eqn:En.
  - apply neg_test in En. unfold src_c04_smax_min.
    assert (0 < - ui / dui) as Hr.
    { setoid_replace (- ui / dui) with (ui * / (- dui)) by (field; intros E; rewrite E in En; apply (Qlt_irrefl 0); exact En).
      apply Qmult_lt_0_compat; [exact Hu|]. apply Qinv_lt_0_compat. lra. }
    simpl. split; [apply qmin_with_pos; assumption|]. split; [apply qmin_with_le_l|].
    intros _. pose proof (qmin_with_le_r smax (- ui / dui)) as Hle.
    assert (0 < - dui) as Hd by lra.
    apply (Qmult_le_r _ _ (- dui) Hd) in Hle.
    setoid_replace (- ui / dui * - dui) with ui in Hle by (field; intros E; rewrite E in En; apply (Qlt_irrefl 0); exact En).
    exact Hle.
  - simpl. split; [exact Hs|]. split; [apply Qle_refl|].
    intros Hd. apply neg_test in Hd. congruence.
Qed.

(* ---- the loop: invariant over the indices already visited ------------------------------------------------------------- *)
Lemma smax_loop_spec u du : (forall i, (i < length u)%nat -> 0 < nth i u 0) ->
  forall fuel j smax, (length u - j <= fuel)%nat -> (j <= length u)%nat -> 0 < smax ->
  let m := smax_loop fuel (Z.of_nat j) (Z.of_nat (length u)) smax u du in
  0 < m /\ m <= smax /\ (forall i, (j <= i < length u)%nat -> nth i du 0 < 0 -> m * (- nth i du 0) <= nth i u 0).
Proof.
  intros Hu. induction fuel as [|fuel IH]; intros j smax Hf Hj Hs.
  - simpl. split; [exact Hs|]. split; [apply Qle_refl|]. intros i Hi. lia.
  - simpl. unfold src_c04_smax_loop_cond. destruct (Z.ltb_spec (Z.of_nat j) (Z.of_nat (length u))) as [Hlt|Hge].
    + assert (j < length u)%nat as Hjl by lia.
      rewrite Nat2Z.id.
      destruct (smax_step_spec smax (nth j u 0) (nth j du 0) Hs (Hu j Hjl)) as [Hp [Hle Hb]].
      replace (Z.of_nat j + 1)%Z with (Z.of_nat (Datatypes.S j)) by lia.
      destruct (IH (Datatypes.S j) (smax_step smax (nth j u 0) (nth j du 0)) ltac:(lia) ltac:(lia) Hp) as [Hp' [Hle' Hb']].
      split; [exact Hp'|]. split; [apply (Qle_trans _ _ _ Hle' Hle)|].
      intros i Hi Hneg. destruct (Nat.eq_dec i j) as [->|Hne].
      * apply (Qle_trans _ (smax_step smax (nth j u 0) (nth j du 0) * - nth j du 0)); [|apply Hb; exact Hneg].
        apply Qmult_le_compat_r; [exact Hle' | lra].
      * apply Hb'; [lia | exact Hneg].
    + split; [exact Hs|]. split; [apply Qle_refl|]. intros i Hi. lia.
Qed.

Lemma make_smax_spec big u du : 0 < big -> (forall i, (i < length u)%nat -> 0 < nth i u 0) ->
  let m := make_smax big u du in
  0 < m /\ m <= 1 /\ (forall i, (i < length u)%nat -> nth i du 0 < 0 -> m * (- nth i du 0) <= nth i u 0).
Proof.
  intros Hb Hu. unfold make_smax, src_c04_smax_cap, src_c04_smax_loop_start.
  destruct (smax_loop_spec u du Hu (Datatypes.S (length u)) 0 big ltac:(lia) ltac:(lia) Hb) as [Hp [_ Hbound]].
  simpl Z.of_nat in Hp, Hbound. simpl.
  set (m0 := smax_loop (Datatypes.S (length u)) 0 (Z.of_nat (length u)) big u du) in *.
  split; [apply qmin_with_pos; [exact Hp | reflexivity]|]. split; [apply qmin_with_le_r|].
  intros i Hi Hneg. apply (Qle_trans _ (m0 * - nth i du 0)); [|apply Hbound; [lia | exact Hneg]].
  apply Qmult_le_compat_r; [apply qmin_with_le_l | lra].
Qed.

Lemma shrink_spec k beta : k = Z.mul -> 0 < beta -> beta <= 1 -> forall n s, 0 < s -> 0 < shrink k n s beta /\ shrink k n s beta <= s.
Proof.
  intros -> Hb Hb1. induction n as [|n IH]; intros s Hs; simpl.
  - split; [exact Hs | apply Qle_refl].
  - rewrite qmul_with_mul. assert (0 < s * beta) as Hp by (apply Qmult_lt_0_compat; assumption).
    destruct (IH (s * beta) Hp) as [H1 H2]. split; [exact H1|].
    apply (Qle_trans _ _ _ H2). setoid_replace s with (s * 1) at 2 by ring.
    rewrite !(Qmult_comm s). apply Qmult_le_compat_r; [exact Hb1 | lra].
Qed.

(* 0 < step <= s0 * make_smax *)
Lemma step_len_spec big s0 beta u du k1 k2 : 0 < big -> (forall i, (i < length u)%nat -> 0 < nth i u 0) ->
  0 < s0 -> 0 < beta -> beta <= 1 ->
  0 < step_len big s0 beta u du k1 k2 /\ step_len big s0 beta u du k1 k2 <= s0 * make_smax big u du.
Proof.
  intros Hb Hu Hs0 Hbe Hbe1. unfold step_len, step_init.
  destruct (make_smax_spec big u du Hb Hu) as [Hm _].
  unfold src_c04_step_init. rewrite qmul_with_mul.
  assert (0 < s0 * make_smax big u du) as Hp by (apply Qmult_lt_0_compat; assumption).
  destruct (shrink_spec src_c04_step_shrink1 beta eq_refl Hbe Hbe1 k1 _ Hp) as [H1 H1'].
  destruct (shrink_spec src_c04_step_shrink2 beta eq_refl Hbe Hbe1 k2 _ H1) as [H2 H2'].
  split; [exact H2 | apply (Qle_trans _ _ _ H2' H1')].
Qed.

Lemma pos_pointwise s : forall u du, length du = length u ->
  (forall i, (i < length u)%nat -> 0 < nth i u 0 + s * nth i du 0) -> Forall (fun t => 0 < t) (vadd u (vscale s du)).
Proof.
  induction u as [|a u IH]; intros du Hl H; destruct du as [|d du]; simpl in Hl; try discriminate.
  - constructor.
  - simpl. constructor.
    + apply (H 0%nat). simpl. lia.
    + apply IH; [lia|]. intros i Hi. apply (H (Datatypes.S i)). simpl. lia.
Qed.

Lemma Forall_nth_pos (u : vec) : Forall (fun t => 0 < t) u -> forall i, (i < length u)%nat -> 0 < nth i u 0.
Proof. intros H i Hi. rewrite Forall_forall in H. apply H. apply nth_In. exact Hi. Qed.

Lemma step_keeps_positive big s0 beta u du k1 k2 :
  0 < big -> Forall (fun t => 0 < t) u -> length du = length u ->
  0 < s0 -> s0 < 1 -> 0 < beta -> beta <= 1 ->
  Forall (fun t => 0 < t) (step_point u du (step_len big s0 beta u du k1 k2)).
Proof.
  intros Hb Hu Hl Hs0 Hs1 Hbe Hbe1. unfold step_point. rewrite step_applied_id.
  pose proof (Forall_nth_pos u Hu) as Hu'.
  destruct (step_len_spec big s0 beta u du k1 k2 Hb Hu' Hs0 Hbe Hbe1) as [Hp Hle].
  destruct (make_smax_spec big u du Hb Hu') as [Hm [_ Hbound]].
  set (s := step_len big s0 beta u du k1 k2) in *. set (m := make_smax big u du) in *.
  assert (s < m) as Hsm.
  { apply (Qle_lt_trans _ _ _ Hle). setoid_replace m with (1 * m) at 2 by ring. apply Qmult_lt_compat_r; assumption. }
  apply pos_pointwise; [exact Hl|]. intros i Hi.
  destruct (Qlt_le_dec (nth i du 0) 0) as [Hneg|Hnn].
  - pose proof (Hbound i Hi Hneg) as Hbi.
    assert (s * (- nth i du 0) < m * (- nth i du 0)) as Hlt by (apply Qmult_lt_compat_r; [lra | exact Hsm]).
    lra.
  - assert (0 <= s * nth i du 0) as H0 by (apply Qmult_le_0_compat; lra).
    pose proof (Hu' i Hi). lra.
Qed.

(* s0 = 1 is inside the parameter's range: then only non-negativity holds *)
Lemma step_keeps_nonneg big s0 beta u du k1 k2 :
  0 < big -> Forall (fun t => 0 < t) u -> length du = length u ->
  0 < s0 -> s0 <= 1 -> 0 < beta -> beta <= 1 ->
  forall i, (i < length u)%nat -> 0 <= nth i u 0 + step_len big s0 beta u du k1 k2 * nth i du 0.
Proof.
  intros Hb Hu Hl Hs0 Hs1 Hbe Hbe1 i Hi.
  pose proof (Forall_nth_pos u Hu) as Hu'.
  destruct (step_len_spec big s0 beta u du k1 k2 Hb Hu' Hs0 Hbe Hbe1) as [Hp Hle].
  destruct (make_smax_spec big u du Hb Hu') as [Hm [_ Hbound]].
  set (s := step_len big s0 beta u du k1 k2) in *. set (m := make_smax big u du) in *.
  assert (s <= m) as Hsm.
  { apply (Qle_trans _ _ _ Hle). setoid_replace m with (1 * m) at 2 by ring. apply Qmult_le_compat_r; [exact Hs1 | lra]. }
  destruct (Qlt_le_dec (nth i du 0) 0) as [Hneg|Hnn].
  - pose proof (Hbound i Hi Hneg) as Hbi.
    assert (s * (- nth i du 0) <= m * (- nth i du 0)) as Hlt by (apply Qmult_le_compat_r; [exact Hsm | lra]).
    lra.
  - assert (0 <= s * nth i du 0) as H0 by (apply Qmult_le_0_compat; lra).
    pose proof (Hu' i Hi). lra.
Qed.

Lemma step_boundary_witness :
  exists u du, Forall (fun t => 0 < t) u /\ length du = length u /\
               step_point u du (step_len 2 1 (9 # 10) u du 0 0) = [0 # 1].
Proof. exists [1], [-(1)]. split; [repeat constructor|]. split; [reflexivity|]. vm_compute. reflexivity. Qed.
