(* extraction of the second C02 extension: the bodies of sgm / cocob / sda / wda as whole runs (C02_Bodies_Defs.v) *)
From Coq Require Import Extraction ExtrOcamlBasic ExtrOCamlFloats.
From LN Require Import C02_Defs C02_Bodies_Defs.
Extraction "extracted/c02b_model.ml" body_run body_minimize b_fuel bbody_of_Z cocob_L0_choice valid value_test_ref maxabs
  sgm_lambda sgm_point cocob_L cocob_reward zero_grad.
