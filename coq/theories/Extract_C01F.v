(* extraction of the executable C01F model (exact-line-search runs of the cgd / quasi-Newton / L-BFGS loops on a quadratic).
   Same conventions as Extract_C01Q: Z / positive mapped to Zarith big integers, Z.ggcd (Qred of the canonical rationals)
   mapped to Zarith's gcd. *)
From Coq Require Import List ZArith QArith Qcanon Extraction ExtrOcamlBasic ExtrOcamlZBigInt.
From LN Require Import C01Q_Defs C01CG_Defs C01_Finite_Defs.
Extraction Language OCaml.
Extract Constant Z.ggcd => "(fun a b -> let g = Big_int_Z.gcd_big_int a b in
  if Big_int_Z.sign_big_int g = 0 then (g, (g, g)) else (g, (Big_int_Z.div_big_int a g, Big_int_Z.div_big_int b g)))".
Extraction "extracted/c01f_model.ml" QcO zcmp dot vadd vsub vscale vopp mv identity scaled_identity bfgs quasi_update
  two_loop lbfgs_direction lbfgs_push cg_init cg_step cg_has_descent exact_next
  quad_f quad_grad ls_step ls_point secant_step cg_quad_xrun qn_direction qn_init_scaled qn_quad_step qn_quad_run
  lbfgs_quad_step lbfgs_quad_run
  Q2Qc Qcplus Qcminus Qcmult Qcdiv Qcopp Qccompare Qred.
