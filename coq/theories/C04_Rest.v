(* C04 -- proofs about the model of C04_Rest_Defs: solve_without_inequality, make_strictly_feasible / make_x0, and the Newton iteration
   without the hypothesis that the LDLT answer solves its system.  Statements: end of Properties_C04.v. *)
From Coq Require Import List ZArith QArith Qminmax Qabs Bool Lia Lqa Setoid Morphisms.
From LNGen Require Import Src_c04.
From LN Require Import C04_Defs C04_Proofs C04_Step C04_StepProofs C04_Iter_Defs C04_Iter C04_Rest_Defs.
Import ListNotations.
Local Open Scope Q_scope.

(* ------------------------------------------------------------------------------------------------------------ *)
(* 0. small list algebra                                                                                          *)
(* ------------------------------------------------------------------------------------------------------------ *)
Lemma vopp_vopp a : veq (vopp (vopp a)) a.
Proof. apply nth_veq; [rewrite !length_vopp; reflexivity|]. intros i. rewrite !nth_vopp. ring. Qed.

Lemma sumsq_app a b : sumsq (a ++ b) == sumsq a + sumsq b.
Proof. unfold sumsq. apply dot_app. reflexivity. Qed.

Lemma sumsq_vopp a : sumsq (vopp a) == sumsq a.
Proof. unfold sumsq. induction a as [|t a IH]; simpl; [reflexivity|]. unfold vopp in IH. rewrite IH. ring. Qed.

Lemma vsub_app : forall a c b d, length a = length c -> vsub (a ++ b) (c ++ d) = vsub a c ++ vsub b d.
Proof.
  induction a as [|x a IH]; intros [|y c] b d L; try discriminate; simpl; [reflexivity|].
  rewrite IH by (simpl in L; congruence). reflexivity.
Qed.

Lemma grad_char P x : wf P -> veq (grad P x) (vadd (qmv P x) (pc P)).
Proof.
  intros W. unfold grad, qmv. destruct (pQ P); [|reflexivity].
  assert (Lc : length (pc P) = dim P) by reflexivity.
  apply nth_veq; [len|]. intros i. rewrite nth_vadd by len. rewrite nth_zeros. ring.
Qed.

Lemma veq_Forall_zero a b : veq a b -> Forall (fun t => t == 0) (vsub a b).
Proof.
  intros H. induction H as [|x y a b Hxy H IH]; simpl; constructor; [lra|assumption].
Qed.

(* ------------------------------------------------------------------------------------------------------------ *)
(* 1. solve_without_inequality                                                                                    *)
(* ------------------------------------------------------------------------------------------------------------ *)
(* what the assembled matrix does to (x, v): the top block is Q x + A' v (A' v for a linear program), the bottom block A x *)
Lemma mv_eq_lmat P x v : wf P -> length x = dim P ->
  veq (mv (eq_lmat P) (x ++ v)) (vadd (qmv P x) (mtv (dim P) (pA P) v) ++ mv (pA P) x).
Proof.
  intros W L. unfold eq_lmat, kkt_mat. rewrite mv_app. apply app_veq.
  - destruct (shape_mzero (dim P)) as [RZ LZ].
    assert (RT : rows_ok (dim P) (match pQ P with [] => mopp (mzero (dim P)) | _ => msub (pQ P) (mzero (dim P)) end)).
    { destruct (pQ P) eqn:E; [apply rows_ok_mopp; assumption|].
      apply rows_ok_msub; [rewrite <- E; apply (wf_Qrows P W)|assumption]. }
    rewrite (mv_happ (dim P)); [|assumption|assumption].
    apply vadd_veq; [|apply mv_tcols; apply (wf_Arows P W)].
    unfold qmv. destruct (pQ P) as [|r M] eqn:E.
    + rewrite mv_mopp. rewrite mv_mzero.
      apply nth_veq; [len|]. intros i. rewrite nth_vopp, nth_zeros. ring.
    + rewrite (mv_msub (dim P)); [|rewrite <- E; apply (wf_Qrows P W)|assumption].
      rewrite mv_mzero.
      assert (LQ : length (mv (r :: M) x) = dim P).
      { rewrite length_mv. destruct (wf_Qsize P W) as [H|H]; rewrite E in H; [discriminate|assumption]. }
      assert (LZ' : length (mv (r :: M) x) = length (zeros (dim P))) by (rewrite length_zeros; exact LQ).
      apply nth_veq; [rewrite length_vsub by exact LZ'; reflexivity|]. intros i. rewrite nth_vsub by exact LZ'. rewrite nth_zeros. ring.
  - apply (mv_bottom (dim P)); [apply (wf_Arows P W)|assumption].
Qed.

(* (1a) the system the code solves IS stationarity + primal feasibility (the signs of `solve(zero, c, -b)`) *)
Lemma eq_kkt_system P x v : wf P -> length x = dim P -> length v = length (pA P) ->
  (veq (mv (eq_lmat P) (x ++ v)) (eq_lvec P) <->
   veq (vadd (qmv P x) (mtv (dim P) (pA P) v)) (vopp (pc P)) /\ veq (mv (pA P) x) (pb P)).
Proof.
  intros W Lx Lv. rewrite (mv_eq_lmat P x v W Lx). unfold eq_lvec, kkt_vec.
  pose proof (length_qmv P x W) as Lq. pose proof (wf_Arows P W) as RA.
  assert (Lc : length (pc P) = dim P) by reflexivity.
  split.
  - intros H. apply veq_app_inv in H; [|len]. destruct H as [H1 H2]. split; [assumption|].
    rewrite H2. apply vopp_vopp.
  - intros [H1 H2]. apply app_veq; [assumption|]. rewrite H2. apply veq_sym, vopp_vopp.
Qed.

(* (1b) sufficiency of KKT for convex equality-constrained programs: an exact answer is a global minimiser over {A x = b} *)
Lemma eq_kkt_sufficient P x v : wf P -> psd P -> pG P = [] -> length x = dim P -> length v = length (pA P) ->
  veq (mv (eq_lmat P) (x ++ v)) (eq_lvec P) -> is_min P x.
Proof.
  intros W PSD HG Lx Lv Hs. apply (eq_kkt_system P x v W Lx Lv) in Hs. destruct Hs as [S F].
  pose proof (wf_Arows P W) as RA. pose proof (length_qmv P x W) as Lq.
  assert (Lc : length (pc P) = dim P) by reflexivity.
  assert (Fx : feasible_pt P x).
  { split; [assumption|]. split.
    - unfold m_rprim. apply veq_Forall_zero. assumption.
    - unfold gxh. rewrite HG. simpl. constructor. }
  split; [assumption|].
  intros z (Lz & Az & _).
  assert (Eg : veq (grad P x) (vopp (mtv (dim P) (pA P) v))).
  { rewrite (grad_char P x W). apply nth_veq; [len|]. intros i.
    pose proof (veq_nth _ _ S i) as Si. rewrite nth_vadd in Si by len. rewrite nth_vopp in Si.
    rewrite nth_vadd by len. rewrite nth_vopp. lra. }
  pose proof (convex_at_y P z x W PSD Lz Lx) as C.
  assert (E0 : dot (grad P x) (vsub z x) == 0).
  { rewrite Eg. rewrite dot_vopp_l. rewrite dot_mtv by assumption.
    rewrite (dot_mvA_diff P v z x W Lz Lx).
    destruct Fx as (_ & Ax & _).
    rewrite (dot_all0_r v _ Az), (dot_all0_r v _ Ax). ring. }
  lra.
Qed.

(* (1c) the status expression and Eigen's isApprox, as translated *)
Lemma approx_b_iff a b prec :
  approx_b a b prec = true <-> sumsq (vsub a b) <= prec * prec * Qmin (sumsq a) (sumsq b).
Proof.
  unfold approx_b, zs3, src_c04_isapprox.
  set (d := sumsq (vsub a b)). set (A := sumsq a). set (B := sumsq b). set (pp := prec * prec).
  rewrite Z.leb_le.
  destruct d as [nd dd], A as [na da], B as [nb db], pp as [np dp]. simpl Qnum. simpl Qden.
  destruct (Q.min_spec (na # da) (nb # db)) as [[Hlt E]|[Hle E]]; rewrite E; clear E.
  - unfold Qlt in Hlt. simpl in Hlt.
    assert (Hm : (Z.min (na * Zpos (dd * db)) (nb * Zpos (dd * da)) = na * Zpos (dd * db))%Z).
    { apply Z.min_l. rewrite !Pos2Z.inj_mul. nia. }
    rewrite Hm. unfold Qle, Qmult. simpl. rewrite !Pos2Z.inj_mul. split; intros H; nia.
  - unfold Qle in Hle. simpl in Hle.
    assert (Hm : (Z.min (na * Zpos (dd * db)) (nb * Zpos (dd * da)) = nb * Zpos (dd * da))%Z).
    { apply Z.min_r. rewrite !Pos2Z.inj_mul. nia. }
    rewrite Hm. unfold Qle, Qmult. simpl. rewrite !Pos2Z.inj_mul. split; intros H; nia.
Qed.

Lemma eq_status_cases valid aprox :
  (src_c04_eq_status valid aprox = st_converged <-> valid = true /\ aprox = true) /\
  (src_c04_eq_status valid aprox = st_failed <-> valid = false) /\
  (src_c04_eq_status valid aprox = 3%Z <-> valid = true /\ aprox = false).
Proof.
  unfold src_c04_eq_status, st_converged, st_failed.
  destruct valid, aprox; simpl; repeat split; intros; try discriminate; try tauto;
    try (destruct H; discriminate).
Qed.

Lemma eq_converged_iff P mufx miu eps2 ans :
  es_status (eq_solve P mufx miu eps2 ans) = st_converged <->
  ea_valid ans = true /\
  sumsq (eq_sys_residual P (ea_x ans) (ea_v ans))
    <= eps2 * eps2 * Qmin (sumsq (mv (eq_lmat P) (ea_x ans ++ ea_v ans))) (sumsq (eq_lvec P)).
Proof.
  unfold eq_solve. simpl es_status.
  destruct (eq_status_cases (ea_valid ans) (approx_b (mv (eq_lmat P) (ea_x ans ++ ea_v ans)) (eq_lvec P) eps2)) as [H _].
  rewrite H. rewrite approx_b_iff. unfold eq_sys_residual. reflexivity.
Qed.

(* `failed` iff the residual is not finite, `unfeasible` iff finite but the system is not solved; no other status *)
Lemma eq_status_other P mufx miu eps2 ans :
  (es_status (eq_solve P mufx miu eps2 ans) = st_failed <-> ea_valid ans = false) /\
  (es_status (eq_solve P mufx miu eps2 ans) = 3%Z <-> ea_valid ans = true /\ es_aprox (eq_solve P mufx miu eps2 ans) = false) /\
  (es_status (eq_solve P mufx miu eps2 ans) = st_converged \/ es_status (eq_solve P mufx miu eps2 ans) = st_failed \/
   es_status (eq_solve P mufx miu eps2 ans) = 3%Z).
Proof.
  unfold eq_solve. simpl.
  destruct (eq_status_cases (ea_valid ans) (approx_b (mv (eq_lmat P) (ea_x ans ++ ea_v ans)) (eq_lvec P) eps2)) as [_ [H2 H3]].
  split; [assumption|]. split; [assumption|].
  unfold src_c04_eq_status, st_converged, st_failed. destruct (ea_valid ans), (approx_b _ _ _); simpl; auto.
Qed.

(* (1d) the reported objective is the caller's objective at x; the stored residuals are those of the returned (x, v) *)
Lemma eq_objective_reported dQ dA dG P miu eps2 ans : 0 < dQ ->
  s_fx (es_res (eq_solve (normalizeP dQ dA dG P) dQ miu eps2 ans)) == objective P (ea_x ans).
Proof.
  intros H. unfold eq_solve, upd. simpl s_fx. rewrite qnorm_eq. apply objective_reported. assumption.
Qed.

Lemma gtb_of_nat_S k : (Z.of_nat (S k) >? 0)%Z = true.
Proof. apply Z.gtb_lt. lia. Qed.

Lemma eq_state_residuals P mufx miu eps2 ans : pG P = [] ->
  let st := eq_solve P mufx miu eps2 ans in
  es_x st = ea_x ans /\ es_v st = ea_v ans /\
  veq (s_rdual (es_res st)) (m_rdual P (ea_x ans) [] (ea_v ans)) /\
  veq (s_rprim (es_res st)) (m_rprim P (ea_x ans)) /\
  s_eta (es_res st) = 0 /\ s_rcent (es_res st) = [].
Proof.
  intros HG. unfold eq_solve, upd, eq_res_init. simpl. rewrite HG. simpl.
  unfold src_c04_upd_gap_guard, src_c04_upd_ineq_guard, src_c04_upd_eq_guard. simpl.
  split; [reflexivity|]. split; [reflexivity|].
  unfold m_rdual, m_rprim. rewrite HG.
  destruct (pA P) as [|a A] eqn:EA.
  - simpl. repeat split; try reflexivity. apply vnorm_veq.
  - change (length (a :: A)) with (S (length A)). rewrite gtb_of_nat_S. repeat split; try reflexivity; apply vnorm_veq.
Qed.

(* (1e) what `converged` guarantees about feasibility: only a bound RELATIVE to the right-hand side (-c, b) of the KKT system *)
Lemma eq_converged_rprim_bound P mufx miu eps2 ans : wf P -> length (ea_x ans) = dim P ->
  es_status (eq_solve P mufx miu eps2 ans) = st_converged ->
  sumsq (m_rprim P (ea_x ans)) <= eps2 * eps2 * (sumsq (pc P) + sumsq (pb P)).
Proof.
  intros W Lx Hc. apply eq_converged_iff in Hc. destruct Hc as [_ Hc].
  set (x := ea_x ans) in *. set (v := ea_v ans) in *.
  assert (Lc : length (pc P) = dim P) by reflexivity.
  pose proof (length_qmv P x W) as Lq. pose proof (wf_Arows P W) as RA.
  assert (E1 : sumsq (eq_lvec P) == sumsq (pc P) + sumsq (pb P)).
  { unfold eq_lvec, kkt_vec. rewrite sumsq_app, !sumsq_vopp. reflexivity. }
  assert (E2 : sumsq (m_rprim P x) <= sumsq (eq_sys_residual P x v)).
  { unfold eq_sys_residual. rewrite (mv_eq_lmat P x v W Lx). unfold eq_lvec, kkt_vec.
    rewrite vsub_app by len. rewrite sumsq_app.
    assert (E3 : veq (vsub (mv (pA P) x) (vopp (vopp (pb P)))) (m_rprim P x)).
    { unfold m_rprim. rewrite vopp_vopp. reflexivity. }
    rewrite E3. pose proof (sumsq_nonneg (vsub (vadd (qmv P x) (mtv (dim P) (pA P) v)) (vopp (pc P)))). lra. }
  assert (E4 : Qmin (sumsq (mv (eq_lmat P) (x ++ v))) (sumsq (eq_lvec P)) <= sumsq (eq_lvec P)) by apply Q.le_min_r.
  assert (E5 : 0 <= eps2 * eps2) by apply sq_nonneg.
  rewrite <- E1. nra.
Qed.

(* an equality system that no point satisfies within that relative bound is never declared `converged`, whatever the answer *)
Lemma eq_never_converged_if_infeasible P mufx miu eps2 : wf P ->
  (forall x, length x = dim P -> eps2 * eps2 * (sumsq (pc P) + sumsq (pb P)) < sumsq (m_rprim P x)) ->
  forall ans, length (ea_x ans) = dim P -> es_status (eq_solve P mufx miu eps2 ans) <> st_converged.
Proof.
  intros W H ans Lx Hc. pose proof (eq_converged_rprim_bound P mufx miu eps2 ans W Lx Hc). specialize (H _ Lx). lra.
Qed.

(* on the caller's rows, after the normalisation of the constructor (|c'|_2 <= 1, |b'|_2 <= 1): |a_i x - b_i| <= sqrt 2 eps2 dA *)
Lemma eq_converged_user_rows dQ dA dG P miu eps2 ans : wf (normalizeP dQ dA dG P) -> 0 < dA -> length (ea_x ans) = dim P ->
  sumsq (vdiv dQ (pc P)) <= 1 -> sumsq (vdiv dA (pb P)) <= 1 ->
  es_status (eq_solve (normalizeP dQ dA dG P) dQ miu eps2 ans) = st_converged ->
  Forall (fun t => t * t <= 2 * (eps2 * dA) * (eps2 * dA)) (m_rprim P (ea_x ans)).
Proof.
  intros W HA Lx Hc1 Hb1 Hc.
  assert (Lx' : length (ea_x ans) = dim (normalizeP dQ dA dG P)) by (rewrite dim_normalize; assumption).
  pose proof (eq_converged_rprim_bound _ dQ miu eps2 ans W Lx' Hc) as B. simpl pc in B. simpl pb in B.
  assert (E5 : 0 <= eps2 * eps2) by apply sq_nonneg.
  assert (B' : sumsq (m_rprim (normalizeP dQ dA dG P) (ea_x ans)) <= 2 * (eps2 * eps2)) by nra.
  pose proof (rprim_normalize dQ dA dG P (ea_x ans)) as R.
  assert (F : Forall (fun t' => t' * t' <= 2 * (eps2 * eps2)) (m_rprim (normalizeP dQ dA dG P) (ea_x ans))).
  { apply Forall_forall. intros t Ht. pose proof (sumsq_ge_sq _ t Ht). lra. }
  refine (Forall2_Forall_impl (fun t' t => t' == t / dA) (fun t' => t' * t' <= 2 * (eps2 * eps2)) _ _ _ _ R F).
  intros t' t E Bt. rewrite E in Bt.
  assert (E' : t * t == (t / dA) * (t / dA) * (dA * dA)) by (field; lra).
  rewrite E'. assert (0 < dA * dA) by nra. nra.
Qed.

(* ------------------------------------------------------------------------------------------------------------ *)
(* 2. make_strictly_feasible / make_x0                                                                            *)
(* ------------------------------------------------------------------------------------------------------------ *)
Lemma msf_accept_iff G h x : msf_accept G h x = true <-> vmaxc (msf_slack G h x) < 0.
Proof.
  unfold msf_accept, src_c04_msf_accept. rewrite Z.ltb_lt. unfold Qlt. simpl. split; intros H; lia.
Qed.

Lemma msf_accept_strict G h x : msf_accept G h x = true ->
  msf_slack G h x <> [] /\ Forall (fun t => t < 0) (msf_slack G h x).
Proof.
  rewrite msf_accept_iff. destruct (msf_slack G h x) as [|t a] eqn:E.
  - simpl. intros H. exfalso. apply (Qlt_irrefl 0). exact H.
  - intros H. split; [discriminate|]. apply vmaxc_lt in H; [assumption|discriminate].
Qed.

Lemma msf_loop_some : forall fuel trial trials G h rounds x,
  msf_loop fuel trial trials G h rounds = Some x -> msf_accept G h x = true.
Proof.
  induction fuel as [|f IH]; intros trial trials G h rounds x H; simpl in H; [discriminate|].
  destruct rounds as [|r rest]; [discriminate|].
  destruct (src_c04_msf_cond trial trials); [|discriminate].
  destruct (msf_accept G h (r_xm r)) eqn:E1; [inversion H; subst; assumption|].
  destruct (msf_accept G h (r_xM r)) eqn:E2; [inversion H; subst; assumption|].
  apply (IH _ _ _ _ _ _ H).
Qed.

(* (2a) whatever the answers of the inner solves are: a returned point is strictly inside every inequality *)
Lemma msf_returns_strict G h rounds x : msf_run G h rounds = Some x ->
  G <> [] /\ msf_slack G h x <> [] /\ Forall (fun t => t < 0) (msf_slack G h x).
Proof.
  unfold msf_run. destruct G as [|g G]; [discriminate|]. intros H.
  split; [discriminate|]. apply msf_accept_strict. apply (msf_loop_some _ _ _ _ _ _ _ H).
Qed.

(* G'G x = G'(G x) *)
Lemma gram_mv n G x : rows_ok n G -> veq (mv (gram n G) x) (mtv n G (mv G x)).
Proof.
  intros R.
  assert (L1 : length (mv (gram n G) x) = n) by (unfold mv, gram; rewrite !map_length, seq_length; reflexivity).
  assert (L2 : length (mtv n G (mv G x)) = n) by (apply length_mtv; assumption).
  apply nth_veq; [congruence|]. intros i.
  destruct (Nat.lt_ge_cases i n) as [Hi|Hi].
  - rewrite <- (veq_nth _ _ (mv_tcols n G (mv G x) R) i). rewrite nth_mv_tcols by assumption.
    unfold mv at 1, gram. rewrite map_map.
    rewrite (nth_map_seq (fun j => dot (mtv n G (col j G)) x)) by assumption.
    apply dot_mtv. assumption.
  - rewrite !nth_overflow by lia. reflexivity.
Qed.

Lemma mtv_vsub n M a b : rows_ok n M -> length a = length b ->
  veq (mtv n M (vsub a b)) (vsub (mtv n M a) (mtv n M b)).
Proof.
  intros R L.
  assert (E : veq (vsub a b) (vadd a (vscale (- (1)) b))).
  { apply nth_veq; [len|]. intros i. rewrite nth_vsub, nth_vadd by len. rewrite nth_vscale. ring. }
  rewrite E. rewrite (mtv_lin n M R) by assumption.
  apply nth_veq; [len|]. intros i. rewrite nth_vsub, nth_vadd by len. rewrite nth_vscale. ring.
Qed.

Lemma sumsq_vadd a b : length a = length b -> sumsq (vadd a b) == sumsq a + 2 * dot a b + sumsq b.
Proof.
  intros L. unfold sumsq. rewrite dot_vadd_l by assumption. rewrite !dot_vadd_r by assumption.
  rewrite (dot_comm b a). ring.
Qed.

Lemma nth_mv M v i : nth i (mv M v) 0 = dot (nth i M []) v.
Proof. unfold mv. exact (map_nth (fun r => dot r v) M [] i). Qed.

Lemma mv_vsub M z x : length z = length x -> veq (mv M (vsub z x)) (vsub (mv M z) (mv M x)).
Proof.
  intros L. apply nth_veq; [len|]. intros i. rewrite nth_vsub by len. rewrite !nth_mv. apply dot_vsub_r. assumption.
Qed.

(* (2b) a candidate that solves its normal equations is the least-squares fit of "every slack equals y" *)
Lemma msf_least_squares n G h y x z : rows_ok n G -> length h = length G -> length x = n -> length z = n ->
  Forall (fun t => t == 0) (msf_residual n G h y x) ->
  sumsq (vsub (mv G x) (msf_target h y)) <= sumsq (vsub (mv G z) (msf_target h y)).
Proof.
  intros R Lh Lx Lz NE.
  set (t := msf_target h y).
  assert (Lt : length t = length G) by (unfold t, msf_target; rewrite map_length; assumption).
  set (r := vsub (mv G x) t).
  assert (Lr : length r = length G) by (unfold r; len).
  (* G' r = 0 *)
  assert (Z0 : Forall (fun q => q == 0) (mtv n G r)).
  { unfold r. apply (veq_Forall (fun q => q == 0)) with (a := msf_residual n G h y x); [intros s0 t0 E H0; rewrite <- E; assumption| |assumption].
    unfold msf_residual, msf_rhs. fold t. rewrite (gram_mv n G x R). apply veq_sym. apply mtv_vsub; [assumption|len]. }
  assert (E : veq (vsub (mv G z) t) (vadd r (mv G (vsub z x)))).
  { rewrite (mv_vsub G z x) by congruence. unfold r.
    apply nth_veq; [len|]. intros i. rewrite nth_vadd by len. rewrite !nth_vsub by len. ring. }
  rewrite E. rewrite sumsq_vadd by len.
  assert (D : dot r (mv G (vsub z x)) == 0).
  { rewrite <- (dot_mtv n G r (vsub z x) R). apply dot_all0_l. assumption. }
  pose proof (sumsq_nonneg (mv G (vsub z x))). fold r. lra.
Qed.

Lemma slack_target : forall a h y, veq (vsub a (msf_target h y)) (map (fun t => t + y) (vsub a h)).
Proof.
  induction a as [|p a IH]; intros [|q h] y; simpl; try constructor.
  - ring.
  - apply IH.
Qed.

(* (2c) completeness in one special case only: if some point has every slack EQUAL to the trial distance y, trial y succeeds *)
Lemma msf_finds_equal_slack n G h y x z : rows_ok n G -> G <> [] -> length h = length G -> length x = n -> length z = n ->
  0 < y -> Forall (fun t => t == 0) (msf_residual n G h y x) ->
  Forall (fun t => t == - y) (msf_slack G h z) -> msf_accept G h x = true.
Proof.
  intros R HG Lh Lx Lz Hy NE Hz.
  pose proof (msf_least_squares n G h y x z R Lh Lx Lz NE) as LS.
  assert (Zz : sumsq (vsub (mv G z) (msf_target h y)) == 0).
  { rewrite (slack_target (mv G z) h y). unfold sumsq. apply dot_all0_l.
    apply Forall_map. unfold msf_slack in Hz. eapply Forall_impl; [|exact Hz]. simpl. intros a Ha. rewrite Ha. ring. }
  assert (Zx : Forall (fun t => t == 0) (vsub (mv G x) (msf_target h y))).
  { apply Forall_forall. intros t Ht. pose proof (sumsq_ge_sq _ t Ht) as B.
    assert (t * t <= 0) by lra. pose proof (sq_nonneg t). nra. }
  apply (veq_Forall (fun q => q == 0) (fun s0 t0 E H0 => Qeq_trans _ _ _ (Qeq_sym _ _ E) H0) _ _ (slack_target (mv G x) h y)) in Zx.
  apply Forall_map in Zx.
  apply msf_accept_iff. unfold msf_slack in *.
  assert (Ne : vsub (mv G x) h <> []).
  { destruct G as [|g G]; [contradiction|]. destruct h as [|q h]; [discriminate|]. simpl. discriminate. }
  apply vmaxc_lt; [assumption|]. eapply Forall_impl; [|exact Zx]. simpl. intros a Ha. lra.
Qed.

Lemma lt0_compat (s t : Q) : s == t -> s < 0 -> t < 0.
Proof. intros E H. rewrite <- E. exact H. Qed.

(* (2d) the default start when nothing is found: the zero vector, rejected before the first iteration unless every h_i > 0 *)
Lemma dot_zeros_r w n : dot w (zeros n) == 0.
Proof. rewrite dot_comm. apply dot_zeros_l. Qed.

Lemma gxh_zeros P n : wf P -> veq (gxh P (zeros n)) (vopp (ph P)).
Proof.
  intros W. pose proof (wf_h P W) as Lh. unfold gxh.
  apply nth_veq; [len|]. intros i. rewrite nth_vsub by len. rewrite nth_mv, nth_vopp. rewrite dot_zeros_r. ring.
Qed.

Lemma start_from_zero P mufx par : wf P -> pG P <> [] ->
  (iter_start P mufx par (make_x0 (dim P) None) = None <-> ~ Forall (fun t => 0 < t) (ph P)).
Proof.
  intros W HG. unfold iter_start, make_x0.
  assert (Ne : gxh P (zeros (dim P)) <> []).
  { pose proof (length_gxh P (zeros (dim P)) W) as L. destruct (pG P); [contradiction|]. destruct (gxh P (zeros (dim P))); [discriminate|discriminate]. }
  assert (Eq : Forall (fun t => t < 0) (gxh P (zeros (dim P))) <-> Forall (fun t => 0 < t) (ph P)).
  { pose proof (gxh_zeros P (dim P) W) as E. split; intros H.
    - apply (veq_Forall (fun t => t < 0) lt0_compat _ _ E) in H.
      unfold vopp in H. apply Forall_map in H. eapply Forall_impl; [|exact H]. simpl. intros a Ha. lra.
    - apply (veq_Forall (fun t => t < 0) lt0_compat _ _ (veq_sym _ _ E)).
      unfold vopp. apply Forall_map. eapply Forall_impl; [|exact H]. simpl. intros a Ha. lra. }
  rewrite <- Eq. rewrite <- (vmaxc_lt _ 0 Ne).
  unfold start_unfeasible_dec, src_c04_start_unfeasible.
  destruct (Z.geb (Qnum (vmaxc (gxh P (zeros (dim P))))) 0) eqn:E.
  - split; [|reflexivity]. intros _ H. apply Z.geb_le in E. unfold Qlt in H. simpl in H. lia.
  - split; [discriminate|]. intros H. exfalso. apply H. unfold Qlt. simpl.
    assert (~ (0 <= Qnum (vmaxc (gxh P (zeros (dim P)))))%Z) by (intro C; apply Z.geb_le in C; congruence). lia.
Qed.

Lemma Forall_vdiv_pos d h : 0 < d -> (Forall (fun t => 0 < t) (vdiv d h) <-> Forall (fun t => 0 < t) h).
Proof.
  intros Hd. assert (0 < / d) by (apply Qinv_lt_0_compat; assumption).
  unfold vdiv. rewrite Forall_map. split; intros H0; eapply Forall_impl; try exact H0; simpl; intros a Ha; unfold Qdiv in *.
  - assert (E : a == a * / d * d) by (field; lra). rewrite E. nra.
  - nra.
Qed.

(* ------------------------------------------------------------------------------------------------------------ *)
(* 3. the Newton iteration without the hypothesis that the LDLT answer solves its system                          *)
(* ------------------------------------------------------------------------------------------------------------ *)
(* (3a) elimination with a defect: whatever (dx, dv) is, with (rt, rb) = lmat (dx, dv) - lvec the full Newton rows hold up to it *)
Lemma ldlt_elimination_with_defect P x u rd rc rp dx dv du rt rb :
  wf P -> length x = dim P -> length u = length (pG P) -> length rd = dim P -> length rc = length (pG P) ->
  length rp = length (pA P) -> length dx = dim P -> length dv = length (pA P) ->
  length rt = dim P -> length rb = length (pA P) ->
  Forall (fun t => ~ t == 0) (gxh P x) ->
  veq (sys_residual P x u rd rc rp dx dv) (rt ++ rb) ->
  veq du (back_subst P x u rc dx) ->
  veq (vadd (vadd (qmv P dx) (mtv (dim P) (pG P) du)) (mtv (dim P) (pA P) dv)) (vadd (vopp rd) rt) /\
  veq (vsub (vopp (vmul u (mv (pG P) dx))) (vmul (gxh P x) du)) (vopp rc) /\
  veq (mv (pA P) dx) (vadd (vopp rp) rb).
Proof.
  intros W Lx Lu Lrd Lrc Lrp Ldx Ldv Lrt Lrb Hnz Hres Hdu.
  pose proof (wf_Grows P W) as RG. pose proof (wf_Arows P W) as RA.
  pose proof (length_qmv P dx W) as Lq. pose proof (length_gxh P x W) as Lg.
  assert (Lw : length (wvec P x u) = length (pG P)) by (rewrite (veq_length _ _ (wvec_veq P x u)); len).
  assert (Lrd' : length (vsub rd rt) = dim P) by len.
  assert (Lrp' : length (vsub rp rb) = length (pA P)) by len.
  assert (Hsys : veq (mv (lmat P x u) (dx ++ dv)) (lvec P x (vsub rd rt) rc (vsub rp rb))).
  { unfold sys_residual in Hres. rewrite mv_lmat in Hres by assumption. rewrite lvec_veq in Hres.
    rewrite mv_lmat by assumption. rewrite lvec_veq.
    set (T := vadd (vsub (qmv P dx) (mtv (dim P) (pG P) (vmul (wvec P x u) (mv (pG P) dx)))) (mtv (dim P) (pA P) dv)) in *.
    set (K := mtv (dim P) (pG P) (vquo rc (gxh P x))) in *.
    assert (LK : length K = dim P) by (unfold K; apply length_mtv; assumption).
    assert (LT : length T = dim P) by (unfold T; len).
    rewrite vsub_app in Hres by len.
    apply veq_app_inv in Hres; [|len]. destruct Hres as [H1 H2].
    apply app_veq.
    - apply nth_veq; [len|]. intros i. pose proof (veq_nth _ _ H1 i) as Hi.
      rewrite nth_vsub in Hi by len. rewrite nth_vopp, nth_vadd in Hi by len.
      rewrite nth_vopp, nth_vadd by len. rewrite nth_vsub by len. lra.
    - apply nth_veq; [len|]. intros i. pose proof (veq_nth _ _ H2 i) as Hi.
      rewrite nth_vsub in Hi by len. rewrite nth_vopp in Hi.
      rewrite nth_vopp. rewrite nth_vsub by len. lra. }
  destruct (iter_elimination P x u (vsub rd rt) rc (vsub rp rb) dx dv du W Lx Lu Lrd' Lrc Lrp' Ldx Ldv Hnz Hsys Hdu) as [N1 [N2 N3]].
  split; [|split; [assumption|]].
  - rewrite N1. apply nth_veq; [len|]. intros i. rewrite nth_vopp, nth_vsub by len. rewrite nth_vadd by len. rewrite nth_vopp. ring.
  - rewrite N3. apply nth_veq; [len|]. intros i. rewrite nth_vopp, nth_vsub by len. rewrite nth_vadd by len. rewrite nth_vopp. ring.
Qed.

(* (3b) both linear residuals are affine along ANY direction: the deviation from the contraction is s times the defect *)
Lemma rprim_with_defect P x dx s rb : wf P -> length x = dim P -> length dx = dim P -> length rb = length (pA P) ->
  veq (mv (pA P) dx) (vadd (vopp (m_rprim P x)) rb) ->
  veq (m_rprim P (vadd x (vscale s dx))) (vadd (vscale (1 - s) (m_rprim P x)) (vscale s rb)).
Proof.
  intros W Lx Ldx Lrb H. pose proof (wf_b P W) as Lb. unfold m_rprim in *.
  rewrite mv_lin by congruence. apply nth_veq; [len|].
  intros i. pose proof (veq_nth _ _ H i) as Hi. rewrite nth_vadd in Hi by len. rewrite nth_vopp, nth_vsub in Hi by len.
  rewrite nth_vsub by len. rewrite !nth_vadd by len. rewrite !nth_vscale. rewrite nth_vsub by len. rewrite Hi. ring.
Qed.

Lemma rdual_with_defect P x u v dx du dv s rt :
  wf P -> length x = dim P -> length u = length (pG P) -> length v = length (pA P) ->
  length dx = dim P -> length du = length (pG P) -> length dv = length (pA P) -> length rt = dim P ->
  veq (vadd (vadd (qmv P dx) (mtv (dim P) (pG P) du)) (mtv (dim P) (pA P) dv)) (vadd (vopp (m_rdual P x u v)) rt) ->
  veq (m_rdual P (vadd x (vscale s dx)) (vadd u (vscale s du)) (vadd v (vscale s dv)))
      (vadd (vscale (1 - s) (m_rdual P x u v)) (vscale s rt)).
Proof.
  intros W Lx Lu Lv Ldx Ldu Ldv Lrt H.
  pose proof (wf_Grows P W) as RG. pose proof (wf_Arows P W) as RA.
  assert (Lc : length (pc P) = dim P) by reflexivity.
  rewrite !m_rdual_char in * by assumption.
  rewrite qmv_lin by (try assumption; congruence).
  rewrite (mtv_lin _ _ RA) by congruence. rewrite (mtv_lin _ _ RG) by congruence.
  pose proof (length_qmv P x W) as Lq. pose proof (length_qmv P dx W) as Lqd.
  remember (qmv P x) as q. remember (qmv P dx) as qd. remember (pc P) as c.
  remember (mtv (dim P) (pA P) v) as a. remember (mtv (dim P) (pA P) dv) as ad.
  remember (mtv (dim P) (pG P) u) as g. remember (mtv (dim P) (pG P) du) as gd.
  assert (La : length a = dim P) by (subst a; apply length_mtv; assumption).
  assert (Lad : length ad = dim P) by (subst ad; apply length_mtv; assumption).
  assert (Lg : length g = dim P) by (subst g; apply length_mtv; assumption).
  assert (Lgd : length gd = dim P) by (subst gd; apply length_mtv; assumption).
  clear Heqq Heqqd Heqa Heqad Heqg Heqgd.
  apply nth_veq; [len|].
  intros i. pose proof (veq_nth _ _ H i) as Hi.
  rewrite !nth_vadd in Hi by len. rewrite nth_vopp in Hi. rewrite !nth_vadd in Hi by len.
  repeat (first [rewrite nth_vadd by len | rewrite nth_vscale]).
  setoid_replace (nth i qd 0) with (- (nth i q 0 + nth i c 0 + nth i a 0 + nth i g 0) + nth i rt 0 - nth i gd 0 - nth i ad 0) by lra.
  ring.
Qed.

(* the checked hypothesis: what [lu_ok_b] = true means *)
Lemma lu_ok_sound P x u rd rc rp dx dv tol : lu_ok_b P x u rd rc rp dx dv tol = true ->
  Forall (fun t => Qabs t <= tol) (sys_residual P x u rd rc rp dx dv).
Proof.
  unfold lu_ok_b. rewrite forallb_forall. intros H. apply Forall_forall. intros t Ht. apply Qle_bool_iff. apply H. assumption.
Qed.

(* (3c) safety without it: a run of the loop that ends `converged` -- whatever the answers were -- ends at a feasible point with the
   three stored quantities below epsilon *)
Lemma iter_run_converged P mufx par : 0 <= p_eps par ->
  forall fuel iters maxit st answers, i_status st <> st_converged ->
  let r := fst (iter_run fuel iters maxit P mufx par st answers) in
  i_status r = st_converged ->
  feasible_dec P (i_x r) (p_eps2 par) = true /\ s_eta (i_res r) < p_eps par /\
  sumsq (s_rdual (i_res r)) < p_eps par * p_eps par /\ sumsq (s_rprim (i_res r)) < p_eps par * p_eps par.
Proof.
  intros He. induction fuel as [|f IH]; intros iters maxit st answers Hst; simpl.
  - intros C. contradiction.
  - destruct answers as [|ans rest]; [simpl; intros C; contradiction|].
    destruct (src_c04_outer_cond iters maxit); [|simpl; intros C; contradiction].
    destruct (iter_step P mufx par st ans) as [[k st1] tr] eqn:E.
    unfold iter_step in E.
    destruct (Z.eqb k 0) eqn:Ek.
    + apply Z.eqb_eq in Ek. subst k. apply IH.
      pose proof (iter_core_exits P mufx par st ans (back_subst P (i_x st) (i_u st) (s_rcent (i_res st)) (a_dx ans))) as X.
      rewrite E in X. simpl in X.
      destruct X as [[[H|H] _]|[[H _]|[[H _]|[[H _]|[_ H]]]]]; try discriminate. rewrite H. assumption.
    + simpl. intros C.
      pose proof (iter_converged_only_through_done P mufx par st ans (back_subst P (i_x st) (i_u st) (s_rcent (i_res st)) (a_dx ans)) He Hst) as X.
      rewrite E in X. simpl in X. destruct (X C) as [_ Y]. exact Y.
Qed.

Lemma ldlt_failure_never_false_converged dQ dA dG P mufx par : 0 < dA -> 0 < dG -> 0 < p_eps2 par -> 0 <= p_eps par ->
  forall fuel iters maxit st answers, i_status st <> st_converged ->
  let r := fst (iter_run fuel iters maxit (normalizeP dQ dA dG P) mufx par st answers) in
  i_status r = st_converged ->
  user_feasible_b P (i_x r) (p_eps2 par * dA) (p_eps2 par * dG) = true /\ s_eta (i_res r) < p_eps par /\
  sumsq (s_rdual (i_res r)) < p_eps par * p_eps par /\ sumsq (s_rprim (i_res r)) < p_eps par * p_eps par.
Proof.
  intros HA HG He2 He fuel iters maxit st answers Hst r C.
  destruct (iter_run_converged (normalizeP dQ dA dG P) mufx par He fuel iters maxit st answers Hst C) as [F R].
  split; [|exact R]. apply (feasible_transfer dQ dA dG P _ _ HA HG He2 F).
Qed.

Lemma ldlt_never_converged_if_infeasible dQ dA dG P mufx par : 0 < dA -> 0 < dG -> 0 < p_eps2 par -> 0 <= p_eps par ->
  (forall x, user_feasible_b P x (p_eps2 par * dA) (p_eps2 par * dG) = false) ->
  forall fuel iters maxit st answers, i_status st <> st_converged ->
  i_status (fst (iter_run fuel iters maxit (normalizeP dQ dA dG P) mufx par st answers)) <> st_converged.
Proof.
  intros HA HG He2 He Hinf fuel iters maxit st answers Hst C.
  destruct (ldlt_failure_never_false_converged dQ dA dG P mufx par HA HG He2 He fuel iters maxit st answers Hst C) as [F _].
  rewrite Hinf in F. discriminate.
Qed.
