(* C14 -- executable model of the per-column statistics, scale / upscale kernels and the affine
   up-scaling of src/dataset/stats.cpp, over exact rationals (Q).

   * a column is a [list (option Q)]: [None] is a missing / non-finite entry (std::isfinite fails);
   * the integer guards of update()/done() (N > 1, N == 0, the enable mask, the batch ranges) are the
     kernels translated from the source on every run (LNGen.Src_dstats);
   * the square root of done() is not a rational function: [done1] takes the value [sd] that the code
     stored in m_stdev as an argument; the theorems about the standard scaling assume [sd_ok] (sd >= 0,
     sd * sd == clamped one-pass variance), all the others hold for every sd;
   * [eps] is epsilon2<scalar_t>() and [big] is std::numeric_limits<scalar_t>::max() (initial min/max);
   No proofs here. *)
From Coq Require Import List ZArith QArith Bool.
From LNGen Require Import Src_dstats.
Import ListNotations.
Local Open Scope Q_scope.

(* ---- C++ comparisons on finite values ---------------------------------------------------------- *)
Definition qlt (a b : Q) : bool := negb (Qle_bool b a).
(* std::min(a, b) = (b < a) ? b : a      std::max(a, b) = (a < b) ? b : a *)
Definition qmin (a b : Q) : Q := if qlt b a then b else a.
Definition qmax (a b : Q) : Q := if qlt a b then b else a.

(* ---- update(): one-pass accumulation, non-finite entries skipped ---------------------------------- *)
Record acc := mkacc { a_n : Z; a_sum : Q; a_sq : Q; a_min : Q; a_max : Q }.

Definition acc0 (big : Q) : acc := mkacc 0 0 0 big (- big).

Definition update1 (a : acc) (v : option Q) : acc :=
  match v with
  | None => a
  | Some x => mkacc (a_n a + src_c14_count_inc)%Z (a_sum a + x) (a_sq a + x * x)
                    (qmin (a_min a) x) (qmax (a_max a) x)
  end.

Definition accumulate (a : acc) (col : list (option Q)) : acc := fold_left update1 col a.

(* the finite entries of a column *)
Fixpoint finite (col : list (option Q)) : list Q :=
  match col with
  | [] => []
  | None :: r => finite r
  | Some x :: r => x :: finite r
  end.

(* ---- done(): finalisation ----------------------------------------------------------------------- *)
Record stats := mkstats { s_n : Z; s_min : Q; s_max : Q; s_mean : Q; s_stdev : Q;
                          s_div_range : Q; s_mul_range : Q; s_div_stdev : Q; s_mul_stdev : Q }.

Definition stats_off (n : Z) : stats := mkstats n 0 0 0 0 1 1 1 1.

(* (sum x^2 - (sum x)^2 / N) / (N - 1), the argument of the clamp + sqrt *)
Definition var_of (a : acc) : Q :=
  let dN := inject_Z (a_n a) in (a_sq a - a_sum a * a_sum a / dN) / (dN - 1).

(* what m_stdev must satisfy when N > 1: the non-negative root of the clamped variance *)
Definition sd_ok (a : acc) (sd : Q) : Prop := 0 <= sd /\ sd * sd == qmax (var_of a) 0.

(* column [i] of [esize] flags, flag value [eflag] *)
Definition done1 (eps sd : Q) (i esize eflag : Z) (a : acc) : stats :=
  let N := a_n a in
  let st :=
    if src_c14_many N then
      let dN := inject_Z N in
      let range := a_max a - a_min a in
      mkstats N (a_min a) (a_max a) (a_sum a / dN) sd
              (1 / qmax range eps) (qmax range eps) (1 / qmax sd eps) (qmax sd eps)
    else if src_c14_none N then mkstats N 0 0 0 0 1 1 1 1
    else mkstats N (a_min a) (a_max a) (a_sum a) 0 1 1 1 1 in
  (* NB: disable scaling for this dimension! (overwrites everything but the sample count) *)
  if src_c14_disabled i esize eflag then stats_off N else st.

(* statistics of one column: flag 1 = scaling enabled *)
Definition col_stats (eps big sd : Q) (eflag : Z) (col : list (option Q)) : stats :=
  done1 eps sd 0 1 eflag (accumulate (acc0 big) col).

(* ---- scale / upscale ---------------------------------------------------------------------------- *)
Inductive mode := MNone | MMean | MMinMax | MStandard.

Definition mode_of_Z (z : Z) : mode :=
  if (z =? 1)%Z then MMean else if (z =? 2)%Z then MMinMax else if (z =? 3)%Z then MStandard else MNone.

(* scale: affine map, then nan2zero (a missing entry becomes 0) *)
Definition scale1 (m : mode) (s : stats) (v : option Q) : Q :=
  match v with
  | None => 0
  | Some x =>
    match m with
    | MNone => x
    | MMean => (x - s_mean s) * s_div_range s
    | MMinMax => (x - s_min s) * s_div_range s
    | MStandard => (x - s_mean s) * s_div_stdev s
    end
  end.

Definition upscale1 (m : mode) (s : stats) (y : Q) : Q :=
  match m with
  | MNone => y
  | MMean => s_mean s + y * s_mul_range s
  | MMinMax => s_min s + y * s_mul_range s
  | MStandard => s_mean s + y * s_mul_stdev s
  end.

Fixpoint scale_row (m : mode) (ss : list stats) (row : list (option Q)) : list Q :=
  match ss, row with
  | s :: ss', v :: row' => scale1 m s v :: scale_row m ss' row'
  | _, _ => []
  end.

Fixpoint upscale_row (m : mode) (ss : list stats) (row : list Q) : list Q :=
  match ss, row with
  | s :: ss', y :: row' => upscale1 m s y :: upscale_row m ss' row'
  | _, _ => []
  end.

(* ---- nano::upscale(flatten_stats, fmode, targets_stats, tmode, W, b) ---------------------------- *)
(* make_scaling: x -> w * x + b *)
Definition scaling_w (m : mode) (s : stats) : Q :=
  match m with MNone => 1 | MMean => s_div_range s | MMinMax => s_div_range s | MStandard => s_div_stdev s end.
Definition scaling_b (m : mode) (s : stats) : Q :=
  match m with
  | MNone => 0
  | MMean => - s_mean s * s_div_range s
  | MMinMax => - s_min s * s_div_range s
  | MStandard => - s_mean s * s_div_stdev s
  end.

Fixpoint dot (u v : list Q) : Q :=
  match u, v with
  | a :: u', b :: v' => a * b + dot u' v'
  | _, _ => 0
  end.

(* bias' = (W . flatten_b + bias - targets_b) / targets_w *)
Definition up_bias (fm tm : mode) (fs : list stats) (t : stats) (wrow : list Q) (b : Q) : Q :=
  (dot wrow (map (scaling_b fm) fs) + b - scaling_b tm t) / scaling_w tm t.

(* W'(i, j) = W(i, j) / targets_w(i) * flatten_w(j) *)
Fixpoint up_wrow (fm tm : mode) (fs : list stats) (t : stats) (wrow : list Q) : list Q :=
  match fs, wrow with
  | f :: fs', w :: wrow' => (w / scaling_w tm t * scaling_w fm f) :: up_wrow fm tm fs' t wrow'
  | _, _ => []
  end.

(* ---- batches of make_*_stats: [i, min(i + batch, size)) for i = 0, batch, 2 batch, ... --------------- *)
Fixpoint batches (fuel : nat) (i batch size : Z) : list (Z * Z) :=
  match fuel with
  | O => []
  | S f => if src_c14_batch_more i size
           then (i, src_c14_batch_end i batch size) :: batches f (i + src_c14_batch_next batch)%Z batch size
           else []
  end.

Definition slice {A} (l : list A) (r : Z * Z) : list A :=
  firstn (Z.to_nat (snd r - fst r)) (skipn (Z.to_nat (fst r)) l).

(* statistics accumulated batch by batch, as make_flatten_stats does *)
Definition accumulate_batched (a : acc) (col : list (option Q)) (batch : Z) : acc :=
  let size := Z.of_nat (length col) in
  fold_left (fun a r => accumulate a (slice col r)) (batches (length col) 0 batch size) a.

(* ---- helpers for the driver (normal forms keep the extracted numbers small) ---------------------- *)
Definition qred_stats (s : stats) : stats :=
  mkstats (s_n s) (Qred (s_min s)) (Qred (s_max s)) (Qred (s_mean s)) (Qred (s_stdev s))
          (Qred (s_div_range s)) (Qred (s_mul_range s)) (Qred (s_div_stdev s)) (Qred (s_mul_stdev s)).
