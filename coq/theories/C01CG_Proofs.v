(* C01CG -- proofs about the conjugate-gradient direction of C01CG_Defs, over ANY ordered field (field_theory with Leibniz
   equality + positive cone, exactly the section hypotheses of C01Q_Proofs, whose vector lemmas are re-used).
   Every statement is about the executable model for all dimensions, all vectors (also a garbage previous direction),
   all beta values. *)
From Coq Require Import List ZArith Bool Lia Field Ring Arith.
From LNGen Require Import Src_c01cg.
From LN Require Import C01Q_Defs C01Q_Proofs C01CG_Defs.
Import ListNotations.

Section CGAlgebra.
  Variable F : Type.
  Variable FO : fops F.
  Local Notation "0" := (f0 FO).
  Local Notation "1" := (f1 FO).
  Local Infix "+" := (fadd FO).
  Local Infix "*" := (fmul FO).
  Local Infix "-" := (fsub FO).
  Local Infix "/" := (fdiv FO).
  Local Notation "- x" := (fopp FO x).
  Local Notation "/ x" := (finv FO x).
  Hypothesis Fth : field_theory 0 1 (fadd FO) (fmul FO) (fsub FO) (fopp FO) (fdiv FO) (finv FO) (@eq F).
  Add Field Ffield_cg : Fth.
  Variable pos : F -> Prop.
  Hypothesis pos_add : forall a b, pos a -> pos b -> pos (a + b).
  Hypothesis pos_mul : forall a b, pos a -> pos b -> pos (a * b).
  Hypothesis pos_cases : forall a, a = 0 \/ pos a \/ pos (- a).
  Hypothesis pos_0 : ~ pos 0.
  Hypothesis fcmp_spec : forall a b,
    (fcmp FO a b = 1%Z /\ pos (a - b)) \/ (fcmp FO a b = 0%Z /\ a = b) \/ (fcmp FO a b = (-1)%Z /\ pos (b - a)).

  Local Notation dot := (dot FO).
  Local Notation vadd := (vadd FO).
  Local Notation vsub := (vsub FO).
  Local Notation vscale := (vscale FO).
  Local Notation vopp := (vopp FO).
  Local Notation mv := (mv FO).
  Local Notation zeros := (zeros FO).
  Local Notation nonneg := (nonneg FO pos).
  Local Notation fmax := (fmax FO).
  Local Notation fmin := (fmin FO).
  Local Notation fabs := (fabs FO).
  Local Notation flt := (flt FO).

  (* the lemmas of C01Q_Proofs at this field *)
  Local Notation Qdiv_def := (div_def F FO Fth).
  Local Notation Qdot_comm := (dot_comm F FO Fth).
  Local Notation Qpos_nz := (pos_nz F FO pos pos_0).
  Local Notation Qpos_asym := (pos_asym F FO Fth pos pos_add pos_0).
  Local Notation Qpos_inv := (pos_inv F FO Fth pos pos_add pos_mul pos_cases pos_0).
  Local Notation Qpos_sq := (pos_sq F FO Fth pos pos_mul pos_cases).
  Local Notation Qpos_1 := (pos_1 F FO Fth pos pos_mul pos_cases).
  Local Notation Qeq0_dec := (eq0_dec F FO Fth pos pos_cases pos_0).
  Local Notation Qdot_self_pos := (dot_self_pos F FO Fth pos pos_add pos_mul pos_cases pos_0).
  Local Notation Qdot_self_nonneg := (dot_self_nonneg F FO Fth pos pos_add pos_mul pos_cases pos_0).
  Local Notation Qfcmp_refl := (fcmp_refl F FO Fth pos pos_0 fcmp_spec).
  Local Notation Qvec_zero_dec := (vec_zero_dec F FO Fth pos pos_cases pos_0).

  Ltac expand :=
    cbv zeta;
    repeat (rewrite ?(dot_vadd_r F FO Fth), ?(dot_vsub_r F FO Fth), ?(dot_vscale_r F FO Fth), ?(dot_vopp_r F FO Fth),
            ?(dot_vadd_l F FO Fth), ?(dot_vsub_l F FO Fth), ?(dot_vscale_l F FO Fth), ?(dot_vopp_l F FO Fth)).

  (* ---- order -------------------------------------------------------------------------------------------------------- *)
  Lemma pos_opp_opp a : pos a -> pos (- - a).
  Proof. intros P. replace (- - a) with a by ring. exact P. Qed.
  Lemma nonneg_0 : nonneg 0.
  Proof. left. reflexivity. Qed.
  Lemma pos_nonneg a : pos a -> nonneg a.
  Proof. intros P. right. exact P. Qed.
  Lemma nonneg_pos_absurd a : nonneg a -> pos (- a) -> False.
  Proof.
    intros [E|P] N; [subst; apply pos_0; replace 0 with (fopp FO 0) by ring; exact N|exact (Qpos_asym a P N)].
  Qed.
  Lemma nonneg_mul a b : nonneg a -> nonneg b -> nonneg (a * b).
  Proof.
    intros [A|A] [B|B]; subst; [left; ring|left; ring|left; ring|right; apply pos_mul; assumption].
  Qed.
  Lemma nonneg_plus a b : nonneg a -> nonneg b -> nonneg (a + b).
  Proof. apply (nonneg_add F FO Fth pos pos_add). Qed.
  Lemma nonneg_cases a : nonneg a \/ pos (- a).
  Proof. destruct (pos_cases a) as [E|[P|N]]; [left; left; exact E|left; right; exact P|right; exact N]. Qed.
  Lemma pos_2 : pos (f2 FO).
  Proof. unfold f2. apply pos_add; apply Qpos_1. Qed.

  (* a < b as computed by the model *)
  Lemma flt_spec a b : flt a b = true <-> pos (b - a).
  Proof.
    unfold C01CG_Defs.flt.
    destruct (fcmp_spec a b) as [[E Q]|[[E Q]|[E Q]]]; rewrite E; simpl; split; intros X; try discriminate; try reflexivity.
    - exfalso. apply (Qpos_asym (a - b) Q). replace (- (a - b)) with (b - a) by ring. exact X.
    - exfalso. subst. apply pos_0. replace 0 with (b - b) by ring. exact X.
    - exact Q.
  Qed.
  Lemma flt_false a b : flt a b = false <-> nonneg (a - b).
  Proof.
    split.
    - intros E. destruct (nonneg_cases (a - b)) as [N|P]; [exact N|].
      assert (T : flt a b = true) by (apply flt_spec; replace (b - a) with (- (a - b)) by ring; exact P). congruence.
    - intros N. destruct (flt a b) eqn:E; [|reflexivity]. exfalso. apply flt_spec in E.
      apply (nonneg_pos_absurd (a - b) N). replace (- (a - b)) with (b - a) by ring. exact E.
  Qed.

  (* std::max / std::min / std::fabs *)
  Lemma fmax_cases a b : (fmax a b = b /\ pos (b - a)) \/ (fmax a b = a /\ nonneg (a - b)).
  Proof.
    unfold C01CG_Defs.fmax. destruct (flt a b) eqn:E; [left; split; [reflexivity|apply flt_spec; exact E]|].
    right. split; [reflexivity|apply flt_false; exact E].
  Qed.
  Lemma fmin_cases a b : (fmin a b = b /\ pos (a - b)) \/ (fmin a b = a /\ nonneg (b - a)).
  Proof.
    unfold C01CG_Defs.fmin. destruct (flt b a) eqn:E; [left; split; [reflexivity|apply flt_spec; exact E]|].
    right. split; [reflexivity|apply flt_false; exact E].
  Qed.
  Lemma fmax_ge_l a b : nonneg (fmax a b - a).
  Proof. destruct (fmax_cases a b) as [[E P]|[E N]]; rewrite E; [right; exact P|left; ring]. Qed.
  Lemma fmax_ge_r a b : nonneg (fmax a b - b).
  Proof. destruct (fmax_cases a b) as [[E P]|[E N]]; rewrite E; [left; ring|exact N]. Qed.
  Lemma fmin_le_l a b : nonneg (a - fmin a b).
  Proof. destruct (fmin_cases a b) as [[E P]|[E N]]; rewrite E; [right; exact P|left; ring]. Qed.
  Lemma fmin_le_r a b : nonneg (b - fmin a b).
  Proof. destruct (fmin_cases a b) as [[E P]|[E N]]; rewrite E; [left; ring|exact N]. Qed.
  Lemma fabs_cases a : (fabs a = - a /\ pos (- a)) \/ (fabs a = a /\ nonneg a).
  Proof.
    unfold C01CG_Defs.fabs. destruct (flt a 0) eqn:E.
    - left. split; [reflexivity|]. apply flt_spec in E. replace (- a) with (0 - a) by ring. exact E.
    - right. split; [reflexivity|]. apply flt_false in E. replace a with (a - 0) by ring. exact E.
  Qed.
  Lemma fabs_nonneg a : nonneg (fabs a).
  Proof. destruct (fabs_cases a) as [[E P]|[E N]]; rewrite E; [right; exact P|exact N]. Qed.
  Lemma fabs_0 : fabs 0 = 0.
  Proof. destruct (fabs_cases 0) as [[E P]|[E N]]; rewrite E; [ring|reflexivity]. Qed.

  (* ---- the decisions of the source ------------------------------------------------------------------------------- *)
  Lemma cg_has_descent_spec g d : cg_has_descent FO g d = true <-> pos (- dot g d).
  Proof.
    unfold cg_has_descent, src_state_has_descent, src_state_dg. rewrite Qfcmp_refl.
    change (Z.ltb (fcmp FO (dot g d) 0) 0) with (flt (dot g d) 0). rewrite flt_spec.
    replace (0 - dot g d) with (- dot g d) by ring. reflexivity.
  Qed.
  Lemma cg_restart_false orthotest g pg d :
    cg_restart FO orthotest g pg d = false <->
    pos (- dot g d) /\ pos (orthotest * dot g g - fabs (dot g pg)).
  Proof.
    unfold cg_restart, src_cg_restart. rewrite Qfcmp_refl. rewrite orb_false_iff, negb_false_iff, cg_has_descent_spec.
    replace (1 * 0)%Z with 0%Z by reflexivity.
    destruct (fcmp_spec (fabs (dot g pg)) (orthotest * dot g g)) as [[E Q]|[[E Q]|[E Q]]]; rewrite E; simpl;
      split; intros [A B]; try discriminate; try (split; [exact A|]); try reflexivity.
    - exfalso. apply (Qpos_asym _ Q). replace (- (fabs (dot g pg) - orthotest * dot g g)) with (orthotest * dot g g - fabs (dot g pg)) by ring. exact B.
    - exfalso. rewrite Q in B. apply pos_0. replace 0 with (orthotest * dot g g - orthotest * dot g g) by ring. exact B.
    - exact Q.
  Qed.
  Lemma cg_restart_true orthotest g pg d :
    cg_restart FO orthotest g pg d = true <->
    nonneg (dot g d) \/ nonneg (fabs (dot g pg) - orthotest * dot g g).
  Proof.
    split.
    - intros T. destruct (nonneg_cases (dot g d)) as [N|P]; [left; exact N|].
      destruct (nonneg_cases (fabs (dot g pg) - orthotest * dot g g)) as [N2|P2]; [right; exact N2|].
      assert (X : cg_restart FO orthotest g pg d = false).
      { apply cg_restart_false. split; [exact P|].
        replace (orthotest * dot g g - fabs (dot g pg)) with (- (fabs (dot g pg) - orthotest * dot g g)) by ring. exact P2. }
      congruence.
    - intros H. destruct (cg_restart FO orthotest g pg d) eqn:E; [reflexivity|]. exfalso.
      apply cg_restart_false in E. destruct E as [A B]. destruct H as [N|N].
      + exact (nonneg_pos_absurd _ N A).
      + apply (nonneg_pos_absurd _ N).
        replace (- (fabs (dot g pg) - orthotest * dot g g)) with (orthotest * dot g g - fabs (dot g pg)) by ring. exact B.
  Qed.

  (* ---- (2) the chosen direction: -g exactly when the restart fired, otherwise the candidate with both tests passed ---- *)
  Lemma cg_choose_spec orthotest beta pg pd g :
    let '(d, restarted) := cg_choose FO orthotest beta pg pd g in
    (restarted = true -> d = vopp g /\
       (nonneg (dot g (cg_candidate FO beta g pd)) \/ nonneg (fabs (dot g pg) - orthotest * dot g g))) /\
    (restarted = false -> d = cg_candidate FO beta g pd /\ pos (- dot g d) /\
       pos (orthotest * dot g g - fabs (dot g pg))).
  Proof.
    unfold cg_choose. cbv zeta. destruct (cg_restart FO orthotest g pg (cg_candidate FO beta g pd)) eqn:E.
    - split; [intros _|discriminate]. split; [reflexivity|]. apply cg_restart_true in E. exact E.
    - split; [discriminate|intros _]. apply cg_restart_false in E. destruct E as [A B]. repeat split; assumption.
  Qed.

  (* ---- (1) the chosen direction is a descent direction -------------------------------------------------------------- *)
  Lemma dot_g_oppg g : dot g (vopp g) = - dot g g.
  Proof. apply (dot_vopp_r F FO Fth). Qed.
  Lemma descent_steepest g : g <> zeros (length g) -> pos (- dot g (vopp g)).
  Proof. intros N. rewrite dot_g_oppg. apply pos_opp_opp. apply Qdot_self_pos. exact N. Qed.
  Lemma descent_choose orthotest beta pg pd g :
    g <> zeros (length g) -> pos (- dot g (fst (cg_choose FO orthotest beta pg pd g))).
  Proof.
    intros N. unfold cg_choose. cbv zeta. destruct (cg_restart FO orthotest g pg (cg_candidate FO beta g pd)) eqn:E; simpl.
    - apply descent_steepest. exact N.
    - apply cg_restart_false in E. exact (proj1 E).
  Qed.
  Lemma descent_step k eta orthotest pd2 pg2 st g :
    g <> zeros (length g) -> pos (- dot g (snd (cg_step FO k eta orthotest pd2 pg2 st g))).
  Proof.
    intros N. unfold cg_step. simpl. destruct (src_cg_first _); [apply descent_steepest; exact N|apply descent_choose; exact N].
  Qed.
  (* every direction of every run of the loop (any sequence of gradients, any start state) *)
  Fixpoint cg_run (k : cgkind) (eta orthotest : F) (norms : list (F * F)) (st : cgstate F) (gs : list (vec F)) : list (vec F) :=
    match gs with
    | [] => []
    | g :: gs' =>
        let '(pd2, pg2) := hd (0, 0) norms in
        let '(st', d) := cg_step FO k eta orthotest pd2 pg2 st g in
        d :: cg_run k eta orthotest (tl norms) st' gs'
    end.
  Lemma descent_run k eta orthotest : forall gs norms st,
    Forall (fun g => g <> zeros (length g)) gs ->
    Forall2 (fun g d => pos (- dot g d)) gs (cg_run k eta orthotest norms st gs).
  Proof.
    induction gs as [|g gs IH]; intros norms st NZ; cbn [cg_run]; [constructor|].
    inversion NZ as [|g' gs' N NZ']; subst g' gs'.
    destruct (hd (0, 0) norms) as [pd2 pg2].
    pose proof (descent_step k eta orthotest pd2 pg2 st g N) as D.
    destruct (cg_step FO k eta orthotest pd2 pg2 st g) as [st' d]. simpl in D.
    constructor; [exact D|apply IH; exact NZ'].
  Qed.
  (* the book-keeping: after a step the state holds the gradient and the chosen direction *)
  Lemma cg_step_state k eta orthotest pd2 pg2 st g :
    let '(st', d) := cg_step FO k eta orthotest pd2 pg2 st g in
    cs_pg st' = g /\ cs_pd st' = d /\ cs_cd st' = d /\
    (cs_cd st = [] -> d = vopp g) /\
    (cs_cd st <> [] ->
       (d, true) = cg_choose FO orthotest (cg_beta FO k eta pd2 pg2 (cs_pg st) (cs_pd st) g) (cs_pg st) (cs_pd st) g \/
       (d, false) = cg_choose FO orthotest (cg_beta FO k eta pd2 pg2 (cs_pg st) (cs_pd st) g) (cs_pg st) (cs_pd st) g).
  Proof.
    unfold cg_step, src_cg_first. simpl. repeat split.
    - intros E. rewrite E. reflexivity.
    - intros NE. destruct (cs_cd st) as [|x l]; [contradiction|]. simpl length.
      replace (Z.of_nat (S (length l)) =? 0)%Z with false by (symmetry; apply Z.eqb_neq; lia).
      destruct (cg_choose FO orthotest _ (cs_pg st) (cs_pd st) g) as [d [|]]; simpl; [left|right]; reflexivity.
  Qed.

  (* ---- (3) the classical identities ------------------------------------------------------------------------------ *)
  (* side conditions of [field]: e <> 0 where e is, as a ring expression, N's left-hand side or its opposite *)
  Ltac nz_by N :=
    match goal with
    | |- ?e <> _ =>
        first [exact N
              |let Z := fresh "Z" in intros Z; apply N;
               first [transitivity e; [ring|exact Z]|transitivity (fopp FO e); [ring|rewrite Z; ring]]]
    end.
  Lemma fmax_l a b : nonneg (a - b) -> fmax a b = a.
  Proof.
    intros N. destruct (fmax_cases a b) as [[E P]|[E _]]; [|exact E]. exfalso.
    apply (nonneg_pos_absurd (a - b) N). replace (- (a - b)) with (b - a) by ring. exact P.
  Qed.
  Lemma nonneg_antisym a b : nonneg (a - b) -> nonneg (b - a) -> a = b.
  Proof.
    intros [E|P] N.
    - replace a with (a - b + b) by ring. rewrite E. ring.
    - exfalso. apply (nonneg_pos_absurd (b - a) N). replace (- (b - a)) with (a - b) by ring. exact P.
  Qed.
  Lemma fmax_r a b : nonneg (b - a) -> fmax a b = b.
  Proof.
    intros N. destruct (fmax_cases a b) as [[E _]|[E M]]; [exact E|]. rewrite E. apply nonneg_antisym; assumption.
  Qed.
  Lemma fmin_same a : fmin a a = a.
  Proof. destruct (fmin_cases a a) as [[E _]|[E _]]; exact E. Qed.
  Lemma fmax_same a : fmax a a = a.
  Proof. destruct (fmax_cases a a) as [[E _]|[E _]]; exact E. Qed.

  (* exact previous line search (g.pd = 0), previous direction generated from its gradient with pd.pg = -pg.pg:
     FR = CD = DY  and  PR = HS = LS *)
  Lemma exact_ls_fr_cd_dy pg pd g :
    dot g pd = 0 -> dot pd pg = - dot pg pg -> dot pg pg <> 0 ->
    beta_CD FO pg pd g = beta_FR FO pg pd g /\ beta_DY FO pg pd g = beta_FR FO pg pd g.
  Proof.
    intros J1 J2 N. unfold beta_CD, beta_DY, beta_FR. expand. rewrite (Qdot_comm pd g), J1, J2, !Qdiv_def.
    split; field; repeat split; nz_by N.
  Qed.
  Lemma exact_ls_pr_hs_ls pg pd g :
    dot g pd = 0 -> dot pd pg = - dot pg pg -> dot pg pg <> 0 ->
    beta_HS FO pg pd g = beta_PR FO pg pd g /\ beta_LS FO pg pd g = beta_PR FO pg pd g.
  Proof.
    intros J1 J2 N. unfold beta_HS, beta_LS, beta_PR. expand. rewrite (Qdot_comm pd g), J1, J2, !Qdiv_def.
    split; field; repeat split; nz_by N.
  Qed.

  (* HS: the conjugacy condition d.y = 0, y = g - pg *)
  Lemma hs_conjugacy pg pd g :
    dot pd (vsub g pg) <> 0 -> dot (cg_candidate FO (beta_HS FO pg pd g) g pd) (vsub g pg) = 0.
  Proof.
    intros N. unfold cg_candidate, beta_HS.
    rewrite (dot_vadd_l F FO Fth), (dot_vopp_l F FO Fth), (dot_vscale_l F FO Fth), Qdiv_def. field. exact N.
  Qed.
  (* ... also for the solver's HS+ whenever the max(., 0) is inactive *)
  Lemma hs_plus_conjugacy eta pd2 pg2 pg pd g :
    dot pd (vsub g pg) <> 0 -> nonneg (beta_HS FO pg pd g) ->
    dot (cg_candidate FO (cg_beta FO CK_HS eta pd2 pg2 pg pd g) g pd) (vsub g pg) = 0.
  Proof.
    intros N P. simpl. rewrite fmax_l; [apply hs_conjugacy; exact N|].
    replace (beta_HS FO pg pd g - 0) with (beta_HS FO pg pd g) by ring. exact P.
  Qed.

  (* Dai-Yuan: g.d = beta_DY * (pd.pg); hence descent under pd.pg < 0 and pd.y > 0 (Wolfe) *)
  Lemma dy_identity pg pd g :
    dot pd (vsub g pg) <> 0 ->
    dot g (cg_candidate FO (beta_DY FO pg pd g) g pd) = beta_DY FO pg pd g * dot pd pg.
  Proof.
    intros N. unfold cg_candidate, beta_DY. revert N. expand. rewrite (Qdot_comm pd g), !Qdiv_def. intros N. field. exact N.
  Qed.
  Lemma dy_descent pg pd g :
    pos (- dot pd pg) -> pos (dot pd (vsub g pg)) -> g <> zeros (length g) ->
    pos (- dot g (cg_candidate FO (beta_DY FO pg pd g) g pd)).
  Proof.
    intros P1 P2 N. rewrite dy_identity by (apply Qpos_nz; exact P2). unfold beta_DY. rewrite Qdiv_def.
    replace (- (dot g g * / dot pd (vsub g pg) * dot pd pg)) with (dot g g * / dot pd (vsub g pg) * - dot pd pg) by ring.
    apply pos_mul; [apply pos_mul; [apply Qdot_self_pos; exact N|apply Qpos_inv; exact P2]|exact P1].
  Qed.

  (* FRPR: the three-way expression clamps pr to [-fr, fr] *)
  Lemma frpr_low_spec pr fr : frpr_low FO pr fr = true <-> pos (- fr - pr).
  Proof.
    unfold frpr_low, src_cg_frpr_low. rewrite Qfcmp_refl.
    change (Z.ltb (fcmp FO pr (- fr)) (- 0)) with (flt pr (- fr)). apply flt_spec.
  Qed.
  Lemma frpr_mid_spec pr fr : frpr_mid FO pr fr = true <-> nonneg (fr - fabs pr).
  Proof.
    unfold frpr_mid, src_cg_frpr_mid. rewrite Qfcmp_refl.
    destruct (fcmp_spec (fabs pr) fr) as [[E Q]|[[E Q]|[E Q]]]; rewrite E; simpl; split; intros X; try discriminate; try reflexivity.
    - exfalso. apply (nonneg_pos_absurd _ X). replace (- (fr - fabs pr)) with (fabs pr - fr) by ring. exact Q.
    - left. rewrite Q. ring.
    - right. exact Q.
  Qed.
  Lemma frpr_clamp_bounds pr fr :
    nonneg fr -> nonneg (fr - frpr_clamp FO pr fr) /\ nonneg (frpr_clamp FO pr fr + fr).
  Proof.
    intros NF. unfold frpr_clamp. destruct (frpr_low FO pr fr) eqn:L.
    - split; [replace (fr - - fr) with (fr + fr) by ring; apply nonneg_plus; assumption|left; ring].
    - destruct (frpr_mid FO pr fr) eqn:M.
      + apply frpr_mid_spec in M. destruct (fabs_cases pr) as [[E P]|[E N]]; rewrite E in M.
        * split; [|replace (pr + fr) with (fr - - pr) by ring; exact M].
          replace (fr - pr) with (fr + - pr) by ring. apply nonneg_plus; [exact NF|right; exact P].
        * split; [exact M|apply nonneg_plus; assumption].
      + split; [left; ring|apply nonneg_plus; assumption].
  Qed.
  Lemma frpr_clamp_id pr fr : nonneg (fr - pr) -> nonneg (pr + fr) -> frpr_clamp FO pr fr = pr.
  Proof.
    intros U L. unfold frpr_clamp.
    assert (LO : frpr_low FO pr fr = false).
    { destruct (frpr_low FO pr fr) eqn:X; [|reflexivity]. exfalso. apply frpr_low_spec in X.
      apply (nonneg_pos_absurd _ L). replace (- (pr + fr)) with (- fr - pr) by ring. exact X. }
    assert (MI : frpr_mid FO pr fr = true).
    { apply frpr_mid_spec. destruct (fabs_cases pr) as [[E P]|[E N]]; rewrite E; [|exact U].
      replace (fr - - pr) with (pr + fr) by ring. exact L. }
    rewrite LO, MI. reflexivity.
  Qed.
  Lemma fr_nonneg pg pd g : pg <> zeros (length pg) -> nonneg (beta_FR FO pg pd g).
  Proof.
    intros N. unfold beta_FR. rewrite Qdiv_def.
    apply (nonneg_mul_pos F FO Fth pos pos_mul); [apply Qdot_self_nonneg|apply Qpos_inv; apply Qdot_self_pos; exact N].
  Qed.
  Lemma frpr_bounds pg pd g : pg <> zeros (length pg) ->
    nonneg (beta_FR FO pg pd g - beta_FRPR FO pg pd g) /\ nonneg (beta_FRPR FO pg pd g + beta_FR FO pg pd g).
  Proof. intros N. unfold beta_FRPR. apply frpr_clamp_bounds. apply fr_nonneg. exact N. Qed.

  (* DYHS: 0 <= beta <= max(0, DY) *)
  Lemma dyhs_bounds pg pd g :
    nonneg (beta_DYHS FO pg pd g) /\ nonneg (fmax 0 (beta_DY FO pg pd g) - beta_DYHS FO pg pd g).
  Proof.
    unfold beta_DYHS. set (dy := beta_DY FO pg pd g). set (hs := beta_HS FO pg pd g). split.
    - pose proof (fmax_ge_l 0 (fmin dy hs)) as G. replace (fmax 0 (fmin dy hs) - 0) with (fmax 0 (fmin dy hs)) in G by ring. exact G.
    - destruct (fmax_cases 0 (fmin dy hs)) as [[E P]|[E N]]; rewrite E.
      + replace (fmax 0 dy - fmin dy hs) with ((fmax 0 dy - dy) + (dy - fmin dy hs)) by ring.
        apply nonneg_plus; [apply fmax_ge_r|apply fmin_le_l].
      + apply fmax_ge_l.
  Qed.

  (* DYCD: with pd.pg < 0 the denominator is >= -pd.pg > 0, hence 0 <= beta <= CD *)
  Lemma dycd_bounds pg pd g :
    pos (- dot pd pg) ->
    let den := fmax (dot pd (vsub g pg)) (- dot pd pg) in
    nonneg (den - - dot pd pg) /\ pos den /\
    nonneg (beta_DYCD FO pg pd g) /\ nonneg (beta_CD FO pg pd g - beta_DYCD FO pg pd g).
  Proof.
    intros P. cbv zeta. set (q := - dot pd pg) in *. set (den := fmax (dot pd (vsub g pg)) q).
    assert (G : nonneg (den - q)) by apply fmax_ge_r.
    assert (PD : pos den).
    { replace den with (q + (den - q)) by ring. apply (pos_add_nonneg F FO Fth pos pos_add); assumption. }
    pose proof (Qpos_nz _ P) as NQ. pose proof (Qpos_nz _ PD) as ND.
    split; [exact G|]. split; [exact PD|]. unfold beta_DYCD, beta_CD. fold q. fold den. rewrite !Qdiv_def. split.
    - apply (nonneg_mul_pos F FO Fth pos pos_mul); [apply Qdot_self_nonneg|apply Qpos_inv; exact PD].
    - assert (NP : dot pd pg <> 0).
      { intros Z. apply NQ. unfold q. rewrite Z. ring. }
      replace (- dot g g * / dot pd pg - dot g g * / den) with (dot g g * ((den - q) * (/ q * / den))).
      + apply nonneg_mul; [apply Qdot_self_nonneg|]. apply (nonneg_mul_pos F FO Fth pos pos_mul); [exact G|].
        apply pos_mul; apply Qpos_inv; assumption.
      + unfold q. field. repeat split; first [exact ND|nz_by NP].
  Qed.

  (* HS+, PR+, LS+ *)
  Lemma fmax_0_nonneg a : nonneg (fmax a 0).
  Proof. pose proof (fmax_ge_r a 0) as G. replace (fmax a 0 - 0) with (fmax a 0) in G by ring. exact G. Qed.
  Lemma plus_nonneg eta pd2 pg2 pg pd g :
    nonneg (cg_beta FO CK_HS eta pd2 pg2 pg pd g) /\ nonneg (cg_beta FO CK_PR eta pd2 pg2 pg pd g) /\
    nonneg (cg_beta FO CK_LS eta pd2 pg2 pg pd g).
  Proof. simpl. repeat split; apply fmax_0_nonneg. Qed.

  (* N: the clamp, and the Hager-Zhang sufficient descent of the unclamped formula *)
  Lemma n_clamp eta pd2 pg2 pg pd g : nonneg (beta_N FO eta pd2 pg2 pg pd g - n_eta FO eta pd2 pg2).
  Proof. unfold beta_N. apply fmax_ge_l. Qed.
  Lemma n_eta_negative eta pd2 pg2 : pos eta -> pos pd2 -> pos pg2 -> pos (- n_eta FO eta pd2 pg2).
  Proof.
    intros PE P1 P2. unfold n_eta. rewrite Qdiv_def.
    assert (PM : pos (fmin eta pg2)) by (destruct (fmin_cases eta pg2) as [[E _]|[E _]]; rewrite E; assumption).
    replace (- (- (1) * / (pd2 * fmin eta pg2))) with (/ (pd2 * fmin eta pg2)).
    - apply Qpos_inv. apply pos_mul; assumption.
    - field. split; apply Qpos_nz; assumption.
  Qed.
  Lemma dot_map_scaled c e : forall pd g, dot (map (fun p => f2 FO * p * c * e) pd) g = f2 FO * c * e * dot pd g.
  Proof. induction pd as [|p pd IH]; intros [|x g]; simpl; try ring. rewrite IH. ring. Qed.
  Lemma n_plain_value pg pd g :
    beta_N_plain FO pg pd g =
    let y := vsub g pg in
    (1 / dot pd y) * (dot y g - f2 FO * dot y y * (1 / dot pd y) * dot pd g).
  Proof. unfold beta_N_plain. cbv zeta. rewrite (dot_vsub_l F FO Fth), dot_map_scaled. reflexivity. Qed.
  Definition f8 : F := f2 FO * f2 FO * f2 FO.
  Definition f7 : F := f8 - 1.
  Lemma f8_pos : pos f8.
  Proof. unfold f8. apply pos_mul; [apply pos_mul|]; apply pos_2. Qed.
  (* -(7/8) g.g - g.d = (1/2) |g/2 - 2 (g.pd / pd.y) y|^2 >= 0 *)
  Lemma hz_sufficient_descent pg pd g :
    dot pd (vsub g pg) <> 0 ->
    nonneg (- (f7 / f8 * dot g g) - dot g (cg_candidate FO (beta_N_plain FO pg pd g) g pd)).
  Proof.
    intros N. set (y := vsub g pg) in *.
    set (w := vsub (vscale (/ f2 FO) g) (vscale (f2 FO * dot g pd * / dot pd y) y)).
    pose proof (Qpos_nz _ pos_2) as N2.
    assert (N8 : f8 <> 0) by (apply Qpos_nz; apply f8_pos).
    assert (E : - (f7 / f8 * dot g g) - dot g (cg_candidate FO (beta_N_plain FO pg pd g) g pd) = / f2 FO * dot w w).
    { rewrite n_plain_value. fold y. cbv zeta. unfold cg_candidate, w. expand.
      rewrite (Qdot_comm y g), (Qdot_comm pd g), !Qdiv_def. unfold f7, f8 in *. change (f2 FO) with (1 + 1) in *. field.
      repeat split; try assumption;
        try (change ((1 + 1) * ((1 + 1) * (1 + 1)) <> 0); intros Z; apply N8;
             transitivity ((1 + 1) * ((1 + 1) * (1 + 1))); [ring|exact Z]). }
    rewrite E. apply nonneg_mul; [right; apply Qpos_inv; exact pos_2|apply Qdot_self_nonneg].
  Qed.

  (* the CLAMPED formula the solver uses keeps the sufficient descent (the clamp only moves beta towards 0 from below):
     with eta' <= 0 the candidate of cgd-n always passes has_descent -- only the orthogonality test can restart it *)
  Lemma f7_pos : pos f7.
  Proof.
    unfold f7, f8. change (f2 FO) with (1 + 1).
    replace ((1 + 1) * (1 + 1) * (1 + 1) - 1) with (1 + (1 + (1 + (1 + (1 + (1 + 1)))))) by ring.
    repeat (apply pos_add; [apply Qpos_1|]). apply Qpos_1.
  Qed.
  Lemma n_sufficient_descent eta pd2 pg2 pg pd g :
    dot pd (vsub g pg) <> 0 -> nonneg (- n_eta FO eta pd2 pg2) ->
    nonneg (- (f7 / f8 * dot g g) - dot g (cg_candidate FO (beta_N FO eta pd2 pg2 pg pd g) g pd)).
  Proof.
    intros N NE. pose proof (hz_sufficient_descent pg pd g N) as HZ.
    unfold beta_N. set (e := n_eta FO eta pd2 pg2) in *. set (p := beta_N_plain FO pg pd g) in *.
    assert (GD : forall b, dot g (cg_candidate FO b g pd) = - dot g g + b * dot g pd) by (intros b; unfold cg_candidate; expand; ring).
    destruct (fmax_cases e p) as [[E P]|[E M]]; rewrite E; [exact HZ|].
    rewrite GD in *. pose proof (Qpos_nz _ f8_pos) as N8.
    destruct (nonneg_cases (dot g pd)) as [G|G].
    - replace (- (f7 / f8 * dot g g) - (- dot g g + e * dot g pd)) with (/ f8 * dot g g + - e * dot g pd)
        by (unfold f7; rewrite Qdiv_def; field; exact N8).
      apply nonneg_plus; [apply nonneg_mul; [right; apply Qpos_inv; exact f8_pos|apply Qdot_self_nonneg]|apply nonneg_mul; assumption].
    - replace (- (f7 / f8 * dot g g) - (- dot g g + e * dot g pd))
        with ((- (f7 / f8 * dot g g) - (- dot g g + p * dot g pd)) + (e - p) * - dot g pd) by ring.
      apply nonneg_plus; [exact HZ|apply nonneg_mul; [exact M|right; exact G]].
  Qed.
  Lemma n_has_descent eta pd2 pg2 pg pd g :
    dot pd (vsub g pg) <> 0 -> nonneg (- n_eta FO eta pd2 pg2) -> g <> zeros (length g) ->
    cg_has_descent FO g (cg_candidate FO (cg_beta FO CK_N eta pd2 pg2 pg pd g) g pd) = true.
  Proof.
    intros N NE NG. apply cg_has_descent_spec. simpl cg_beta.
    pose proof (n_sufficient_descent eta pd2 pg2 pg pd g N NE) as S.
    set (x := dot g (cg_candidate FO (beta_N FO eta pd2 pg2 pg pd g) g pd)) in *.
    replace (- x) with ((- (f7 / f8 * dot g g) - x) + f7 / f8 * dot g g) by ring.
    apply (nonneg_add_pos F FO Fth pos pos_add); [exact S|]. rewrite Qdiv_def.
    apply pos_mul; [apply pos_mul; [exact f7_pos|apply Qpos_inv; exact f8_pos]|apply Qdot_self_pos; exact NG].
  Qed.

  (* ---- linear conjugate gradients: the solver's own direction block (restart tests included) on a strictly convex
          quadratic with exact line searches.  Every solver id computes beta = FR, the restart never fires, and consecutive
          directions are A-conjugate, consecutive gradients orthogonal ------------------------------------------------- *)
  Section Quadratic.
    Variable n : nat.
    Variable A : mat F.
    Hypothesis A_len : length A = n.
    Hypothesis A_sym : msym FO n A.
    Hypothesis A_pd : C01Q_Proofs.pd FO pos n A.
    Variable nrm : vec F -> F.
    Hypothesis nrm_spec : forall v, nonneg (nrm v) /\ nrm v * nrm v = dot v v.
    Variable k : cgkind.
    Variables eta orthotest : F.
    Hypothesis eta_pos : pos eta.
    Hypothesis ot_pos : pos orthotest.

    Lemma nrm_pos v : v <> zeros (length v) -> pos (nrm v).
    Proof.
      intros N. destruct (nrm_spec v) as [[Z|P] S]; [|exact P]. exfalso.
      apply (Qpos_nz _ (Qdot_self_pos v N)). rewrite <- S, Z. ring.
    Qed.

    (* under the invariants of exact line searches every one of the ten formulas returns FR *)
    Lemma cg_beta_exact_ls kd pg dd g :
      pg <> zeros (length pg) -> g <> zeros (length g) ->
      dot g dd = 0 -> dot dd pg = - dot pg pg -> dot g pg = 0 ->
      cg_beta FO kd eta (nrm dd) (nrm pg) pg dd g = beta_FR FO pg dd g.
    Proof.
      intros Npg Ng J1 J2 J4.
      pose proof (Qdot_self_pos pg Npg) as PA. pose proof (Qdot_self_pos g Ng) as PB.
      pose proof (Qpos_nz _ PA) as NA.
      assert (Y1 : dot g (vsub g pg) = dot g g) by (expand; rewrite J4; ring).
      assert (Y2 : dot dd (vsub g pg) = dot pg pg) by (expand; rewrite (Qdot_comm dd g), J1, J2; ring).
      assert (PF : pos (dot g g * / dot pg pg)) by (apply pos_mul; [exact PB|apply Qpos_inv; exact PA]).
      assert (NF : nonneg (dot g g * / dot pg pg - 0)).
      { right. replace (dot g g * / dot pg pg - 0) with (dot g g * / dot pg pg) by ring. exact PF. }
      assert (Ndd : dd <> zeros (length dd)).
      { apply (dot_nz_r F FO Fth pg dd). rewrite (Qdot_comm pg dd), J2. intros Z. apply NA.
        transitivity (- - dot pg pg); [ring|rewrite Z; ring]. }
      destruct kd; simpl; unfold beta_FR, beta_HS, beta_PR, beta_CD, beta_LS, beta_DY, beta_DYHS, beta_DYCD, beta_FRPR, beta_N;
        unfold beta_FR, beta_HS, beta_PR, beta_DY; rewrite ?Y1, ?Y2, ?J2, ?Qdiv_def.
      - apply fmax_l. exact NF.
      - reflexivity.
      - apply fmax_l. exact NF.
      - field. repeat split; nz_by NA.
      - replace (- dot g g * / - dot pg pg) with (dot g g * / dot pg pg) by (field; repeat split; nz_by NA).
        apply fmax_l. exact NF.
      - reflexivity.
      - assert (PL : beta_N_plain FO pg dd g = dot g g * / dot pg pg).
        { rewrite n_plain_value. cbv zeta. rewrite Y2, (Qdot_comm (vsub g pg) g), Y1, (Qdot_comm dd g), J1, !Qdiv_def.
          field. exact NA. }
        rewrite PL. apply fmax_r.
        replace (dot g g * / dot pg pg - n_eta FO eta (nrm dd) (nrm pg)) with (dot g g * / dot pg pg + - n_eta FO eta (nrm dd) (nrm pg)) by ring.
        right. apply pos_add; [exact PF|]. apply n_eta_negative; [exact eta_pos|apply nrm_pos; exact Ndd|apply nrm_pos; exact Npg].
      - replace (- - dot pg pg) with (dot pg pg) by ring. rewrite fmax_same. reflexivity.
      - rewrite fmin_same. apply fmax_r. exact NF.
      - apply frpr_clamp_id.
        + left. ring.
        + right. apply pos_add; exact PF.
    Qed.

    Definition cgq_inv (st : cgstate F) (g : vec F) : Prop :=
      cs_cd st = cs_pd st /\ length (cs_pg st) = n /\ length (cs_pd st) = n /\ length g = n /\
      cs_pg st <> zeros n /\
      dot g (cs_pd st) = 0 /\ dot (cs_pd st) (cs_pg st) = - dot (cs_pg st) (cs_pg st) /\ dot g (cs_pg st) = 0 /\
      exists t, t <> 0 /\ g = vadd (cs_pg st) (vscale t (mv A (cs_pd st))).

    (* the exact line search re-establishes the invariants *)
    Lemma cgq_next_inv g d :
      length g = n -> length d = n -> g <> zeros n ->
      dot d g = - dot g g -> dot (mv A d) g = - dot (mv A d) d ->
      cgq_inv (mk_cgstate g d d) (exact_next FO A g d).
    Proof.
      intros Lg Ld Ng Dg Hg.
      assert (PB : pos (dot g g)) by (apply Qdot_self_pos; rewrite Lg; exact Ng).
      pose proof (Qpos_nz _ PB) as NB.
      assert (Nd : d <> zeros n).
      { intros Z. apply NB. transitivity (- dot d g); [rewrite Dg; ring|]. rewrite Z, (dot_zeros_l F FO Fth). ring. }
      pose proof (A_pd d Ld Nd) as PQ. pose proof (Qpos_nz _ PQ) as NQ.
      set (q := dot d (mv A d)) in *.
      assert (Gd : dot g d = - dot g g) by (rewrite (Qdot_comm g d); exact Dg).
      assert (Hd : dot (mv A d) d = q) by (apply Qdot_comm).
      unfold cgq_inv, exact_next. simpl. fold q. rewrite Gd.
      repeat split; try assumption; try reflexivity.
      - rewrite (length_vadd F FO), (length_vscale F FO), (length_mv F FO). lia.
      - expand. rewrite Gd, Hd, !Qdiv_def. field. exact NQ.
      - expand. rewrite Hg, Hd, !Qdiv_def. field. exact NQ.
      - exists (- - dot g g / q). split; [|reflexivity].
        rewrite Qdiv_def. intros Z. apply NB. transitivity (- - dot g g * / q * q); [field; exact NQ|rewrite Z; ring].
    Qed.

    Lemma cgq_step_spec st g :
      cgq_inv st g -> g <> zeros n ->
      let '(st', d) := cg_step FO k eta orthotest (nrm (cs_pd st)) (nrm (cs_pg st)) st g in
      cs_pg st' = g /\ cs_pd st' = d /\
      d = cg_candidate FO (beta_FR FO (cs_pg st) (cs_pd st) g) g (cs_pd st) /\
      dot d (mv A (cs_pd st)) = 0 /\
      cgq_inv st' (exact_next FO A g d).
    Proof.
      destruct st as [pg dd cd]. unfold cgq_inv at 1. simpl.
      intros (Ecd & Lpg & Ldd & Lg & Npg & J1 & J2 & J4 & t & Nt & Eg) Ng. subst cd.
      assert (Npg' : pg <> zeros (length pg)) by (rewrite Lpg; exact Npg).
      assert (Ng' : g <> zeros (length g)) by (rewrite Lg; exact Ng).
      pose proof (Qdot_self_pos pg Npg') as PA. pose proof (Qdot_self_pos g Ng') as PB.
      pose proof (Qpos_nz _ PA) as NA.
      assert (Hf : src_cg_first (Z.of_nat (length dd)) = false).
      { destruct dd as [|x dd']; [exfalso; apply NA; simpl in J2; transitivity (- - dot pg pg); [ring|rewrite <- J2; ring]|].
        unfold src_cg_first. apply Z.eqb_neq. simpl length. lia. }
      unfold cg_step. simpl. rewrite Hf.
      rewrite (cg_beta_exact_ls k pg dd g Npg' Ng' J1 J2 J4).
      set (b := beta_FR FO pg dd g).
      assert (Eb : b = dot g g * / dot pg pg) by (unfold b, beta_FR; apply Qdiv_def).
      set (d := cg_candidate FO b g dd).
      assert (D1 : forall x, dot x d = - dot x g + b * dot x dd) by (intros x; unfold d, cg_candidate; expand; ring).
      assert (D2 : forall x, dot d x = - dot g x + b * dot dd x) by (intros x; unfold d, cg_candidate; expand; ring).
      assert (Dg : dot d g = - dot g g) by (rewrite D2, (Qdot_comm dd g), J1; ring).
      assert (Dpg : dot d pg = - dot g g) by (rewrite D2, J4, J2, Eb; field; exact NA).
      assert (R : cg_restart FO orthotest g pg d = false).
      { apply cg_restart_false. split.
        - rewrite (Qdot_comm g d), Dg. apply pos_opp_opp. exact PB.
        - rewrite J4, fabs_0. replace (orthotest * dot g g - 0) with (orthotest * dot g g) by ring. apply pos_mul; assumption. }
      unfold cg_choose. cbv zeta. fold d. rewrite R. simpl fst.
      assert (CJ : dot d (mv A dd) = 0).
      { assert (X : dot d g = dot d pg + t * dot d (mv A dd)).
        { transitivity (dot d (vadd pg (vscale t (mv A dd)))); [rewrite <- Eg; reflexivity|]. expand. reflexivity. }
        apply (mul_eq0 F FO Fth _ t); [|exact Nt]. transitivity (dot d g - dot d pg); [rewrite X; ring|rewrite Dg, Dpg; ring]. }
      assert (Ld : length d = n).
      { unfold d, cg_candidate. rewrite (length_vadd F FO), (length_vopp F FO), (length_vscale F FO). lia. }
      split; [reflexivity|split; [reflexivity|split; [reflexivity|split; [exact CJ|]]]].
      apply cgq_next_inv; try assumption.
      assert (S : dot (mv A d) dd = 0).
      { rewrite (Qdot_comm (mv A d) dd), (A_sym dd d Ldd Ld). exact CJ. }
      pose proof (D1 (mv A d)) as X. rewrite S in X.
      transitivity (- (- dot (mv A d) g + b * 0)); [ring|rewrite <- X; ring].
    Qed.

    (* what holds between consecutive iterations *)
    Fixpoint cgq_chain (prev : vec F * vec F) (l : list (vec F * vec F)) : Prop :=
      match l with
      | [] => True
      | (g, d) :: l' =>
          d = cg_candidate FO (beta_FR FO (fst prev) (snd prev) g) g (snd prev) /\
          dot d (mv A (snd prev)) = 0 /\ dot g (fst prev) = 0 /\ dot g (snd prev) = 0 /\
          cgq_chain (g, d) l'
      end.
    Lemma cgq_run_chain : forall m st g,
      cgq_inv st g ->
      Forall (fun gd => fst gd <> zeros n) (cg_quad_run FO k eta orthotest nrm A st g m) ->
      cgq_chain (cs_pg st, cs_pd st) (cg_quad_run FO k eta orthotest nrm A st g m).
    Proof.
      induction m as [|m IH]; intros st g I NZ; cbn [cg_quad_run] in *; [exact Logic.I|].
      pose proof (cgq_step_spec st g I) as S.
      destruct (cg_step FO k eta orthotest (nrm (cs_pd st)) (nrm (cs_pg st)) st g) as [st' d].
      inversion NZ as [|x l Ng NZ']; subst x l. simpl in Ng.
      destruct (S Ng) as (E1 & E2 & Ed & CJ & I').
      destruct I as (_ & _ & _ & _ & _ & J1 & _ & J4 & _).
      cbn [cgq_chain fst snd]. repeat split; try assumption.
      specialize (IH st' (exact_next FO A g d) I' NZ'). rewrite E1, E2 in IH. exact IH.
    Qed.

    (* from the solver's initial state *)
    Lemma cg_quad_conjugate g0 m :
      length g0 = n ->
      Forall (fun gd => fst gd <> zeros n) (cg_quad_run FO k eta orthotest nrm A (cg_init (F:=F)) g0 m) ->
      match cg_quad_run FO k eta orthotest nrm A (cg_init (F:=F)) g0 m with
      | [] => m = O
      | (g, d) :: rest => g = g0 /\ d = vopp g0 /\ cgq_chain (g, d) rest
      end.
    Proof.
      intros L0 NZ. destruct m as [|m]; [reflexivity|]. cbn [cg_quad_run] in *.
      unfold cg_step at 1 in NZ. unfold cg_step at 1. simpl in *.
      inversion NZ as [|x l Ng NZ']; subst x l. simpl in Ng.
      repeat split.
      assert (I : cgq_inv (mk_cgstate g0 (vopp g0) (vopp g0)) (exact_next FO A g0 (vopp g0))).
      { apply cgq_next_inv; try assumption.
        - rewrite (length_vopp F FO). exact L0.
        - apply (dot_vopp_l F FO Fth).
        - rewrite (dot_vopp_r F FO Fth). ring. }
      exact (cgq_run_chain m _ _ I NZ').
    Qed.
  End Quadratic.

End CGAlgebra.

(* the shape of the translated kernels (broken when an operator, operand, constant, sign, branch order or the formula a
   solver id returns changes in the source) *)
Local Open Scope Z_scope.
Lemma kernels_c01cg :
  (forall hd agpg ot gg, src_cg_restart hd agpg ot gg = orb (negb hd) (Z.geb agpg (ot * gg))) /\
  (forall dg zero, src_state_has_descent dg zero = Z.ltb dg zero) /\
  (forall x, src_state_dg x = x) /\
  (forall size, src_cg_first size = Z.eqb size 0) /\
  (forall pr fr, src_cg_frpr_low pr fr = Z.ltb pr (- fr)) /\
  (forall apr fr, src_cg_frpr_mid apr fr = Z.leb apr fr) /\
  (forall gy pdy, src_cg_formula_hs gy pdy = Z.quot gy pdy) /\
  (forall gg pgpg, src_cg_formula_fr gg pgpg = Z.quot gg pgpg) /\
  (forall gy pgpg, src_cg_formula_pr gy pgpg = Z.quot gy pgpg) /\
  (forall gg pdpg, src_cg_formula_cd gg pdpg = Z.quot (- gg) pdpg) /\
  (forall gy pdpg, src_cg_formula_ls gy pdpg = Z.quot (- gy) pdpg) /\
  (forall gg pdy, src_cg_formula_dy gg pdy = Z.quot gg pdy) /\
  (forall gg pdy pdpg, src_cg_formula_dycd gg pdy pdpg = Z.quot gg (Z.max pdy (- pdpg))) /\
  (forall zero dy hs, src_cg_formula_dyhs zero dy hs = Z.max zero (Z.min dy hs)) /\
  (forall pr fr apr, src_cg_formula_frpr pr fr apr = if Z.ltb pr (- fr) then (- fr) else if Z.leb apr fr then pr else fr) /\
  (forall pdy, src_cg_n_div pdy = Z.quot 1 pdy) /\
  (forall cg pg, src_cg_n_y cg pg = cg - pg) /\
  (forall pd2 eta pg2, src_cg_n_eta pd2 eta pg2 = Z.quot (- 1) (pd2 * Z.min eta pg2)) /\
  (forall eta div y pd yy, src_cg_n_formula eta div y pd yy = Z.max eta (div * (y - 2 * pd * yy * div))) /\
  (forall g beta pd, src_cg_candidate g beta pd = - g + beta * pd) /\
  (forall g, src_cg_first_direction g = - g) /\
  (forall g, src_cg_restart_direction g = - g) /\
  src_cg_beta_call = 1.
Proof. repeat split; reflexivity. Qed.

(* which formula each solver id returns, and which two formulas FRPR clamps *)
Lemma kernels_c01cg_ids : forall hs fr pr cd ls dy nn dycd dyhs frpr zero : Z,
  src_cg_beta_hs hs fr pr cd ls dy nn dycd dyhs frpr zero = Z.max hs zero /\
  src_cg_beta_fr hs fr pr cd ls dy nn dycd dyhs frpr zero = fr /\
  src_cg_beta_pr hs fr pr cd ls dy nn dycd dyhs frpr zero = Z.max pr zero /\
  src_cg_beta_cd hs fr pr cd ls dy nn dycd dyhs frpr zero = cd /\
  src_cg_beta_ls hs fr pr cd ls dy nn dycd dyhs frpr zero = Z.max ls zero /\
  src_cg_beta_dy hs fr pr cd ls dy nn dycd dyhs frpr zero = dy /\
  src_cg_beta_n hs fr pr cd ls dy nn dycd dyhs frpr zero = nn /\
  src_cg_beta_dycd hs fr pr cd ls dy nn dycd dyhs frpr zero = dycd /\
  src_cg_beta_dyhs hs fr pr cd ls dy nn dycd dyhs frpr zero = dyhs /\
  src_cg_beta_frpr hs fr pr cd ls dy nn dycd dyhs frpr zero = frpr /\
  src_cg_frpr_fr hs fr pr cd ls dy nn dycd dyhs frpr zero = fr /\
  src_cg_frpr_pr hs fr pr cd ls dy nn dycd dyhs frpr zero = pr.
Proof. intros. repeat split; reflexivity. Qed.

(* the source's three-way expression of FRPR is the clamp of pr to [-fr, fr] (fr >= 0) *)
Lemma kernel_frpr_is_clamp : forall pr fr : Z, 0 <= fr ->
  src_cg_formula_frpr pr fr (Z.abs pr) = Z.max (- fr) (Z.min pr fr).
Proof.
  intros pr fr P. unfold src_cg_formula_frpr.
  destruct (Z.ltb_spec pr (- fr)); [lia|]. destruct (Z.leb_spec (Z.abs pr) fr); lia.
Qed.

Arguments cg_run {F}.
