(* C03 -- proofs about the model of C03_Defs.v (exact rationals). *)
From Coq Require Import List ZArith QArith Qabs Bool Lia Lra Psatz.
From LN Require Import C03_Defs.
From LNGen Require Import Src_c03.
Import ListNotations.
Local Open Scope Q_scope.

(* ---- booleans of Q ------------------------------------------------------------------------------------------ *)
Lemma Qltb_true a b : Qltb a b = true <-> a < b.
Proof.
  unfold Qltb. rewrite negb_true_iff. split; intro H.
  - apply Qnot_le_lt. intro K. apply Qle_bool_iff in K. congruence.
  - destruct (Qle_bool b a) eqn:E; [|reflexivity]. apply Qle_bool_iff in E. exfalso. apply (Qlt_not_le _ _ H E).
Qed.

Lemma Qltb_false a b : Qltb a b = false <-> b <= a.
Proof.
  unfold Qltb. rewrite negb_false_iff. apply Qle_bool_iff.
Qed.

(* ---- vectors ---------------------------------------------------------------------------------------------------- *)
Lemma dot_nil_r a : dot a [] = 0.
Proof. destruct a; reflexivity. Qed.

Lemma dot_comm : forall a b, dot a b == dot b a.
Proof.
  induction a as [|x a IH]; intros [|y b]; simpl; try reflexivity.
  rewrite (IH b). ring.
Qed.

Lemma dot_vsub_r : forall a b c, length b = length c -> dot a (vsub b c) == dot a b - dot a c.
Proof.
  induction a as [|x a IH]; intros [|y b] [|z c] H; simpl in *; try discriminate; try ring.
  rewrite (IH b c) by lia. ring.
Qed.

Lemma dot_vadd_l : forall a b v, length a = length b -> dot (vadd a b) v == dot a v + dot b v.
Proof.
  induction a as [|x a IH]; intros [|y b] [|z v] H; simpl in *; try discriminate; try ring.
  rewrite (IH b v) by lia. ring.
Qed.

Lemma dot_vscale_l : forall k a v, dot (vscale k a) v == k * dot a v.
Proof.
  induction a as [|x a IH]; intros [|z v]; simpl; try ring.
  rewrite (IH v). ring.
Qed.

Lemma dot_vzero_l : forall n v, dot (vzero n) v == 0.
Proof.
  induction n as [|n IH]; intros [|z v]; simpl; try reflexivity.
  unfold vzero in IH. rewrite (IH v). ring.
Qed.

Lemma vadd_length : forall a b n, length a = n -> length b = n -> length (vadd a b) = n.
Proof.
  induction a as [|x a IH]; intros [|y b] n Ha Hb; simpl in *; try lia.
  destruct n; [discriminate|]. f_equal. apply IH; lia.
Qed.

Lemma vscale_length k a : length (vscale k a) = length a.
Proof. apply map_length. Qed.

Lemma vzero_length n : length (vzero n) = n.
Proof. apply repeat_length. Qed.

Lemma vsub_length : forall a b n, length a = n -> length b = n -> length (vsub a b) = n.
Proof.
  induction a as [|x a IH]; intros [|y b] n Ha Hb; simpl in *; try lia.
  destruct n; [discriminate|]. f_equal. apply IH; lia.
Qed.

Lemma dot_vsub_same a x : dot a (vsub x x) == 0.
Proof. pose proof (dot_vsub_r a x x eq_refl) as H. rewrite H. ring. Qed.

Lemma norm2_nonneg : forall a, 0 <= norm2 a.
Proof.
  unfold norm2. induction a as [|x a IH]; simpl; [lra|]. nra.
Qed.

Lemma Qsq_nonneg (a : Q) : 0 <= a * a.
Proof. nra. Qed.

Lemma Qmul_neg_neg (u v : Q) : u < 0 -> v < 0 -> 0 < u * v.
Proof. intros. nra. Qed.

Lemma Qmul_pos_pos (u v : Q) : 0 < u -> 0 < v -> 0 < u * v.
Proof. intros. nra. Qed.

(* the quadratic form of Cauchy-Schwarz: |l a - m b|^2 >= 0 written out (holds for any two lengths: dot truncates) *)
Lemma cs_aux : forall a b l m, 0 <= l * l * norm2 a - 2 * l * m * dot a b + m * m * norm2 b.
Proof.
  unfold norm2. induction a as [|x a IH]; intros [|y b] l m; simpl.
  - lra.
  - pose proof (norm2_nonneg (y :: b)) as H. unfold norm2 in H. simpl in H. nra.
  - pose proof (norm2_nonneg (x :: a)) as H. unfold norm2 in H. simpl in H. nra.
  - specialize (IH b l m). pose proof (Qsq_nonneg (l * x - m * y)) as Hsq. lra.
Qed.

Lemma cauchy_schwarz a b : dot a b * dot a b <= norm2 a * norm2 b.
Proof.
  pose proof (norm2_nonneg a) as HA. pose proof (norm2_nonneg b) as HB.
  destruct (Qlt_le_dec 0 (norm2 b)) as [Hpos|Hz].
  - pose proof (cs_aux a b (norm2 b) (dot a b)) as H. nra.
  - assert (HB0 : norm2 b == 0) by lra.
    assert (HD : dot a b == 0).
    { destruct (Qeq_dec (dot a b) 0) as [He|Hne]; [exact He|]. exfalso.
      pose proof (cs_aux a b 1 ((norm2 a + 1) / (dot a b))) as H.
      assert (E : ((norm2 a + 1) / (dot a b)) * dot a b == norm2 a + 1) by (field; exact Hne).
      set (t := (norm2 a + 1) / dot a b) in *. rewrite HB0 in H. nra. }
    rewrite HD, HB0. lra.
Qed.

Lemma cs_bound a b s d : 0 <= s -> 0 <= d -> norm2 a <= s * s -> norm2 b <= d * d -> dot a b <= s * d.
Proof.
  intros Hs Hd Ha Hb.
  pose proof (cauchy_schwarz a b) as H.
  pose proof (norm2_nonneg a) as HA. pose proof (norm2_nonneg b) as HB.
  assert (H2 : norm2 a * norm2 b <= (s * d) * (s * d)) by nra.
  destruct (Qlt_le_dec (s * d) (dot a b)) as [Hlt|Hle]; [|exact Hle].
  exfalso. assert (0 <= s * d) by nra. nra.
Qed.

(* ---- weighted sums of cuts ------------------------------------------------------------------------------------------ *)
(* sum of the multipliers that are paired with a row *)
Fixpoint zsum (cuts : list cut) (al : list Q) : Q :=
  match cuts, al with
  | _ :: cuts', a :: al' => a + zsum cuts' al'
  | _, _ => 0
  end.

Fixpoint wdot (cuts : list cut) (al : list Q) (v : vec) : Q :=
  match cuts, al with
  | c :: cuts', a :: al' => a * dot (cs c) v + wdot cuts' al' v
  | _, _ => 0
  end.

Lemma zsum_qsum : forall cuts al, length al = length cuts -> zsum cuts al == qsum al.
Proof.
  induction cuts as [|c cuts IH]; intros [|a al] H; simpl in *; try discriminate; try reflexivity.
  rewrite (IH al) by lia. reflexivity.
Qed.

Lemma smeared_s_length n : forall cuts al, Forall (fun c => length (cs c) = n) cuts -> length (smeared_s n cuts al) = n.
Proof.
  induction cuts as [|c cuts IH]; intros al H; simpl.
  - apply vzero_length.
  - destruct al as [|a al]; [apply vzero_length|].
    inversion H as [|? ? Hc Hr]. apply vadd_length; [rewrite vscale_length; exact Hc | apply IH; exact Hr].
Qed.

Lemma dot_smeared n : forall cuts al v, Forall (fun c => length (cs c) = n) cuts ->
  dot (smeared_s n cuts al) v == wdot cuts al v.
Proof.
  induction cuts as [|c cuts IH]; intros al v H; simpl.
  - apply dot_vzero_l.
  - destruct al as [|a al]; [apply dot_vzero_l|].
    inversion H as [|? ? Hc Hr].
    rewrite dot_vadd_l by (rewrite vscale_length, smeared_s_length; auto).
    rewrite dot_vscale_l, (IH al v Hr). reflexivity.
Qed.

Lemma del_inactive_length eps : forall cuts al,
  length (fst (del_inactive eps cuts al)) = length (snd (del_inactive eps cuts al)).
Proof.
  induction cuts as [|c cuts IH]; intros [|a al]; simpl; try reflexivity.
  destruct (Qltb a eps); simpl; [apply IH | f_equal; apply IH].
Qed.

Lemma del_inactive_le eps : forall cuts al, (length (fst (del_inactive eps cuts al)) <= length cuts)%nat.
Proof.
  induction cuts as [|c cuts IH]; intros [|a al]; simpl; try lia.
  specialize (IH al). destruct (Qltb a eps); simpl; lia.
Qed.

Lemma del_inactive_cuts eps (P : cut -> Prop) : forall cuts al, Forall P cuts -> Forall P (fst (del_inactive eps cuts al)).
Proof.
  induction cuts as [|c cuts IH]; intros [|a al] H; simpl; try constructor.
  inversion H; subst. destruct (Qltb a eps); simpl; [apply IH; assumption | constructor; [assumption | apply IH; assumption]].
Qed.

Lemma del_inactive_alpha eps (P : Q -> Prop) : forall cuts al, Forall P al -> Forall P (snd (del_inactive eps cuts al)).
Proof.
  induction cuts as [|c cuts IH]; intros [|a al] H; simpl; try constructor.
  inversion H; subst. destruct (Qltb a eps); simpl; [apply IH; assumption | constructor; [assumption | apply IH; assumption]].
Qed.

Lemma del_inactive_sum eps : forall cuts al, length al = length cuts ->
  Forall (fun a => a < eps -> a == 0) al ->
  zsum (fst (del_inactive eps cuts al)) (snd (del_inactive eps cuts al)) == qsum al.
Proof.
  induction cuts as [|c cuts IH]; intros [|a al] Hl H; simpl in *; try discriminate; try reflexivity.
  inversion H as [|? ? Ha Hr]; subst.
  destruct (Qltb a eps) eqn:E; simpl.
  - apply Qltb_true in E. rewrite (IH al) by (auto; lia). rewrite (Ha E). ring.
  - rewrite (IH al) by (auto; lia). reflexivity.
Qed.

Lemma pick_Forall (P : cut -> Prop) cuts : Forall P cuts -> forall keep, Forall P (pick cuts keep).
Proof.
  intros H. induction keep as [|i keep IH]; simpl; [constructor|].
  destruct (nth_error cuts i) eqn:E; [|exact IH].
  constructor; [|exact IH]. rewrite Forall_forall in H. apply H. eapply nth_error_In; eauto.
Qed.

Lemma pick_length cuts : forall keep, (length (pick cuts keep) <= length keep)%nat.
Proof.
  induction keep as [|i keep IH]; simpl; [lia|]. destruct (nth_error cuts i); simpl; lia.
Qed.

(* ---- the lower-bound invariant ------------------------------------------------------------------------------------------ *)
Section Bundle.
  Variable f : vec -> Q.     (* the objective *)
  Variable n : nat.          (* its dimension *)

  (* what the first-order oracle returns at y: the value and a sub-gradient (this is where convexity enters) *)
  Definition subgrad (y gy : vec) (fy : Q) : Prop :=
    length y = n /\ length gy = n /\ fy == f y /\ forall z, length z = n -> f y + dot gy (vsub z y) <= f z.

  (* the cut is a global affine minorant of f, written relative to the centre (x, fx) *)
  Definition valid_cut (x : vec) (fx : Q) (c : cut) : Prop :=
    length (cs c) = n /\ forall z, length z = n -> fx + dot (cs c) (vsub z x) - ce c <= f z.

  Definition simplex (al : list Q) : Prop := Forall (fun a => 0 <= a) al /\ qsum al == 1.

  Definition Inv (b : bundle) : Prop :=
    bn b = n /\ length (bx b) = n /\ bfx b == f (bx b) /\ bcuts b <> [] /\
    Forall (valid_cut (bx b) (bfx b)) (bcuts b) /\
    (balpha b = [] \/ (length (balpha b) = length (bcuts b) /\ simplex (balpha b))).

  (* the conditions on the oracle answers under which a step keeps the invariant *)
  Definition op_ok (eps0 : Q) (b : bundle) (o : op) : Prop :=
    match o with
    | OSolve _ alpha => (3 <= length (bcuts b))%nat -> simplex alpha
    | OAppend _ _ y gy fy => subgrad y gy fy /\ Forall (fun a => a < eps0 -> a == 0) (balpha b)
    end.

  Lemma valid_cut_len x fx cuts : Forall (valid_cut x fx) cuts -> Forall (fun c => length (cs c) = n) cuts.
  Proof. apply Forall_impl. intros c [H _]. exact H. Qed.

  (* a non-negative combination of valid cuts: sigma f(z) >= sigma fx + s^.(z-x) - e^  with sigma = sum of weights *)
  Lemma weighted_valid x fx : forall cuts al z, Forall (valid_cut x fx) cuts -> Forall (fun a => 0 <= a) al ->
    length z = n ->
    zsum cuts al * fx + wdot cuts al (vsub z x) - smeared_e cuts al <= zsum cuts al * f z.
  Proof.
    induction cuts as [|c cuts IH]; intros [|a al] z Hc Ha Hz; simpl; try lra.
    inversion Hc as [|? ? [_ Hv] Hcr]; subst. inversion Ha as [|? ? Ha0 Har]; subst.
    specialize (IH al z Hcr Har Hz). specialize (Hv z Hz). nra.
  Qed.

  Lemma aggregate_weighted x fx cuts al z : Forall (valid_cut x fx) cuts -> Forall (fun a => 0 <= a) al -> length z = n ->
    zsum cuts al * fx + dot (cs (aggregate n cuts al)) (vsub z x) - ce (aggregate n cuts al) <= zsum cuts al * f z.
  Proof.
    intros Hc Ha Hz. simpl. rewrite dot_smeared by (eapply valid_cut_len; eauto).
    apply weighted_valid; assumption.
  Qed.

  (* convex combination of valid cuts is a valid cut *)
  Lemma aggregate_valid x fx cuts al : Forall (valid_cut x fx) cuts -> Forall (fun a => 0 <= a) al ->
    zsum cuts al == 1 -> valid_cut x fx (aggregate n cuts al).
  Proof.
    intros Hc Ha Hs. split.
    - simpl. apply smeared_s_length. eapply valid_cut_len; eauto.
    - intros z Hz. pose proof (aggregate_weighted x fx cuts al z Hc Ha Hz) as H. rewrite Hs in H. lra.
  Qed.

  (* the serious-step re-centring formula keeps every cut the same affine function *)
  Lemma recenter_valid x fx y fy c : length x = n -> length y = n -> valid_cut x fx c -> valid_cut y fy (recenter x fx y fy c).
  Proof.
    intros Hx Hy [Hl Hv]. split; [exact Hl|]. intros z Hz. simpl.
    specialize (Hv z Hz).
    rewrite dot_vsub_r in Hv by lia. rewrite !dot_vsub_r by lia. lra.
  Qed.

  Lemma null_cut_valid x fx y gy fy : length x = n -> subgrad y gy fy -> valid_cut x fx (null_cut x fx y gy fy).
  Proof.
    intros Hx (Hy & Hg & Hf & Hs). split; [exact Hg|]. intros z Hz. simpl.
    specialize (Hs z Hz). rewrite dot_vsub_r in Hs by lia. rewrite !dot_vsub_r by lia. lra.
  Qed.

  Lemma new_centre_cut_valid y gy fy : subgrad y gy fy -> valid_cut y fy (mkcut gy 0).
  Proof.
    intros (Hy & Hg & Hf & Hs). split; [exact Hg|]. intros z Hz. simpl. specialize (Hs z Hz). lra.
  Qed.

  Lemma solve2_range miu c0 c1 : 0 <= solve2 miu c0 c1 <= 1.
  Proof.
    unfold solve2.
    set (side := if Qltb 0 _ then 0 else 1).
    assert (Hs : 0 <= side <= 1) by (subst side; destruct (Qltb 0 _); lra).
    destruct (Qeq_bool _ 0); [exact Hs|].
    match goal with |- context [Qle_bool 0 ?b && Qle_bool ?b 1] => destruct (Qle_bool 0 b) eqn:E1; destruct (Qle_bool b 1) eqn:E2 end;
      simpl; try exact Hs.
    apply Qle_bool_iff in E1. apply Qle_bool_iff in E2. lra.
  Qed.

  Lemma init_inv max_size x gx fx : subgrad x gx fx -> Inv (init n max_size x gx fx).
  Proof.
    intros Hs. pose proof Hs as (Hx & Hg & Hf & _). unfold Inv, init; simpl.
    repeat split; auto; try discriminate.
    constructor; [|constructor]. apply new_centre_cut_valid. exact Hs.
  Qed.

  Lemma step_inv eps0 b o b' : Inv b -> op_ok eps0 b o -> step eps0 b o = Some b' -> Inv b'.
  Proof.
    intros (Hn & Hx & Hf & Hne & Hc & Ha) Hok Hstep.
    destruct o as [miu alpha | serious keep y gy fy]; simpl in *.
    - (* solve *)
      destruct (bcuts b) as [|c0 rest] eqn:Ecuts; [discriminate|].
      unfold src_c03_solve1, src_c03_solve2 in Hstep.
      destruct (Z.eqb (Z.of_nat (length (c0 :: rest))) 1) eqn:E1.
      + inversion Hstep; subst; clear Hstep. unfold Inv; simpl.
        repeat split; auto. right. apply Z.eqb_eq in E1. simpl length in *.
        split; [lia|]. split; [repeat constructor; lra | simpl; lra].
      + destruct (Z.eqb (Z.of_nat (length (c0 :: rest))) 2) eqn:E2.
        * destruct rest as [|c1 rest']; [discriminate|].
          inversion Hstep; subst; clear Hstep. unfold Inv; simpl.
          repeat split; auto. right. apply Z.eqb_eq in E2. simpl length in *.
          pose proof (solve2_range miu c0 c1) as Hr.
          split; [lia|]. split; [repeat constructor; lra | simpl; lra].
        * destruct (Nat.eqb (length alpha) (length (c0 :: rest))) eqn:E3; [|discriminate].
          inversion Hstep; subst; clear Hstep. unfold Inv; simpl.
          apply Nat.eqb_eq in E3. apply Z.eqb_neq in E1. apply Z.eqb_neq in E2.
          repeat split; auto. right. split; [exact E3|]. apply Hok. simpl length in *. lia.
    - (* append *)
      destruct Hok as [Hsub Hzero].
      destruct (Nat.eqb (length (balpha b)) (length (bcuts b))) eqn:E1; [|discriminate].
      destruct (Nat.eqb (length y) (bn b)) eqn:E2; [|discriminate].
      destruct (Nat.eqb (length gy) (bn b)) eqn:E3; [|discriminate].
      simpl in Hstep. inversion Hstep; subst b'; clear Hstep.
      apply Nat.eqb_eq in E1. apply Nat.eqb_eq in E2. apply Nat.eqb_eq in E3.
      (* the multipliers are a point of the simplex (the bundle is not empty) *)
      assert (Hsx : simplex (balpha b)).
      { destruct Ha as [Hnil | [_ Hs]]; [|exact Hs]. rewrite Hnil in E1. simpl in E1.
        destruct (bcuts b); [contradiction Hne; reflexivity | discriminate]. }
      destruct Hsx as [Hpos Hsum].
      set (r := del_inactive eps0 (bcuts b) (balpha b)).
      assert (Hc1 : Forall (valid_cut (bx b) (bfx b)) (fst r)) by (apply del_inactive_cuts; exact Hc).
      assert (Ha1 : Forall (fun a => 0 <= a) (snd r)) by (apply del_inactive_alpha; exact Hpos).
      assert (Hs1 : zsum (fst r) (snd r) == 1).
      { unfold r. rewrite del_inactive_sum; auto. }
      assert (Hc2 : Forall (valid_cut (bx b) (bfx b)) (del_largest (bn b) (bcap b) keep (fst r) (snd r))).
      { unfold del_largest. destruct (src_c03_full _ _); [|exact Hc1].
        apply Forall_app. split; [apply pick_Forall; exact Hc1|].
        constructor; [|constructor]. rewrite Hn. apply aggregate_valid; assumption. }
      unfold append. fold r.
      destruct serious; unfold Inv; simpl.
      + destruct Hsub as (Hy & Hg & Hfy & Hs).
        repeat split; auto.
        * intro K. apply app_eq_nil in K. destruct K as [_ K]. discriminate.
        * apply Forall_app. split.
          -- rewrite Forall_map. eapply Forall_impl; [|exact Hc2].
             intros c Hv. apply recenter_valid; assumption.
          -- constructor; [|constructor]. apply new_centre_cut_valid. repeat split; assumption.
      + repeat split; auto.
        * intro K. apply app_eq_nil in K. destruct K as [_ K]. discriminate.
        * apply Forall_app. split; [exact Hc2|].
          constructor; [|constructor]. apply null_cut_valid; assumption.
  Qed.

  (* every history *)
  Inductive ops_ok (eps0 : Q) : bundle -> list op -> Prop :=
  | ops_nil b : ops_ok eps0 b []
  | ops_cons b o ops : op_ok eps0 b o -> (forall b', step eps0 b o = Some b' -> ops_ok eps0 b' ops) -> ops_ok eps0 b (o :: ops).

  Lemma run_inv eps0 : forall ops b b', Inv b -> ops_ok eps0 b ops -> run eps0 b ops = Some b' -> Inv b'.
  Proof.
    induction ops as [|o ops IH]; intros b b' Hi Hok Hrun; simpl in Hrun.
    - inversion Hrun; subst. exact Hi.
    - inversion Hok as [|? ? ? Ho Hrest]; subst.
      destruct (step eps0 b o) as [b1|] eqn:E; [|discriminate].
      apply (IH b1 b'); [eapply step_inv; eauto | apply Hrest; reflexivity | exact Hrun].
  Qed.

  (* linearisation errors are non-negative *)
  Lemma errors_nonneg b : Inv b -> Forall (fun c => 0 <= ce c) (bcuts b).
  Proof.
    intros (Hn & Hx & Hf & _ & Hc & _). eapply Forall_impl; [|exact Hc].
    intros c [_ Hv]. specialize (Hv (bx b) Hx). rewrite dot_vsub_same in Hv. lra.
  Qed.

  (* the aggregate linearisation: f(z) >= fx + s^.(z - x) - e^ *)
  Lemma smeared_lower_bound b z : Inv b -> length (balpha b) = length (bcuts b) -> length z = n ->
    bfx b + dot (smeared_s (bn b) (bcuts b) (balpha b)) (vsub z (bx b)) - smeared_e (bcuts b) (balpha b) <= f z.
  Proof.
    intros (Hn & Hx & Hf & Hne & Hc & Ha) Hl Hz.
    assert (Hsx : simplex (balpha b)).
    { destruct Ha as [Hnil | [_ Hs]]; [|exact Hs]. rewrite Hnil in Hl. simpl in Hl.
      destruct (bcuts b); [contradiction Hne; reflexivity | discriminate]. }
    destruct Hsx as [Hpos Hsum].
    assert (Hz1 : zsum (bcuts b) (balpha b) == 1) by (rewrite zsum_qsum; assumption).
    destruct (aggregate_valid (bx b) (bfx b) (bcuts b) (balpha b) Hc Hpos Hz1) as [_ Hv].
    specialize (Hv z Hz). simpl in Hv. rewrite Hn. exact Hv.
  Qed.

  (* the certificate behind the stopping test of the curve search *)
  Lemma certificate b z te ts d : Inv b -> length (balpha b) = length (bcuts b) -> length z = n ->
    smeared_e (bcuts b) (balpha b) <= te ->
    0 <= ts -> norm2 (smeared_s (bn b) (bcuts b) (balpha b)) <= ts * ts ->
    0 <= d -> norm2 (vsub (bx b) z) <= d * d ->
    bfx b - f z <= te + ts * d.
  Proof.
    intros Hi Hl Hz He Hts Hs Hd Hdz.
    pose proof (smeared_lower_bound b z Hi Hl Hz) as H.
    destruct Hi as (Hn & Hx & _).
    pose proof (cs_bound _ _ ts d Hts Hd Hs Hdz) as Hcs.
    rewrite dot_vsub_r in H by lia. rewrite dot_vsub_r in Hcs by lia. lra.
  Qed.

  Lemma certificate_bool b z tol d : Inv b -> length (balpha b) = length (bcuts b) -> length z = n ->
    0 <= tol -> cs_converged tol b = true ->
    0 <= d -> norm2 (vsub (bx b) z) <= d * d ->
    bfx b - f z <= tol + tol * d.
  Proof.
    intros Hi Hl Hz Ht Hc Hd Hdz. unfold cs_converged, src_c03_cs_converged in Hc.
    apply andb_true_iff in Hc. destruct Hc as [He Hs]. unfold econv in He. unfold sconv in Hs.
    apply Qle_bool_iff in He. apply Qle_bool_iff in Hs.
    eapply certificate; eauto.
  Qed.

  (* sharp minimum:  f(z) - f* >= |z - x*|_2  written without square roots *)
  Definition sharp (xs : vec) (fs : Q) : Prop :=
    length xs = n /\ fs == f xs /\ forall z, length z = n -> 0 <= f z - fs /\ norm2 (vsub z xs) <= (f z - fs) * (f z - fs).

  (* RQB (returned state = bundle centre) and FPBA (returned state no worse than the centre) *)
  Lemma bundle_solver_converged b xs fs tol fret : Inv b -> length (balpha b) = length (bcuts b) ->
    sharp xs fs -> 0 <= tol -> tol <= 1 # 2 -> cs_converged tol b = true -> fret <= bfx b ->
    fret - fs <= 2 * tol.
  Proof.
    intros Hi Hl (Hxs & Hfs & Hsh) Ht Ht2 Hc Hret.
    pose proof Hi as (Hn & Hx & Hf & _).
    destruct (Hsh (bx b) Hx) as [Hd Hn2]. rewrite <- Hf in Hd, Hn2.
    pose proof (certificate_bool b xs tol (bfx b - fs) Hi Hl Hxs Ht Hc Hd Hn2) as H.
    rewrite <- Hfs in H. nra.
  Qed.

  (* size() < capacity() is kept by append as long as delete_largest really removes `count` rows *)
  Lemma append_size eps0 serious keep y gy fy b :
    (Z.of_nat (length (bcuts b)) < bcap b)%Z ->
    (let r := del_inactive eps0 (bcuts b) (balpha b) in
     src_c03_full (Z.of_nat (length (fst r))) (bcap b) = true ->
     (Z.of_nat (length keep) + src_c03_count <= Z.of_nat (length (fst r)))%Z) ->
    (Z.of_nat (length (bcuts (append eps0 serious keep y gy fy b))) < bcap b)%Z.
  Proof.
    intros Hlt Hk. unfold append.
    set (r := del_inactive eps0 (bcuts b) (balpha b)) in *. simpl in Hk.
    pose proof (del_inactive_le eps0 (bcuts b) (balpha b)) as Hle. fold r in Hle.
    assert (H2 : (Z.of_nat (length (del_largest (bn b) (bcap b) keep (fst r) (snd r))) + 1 < bcap b)%Z).
    { unfold del_largest. destruct (src_c03_full _ _) eqn:E.
      - specialize (Hk eq_refl). unfold src_c03_count in Hk. unfold src_c03_full in E. apply Z.eqb_eq in E.
        rewrite app_length. simpl. pose proof (pick_length (fst r) keep). lia.
      - unfold src_c03_full in E. apply Z.eqb_neq in E. lia. }
    destruct serious; simpl; rewrite app_length; [rewrite map_length|]; simpl; lia.
  Qed.
End Bundle.

(* the two-cut closed form is optimal on the simplex:  phi(a) = 1/2 (a,1-a) Q (a,1-a)' + c'(a,1-a) *)
Definition phi2 (miu : Q) (c0 c1 : cut) (a : Q) : Q :=
  (1 # 2) * (a * a * dot (cs c0) (cs c0) + 2 * a * (1 - a) * dot (cs c0) (cs c1) + (1 - a) * (1 - a) * dot (cs c1) (cs c1))
  + miu * ce c0 * a + miu * ce c1 * (1 - a).

Lemma solve2_optimal miu c0 c1 a' : 0 <= a' <= 1 -> phi2 miu c0 c1 (solve2 miu c0 c1) <= phi2 miu c0 c1 a'.
Proof.
  intros Ha'. unfold phi2, solve2.
  pose proof (dot_comm (cs c1) (cs c0)) as Hcomm.
  pose proof (cs_aux (cs c0) (cs c1) 1 1) as Hq. unfold norm2 in Hq.
  set (q00 := dot (cs c0) (cs c0)) in *. set (q11 := dot (cs c1) (cs c1)) in *.
  set (q01 := dot (cs c0) (cs c1)) in *. set (q10 := dot (cs c1) (cs c0)) in *.
  set (e0 := ce c0). set (e1 := ce c1).
  set (q := q00 + q11 - q01 - q10).
  set (p := (1 # 2) * (q01 + q10) - q11 + miu * e0 - miu * e1).
  assert (Hq0 : 0 <= q) by (subst q; lra).
  assert (Hphi : forall a, (1 # 2) * (a * a * q00 + 2 * a * (1 - a) * q01 + (1 - a) * (1 - a) * q11) + miu * e0 * a + miu * e1 * (1 - a)
                           == (1 # 2) * q * a * a + p * a + ((1 # 2) * q11 + miu * e1)).
  { intro a. subst q p. rewrite Hcomm. ring. }
  rewrite (Hphi a').
  set (side := if Qltb 0 ((1 # 2) * q + p) then 0 else 1).
  assert (Hside : (1 # 2) * q * side * side + p * side <= (1 # 2) * q * a' * a' + p * a' \/
                  (0 < q /\ 0 <= - p / q <= 1)).
  { destruct (Qlt_le_dec 0 q) as [Hqp|Hqz].
    - (* q > 0 *)
      destruct (Qlt_le_dec (- p / q) 0) as [Hb0|Hb0].
      + left. assert (Hp : 0 < p).
        { assert (E : (- p / q) * q == - p) by (field; lra). nra. }
        subst side. destruct (Qltb 0 ((1 # 2) * q + p)) eqn:E; [nra|]. apply Qltb_false in E. nra.
      + destruct (Qlt_le_dec 1 (- p / q)) as [Hb1|Hb1]; [|right; split; [exact Hqp | split; assumption]].
        left. assert (Hp : p < - q).
        { assert (E : (- p / q) * q == - p) by (field; lra). nra. }
        subst side. destruct (Qltb 0 ((1 # 2) * q + p)) eqn:E; [apply Qltb_true in E; nra|].
        assert (K1 : q * a' <= q) by nra.
        assert (K2 : 0 <= (1 - a') * (- ((1 # 2) * q * (1 + a') + p))) by (apply Qmult_le_0_compat; lra).
        lra.
    - left. assert (Hqe : q == 0) by lra.
      subst side. destruct (Qltb 0 ((1 # 2) * q + p)) eqn:E.
      + apply Qltb_true in E. nra.
      + apply Qltb_false in E. nra. }
  destruct (Qeq_bool q 0) eqn:Eq.
  - apply Qeq_bool_iff in Eq. rewrite (Hphi side).
    destruct Hside as [H|[H _]]; [lra | lra].
  - match goal with |- context [Qle_bool 0 ?b && Qle_bool ?b 1] => set (bb := b) in *; destruct (Qle_bool 0 bb) eqn:E1; destruct (Qle_bool bb 1) eqn:E2 end; simpl.
    + (* interior minimiser *)
      rewrite (Hphi bb). apply Qle_bool_iff in E1. apply Qle_bool_iff in E2.
      assert (Hqne : ~ q == 0) by (intro K; apply Qeq_bool_neq in Eq; contradiction).
      assert (E : bb * q == - p) by (subst bb; field; exact Hqne).
      assert (Ep : p == - (bb * q)) by lra.
      assert (Hsq : 0 <= q * ((a' - bb) * (a' - bb))) by (apply Qmult_le_0_compat; [exact Hq0 | apply Qsq_nonneg]).
      rewrite Ep. lra.
    + rewrite (Hphi side). destruct Hside as [H|[_ [H1 H2]]]; [lra|].
      exfalso. apply Qle_bool_iff in E1. fold bb in H2.
      destruct (Qle_bool bb 1) eqn:K; [discriminate|]. rewrite <- not_true_iff_false in K. apply K. apply Qle_bool_iff. exact H2.
    + rewrite (Hphi side). destruct Hside as [H|[_ [H1 H2]]]; [lra|].
      exfalso. fold bb in H1. rewrite <- not_true_iff_false in E1. apply E1. apply Qle_bool_iff. exact H1.
    + rewrite (Hphi side). destruct Hside as [H|[_ [H1 H2]]]; [lra|].
      exfalso. fold bb in H1. rewrite <- not_true_iff_false in E1. apply E1. apply Qle_bool_iff. exact H1.
Qed.

(* ---- status logic ---------------------------------------------------------------------------------------------------- *)
(* solver_status::converged (= 1) is assigned only when the curve search returned csearch_status::converged (= 2) *)
Lemma rqb_done_converged status valid : rqb_done status valid = Some 1%Z -> status = 2%Z.
Proof.
  unfold rqb_done, done_status, src_c03_done_stop, src_c03_done_step_ok, src_c03_done_status,
    src_c03_rqb_iter_ok, src_c03_rqb_converged.
  destruct (Z.eqb status 2) eqn:E; [intros _; apply Z.eqb_eq; exact E|].
  destruct (Z.eqb status 0); destruct valid; simpl; intro H; discriminate.
Qed.

Lemma fpba_done_converged status valid : fpba_done status valid = Some 1%Z -> status = 2%Z.
Proof.
  unfold fpba_done, done_status, src_c03_done_stop, src_c03_done_step_ok, src_c03_done_status,
    src_c03_fpba_iter_ok, src_c03_fpba_converged.
  destruct (Z.eqb status 2) eqn:E; [intros _; apply Z.eqb_eq; exact E|].
  destruct (Z.eqb status 0); destruct valid; simpl; intro H; discriminate.
Qed.

(* ---- ellipsoid ---------------------------------------------------------------------------------------------------- *)
Section Ell1.
  Variable f g : Q -> Q.
  Variable xs fs : Q.
  Hypothesis Hsub : forall c z, f c + g c * (z - c) <= f z.
  Hypothesis Hmin : fs == f xs.
  Hypothesis Hsharp : forall z, Qabs (z - xs) <= f z - fs.

  (* what the 1-D branch really maintains: H is a quarter of the bracket *)
  Definition Inv1 (c H : Q) : Prop := 0 <= H /\ - (2 * H) <= xs - c <= 2 * H.

  Lemma ell1_init x0 R : 0 <= R -> Qabs (xs - x0) <= R -> Inv1 x0 R.
  Proof.
    intros HR Habs. apply Qabs_Qle_condition in Habs. unfold Inv1. lra.
  Qed.

  Lemma ell1_next_inv c H : Inv1 c H -> ~ g c == 0 ->
    Inv1 (fst (ell1_next c H (g c))) (snd (ell1_next c H (g c))).
  Proof.
    intros [HH Hb] Hg. unfold ell1_next, Inv1; simpl.
    pose proof (Hsub c xs) as H1. pose proof (Hsharp c) as H2.
    pose proof (Qabs_nonneg (c - xs)) as H3.
    assert (Hfc : fs <= f c) by lra.
    assert (Eh : 2 * (H / 2) == H) by field. set (h := H / 2) in *.
    destruct (Qltb (g c) 0) eqn:E.
    - apply Qltb_true in E.
      assert (K : 0 <= xs - c).
      { destruct (Qlt_le_dec (xs - c) 0) as [K|K]; [exfalso | exact K].
        pose proof (Qmul_neg_neg _ _ E K). lra. }
      split; [lra|]. split; lra.
    - apply Qltb_false in E. assert (Hp : 0 < g c) by (destruct (Qlt_le_dec 0 (g c)); [assumption | exfalso; apply Hg; lra]).
      assert (K : xs - c <= 0).
      { destruct (Qlt_le_dec 0 (xs - c)) as [K|K]; [exfalso | exact K].
        pose proof (Qmul_pos_pos _ _ Hp K). lra. }
      split; [lra|]. split; lra.
  Qed.

  (* under sharpness a small g'Hg at the centre c certifies f(c) - f* < 2 theta *)
  Lemma ell1_certificate c H theta : Inv1 c H -> ell1_gHg H (g c) < theta -> f c - fs < 2 * theta.
  Proof.
    intros [HH Hb] Hth. unfold ell1_gHg in Hth.
    pose proof (Hsub c xs) as H1. pose proof (Hsharp c) as H2.
    assert (Hth0 : 0 < theta) by nra.
    destruct (Q_dec c xs) as [[Hlt|Hgt]|Heq].
    - (* c < xs *)
      rewrite Qabs_neg in H2 by lra. set (gc := g c) in *.
      assert (Hg1 : gc <= - (1)).
      { destruct (Qlt_le_dec (- (1)) gc) as [K|K]; [exfalso | exact K].
        assert (0 < (gc + 1) * (xs - c)) by (apply Qmul_pos_pos; lra). lra. }
      assert (K1 : 0 <= H * ((- gc) * (- gc - 1))) by (apply Qmult_le_0_compat; [exact HH | apply Qmult_le_0_compat; lra]).
      assert (K2 : 0 <= (- gc) * (2 * H - (xs - c))) by (apply Qmult_le_0_compat; lra).
      lra.
    - rewrite Qabs_pos in H2 by lra. set (gc := g c) in *.
      assert (Hg1 : 1 <= gc).
      { destruct (Qlt_le_dec gc 1) as [K|K]; [exfalso | exact K].
        assert (0 < (1 - gc) * (c - xs)) by (apply Qmul_pos_pos; lra). lra. }
      assert (K1 : 0 <= H * (gc * (gc - 1))) by (apply Qmult_le_0_compat; [exact HH | apply Qmult_le_0_compat; lra]).
      assert (K2 : 0 <= gc * (2 * H - (c - xs))) by (apply Qmult_le_0_compat; lra).
      lra.
    - assert (E0 : g c * (xs - c) == 0). { assert (E1 : xs - c == 0) by lra. rewrite E1. ring. }
      lra.
  Qed.

  Lemma ell1_loop_converged eps macheps theta : 0 < macheps -> macheps <= theta -> eps * eps <= theta ->
    forall fuel c H best r, Inv1 c H -> best <= f c ->
    ell1_loop f g eps macheps fuel c H best = (true, r) -> r - fs < 2 * theta.
  Proof.
    intros Hm Hmt Het. induction fuel as [|k IH]; intros c H best r Hi Hb Hrun; simpl in Hrun; [discriminate|].
    destruct (ell1_stop0 macheps H (g c)) eqn:E0.
    - inversion Hrun; subst. unfold ell1_stop0 in E0. apply Qltb_true in E0.
      pose proof (ell1_certificate c H macheps Hi E0). lra.
    - unfold ell1_stop0 in E0. apply Qltb_false in E0.
      assert (Hg : ~ g c == 0).
      { intro K. unfold ell1_gHg in E0. rewrite K in E0. lra. }
      pose proof (ell1_next_inv c H Hi Hg) as Hi'.
      set (nx := ell1_next c H (g c)) in *.
      set (best' := if Qltb (f (fst nx)) best then f (fst nx) else best) in *.
      assert (Hb1 : best' <= best /\ best' <= f (fst nx)).
      { subst best'. destruct (Qltb (f (fst nx)) best) eqn:E; [apply Qltb_true in E | apply Qltb_false in E]; lra. }
      destruct (ell1_conv eps H (g c)) eqn:Ec.
      + injection Hrun as Hr. unfold ell1_conv in Ec. apply Qltb_true in Ec.
        pose proof (ell1_certificate c H (eps * eps) Hi Ec) as Hcert. rewrite <- Hr. destruct Hb1 as [Hb1 _]. change (best' - fs < 2 * theta). lra.
      + apply (IH (fst nx) (snd nx) best' r Hi'); [lra | exact Hrun].
  Qed.
End Ell1.

(* the certificate of the n-D method: if xs = c + L u with |u| <= 1 (xs inside the ellipsoid of shape H = L L') and
   g is a sub-gradient at c then  f(c) - f(xs) <= sqrt(g'Hg) = |L'g| *)
Definition mv (L : list vec) (u : vec) : vec := map (fun r => dot r u) L.
Fixpoint mtv (m : nat) (L : list vec) (g : vec) : vec :=
  match L, g with
  | r :: L', gi :: g' => vadd (vscale gi r) (mtv m L' g')
  | _, _ => vzero m
  end.

Lemma mtv_length m : forall L g, Forall (fun r => length r = m) L -> length (mtv m L g) = m.
Proof.
  induction L as [|r L IH]; intros g H; simpl; [apply vzero_length|].
  destruct g as [|gi g]; [apply vzero_length|]. inversion H as [|? ? Hr HL].
  apply vadd_length; [rewrite vscale_length; exact Hr | apply IH; exact HL].
Qed.

Lemma adjoint m : forall L g u, Forall (fun r => length r = m) L -> dot g (mv L u) == dot (mtv m L g) u.
Proof.
  induction L as [|r L IH]; intros g u H; simpl.
  - rewrite dot_nil_r, dot_vzero_l. reflexivity.
  - destruct g as [|gi g]; simpl; [rewrite dot_vzero_l; reflexivity|].
    inversion H as [|? ? Hr HL].
    rewrite dot_vadd_l by (rewrite vscale_length, mtv_length; auto).
    rewrite dot_vscale_l, (IH g u HL). reflexivity.
Qed.

Lemma dot_Forall2 : forall g v w, Forall2 Qeq v w -> dot g v == dot g w.
Proof.
  induction g as [|x g IH]; intros v w H; simpl; [reflexivity|].
  inversion H as [|a b v' w' Hab Hr]; subst; [reflexivity|]. rewrite Hab, (IH v' w' Hr). reflexivity.
Qed.

Lemma ellipsoid_certificate (f : vec -> Q) (n m : nat) (c g xs u : vec) (L : list vec) (r : Q) :
  length c = n -> length xs = n ->
  (forall z, length z = n -> f c + dot g (vsub z c) <= f z) ->
  Forall (fun row => length row = m) L -> Forall2 Qeq (vsub xs c) (mv L u) -> norm2 u <= 1 ->
  0 <= r -> norm2 (mtv m L g) <= r * r ->
  f c - f xs <= r.
Proof.
  intros Hc Hxs Hsub HL Hin Hu Hr Hg.
  specialize (Hsub xs Hxs). rewrite (dot_Forall2 g _ _ Hin), (adjoint m L g u HL) in Hsub.
  pose proof (cs_bound (vscale (- (1)) (mtv m L g)) u r 1 Hr) as Hcs.
  rewrite dot_vscale_l in Hcs.
  assert (Hn : norm2 (vscale (- (1)) (mtv m L g)) == norm2 (mtv m L g)).
  { unfold norm2. rewrite dot_vscale_l, dot_comm, dot_vscale_l. ring. }
  rewrite Hn in Hcs. lapply Hcs; [|lra]. intro H1. lapply H1; [|exact Hg]. intro H2. lapply H2; [|lra]. intro H3. lra.
Qed.

(* ---- concrete instances used by the non-vacuity examples ------------------------------------------------------------ *)
Definition fabs1 (z : vec) : Q := match z with [z0] => Qabs z0 | _ => 0 end.

Lemma Qabs_sq (a : Q) : Qabs a * Qabs a == a * a.
Proof.
  destruct (Qlt_le_dec a 0) as [H|H]; [rewrite Qabs_neg by lra | rewrite Qabs_pos by lra]; ring.
Qed.

Lemma fabs1_subgrad (y0 s : Q) : s * y0 == Qabs y0 -> - (1) <= s <= 1 -> subgrad fabs1 1 [y0] [s] (Qabs y0).
Proof.
  intros Hs Hr. repeat split; try reflexivity.
  intros z Hz. destruct z as [|z0 [|z1 z]]; try discriminate. simpl.
  destruct (Qlt_le_dec z0 0) as [H|H]; [rewrite (Qabs_neg z0) by lra | rewrite (Qabs_pos z0) by lra]; nra.
Qed.

Lemma fabs1_sharp : sharp fabs1 1 [0] 0.
Proof.
  repeat split; try reflexivity.
  - destruct z as [|z0 [|z1 z]]; try discriminate. simpl. pose proof (Qabs_nonneg z0). lra.
  - destruct z as [|z0 [|z1 z]]; try discriminate. unfold norm2. simpl. pose proof (Qabs_sq z0). nra.
Qed.

Definition fabs_at1 (z : Q) : Q := Qabs (z - 1).
Definition gabs_at1 (z : Q) : Q := if Qltb z 1 then - (1) else 1.

Lemma fabs_at1_sub c z : fabs_at1 c + gabs_at1 c * (z - c) <= fabs_at1 z.
Proof.
  unfold fabs_at1, gabs_at1.
  destruct (Qltb c 1) eqn:E; [apply Qltb_true in E | apply Qltb_false in E].
  - rewrite (Qabs_neg (c - 1)) by lra.
    destruct (Qlt_le_dec (z - 1) 0) as [H|H]; [rewrite Qabs_neg by lra | rewrite Qabs_pos by lra]; lra.
  - rewrite (Qabs_pos (c - 1)) by lra.
    destruct (Qlt_le_dec (z - 1) 0) as [H|H]; [rewrite Qabs_neg by lra | rewrite Qabs_pos by lra]; lra.
Qed.

Lemma fabs_at1_sharp z : Qabs (z - 1) <= fabs_at1 z - 0.
Proof. unfold fabs_at1. lra. Qed.

(* ---- statements exported by Properties_C03.v whose proofs combine the lemmas above ----------------------------- *)
Lemma cuts_minorize : forall (f : vec -> Q) (n : nat) b, Inv f n b ->
  Forall (fun c => forall z, length z = n -> bfx b + dot (cs c) (vsub z (bx b)) - ce c <= f z) (bcuts b) /\
  Forall (fun c => 0 <= ce c) (bcuts b).
Proof.
  intros f n b Hi. split; [|eapply errors_nonneg; eauto].
  destruct Hi as (_ & _ & _ & _ & Hc & _). eapply Forall_impl; [|exact Hc]. intros c [_ H]. exact H.
Qed.

Lemma rqb_fpba_prop : forall (f : vec -> Q) (n : nat) b xs fs tol fret dret,
  Inv f n b -> length (balpha b) = length (bcuts b) ->
  sharp f n xs fs -> 0 <= tol -> tol <= 1 # 2 -> cs_converged tol b = true -> fret <= bfx b -> 0 <= dret ->
  fret - fs <= 2 * tol /\ fret - fs <= 2 * tol * (1 + dret).
Proof.
  intros f n b xs fs tol fret dret Hi Hl Hs Ht Ht2 Hc Hr Hd.
  pose proof (bundle_solver_converged f n b xs fs tol fret Hi Hl Hs Ht Ht2 Hc Hr) as H.
  split; [exact H|]. assert (0 <= tol * dret) by (apply Qmult_le_0_compat; assumption).
  lra.
Qed.

Lemma ellipsoid_1d_loop : forall (f g : Q -> Q) (xs fs : Q),
  (forall c z, f c + g c * (z - c) <= f z) -> fs == f xs -> (forall z, Qabs (z - xs) <= f z - fs) ->
  forall eps macheps theta x0 R fuel r,
  0 < macheps -> macheps <= theta -> eps * eps <= theta -> 0 <= R -> Qabs (xs - x0) <= R ->
  ell1_loop f g eps macheps fuel x0 R (f x0) = (true, r) -> r - fs < 2 * theta.
Proof.
  intros f g xs fs Hsub Hmin Hsharp eps macheps theta x0 R fuel r Hm Hmt Het HR Hx Hrun.
  apply (ell1_loop_converged f g xs fs Hsub Hmin Hsharp eps macheps theta Hm Hmt Het fuel x0 R (f x0) r);
    [apply ell1_init; assumption | apply Qle_refl | exact Hrun].
Qed.

Lemma ellipsoid_1d_10eps : forall (f g : Q -> Q) (xs fs : Q),
  (forall c z, f c + g c * (z - c) <= f z) -> fs == f xs -> (forall z, Qabs (z - xs) <= f z - fs) ->
  forall eps macheps x0 R fuel r,
  0 < macheps -> macheps <= eps -> eps <= 1 -> 0 <= R -> Qabs (xs - x0) <= R ->
  ell1_loop f g eps macheps fuel x0 R (f x0) = (true, r) -> r - fs <= 10 * eps.
Proof.
  intros f g xs fs Hsub Hmin Hsharp eps macheps x0 R fuel r Hm Hme He1 HR Hx Hrun.
  assert (Hee : eps * eps <= eps) by nra.
  pose proof (ellipsoid_1d_loop f g xs fs Hsub Hmin Hsharp eps macheps eps x0 R fuel r Hm Hme Hee HR Hx Hrun) as H.
  lra.
Qed.

Lemma ellipsoid_1d_halfwidth_refuted : exists c H g xs,
  0 <= H /\ - H <= xs - c <= H /\ g < 0 /\ c <= xs /\
  ~ (- snd (ell1_next c H g) <= xs - fst (ell1_next c H g) <= snd (ell1_next c H g)).
Proof.
  exists 0, 10, (- (1)), 1. repeat split; try (vm_compute; discriminate).
  intros [H1 _]. vm_compute in H1. apply H1. reflexivity.
Qed.

Lemma ellipsoid_1d_inv_prop : forall (f g : Q -> Q) (xs fs : Q),
  (forall c z, f c + g c * (z - c) <= f z) -> fs == f xs -> (forall z, Qabs (z - xs) <= f z - fs) ->
  forall c H, Inv1 xs c H -> ~ g c == 0 -> Inv1 xs (fst (ell1_next c H (g c))) (snd (ell1_next c H (g c))).
Proof. intros f g xs fs Hsub Hmin Hsharp c H Hi Hg. eapply ell1_next_inv; eauto. Qed.
