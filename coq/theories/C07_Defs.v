(* C07 -- executable model of libnano's line-searches (no proofs here).

   lsearchk_t::get and the five do_get implementations only touch the solver state through
   fx(), dg(descent), valid() and update(x0 + t*d): they are 1-D algorithms over a *probe oracle*
   t |-> (valid, f, dg). All the arithmetic is scalar `double` code, reproduced bit for bit by PrimFloat.

   The oracle is `phi : Z -> float -> probe`: its first argument is the number of probes made before
   (a deterministic objective ignores it; the table-driven driver only uses it). The acceptance
   predicates, the interpolation formulas and the step constants come from the sources through
   tools/translate.py + tools/checks/c07.py (Src_c07_flt.v, regenerated on every run).

   anchors: src/lsearchk.cpp (get), src/lsearchk/{backtrack,lemarechal,fletcher,morethuente,cgdescent}.cpp,
            src/solver/lstep.cpp, src/solver/state.cpp *)
From Coq Require Import List ZArith Bool Floats.
From LNGen Require Import Src_c07_flt.
Import ListNotations.
Local Open Scope float_scope.

(* ---------- data ---------- *)
Record probe := mkP { pv : bool; pf : float; pg : float }.       (* state.valid(), state.fx(), state.dg(descent) *)
Record step := mkS { st_t : float; st_f : float; st_g : float }.  (* lsearch_step_t {t, f, g} *)

Inductive alg := Backtrack | Lemarechal | Fletcher | MoreThuente | CGDescent.

Record params := mkPrm {
  c1 : float; c2 : float;            (* lsearchk::tolerance *)
  maxit : Z;                         (* lsearchk::max_iterations *)
  interp : Z;                        (* interpolation_type: 0 bisection, 1 quadratic, 2 cubic *)
  safeguard : float;                 (* backtrack / lemarechal *)
  tau1 : float;                      (* lemarechal / fletcher *)
  tau2 : float; tau3 : float;        (* fletcher tau23 *)
  mt_delta : float;                  (* morethuente *)
  cg_epsilon : float; cg_theta : float; cg_gamma : float; cg_ro : float }.

(* the model's view of `solver_state_t& state`: the last probe's answer, plus two ghosts (probe count, requested t's,
   most recent first) *)
Record state := mkSt { cur : probe; cnt : Z; trace : list float }.

(* ---------- libstdc++ helpers with their exact NaN / signed-zero behaviour ---------- *)
Definition fmin (a b : float) : float := if b <? a then b else a.       (* std::min(a, b) *)
Definition fmax (a b : float) : float := if a <? b then b else a.       (* std::max(a, b) *)
Definition fclamp (v lo hi : float) : float := fmin (fmax v lo) hi.     (* std::clamp(v, lo, hi) *)

(* ---------- constants ---------- *)
Definition eps : float := 0x1p-52.                         (* numeric_limits<double>::epsilon() *)
Definition eps0 : float := 0x1.203af9ee75616p-50.          (* epsilon0<double>() = 1e-15 *)
Definition eps1 : float := 0x1.b7cdfd9d7bdbbp-34.          (* epsilon1<double>() = 1e-10 *)
Definition stpmin : float := src_ls_stpmin_f eps.
Definition stpmax : float := src_ls_stpmax_f stpmin.
Definition k03 : float := 0x1.3333333333333p-2.            (* 0.3 *)
Definition k11 : float := 0x1.199999999999ap+0.            (* 1.1 *)
Definition k066 : float := 0x1.51eb851eb851fp-1.           (* 0.66 *)
Definition half : float := 0x1p-1.

(* ---------- predicates of state.cpp on (origin probe, current probe) ---------- *)
Definition has_descent (p : probe) : bool := src_has_descent_f (pg p).
Definition has_armijo (p0 p : probe) (t c1 : float) : bool := src_has_armijo_f (pf p) (pf p0) t c1 (pg p0).
Definition has_approx_armijo (p0 p : probe) (epsilon : float) : bool := src_has_approx_armijo_f (pf p) (pf p0) epsilon.
Definition has_wolfe (p0 p : probe) (c2 : float) : bool := src_has_wolfe_f (pg p) c2 (pg p0).
Definition has_strong_wolfe (p0 p : probe) (c2 : float) : bool :=
  src_has_strong_wolfe_f (abs (pg p)) c2 (abs (pg p0)).
Definition has_approx_wolfe (p0 p : probe) (c1 c2 : float) : bool := src_has_approx_wolfe_f (pg p) c1 c2 (pg p0).

(* ---------- lstep.cpp ---------- *)
Definition cubic (u v : step) : float :=
  let d1 := src_cubic_d1_f (st_t u) (st_f u) (st_g u) (st_t v) (st_f v) (st_g v) in
  let d2 := src_cubic_sign_f (st_t u) (st_f u) (st_g u) (st_t v) (st_f v) (st_g v)
            * sqrt (src_cubic_disc_f (st_t u) (st_f u) (st_g u) (st_t v) (st_f v) (st_g v) d1) in
  src_cubic_ret_f (st_t u) (st_f u) (st_g u) (st_t v) (st_f v) (st_g v) d1 d2.

Definition quadratic (u v : step) : float :=
  let dt := src_quadratic_dt_f (st_t u) (st_f u) (st_g u) (st_t v) (st_f v) (st_g v) in
  let df := src_quadratic_df_f (st_t u) (st_f u) (st_g u) (st_t v) (st_f v) (st_g v) in
  src_quadratic_ret_f (st_t u) (st_f u) (st_g u) (st_t v) (st_f v) (st_g v) dt df half.

Definition secant (u v : step) : float := src_secant_f (st_t u) (st_f u) (st_g u) (st_t v) (st_f v) (st_g v).
Definition bisection (u v : step) : float := src_bisection_f (st_t u) (st_f u) (st_g u) (st_t v) (st_f v) (st_g v) half.

Definition interpolate (u v : step) (method : Z) : float :=
  let tc := cubic u v in
  let tq := quadratic u v in
  let tb := bisection u v in
  if (method =? 2)%Z then (if is_finite tc then tc else if is_finite tq then tq else tb)
  else if (method =? 1)%Z then (if is_finite tq then tq else tb)
  else tb.

Definition step_of (t : float) (p : probe) : step := mkS t (pf p) (pg p).

(* ---------- More-Thuente's dcstep (morethuente.cpp, anonymous namespace) ---------- *)
Record dcst := mkDC { d_stx : float; d_fx : float; d_dx : float; d_sty : float; d_fy : float; d_dy : float;
                      d_stp : float; d_brackt : bool }.

Definition dcstep (d : dcst) (fp dp : float) (smin smax delta : float) : dcst :=
  let stx := d_stx d in let fx := d_fx d in let dx := d_dx d in
  let sty := d_sty d in let fy := d_fy d in let dy := d_dy d in
  let stp := d_stp d in let brackt := d_brackt d in
  let sgnd := dp * (dx / abs dx) in
  let sx := mkS stx fx dx in let sp := mkS stp fp dp in
  let '(stpf, brackt') :=
    if fx <? fp then
      let stpc := cubic sx sp in
      let stpq := quadratic sx sp in
      ((if abs (stpc - stx) <? abs (stpq - stx) then stpc else stpc + (stpq - stpc) / 2), true)
    else if sgnd <? 0 then
      let stpc := cubic sx sp in
      let stpq := secant sx sp in
      ((if abs (stpq - stp) <? abs (stpc - stp) then stpc else stpq), true)
    else if abs dp <? abs dx then
      let stpc0 := cubic sx sp in
      let stpq := secant sx sp in
      let stpc := if is_finite stpc0 && (0 <? (stp - stx) * (stpc0 - stp)) then stpc0
                  else if stx <? stp then smax else smin in
      if brackt then
        let stpf0 := if abs (stpc - stp) <? abs (stpq - stp) then stpc else stpq in
        ((if stx <? stp then fmin stpf0 (stp + (sty - stp) * delta) else fmax stpf0 (stp + (sty - stp) * delta)),
         brackt)
      else
        let stpf0 := if abs (stpq - stp) <? abs (stpc - stp) then stpc else stpq in
        (fmax smin (fmin smax stpf0), brackt)
    else
      ((if brackt then cubic sp (mkS sty fy dy) else if stx <? stp then smax else smin), brackt) in
  if fx <? fp then mkDC stx fx dx stp fp dp stpf brackt'
  else if sgnd <? 0 then mkDC stp fp dp stx fx dx stpf brackt'
  else mkDC stp fp dp sty fy dy stpf brackt'.

(* mutable locals of lsearchk_morethuente_t::do_get that survive an iteration (f, g are state.fx(), state.dg()) *)
Record mtst := mkMT { m_stage2 : bool; m_brackt : bool; m_stmin : float; m_stmax : float; m_width : float;
                      m_width1 : float; m_stx : float; m_fx : float; m_gx : float; m_sty : float; m_fy : float;
                      m_gy : float }.

(* CG_DESCENT's interval_t (+ the mutable params.m_max_iterations travelling with it) *)
Record interval := mkIv { i_step : float; i_a : step; i_b : step; i_s : state; i_mi : Z }.

(* ghost of a *successful* More-Thuente / CG_DESCENT return: the locals the deciding test was evaluated on
   (More-Thuente: brackt, stmin, stmax, ... at the `return {true, stp}`; CG_DESCENT: the interval [a, b] and the
   `bracketed` argument of the `done` call that returned true). XNone everywhere else. Never influences (ok, t, state). *)
Inductive exitinfo := XNone | XMT (m : mtst) | XCG (iv : interval) (bracketed : bool).

Record result := mkRX { ok : bool; rt : float; rs : state; rx : exitinfo }.
Notation mkR o t s := (mkRX o t s XNone).

Section Model.
  Variable phi : Z -> float -> probe.     (* probe oracle: (number of earlier probes, t) |-> answer *)
  Variable prm : params.
  Variable p0 : probe.                    (* state0 *)

  Definition fuel_of (z : Z) : nat := Z.to_nat z.

  (* state.update(state0.x() + t * descent): the only way the state changes *)
  Definition update (s : state) (t : float) : state := mkSt (phi (cnt s) t) (cnt s + 1)%Z (t :: trace s).

  Definition armijo (s : state) (t : float) : bool := has_armijo p0 (cur s) t (c1 prm).
  Definition wolfe (s : state) : bool := has_wolfe p0 (cur s) (c2 prm).
  Definition swolfe (s : state) : bool := has_strong_wolfe p0 (cur s) (c2 prm).
  Definition step0 : step := step_of 0 p0.

  (* ---------- backtrack.cpp ---------- *)
  Fixpoint backtrack (fuel : nat) (s : state) (t : float) : result :=
    match fuel with
    | O => mkR false t s
    | S k =>
      if negb (pv (cur s)) then mkR false t s
      else if armijo s t then mkR true t s
      else
        let tmin := fmin 0 t in
        let tmax := fmax 0 t in
        let imin := tmin + safeguard prm * (tmax - tmin) in
        let imax := tmax - safeguard prm * (tmax - tmin) in
        let t' := fclamp (interpolate step0 (step_of t (cur s)) (interp prm)) imin imax in
        let s' := update s t' in
        if pv (cur s') then backtrack k s' t' else mkR false t' s'
    end.

  (* ---------- lemarechal.cpp ---------- *)
  Definition lem_interp (L R : step) : float :=
    let imin := st_t L + safeguard prm * (st_t R - st_t L) in
    let imax := st_t R - safeguard prm * (st_t R - st_t L) in
    fclamp (interpolate L R (interp prm)) imin imax.

  Fixpoint lemarechal (fuel : nat) (s : state) (t : float) (L R : step) : result :=
    match fuel with
    | O => mkR false t s
    | S k =>
      if armijo s t then
        if wolfe s then mkR true t s
        else
          let L' := step_of t (cur s) in
          let t' := if st_t R <? eps0 then tau1 prm * st_t L' else lem_interp L' R in
          let s' := update s t' in
          if pv (cur s') then lemarechal k s' t' L' R else mkR false t' s'
      else
        let R' := step_of t (cur s) in
        let t' := lem_interp L R' in
        let s' := update s t' in
        if pv (cur s') then lemarechal k s' t' L R' else mkR false t' s'
    end.

  (* ---------- fletcher.cpp ---------- *)
  Fixpoint zoom (fuel : nat) (s : state) (lo hi : step) : result :=
    match fuel with
    | O => mkR false (st_t hi) s
    | S k =>
      if negb (eps0 <? abs (st_t lo - st_t hi)) then mkR false (st_t hi) s
      else
        let tmin := fmin (st_t lo) (st_t hi) + fmin (tau2 prm) (c2 prm) * abs (st_t hi - st_t lo) in
        let tmax := fmax (st_t lo) (st_t hi) - tau3 prm * abs (st_t hi - st_t lo) in
        let t := fclamp (interpolate lo hi (interp prm)) tmin tmax in
        let s' := update s t in
        if negb (pv (cur s')) then mkR false t s'
        else if negb (armijo s' t) || (st_f lo <=? pf (cur s')) then zoom k s' lo (step_of t (cur s'))
        else if swolfe s' then mkR true t s'
        else
          let hi' := if 0 <=? pg (cur s') * (st_t hi - st_t lo) then lo else hi in
          zoom k s' (step_of t (cur s')) hi'
    end.

  Fixpoint fletcher (fuel : nat) (s : state) (t : float) (prev curr : step) : result :=
    match fuel with
    | O => mkR false t s
    | S k =>
      if negb (armijo s t) || (st_f prev <=? st_f curr) then zoom (fuel_of (maxit prm)) s prev curr
      else if swolfe s then mkR true t s
      else if negb (has_descent (cur s)) then zoom (fuel_of (maxit prm)) s curr prev
      else
        let tmin := st_t curr + 2 * (st_t curr - st_t prev) in
        let tmax := st_t curr + tau1 prm * (st_t curr - st_t prev) in
        let t' := fclamp (interpolate prev curr (interp prm)) tmin tmax in
        let s' := update s t' in
        if negb (pv (cur s')) then mkR false t' s'
        else fletcher k s' t' curr (step_of t' (cur s'))
    end.

  (* ---------- morethuente.cpp ---------- *)
  Definition mt_finit : float := pf p0.
  Definition mt_ginit : float := pg p0.
  Definition mt_gtest : float := src_mth_gtest_f (c1 prm) mt_ginit.

  (* the five `return {true, stp}` tests at the top of an iteration, each translated from morethuente.cpp (source order) *)
  Definition mt_ftest (stp : float) : float := src_mth_ftest_f mt_finit stp mt_gtest.
  Definition mt_exit_rounding (stp : float) (m : mtst) : bool :=
    src_mth_exit_rounding_f (m_brackt m) stp (m_stmin m) (m_stmax m).
  Definition mt_exit_collapsed (m : mtst) : bool := src_mth_exit_collapsed_f (m_brackt m) (m_stmin m) (m_stmax m) eps0.
  Definition mt_exit_stpmax (p : probe) (stp : float) : bool :=
    src_mth_exit_stpmax_f stp stpmax (pf p) (mt_ftest stp) (pg p) mt_gtest.
  Definition mt_exit_stpmin (p : probe) (stp : float) : bool :=
    src_mth_exit_stpmin_f stp stpmin (pf p) (mt_ftest stp) (pg p) mt_gtest.
  Definition mt_converged (p : probe) (stp : float) : bool :=
    src_mth_converged_f (pf p) (mt_ftest stp) (abs (pg p)) (pg p) (c2 prm) mt_ginit.

  Definition mt_stop (p : probe) (stp : float) (m : mtst) : bool :=
    mt_exit_rounding stp m || mt_exit_collapsed m || mt_exit_stpmax p stp || mt_exit_stpmin p stp || mt_converged p stp.

  (* the rest of the iteration: the next trial step and the updated locals *)
  Definition mt_next (p : probe) (stp : float) (m : mtst) : float * mtst :=
    let f := pf p in
    let g := pg p in
    let gtest := mt_gtest in
    let ftest := mt_ftest stp in
    let stage2 := m_stage2 m || ((f <=? ftest) && (0 <=? g)) in
    let brackt := m_brackt m in
    let stmin := m_stmin m in
    let stmax := m_stmax m in
    let d :=
      if negb stage2 && (f <=? m_fx m) && (ftest <? f) then
        let fm := f - stp * gtest in
        let fxm := m_fx m - m_stx m * gtest in
        let fym := m_fy m - m_sty m * gtest in
        let gm := g - gtest in
        let gxm := m_gx m - gtest in
        let gym := m_gy m - gtest in
        let d := dcstep (mkDC (m_stx m) fxm gxm (m_sty m) fym gym stp brackt) fm gm stmin stmax (mt_delta prm) in
        mkDC (d_stx d) (d_fx d + d_stx d * gtest) (d_dx d + gtest) (d_sty d) (d_fy d + d_sty d * gtest)
             (d_dy d + gtest) (d_stp d) (d_brackt d)
      else
        dcstep (mkDC (m_stx m) (m_fx m) (m_gx m) (m_sty m) (m_fy m) (m_gy m) stp brackt) f g stmin stmax
               (mt_delta prm) in
    let stx := d_stx d in
    let sty := d_sty d in
    let brackt' := d_brackt d in
    let stp1 := if brackt' && (m_width1 m * k066 <=? abs (sty - stx)) then stx + (sty - stx) * half
                else d_stp d in
    let width1' := if brackt' then m_width m else m_width1 m in
    let width' := if brackt' then abs (sty - stx) else m_width m in
    let stmin' := if brackt' then fmin stx sty else stp1 + (stp1 - stx) * k11 in
    let stmax' := if brackt' then fmax stx sty else stp1 + (stp1 - stx) * 4 in
    let stp2 := fclamp stp1 stpmin stpmax in
    let stp3 := if src_mth_noprogress_f brackt' stp2 stmin' stmax' eps0 then stx else stp2 in
    (stp3, mkMT stage2 brackt' stmin' stmax' width' width1' stx (d_fx d) (d_dx d) sty (d_fy d) (d_dy d)).

  Fixpoint morethuente (fuel : nat) (s : state) (stp : float) (m : mtst) : result :=
    match fuel with
    | O => mkR false stp s
    | S k =>
      if mt_stop (cur s) stp m then mkRX true stp s (XMT m)
      else
        let '(stp', m') := mt_next (cur s) stp m in
        let s' := update s stp' in
        if negb (pv (cur s')) then mkR false stp' s'
        else morethuente k s' stp' m'
    end.

  Definition mt_init (stp : float) : mtst :=
    let width := stpmax - stpmin in
    mkMT false false 0 (stp + stp * 4) width (2 * width) 0 mt_finit mt_ginit 0 mt_finit mt_ginit.

  (* ---------- cgdescent.cpp ---------- *)
  Definition cg_epsk : float := src_cg_epsilonk_f (cg_epsilon prm) (abs (pf p0)).

  Definition iv_cur (iv : interval) : probe := cur (i_s iv).
  Definition cg_move (iv : interval) (t : float) : interval :=
    mkIv t (i_a iv) (i_b iv) (update (i_s iv) t) (i_mi iv).
  Definition cg_updateA (iv : interval) : interval :=
    mkIv (i_step iv) (step_of (i_step iv) (iv_cur iv)) (i_b iv) (i_s iv) (i_mi iv).
  Definition cg_updateB (iv : interval) : interval :=
    mkIv (i_step iv) (i_a iv) (step_of (i_step iv) (iv_cur iv)) (i_s iv) (i_mi iv).
  Definition cg_setA (iv : interval) (a : step) : interval := mkIv (i_step iv) a (i_b iv) (i_s iv) (i_mi iv).
  Definition cg_dec (iv : interval) : interval := mkIv (i_step iv) (i_a iv) (i_b iv) (i_s iv) (i_mi iv - 1)%Z.

  (* interval_t::done: its three tests are translated from cgdescent.cpp *)
  Definition cg_failed (iv : interval) (bracketed : bool) : bool :=
    src_cg_done_failed_f bracketed (st_f (i_a iv)) (pf p0) cg_epsk (st_g (i_b iv)) (pv (iv_cur iv)).
  Definition cg_outside (iv : interval) : bool := src_cg_done_outside_f (i_step iv) (st_t (i_a iv)) (st_t (i_b iv)).
  Definition cg_accept (iv : interval) : bool :=
    src_cg_done_accept_f (has_armijo p0 (iv_cur iv) (i_step iv) (c1 prm)) (has_wolfe p0 (iv_cur iv) (c2 prm))
                         (has_approx_armijo p0 (iv_cur iv) cg_epsk) (has_approx_wolfe p0 (iv_cur iv) (c1 prm) (c2 prm)).

  Definition cg_done (iv : interval) (bracketed : bool) : bool :=
    if cg_failed iv bracketed then true
    else if cg_outside iv then false
    else cg_accept iv.

  Fixpoint cg_updateU (fuel : nat) (iv : interval) : interval :=
    match fuel with
    | O => iv
    | S k =>
      if negb (0 <? i_mi iv)%Z || negb (stpmin <? st_t (i_b iv) - st_t (i_a iv)) then iv
      else
        let iv1 := cg_move iv ((1 - cg_theta prm) * st_t (i_a iv) + cg_theta prm * st_t (i_b iv)) in
        if negb (pv (iv_cur iv1)) then iv1
        else if negb (has_descent (iv_cur iv1)) then cg_updateB iv1
        else if has_approx_armijo p0 (iv_cur iv1) cg_epsk then cg_updateU k (cg_dec (cg_updateA iv1))
        else cg_updateU k (cg_dec (cg_updateB iv1))
    end.

  Definition cg_update (iv : interval) : interval :=
    if (i_step iv <=? st_t (i_a iv)) || (st_t (i_b iv) <=? i_step iv) then iv
    else if negb (has_descent (iv_cur iv)) then cg_updateB iv
    else if has_approx_armijo p0 (iv_cur iv) cg_epsk then cg_updateA iv
    else cg_updateU (fuel_of (i_mi iv)) (cg_updateB iv).

  Fixpoint cg_bracket (fuel : nat) (iv : interval) (last_a : step) : interval :=
    match fuel with
    | O => iv
    | S k =>
      if negb (0 <? i_mi iv)%Z || negb (pv (iv_cur iv)) then iv
      else if negb (has_descent (iv_cur iv)) then cg_updateB (cg_setA iv last_a)
      else if negb (has_approx_armijo p0 (iv_cur iv) cg_epsk) then
        let iv1 := cg_updateB (cg_setA iv step0) in cg_updateU (fuel_of (i_mi iv1)) iv1
      else
        let last_a' := step_of (i_step iv) (iv_cur iv) in
        cg_bracket k (cg_dec (cg_move iv (cg_ro prm * i_step iv))) last_a'
    end.

  (* the lambda move_update_and_check_done *)
  Definition cg_mucd (iv : interval) (t : float) : bool * interval :=
    if negb (is_finite t) then (false, iv)
    else
      let iv1 := cg_move iv t in
      if cg_done iv1 true then (true, iv1)
      else let iv2 := cg_update iv1 in (cg_done iv2 true, iv2).

  Definition cg_ret (iv : interval) (bracketed : bool) : result :=
    mkRX (pv (iv_cur iv)) (i_step iv) (i_s iv) (XCG iv bracketed).

  Fixpoint cg_loop (fuel : nat) (i : Z) (iv : interval) : result :=
    match fuel with
    | O => mkR false (i_step iv) (i_s iv)
    | S k =>
      if negb (i <? i_mi iv)%Z || negb (stpmin <? st_t (i_b iv) - st_t (i_a iv)) then mkR false (i_step iv) (i_s iv)
      else
        let a0 := i_a iv in
        let b0 := i_b iv in
        let prev_width := st_t b0 - st_t a0 in
        let tc := secant a0 b0 in
        let '(d1, iv1) := cg_mucd iv tc in
        if d1 then cg_ret iv1 true
        else
          let '(d2, iv2) :=
            if abs (tc - st_t (i_a iv1)) <? eps0 then cg_mucd iv1 (secant a0 (i_a iv1))
            else if abs (tc - st_t (i_b iv1)) <? eps0 then cg_mucd iv1 (secant b0 (i_b iv1))
            else (false, iv1) in
          if d2 then cg_ret iv2 true
          else if cg_gamma prm * prev_width <? st_t (i_b iv2) - st_t (i_a iv2) then
            let '(d3, iv3) := cg_mucd iv2 ((st_t (i_a iv2) + st_t (i_b iv2)) / 2) in
            if d3 then cg_ret iv3 true else cg_loop k (i + 1)%Z iv3
          else cg_loop k (i + 1)%Z iv2
    end.

  Definition cgdescent (s : state) (t : float) : result :=
    let iv := mkIv t step0 (step_of t (cur s)) s (maxit prm) in
    if cg_done iv false then cg_ret iv false
    else
      let iv1 := cg_bracket (fuel_of (maxit prm)) iv (i_a iv) in
      if cg_done iv1 true then cg_ret iv1 true
      else cg_loop (fuel_of (maxit prm)) 0%Z iv1.

  (* ---------- lsearchk.cpp: lsearchk_t::get ---------- *)
  Definition do_get (a : alg) (s : state) (t : float) : result :=
    match a with
    | Backtrack => backtrack (fuel_of (maxit prm)) s t
    | Lemarechal => lemarechal (fuel_of (maxit prm - 1)) s t step0 step0
    | Fletcher => fletcher (fuel_of (maxit prm - 1)) s t step0 (step_of t (cur s))
    | MoreThuente => morethuente (fuel_of (maxit prm)) s t (mt_init t)
    | CGDescent => cgdescent s t
    end.

  (* first loop: shrink while the trial state is invalid *)
  Fixpoint shrink (fuel : nat) (s : state) (t : float) : state * float :=
    match fuel with
    | O => (s, t)
    | S k => let s' := update s t in if pv (cur s') then (s', t) else shrink k s' (t * k03)
    end.

  (* second loop: grow while the function value did not move; None = `return {false, step_size}` inside the loop *)
  Fixpoint grow (fuel : nat) (s : state) (t : float) : bool * (state * float) :=
    match fuel with
    | O => (true, (s, t))
    | S k =>
      if abs (pf (cur s) - pf p0) <? eps1 then
        let t' := t * 3 in
        let s' := update s t' in
        if pv (cur s') then grow k s' t' else (false, (s', t'))
      else (true, (s, t))
    end.

  Definition init_state : state := mkSt p0 0%Z [].
  Definition init_step (t0 : float) : float := src_ls_init_step_f (is_finite t0) (fclamp t0 stpmin 1).

  Definition ls_get (a : alg) (t0 : float) : result :=
    if negb (has_descent p0) then mkR false t0 init_state
    else
      let '(s1, t1) := shrink (fuel_of (maxit prm)) init_state (init_step t0) in
      (* no valid initial step found: the state is stale (evaluated at the previous trial) -> failure *)
      if src_ls_stale_guard_f (pv (cur s1)) then mkR false t1 s1
      else
        let '(go, (s2, t2)) := grow (fuel_of (maxit prm)) s1 t1 in
        if go then do_get a s2 t2 else mkR false t2 s2.
End Model.

(* helpers used by the driver (alg from its C++ type_id rank) *)
Definition alg_of_Z (z : Z) : alg :=
  if (z =? 0)%Z then Backtrack else if (z =? 1)%Z then Lemarechal else if (z =? 2)%Z then Fletcher
  else if (z =? 3)%Z then MoreThuente else CGDescent.
