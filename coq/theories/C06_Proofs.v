(* C06 -- proofs about the real-number instance [Rops] of the model of C06_Defs.v.

   Layout: 1. scalar facts   2. list algebra (dot, vsub, ...)   3. generic liftings (separable sums, chains, composition)
           4. losses   5. benchmark functions   6. constraints   7. error rules   8. derivatives (Coquelicot)
           9. the declaration table parsed from the source. *)
From Coq Require Import ZArith QArith List Bool Reals Lra Lia Psatz.
From Coq Require String.
From LNGen Require Import Src_c06 Src_c06_flags.
From LN Require Import C06_Defs.
Import ListNotations.
Local Open Scope R_scope.

Notation Rdot := (dot Rops).
Notation Rvsub := (vsub Rops).
Notation Rvadd := (vadd Rops).
Notation Rvscale := (vscale Rops).

(* unfold the scalar structure *)
Ltac rops :=
  unfold quartic, cube in *; unfold two, half, sq in *; unfold cst in *;
  cbn [o_zero o_one o_add o_sub o_mul o_opp o_ofQ o_ltb Rops] in *;
  unfold Q2R in *; cbn [Qnum Qden] in *.
Ltac rcases :=
  unfold Rltb in *;
  repeat match goal with
         | |- context [Rlt_dec ?a ?b] => destruct (Rlt_dec a b)
         | H : context [Rlt_dec ?a ?b] |- _ => destruct (Rlt_dec a b)
         end.

(* ------------------------------------------------------------------------------------------------ *)
(* 1. scalar facts                                                                                   *)
(* ------------------------------------------------------------------------------------------------ *)
Lemma sqr_ge0 : forall a : R, 0 <= a * a.
Proof. intro a. generalize (Rle_0_sqr a). unfold Rsqr. lra. Qed.

Lemma pabs_R : forall x, pabs Rops x = Rabs x.
Proof. intro x. unfold pabs. rops. rcases; [rewrite Rabs_left | rewrite Rabs_right]; lra. Qed.

Lemma pmax_R : forall a b, pmax Rops a b = Rmax a b.
Proof. intros a b. unfold pmax. rops. rcases; [rewrite Rmax_right | rewrite Rmax_left]; lra. Qed.

(* tangent inequality of exp at any point *)
Lemma exp_tangent : forall a b, exp b >= exp a + exp a * (b - a).
Proof.
  intros a b. replace b with (a + (b - a)) at 1 by ring. rewrite exp_plus.
  generalize (exp_ineq1_le (b - a)) (exp_pos a). nra.
Qed.

(* softplus s = ln (1 + exp s) is convex with derivative exp s / (1 + exp s) *)
Lemma softplus_tangent : forall a b, ln (1 + exp b) >= ln (1 + exp a) + exp a / (1 + exp a) * (b - a).
Proof.
  intros a b.
  set (p := exp a / (1 + exp a)). set (d := b - a).
  assert (Ea := exp_pos a). assert (Eb := exp_pos b).
  assert (Hp : 0 < p < 1).
  { unfold p. split.
    - apply Rdiv_lt_0_compat; lra.
    - apply Rmult_lt_reg_r with (1 + exp a); [lra|]. unfold Rdiv. rewrite Rmult_assoc, Rinv_l by lra. lra. }
  (* (1 - p) + p e^d >= e^(p d): weighted tangent inequalities of exp at p d *)
  assert (Hw : (1 - p) + p * exp d >= exp (p * d)).
  { generalize (exp_tangent (p * d) 0) (exp_tangent (p * d) d) (exp_pos (p * d)). rewrite exp_0. intros H0 H1 Hpd.
    assert (A : (1 - p) * 1 >= (1 - p) * (exp (p * d) + exp (p * d) * (0 - p * d))) by (apply Rle_ge, Rmult_le_compat_l; lra).
    assert (B : p * exp d >= p * (exp (p * d) + exp (p * d) * (d - p * d))) by (apply Rle_ge, Rmult_le_compat_l; lra).
    nra. }
  (* (1 + e^b) / (1 + e^a) = (1 - p) + p e^d *)
  assert (Hq : (1 + exp b) = (1 + exp a) * ((1 - p) + p * exp d)).
  { assert (Hd : exp d = exp b * / exp a) by (unfold d, Rminus; rewrite exp_plus, exp_Ropp; reflexivity).
    rewrite Hd. unfold p. field. split; lra. }
  rewrite Hq, ln_mult; [| lra | generalize (exp_pos (p * d)); lra ].
  assert (Hl : ln (1 - p + p * exp d) >= p * d).
  { assert (Hx : ln (exp (p * d)) <= ln (1 - p + p * exp d)).
    { destruct Hw as [Hw | Hw].
      - left. apply ln_increasing; [apply exp_pos | lra].
      - right. now rewrite Hw. }
    rewrite ln_exp in Hx. lra. }
  fold p. fold d. lra.
Qed.

(* ------------------------------------------------------------------------------------------------ *)
(* 2. list algebra over R                                                                            *)
(* ------------------------------------------------------------------------------------------------ *)
Lemma dot_nil_r : forall x, Rdot x [] = 0.
Proof. destruct x; reflexivity. Qed.

Lemma dot_cons : forall a x b y, Rdot (a :: x) (b :: y) = a * b + Rdot x y.
Proof. reflexivity. Qed.

Lemma vsub_cons : forall a x b y, Rvsub (a :: x) (b :: y) = (a - b) :: Rvsub x y.
Proof. reflexivity. Qed.

Lemma vsub_length : forall z x, length z = length x -> length (Rvsub z x) = length x.
Proof. induction z as [|a z IH]; intros [|c x] H; simpl in *; try discriminate; auto. f_equal. apply IH. lia. Qed.

Lemma dot_comm : forall x y, Rdot x y = Rdot y x.
Proof. induction x as [|a x IH]; destruct y; simpl; auto. unfold dot in *. simpl. rewrite IH. rops. ring. Qed.

Lemma dot_vscale_l : forall c x y, Rdot (Rvscale c x) y = c * Rdot x y.
Proof.
  induction x as [|a x IH]; destruct y as [|b y]; unfold dot, vscale in *; simpl; rops; try ring.
  rewrite IH. ring.
Qed.

Lemma dot_vadd_l : forall x y d, length x = length y -> Rdot (Rvadd x y) d = Rdot x d + Rdot y d.
Proof.
  induction x as [|a x IH]; destruct y as [|b y]; intros d H; try discriminate.
  - destruct d; unfold dot; simpl; rops; ring.
  - destruct d as [|e d]; [unfold dot; simpl; rops; ring|]. injection H as H.
    change (Rvadd (a :: x) (b :: y)) with ((a + b) :: Rvadd x y). rewrite !dot_cons, IH by assumption. ring.
Qed.

Lemma dot_vsub_l : forall z x b, length z = length x -> Rdot (Rvsub z x) b = Rdot z b - Rdot x b.
Proof.
  induction z as [|a z IH]; destruct x as [|c x]; intros b H; try discriminate.
  - destruct b; unfold dot; simpl; rops; ring.
  - destruct b as [|e b]; [unfold dot; simpl; rops; ring|]. injection H as H.
    rewrite vsub_cons, !dot_cons, IH by assumption. ring.
Qed.

Lemma dot_self_ge0 : forall x, 0 <= Rdot x x.
Proof. induction x as [|a x IH]; [unfold dot; simpl; rops; lra|]. rewrite dot_cons. generalize (sqr_ge0 a). lra. Qed.

(* the second-order expansion of the squared norm: |z|^2 = |x|^2 + 2x.(z-x) + |z-x|^2 *)
Lemma dot_expand : forall z x, length z = length x ->
  Rdot z z = Rdot x x + Rdot (Rvscale 2 x) (Rvsub z x) + Rdot (Rvsub z x) (Rvsub z x).
Proof.
  induction z as [|a z IH]; destruct x as [|c x]; intros H; try discriminate.
  - unfold dot; simpl; rops; ring.
  - injection H as H. specialize (IH x H). rewrite dot_vscale_l in *. rewrite vsub_cons, !dot_cons, IH. ring.
Qed.

(* ------------------------------------------------------------------------------------------------ *)
(* 3. generic liftings                                                                               *)
(* ------------------------------------------------------------------------------------------------ *)
(* a separable sum of kernels that satisfy the (c-strong) tangent inequality in their second argument,
   for weights satisfying P *)
Lemma sum2_subgrad : forall (P : R -> Prop) (k kg : R -> R -> R) (c : R),
  (forall a u v, P a -> k a v >= k a u + kg a u * (v - u) + c * ((v - u) * (v - u))) ->
  forall w x z, Forall P w -> length w = length x -> length z = length x ->
  sum2 Rops k w z >= sum2 Rops k w x + Rdot (map2 kg w x) (Rvsub z x) + c * Rdot (Rvsub z x) (Rvsub z x).
Proof.
  intros P k kg c Hk. induction w as [|a w IH]; intros x z HP Hw Hl.
  - destruct x; [|discriminate]. destruct z; [|discriminate]. unfold dot; simpl; rops; lra.
  - destruct x as [|u x]; destruct z as [|v z]; try discriminate.
    injection Hl as Hl. injection Hw as Hw. inversion HP as [|? ? Pa Pw]; subst.
    specialize (IH x z Pw Hw Hl). specialize (Hk a u v Pa).
    simpl sum2. simpl map2. rewrite vsub_cons, !dot_cons. rops. lra.
Qed.

(* without the quadratic term the lists may have any lengths (everything truncates to the shortest) *)
Lemma sum2_subgrad0 : forall (k kg : R -> R -> R),
  (forall a u v, k a v >= k a u + kg a u * (v - u)) ->
  forall w x z, length z = length x ->
  sum2 Rops k w z >= sum2 Rops k w x + Rdot (map2 kg w x) (Rvsub z x).
Proof.
  intros k kg Hk. induction w as [|a w IH]; intros x z Hl.
  - simpl. unfold dot. simpl. rops. lra.
  - destruct x as [|u x]; destruct z as [|v z]; try discriminate.
    + unfold dot; simpl; rops; lra.
    + injection Hl as Hl. specialize (IH x z Hl). specialize (Hk a u v).
      simpl sum2. simpl map2. rewrite vsub_cons, !dot_cons. rops. lra.
Qed.

(* the same when the kernel ignores its first argument and the weight list is the point itself (sum2 k x x) *)
Lemma sum2_irrelevant : forall (k : R -> R -> R), (forall a b u, k a u = k b u) ->
  forall w w' x, length w = length x -> length w' = length x -> sum2 Rops k w x = sum2 Rops k w' x.
Proof.
  intros k Hk. induction w as [|a w IH]; destruct w' as [|b w']; destruct x as [|u x]; simpl; intros H1 H2; try discriminate; auto.
  rewrite (Hk a b u). f_equal. apply IH; lia.
Qed.

Lemma map2_irrelevant : forall (k : R -> R -> R), (forall a b u, k a u = k b u) ->
  forall w w' x, length w = length x -> length w' = length x -> map2 k w x = map2 k w' x.
Proof.
  intros k Hk. induction w as [|a w IH]; destruct w' as [|b w']; destruct x as [|u x]; simpl; intros H1 H2; try discriminate; auto.
  rewrite (Hk a b u). f_equal. apply IH; lia.
Qed.

Lemma Forall_True : forall (l : list R), Forall (fun _ => True) l.
Proof. induction l; constructor; auto. Qed.

Lemma self_sum_subgrad : forall (phi phi' : R -> R) (c : R),
  (forall u v, phi v >= phi u + phi' u * (v - u) + c * ((v - u) * (v - u))) ->
  forall x z, length z = length x ->
  sum2 Rops (fun _ u => phi u) z z >=
  sum2 Rops (fun _ u => phi u) x x + Rdot (map2 (fun _ u => phi' u) x x) (Rvsub z x) + c * Rdot (Rvsub z x) (Rvsub z x).
Proof.
  intros phi phi' c Hk x z Hl.
  rewrite (sum2_irrelevant (fun _ u => phi u) (fun _ _ _ => eq_refl) z x z) by auto.
  apply (sum2_subgrad (fun _ => True)); auto using Forall_True.
Qed.

(* composition h (s x) of a convex non-decreasing scalar function with a convex function *)
Lemma compose_subgrad : forall (h h' : R -> R) (sx sz gd : R),
  (forall u v, 0 <= u -> 0 <= v -> h v >= h u + h' u * (v - u)) -> 0 <= h' sx ->
  0 <= sx -> 0 <= sz -> sz >= sx + gd ->
  h sz >= h sx + h' sx * gd.
Proof. intros h h' sx sz gd Hh Hm H0 H1 Hs. specialize (Hh sx sz H0 H1). nra. Qed.

(* chains: sum over adjacent pairs; the pair (a, b) contributes pa to the gradient at a and pb at b *)
Lemma chain_g_carry : forall (pa pb : R -> R -> R -> R) w x d c, x <> [] -> length d = length x ->
  Rdot (chain_g Rops pa pb c w x) d = c * hd 0 d + Rdot (chain_g Rops pa pb 0 w x) d.
Proof.
  intros pa pb w x d c Hx Hl. destruct x as [|a x]; [contradiction|]. destruct d as [|e d]; [discriminate|].
  destruct w as [|wi w]; destruct x as [|b x]; simpl; unfold dot; simpl; rops; try ring.
Qed.

Lemma chain_subgrad : forall (phi pa pb : R -> R -> R -> R),
  (forall w a b a' b', phi w a' b' >= phi w a b + pa w a b * (a' - a) + pb w a b * (b' - b)) ->
  forall w x z, length z = length x ->
  chain_v Rops phi w z >= chain_v Rops phi w x + Rdot (chain_g Rops pa pb 0 w x) (Rvsub z x).
Proof.
  intros phi pa pb Hk. induction w as [|wi w IH]; intros x z Hl.
  - destruct x as [|a x]; destruct z as [|a' z]; try discriminate; simpl.
    + unfold dot; simpl; rops; lra.
    + destruct x, z; unfold dot; simpl; rops; lra.
  - destruct x as [|a x]; destruct z as [|a' z]; try discriminate.
    + simpl. unfold dot; simpl; rops; lra.
    + injection Hl as Hl. destruct x as [|b x]; destruct z as [|b' z]; try discriminate.
      * simpl. unfold dot; simpl; rops; lra.
      * specialize (IH (b :: x) (b' :: z)). specialize (Hk wi a b a' b').
        change (chain_v Rops phi (wi :: w) (a' :: b' :: z)) with (phi wi a' b' + chain_v Rops phi w (b' :: z)).
        change (chain_v Rops phi (wi :: w) (a :: b :: x)) with (phi wi a b + chain_v Rops phi w (b :: x)).
        change (chain_g Rops pa pb 0 (wi :: w) (a :: b :: x))
          with ((0 + pa wi a b) :: chain_g Rops pa pb (pb wi a b) w (b :: x)).
        rewrite vsub_cons, dot_cons.
        rewrite (chain_g_carry pa pb w (b :: x) (Rvsub (b' :: z) (b :: x)) (pb wi a b));
          [| discriminate | apply vsub_length; exact Hl].
        rewrite vsub_cons at 1. simpl hd. specialize (IH Hl). lra.
Qed.

(* ------------------------------------------------------------------------------------------------ *)
(* 4. losses                                                                                         *)
(* ------------------------------------------------------------------------------------------------ *)
Definition kernel_subgrad (kv kg : R -> R -> R) : Prop :=
  forall t o o', kv t o' >= kv t o + kg t o * (o' - o).

Lemma k_mse_subgrad : forall t o o', k_mse_v Rops t o' >= k_mse_v Rops t o + k_mse_g Rops t o * (o' - o) + / 2 * ((o' - o) * (o' - o)).
Proof. intros. unfold k_mse_v, k_mse_g. rops. nra. Qed.

Lemma k_mae_subgrad : kernel_subgrad (k_mae_v Rops) (k_mae_g Rops).
Proof. intros t o o'. unfold k_mae_v, k_mae_g, pabs, psgn. rops. rcases; lra. Qed.

Lemma k_hinge_subgrad : kernel_subgrad (k_hinge_v Rops) (k_hinge_g Rops).
Proof. intros t o o'. unfold k_hinge_v, k_hinge_g, pmax, psgn. rops. rcases; nra. Qed.

Lemma k_sqhinge_subgrad : kernel_subgrad (k_sqhinge_v Rops) (k_sqhinge_g Rops).
Proof.
  intros t o o'. unfold k_sqhinge_v, k_sqhinge_g, pmax. rops.
  assert (S := sqr_ge0 ((1 - t * o') - (1 - t * o))). assert (S' := sqr_ge0 (1 - t * o')).
  rcases; nra.
Qed.

Lemma k_pinball_subgrad : forall alpha, 0 <= alpha <= 1 -> kernel_subgrad (k_pinball_v Rops alpha) (k_pinball_g Rops alpha).
Proof. intros alpha Ha t o o'. unfold k_pinball_v, k_pinball_g, pmax, psgn. rops. rcases; nra. Qed.

Lemma k_exponential_subgrad : kernel_subgrad kr_exponential_v kr_exponential_g.
Proof.
  intros t o o'. unfold kr_exponential_v, kr_exponential_g.
  generalize (exp_tangent (- t * o) (- t * o')). nra.
Qed.

Lemma k_logistic_subgrad : kernel_subgrad kr_logistic_v kr_logistic_g.
Proof.
  intros t o o'. unfold kr_logistic_v, kr_logistic_g.
  generalize (softplus_tangent (- t * o) (- t * o')). nra.
Qed.

(* a sample's loss is the sum over its coefficients: lift the kernel inequality *)
Lemma loss_subgrad : forall kv kg, kernel_subgrad kv kg ->
  forall t o o', length o' = length o ->
  loss_v Rops kv t o' >= loss_v Rops kv t o + Rdot (loss_g kg t o) (Rvsub o' o).
Proof.
  intros kv kg Hk t o o' Hl. unfold loss_v, loss_g.
  apply sum2_subgrad0; auto.
Qed.

(* non-negativity *)
Lemma sum2_nonneg : forall (k : R -> R -> R), (forall a u, 0 <= k a u) -> forall w x, 0 <= sum2 Rops k w x.
Proof.
  intros k Hk. induction w as [|a w IH]; destruct x as [|u x]; simpl; rops; try lra.
  generalize (Hk a u) (IH x). lra.
Qed.

Lemma k_mse_nonneg : forall t o, 0 <= k_mse_v Rops t o.
Proof. intros. unfold k_mse_v. rops. generalize (sqr_ge0 (o - t)). lra. Qed.
Lemma k_mae_nonneg : forall t o, 0 <= k_mae_v Rops t o.
Proof. intros. unfold k_mae_v, pabs. rops. rcases; lra. Qed.
Lemma k_hinge_nonneg : forall t o, 0 <= k_hinge_v Rops t o.
Proof. intros. unfold k_hinge_v, pmax. rops. rcases; lra. Qed.
Lemma k_sqhinge_nonneg : forall t o, 0 <= k_sqhinge_v Rops t o.
Proof. intros. unfold k_sqhinge_v. rops. apply sqr_ge0. Qed.
Lemma k_pinball_nonneg : forall alpha, 0 <= alpha <= 1 -> forall t o, 0 <= k_pinball_v Rops alpha t o.
Proof. intros alpha Ha t o. unfold k_pinball_v, pmax. rops. rcases; nra. Qed.
Lemma k_exponential_nonneg : forall t o, 0 <= kr_exponential_v t o.
Proof. intros. unfold kr_exponential_v. left. apply exp_pos. Qed.
Lemma k_logistic_nonneg : forall t o, 0 <= kr_logistic_v t o.
Proof.
  intros. unfold kr_logistic_v. rewrite <- ln_1. left. apply ln_increasing; [lra|]. generalize (exp_pos (- t * o)). lra.
Qed.
Lemma k_cauchy_nonneg : forall t o, 0 <= kr_cauchy_v t o.
Proof.
  intros. unfold kr_cauchy_v. assert (0 <= ln ((t - o) * (t - o) + 1)); [|lra].
  generalize (sqr_ge0 (t - o)). intros [H|H].
  - rewrite <- ln_1. left. apply ln_increasing; lra.
  - rewrite <- H. rewrite Rplus_0_l, ln_1. lra.
Qed.
Lemma k_savage_nonneg : forall t o, 0 <= kr_savage_v t o.
Proof. intros. unfold kr_savage_v. left. apply Rinv_0_lt_compat. generalize (exp_pos (t * o)). nra. Qed.
Lemma k_tangent_nonneg : forall t o, 0 <= kr_tangent_v t o.
Proof. intros. unfold kr_tangent_v. apply sqr_ge0. Qed.

(* ------------------------------------------------------------------------------------------------ *)
(* 5. benchmark functions                                                                            *)
(* ------------------------------------------------------------------------------------------------ *)
Lemma two_R : two Rops = 2.
Proof. rops. lra. Qed.

Lemma cstZ_R : forall n, cst Rops n 1 = IZR n.
Proof. intro n. rops. rewrite Rinv_1. ring. Qed.

Lemma weights_from_length : forall n i, length (weights_from Rops i n) = n.
Proof. induction n as [|n IH]; intro i; simpl; auto. Qed.

Lemma weights_from_ge : forall n i, Forall (fun a => INR i <= a) (weights_from Rops i n).
Proof.
  induction n as [|n IH]; intro i; cbn [weights_from]; constructor.
  - rewrite cstZ_R, <- INR_IZR_INZ. lra.
  - specialize (IH (S i)). rewrite S_INR in IH. eapply Forall_impl; [|exact IH]. simpl. intros a Ha. lra.
Qed.

Lemma bias1_length : forall x, length (bias1 Rops x) = length x.
Proof. intro x. apply weights_from_length. Qed.

Lemma bias1_ge1 : forall x, Forall (fun a => 1 <= a) (bias1 Rops x).
Proof. intro x. apply (weights_from_ge (length x) 1). Qed.

Lemma bias1_same : forall x z, length z = length x -> bias1 Rops z = bias1 Rops x.
Proof. intros x z H. unfold bias1. now rewrite H. Qed.

(* sphere: exact expansion, hence 2-strongly convex and the gradient is the derivative *)
Lemma sphere_expand : forall x z, length z = length x ->
  sphere_v Rops z = sphere_v Rops x + Rdot (sphere_g Rops x) (Rvsub z x) + 2 / 2 * Rdot (Rvsub z x) (Rvsub z x).
Proof. intros x z H. unfold sphere_v, sphere_g. rewrite two_R. rewrite (dot_expand z x H). lra. Qed.

Lemma sphere_convex : forall x z, length z = length x ->
  sphere_v Rops z >= sphere_v Rops x + Rdot (sphere_g Rops x) (Rvsub z x) + 2 / 2 * Rdot (Rvsub z x) (Rvsub z x).
Proof. intros x z H. rewrite (sphere_expand x z H). lra. Qed.

(* axis-parallel ellipsoid: weights 1..n >= 1, hence 2-strongly convex *)
Lemma axis_convex : forall x z, length z = length x ->
  axis_v Rops z >= axis_v Rops x + Rdot (axis_g Rops x) (Rvsub z x) + 2 / 2 * Rdot (Rvsub z x) (Rvsub z x).
Proof.
  intros x z H. unfold axis_v, axis_g. rewrite (bias1_same x z H).
  generalize (sum2_subgrad (fun a => 1 <= a) (fun w u => sq Rops u * w) (fun w u => two Rops * u * w) 1) . intros L.
  replace (2 / 2) with 1 by lra. apply L; auto using bias1_ge1, bias1_length.
  intros a u v Ha. rewrite two_R. rops. generalize (sqr_ge0 (v - u)). nra.
Qed.

(* Schumer-Steiglitz: sum of fourth powers *)
Lemma quartic_tangent : forall u v : R, v * v * (v * v) >= u * u * (u * u) + 4 * (u * (u * u)) * (v - u).
Proof. intros u v. generalize (sqr_ge0 ((v - u) * (v + u))) (sqr_ge0 ((v - u) * u)). nra. Qed.

Lemma schumer_convex : forall x z, length z = length x ->
  schumer_v Rops z >= schumer_v Rops x + Rdot (schumer_g Rops x) (Rvsub z x).
Proof.
  intros x z H. unfold schumer_v, schumer_g.
  generalize (self_sum_subgrad (fun u => quartic Rops u) (fun u => cst Rops 4 1 * cube Rops u) 0). intros L.
  specialize (L ltac:(intros u v; rewrite cstZ_R; rops; generalize (quartic_tangent u v); lra) x z H). rops. lra.
Qed.

(* functions of s = |x|^2 through a convex non-decreasing scalar function *)
Lemma dot_self_subgrad : forall x z, length z = length x -> Rdot z z >= Rdot x x + Rdot (Rvscale 2 x) (Rvsub z x).
Proof. intros x z H. rewrite (dot_expand z x H). generalize (dot_self_ge0 (Rvsub z x)). lra. Qed.

Lemma chung_convex : forall x z, length z = length x ->
  chung_v Rops z >= chung_v Rops x + Rdot (chung_g Rops x) (Rvsub z x).
Proof.
  intros x z H. unfold chung_v, chung_g. rewrite cstZ_R, dot_vscale_l.
  generalize (dot_self_subgrad x z H) (dot_self_ge0 x) (dot_self_ge0 z). rewrite dot_vscale_l. rops.
  set (sx := Rdot x x). set (sz := Rdot z z). set (xd := Rdot x (Rvsub z x)). intros Hs H0 H1.
  generalize (sqr_ge0 (sz - sx)). nra.
Qed.

Lemma sargan_convex : forall x z, length z = length x ->
  sargan_v Rops z >= sargan_v Rops x + Rdot (sargan_g Rops x) (Rvsub z x).
Proof.
  intros x z H. unfold sargan_v, sargan_g. rewrite dot_vscale_l.
  generalize (dot_self_subgrad x z H) (dot_self_ge0 x) (dot_self_ge0 z). rewrite dot_vscale_l. rops.
  set (sx := Rdot x x). set (sz := Rdot z z). set (xd := Rdot x (Rvsub z x)). intros Hs H0 H1.
  generalize (sqr_ge0 (sz - sx)). nra.
Qed.

(* Zakharov: |x|^2 + v^2 + v^4 with v = x . (1/2, 2/2, ..., n/2) linear *)
Lemma biash_length : forall x, length (biash Rops x) = length x.
Proof. intro x. unfold biash. rewrite map_length. apply bias1_length. Qed.

Lemma biash_same : forall x z, length z = length x -> biash Rops z = biash Rops x.
Proof. intros x z H. unfold biash. now rewrite (bias1_same x z H). Qed.

Lemma zakharov_convex : forall x z, length z = length x ->
  zakharov_v Rops z >= zakharov_v Rops x + Rdot (zakharov_g Rops x) (Rvsub z x).
Proof.
  intros x z H. unfold zakharov_v, zakharov_g. cbv zeta. rewrite (biash_same x z H).
  set (b := biash Rops x). assert (Hb : length b = length x) by apply biash_length.
  rewrite dot_vadd_l by (unfold vscale; rewrite !map_length; lia).
  rewrite !dot_vscale_l, two_R, cstZ_R.
  assert (Hv : Rdot z b = Rdot x b + Rdot b (Rvsub z x)).
  { rewrite (dot_comm b), (dot_vsub_l z x b H). lra. }
  generalize (dot_self_subgrad x z H). rewrite dot_vscale_l. rewrite Hv.
  set (v := Rdot x b). set (e := Rdot b (Rvsub z x)). set (xd := Rdot x (Rvsub z x)). intros Hs. rops.
  generalize (quartic_tangent v (v + e)) (sqr_ge0 e). nra.
Qed.

(* chained LQ: sum over adjacent pairs of max(v1, v2), v2 = v1 + a^2 + b^2 - 1 *)
Lemma lq_pair : forall w a b a' b',
  lq_phi Rops w a' b' >= lq_phi Rops w a b + lq_pa Rops w a b * (a' - a) + lq_pb Rops w a b * (b' - b).
Proof.
  intros w a b a' b'. unfold lq_phi, lq_pa, lq_pb, pmax, lq_v2, lq_v1. rewrite two_R. rops.
  generalize (sqr_ge0 (a' - a)) (sqr_ge0 (b' - b)). rcases; nra.
Qed.

Lemma bias2_same : forall x z, length z = length x -> bias2 Rops z = bias2 Rops x.
Proof. intros x z H. unfold bias2. now rewrite H. Qed.

Lemma chained_lq_convex : forall x z, length z = length x ->
  chained_lq_v Rops z >= chained_lq_v Rops x + Rdot (chained_lq_g Rops x) (Rvsub z x).
Proof.
  intros x z H. unfold chained_lq_v, chained_lq_g. rewrite (bias2_same x z H).
  apply chain_subgrad; [exact lq_pair | exact H].
Qed.

(* ------------------------------------------------------------------------------------------------ *)
(* 6. constraints                                                                                    *)
(* ------------------------------------------------------------------------------------------------ *)
Lemma vsub_vsub : forall z x o, length z = length x -> length o = length x ->
  Rvsub (Rvsub z o) (Rvsub x o) = Rvsub z x.
Proof.
  induction z as [|a z IH]; intros [|b x] [|c o] H1 H2; simpl in *; try discriminate; auto.
  rewrite !vsub_cons. f_equal; [ring | apply IH; lia].
Qed.

(* euclidean ball |x - origin|^2 - radius^2: exact expansion, 2-strongly convex *)
Lemma cons_ball_expand : forall origin radius x z, length z = length x -> length origin = length x ->
  cons_ball_v Rops origin radius z =
  cons_ball_v Rops origin radius x + Rdot (cons_ball_g Rops origin x) (Rvsub z x) + 2 / 2 * Rdot (Rvsub z x) (Rvsub z x).
Proof.
  intros o r x z H1 H2. unfold cons_ball_v, cons_ball_g. rewrite two_R.
  assert (L : length (Rvsub z o) = length (Rvsub x o)) by (rewrite !vsub_length; lia).
  rewrite (dot_expand _ _ L), (vsub_vsub z x o H1 H2). rops. lra.
Qed.

Lemma map2_fst_dot : forall q x d, length d = length x -> Rdot (map2 (fun a _ : R => a) q x) d = Rdot q d.
Proof.
  induction q as [|a q IH]; intros [|u x] [|e d] H; simpl in *; try discriminate; auto.
  rewrite !dot_cons, IH by lia. reflexivity.
Qed.

(* linear q.x + r: affine, the expansion is exact *)
Lemma cons_linear_expand : forall q r x z, length z = length x ->
  cons_linear_v Rops q r z = cons_linear_v Rops q r x + Rdot (cons_linear_g q x) (Rvsub z x).
Proof.
  intros q r x z H. unfold cons_linear_v, cons_linear_g.
  rewrite map2_fst_dot by (apply vsub_length; exact H).
  rewrite (dot_comm q (Rvsub z x)), (dot_vsub_l z x q H), (dot_comm q z), (dot_comm q x). rops. lra.
Qed.

(* ------------------------------------------------------------------------------------------------ *)
(* 7. error rules                                                                                    *)
(* ------------------------------------------------------------------------------------------------ *)
(* argmax = the FIRST index of a largest coefficient (Eigen's maxCoeff(&idx)) *)
Lemma argmax_from_spec : forall o pre best ib,
  (ib < length pre)%nat -> nth ib pre 0 = best ->
  (forall j, (j < length pre)%nat -> nth j pre 0 <= best) ->
  (forall j, (j < ib)%nat -> nth j pre 0 < best) ->
  let r := argmax_from Rops best ib (length pre) o in
  let full := pre ++ o in
  (r < length full)%nat /\ (forall j, (j < length full)%nat -> nth j full 0 <= nth r full 0) /\
  (forall j, (j < r)%nat -> nth j full 0 < nth r full 0).
Proof.
  induction o as [|v o IH]; intros pre best ib Hib Hb Hle Hlt; cbv zeta.
  - simpl. rewrite app_nil_r. rewrite Hb. auto.
  - cbn [argmax_from]. replace (pre ++ v :: o) with ((pre ++ [v]) ++ o) by (rewrite <- app_assoc; reflexivity).
    replace (S (length pre)) with (length (pre ++ [v])) by (rewrite app_length; simpl; lia).
    cbn [o_ltb Rops]. unfold Rltb. destruct (Rlt_dec best v) as [Hbv|Hbv].
    + apply IH.
      * rewrite app_length; simpl; lia.
      * rewrite app_nth2 by lia. now rewrite Nat.sub_diag.
      * intros j Hj. rewrite app_length in Hj; simpl in Hj.
        destruct (Nat.eq_dec j (length pre)) as [->|Hne].
        -- rewrite app_nth2 by lia. rewrite Nat.sub_diag. simpl. lra.
        -- rewrite app_nth1 by lia. specialize (Hle j ltac:(lia)). lra.
      * intros j Hj. rewrite app_nth1 by lia. specialize (Hle j Hj). lra.
    + apply IH.
      * rewrite app_length; simpl; lia.
      * rewrite app_nth1 by lia. exact Hb.
      * intros j Hj. rewrite app_length in Hj; simpl in Hj.
        destruct (Nat.eq_dec j (length pre)) as [->|Hne].
        -- rewrite app_nth2 by lia. rewrite Nat.sub_diag. simpl. lra.
        -- rewrite app_nth1 by lia. apply Hle. lia.
      * intros j Hj. rewrite app_nth1 by lia. now apply Hlt.
Qed.

Lemma argmax_spec : forall o, o <> [] ->
  (argmax Rops o < length o)%nat /\
  (forall j, (j < length o)%nat -> nth j o 0 <= nth (argmax Rops o) o 0) /\
  (forall j, (j < argmax Rops o)%nat -> nth j o 0 < nth (argmax Rops o) o 0).
Proof.
  intros [|v o] Ho; [contradiction|]. unfold argmax.
  apply (argmax_from_spec o [v] v 0%nat); simpl; auto; try lia.
  - intros j Hj. assert (j = 0%nat) by lia. subst. lra.
Qed.

(* the sign rule: one error per coefficient whose edge target * output is below eps *)
Lemma err_count_spec : forall eps t o,
  err_count Rops eps t o = length (filter (fun p => Rltb (fst p * snd p) eps) (combine t o)).
Proof.
  induction t as [|a t IH]; intros [|b o]; simpl; auto.
  cbn [o_ltb o_mul Rops]. destruct (Rltb (a * b) eps); simpl; rewrite IH; reflexivity.
Qed.

(* single-label error: with more than one output it is 0 exactly when the target at the arg-max is positive;
   with one output it is the sign rule *)
Lemma err_sclass_multi : forall eps a b t o,
  err_sclass Rops eps (a :: b :: t) o = (if Rltb 0 (nth (argmax Rops o) (a :: b :: t) 0) then O else S O).
Proof. reflexivity. Qed.

Lemma err_sclass_binary : forall eps a o, err_sclass Rops eps [a] o = err_count Rops eps [a] o.
Proof. reflexivity. Qed.

(* regression error: the L1 distance, non-negative *)
Lemma err_absdiff_nonneg : forall t o, 0 <= err_absdiff Rops t o.
Proof. intros. unfold err_absdiff. apply sum2_nonneg. intros a u. rewrite pabs_R. apply Rabs_pos. Qed.

(* locality: the model of a batch is the per-sample model applied row by row, so sample i's value / gradient / error
   depend on row i only *)
Definition batch_values (kv : R -> R -> R) (ts os : list (list R)) : list R :=
  map (fun p => loss_v Rops kv (fst p) (snd p)) (combine ts os).

Lemma batch_local : forall kv ts os ts' os' i,
  nth i ts [] = nth i ts' [] -> nth i os [] = nth i os' [] ->
  (i < length ts)%nat -> (i < length os)%nat -> (i < length ts')%nat -> (i < length os')%nat ->
  nth i (batch_values kv ts os) 0 = nth i (batch_values kv ts' os') 0.
Proof.
  intros kv ts os ts' os' i Ht Ho H1 H2 H3 H4. unfold batch_values.
  assert (E : forall a b, (i < length a)%nat -> (i < length b)%nat ->
              nth i (map (fun p => loss_v Rops kv (fst p) (snd p)) (combine a b)) 0 = loss_v Rops kv (nth i a []) (nth i b [])).
  { clear. induction i as [|i IH]; intros [|x a] [|y b] Ha Hb; simpl in *; try lia; auto. apply IH; lia. }
  rewrite !E by assumption. now rewrite Ht, Ho.
Qed.

(* exponential: exp(1 + |x|^2/n), strongly convex with the declared coefficient 2/n *)
Lemma fexp_convex : forall x z, length z = length x -> x <> [] ->
  fexp_v z >= fexp_v x + Rdot (fexp_g x) (Rvsub z x) + (2 / INR (length x)) / 2 * Rdot (Rvsub z x) (Rvsub z x).
Proof.
  intros x z H Hx. unfold fexp_g, fexp_v. rewrite H, dot_vscale_l.
  assert (Hn : 0 < INR (length x)) by (apply lt_0_INR; destruct x; [contradiction | simpl; lia]).
  set (n := INR (length x)) in *.
  generalize (dot_expand z x H) (dot_self_ge0 x) (dot_self_ge0 (Rvsub z x)). rewrite dot_vscale_l.
  set (sx := Rdot x x). set (sz := Rdot z z). set (xd := Rdot x (Rvsub z x)). set (dd := Rdot (Rvsub z x) (Rvsub z x)).
  intros Hs H0 Hd. rewrite Hs.
  assert (Hi : 0 < / n) by (apply Rinv_0_lt_compat; exact Hn).
  generalize (exp_tangent (1 + sx / n) (1 + (sx + 2 * xd + dd) / n)) (exp_ineq1_le (1 + sx / n)) (exp_pos (1 + sx / n)).
  set (E := exp (1 + sx / n)). intros Ht He Ep.
  assert (Hu : 0 <= sx / n) by (unfold Rdiv; nra).
  assert (E1 : 1 <= E) by lra.
  assert (Hq : 0 <= dd * / n) by nra.
  assert (Hv : 1 + (sx + 2 * xd + dd) / n - (1 + sx / n) = 2 * xd * / n + dd * / n) by (unfold Rdiv; ring).
  rewrite Hv in Ht.
  assert (Hm : E * (dd * / n) >= dd * / n) by nra.
  unfold Rdiv. nra.
Qed.

(* ------------------------------------------------------------------------------------------------ *)
(* 8. objects declared NOT convex are indeed not convex; the chained CB3 I tie                       *)
(* ------------------------------------------------------------------------------------------------ *)
Ltac evalR := unfold dot, vsub, bias1, bias2; simpl; rops; try rewrite !Rinv_1.
Lemma qing_not_convex : exists x z, length z = length x /\ qing_v Rops z < qing_v Rops x + Rdot (qing_g Rops x) (Rvsub z x).
Proof. exists [0], [1]. split; [reflexivity|]. unfold qing_v, qing_g. evalR. lra. Qed.
Lemma styblinski_not_convex : exists x z, length z = length x /\ styblinski_v Rops z < styblinski_v Rops x + Rdot (styblinski_g Rops x) (Rvsub z x).
Proof. exists [0], [1]. split; [reflexivity|]. unfold styblinski_v, styblinski_g. evalR. lra. Qed.
Lemma rosenbrock_not_convex : exists x z, length z = length x /\ rosenbrock_v Rops z < rosenbrock_v Rops x + Rdot (rosenbrock_g Rops x) (Rvsub z x).
Proof. exists [0; 1], [1; 1]. split; [reflexivity|]. unfold rosenbrock_v, rosenbrock_g, rosen_phi, rosen_pa, rosen_pb. evalR. lra. Qed.
Lemma dixon_not_convex : exists x z, length z = length x /\ dixon_v Rops z < dixon_v Rops x + Rdot (dixon_g Rops x) (Rvsub z x).
Proof. exists [1; 0], [1; /2]. split; [reflexivity|]. unfold dixon_v, dixon_g, dixon_phi, dixon_pa, dixon_pb. evalR. lra. Qed.
(* chained CB3 I BEFORE /repo 114b02b (strict comparisons): on the exact tie v1 = v2 > v3 at (2,-3) the returned vector was the
   gradient of the inactive v3, not a sub-gradient.  Documented fact about the OLD rule [cb3I_g_old]; the current rule is
   proved convex below. *)
Lemma cb3I_old_tie_not_subgradient : exists x z, length z = length x /\ cb3I_v z < cb3I_v x + Rdot (cb3I_g_old x) (Rvsub z x).
Proof.
  exists [2; -3], [2; -2]. split; [reflexivity|].
  unfold cb3I_v, cb3I_g_old, cb3_phi, cb3_pa_old, cb3_pb_old, cb3_p1a, cb3_p1b, cb3_p2a, cb3_p2b, cb3_p3a, cb3_p3b, cb3_v1, cb3_v2, cb3_v3. evalR.
  assert (E5 : 0 < exp (-3 - 2) < 1) by (split; [apply exp_pos | rewrite <- exp_0; apply exp_increasing; lra]).
  assert (E4 : 0 < exp (- (2) + -2) < 1) by (split; [apply exp_pos | rewrite <- exp_0; apply exp_increasing; lra]).
  assert (E5' : 0 < exp (- (2) + -3) < 1) by (split; [apply exp_pos | rewrite <- exp_0; apply exp_increasing; lra]).
  unfold Rltb. repeat match goal with |- context [Rlt_dec ?a ?b] => destruct (Rlt_dec a b) end;
  unfold Rmax in *; repeat match goal with
    | |- context [Rle_dec ?a ?b] => destruct (Rle_dec a b)
    | H : context [Rle_dec ?a ?b] |- _ => destruct (Rle_dec a b) end; lra.
Qed.

(* ---- chained CB3 I / II with the current rule: the gradient of an ACTIVE piece ---- *)
Lemma Rmax3_ge : forall a b c, Rmax a (Rmax b c) >= a /\ Rmax a (Rmax b c) >= b /\ Rmax a (Rmax b c) >= c.
Proof. intros a b c. generalize (Rmax_l a (Rmax b c)) (Rmax_r a (Rmax b c)) (Rmax_l b c) (Rmax_r b c). lra. Qed.

Lemma Rgeb_true : forall a b, Rgeb a b = true -> a >= b.
Proof. intros a b. unfold Rgeb, Rltb. destruct (Rlt_dec a b); simpl; [discriminate | lra]. Qed.
Lemma Rgeb_false : forall a b, Rgeb a b = false -> a < b.
Proof. intros a b. unfold Rgeb, Rltb. destruct (Rlt_dec a b); simpl; [lra | discriminate]. Qed.

(* the three cases of the code: piece 1 is a maximum / piece 2 is / otherwise piece 3 is THE maximum *)
Lemma active_piece : forall v1 v2 v3,
  (Rgeb v1 (Rmax v2 v3) = true /\ Rmax v1 (Rmax v2 v3) = v1) \/
  (Rgeb v1 (Rmax v2 v3) = false /\ Rgeb v2 (Rmax v1 v3) = true /\ Rmax v1 (Rmax v2 v3) = v2) \/
  (Rgeb v1 (Rmax v2 v3) = false /\ Rgeb v2 (Rmax v1 v3) = false /\ Rmax v1 (Rmax v2 v3) = v3).
Proof.
  intros v1 v2 v3.
  destruct (Rgeb v1 (Rmax v2 v3)) eqn:E1.
  - left. split; [reflexivity|]. apply Rgeb_true in E1. apply Rmax_left. lra.
  - right. apply Rgeb_false in E1. destruct (Rgeb v2 (Rmax v1 v3)) eqn:E2.
    + left. apply Rgeb_true in E2. repeat split.
      generalize (Rmax_l v1 v3) (Rmax_r v1 v3). intros. rewrite Rmax_right; [apply Rmax_left; lra|].
      rewrite (Rmax_left v2 v3) by lra. lra.
    + right. apply Rgeb_false in E2. repeat split.
      unfold Rmax in *. repeat match goal with
        | |- context [Rle_dec ?a ?b] => destruct (Rle_dec a b)
        | H : context [Rle_dec ?a ?b] |- _ => destruct (Rle_dec a b) end; lra.
Qed.

Lemma cb3_v1_tangent : forall a b a' b', cb3_v1 a' b' >= cb3_v1 a b + cb3_p1a 0 a b * (a' - a) + cb3_p1b 0 a b * (b' - b).
Proof. intros. unfold cb3_v1, cb3_p1a, cb3_p1b. generalize (quartic_tangent a a') (sqr_ge0 (b' - b)). nra. Qed.
Lemma cb3_v2_tangent : forall a b a' b', cb3_v2 a' b' >= cb3_v2 a b + cb3_p2a 0 a b * (a' - a) + cb3_p2b 0 a b * (b' - b).
Proof. intros. unfold cb3_v2, cb3_p2a, cb3_p2b. generalize (sqr_ge0 (a' - a)) (sqr_ge0 (b' - b)). nra. Qed.
Lemma cb3_v3_tangent : forall a b a' b', cb3_v3 a' b' >= cb3_v3 a b + cb3_p3a 0 a b * (a' - a) + cb3_p3b 0 a b * (b' - b).
Proof.
  intros. unfold cb3_v3, cb3_p3a, cb3_p3b. replace (b - a) with (- a + b) by ring.
  generalize (exp_tangent (- a + b) (- a' + b')). nra.
Qed.

Lemma cb3_pair : forall w a b a' b',
  cb3_phi w a' b' >= cb3_phi w a b + cb3_pa w a b * (a' - a) + cb3_pb w a b * (b' - b).
Proof.
  intros w a b a' b'. unfold cb3_phi, cb3_pa, cb3_pb.
  destruct (Rmax3_ge (cb3_v1 a' b') (cb3_v2 a' b') (cb3_v3 a' b')) as (G1 & G2 & G3).
  destruct (active_piece (cb3_v1 a b) (cb3_v2 a b) (cb3_v3 a b)) as [(E1 & M) | [(E1 & E2 & M) | (E1 & E2 & M)]];
    rewrite M, E1, ?E2.
  - generalize (cb3_v1_tangent a b a' b'). unfold cb3_p1a, cb3_p1b. lra.
  - generalize (cb3_v2_tangent a b a' b'). unfold cb3_p2a, cb3_p2b. lra.
  - generalize (cb3_v3_tangent a b a' b'). unfold cb3_p3a, cb3_p3b. lra.
Qed.

(* the tests of the SOURCE (translated on every run, read over Z) are the tests of the model: on integer-valued pieces they
   select the same branch -- with the strict `>` of the pre-fix code this lemma fails (a = b = c) *)
Lemma cb3_test_bridge : forall a b c, Z.geb a (Z.max b c) = Rgeb (IZR a) (Rmax (IZR b) (IZR c)).
Proof.
  intros a b c.
  assert (M : Rmax (IZR b) (IZR c) = IZR (Z.max b c)).
  { destruct (Z.max_spec b c) as [[H ->]|[H ->]]; [apply Rmax_right | apply Rmax_left]; apply IZR_le; lia. }
  rewrite M. unfold Rgeb, Rltb. destruct (Rlt_dec (IZR a) (IZR (Z.max b c))) as [L|L]; simpl.
  - apply lt_IZR in L. rewrite Z.geb_leb. apply Z.leb_gt. lia.
  - rewrite Z.geb_leb. apply Z.leb_le. apply Rnot_lt_le in L. apply le_IZR in L. lia.
Qed.

Lemma cb3_tests_as_in_source : forall v1 v2 v3,
  src_c06_cb3I_test1 v1 v2 v3 = Rgeb (IZR v1) (Rmax (IZR v2) (IZR v3)) /\
  src_c06_cb3I_test2 v1 v2 v3 = Rgeb (IZR v2) (Rmax (IZR v1) (IZR v3)) /\
  src_c06_cb3II_test1 v1 v2 v3 = Rgeb (IZR v1) (Rmax (IZR v2) (IZR v3)) /\
  src_c06_cb3II_test2 v1 v2 v3 = Rgeb (IZR v2) (Rmax (IZR v1) (IZR v3)).
Proof.
  intros. unfold src_c06_cb3I_test1, src_c06_cb3I_test2, src_c06_cb3II_test1, src_c06_cb3II_test2.
  repeat split; apply cb3_test_bridge.
Qed.

Lemma cb3I_convex : forall x z, length z = length x -> cb3I_v z >= cb3I_v x + Rdot (cb3I_g x) (Rvsub z x).
Proof.
  intros x z H. unfold cb3I_v, cb3I_g. rewrite (bias2_same x z H). apply chain_subgrad; [exact cb3_pair | exact H].
Qed.

(* CB3 II: each of the three sums is convex with its chain gradient; the maximum with the gradient of a maximal sum *)
Lemma cb3_s1_convex : forall x z, length z = length x ->
  cb3_s1 z >= cb3_s1 x + Rdot (chain_g Rops cb3_p1a cb3_p1b 0 (bias2 Rops x) x) (Rvsub z x).
Proof.
  intros x z H. unfold cb3_s1. rewrite (bias2_same x z H).
  apply (chain_subgrad (fun _ a b => cb3_v1 a b) cb3_p1a cb3_p1b); [|exact H]. intros w a b a' b'. apply cb3_v1_tangent.
Qed.
Lemma cb3_s2_convex : forall x z, length z = length x ->
  cb3_s2 z >= cb3_s2 x + Rdot (chain_g Rops cb3_p2a cb3_p2b 0 (bias2 Rops x) x) (Rvsub z x).
Proof.
  intros x z H. unfold cb3_s2. rewrite (bias2_same x z H).
  apply (chain_subgrad (fun _ a b => cb3_v2 a b) cb3_p2a cb3_p2b); [|exact H]. intros w a b a' b'. apply cb3_v2_tangent.
Qed.
Lemma cb3_s3_convex : forall x z, length z = length x ->
  cb3_s3 z >= cb3_s3 x + Rdot (chain_g Rops cb3_p3a cb3_p3b 0 (bias2 Rops x) x) (Rvsub z x).
Proof.
  intros x z H. unfold cb3_s3. rewrite (bias2_same x z H).
  apply (chain_subgrad (fun _ a b => cb3_v3 a b) cb3_p3a cb3_p3b); [|exact H]. intros w a b a' b'. apply cb3_v3_tangent.
Qed.

Lemma cb3II_convex : forall x z, length z = length x -> cb3II_v z >= cb3II_v x + Rdot (cb3II_g x) (Rvsub z x).
Proof.
  intros x z H. unfold cb3II_v, cb3II_g.
  destruct (Rmax3_ge (cb3_s1 z) (cb3_s2 z) (cb3_s3 z)) as (G1 & G2 & G3).
  destruct (active_piece (cb3_s1 x) (cb3_s2 x) (cb3_s3 x)) as [(E1 & M) | [(E1 & E2 & M) | (E1 & E2 & M)]];
    rewrite M, E1, ?E2.
  - generalize (cb3_s1_convex x z H). lra.
  - generalize (cb3_s2_convex x z H). lra.
  - generalize (cb3_s3_convex x z H). lra.
Qed.

(* ------------------------------------------------------------------------------------------------ *)
(* 9. the declarations parsed from the source (generated/Src_c06_flags.v)                            *)
(* ------------------------------------------------------------------------------------------------ *)
Section Declarations.
Import String.
Local Open Scope string_scope.

Definition decl (name : string) : option (string * string * string) :=
  option_map snd (find (fun p => String.eqb (fst p) name) src_c06_flags).

(* object |-> (convex, smooth, strong convexity) exactly as the theorems below assume them; "" = not declared
   (function_t defaults: not convex, not smooth, 0) *)
Definition c06_assumed_flags : list (string * (string * string * string)) := [
  ("cons:constant", ("yes", "yes", "0.0"));
  ("cons:euclidean_ball", ("yes", "yes", "2.0"));
  ("cons:functional", ("constraint.m_function->convex()", "constraint.m_function->smooth()", "constraint.m_function->strong_convexity()"));
  ("cons:linear", ("yes", "yes", "0.0"));
  ("cons:quadratic", ("nano::convex(constraint.m_P)", "yes", "nano::strong_convexity(constraint.m_P)"));
  ("enet-loss:cauchy", ("no", "no", ""));
  ("enet-loss:hinge", ("yes", "no", ""));
  ("enet-loss:logistic", ("yes", "yes", ""));
  ("enet-loss:mae", ("yes", "no", ""));
  ("enet-loss:mse", ("yes", "yes", ""));
  ("fn:axis-ellipsoid", ("yes", "yes", "2.0"));
  ("fn:cauchy", ("no", "yes", ""));
  ("fn:chained_cb3I", ("yes", "no", "0.0"));
  ("fn:chained_cb3II", ("yes", "no", "0.0"));
  ("fn:chained_lq", ("yes", "no", "0.0"));
  ("fn:chung-reynolds", ("yes", "yes", ""));
  ("fn:dixon-price", ("no", "yes", ""));
  ("fn:enet", ("tloss::convex", "m_alpha1==0.0&&tloss::smooth", "m_alpha2"));
  ("fn:exponential", ("yes", "yes", "2.0/static_cast<scalar_t>(size())"));
  ("fn:geometric-optimization", ("yes", "yes", ""));
  ("fn:kinks", ("yes", "no", ""));
  ("fn:maxhilb", ("yes", "no", "0.0"));
  ("fn:maxq", ("yes", "no", "0.0"));
  ("fn:maxquad", ("yes", "no", "0.0"));
  ("fn:powell", ("no", "yes", ""));
  ("fn:qing", ("no", "yes", ""));
  ("fn:quadratic", ("yes", "yes", "nano::strong_convexity(m_A)"));
  ("fn:rosenbrock", ("no", "yes", ""));
  ("fn:rotated-ellipsoid", ("yes", "yes", ""));
  ("fn:sargan", ("yes", "yes", ""));
  ("fn:schumer-steiglitz", ("yes", "yes", ""));
  ("fn:sphere", ("yes", "yes", "2.0"));
  ("fn:styblinski-tang", ("no", "yes", ""));
  ("fn:trid", ("yes", "yes", ""));
  ("fn:zakharov", ("yes", "yes", ""));
  ("loss:cauchy", ("no", "yes", ""));
  ("loss:classnll", ("yes", "yes", ""));
  ("loss:exponential", ("yes", "yes", ""));
  ("loss:hinge", ("yes", "no", ""));
  ("loss:logistic", ("yes", "yes", ""));
  ("loss:mae", ("yes", "no", ""));
  ("loss:mse", ("yes", "yes", ""));
  ("loss:pinball", ("yes", "no", ""));
  ("loss:savage", ("no", "yes", ""));
  ("loss:squared-hinge", ("yes", "yes", ""));
  ("loss:tangent", ("no", "yes", ""));
  ("ml:gboost-bias", ("loss.convex()", "loss.smooth()", ""));
  ("ml:gboost-grads", ("loss.convex()", "loss.smooth()", ""));
  ("ml:gboost-scale", ("loss.convex()", "loss.smooth()", ""));
  ("ml:linear", ("m_loss.convex()", "m_loss.smooth()&&m_l1reg<=0.0", "m_l2reg/static_cast<scalar_t>(m_isize*m_tsize)"));
  ("ml:quadratic-surrogate-fitting-function", ("loss.convex()", "loss.smooth()", ""));
  ("ml:quadratic-surrogate-function", ("no", "yes", ""));
  (* src/function/util.cpp (after /repo 3feb922): the eigenvalues of the SYMMETRIC part decide convexity of 1/2 x'Px *)
  ("util:convex(P)", ("(0.5*(P.matrix()+P.matrix().transpose())).eigenvalues()", "", ""));
  ("util:strong_convexity(P)", ("(0.5*(P.matrix()+P.matrix().transpose())).eigenvalues()", "", ""))].

Lemma flags_as_assumed : src_c06_flags = c06_assumed_flags.
Proof. reflexivity. Qed.

(* every object whose convexity does not depend on a constructor argument, split by the declaration *)
Definition declared_convex : list string := map fst (filter (fun p => String.eqb (fst (fst (snd p))) "yes") src_c06_flags).
Definition declared_nonconvex : list string := map fst (filter (fun p => String.eqb (fst (fst (snd p))) "no") src_c06_flags).
End Declarations.

(* ------------------------------------------------------------------------------------------------ *)
(* 10. statements: a declaration of the source together with what it promises                        *)
(* ------------------------------------------------------------------------------------------------ *)
Definition declares (name c s m : String.string) : Prop := decl name = Some (c, s, m).

(* f(z) >= f(x) + g(x).(z-x) + mu/2 |z-x|^2 for all x, z (of the same dimension) *)
Definition convex_on (f : list R -> R) (g : list R -> list R) (mu : R) : Prop :=
  forall x z, length z = length x -> f z >= f x + Rdot (g x) (Rvsub z x) + mu / 2 * Rdot (Rvsub z x) (Rvsub z x).

(* f(z) = f(x) + g(x).(z-x) + c |z-x|^2: the gradient is the derivative (exact second-order expansion) *)
Definition expands_on (f : list R -> R) (g : list R -> list R) (c : R) : Prop :=
  forall x z, length z = length x -> f z = f x + Rdot (g x) (Rvsub z x) + c * Rdot (Rvsub z x) (Rvsub z x).

Lemma convex0 : forall f g, (forall x z, length z = length x -> f z >= f x + Rdot (g x) (Rvsub z x)) -> convex_on f g 0.
Proof. intros f g H x z Hl. specialize (H x z Hl). lra. Qed.

Import String.
Local Open Scope string_scope.

Lemma s_loss_mse : declares "loss:mse" "yes" "yes" "" /\ forall t, convex_on (loss_v Rops (k_mse_v Rops) t) (loss_g (k_mse_g Rops) t) 0.
Proof.
  split; [reflexivity|]. intro t. apply convex0. apply loss_subgrad. intros a o o'. generalize (k_mse_subgrad a o o') (sqr_ge0 (o' - o)). lra.
Qed.
Lemma s_loss_mae : declares "loss:mae" "yes" "no" "" /\ forall t, convex_on (loss_v Rops (k_mae_v Rops) t) (loss_g (k_mae_g Rops) t) 0.
Proof. split; [reflexivity|]. intro t. apply convex0, loss_subgrad, k_mae_subgrad. Qed.
Lemma s_loss_hinge : declares "loss:hinge" "yes" "no" "" /\ forall t, convex_on (loss_v Rops (k_hinge_v Rops) t) (loss_g (k_hinge_g Rops) t) 0.
Proof. split; [reflexivity|]. intro t. apply convex0, loss_subgrad, k_hinge_subgrad. Qed.
Lemma s_loss_sqhinge : declares "loss:squared-hinge" "yes" "yes" "" /\
  forall t, convex_on (loss_v Rops (k_sqhinge_v Rops) t) (loss_g (k_sqhinge_g Rops) t) 0.
Proof. split; [reflexivity|]. intro t. apply convex0, loss_subgrad, k_sqhinge_subgrad. Qed.
Lemma s_loss_pinball : declares "loss:pinball" "yes" "no" "" /\
  forall alpha, (0 <= alpha <= 1)%R -> forall t, convex_on (loss_v Rops (k_pinball_v Rops alpha) t) (loss_g (k_pinball_g Rops alpha) t) 0.
Proof. split; [reflexivity|]. intros alpha Ha t. apply convex0, loss_subgrad, k_pinball_subgrad, Ha. Qed.
Lemma s_loss_exponential : declares "loss:exponential" "yes" "yes" "" /\
  forall t, convex_on (loss_v Rops kr_exponential_v t) (loss_g kr_exponential_g t) 0.
Proof. split; [reflexivity|]. intro t. apply convex0, loss_subgrad, k_exponential_subgrad. Qed.
Lemma s_loss_logistic : declares "loss:logistic" "yes" "yes" "" /\
  forall t, convex_on (loss_v Rops kr_logistic_v t) (loss_g kr_logistic_g t) 0.
Proof. split; [reflexivity|]. intro t. apply convex0, loss_subgrad, k_logistic_subgrad. Qed.

Lemma s_fn_sphere : declares "fn:sphere" "yes" "yes" "2.0" /\ convex_on (sphere_v Rops) (sphere_g Rops) 2 /\ expands_on (sphere_v Rops) (sphere_g Rops) 1.
Proof. split; [reflexivity|]. split; intros x z H; [apply sphere_convex, H | rewrite (sphere_expand x z H); lra]. Qed.
Lemma s_fn_axis : declares "fn:axis-ellipsoid" "yes" "yes" "2.0" /\ convex_on (axis_v Rops) (axis_g Rops) 2.
Proof. split; [reflexivity|]. intros x z H. apply axis_convex, H. Qed.
Lemma s_fn_schumer : declares "fn:schumer-steiglitz" "yes" "yes" "" /\ convex_on (schumer_v Rops) (schumer_g Rops) 0.
Proof. split; [reflexivity|]. apply convex0, schumer_convex. Qed.
Lemma s_fn_chung : declares "fn:chung-reynolds" "yes" "yes" "" /\ convex_on (chung_v Rops) (chung_g Rops) 0.
Proof. split; [reflexivity|]. apply convex0, chung_convex. Qed.
Lemma s_fn_sargan : declares "fn:sargan" "yes" "yes" "" /\ convex_on (sargan_v Rops) (sargan_g Rops) 0.
Proof. split; [reflexivity|]. apply convex0, sargan_convex. Qed.
Lemma s_fn_zakharov : declares "fn:zakharov" "yes" "yes" "" /\ convex_on (zakharov_v Rops) (zakharov_g Rops) 0.
Proof. split; [reflexivity|]. apply convex0, zakharov_convex. Qed.
Lemma s_fn_chained_lq : declares "fn:chained_lq" "yes" "no" "0.0" /\ convex_on (chained_lq_v Rops) (chained_lq_g Rops) 0.
Proof. split; [reflexivity|]. apply convex0, chained_lq_convex. Qed.

Lemma s_cons_ball : declares "cons:euclidean_ball" "yes" "yes" "2.0" /\
  forall origin radius x z, List.length z = List.length x -> List.length origin = List.length x ->
    cons_ball_v Rops origin radius z =
    (cons_ball_v Rops origin radius x + Rdot (cons_ball_g Rops origin x) (Rvsub z x) + 2 / 2 * Rdot (Rvsub z x) (Rvsub z x))%R.
Proof. split; [reflexivity|]. intros o r x z H E. apply (cons_ball_expand o r x z H E). Qed.
Lemma s_cons_linear : declares "cons:linear" "yes" "yes" "0.0" /\
  forall q r, convex_on (cons_linear_v Rops q r) (cons_linear_g q) 0 /\ expands_on (cons_linear_v Rops q r) (cons_linear_g q) 0.
Proof. split; [reflexivity|]. intros q r. split; intros x z H; rewrite (cons_linear_expand q r x z H); lra. Qed.

(* objects the source declares non-convex: the declaration is accurate (witness pairs) *)
Definition not_convex_on (f : list R -> R) (g : list R -> list R) : Prop :=
  exists x z, List.length z = List.length x /\ (f z < f x + Rdot (g x) (Rvsub z x))%R.

Lemma s_fn_qing : declares "fn:qing" "no" "yes" "" /\ not_convex_on (qing_v Rops) (qing_g Rops).
Proof. split; [reflexivity | exact qing_not_convex]. Qed.
Lemma s_fn_styblinski : declares "fn:styblinski-tang" "no" "yes" "" /\ not_convex_on (styblinski_v Rops) (styblinski_g Rops).
Proof. split; [reflexivity | exact styblinski_not_convex]. Qed.
Lemma s_fn_rosenbrock : declares "fn:rosenbrock" "no" "yes" "" /\ not_convex_on (rosenbrock_v Rops) (rosenbrock_g Rops).
Proof. split; [reflexivity | exact rosenbrock_not_convex]. Qed.
Lemma s_fn_dixon : declares "fn:dixon-price" "no" "yes" "" /\ not_convex_on (dixon_v Rops) (dixon_g Rops).
Proof. split; [reflexivity | exact dixon_not_convex]. Qed.

(* chained CB3 I / II (after /repo 114b02b): declared convex and the returned vector is a sub-gradient everywhere, ties included *)
Lemma s_fn_cb3I : declares "fn:chained_cb3I" "yes" "no" "0.0" /\ convex_on cb3I_v cb3I_g 0.
Proof. split; [reflexivity|]. apply convex0, cb3I_convex. Qed.
Lemma s_fn_cb3II : declares "fn:chained_cb3II" "yes" "no" "0.0" /\ convex_on cb3II_v cb3II_g 0.
Proof. split; [reflexivity|]. apply convex0, cb3II_convex. Qed.
(* the rule before the fix was not a sub-gradient on the tie (2,-3) *)
Lemma s_fn_cb3I_old_rule : ~ convex_on cb3I_v cb3I_g_old 0.
Proof. intros H. destruct cb3I_old_tie_not_subgradient as (x & z & Hl & Hlt). specialize (H x z Hl). lra. Qed.

(* non-negativity of every per-sample loss value (class-NLL excepted: see notes) *)
Lemma s_loss_nonneg :
  (forall t o, 0 <= loss_v Rops (k_mse_v Rops) t o)%R /\ (forall t o, 0 <= loss_v Rops (k_mae_v Rops) t o)%R /\
  (forall t o, 0 <= loss_v Rops (k_hinge_v Rops) t o)%R /\ (forall t o, 0 <= loss_v Rops (k_sqhinge_v Rops) t o)%R /\
  (forall alpha, (0 <= alpha <= 1)%R -> forall t o, 0 <= loss_v Rops (k_pinball_v Rops alpha) t o)%R /\
  (forall t o, 0 <= loss_v Rops kr_exponential_v t o)%R /\ (forall t o, 0 <= loss_v Rops kr_logistic_v t o)%R /\
  (forall t o, 0 <= loss_v Rops kr_cauchy_v t o)%R /\ (forall t o, 0 <= loss_v Rops kr_savage_v t o)%R /\
  (forall t o, 0 <= loss_v Rops kr_tangent_v t o)%R /\ (forall t o, 0 <= err_absdiff Rops t o)%R.
Proof.
  repeat split; intros; try apply err_absdiff_nonneg; unfold loss_v; apply sum2_nonneg; intros;
    first [ apply k_mse_nonneg | apply k_mae_nonneg | apply k_hinge_nonneg | apply k_sqhinge_nonneg | apply k_pinball_nonneg; assumption
          | apply k_exponential_nonneg | apply k_logistic_nonneg | apply k_cauchy_nonneg | apply k_savage_nonneg | apply k_tangent_nonneg ].
Qed.

Lemma s_fn_exponential : declares "fn:exponential" "yes" "yes" "2.0/static_cast<scalar_t>(size())" /\
  forall x z, List.length z = List.length x -> x <> [] ->
    (fexp_v z >= fexp_v x + Rdot (fexp_g x) (Rvsub z x) + (2 / INR (List.length x)) / 2 * Rdot (Rvsub z x) (Rvsub z x))%R.
Proof. split; [reflexivity | exact fexp_convex]. Qed.
