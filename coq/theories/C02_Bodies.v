(* C02 (extension 2) -- proofs about the whole-run models of the sgm / cocob / sda / wda bodies (C02_Bodies_Defs.v).
   Part 1: the skeleton b_run over an ARBITRARY rule (how the next point is computed) and arbitrary oracles:
           termination within the budget, one evaluation and one done() call per pass, the stored triple is an oracle answer,
           the best value never increases, status facts.
   Part 2: the four concrete rules satisfy the hypothesis of part 1 (their loop condition, translated) and what their
           flags mean.
   Part 3: per-body facts that make the iteration well defined (cocob: L >= |g|, reward >= 0, L stays positive;
           sgm / pdsgm: the guard of the division by |g|). *)
From Coq Require Import ZArith List Bool Reals Floats Lra Lia.
From Flocq Require Import Core BinarySingleNaN PrimFloat.
From LNGen Require Import Src_c02 Src_c02b.
From LN Require Import C02_Defs C02_Proofs C02_Bodies_Defs.
Import ListNotations.
Local Open Scope Z_scope.

(* ------------------------------------------------------------------------------------------------------------- *)
(* small facts about update_if_better / done                                                                     *)
(* ------------------------------------------------------------------------------------------------------------- *)
Lemma better_fields s fc gc x g f :
  let s1 := fst (update_if_better s fc gc x g f) in
  sfcalls s1 = fc /\ sgcalls s1 = gc /\ sstatus s1 = sstatus s /\
  ((sx s1 = sx s /\ sfx s1 = sfx s /\ sgx s1 = sgx s) \/ (sx s1 = x /\ sfx s1 = f /\ sgx s1 = g)).
Proof.
  unfold update_if_better. destruct (ffin f); [destruct (PrimFloat.ltb _ _)|]; simpl; auto 10.
Qed.

Lemma done_fields s fc gc i c :
  let s' := fst (done_step s fc gc i c) in
  sfcalls s' = fc /\ sgcalls s' = gc /\ sx s' = sx s /\ sfx s' = sfx s /\ sgx s' = sgx s /\ shist s' = shist s /\
  valid s' = valid s.
Proof. rewrite done_step_spec. destruct (c || negb (i && valid s)); simpl; repeat split; reflexivity. Qed.

Lemma value_test_hist s s' p : shist s' = shist s -> value_test s' p = value_test s p.
Proof. intros H. unfold value_test. rewrite H. reflexivity. Qed.

(* ------------------------------------------------------------------------------------------------------------- *)
(* Part 1: the skeleton over an arbitrary rule                                                                   *)
(* ------------------------------------------------------------------------------------------------------------- *)
Section Generic.
  Variable orc : boracles.
  Variable R : rule.
  Variable cfg : bconf.
  Hypothesis HL : forall fc gc m, r_loop R fc gc m = (fc + gc <? m).

  (* the stored triple is the answer of the oracle to one of the evaluations requested so far, at the stored point *)
  Definition honest (ne : Z) (s : sstate) : Prop :=
    exists k, 0 <= k < ne /\ bo_eval orc k (sx s) = (sfx s, sgx s).

  Record ginv (f0 : PrimFloat.float) (st : brun) : Prop := mkGI {
    gi_fc : br_fc st = br_ne st;
    gi_gc : br_gc st = br_ne st;
    gi_ne : br_ne st = br_iters st + 1;
    gi_it : 0 <= br_iters st;
    gi_dn : br_iters st <= br_dones st <= br_iters st + 1;
    gi_bd : br_fc st + br_gc st <= Z.max 2 (bc_maxev cfg + 1);
    gi_rf : sfcalls (br_s st) <= br_fc st;
    gi_rg : sgcalls (br_s st) <= br_gc st;
    gi_h : honest (br_ne st) (br_s st);
    gi_best : ffin f0 = true -> ffin (sfx (br_s st)) = true /\ PrimFloat.leb (sfx (br_s st)) f0 = true
  }.

  (* the loop goes on: no done() call has stopped yet *)
  Definition goon (st : brun) : Prop :=
    sstatus (br_s st) = ST_MAX_ITERS /\ br_dones st = br_iters st /\ (1 <= br_dones st -> valid (br_s st) = true).

  Definition status_of (r : brun) : Z :=
    if br_conv r && (br_ok r && valid (br_s r)) then ST_CONVERGED else ST_FAILED.

  (* how a run can end *)
  Definition post (r : brun) : Prop :=
    ((br_exit r = BX_FUEL \/ br_exit r = BX_BUDGET) /\ goon r /\
     (br_exit r = BX_BUDGET -> bc_maxev cfg <= br_fc r + br_gc r)) \/
    (br_exit r = BX_DONE /\ 1 <= br_iters r /\ br_dones r = br_iters r /\
     br_conv r = r_conv R (PrimFloat.ltb (value_test (br_s r) (bc_patience cfg)) (bc_eps cfg)) /\
     br_ok r = r_iter_ok R (ffin (fst (bo_eval orc (br_ne r - 1) (a_x (br_a r))))) /\
     (br_conv r || negb (br_ok r && valid (br_s r))) = true /\
     sstatus (br_s r) = status_of r) \/
    (br_exit r = BX_ZERO /\ br_dones r = br_iters r + 1 /\ br_conv r = r_exit_conv R /\
     (exists s0, r_exit R s0 (br_a r) = Some (br_ok r) /\ valid s0 = valid (br_s r)) /\
     sstatus (br_s r) = (if br_conv r || negb (br_ok r && valid (br_s r)) then status_of r else ST_MAX_ITERS)).

  Lemma b_iter_inv f0 st :
    ginv f0 st -> goon st -> br_fc st + br_gc st < bc_maxev cfg ->
    ginv f0 (fst (b_iter orc R cfg st)) /\
    (snd (b_iter orc R cfg st) = false -> goon (fst (b_iter orc R cfg st)) /\ br_exit (fst (b_iter orc R cfg st)) = br_exit st /\
                                br_fc (fst (b_iter orc R cfg st)) + br_gc (fst (b_iter orc R cfg st)) = br_fc st + br_gc st + 2) /\
    (snd (b_iter orc R cfg st) = true -> post (fst (b_iter orc R cfg st)) /\ br_exit (fst (b_iter orc R cfg st)) <> BX_FUEL).
  Proof.
    intros [Hfc Hgc Hne Hit Hdn Hbd Hrf Hrg Hh Hb] (Gs & Gd & Gv) Hlt.
    unfold b_iter. destruct (r_exit R (br_s st) (br_a st)) as [ok0|] eqn:E.
    - (* the zero-sub-gradient exit *)
      pose proof (done_fields (br_s st) (br_fc st) (br_gc st) ok0 (r_exit_conv R)) as DF. cbv zeta in DF.
      destruct DF as (D1 & D2 & D3 & D4 & D5 & D6 & D7).
      assert (ST : sstatus (fst (done_step (br_s st) (br_fc st) (br_gc st) ok0 (r_exit_conv R))) =
                   if r_exit_conv R || negb (ok0 && valid (br_s st))
                   then (if r_exit_conv R && (ok0 && valid (br_s st)) then ST_CONVERGED else ST_FAILED) else ST_MAX_ITERS).
      { rewrite done_step_spec. destruct (r_exit_conv R || negb (ok0 && valid (br_s st))); simpl; auto. }
      destruct (done_step (br_s st) (br_fc st) (br_gc st) ok0 (r_exit_conv R)) as [s' rr] eqn:DS. simpl in *.
      split; [|split; [discriminate|]].
      + constructor; simpl; try lia.
        * destruct Hh as (k & K1 & K2). exists k. rewrite D3, D4, D5. auto.
        * rewrite D4. exact Hb.
      + intros _. split; [|simpl; discriminate]. right. right. simpl. repeat split; try lia.
        * exists (br_s st). split; [exact E|]. symmetry. exact D7.
        * unfold status_of. simpl. rewrite D7. exact ST.
    - (* one evaluation, update_if_better, done *)
      destruct (r_step R (br_a st)) as [x' a1] eqn:ES.
      destruct (bo_eval orc (br_ne st) x') as [f g'] eqn:EE.
      unfold eval_counters. rewrite k_fn_fcalls, k_fn_gcalls. simpl Z.eqb. cbv iota.
      pose proof (better_fields (br_s st) (br_fc st + 1) (br_gc st + 1) x' g' f) as BF. cbv zeta in BF.
      pose proof (better_spec (br_s st) (br_fc st + 1) (br_gc st + 1) x' g' f) as BS.
      destruct (update_if_better (br_s st) (br_fc st + 1) (br_gc st + 1) x' g' f) as [s1 rb] eqn:EU. simpl in BF.
      destruct BF as (B1 & B2 & B3 & B4).
      set (ok := r_iter_ok R (ffin f)).
      set (conv := r_conv R (PrimFloat.ltb (value_test s1 (bc_patience cfg)) (bc_eps cfg))).
      pose proof (done_fields s1 (br_fc st + 1) (br_gc st + 1) ok conv) as DF. cbv zeta in DF.
      destruct DF as (D1 & D2 & D3 & D4 & D5 & D6 & D7).
      pose proof (done_step_spec s1 (br_fc st + 1) (br_gc st + 1) ok conv) as DS.
      destruct (done_step s1 (br_fc st + 1) (br_gc st + 1) ok conv) as [s2 stop] eqn:DE. simpl in *.
      assert (HH : honest (br_ne st + 1) s2).
      { unfold honest. rewrite D3, D4, D5. destruct B4 as [(P1 & P2 & P3)|(P1 & P2 & P3)].
        - destruct Hh as (k & K1 & K2). exists k. rewrite P1, P2, P3. split; [lia|exact K2].
        - exists (br_ne st). rewrite P1, P2, P3. split; [lia|exact EE]. }
      assert (HB : ffin f0 = true -> ffin (sfx s2) = true /\ PrimFloat.leb (sfx s2) f0 = true).
      { intros F0. destruct (Hb F0) as (Fs & Ls). rewrite D4. destruct (BS Fs) as (A1 & A2 & _).
        split; [exact A1|]. apply fin_leb_trans with (b := sfx (br_s st)); auto. }
      split; [|split].
      + constructor; simpl; try lia; auto.
      + intros SF. subst stop.
        destruct (conv || negb (ok && valid s1)) eqn:DD; [inversion DS|].
        inversion DS; subst s2. simpl.
        apply orb_false_iff in DD. destruct DD as (Dc & Dn). apply negb_false_iff in Dn. apply andb_true_iff in Dn.
        destruct Dn as (_ & Vs). repeat split; simpl; try lia; try (intros _; exact Vs); try (rewrite B3; exact Gs).
      + intros SF. subst stop. split; [|simpl; discriminate]. right. left. simpl.
        destruct (conv || negb (ok && valid s1)) eqn:DD; [|inversion DS].
        inversion DS; subst s2. simpl. replace (br_ne st + 1 - 1) with (br_ne st) by lia. rewrite EE. simpl.
        repeat split; try lia; try reflexivity; try exact DD.
  Qed.

  Lemma bset_exit_inv f0 st e : ginv f0 st -> ginv f0 (bset_exit st e).
  Proof. intros [H1 H2 H3 H4 H5 H6 H7 H8 H9 H10]. constructor; simpl; auto. Qed.

  Lemma b_loop_inv f0 : forall fuel st,
    ginv f0 st -> goon st ->
    ginv f0 (b_loop orc R cfg fuel st) /\ post (b_loop orc R cfg fuel st) /\
    (Z.max 0 (bc_maxev cfg - (br_fc st + br_gc st)) < Z.of_nat fuel -> br_exit (b_loop orc R cfg fuel st) <> BX_FUEL).
  Proof.
    induction fuel as [|k IH]; intros st I G.
    - simpl. split; [apply bset_exit_inv; exact I|]. split.
      + left. simpl. split; [left; reflexivity|]. split; [exact G|discriminate].
      + intros H. simpl in H. lia.
    - simpl. rewrite HL. destruct (br_fc st + br_gc st <? bc_maxev cfg) eqn:C.
      + apply Z.ltb_lt in C. destruct (b_iter_inv f0 st I G C) as (I' & GO & ST).
        destruct (b_iter orc R cfg st) as [st' stop] eqn:EI. simpl in *. destruct stop.
        * split; [exact I'|]. split; [apply ST; reflexivity|]. intros _. apply ST. reflexivity.
        * destruct (GO eq_refl) as (G' & EX & CT). destruct (IH st' I' G') as (A & B & D).
          split; [exact A|]. split; [exact B|]. intros H. apply D. lia.
      + apply Z.ltb_ge in C. split; [apply bset_exit_inv; exact I|]. split.
        * left. simpl. split; [right; reflexivity|]. split; [exact G|]. intros _. exact C.
        * simpl. discriminate.
  Qed.

  Lemma b_init_inv x0 :
    ginv (fst (bo_eval orc 0 x0)) (b_init orc R x0) /\ goon (b_init orc R x0) /\
    br_fc (b_init orc R x0) + br_gc (b_init orc R x0) = 2 /\
    sx (br_s (b_init orc R x0)) = x0 /\ sfx (br_s (b_init orc R x0)) = fst (bo_eval orc 0 x0).
  Proof.
    unfold b_init. destruct (bo_eval orc 0 x0) as [f g] eqn:E. unfold eval_counters. rewrite k_fn_fcalls, k_fn_gcalls. simpl.
    split; [|repeat split; simpl; auto; lia].
    constructor; simpl; try lia.
    - exists 0. split; [lia|exact E].
    - intros F. split; [exact F|apply fin_leb_refl; exact F].
  Qed.

  (* ---- the theorems of part 1 ---- *)
  Theorem generic_budget fuel x0 :
    let r := b_run orc R cfg fuel x0 in
    (Z.max 0 (bc_maxev cfg - 2) < Z.of_nat fuel -> br_exit r <> BX_FUEL) /\
    br_fc r = br_ne r /\ br_gc r = br_ne r /\ br_ne r = br_iters r + 1 /\ 0 <= br_iters r /\
    br_iters r <= br_dones r <= br_iters r + 1 /\
    2 <= br_fc r + br_gc r <= Z.max 2 (bc_maxev cfg + 1) /\
    sfcalls (br_s r) <= br_fc r /\ sgcalls (br_s r) <= br_gc r.
  Proof.
    intros r. destruct (b_init_inv x0) as (I & G & N & _).
    destruct (b_loop_inv _ fuel _ I G) as ([H1 H2 H3 H4 H5 H6 H7 H8 H9 H10] & P & F).
    fold (b_run orc R cfg fuel x0) in *. fold r in H1, H2, H3, H4, H5, H6, H7, H8, H9, H10, P, F.
    split; [intros H; apply F; rewrite N; exact H|]. repeat split; try lia; auto.
  Qed.

  Lemma b_fuel_enough : Z.max 0 (bc_maxev cfg - 2) < Z.of_nat (b_fuel cfg).
  Proof. unfold b_fuel. rewrite Nat2Z.inj_succ. destruct (Z_le_gt_dec 0 (bc_maxev cfg)) as [H|H].
    - rewrite Z2Nat.id by exact H. lia.
    - destruct (bc_maxev cfg); simpl; lia. Qed.

  Theorem generic_honest fuel x0 :
    let r := b_run orc R cfg fuel x0 in
    exists k, 0 <= k < br_ne r /\ bo_eval orc k (sx (br_s r)) = (sfx (br_s r), sgx (br_s r)).
  Proof.
    intros r. destruct (b_init_inv x0) as (I & G & _). destruct (b_loop_inv _ fuel _ I G) as (J & _). exact (gi_h _ _ J).
  Qed.

  Theorem generic_best fuel x0 :
    let r := b_run orc R cfg fuel x0 in
    ffin (fst (bo_eval orc 0 x0)) = true ->
    ffin (sfx (br_s r)) = true /\ PrimFloat.leb (sfx (br_s r)) (fst (bo_eval orc 0 x0)) = true.
  Proof.
    intros r. destruct (b_init_inv x0) as (I & G & _). destruct (b_loop_inv _ fuel _ I G) as (J & _). exact (gi_best _ _ J).
  Qed.

  Theorem generic_post fuel x0 : post (b_run orc R cfg fuel x0).
  Proof. destruct (b_init_inv x0) as (I & G & _). destruct (b_loop_inv _ fuel _ I G) as (_ & P & _). exact P. Qed.

  Theorem generic_status fuel x0 :
    let r := b_run orc R cfg fuel x0 in
    let s := br_s r in
    status_ok (sstatus s) /\
    (sstatus s = ST_CONVERGED ->
       valid s = true /\ br_ok r = true /\ br_conv r = true /\ (br_exit r = BX_DONE \/ br_exit r = BX_ZERO)) /\
    (sstatus s = ST_FAILED ->
       1 <= br_dones r /\ (br_exit r = BX_DONE \/ br_exit r = BX_ZERO) /\ (br_ok r = false \/ valid s = false)) /\
    (sstatus s = ST_MAX_ITERS ->
       (br_exit r = BX_BUDGET /\ bc_maxev cfg <= br_fc r + br_gc r \/ br_exit r = BX_FUEL \/
        br_exit r = BX_ZERO /\ br_conv r = false /\ br_ok r = true) /\
       (1 <= br_dones r -> valid s = true)) /\
    (sstatus s <> ST_FAILED -> 1 <= br_dones r -> valid s = true).
  Proof.
    intros r s. subst s. pose proof (generic_post fuel x0) as P. fold r in P. unfold post, status_of in P.
    pose proof (generic_budget fuel x0) as B. cbv zeta in B. fold r in B. destruct B as (_ & _ & _ & _ & It & Dn & _).
    unfold status_ok, ST_MAX_ITERS, ST_CONVERGED, ST_FAILED in *.
    destruct P as [(EX & (Gs & Gd & Gv) & MB)|[(EX & I1 & Dd & Cv & Ok & DD & ST)|(EX & Dd & Cv & (s0 & E0 & V0) & ST)]].
    - rewrite Gs. split; [left; reflexivity|]. split; [intros H; vm_compute in H; discriminate H|].
      split; [intros H; vm_compute in H; discriminate H|]. split.
      + intros _. split; [destruct EX as [EX|EX]; [right; left; exact EX|left; split; [exact EX|exact (MB EX)]]|exact Gv].
      + intros _. exact Gv.
    - rewrite ST. destruct (br_conv r) eqn:C, (br_ok r) eqn:O, (valid (br_s r)) eqn:V; simpl in *;
        repeat split; auto; try discriminate; try lia; try (intros; discriminate); try (intros H; exfalso; apply H; reflexivity).
    - rewrite ST. destruct (br_conv r) eqn:C, (br_ok r) eqn:O, (valid (br_s r)) eqn:V; simpl in *;
        repeat split; auto; try discriminate; try lia; try (intros; discriminate); try (intros H; exfalso; apply H; reflexivity).
  Qed.
End Generic.

(* ------------------------------------------------------------------------------------------------------------- *)
(* Part 2: the four bodies                                                                                       *)
(* ------------------------------------------------------------------------------------------------------------- *)
Lemma rule_loop b orc cfg x0 : forall fc gc m, r_loop (rule_of b orc cfg x0) fc gc m = (fc + gc <? m).
Proof. destruct b; reflexivity. Qed.

Lemma rule_flags b orc cfg x0 :
  (forall v, r_iter_ok (rule_of b orc cfg x0) v = v) /\ (forall v, r_conv (rule_of b orc cfg x0) v = v) /\
  r_exit_conv (rule_of b orc cfg x0) = true.
Proof. destruct b; repeat split; reflexivity. Qed.

Lemma rule_exit b orc cfg x0 s a ok :
  r_exit (rule_of b orc cfg x0) s a = Some ok ->
  b <> BCocob /\ zero_grad (a_g a) = true /\ ok = match b with BSgm => true | _ => valid s end.
Proof.
  destruct b; simpl; try discriminate;
    (unfold src_sgm_zero_exit, src_pdsgm_zero_exit, src_sgm_zero_ok, src_pdsgm_zero_ok;
     destruct (zero_grad (a_g a)); [|discriminate]; intros H; inversion H; repeat split; discriminate).
Qed.

(* what `converged` means for sgm / cocob / sda / wda *)
Theorem bodies_converged b orc cfg fuel x0 :
  let r := body_run b orc cfg fuel x0 in
  let s := br_s r in
  sstatus s = ST_CONVERGED ->
  valid s = true /\
  ((br_exit r = BX_DONE /\ PrimFloat.ltb (value_test s (bc_patience cfg)) (bc_eps cfg) = true /\
    ffin (fst (bo_eval orc (br_ne r - 1) (a_x (br_a r)))) = true) \/
   (br_exit r = BX_ZERO /\ b <> BCocob /\ zero_grad (a_g (br_a r)) = true)).
Proof.
  intros r s. subst s. intros H. unfold body_run in r.
  pose proof (generic_status orc _ cfg (rule_loop b orc cfg x0) fuel x0) as S. cbv zeta in S. fold r in S.
  destruct S as (_ & SC & _). destruct (SC H) as (V & O & C & _).
  pose proof (generic_post orc _ cfg (rule_loop b orc cfg x0) fuel x0) as P. fold r in P. unfold post in P.
  destruct (rule_flags b orc cfg x0) as (FI & FC & _).
  split; [exact V|].
  destruct P as [(_ & (Gs & _) & _)|[(EX & _ & _ & Cv & Ok & _)|(EX & _ & _ & (s0 & E0 & _) & _)]].
  - rewrite Gs in H. discriminate.
  - left. rewrite FC in Cv. rewrite FI in Ok. rewrite <- Cv, <- Ok. auto.
  - right. destruct (rule_exit _ _ _ _ _ _ _ E0) as (NB & Z & _). auto.
Qed.

(* ------------------------------------------------------------------------------------------------------------- *)
(* Part 3: per-body facts                                                                                        *)
(* ------------------------------------------------------------------------------------------------------------- *)
Lemma ltb_irrefl a : PrimFloat.ltb a a = false.
Proof.
  rewrite ltb_equiv. unfold Bltb, SFltb.
  destruct (Prim2B a) as [s|s| |s m e B]; simpl; try (destruct s; reflexivity); try reflexivity.
  destruct s; rewrite Z.compare_refl, Pos.compare_cont_refl; reflexivity.
Qed.

(* truncated zip *)
Fixpoint zipP (P : PrimFloat.float -> PrimFloat.float -> Prop) (a b : bpoint) : Prop :=
  match a, b with
  | x :: a', y :: b' => P x y /\ zipP P a' b'
  | _, _ => True
  end.

(* cocob: after `L = max(L, |gx|)` no component of L is below the corresponding |gx| (whatever the values, NaN included:
   the comparison `L_i < |g_i|` is false) *)
Lemma cocob_L_ge : forall L g, zipP (fun l gi => PrimFloat.ltb l (fabs gi) = false) (cocob_L L g) g.
Proof.
  induction L as [|l L IH]; intros [|gi g]; simpl; auto. split; [|apply IH].
  unfold fmax. destruct (PrimFloat.ltb l (fabs gi)) eqn:E; [apply ltb_irrefl|exact E].
Qed.

(* cocob: no component of the reward is negative *)
Lemma cocob_reward_nonneg : forall rw x x0 g, Forall (fun r => PrimFloat.ltb r PrimFloat.zero = false) (cocob_reward rw x x0 g).
Proof.
  induction rw as [|r rw IH]; intros [|xi x] [|x0i x0] [|gi g]; simpl; try constructor.
  - unfold fmax. set (v := PrimFloat.sub r _). destruct (PrimFloat.ltb v PrimFloat.zero) eqn:E; [reflexivity|exact E].
  - apply IH.
Qed.

(* cocob: a positive finite L_i stays positive (and finite when |g_i| is): the divisions by L_i and G_i + L_i never divide
   by zero as long as the sub-gradients are finite *)
Lemma fmax_pos l a :
  PrimFloat.is_finite l = true -> PrimFloat.is_finite a = true -> PrimFloat.ltb PrimFloat.zero l = true ->
  PrimFloat.is_finite (fmax l a) = true /\ PrimFloat.ltb PrimFloat.zero (fmax l a) = true /\ PrimFloat.leb l (fmax l a) = true.
Proof.
  intros Fl Fa P. unfold fmax. destruct (PrimFloat.ltb l a) eqn:E.
  - split; [exact Fa|]. assert (F0 : PrimFloat.is_finite PrimFloat.zero = true) by reflexivity.
    apply (fin_ltb _ _ Fl Fa) in E. apply (fin_ltb _ _ F0 Fl) in P. split.
    + apply (fin_ltb _ _ F0 Fa). lra.
    + apply (fin_leb _ _ Fl Fa). lra.
  - split; [exact Fl|]. split; [exact P|apply fin_leb_refl; exact Fl].
Qed.

Lemma cocob_L_pos : forall L g,
  Forall (fun l => PrimFloat.is_finite l = true /\ PrimFloat.ltb PrimFloat.zero l = true) L ->
  Forall (fun gi => PrimFloat.is_finite gi = true) g ->
  Forall (fun l => PrimFloat.is_finite l = true /\ PrimFloat.ltb PrimFloat.zero l = true) (cocob_L L g).
Proof.
  induction L as [|l L IH]; intros [|gi g] HL Hg; simpl; try constructor.
  - inversion HL; subst. inversion Hg; subst. destruct H1 as (Fl & Pl).
    assert (Fa : PrimFloat.is_finite (fabs gi) = true).
    { unfold fabs. rewrite is_finite_equiv, abs_equiv, is_finite_Babs, <- is_finite_equiv. exact H3. }
    destruct (fmax_pos l (fabs gi) Fl Fa Pl) as (A & B & _). auto.
  - inversion HL; subst. inversion Hg; subst. apply IH; auto.
Qed.

(* sgm / sda / wda: the guard of `g / |g|`.  On the executed path (the zero-sub-gradient exit not taken) max|g_i| is not below
   DBL_EPSILON; hence whenever the recorded 2-norm is a finite number not below max|g_i| (true of the real reduction: every
   partial sum of squares is at least one square, and sqrt(fl(v*v)) = |v|; checked on every recorded norm) it is positive *)
Lemma guard_norm_pos g nrm :
  zero_grad g = false -> PrimFloat.is_finite (maxabs g) = true -> PrimFloat.is_finite nrm = true ->
  PrimFloat.leb (maxabs g) nrm = true -> PrimFloat.ltb PrimFloat.zero nrm = true.
Proof.
  unfold zero_grad. intros Z Fm Fn L.
  assert (F0 : PrimFloat.is_finite PrimFloat.zero = true) by reflexivity.
  assert (Fe : PrimFloat.is_finite f_eps = true) by reflexivity.
  assert (E0 : PrimFloat.ltb PrimFloat.zero f_eps = true) by reflexivity.
  apply (fin_ltb _ _ F0 Fe) in E0. apply (fin_leb _ _ Fm Fn) in L.
  assert (NL : ~ (FR (maxabs g) < FR f_eps)%R).
  { intros H. apply (fin_ltb _ _ Fm Fe) in H. rewrite H in Z. discriminate. }
  apply (fin_ltb _ _ F0 Fn). lra.
Qed.

(* the executed path of sgm / pdsgm: r_exit = None means the guard held *)
Lemma rule_no_exit b orc cfg x0 s a :
  b <> BCocob -> r_exit (rule_of b orc cfg x0) s a = None -> zero_grad (a_g a) = false.
Proof.
  destruct b; simpl; intros NB; try (exfalso; apply NB; reflexivity);
    unfold src_sgm_zero_exit, src_pdsgm_zero_exit; destruct (zero_grad (a_g a)); auto; discriminate.
Qed.
