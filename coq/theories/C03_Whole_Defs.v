(* C03, extension WHOLE -- ONE executable exact-rational model of a whole RQB / FPBA run: the abstract oracles of
   C03_Loops_Defs.v ([ask], [serious], [nullstep], [momentum], [prox_of], [valid_of]) are INSTANTIATED with
     * the bundle operations of C03_Defs.v: bundle_t::solve = [step .. (OSolve ..)] (sizes 1, 2 computed, larger sizes: the QP
       answer is an oracle), bundle_t::append / moveto = [step .. (OAppend ..)] (delete_inactive, delete_largest with the
       surviving rows as an oracle, aggregation, the serious / null formulas) -- the model REJECTS an append issued on
       multipliers that were not recomputed ([w_rej]) and records an append that leaves size() >= capacity() ([w_over]: the
       library's assert(m_size < capacity()) fails, the next append writes behind the buffers);
     * a first-order oracle [ev]: the point evaluated (y = bundle.proximal(miu / t), in binary64 its rounding), a
       sub-gradient there and the value;
     * proximal / delta / smeared_e / smeared_s / econverged / sconverged of C03_Defs.v for the operands of the tests of the
       curve search, proximity_t::update (both overloads) and the Nesterov sequence of C03_Loops_Defs.v.
   What remains an oracle: the QP answer [qp], the surviving rows [kp], the function [ev], the square root of the Nesterov
   update [sq].  They are indexed by the number of answers consumed so far, so that every history is covered.
   No proofs here. *)
From Coq Require Import List ZArith QArith Qabs Bool.
From LN Require Import C03_Defs C03_Loops_Defs.
From LNGen Require Import Src_c03.
Import ListNotations.
Local Open Scope Q_scope.

(* one answer of the first-order oracle *)
Record evald := mk_ev { e_y : vec; e_g : vec; e_f : Q }.

(* everything the loops of rqb.cpp / fpba.cpp hold besides state.fx(), proximity.miu() and the evaluation counter (those
   are fields of [ost]):  bundle, bundle.gx(), csearch's member point (m_y, m_gy, m_fy), RQB's Gn, FPBA's sequence object,
   state.x() / state.fx() as FPBA's update_if_better leaves them; the counters of oracle answers consumed; the two flags;
   a ghost log of the centres of all serious steps (newest first) *)
Record wst := mk_w {
  w_b : bundle; w_gx : vec; w_pt : evald;
  w_nqp : nat; w_nkp : nat; w_nev : nat; w_nsq : nat;
  w_Gn : vec; w_seq : nest; w_sx : vec; w_sfx : Q;
  w_rej : bool; w_over : bool; w_log : list vec }.

Section Whole.
  Variable eps0 : Q.                            (* epsilon0<scalar_t>() *)
  Variable tol : Q.                             (* epsilon * sqrt(n), taken from the run *)
  Variable mdn : Q.                             (* proximity: min_dot_nuv *)
  Variable two : bool.                          (* FPBA: nesterov_sequence2_t *)
  Variable qp : nat -> bundle -> Q -> list Q.   (* k-th call of bundle_t::solve: the answer of the QP solver (used for > 2 rows) *)
  Variable kp : nat -> bundle -> list nat.      (* k-th append: the rows that survive delete_largest (used when it fires) *)
  Variable ev : nat -> vec -> evald.            (* k-th evaluation, asked at y *)
  Variable sq : nat -> Q.                       (* k-th sequence update: std::sqrt(1 + 4 lambda^2) *)

  (* bundle.solve(miu / t) *)
  Definition w_solve (w : wst) (mt : Q) : wst :=
    match step eps0 (w_b w) (OSolve mt (qp (w_nqp w) (w_b w) mt)) with
    | Some b' => mk_w b' (w_gx w) (w_pt w) (S (w_nqp w)) (w_nkp w) (w_nev w) (w_nsq w) (w_Gn w) (w_seq w) (w_sx w) (w_sfx w)
                   (w_rej w) (w_over w) (w_log w)
    | None => mk_w (w_b w) (w_gx w) (w_pt w) (S (w_nqp w)) (w_nkp w) (w_nev w) (w_nsq w) (w_Gn w) (w_seq w) (w_sx w) (w_sfx w)
                   true (w_over w) (w_log w)
    end.

  (* one pass of csearch_t::search up to the tests: solve, y = proximal, fy = vgrad(y, gy), the operands *)
  Definition w_ask (w : wst) (mt : Q) : wst * cs_ans :=
    let w1 := w_solve w mt in
    let b := w_b w1 in
    let e := ev (w_nev w1) (proximal mt b) in
    let s := smeared_s (bn b) (bcuts b) (balpha b) in
    let d := vsub (e_y e) (bx b) in
    (mk_w b (w_gx w1) e (w_nqp w1) (w_nkp w1) (S (w_nev w1)) (w_nsq w1) (w_Gn w1) (w_seq w1) (w_sx w1) (w_sfx w1)
       (w_rej w1) (w_over w1) (w_log w1),
     mk_ans true (bfx b) (e_f e) (smeared_e (bcuts b) (balpha b)) (delta mt b) (econv tol b) (sconv tol b)
       (dot (e_g e) d) (dot s d)).

  (* bundle.moveto(e) / bundle.append(e): which flag each of them passes to append(.., serious_step) is read from bundle.cpp *)
  Definition w_append (serious : bool) (e : evald) (w : wst) : wst :=
    let b := w_b w in
    match step eps0 b (OAppend serious (kp (w_nkp w) b) (e_y e) (e_g e) (e_f e)) with
    | Some b' => mk_w b' (if serious then e_g e else w_gx w) (w_pt w) (w_nqp w) (S (w_nkp w)) (w_nev w) (w_nsq w) (w_Gn w) (w_seq w)
                   (w_sx w) (w_sfx w) (w_rej w)
                   (w_over w || Z.leb (bcap b) (Z.of_nat (length (bcuts b'))))
                   (if serious then e_y e :: w_log w else w_log w)
    | None => mk_w b (w_gx w) (w_pt w) (w_nqp w) (S (w_nkp w)) (w_nev w) (w_nsq w) (w_Gn w) (w_seq w) (w_sx w) (w_sfx w)
                   true (w_over w) (w_log w)
    end.

  Definition w_set_state (w : wst) (Gn : vec) (seq : nest) (sx : vec) (sfx : Q) : wst :=
    mk_w (w_b w) (w_gx w) (w_pt w) (w_nqp w) (w_nkp w) (w_nev w) (w_nsq w) Gn seq sx sfx (w_rej w) (w_over w) (w_log w).

  (* RQB, descent / cutting-plane branch: Gn = bundle.smeared_s() (of the bundle before the move); bundle.moveto(y, gy, fy);
     state.update(y, gy, fy) -- with (y, gy, fy) the member point of the curve search *)
  Definition w_serious (w : wst) (fy : Q) : wst :=
    let b := w_b w in
    let Gn1 := smeared_s (bn b) (bcuts b) (balpha b) in
    let w1 := w_append src_c03_moveto_serious (w_pt w) w in
    w_set_state w1 Gn1 (w_seq w1) (e_y (w_pt w)) (e_f (w_pt w)).

  (* null-step branch of both solvers: bundle.append(y, gy, fy) *)
  Definition w_null (w : wst) : wst := w_append src_c03_append_serious (w_pt w) w.

  (* proximity.update(t, bundle.x(), y, bundle.gx(), gy, Gn, Gn1) with Gn1 = bundle.smeared_s()  (RQB, descent step) *)
  Definition w_prox2 (w : wst) (t miu : Q) : Q :=
    let b := w_b w in
    prox_update2 miu mdn t (bx b) (e_y (w_pt w)) (w_gx w) (e_g (w_pt w)) (w_Gn w) (smeared_s (bn b) (bcuts b) (balpha b)).
  (* proximity.update(t, bundle.x(), y, bundle.gx(), gy)  (FPBA, descent step) *)
  Definition w_prox1 (w : wst) (t miu : Q) : Q :=
    prox_update1 miu mdn t (bx (w_b w)) (e_y (w_pt w)) (w_gx w) (e_g (w_pt w)).

  (* FPBA, apply_nesterov_sequence(z = y, gy, fy): state.update_if_better(z); x = sequence.update(z); fx = vgrad(x, gx);
     bundle.moveto(x, gx, fx); if (!state.update_if_better(x, gx, fx)) sequence.reset().
     [best] is state.fx() after the first update_if_better (computed by fpba_iter) *)
  Definition w_momentum (w : wst) (best : Q) : wst * option Q :=
    let z := w_pt w in
    let zb := Qltb 0 (w_sfx w - e_f z) in
    let sx1 := if zb then e_y z else w_sx w in
    let sfx1 := if zb then e_f z else w_sfx w in
    let sq1 := nest_update two (sq (w_nsq w)) (w_seq w) (e_y z) in
    let e := ev (w_nev w) (n_x sq1) in
    let w1 := w_append src_c03_moveto_serious e
                (mk_w (w_b w) (w_gx w) (w_pt w) (w_nqp w) (w_nkp w) (S (w_nev w)) (S (w_nsq w)) (w_Gn w) sq1 sx1 sfx1
                   (w_rej w) (w_over w) (w_log w)) in
    let xb := Qltb 0 (sfx1 - e_f e) in
    (w_set_state w1 (w_Gn w1) (if xb then sq1 else nest_reset sq1) (if xb then e_y e else sx1) (if xb then e_f e else sfx1),
     Some (e_f e)).

  (* state.valid(): the objective is total and finite over the rationals *)
  Definition w_valid (w : wst) : bool := true.

  (* solver_state_t{function, x0}; bundle_t::make(state, ..); Gn = state.gx(); tsequence{state} *)
  Definition w_init (n : nat) (max_size : Z) (x0 : vec) : wst :=
    let e0 := ev 0 x0 in
    mk_w (init n max_size (e_y e0) (e_g e0) (e_f e0)) (e_g e0) e0 0 0 1 0 (e_g e0) (mk_nest 1 (e_y e0) (e_y e0)) (e_y e0) (e_f e0)
      false false [].
  (* proximity_t::make: miu0 from the first evaluation; the loops start with one evaluation made ([calls0] = its cost) *)
  Definition w_start (n : nat) (max_size : Z) (x0 : vec) (lo hi : Q) (calls0 : Z) : ost wst :=
    let w0 := w_init n max_size x0 in
    mk_ost w0 calls0 (e_f (w_pt w0)) (prox_miu0 eps0 lo hi (e_g (w_pt w0)) (e_f (w_pt w0))) src_c03_cs_st_init 1 None.

  (* the two solvers; the member status is reset at the start of every call (repo 31bf93f) *)
  Definition whole_rqb_iter := rqb_iter wst w_ask w_valid w_prox2 w_serious w_null cs_reset.
  Definition whole_fpba_iter := fpba_iter wst w_ask w_valid w_prox1 w_null w_momentum cs_reset.
  Definition whole_rqb := rqb_run wst w_ask w_valid w_prox2 w_serious w_null cs_reset.
  Definition whole_fpba := fpba_run wst w_ask w_valid w_prox1 w_null w_momentum cs_reset.
End Whole.

(* ---- the instance that replays a recorded run: the oracles are the lists of recorded answers ------------------------------- *)
Definition tp_qp (l : list (list Q)) (k : nat) (b : bundle) (mt : Q) : list Q := nth k l [].
Definition tp_kp (l : list (list nat)) (k : nat) (b : bundle) : list nat := nth k l [].
Definition tp_ev (l : list evald) (k : nat) (y : vec) : evald := nth k l (mk_ev [] [] 0).
Definition tp_sq (l : list Q) (k : nat) : Q := nth k l 0.
(* the model's own trial point of the k-th evaluation is not part of the result: recompute it for the comparison with the
   recorded one (the driver checks |proximal - y_recorded| on the final bundle only through the centres) *)
Definition replay_rqb (eps0 tol mdn : Q) (qps : list (list Q)) (kps : list (list nat)) (evs : list evald)
           (n : nat) (max_size : Z) (x0 : vec) (miu0 : Q) (calls0 : Z) (P : cs_params) (M : Z) : ores wst :=
  let w0 := w_init (tp_ev evs) n max_size x0 in
  whole_rqb eps0 tol mdn (tp_qp qps) (tp_kp kps) (tp_ev evs) P M
    (mk_ost w0 calls0 (e_f (w_pt w0)) miu0 src_c03_cs_st_init 1 None).
Definition replay_fpba (eps0 tol mdn : Q) (two : bool) (qps : list (list Q)) (kps : list (list nat)) (evs : list evald) (sqs : list Q)
           (n : nat) (max_size : Z) (x0 : vec) (miu0 : Q) (calls0 : Z) (P : cs_params) (M : Z) : ores wst :=
  let w0 := w_init (tp_ev evs) n max_size x0 in
  whole_fpba eps0 tol mdn two (tp_qp qps) (tp_kp kps) (tp_ev evs) (tp_sq sqs) P M
    (mk_ost w0 calls0 (e_f (w_pt w0)) miu0 src_c03_cs_st_init 1 None).
