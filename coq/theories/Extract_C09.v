(* extraction of the executable C09 model. Z / positive are mapped to Zarith big integers (ExtrOcamlZBigInt):
   the exact objective of 200 samples of full-mantissa doubles has numerators of thousands of bits. *)
From Coq Require Import List ZArith QArith Extraction ExtrOcamlBasic ExtrOcamlZBigInt.
From LN Require Import C17_Defs C09_Defs C09_Real_Defs.
Extraction Language OCaml.
Extraction "extracted/c09_model.ml" chunks chunks_inline inline_schedule schedule_okb sort_chunks
  map_reduce reduced_mean naive_mean run_writes
  loss_of_Z loss_value loss_vgrad
  lin_W lin_b lin_wflat lin_out lin_terms lin_value lin_grad lin_naive_value
  bias_value bias_grad bias_naive_value
  scale_out scale_value scale_grad scale_naive_value
  grads_value grads_grad grads_vbuf grads_gbuf grads_naive_value
  fill_cache deliver deliver_targets slice
  qlt qabs qsign qmax0 qsum dot
  Qred Qplus Qminus Qmult Qdiv Qopp Qle_bool Qeq_bool inject_Z
  (* extension: the proved floating-point re-association bound in exact rational arithmetic *)
  gammaQ fp_mean_bound fp_mean_okb fp_pair_okb.
