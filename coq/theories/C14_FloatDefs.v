(* C14 (extension) -- the binary64 twin of the scalar code of src/dataset/stats.cpp.

   Every floating-point expression of update() / done() / scale / upscale / make_scaling / nano::upscale is written ONCE
   as a polymorphic "shape" over a record of operations ([ops A]); the shape is instantiated
     - with the IEEE-754 binary64 operations of Coq's primitive floats ([fops]): the executable twin, extracted to OCaml
       and compared BIT FOR BIT with the library on every run (scalar code, round-to-nearest-even, no FMA);
     - with the integer operations ([zops]): C14_Float.v proves by reflexivity that this instance IS the kernel that
       tools/translate.py regenerates from the source on every run (LNGen.Src_dstatsf), so a changed field, operator or
       association in stats.cpp breaks the proof;
     - with the real-number operations followed by the rounding operator of the standard model ([rops], in C14_Float.v):
       the object of the error-bound theorems; the bridge lemmas show that the twin computes exactly that on finite values.
   No proofs here. *)
From Coq Require Import ZArith Bool List Floats.
From LNGen Require Import Src_dstats Src_dstatsf.
From LN Require Import C14_Defs.
Import ListNotations.

Record ops (A : Type) := mkops {
  o_add : A -> A -> A; o_sub : A -> A -> A; o_mul : A -> A -> A; o_div : A -> A -> A;
  o_neg : A -> A; o_max : A -> A -> A }.
Arguments mkops {A}. Arguments o_add {A}. Arguments o_sub {A}. Arguments o_mul {A}. Arguments o_div {A}. Arguments o_neg {A}. Arguments o_max {A}.

(* ---- shapes --------------------------------------------------------------------------------------------------------- *)
Section Shapes.
Context {A : Type} (o : ops A).

(* scalar_stats_t::scale, before nan2zero *)
Definition scale_shape (m : mode) (x mean mn dr ds : A) : A :=
  match m with
  | MNone => x
  | MMean => o_mul o (o_sub o x mean) dr
  | MMinMax => o_mul o (o_sub o x mn) dr
  | MStandard => o_mul o (o_sub o x mean) ds
  end.

(* scalar_stats_t::upscale *)
Definition upscale_shape (m : mode) (y mean mn mr ms : A) : A :=
  match m with
  | MNone => y
  | MMean => o_add o mean (o_mul o y mr)
  | MMinMax => o_add o mn (o_mul o y mr)
  | MStandard => o_add o mean (o_mul o y ms)
  end.

(* update(): the running sums *)
Definition upd_sum_shape (sum v : A) : A := o_add o sum v.
Definition upd_sq_shape (sq v : A) : A := o_add o sq (o_mul o v v).

(* done(), branch N > 1 ([sum] = running sum still stored in m_mean, [sq] = running sum of squares still stored in m_stdev) *)
Definition var_shape (one zero sq sum dN : A) : A :=
  o_max o (o_div o (o_sub o sq (o_div o (o_mul o sum sum) dN)) (o_sub o dN one)) zero.
Definition mean_shape (sum dN : A) : A := o_div o sum dN.
Definition mul_range_shape (mx mn eps : A) : A := o_max o (o_sub o mx mn) eps.
Definition div_range_shape (one mx mn eps : A) : A := o_div o one (o_max o (o_sub o mx mn) eps).
Definition mul_stdev_shape (sd eps : A) : A := o_max o sd eps.
Definition div_stdev_shape (one sd eps : A) : A := o_div o one (o_max o sd eps).

(* make_scaling: x -> w * x + b *)
Definition mk_w_shape (one : A) (m : mode) (dr ds : A) : A :=
  match m with MNone => one | MMean => dr | MMinMax => dr | MStandard => ds end.
Definition mk_b_shape (zero : A) (m : mode) (mean mn dr ds : A) : A :=
  match m with
  | MNone => zero
  | MMean => o_mul o (o_neg o mean) dr
  | MMinMax => o_mul o (o_neg o mn) dr
  | MStandard => o_mul o (o_neg o mean) ds
  end.

(* nano::upscale: one weight, and the bias given the matrix-vector product W . flatten_b of that output *)
Definition up_w_shape (w tw fw : A) : A := o_mul o (o_div o w tw) fw.
Definition up_b_shape (dotwfb b tb tw : A) : A := o_div o (o_sub o (o_add o dotwfb b) tb) tw.
End Shapes.

(* ---- the integer instance (target of the translated kernels) ------------------------------------------------------------ *)
Definition zops : ops Z := mkops Z.add Z.sub Z.mul Z.quot Z.opp Z.max.

(* ---- the binary64 instance ------------------------------------------------------------------------------------------------ *)
(* std::max(a, b) = (a < b) ? b : a   (a NaN first argument is returned as is) *)
Definition fmax_cpp (a b : float) : float := if PrimFloat.ltb a b then b else a.
Definition fmin_cpp (a b : float) : float := if PrimFloat.ltb b a then b else a.
Definition fops : ops float := mkops PrimFloat.add PrimFloat.sub PrimFloat.mul PrimFloat.div PrimFloat.opp fmax_cpp.

Definition fzero : float := 0%float.
Definition fone : float := 1%float.

Record fstats := mkfstats { f_n : Z; f_min : float; f_max : float; f_mean : float; f_stdev : float;
                            f_div_range : float; f_mul_range : float; f_div_stdev : float; f_mul_stdev : float }.

Definition fstats_off (n : Z) : fstats := mkfstats n fzero fzero fzero fzero fone fone fone fone.

(* scale = affine map, then nan2zero: `if (!std::isfinite(value)) value = 0.0` *)
Definition nan2zero (y : float) : float := if PrimFloat.is_finite y then y else fzero.
Definition fscale_raw (m : mode) (s : fstats) (x : float) : float :=
  scale_shape fops m x (f_mean s) (f_min s) (f_div_range s) (f_div_stdev s).
Definition fscale_one (m : mode) (s : fstats) (x : float) : float := nan2zero (fscale_raw m s x).
Definition fupscale_one (m : mode) (s : fstats) (y : float) : float :=
  upscale_shape fops m y (f_mean s) (f_min s) (f_mul_range s) (f_mul_stdev s).

(* the offset / divisor / multiplier a mode uses *)
Definition f_off (m : mode) (s : fstats) : float :=
  match m with MNone => fzero | MMinMax => f_min s | _ => f_mean s end.
Definition f_div (m : mode) (s : fstats) : float :=
  match m with MNone => fone | MStandard => f_div_stdev s | _ => f_div_range s end.
Definition f_mul (m : mode) (s : fstats) : float :=
  match m with MNone => fone | MStandard => f_mul_stdev s | _ => f_mul_range s end.

(* "no overflow in the intermediate results": every input and every intermediate of upscale(scale(x)) is finite *)
Definition chain_finite (m : mode) (s : fstats) (x : float) : bool :=
  let d := PrimFloat.sub x (f_off m s) in
  let y := PrimFloat.mul d (f_div m s) in
  let p := PrimFloat.mul y (f_mul m s) in
  PrimFloat.is_finite x && PrimFloat.is_finite (f_off m s) && PrimFloat.is_finite (f_div m s) &&
  PrimFloat.is_finite (f_mul m s) && PrimFloat.is_finite d && PrimFloat.is_finite y && PrimFloat.is_finite p &&
  PrimFloat.is_finite (PrimFloat.add (f_off m s) p).

(* ---- update() / done() ------------------------------------------------------------------------------------------------------ *)
Record facc := mkfacc { fa_n : Z; fa_sum : float; fa_sq : float; fa_min : float; fa_max : float }.

Definition facc0 (big : float) : facc := mkfacc 0 fzero fzero big (PrimFloat.opp big).

Definition fupdate1 (a : facc) (v : float) : facc :=
  if PrimFloat.is_finite v then
    mkfacc (fa_n a + src_c14_count_inc)%Z (upd_sum_shape fops (fa_sum a) v) (upd_sq_shape fops (fa_sq a) v)
           (fmin_cpp (fa_min a) v) (fmax_cpp (fa_max a) v)
  else a.

Definition faccumulate (a : facc) (col : list float) : facc := fold_left fupdate1 col a.

(* static_cast<scalar_t>(N) for 0 <= N < 2^63 (exact below 2^53) *)
Definition float_of_count (n : Z) : float := PrimFloat.of_uint63 (Uint63.of_Z n).

(* done() for column [i] of [esize] flags with flag [eflag]; the statements are in the order of the code: the standard
   deviation is computed from the running sums BEFORE m_mean is divided, the (de)normalisers from the new m_stdev *)
Definition fdone (eps : float) (i esize eflag : Z) (a : facc) : fstats :=
  let N := fa_n a in
  let st :=
    if src_c14_many N then
      let dN := float_of_count N in
      let sd := PrimFloat.sqrt (var_shape fops fone fzero (fa_sq a) (fa_sum a) dN) in
      mkfstats N (fa_min a) (fa_max a) (mean_shape fops (fa_sum a) dN) sd
               (div_range_shape fops fone (fa_max a) (fa_min a) eps) (mul_range_shape fops (fa_max a) (fa_min a) eps)
               (div_stdev_shape fops fone sd eps) (mul_stdev_shape fops sd eps)
    else if src_c14_none N then mkfstats N fzero fzero fzero fzero fone fone fone fone
    else mkfstats N (fa_min a) (fa_max a) (fa_sum a) fzero fone fone fone fone in
  if src_c14_disabled i esize eflag then fstats_off N else st.

Definition fcol_stats (eps big : float) (i esize eflag : Z) (col : list float) : fstats :=
  fdone eps i esize eflag (faccumulate (facc0 big) col).

(* ---- make_scaling / nano::upscale, the element-wise part --------------------------------------------------------------- *)
Definition fmk_w (m : mode) (s : fstats) : float := mk_w_shape fone m (f_div_range s) (f_div_stdev s).
Definition fmk_b (m : mode) (s : fstats) : float :=
  mk_b_shape fops fzero m (f_mean s) (f_min s) (f_div_range s) (f_div_stdev s).
(* W'(i, j) = W(i, j) / targets_w(i) * flatten_w(j) *)
Definition fup_w (fm tm : mode) (f t : fstats) (w : float) : float := up_w_shape fops w (fmk_w tm t) (fmk_w fm f).
(* bias'(i) given the value [d] of (W . flatten_b)(i) (an Eigen reduction: not reproducible, see C14_Float.v) *)
Definition fup_b (tm : mode) (t : fstats) (d b : float) : float := up_b_shape fops d b (fmk_b tm t) (fmk_w tm t).
(* one product of that reduction *)
Definition fup_term (fm : mode) (f : fstats) (w : float) : float := PrimFloat.mul w (fmk_b fm f).

(* bit-level comparison used by the driver: same value, NaN = NaN, +0 <> -0 is reported by [feq_bits] = false *)
Definition feq_bits (a b : float) : bool :=
  match PrimFloat.compare a b with
  | FEq => Bool.eqb (PrimFloat.ltb (PrimFloat.div fone a) fzero) (PrimFloat.ltb (PrimFloat.div fone b) fzero)
  | FNotComparable => negb (PrimFloat.eqb a a) && negb (PrimFloat.eqb b b)
  | _ => false
  end.

(* ---- constants of the non-vacuity examples (Properties_C14.v does not import Floats, see there) -------------------------- *)
Definition fl1 : float := 1%float.   Definition fl2 : float := 2%float.   Definition fl3 : float := 3%float.
Definition fl4 : float := 4%float.   Definition fl5 : float := 5%float.
Definition fl025 : float := 0.25%float.   Definition fl05 : float := 0.5%float.   Definition flnan : float := nan.
Definition ex_feps : float := 0x1.5798ee2308c3ap-27%float.           (* 1e-8 = epsilon2<double>() *)
Definition ex_fbig : float := 0x1.fffffffffffffp+1023%float.          (* numeric_limits<double>::max() *)
Definition ex_fcol : list float := [fl1; flnan; fl3; fl5].
Definition ex_fst : fstats := fcol_stats ex_feps ex_fbig 0 1 1 ex_fcol.

(* ---- "no overflow in the variance": the running sums and the two intermediates that can overflow are finite ------------- *)
Definition var_finite (a : facc) : bool :=
  let dN := float_of_count (fa_n a) in
  let p := PrimFloat.mul (fa_sum a) (fa_sum a) in
  PrimFloat.is_finite (fa_sum a) && PrimFloat.is_finite (fa_sq a) && PrimFloat.is_finite p &&
  PrimFloat.is_finite (PrimFloat.sub (fa_sq a) (PrimFloat.div p dN)).
